(* InferCommon.v — C04: the common type accepts both operands (common_ub).
   Uses reflexivity of assignability (LatticeOrder.asg_refl, C03) and monotonicity of NotUndef / Type. *)
From Coq Require Import ZArith NArith Bool List Lia.
From PcoreV Require Import Model.Base Model.Ty Model.Lattice Model.Infer Proofs.LatticeUnfold Proofs.LatticeBasics
  Proofs.LatticeOrder Proofs.InferProofs.
Import ListNotations.
Open Scope Z_scope.

(* no constructor outside the model anywhere: excludes the out-of-fuel marker and the aliases Data / RichData
   (which are no constructors of `ty`: missing constructor TAlias) *)
Fixpoint no_other (t : ty) : bool :=
  match t with
  | TOther _ => false
  | TArray e _ _ => no_other e
  | THash k v _ _ => no_other k && no_other v
  | TTuple ts _ _ _ => forallb no_other ts
  | TStruct ms => forallb (fun m => no_other (fst (snd m)) && no_other (snd (snd m))) ms
  | TVariant ts => forallb no_other ts
  | TOptional t | TNotUndef t | TType t | TSensitive t => no_other t
  | _ => true
  end.

Lemma mem_str_In s l : mem_str s l = true <-> In s l.
Proof.
  unfold mem_str. rewrite existsb_exists. split.
  - intros (y & Hy & He). apply str_eqb_eq in He. now subst.
  - intros H. exists s. split; [assumption|apply str_eqb_refl].
Qed.

Lemma sdedup_from_in seen l x : In x l -> In x seen \/ In x (sdedup_from seen l).
Proof.
  revert seen. induction l as [|y l IH]; intros seen Hx; [destruct Hx|]. cbn [sdedup_from].
  destruct (mem_str y seen) eqn:Em.
  - destruct Hx as [<-|Hx]; [left; apply mem_str_In; assumption|auto].
  - destruct Hx as [<-|Hx]; [right; left; reflexivity|].
    destruct (IH (seen ++ [y]) Hx) as [Hs|Hs]; [|right; right; assumption].
    apply in_app_or in Hs. destruct Hs as [Hs|[<-|[]]]; [left; assumption|right; left; reflexivity].
Qed.

Lemma sdedup_in x l : In x l -> In x (sdedup l).
Proof. intros H. destruct (sdedup_from_in [] l x H) as [[]|H']. exact H'. Qed.

Section CommonUb.
  Variable rx : str -> str -> bool.
  Notation A := (asg rx true).
  Notation R := (recv rx true (asg rx true)).
  Notation C := (common_f rx).

  (* where the proof stops: the merge of two Tuple types folds commonType over the element types and needs
     transitivity of assignability (C03, which the by-specification rule and Unit break — open findings);
     the merge of two Variants needs UniqueTypes to drop only structurally equal members *)
  Definition merge_ok (ok : ty -> ty -> bool) (a b : ty) : bool :=
    match a, b with
    | TArray e _ _, TArray e' _ _ => ok e e'
    | TNotUndef t, TNotUndef t' => ok t t'
    | TType t, TType t' => ok t t'
    | TTuple _ _ _ _, TTuple _ _ _ _ => false
    | TVariant ts, TVariant ts' => dedup_exact (ts ++ ts')
    | _, _ => true
    end.

  Fixpoint common_ok (n : nat) (a b : ty) {struct n} : bool :=
    match n with
    | O => true
    | S n' =>
        if is_unit a then true else if is_unit b then true
        else if A a b then true else if A b a then true
        else match string_merge a b with
             | Some _ => true
             | None => merge_ok (common_ok n') a b
             end
    end.

  Lemma refl a : wf_ty a = true -> A a a = true.
  Proof. apply LatticeOrder.asg_refl. Qed.

  Lemma is_unit_eq a : is_unit a = true -> a = TUnit.
  Proof. destruct a; try discriminate; reflexivity. Qed.

  (* ---- string merges ---- *)
  Definition stringish (b : ty) : bool :=
    match b with TString | TStringSz _ _ | TStringVal _ | TEnum _ _ | TPattern _ => true | _ => false end.

  Lemma enum_nil_accepts ci b : stringish b = true -> A (TEnum ci []) b = true.
  Proof. intros H. apply (is_any_false_recv rx true); destruct b; try discriminate; reflexivity. Qed.

  Lemma string_accepts b : stringish b = true -> A TString b = true.
  Proof. intros H. apply (is_any_false_recv rx true); destruct b; try discriminate; reflexivity. Qed.

  Lemma enum_inst_in cc U s : In s U -> enum_inst cc (if cc then map lower_ascii U else U) s = true.
  Proof.
    intros Hs. unfold enum_inst. destruct cc.
    - destruct (map lower_ascii U) eqn:E; [reflexivity|]. rewrite <- E. apply mem_str_In. apply in_map. assumption.
    - destruct U eqn:E; [reflexivity|]. rewrite <- E. apply mem_str_In. rewrite E. assumption.
  Qed.

  Lemma mk_enum_accepts_strval U cc s : In s U -> A (mk_enum U cc) (TStringVal s) = true.
  Proof.
    intros Hs. unfold mk_enum. apply (is_any_false_recv rx true); [reflexivity|]. cbn [recv].
    pose proof (enum_inst_in cc U s Hs) as He. destruct (if cc then map lower_ascii U else U); [reflexivity|exact He].
  Qed.

  Lemma mk_enum_accepts_enum U cc ci vs :
    vs <> [] -> cc || negb ci = true -> (forall v, In v vs -> In v U) -> A (mk_enum U cc) (TEnum ci vs) = true.
  Proof.
    intros Hne Hcc Hin. unfold mk_enum. apply (is_any_false_recv rx true); [reflexivity|]. cbn [recv].
    assert (Hall : forallb (enum_inst cc (if cc then map lower_ascii U else U)) vs = true).
    { apply forallb_forall. intros v Hv. apply enum_inst_in. auto. }
    destruct (if cc then map lower_ascii U else U) eqn:E; [reflexivity|]. rewrite Hcc, Hall.
    destruct vs; [congruence|reflexivity].
  Qed.

  Lemma size_sub_minmax_l lo hi lo' hi' : size_sub (Z.min lo lo') (Z.max hi hi') lo hi = true.
  Proof. unfold size_sub. apply andb_true_iff. split; apply Z.leb_le; lia. Qed.
  Lemma size_sub_minmax_r lo hi lo' hi' : size_sub (Z.min lo lo') (Z.max hi hi') lo' hi' = true.
  Proof. unfold size_sub. apply andb_true_iff. split; apply Z.leb_le; lia. Qed.

  Lemma mk_string_sz_accepts lo hi lo' hi' : size_sub lo hi lo' hi' = true -> A (mk_string_sz lo hi) (TStringSz lo' hi') = true.
  Proof.
    intros H. unfold mk_string_sz. destruct ((lo =? 0) && (hi =? MaxI)).
    - apply string_accepts. reflexivity.
    - apply (is_any_false_recv rx true); [reflexivity|]. exact H.
  Qed.

  Lemma string_merge_ub a b c :
    string_merge a b = Some c -> A a b = false -> A b a = false -> A c a = true /\ A c b = true.
  Proof.
    intros Hm Hab Hba. destruct a; try discriminate Hm; destruct b; try discriminate Hm; cbn [string_merge] in Hm;
      injection Hm as <-; try (split; apply string_accepts; reflexivity).
    - (* StringSz + StringSz *) cbn [common_range fst snd]. split; apply mk_string_sz_accepts.
      + apply size_sub_minmax_l.
      + apply size_sub_minmax_r.
    - (* StringVal + StringVal *) split; apply (is_any_false_recv rx true); try reflexivity; cbn [recv enum_inst mem_str existsb].
      + rewrite str_eqb_refl. reflexivity.
      + rewrite str_eqb_refl. apply orb_true_r.
    - (* StringVal + Enum *)
      assert (Hne : vs <> []) by (intros ->; rewrite enum_nil_accepts in Hba by reflexivity; discriminate).
      split.
      + apply mk_enum_accepts_strval. apply sdedup_in. apply in_or_app. right. left. reflexivity.
      + apply mk_enum_accepts_enum; [assumption|destruct ci; reflexivity|].
        intros v Hv. apply sdedup_in. apply in_or_app. left. assumption.
    - (* Enum + StringVal *)
      assert (Hne : vs <> []) by (intros ->; rewrite enum_nil_accepts in Hab by reflexivity; discriminate).
      split.
      + apply mk_enum_accepts_enum; [assumption|destruct ci; reflexivity|].
        intros v Hv. apply sdedup_in. apply in_or_app. left. assumption.
      + apply mk_enum_accepts_strval. apply sdedup_in. apply in_or_app. right. left. reflexivity.
    - (* Enum + Enum *)
      assert (Hne : vs <> []) by (intros ->; rewrite enum_nil_accepts in Hab by reflexivity; discriminate).
      assert (Hne' : vs0 <> []) by (intros ->; rewrite enum_nil_accepts in Hba by reflexivity; discriminate).
      split; apply mk_enum_accepts_enum; try assumption.
      + destruct ci, ci0; reflexivity.
      + intros v Hv. apply sdedup_in. apply in_or_app. left. assumption.
      + destruct ci, ci0; reflexivity.
      + intros v Hv. apply sdedup_in. apply in_or_app. right. assumption.
  Qed.

  (* ---- the ladder ---- *)
  Lemma ladder_ub a b : no_other (ladder rx a b) = true -> A (ladder rx a b) a = true /\ A (ladder rx a b) b = true.
  Proof.
    unfold ladder. intros Hn.
    destruct (A TNumeric a && A TNumeric b) eqn:E1; [apply andb_true_iff in E1; exact E1|].
    destruct (A TScalarData a && A TScalarData b) eqn:E2; [apply andb_true_iff in E2; exact E2|].
    destruct (A TScalar a && A TScalar b) eqn:E3; [apply andb_true_iff in E3; exact E3|].
    destruct (data_asg rx a && data_asg rx b); [discriminate Hn|].
    destruct (rich_asg rx a && rich_asg rx b); [discriminate Hn|].
    split; apply asg_any_l.
  Qed.

  Lemma mk_variant_accepts us t : In t us -> wf_ty t = true -> A (mk_variant us) t = true.
  Proof.
    intros Hin Hw. destruct us as [|u0 [|u1 us]].
    - destruct Hin.
    - destruct Hin as [<-|[]]. apply refl. assumption.
    - cbn [mk_variant]. apply (variant_intro rx true _ t Hin). apply refl. assumption.
  Qed.

  Lemma pattern_nil_accepts b : stringish b = true -> A (TPattern []) b = true.
  Proof. intros H. apply (is_any_false_recv rx true); destruct b; try discriminate; reflexivity. Qed.

  Lemma pattern_merge_accepts U rxs : rxs <> [] -> (forall p, In p rxs -> In p U) -> A (TPattern U) (TPattern rxs) = true.
  Proof.
    intros Hne Hin. apply (is_any_false_recv rx true); [reflexivity|]. cbn [recv].
    destruct U as [|u U]; [reflexivity|].
    assert (Hall : forallb (fun p => mem_str p (u :: U)) rxs = true).
    { apply forallb_forall. intros p Hp. apply mem_str_In. auto. }
    rewrite Hall. destruct rxs; [congruence|reflexivity].
  Qed.

  Theorem common_f_ub : forall n a b,
    common_ok n a b = true -> wf_ty a = true -> wf_ty b = true -> no_other (C n a b) = true ->
    A (C n a b) a = true /\ A (C n a b) b = true.
  Proof.
    induction n as [|n IH]; intros a b Hok Hwa Hwb Hno; [discriminate Hno|].
    cbn [common_f common_ok] in *.
    destruct (is_unit a) eqn:Ua.
    { apply is_unit_eq in Ua. subst. split; [apply asg_unit_r|apply refl; assumption]. }
    destruct (is_unit b) eqn:Ub.
    { apply is_unit_eq in Ub. subst. split; [apply refl; assumption|apply asg_unit_r]. }
    destruct (A a b) eqn:Hab; [split; [apply refl; assumption|exact Hab]|].
    destruct (A b a) eqn:Hba; [split; [exact Hba|apply refl; assumption]|].
    destruct (string_merge a b) as [c|] eqn:Es; [eapply string_merge_ub; eassumption|].
    destruct a; try (apply ladder_ub; exact Hno); destruct b; try (apply ladder_ub; exact Hno);
      cbn [merge_same merge_ok common_range fst snd] in *.
    - (* Integer *) split; apply (is_any_false_recv rx true); try reflexivity; cbn [recv];
        [apply size_sub_minmax_l|apply size_sub_minmax_r].
    - (* Float *) split; apply (is_any_false_recv rx true); try reflexivity; cbn [recv];
        [apply size_sub_minmax_l|apply size_sub_minmax_r].
    - (* Pattern *)
      assert (Hne : rxs <> []) by (intros ->; rewrite pattern_nil_accepts in Hab by reflexivity; discriminate).
      assert (Hne' : rxs0 <> []) by (intros ->; rewrite pattern_nil_accepts in Hba by reflexivity; discriminate).
      split; apply pattern_merge_accepts; try assumption; intros p Hp; apply sdedup_in; apply in_or_app; auto.
    - (* Array *) cbn [wf_ty no_other] in *. destruct (IH a b Hok Hwa Hwb Hno) as [H1 H2].
      split; apply (is_any_false_recv rx true); try reflexivity; cbn [recv].
      + rewrite size_sub_minmax_l, H1. cbn [andb]. apply orb_true_r.
      + rewrite size_sub_minmax_r, H2. cbn [andb]. apply orb_true_r.
    - (* Tuple: not covered *) discriminate Hok.
    - (* Variant *) cbn [wf_ty] in Hwa, Hwb. rewrite forallb_forall in Hwa, Hwb. split; rewrite asg_variant_r; apply orb_true_iff; right;
        apply forallb_forall; intros t Ht; apply mk_variant_accepts; auto; apply dedup_exact_in; try assumption;
        apply in_or_app; auto.
    - (* NotUndef *) cbn [wf_ty no_other] in *. destruct (IH a b Hok Hwa Hwb Hno) as [H1 H2].
      split; apply LatticeOrder.mono_notundef; assumption.
    - (* Type *) cbn [wf_ty no_other] in *. destruct (IH a b Hok Hwa Hwb Hno) as [H1 H2].
      split; apply LatticeOrder.mono_type; assumption.
  Qed.

  Theorem common_ub a b :
    common_ok (S (tsize a + tsize b)) a b = true -> wf_ty a = true -> wf_ty b = true ->
    no_other (common rx a b) = true ->
    A (common rx a b) a = true /\ A (common rx a b) b = true.
  Proof. apply common_f_ub. Qed.

  (* ---- when the result is the alias Data (resp. RichData): both operands are accepted by the alias as a
     receiver, i.e. by the model data_asg (rich_asg) of isAssignable(Data, .) ---- *)
  Lemma other_accepts_data s : forall b, A (TOther s) b = true -> data_asg rx b = true /\ rich_asg rx b = true.
  Proof.
    induction b using ty_ind'; intros Ha; rewrite asg_unfold in Ha; unfold gstep in Ha; cbn [is_any] in Ha;
      try discriminate Ha.
    - split; reflexivity.
    - (* Variant *) cbn [data_asg rich_asg]. rewrite forallb_forall in Ha. rewrite Forall_forall in H.
      split; apply forallb_forall; intros t Ht; apply (H t Ht); auto.
    - (* NotUndef *) destruct (A (TOther s) b) eqn:E.
      + destruct (IHb eq_refl) as [H1 H2]. cbn [data_asg rich_asg]. rewrite H1, H2. split; reflexivity.
      + cbn [recv] in Ha. destruct (Lattice.nullable b); discriminate Ha.
  Qed.
End CommonUb.
