(* QuoteLexUtf8.v — C05 layer L1: UTF-8 encoding and decoding are inverse; helper tactics. *)
From Coq Require Import ZArith NArith Bool Lia List Zify.
From PcoreV Require Import Model.Base Model.QuoteLex.
Import ListNotations.
Open Scope N_scope.

Ltac Zify.zify_post_hook ::= Z.to_euclidean_division_equations.

(* decide the comparisons of a goal / hypothesis by linear arithmetic *)
Ltac nb1 :=
  match goal with
  | |- context [N.ltb ?a ?b] =>
    first [ replace (N.ltb a b) with true by (symmetry; apply N.ltb_lt; lia)
          | replace (N.ltb a b) with false by (symmetry; apply N.ltb_ge; lia) ]
  | |- context [N.leb ?a ?b] =>
    first [ replace (N.leb a b) with true by (symmetry; apply N.leb_le; lia)
          | replace (N.leb a b) with false by (symmetry; apply N.leb_gt; lia) ]
  | |- context [N.eqb ?a ?b] =>
    first [ replace (N.eqb a b) with true by (symmetry; apply N.eqb_eq; lia)
          | replace (N.eqb a b) with false by (symmetry; apply N.eqb_neq; lia) ]
  end.
Ltac nb := repeat (nb1; cbn [andb orb negb]).

(* ------------------------------------------------------------------------------------------ *)
(* UTF-8: EncodeRune and DecodeRune are inverse on scalar values                                *)

Lemma valid_rune_spec r : valid_rune r = true <-> (r < 55296 \/ (57344 <= r /\ r <= 1114111)).
Proof.
  unfold valid_rune. rewrite orb_true_iff, andb_true_iff, N.ltb_lt, !N.leb_le. tauto.
Qed.

Lemma encode_rune_nonempty r : encode_rune r <> [].
Proof.
  unfold encode_rune.
  destruct (r <? 128); [discriminate|]. destruct (r <? 2048); [discriminate|].
  destruct (negb (valid_rune r)); [discriminate|]. destruct (r <? 65536); discriminate.
Qed.

Lemma encode_rune_length r : (1 <= length (encode_rune r))%nat.
Proof.
  generalize (encode_rune_nonempty r). destruct (encode_rune r); [congruence|cbn; lia].
Qed.

Lemma decode_encode r k : valid_rune r = true -> decode_valid (encode_rune r ++ k) = Some (r, k).
Proof.
  intros Hv. apply valid_rune_spec in Hv.
  unfold encode_rune.
  destruct (N.ltb_spec r 128) as [H1|H1].
  { cbn [app decode_valid]. nb. reflexivity. }
  destruct (N.ltb_spec r 2048) as [H2|H2].
  { cbn [app decode_valid]. unfold is_cont. nb. f_equal. f_equal. lia. }
  replace (negb (valid_rune r)) with false
    by (symmetry; apply negb_false_iff; apply valid_rune_spec; exact Hv).
  destruct (N.ltb_spec r 65536) as [H3|H3].
  { cbn [app decode_valid]. unfold is_cont.
    assert (Hq : r / 4096 <= 15) by lia.
    destruct (N.eq_dec (r / 4096) 0) as [E0|E0].
    { replace (224 + r / 4096) with 224 by lia. cbn [N.ltb N.leb N.eqb N.compare Pos.compare Pos.compare_cont andb Pos.eqb].
      nb. f_equal. f_equal. lia. }
    destruct (N.eq_dec (r / 4096) 13) as [E13|E13].
    { replace (224 + r / 4096) with 237 by lia. cbn [N.ltb N.leb N.eqb N.compare Pos.compare Pos.compare_cont andb Pos.eqb].
      nb. f_equal. f_equal. lia. }
    nb. f_equal. f_equal. lia. }
  cbn [app decode_valid]. unfold is_cont.
  destruct (N.eq_dec (r / 262144) 0) as [E0|E0].
  { replace (240 + r / 262144) with 240 by lia. cbn [N.ltb N.leb N.eqb N.compare Pos.compare Pos.compare_cont andb Pos.eqb].
    nb. f_equal. f_equal. lia. }
  destruct (N.eq_dec (r / 262144) 4) as [E4|E4].
  { replace (240 + r / 262144) with 244 by lia. cbn [N.ltb N.leb N.eqb N.compare Pos.compare Pos.compare_cont andb Pos.eqb].
    nb. f_equal. f_equal. lia. }
  nb. f_equal. f_equal. lia.
Qed.

(* booleans of a hypothesis into arithmetic facts *)
Ltac bprop H :=
  repeat match type of H with
         | _ && _ = true => let H' := fresh H in apply andb_true_iff in H; destruct H as [H H']; bprop H'
         end;
  try (apply N.leb_le in H); try (apply N.ltb_lt in H); try (apply N.eqb_eq in H).

Lemma decode_valid_inv s r rest :
  decode_valid s = Some (r, rest) -> valid_rune r = true /\ s = encode_rune r ++ rest.
Proof.
  unfold decode_valid. destruct s as [|b0 t]; [discriminate|].
  destruct (N.ltb_spec b0 128) as [H1|H1].
  { intros E; injection E as <- <-. split; [apply valid_rune_spec; lia|].
    unfold encode_rune. nb. reflexivity. }
  destruct ((194 <=? b0) && (b0 <=? 223)) eqn:R2.
  { bprop R2. destruct t as [|b1 t1]; [discriminate|]. unfold is_cont.
    destruct ((128 <=? b1) && (b1 <=? 191)) eqn:C1; [|discriminate]. bprop C1.
    intros E; injection E as <- <-. split; [apply valid_rune_spec; lia|].
    unfold encode_rune. nb. cbn [app]. f_equal; [lia|]. f_equal; lia. }
  destruct ((224 <=? b0) && (b0 <=? 239)) eqn:R3.
  { bprop R3. destruct t as [|b1 [|b2 t2]]; try discriminate. unfold is_cont.
    match goal with |- (if ?c then _ else _) = _ -> _ => destruct c eqn:C1; [|discriminate] end.
    apply andb_true_iff in C1; destruct C1 as [C1 C3]. apply andb_true_iff in C1; destruct C1 as [C1 C2].
    bprop C3. apply N.leb_le in C1, C2.
    intros E; injection E as <- <-.
    assert (Hlo : b0 = 224 -> 160 <= b1) by (intros ->; exact C1).
    assert (Hlo' : 128 <= b1) by (destruct (b0 =? 224); lia).
    assert (Hhi : b0 = 237 -> b1 <= 159) by (intros ->; exact C2).
    assert (Hhi' : b1 <= 191) by (destruct (b0 =? 237); lia).
    clear C1 C2.
    set (r := (b0 - 224) * 4096 + (b1 - 128) * 64 + (b2 - 128)).
    assert (Hr : 2048 <= r /\ r < 65536 /\ (r < 55296 \/ 57344 <= r)).
    { subst r. destruct (N.eq_dec b0 224) as [E|E]; [specialize (Hlo E)|];
        (destruct (N.eq_dec b0 237) as [E'|E']; [specialize (Hhi E')|]); lia. }
    split; [apply valid_rune_spec; lia|].
    unfold encode_rune.
    replace (negb (valid_rune r)) with false
      by (symmetry; apply negb_false_iff; apply valid_rune_spec; lia).
    nb. cbn [app]. subst r. f_equal; [lia|]. f_equal; [lia|]. f_equal; lia. }
  destruct ((240 <=? b0) && (b0 <=? 244)) eqn:R4; [|discriminate].
  bprop R4. destruct t as [|b1 [|b2 [|b3 t3]]]; try discriminate. unfold is_cont.
  match goal with |- (if ?c then _ else _) = _ -> _ => destruct c eqn:C1; [|discriminate] end.
  apply andb_true_iff in C1; destruct C1 as [C1 C4]. apply andb_true_iff in C1; destruct C1 as [C1 C3].
  apply andb_true_iff in C1; destruct C1 as [C1 C2].
  bprop C3. bprop C4. apply N.leb_le in C1, C2.
  intros E; injection E as <- <-.
  assert (Hlo : b0 = 240 -> 144 <= b1) by (intros ->; exact C1).
  assert (Hlo' : 128 <= b1) by (destruct (b0 =? 240); lia).
  assert (Hhi : b0 = 244 -> b1 <= 143) by (intros ->; exact C2).
  assert (Hhi' : b1 <= 191) by (destruct (b0 =? 244); lia).
  clear C1 C2.
  set (r := (b0 - 240) * 262144 + (b1 - 128) * 4096 + (b2 - 128) * 64 + (b3 - 128)).
  assert (Hr : 65536 <= r /\ r <= 1114111).
  { subst r. destruct (N.eq_dec b0 240) as [E|E]; [specialize (Hlo E)|];
      (destruct (N.eq_dec b0 244) as [E'|E']; [specialize (Hhi E')|]); lia. }
  split; [apply valid_rune_spec; lia|].
  unfold encode_rune.
  replace (negb (valid_rune r)) with false
    by (symmetry; apply negb_false_iff; apply valid_rune_spec; lia).
  nb. cbn [app]. subst r. f_equal; [lia|]. f_equal; [lia|]. f_equal; [lia|]. f_equal; lia.
Qed.

Lemma decode_valid_shorter s r rest : decode_valid s = Some (r, rest) -> (length rest < length s)%nat.
Proof.
  intros H. apply decode_valid_inv in H. destruct H as [_ ->].
  rewrite app_length. generalize (encode_rune_length r). lia.
Qed.

(* a valid UTF-8 string is the encoding of a list of scalar values *)
Lemma valid_utf8_fuel_decompose n : forall s,
  (length s <= n)%nat -> valid_utf8_fuel n s = true ->
  exists rs, forallb valid_rune rs = true /\ s = encode_runes rs.
Proof.
  induction n as [|n IH]; intros s Hl Hv.
  - destruct s; [|cbn in Hl; lia]. exists []. split; reflexivity.
  - cbn [valid_utf8_fuel] in Hv. destruct s as [|b t]; [exists []; split; reflexivity|].
    destruct (decode_valid (b :: t)) as [[r rest]|] eqn:D; [|discriminate].
    pose proof (decode_valid_shorter _ _ _ D) as Hs.
    apply decode_valid_inv in D. destruct D as [Hr E].
    destruct (IH rest) as [rs [Hrs Es]]; [cbn in Hl, Hs; lia|exact Hv|].
    exists (r :: rs). split; [cbn [forallb]; rewrite Hr, Hrs; reflexivity|].
    unfold encode_runes in *. cbn [flat_map]. rewrite <- Es. exact E.
Qed.

Lemma valid_utf8_decompose s :
  valid_utf8 s = true -> exists rs, forallb valid_rune rs = true /\ s = encode_runes rs.
Proof. intros H. apply (valid_utf8_fuel_decompose (length s)); [lia|exact H]. Qed.

Lemma sr_next_encode r k : valid_rune r = true -> sr_next (encode_rune r ++ k) = (r, k).
Proof.
  intros Hv. unfold sr_next, decode_rune. rewrite (decode_encode r k Hv).
  generalize (encode_rune_nonempty r). destruct (encode_rune r); [congruence|reflexivity].
Qed.

Lemma runes_fuel_encode n : forall rs,
  forallb valid_rune rs = true -> (length (encode_runes rs) <= n)%nat ->
  runes_fuel n (encode_runes rs) = rs.
Proof.
  induction n as [|n IH]; intros rs Hv Hl.
  - destruct rs as [|r rs]; [reflexivity|]. unfold encode_runes in Hl. cbn [flat_map] in Hl.
    rewrite app_length in Hl. generalize (encode_rune_length r). lia.
  - destruct rs as [|r rs]; [reflexivity|].
    cbn [forallb] in Hv. apply andb_true_iff in Hv. destruct Hv as [Hr Hrs].
    unfold encode_runes in *. cbn [flat_map] in *. cbn [runes_fuel].
    assert (Hl' : (length (flat_map encode_rune rs) <= n)%nat).
    { rewrite app_length in Hl. generalize (encode_rune_length r). lia. }
    destruct (encode_rune r ++ flat_map encode_rune rs) eqn:E.
    { exfalso. apply app_eq_nil in E. destruct E as [E _]. exact (encode_rune_nonempty r E). }
    rewrite <- E. unfold decode_rune. rewrite (decode_encode r _ Hr). f_equal.
    apply IH; [exact Hrs|exact Hl'].
Qed.

Lemma runes_encode rs : forallb valid_rune rs = true -> runes (encode_runes rs) = rs.
Proof. intros H. apply runes_fuel_encode; [exact H|lia]. Qed.

(* ------------------------------------------------------------------------------------------ *)
(* strings                                                                                      *)

Lemma sr_next_ascii b t : b < 128 -> sr_next (b :: t) = (b, t).
Proof.
  intros H. unfold sr_next, decode_rune, decode_valid. nb. reflexivity.
Qed.

Lemma encode_rune_ascii b : b < 128 -> encode_rune b = [b].
Proof. intros H. unfold encode_rune. nb. reflexivity. Qed.

Lemma N_lt_32_cases c : c < 32 ->
  In c [0;1;2;3;4;5;6;7;8;9;10;11;12;13;14;15;16;17;18;19;20;21;22;23;24;25;26;27;28;29;30;31].
Proof.
  intros H. destruct c as [|p]; [left; reflexivity|].
  do 5 (try (destruct p as [p|p|])); try (exfalso; lia);
    cbn [In]; repeat (try (left; reflexivity); right).
Qed.

