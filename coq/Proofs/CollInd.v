(* CollInd.v — induction principle for the nested value trees of Model/Coll.v *)
From Coq Require Import ZArith NArith Bool List.
From PcoreV Require Import Model.Base Model.Coll.
Import ListNotations.

Section PvInd.
  Variable Q : pv -> Prop.
  Hypothesis HUndef : Q PUndef.
  Hypothesis HBool : forall b, Q (PBool b).
  Hypothesis HInt : forall z, Q (PInt z).
  Hypothesis HStr : forall s, Q (PStr s).
  Hypothesis HArr : forall l, Forall Q l -> Q (PArr l).
  Hypothesis HHash : forall es, Forall (fun e => Q (fst e) /\ Q (snd e)) es -> Q (PHash es).
  Hypothesis HEntry : forall k v, Q k -> Q v -> Q (PEntry k v).
  Hypothesis HNil : Q PNil.
  Hypothesis HCut : Q PCut.
  Hypothesis HBad : Q PBad.
  Fixpoint pv_ind' (p : pv) : Q p :=
    match p with
    | PUndef => HUndef
    | PBool b => HBool b
    | PInt z => HInt z
    | PStr s => HStr s
    | PArr l => HArr l ((fix go (l : list pv) : Forall Q l :=
                           match l with [] => Forall_nil Q | x :: t => Forall_cons x (pv_ind' x) (go t) end) l)
    | PHash es => HHash es ((fix go (l : list (pv * pv)) : Forall (fun e => Q (fst e) /\ Q (snd e)) l :=
                               match l with
                               | [] => Forall_nil _
                               | (k, v) :: t => Forall_cons (k, v) (conj (pv_ind' k) (pv_ind' v)) (go t)
                               end) es)
    | PEntry k v => HEntry k v (pv_ind' k) (pv_ind' v)
    | PNil => HNil
    | PCut => HCut
    | PBad => HBad
    end.
End PvInd.
