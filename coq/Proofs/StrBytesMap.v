(* StrBytesMap.v — C02, strings as bytes: strings.Map / strings.ToLower as written (prefix scan, then rewrite) IS
   decode / map / encode. *)
From Coq Require Import ZArith NArith Bool List Lia.
From PcoreV Require Import Model.Base Model.Ty Model.Lattice Model.Spec Model.StrBytes Proofs.StrBytesProofs
  Proofs.StrBytesInst Proofs.StrBytesEncode.
Import ListNotations.
Open Scope Z_scope.

(* one iteration, with the bytes it took: unless it is an error step, they are the encoding of its code point *)
Lemma step_encode b0 r : exists st rest,
  steps (b0 :: r) = st :: steps rest /\ skipn (snd st) (b0 :: r) = rest /\ (length rest < length (b0 :: r))%nat /\
  (err_step st = false -> encode_rune (fst st) ++ rest = b0 :: r).
Proof.
  rewrite steps_cons.
  assert (E : exists st rest, (RuneError, 1%nat) :: steps r = st :: steps rest /\ skipn (snd st) (b0 :: r) = rest /\
                              (length rest < length (b0 :: r))%nat /\
                              (err_step st = false -> encode_rune (fst st) ++ rest = b0 :: r)).
  { exists (RuneError, 1%nat), r. repeat split; [cbn [length]; lia|discriminate]. }
  destruct (first b0) as [| |sz lo hi] eqn:F.
  - apply first_ascii in F. exists (b0, 1%nat), r. repeat split; [cbn [length]; lia|].
    intros _. cbn [fst]. unfold encode_rune. destruct (N.ltb_spec b0 128); [reflexivity|lia].
  - exact E.
  - destruct r as [|b1 r1]; [exact E|].
    destruct (in_rng lo hi b1) eqn:R1; cbn [negb]; [|exact E].
    apply in_rng_bounds in R1.
    destruct (first_multi_precise _ _ _ _ F) as [(-> & Hb & -> & ->)|[(-> & Hb & Hlo & Hhi & H224 & H237)|(-> & Hb & Hlo & Hhi & H240 & H244)]];
      cbv beta iota.
    + exists (cp2 b0 b1, 2%nat), r1. repeat split; [cbn [length]; lia|].
      intros _. cbn [fst]. rewrite enc_cp2 by lia. reflexivity.
    + destruct r1 as [|b2 r2]; [exact E|].
      destruct (is_cont b2) eqn:R2; cbn [negb]; [|exact E].
      apply in_rng_bounds in R2.
      exists (cp3 b0 b1 b2, 3%nat), r2. repeat split; [cbn [length]; lia|].
      intros _. cbn [fst].
      rewrite enc_cp3; [reflexivity|lia|lia|lia|intros X; specialize (H224 X); lia|intros X; specialize (H237 X); lia].
    + destruct r1 as [|b2 r2]; [exact E|].
      destruct (is_cont b2) eqn:R2; cbn [negb]; [|exact E].
      destruct r2 as [|b3 r3]; [exact E|].
      destruct (is_cont b3) eqn:R3; cbn [negb]; [|exact E].
      apply in_rng_bounds in R2. apply in_rng_bounds in R3.
      exists (cp4 b0 b1 b2 b3, 4%nat), r3. repeat split; [cbn [length]; lia|].
      intros _. cbn [fst].
      rewrite enc_cp4; [reflexivity|lia|lia|lia|lia|intros X; specialize (H240 X); lia|intros X; specialize (H244 X); lia].
Qed.

Section MapEq.
  Variable lc : N -> N.

  Lemma encode_cons c cs : encode (c :: cs) = encode_rune c ++ encode cs.
  Proof. reflexivity. Qed.

  (* phase 1 found nothing: decode / map / encode gives the argument back; otherwise phase 2 writes exactly
     decode / map / encode of the argument *)
  Lemma map_scan_spec s :
    match map_scan lc (steps s) s with
    | None => encode (map lc (decode s)) = s
    | Some out => out = encode (map lc (decode s))
    end.
  Proof.
    induction s as [s IH] using str_len_ind. destruct s as [|b0 r]; [reflexivity|].
    destruct (step_encode b0 r) as ([c w] & rest & Es & Sk & L & En).
    unfold decode in *. rewrite Es. cbn [map_scan map fst]. cbn [snd] in Sk. rewrite Sk.
    rewrite encode_cons.
    destruct (N.eqb (lc c) c && negb (err_step (c, w)))%bool eqn:C.
    - apply andb_true_iff in C. destruct C as (C1 & C2). apply N.eqb_eq in C1. apply negb_true_iff in C2.
      specialize (En C2). cbn [fst] in En. specialize (IH rest L).
      assert (Fw : firstn w (b0 :: r) = encode_rune c).
      { pose proof (firstn_skipn w (b0 :: r)) as FS. rewrite Sk, <- En in FS. apply app_inv_tail in FS. rewrite <- En. exact FS. }
      destruct (map_scan lc (steps rest) rest) as [out|].
      + rewrite Fw, C1, IH. reflexivity.
      + rewrite C1, IH. exact En.
    - reflexivity.
  Qed.

  (* strings.Map as written = decode, map every code point, encode *)
  Theorem go_map_is_decode_map_encode s : go_map lc s = encode (map lc (decode s)).
  Proof.
    unfold go_map. pose proof (map_scan_spec s) as H.
    destruct (map_scan lc (steps s) s); [exact H|symmetry; exact H].
  Qed.

  Theorem to_lower_go_eq s : to_lower_go lc s = to_lower_b lc s.
  Proof. unfold to_lower_go, to_lower_b. destruct (is_ascii s); [reflexivity|apply go_map_is_decode_map_encode]. Qed.
End MapEq.
