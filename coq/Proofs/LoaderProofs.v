(* LoaderProofs.v — the loader model (Model/Loader.v) refines the abstract write-once specification
   (Model/LoaderSpec.v) for every history of operations:
     abstraction   abs : lstate -> astate     forgets the cached misses (placeholder entries)
     invariant     inv                        parents precede their children, one entry per key, keys are
                                              proper map keys, a type-set loader caches misses only, and
                                              only for names that are not relative to its type set
     step_sim      one operation of the model = one operation of the specification on the abstraction,
                   up to the projection of a cached miss to a miss
     loader_refines, results_classified       for all operation sequences, by induction. *)
From Coq Require Import Arith NArith Bool List Lia.
From PcoreV Require Import Model.Base Model.Loader Model.LoaderSpec Proofs.LoaderNames.
Import ListNotations.

(* ---------------------------------------------------------------------------------------------- *)
(* abstraction *)

Fixpoint abs_ents (es : ents) : list (str * val) :=
  match es with
  | [] => []
  | (k, Some v) :: es' => (k, v) :: abs_ents es'
  | (_, None) :: es' => abs_ents es'
  end.
Definition abs_node (nd : lnode) : anode := mkA (nkind nd) (abs_ents (nents nd)).
Definition abs (st : lstate) : astate := map abs_node st.

Definition flat (e : option (option val)) : option val :=
  match e with Some (Some v) => Some v | _ => None end.

(* ---------------------------------------------------------------------------------------------- *)
(* association lists *)

Lemma assoc_app {V} (k : str) (l1 l2 : list (str * V)) :
  assoc k (l1 ++ l2) = match assoc k l1 with Some v => Some v | None => assoc k l2 end.
Proof.
  induction l1 as [|[k' v] l1 IH]; [reflexivity|].
  cbn [app assoc]. destruct (str_eqb k' k); [reflexivity|exact IH].
Qed.

Lemma assoc_none_notin {V} (k : str) (l : list (str * V)) : assoc k l = None <-> ~ In k (map fst l).
Proof.
  induction l as [|[k' v] l IH]; cbn [assoc map fst In]; [tauto|].
  destruct (str_eqb_spec k' k) as [->|Hn].
  - split; [discriminate|]. intros H. exfalso. apply H. left. reflexivity.
  - rewrite IH. split; [intros H [E|I]; [congruence|tauto]|tauto].
Qed.

Lemma assoc_in {V} (k : str) (l : list (str * V)) v : assoc k l = Some v -> In (k, v) l.
Proof.
  induction l as [|[k' v'] l IH]; cbn [assoc]; [discriminate|].
  destruct (str_eqb_spec k' k) as [->|Hn].
  - intros H. injection H as ->. left. reflexivity.
  - intros H. right. apply IH. exact H.
Qed.

Lemma in_assoc_nodup {V} (k : str) (l : list (str * V)) v :
  NoDup (map fst l) -> In (k, v) l -> assoc k l = Some v.
Proof.
  induction l as [|[k' v'] l IH]; cbn [map fst]; intros Hnd Hin; [destruct Hin|].
  inversion Hnd as [|? ? Hni Hnd']; subst. cbn [assoc].
  destruct Hin as [E|Hin].
  - injection E as -> ->. rewrite str_eqb_refl. reflexivity.
  - destruct (str_eqb_spec k' k) as [->|Hn].
    + exfalso. apply Hni. change k with (fst (k, v)). apply in_map. exact Hin.
    + apply IH; assumption.
Qed.

Lemma remove_keys_incl es k x : In x (map fst (ents_remove es k)) -> In x (map fst es) /\ x <> k.
Proof.
  induction es as [|[k' e'] es IH]; cbn [ents_remove map fst]; [intros []|].
  destruct (str_eqb_spec k' k) as [->|Hn]; cbn [map fst In].
  - intros H. apply IH in H. tauto.
  - intros [E|H]; [subst; tauto|apply IH in H; tauto].
Qed.

Lemma remove_in es k x e : In (x, e) (ents_remove es k) -> In (x, e) es.
Proof.
  induction es as [|[k' e'] es IH]; cbn [ents_remove]; [intros []|].
  destruct (str_eqb k' k); cbn [In]; intros H; [right; apply IH; exact H|].
  destruct H as [E|H]; [left; exact E|right; apply IH; exact H].
Qed.

Lemma remove_nodup es k : NoDup (map fst es) -> NoDup (map fst (ents_remove es k)).
Proof.
  induction es as [|[k' e'] es IH]; cbn [ents_remove map fst]; intros H; [constructor|].
  inversion H as [|? ? Hni Hnd]; subst.
  destruct (str_eqb k' k); [apply IH; exact Hnd|].
  cbn [map fst]. constructor; [|apply IH; exact Hnd].
  intros I. apply remove_keys_incl in I. tauto.
Qed.

Lemma remove_notin es k : ~ In k (map fst es) -> ents_remove es k = es.
Proof.
  induction es as [|[k' e'] es IH]; cbn [ents_remove map fst In]; intros H; [reflexivity|].
  destruct (str_eqb_spec k' k) as [->|Hn]; [tauto|].
  f_equal. apply IH. tauto.
Qed.

Lemma NoDup_snoc {A} (l : list A) x : NoDup l -> ~ In x l -> NoDup (l ++ [x]).
Proof.
  induction l as [|y l IH]; cbn [app]; intros Hnd Hni.
  - constructor; [intros []|constructor].
  - inversion Hnd as [|? ? Hy Hl]; subst. constructor.
    + rewrite in_app_iff. cbn [In]. intros [I|[E|[]]]; [tauto|]. apply Hni. left. symmetry. exact E.
    + apply IH; [exact Hl|]. intros I. apply Hni. right. exact I.
Qed.

Lemma put_nodup es k e : NoDup (map fst es) -> NoDup (map fst (ents_put es k e)).
Proof.
  intros H. unfold ents_put. rewrite map_app. cbn [map fst].
  apply NoDup_snoc; [apply remove_nodup; exact H|].
  intros I. apply remove_keys_incl in I. tauto.
Qed.

Lemma put_keys es k e x : In x (map fst (ents_put es k e)) -> x = k \/ In x (map fst es).
Proof.
  unfold ents_put. rewrite map_app, in_app_iff. cbn [map fst In].
  intros [H|[H|[]]]; [apply remove_keys_incl in H; tauto|left; congruence].
Qed.

Lemma put_in es k e x e' : In (x, e') (ents_put es k e) -> (x, e') = (k, e) \/ In (x, e') es.
Proof.
  unfold ents_put. rewrite in_app_iff. cbn [In].
  intros [H|[H|[]]]; [right; eapply remove_in; eauto|left; congruence].
Qed.

Lemma abs_ents_app a b : abs_ents (a ++ b) = abs_ents a ++ abs_ents b.
Proof.
  induction a as [|[k [v|]] a IH]; cbn [app abs_ents]; [reflexivity| |exact IH].
  rewrite IH. reflexivity.
Qed.

Lemma abs_keys_incl es x : In x (map fst (abs_ents es)) -> In x (map fst es).
Proof.
  induction es as [|[k [v|]] es IH]; cbn [abs_ents map fst In]; [tauto| |tauto].
  intros [E|H]; [left; exact E|right; apply IH; exact H].
Qed.

Lemma abs_nodup es : NoDup (map fst es) -> NoDup (map fst (abs_ents es)).
Proof.
  induction es as [|[k [v|]] es IH]; cbn [abs_ents map fst]; intros H; [constructor| |].
  - inversion H as [|? ? Hni Hnd]; subst. constructor; [|apply IH; exact Hnd].
    intros I. apply Hni. apply abs_keys_incl. exact I.
  - inversion H; subst. apply IH. assumption.
Qed.

(* the bindings of the abstraction are the entries that hold a value *)
Lemma assoc_abs es k : NoDup (map fst es) -> assoc k (abs_ents es) = flat (assoc k es).
Proof.
  induction es as [|[k' [v|]] es IH]; cbn [abs_ents assoc map fst]; intros H; [reflexivity| |].
  - inversion H; subst. destruct (str_eqb k' k); [reflexivity|]. apply IH. assumption.
  - inversion H as [|? ? Hni Hnd]; subst.
    destruct (str_eqb_spec k' k) as [->|Hn]; [|apply IH; exact Hnd].
    cbn [flat]. apply assoc_none_notin. intros I. apply Hni. apply abs_keys_incl. exact I.
Qed.

(* dropping or adding a cached miss does not change the abstraction *)
Lemma abs_remove_miss es k :
  NoDup (map fst es) -> flat (assoc k es) = None -> abs_ents (ents_remove es k) = abs_ents es.
Proof.
  induction es as [|[k' e'] es IH]; cbn [ents_remove assoc map fst]; intros Hnd Hf; [reflexivity|].
  inversion Hnd as [|? ? Hni Hnd']; subst.
  destruct (str_eqb_spec k' k) as [->|Hn].
  - rewrite (remove_notin es k Hni). destruct e' as [v|]; [discriminate|reflexivity].
  - destruct e' as [v|]; cbn [abs_ents]; rewrite (IH Hnd' Hf); reflexivity.
Qed.

Lemma abs_put_miss es k :
  NoDup (map fst es) -> flat (assoc k es) = None -> abs_ents (ents_put es k None) = abs_ents es.
Proof.
  intros Hnd Hf. unfold ents_put. rewrite abs_ents_app, (abs_remove_miss es k Hnd Hf).
  cbn [abs_ents]. apply app_nil_r.
Qed.

Lemma abs_put_val es k v :
  NoDup (map fst es) -> flat (assoc k es) = None -> abs_ents (ents_put es k (Some v)) = abs_ents es ++ [(k, v)].
Proof.
  intros Hnd Hf. unfold ents_put. rewrite abs_ents_app, (abs_remove_miss es k Hnd Hf). reflexivity.
Qed.

(* ---------------------------------------------------------------------------------------------- *)
(* states *)

Lemma set_ents_length st : forall l es, length (set_ents st l es) = length st.
Proof.
  induction st as [|nd st IH]; intros [|l] es; cbn [set_ents length]; try reflexivity.
  rewrite IH. reflexivity.
Qed.

Lemma nth_set_ents_same st : forall l es nd,
  nth_error st l = Some nd -> nth_error (set_ents st l es) l = Some (mkNode (nkind nd) es).
Proof.
  induction st as [|nd0 st IH]; intros [|l] es nd H; cbn [nth_error set_ents] in *; try discriminate.
  - injection H as ->. reflexivity.
  - apply IH. exact H.
Qed.

Lemma nth_set_ents_other st : forall l l' es, l' <> l -> nth_error (set_ents st l es) l' = nth_error st l'.
Proof.
  induction st as [|nd0 st IH]; intros [|l] [|l'] es H; cbn [nth_error set_ents]; try reflexivity; try congruence.
  apply IH. congruence.
Qed.

Lemma set_ents_id st : forall l nd, nth_error st l = Some nd -> set_ents st l (nents nd) = st.
Proof.
  induction st as [|nd0 st IH]; intros [|l] nd H; cbn [nth_error set_ents] in *; try discriminate.
  - injection H as ->. destruct nd. reflexivity.
  - f_equal. apply IH. exact H.
Qed.

Lemma abs_set_ents st : forall l es, abs (set_ents st l es) = set_binds (abs st) l (abs_ents es).
Proof.
  induction st as [|nd0 st IH]; intros [|l] es; cbn [set_ents abs map set_binds]; try reflexivity.
  f_equal. apply IH.
Qed.

Lemma set_binds_id a : forall l nd, nth_error a l = Some nd -> set_binds a l (abind nd) = a.
Proof.
  induction a as [|nd0 a IH]; intros [|l] nd H; cbn [nth_error set_binds] in *; try discriminate.
  - injection H as ->. destruct nd. reflexivity.
  - f_equal. apply IH. exact H.
Qed.

Lemma nth_abs st l : nth_error (abs st) l = option_map abs_node (nth_error st l).
Proof. unfold abs. revert l. induction st as [|nd st IH]; intros [|l]; cbn; try reflexivity. apply IH. Qed.

Lemma abs_length st : length (abs st) = length st.
Proof. apply map_length. Qed.

(* equal abstractions: same tree, same bindings *)
Lemma abs_eq_nth st st' l nd :
  abs st' = abs st -> nth_error st l = Some nd ->
  exists nd', nth_error st' l = Some nd' /\ nkind nd' = nkind nd /\ abs_ents (nents nd') = abs_ents (nents nd).
Proof.
  intros E H. pose proof (nth_abs st l) as A. pose proof (nth_abs st' l) as B.
  rewrite E, A, H in B. cbn [option_map] in B.
  destruct (nth_error st' l) as [nd'|]; [|discriminate].
  injection B as B1 B2. exists nd'. repeat split; congruence.
Qed.

Lemma abs_eq_length st st' : abs st' = abs st -> length st' = length st.
Proof. intros E. rewrite <- (abs_length st'), E. apply abs_length. Qed.

Lemma set_ents_abs_same st l nd es :
  nth_error st l = Some nd -> abs_ents es = abs_ents (nents nd) -> abs (set_ents st l es) = abs st.
Proof.
  intros H E. rewrite abs_set_ents, E.
  change (abs_ents (nents nd)) with (abind (abs_node nd)).
  apply set_binds_id. rewrite nth_abs, H. reflexivity.
Qed.

Lemma own_ents_nth st l nd : nth_error st l = Some nd -> own_ents st l = nents nd.
Proof. unfold own_ents. intros ->. reflexivity. Qed.

(* ---------------------------------------------------------------------------------------------- *)
(* sorting *)

Fixpoint sorted (l : list str) : Prop :=
  match l with
  | [] => True
  | x :: l' => match l' with [] => True | y :: _ => str_ltb y x = false /\ sorted l' end
  end.

Lemma sorted_tail x l : sorted (x :: l) -> sorted l.
Proof. destruct l; cbn; tauto. Qed.

Lemma ins_key_sorted k l : sorted l -> sorted (ins_key k l).
Proof.
  induction l as [|x l IH]; intros H; [exact I|].
  cbn [ins_key]. destruct (str_ltb x k) eqn:E.
  - pose proof (IH (sorted_tail _ _ H)) as S'.
    destruct l as [|y l].
    + cbn. split; [apply str_ltb_asym; exact E|exact I].
    + cbn [ins_key] in *. destruct H as [Hyx Hs].
      destruct (str_ltb y k) eqn:E'.
      * split; [exact Hyx|exact S'].
      * split; [apply str_ltb_asym; exact E|exact S'].
  - split; [exact E|exact H].
Qed.

Lemma sort_keys_sorted l : sorted (sort_keys l).
Proof. induction l as [|x l IH]; [exact I|]. cbn [sort_keys fold_right]. apply ins_key_sorted. exact IH. Qed.

Lemma sort_keys_id l : sorted l -> sort_keys l = l.
Proof.
  induction l as [|x l IH]; intros H; [reflexivity|].
  cbn [sort_keys fold_right]. fold (sort_keys l). rewrite (IH (sorted_tail _ _ H)).
  destruct l as [|y l]; [reflexivity|].
  cbn [ins_key]. destruct H as [-> _]. reflexivity.
Qed.

(* ---------------------------------------------------------------------------------------------- *)
(* the invariant of reachable states *)

Record inv (st : lstate) : Prop := mkInv {
  inv_parent : forall l nd p, nth_error st l = Some nd -> parent_of (nkind nd) = Some p -> p < l;
  inv_nodup : forall l nd, nth_error st l = Some nd -> NoDup (map fst (nents nd));
  inv_keys : forall l nd k, nth_error st l = Some nd -> In k (map fst (nents nd)) -> key_ok k = true;
  inv_tset : forall l nd p ts k e, nth_error st l = Some nd -> nkind nd = KTypeSet p ts -> In (k, e) (nents nd) ->
      e = None /\ forall n, tn_wf n = true -> map_key n = k -> relative_to n (ts_typed_name ts) = None
}.

(* replacing the entries of one node by entries that satisfy the node-local conditions *)
Lemma inv_set_ents st l nd es :
  inv st -> nth_error st l = Some nd ->
  NoDup (map fst es) ->
  (forall k, In k (map fst es) -> key_ok k = true) ->
  (forall p ts k e, nkind nd = KTypeSet p ts -> In (k, e) es ->
      e = None /\ forall n, tn_wf n = true -> map_key n = k -> relative_to n (ts_typed_name ts) = None) ->
  inv (set_ents st l es).
Proof.
  intros [Ip In_ Ik It] H Hnd Hk Ht.
  assert (Hcase : forall l' nd', nth_error (set_ents st l es) l' = Some nd' ->
            (l' = l /\ nd' = mkNode (nkind nd) es) \/ (l' <> l /\ nth_error st l' = Some nd')).
  { intros l' nd' H'. destruct (Nat.eq_dec l' l) as [->|Hne].
    - rewrite (nth_set_ents_same st l es nd H) in H'. left. split; congruence.
    - rewrite (nth_set_ents_other st l l' es Hne) in H'. right. tauto. }
  constructor.
  - intros l' nd' p H' Hp. destruct (Hcase _ _ H') as [[-> ->]|[_ H'']]; [|eauto].
    cbn [nkind] in Hp. eauto.
  - intros l' nd' H'. destruct (Hcase _ _ H') as [[-> ->]|[_ H'']]; [exact Hnd|eauto].
  - intros l' nd' k H' Hin. destruct (Hcase _ _ H') as [[-> ->]|[_ H'']]; [apply Hk; exact Hin|eauto].
  - intros l' nd' p ts k e H' Hkind Hin. destruct (Hcase _ _ H') as [[-> ->]|[_ H'']]; [|eauto].
    cbn [nkind nents] in *. eauto.
Qed.

Lemma nodup_keys_NoDup l : nodup_keys l = true -> NoDup l.
Proof.
  induction l as [|k l IH]; cbn [nodup_keys]; intros H; [constructor|].
  apply andb_prop in H. destruct H as [H1 H2]. constructor; [|apply IH; exact H2].
  intros I. apply negb_true_iff in H1. unfold mem_key in H1.
  assert (existsb (str_eqb k) l = true); [|congruence].
  apply existsb_exists. exists k. split; [exact I|apply str_eqb_refl].
Qed.

(* ---------------------------------------------------------------------------------------------- *)
(* lookups *)

Definition is_some {A} (o : option A) : bool := match o with Some _ => true | None => false end.
Definition is_tset (k : lkind) : bool := match k with KTypeSet _ _ => true | _ => false end.

Lemma b_has_flat es n : b_has es n = is_some (flat (b_get es n)).
Proof. unfold b_has, b_get. destruct (assoc (map_key n) es) as [[v|]|]; reflexivity. Qed.

Lemma parented_after_cases st1 l n e1 :
  parented_after (st1, LEnt e1) l n =
  (st1, LEnt (match flat e1 with Some _ => e1 | None => b_get (own_ents st1 l) n end)).
Proof. destruct e1 as [[v|]|]; reflexivity. Qed.

Lemma load_entry_S f st l n :
  load_entry (S f) st l n =
  match nth_error st l with
  | None => (st, LStuck)
  | Some nd =>
    match nkind nd with
    | KBasic => (st, LEnt (b_get (nents nd) n))
    | KDep => match b_get (nents nd) n with Some e => (st, LEnt (Some e)) | None => (st, LEnt (Some None)) end
    | KParented p => parented_after (load_entry f st p n) l n
    | KTypeSet p ts =>
      match ts_get_type ts n with
      | Some tp => (st, LEnt (Some (Some tp)))
      | None =>
        let '(st1, r) := parented_after (load_entry f st p n) l n in
        match r with
        | LEnt None =>
          match relative_to n (ts_typed_name ts) with
          | Some child => load_entry f st1 l child
          | None =>
            let '(es', r') := b_set (own_ents st1 l) n None in
            (set_ents st1 l es', match r' with SOk _ => LEnt (Some None) | SErr c => LPanic c | SStuck => LStuck end)
          end
        | _ => (st1, r)
        end
      end
    end
  end.
Proof. reflexivity. Qed.

Lemma spec_resolve_S f a l n :
  spec_resolve (S f) a l n =
  match nth_error a l with
  | None => None
  | Some nd =>
    match akind nd with
    | KBasic | KDep => Some (assoc (map_key n) (abind nd))
    | KParented p =>
      match spec_resolve f a p n with
      | Some (Some v) => Some (Some v)
      | Some None => Some (assoc (map_key n) (abind nd))
      | None => None
      end
    | KTypeSet p ts =>
      match ts_get_type ts n with
      | Some tp => Some (Some tp)
      | None =>
        match spec_resolve f a p n with
        | Some (Some v) => Some (Some v)
        | Some None =>
          match relative_to n (ts_typed_name ts) with
          | Some child => spec_resolve f a l child
          | None => Some None
          end
        | None => None
        end
      end
    end
  end.
Proof. reflexivity. Qed.

(* LoadEntry answers what the specification resolves; it changes nothing but cached misses *)
Ltac sim_split Hinv :=
  split; [try reflexivity|split; [exact Hinv|split; [try reflexivity; try assumption|split]]].

Lemma load_entry_sim : forall fuel st l n,
  inv st -> tn_wf n = true -> l < length st -> l + length (tn_name n) < fuel ->
  exists st' e, load_entry fuel st l n = (st', LEnt e) /\ inv st' /\ abs st' = abs st /\
    spec_resolve fuel (abs st) l n = Some (flat e) /\
    (e = None -> exists nd', nth_error st' l = Some nd' /\ is_tset (nkind nd') = false /\
                             assoc (map_key n) (nents nd') = None).
Proof.
  induction fuel as [|f IH]; intros st l n Hi Hw Hl Hf; [lia|].
  destruct (nth_error st l) as [nd|] eqn:Hn; [|apply nth_error_None in Hn; lia].
  rewrite load_entry_S, spec_resolve_S, nth_abs, Hn. cbn [option_map abs_node akind abind].
  destruct (nkind nd) as [| |p|p ts] eqn:Hk.
  - (* basic *)
    exists st, (b_get (nents nd) n). sim_split Hi.
    + f_equal. apply assoc_abs. eapply inv_nodup; eauto.
    + intros E. exists nd. rewrite Hk. repeat split; assumption.
  - (* dependency *)
    assert (Hs : assoc (map_key n) (abs_ents (nents nd)) = flat (b_get (nents nd) n)).
    { apply assoc_abs. eapply inv_nodup; eauto. }
    destruct (b_get (nents nd) n) as [e|] eqn:Hg.
    + exists st, (Some e). sim_split Hi; [rewrite Hs; reflexivity|discriminate].
    + exists st, (Some None). sim_split Hi; [rewrite Hs; reflexivity|discriminate].
  - (* parented *)
    assert (Hp : p < l) by (eapply inv_parent; eauto; rewrite Hk; reflexivity).
    destruct (IH st p n Hi Hw ltac:(lia) ltac:(lia)) as (st1 & e1 & Hl1 & Hi1 & Ha1 & Hs1 & _).
    rewrite Hl1, parented_after_cases, Hs1.
    destruct (abs_eq_nth st st1 l nd Ha1 Hn) as (nd' & Hn' & Hk' & He').
    destruct (flat e1) as [v|] eqn:Hfl.
    + exists st1, e1. sim_split Hi1; [congruence|].
      intros ->. discriminate.
    + exists st1, (b_get (own_ents st1 l) n). rewrite (own_ents_nth _ _ _ Hn').
      sim_split Hi1.
      * f_equal. rewrite <- He'. apply assoc_abs. eapply inv_nodup; eauto.
      * intros E. exists nd'. rewrite Hk', Hk. repeat split; assumption.
  - (* type set *)
    destruct (ts_get_type ts n) as [tp|] eqn:Hg.
    { exists st, (Some (Some tp)). sim_split Hi; [reflexivity|discriminate]. }
    assert (Hp : p < l) by (eapply inv_parent; eauto; rewrite Hk; reflexivity).
    destruct (IH st p n Hi Hw ltac:(lia) ltac:(lia)) as (st1 & e1 & Hl1 & Hi1 & Ha1 & Hs1 & _).
    rewrite Hl1, parented_after_cases, Hs1.
    destruct (abs_eq_nth st st1 l nd Ha1 Hn) as (nd' & Hn' & Hk' & He').
    rewrite Hk in Hk'.
    destruct (flat e1) as [v|] eqn:Hfl.
    { destruct e1 as [[v'|]|]; try discriminate. injection Hfl as ->.
      exists st1, (Some (Some v)). sim_split Hi1; [reflexivity|discriminate]. }
    rewrite (own_ents_nth _ _ _ Hn').
    destruct (b_get (nents nd') n) as [[v|]|] eqn:Hb.
    + (* a type-set loader never holds a value *)
      exfalso. unfold b_get in Hb. apply assoc_in in Hb.
      destruct (inv_tset st1 Hi1 l nd' p ts _ _ Hn' Hk' Hb) as [E _]. discriminate.
    + (* cached miss: the name is not relative to the type set *)
      unfold b_get in Hb. apply assoc_in in Hb.
      destruct (inv_tset st1 Hi1 l nd' p ts _ _ Hn' Hk' Hb) as [_ Hrel].
      rewrite (Hrel n Hw eq_refl).
      exists st1, (Some None). sim_split Hi1; [reflexivity|discriminate].
    + destruct (relative_to n (ts_typed_name ts)) as [c|] eqn:Hr.
      * destruct (relative_to_wf n _ c Hw Hr) as (Hwc & Hlc & _).
        assert (Hl1' : l < length st1) by (rewrite (abs_eq_length _ _ Ha1); exact Hl).
        destruct (IH st1 l c Hi1 Hwc Hl1' ltac:(lia)) as (st2 & e2 & Hl2 & Hi2 & Ha2 & Hs2 & Hc2).
        exists st2, e2. rewrite Ha1 in Hs2. split; [exact Hl2|]. split; [exact Hi2|]. split; [congruence|].
        split; [exact Hs2|].
        intros E. exfalso. destruct (Hc2 E) as (nd2 & Hn2 & Ht2 & _).
        destruct (abs_eq_nth st1 st2 l nd' Ha2 Hn') as (nd2' & Hn2' & Hk2' & _).
        rewrite Hn2 in Hn2'. injection Hn2' as <-. rewrite Hk2', Hk' in Ht2. discriminate.
      * unfold b_set. unfold b_get in Hb. rewrite Hb.
        exists (set_ents st1 l (ents_put (nents nd') (map_key n) None)), (Some None).
        split; [reflexivity|]. split; [|split; [|split; [reflexivity|discriminate]]].
        -- eapply inv_set_ents; eauto.
           ++ apply put_nodup. eapply inv_nodup; eauto.
           ++ intros k Hin. apply put_keys in Hin. destruct Hin as [->|Hin]; [apply key_ok_map_key; exact Hw|].
              eapply inv_keys; eauto.
           ++ intros p0 ts0 k e Hk0 Hin. rewrite Hk' in Hk0. injection Hk0 as <- <-.
              apply put_in in Hin. destruct Hin as [E|Hin].
              ** injection E as -> ->. split; [reflexivity|].
                 intros n' Hw' Hkey. eapply relative_to_none_key; [exact Hw|exact Hw'|congruence|exact Hr].
              ** eapply inv_tset; eauto.
        -- rewrite <- Ha1. eapply set_ents_abs_same; eauto.
           apply abs_put_miss; [eapply inv_nodup; eauto|]. rewrite Hb. reflexivity.
Qed.

Lemma has_entry_S f st l n :
  has_entry (S f) st l n =
  match nth_error st l with
  | None => None
  | Some nd =>
    match nkind nd with
    | KBasic | KDep => Some (b_has (nents nd) n)
    | KParented p =>
      match has_entry f st p n with
      | Some true => Some true
      | Some false => Some (b_has (nents nd) n)
      | None => None
      end
    | KTypeSet p ts =>
      match ts_get_type ts n with
      | Some _ => Some true
      | None =>
        match has_entry f st p n with
        | None => None
        | Some true => Some true
        | Some false =>
          if b_has (nents nd) n then Some true
          else match relative_to n (ts_typed_name ts) with
               | Some child => has_entry f st l child
               | None => Some false
               end
        end
      end
    end
  end.
Proof. reflexivity. Qed.

(* HasEntry answers whether the specification resolves the name *)
Lemma has_entry_sim : forall fuel st l n,
  inv st -> tn_wf n = true -> l < length st -> l + length (tn_name n) < fuel ->
  exists x, spec_resolve fuel (abs st) l n = Some x /\ has_entry fuel st l n = Some (is_some x).
Proof.
  induction fuel as [|f IH]; intros st l n Hi Hw Hl Hf; [lia|].
  destruct (nth_error st l) as [nd|] eqn:Hn; [|apply nth_error_None in Hn; lia].
  rewrite has_entry_S, spec_resolve_S, nth_abs, Hn. cbn [option_map abs_node akind abind].
  assert (Hown : assoc (map_key n) (abs_ents (nents nd)) = flat (b_get (nents nd) n)).
  { apply assoc_abs. eapply inv_nodup; eauto. }
  destruct (nkind nd) as [| |p|p ts] eqn:Hk.
  - eexists. split; [reflexivity|]. rewrite b_has_flat, Hown. reflexivity.
  - eexists. split; [reflexivity|]. rewrite b_has_flat, Hown. reflexivity.
  - assert (Hp : p < l) by (eapply inv_parent; eauto; rewrite Hk; reflexivity).
    destruct (IH st p n Hi Hw ltac:(lia) ltac:(lia)) as (x & Hs & Hh). rewrite Hs, Hh.
    destruct x as [v|]; cbn [is_some].
    + eexists. split; reflexivity.
    + eexists. split; [reflexivity|]. rewrite b_has_flat, Hown. reflexivity.
  - destruct (ts_get_type ts n) as [tp|]; [eexists; split; reflexivity|].
    assert (Hp : p < l) by (eapply inv_parent; eauto; rewrite Hk; reflexivity).
    destruct (IH st p n Hi Hw ltac:(lia) ltac:(lia)) as (x & Hs & Hh). rewrite Hs, Hh.
    destruct x as [v|]; cbn [is_some]; [eexists; split; reflexivity|].
    assert (Hb : b_has (nents nd) n = false).
    { rewrite b_has_flat. destruct (b_get (nents nd) n) as [[v|]|] eqn:Hb; try reflexivity.
      exfalso. unfold b_get in Hb. apply assoc_in in Hb.
      destruct (inv_tset st Hi l nd p ts _ _ Hn Hk Hb) as [E _]. discriminate. }
    rewrite Hb.
    destruct (relative_to n (ts_typed_name ts)) as [c|] eqn:Hr.
    + destruct (relative_to_wf n _ c Hw Hr) as (Hwc & Hlc & _).
      apply IH; try assumption. lia.
    + eexists. split; reflexivity.
Qed.

Lemma has_entry_top_spec st l n :
  inv st -> tn_wf n = true -> l < length st -> has_entry_top st l n = Some (spec_has (abs st) l n).
Proof.
  intros Hi Hw Hl. unfold has_entry_top, spec_has, spec_resolve_top.
  destruct (has_entry_sim (fuel_of l n) st l n Hi Hw Hl) as (x & Hs & Hh); [unfold fuel_of; lia|].
  rewrite Hs, Hh. destruct x; reflexivity.
Qed.

Lemma spec_resolve_top_some st l n :
  inv st -> tn_wf n = true -> l < length st -> exists x, spec_resolve_top (abs st) l n = Some x.
Proof.
  intros Hi Hw Hl. unfold spec_resolve_top.
  destruct (has_entry_sim (fuel_of l n) st l n Hi Hw Hl) as (x & Hs & _); [unfold fuel_of; lia|]. eauto.
Qed.

(* ---------------------------------------------------------------------------------------------- *)
(* definitions *)

Lemma set_entry_S f st l n e :
  set_entry (S f) st l n e =
  match nth_error st l with
  | None => (st, SStuck)
  | Some nd =>
    match nkind nd with
    | KTypeSet p _ => set_entry f st p n e
    | _ => let '(es', r) := b_set (nents nd) n e in (set_ents st l es', r)
    end
  end.
Proof. reflexivity. Qed.

Lemma set_entry_sim : forall fuel st l n e,
  inv st -> l < length st -> l < fuel ->
  exists t nd, def_target fuel (abs st) l = Some t /\ nth_error st t = Some nd /\ is_tset (nkind nd) = false /\
    set_entry fuel st l n e = (set_ents st t (fst (b_set (nents nd) n e)), snd (b_set (nents nd) n e)).
Proof.
  induction fuel as [|f IH]; intros st l n e Hi Hl Hf; [lia|].
  destruct (nth_error st l) as [nd|] eqn:Hn; [|apply nth_error_None in Hn; lia].
  rewrite set_entry_S. cbn [def_target]. rewrite nth_abs, Hn. cbn [option_map abs_node akind].
  destruct (nkind nd) as [| |p|p ts] eqn:Hk;
    try (exists l, nd; rewrite Hk; destruct (b_set (nents nd) n e); repeat split; assumption).
  assert (Hp : p < l) by (eapply inv_parent; eauto; rewrite Hk; reflexivity).
  apply IH; try assumption; lia.
Qed.

(* a loader that LoadEntry leaves without an entry for the name accepts the cached miss of load() *)
Lemma set_miss_sim st l n nd :
  inv st -> tn_wf n = true -> nth_error st l = Some nd -> is_tset (nkind nd) = false ->
  assoc (map_key n) (nents nd) = None ->
  exists st', set_entry (S l) st l n None = (st', SOk None) /\ inv st' /\ abs st' = abs st.
Proof.
  intros Hi Hw Hn Ht Ha. rewrite set_entry_S, Hn.
  assert (E : (let '(es', r) := b_set (nents nd) n None in (set_ents st l es', r)) =
              (set_ents st l (ents_put (nents nd) (map_key n) None), SOk None)).
  { unfold b_set. rewrite Ha. reflexivity. }
  exists (set_ents st l (ents_put (nents nd) (map_key n) None)).
  split; [destruct (nkind nd); try exact E; discriminate|]. split.
  - eapply inv_set_ents; eauto.
    + apply put_nodup. eapply inv_nodup; eauto.
    + intros k Hin. apply put_keys in Hin. destruct Hin as [->|Hin]; [apply key_ok_map_key; exact Hw|].
      eapply inv_keys; eauto.
    + intros p ts k e Hk. rewrite Hk in Ht. discriminate.
  - eapply set_ents_abs_same; eauto. apply abs_put_miss; [eapply inv_nodup; eauto|]. rewrite Ha. reflexivity.
Qed.

(* SetEntry of a value is the write-once definition of the specification *)
Lemma define_sim st l n v :
  inv st -> tn_wf n = true -> l < length st ->
  exists st' r, set_entry (S l) st l n (Some v) = (st', r) /\ inv st' /\
    spec_define (abs st) l n v =
      (abs st', match r with SOk (Some v') => RDefined v' | SOk None => RFault | SErr c => RErr c | SStuck => RStuck end) /\
    match r with SOk (Some _) | SErr ERedefine | SErr ERedefineType => True | _ => False end.
Proof.
  intros Hi Hw Hl.
  destruct (set_entry_sim (S l) st l n (Some v) Hi Hl ltac:(lia)) as (t & nd & Ht & Hn & Hk & Hs).
  rewrite Hs. unfold spec_define. rewrite Ht. unfold own_binds. rewrite nth_abs, Hn.
  cbn [option_map abs_node abind].
  pose proof (inv_nodup st Hi t nd Hn) as Hnd.
  rewrite (assoc_abs _ (map_key n) Hnd). unfold b_set.
  assert (Hput : flat (assoc (map_key n) (nents nd)) = None ->
     inv (set_ents st t (ents_put (nents nd) (map_key n) (Some v))) /\
     set_binds (abs st) t (abs_ents (nents nd) ++ [(map_key n, v)]) = abs (set_ents st t (ents_put (nents nd) (map_key n) (Some v)))).
  { intros Hf. split.
    - eapply inv_set_ents; eauto.
      + apply put_nodup. exact Hnd.
      + intros k Hin. apply put_keys in Hin. destruct Hin as [->|Hin]; [apply key_ok_map_key; exact Hw|].
        eapply inv_keys; eauto.
      + intros p ts k e Hk'. rewrite Hk' in Hk. discriminate.
    - rewrite abs_set_ents, (abs_put_val _ _ _ Hnd Hf). reflexivity. }
  destruct (assoc (map_key n) (nents nd)) as [[ov|]|] eqn:Ha; cbn [flat fst snd].
  - (* bound: equal value is a no-op, a different one is rejected *)
    assert (Hid : set_ents st t (nents nd) = st) by (apply set_ents_id; exact Hn).
    destruct (val_same ov v) eqn:E1; cbn [orb fst snd].
    { eexists _, _. split; [reflexivity|]. rewrite Hid. split; [exact Hi|split; [reflexivity|exact I]]. }
    destruct (val_equals ov v) eqn:E2; cbn [fst snd].
    { eexists _, _. split; [reflexivity|]. rewrite Hid. split; [exact Hi|split; [reflexivity|exact I]]. }
    destruct (vty ov && vty v) eqn:E3; cbn [fst snd].
    { eexists _, _. split; [reflexivity|]. rewrite Hid. split; [exact Hi|split; [reflexivity|exact I]]. }
    eexists _, _. split; [reflexivity|]. rewrite Hid. split; [exact Hi|split; [reflexivity|exact I]].
  - destruct (Hput eq_refl) as [Hi' Ha'].
    eexists _, _. split; [reflexivity|]. split; [exact Hi'|]. rewrite Ha'. split; [reflexivity|exact I].
  - destruct (Hput eq_refl) as [Hi' Ha'].
    eexists _, _. split; [reflexivity|]. split; [exact Hi'|]. rewrite Ha'. split; [reflexivity|exact I].
Qed.

(* ---------------------------------------------------------------------------------------------- *)
(* discovery *)

Lemma keys_sat_ext P Q bs : (forall tn, P tn = Q tn) -> keys_sat P bs = keys_sat Q bs.
Proof.
  intros H. unfold keys_sat. apply filter_ext. intros k. unfold key_sat.
  destruct (tn_of_key k); [apply H|reflexivity].
Qed.

Lemma disc_own_sim hasp hb P es :
  (forall k, In k (map fst es) -> key_ok k = true) ->
  (forall k tn, In k (map fst es) -> tn_of_key k = Some tn -> hasp tn = Some (hb tn)) ->
  disc_own hasp P es = DNames (keys_sat (fun tn => negb (hb tn) && P tn) (abs_ents es)).
Proof.
  induction es as [|[k [v|]] es IH]; intros Hk Hh; [reflexivity| |].
  - assert (IH' := IH (fun k' I => Hk k' (or_intror I)) (fun k' tn I => Hh k' tn (or_intror I))).
    destruct (key_ok_inv k (Hk k (or_introl eq_refl))) as (tn & Htn & Hmk & _).
    cbn [disc_own abs_ents]. rewrite Htn, (Hh k tn (or_introl eq_refl) Htn), IH'.
    unfold keys_sat. cbn [map fst filter].
    assert (Hks : key_sat (fun tn0 => negb (hb tn0) && P tn0) k = negb (hb tn) && P tn)
      by (unfold key_sat; rewrite Htn; reflexivity).
    rewrite Hks.
    destruct (hb tn); cbn [negb andb]; [reflexivity|].
    destruct (P tn); [rewrite Hmk|]; reflexivity.
  - cbn [disc_own abs_ents]. apply IH.
    + intros k' I. apply Hk. right. exact I.
    + intros k' tn I. apply Hh. right. exact I.
Qed.

Lemma abs_ents_all_miss es : (forall k e, In (k, e) es -> e = None) -> abs_ents es = [].
Proof.
  induction es as [|[k [v|]] es IH]; intros H; [reflexivity| |].
  - specialize (H k (Some v) (or_introl eq_refl)). discriminate.
  - cbn [abs_ents]. apply IH. intros k' e I. eapply H. right. exact I.
Qed.

Lemma discover_S f st l P :
  discover (S f) st l P =
  match nth_error st l with
  | None => DStuck
  | Some nd =>
    match nkind nd with
    | KBasic | KDep =>
      match disc_own (fun _ => Some false) P (nents nd) with
      | DNames ks => DNames (sort_keys ks)
      | other => other
      end
    | KParented p => disc_parented (discover f st p P) st p (nents nd) P
    | KTypeSet p ts =>
      let tns := map (fun kv => new_typed_name ns_type (fst kv) (ts_auth ts)) (ts_types ts) in
      let inset := map map_key tns in
      let found := map map_key (filter P tns) in
      let P' := fun tn => negb (mem_key (map_key tn) inset) && P tn in
      match disc_parented (discover f st p P') st p (nents nd) P' with
      | DNames pf => DNames (sort_keys (found ++ pf))
      | other => other
      end
    end
  end.
Proof. reflexivity. Qed.

Lemma spec_discover_S f a l P :
  spec_discover (S f) a l P =
  match nth_error a l with
  | None => None
  | Some nd =>
    match akind nd with
    | KBasic | KDep => Some (sort_keys (keys_sat P (abind nd)))
    | KParented p =>
      match spec_discover f a p P with
      | Some found =>
        Some (sort_keys (found ++ keys_sat (fun tn => negb (spec_has a p tn) && P tn) (abind nd)))
      | None => None
      end
    | KTypeSet p ts =>
      let tns := map (fun kv => new_typed_name ns_type (fst kv) (ts_auth ts)) (ts_types ts) in
      let inset := map map_key tns in
      match spec_discover f a p (fun tn => negb (mem_key (map_key tn) inset) && P tn) with
      | Some pf => Some (sort_keys (map map_key (filter P tns) ++ pf))
      | None => None
      end
    end
  end.
Proof. reflexivity. Qed.

Lemma disc_parented_sim st p es P found :
  inv st -> p < length st -> sorted found ->
  (forall k, In k (map fst es) -> key_ok k = true) ->
  disc_parented (DNames found) st p es P =
  DNames (sort_keys (found ++ keys_sat (fun tn => negb (spec_has (abs st) p tn) && P tn) (abs_ents es))).
Proof.
  intros Hi Hp Hs Hk. unfold disc_parented.
  rewrite (disc_own_sim (has_entry_top st p) (spec_has (abs st) p) P es Hk).
  - destruct (keys_sat _ (abs_ents es)) as [|k ks]; [|reflexivity].
    rewrite app_nil_r, (sort_keys_id _ Hs). reflexivity.
  - intros k tn Hin Htn. apply has_entry_top_spec; try assumption.
    destruct (key_ok_inv k (Hk k Hin)) as (tn' & Htn' & _ & Hw). congruence.
Qed.

Lemma discover_sim : forall fuel st l P,
  inv st -> l < length st -> l < fuel ->
  exists ks, discover fuel st l P = DNames ks /\ spec_discover fuel (abs st) l P = Some ks /\ sorted ks.
Proof.
  induction fuel as [|f IH]; intros st l P Hi Hl Hf; [lia|].
  destruct (nth_error st l) as [nd|] eqn:Hn; [|apply nth_error_None in Hn; lia].
  rewrite discover_S, spec_discover_S, nth_abs, Hn. cbn [option_map abs_node akind abind].
  assert (Hk : forall k, In k (map fst (nents nd)) -> key_ok k = true) by (intros k; eapply inv_keys; eauto).
  assert (Hbasic : exists ks,
     match disc_own (fun _ => Some false) P (nents nd) with DNames ks => DNames (sort_keys ks) | other => other end = DNames ks /\
     Some (sort_keys (keys_sat P (abs_ents (nents nd)))) = Some ks /\ sorted ks).
  { rewrite (disc_own_sim (fun _ => Some false) (fun _ => false) P (nents nd) Hk) by reflexivity.
    rewrite (keys_sat_ext _ P) by reflexivity.
    eexists. split; [reflexivity|]. split; [reflexivity|apply sort_keys_sorted]. }
  destruct (nkind nd) as [| |p|p ts] eqn:Hkind; try exact Hbasic.
  - assert (Hp : p < l) by (eapply inv_parent; eauto; rewrite Hkind; reflexivity).
    destruct (IH st p P Hi ltac:(lia) ltac:(lia)) as (found & Hd & Hs & Hsorted).
    rewrite Hd, Hs, (disc_parented_sim st p (nents nd) P found Hi ltac:(lia) Hsorted Hk).
    eexists. split; [reflexivity|]. split; [reflexivity|apply sort_keys_sorted].
  - assert (Hp : p < l) by (eapply inv_parent; eauto; rewrite Hkind; reflexivity).
    cbv zeta.
    destruct (IH st p (fun tn => negb (mem_key (map_key tn)
                 (map map_key (map (fun kv => new_typed_name ns_type (fst kv) (ts_auth ts)) (ts_types ts)))) && P tn)
                 Hi ltac:(lia) ltac:(lia)) as (pf & Hd & Hs & Hsorted).
    rewrite Hd, Hs, (disc_parented_sim st p (nents nd) _ pf Hi ltac:(lia) Hsorted Hk).
    rewrite (abs_ents_all_miss (nents nd)).
    + unfold keys_sat at 1. cbn [map filter]. rewrite app_nil_r, (sort_keys_id _ Hsorted).
      eexists. split; [reflexivity|]. split; [reflexivity|apply sort_keys_sorted].
    + intros k e Hin. eapply (inv_tset st Hi l nd p ts k e Hn Hkind Hin).
Qed.

(* ---------------------------------------------------------------------------------------------- *)
(* one operation *)

Lemma inv_add st k :
  inv st -> (forall p, parent_of k = Some p -> p < length st) -> inv (st ++ [mkNode k []]).
Proof.
  intros [Ip In_ Ik It] Hp.
  assert (Hcase : forall l nd, nth_error (st ++ [mkNode k []]) l = Some nd ->
            (l < length st /\ nth_error st l = Some nd) \/ (l = length st /\ nd = mkNode k [])).
  { intros l nd H. destruct (Nat.lt_ge_cases l (length st)) as [Hlt|Hge].
    - rewrite nth_error_app1 in H by exact Hlt. left. tauto.
    - rewrite nth_error_app2 in H by exact Hge.
      destruct (l - length st) as [|d] eqn:E; cbn in H.
      + injection H as <-. right. split; [lia|reflexivity].
      + destruct d; discriminate. }
  constructor.
  - intros l nd p H Hpar. destruct (Hcase _ _ H) as [[_ H']|[-> ->]]; [eauto|]. cbn [nkind] in Hpar. eauto.
  - intros l nd H. destruct (Hcase _ _ H) as [[_ H']|[-> ->]]; [eauto|]. constructor.
  - intros l nd k0 H Hin. destruct (Hcase _ _ H) as [[_ H']|[-> ->]]; [eauto|]. destruct Hin.
  - intros l nd p ts k0 e H Hkind Hin. destruct (Hcase _ _ H) as [[_ H']|[-> ->]]; [eauto|]. destruct Hin.
Qed.

Lemma add_node_sim st k st' r :
  inv st -> (forall p, parent_of k = Some p -> p < length st) -> add_node st k = (st', r) ->
  inv st' /\ spec_add (abs st) k = (abs st', project r) /\ r = RNew (length st).
Proof.
  intros Hi Hp H. unfold add_node in H. injection H as <- <-.
  split; [apply inv_add; assumption|]. split; [|reflexivity].
  unfold spec_add, abs. rewrite map_app, map_length. reflexivity.
Qed.

Lemma project_entry e : project (REntry (eobs_of e)) = REntry (eobs_of_val (flat e)).
Proof. destruct e as [[v|]|]; reflexivity. Qed.

Ltac fin H := split; [exact H|split; reflexivity].

Lemma step_sim cfg st o st' r :
  inv st -> op_wf o = true -> step cfg st o = (st', r) ->
  inv st' /\ spec_step cfg (abs st) o = (abs st', project r) /\ out_ok o r = true.
Proof.
  intros Hi Hw H.
  assert (Hbad : forall o', (st, RBadLoader) = (st', r) ->
            inv st' /\ (abs st, RBadLoader) = (abs st', project r) /\ out_ok o' r = true).
  { intros o' E. injection E as <- <-. split; [exact Hi|split; [reflexivity|destruct o'; reflexivity]]. }
  destruct o as [|l|l|l t|l n0 v|l n0|l n0|l n0|l n0|l p]; cbn [step spec_step] in *; rewrite ?abs_length.
  - (* NewDep *)
    destruct (add_node_sim st KDep st' r Hi ltac:(discriminate) H) as (A & B & ->). split; [exact A|split; [exact B|reflexivity]].
  - destruct (Nat.ltb_spec l (length st)) as [Hl|Hl]; [|apply (Hbad (ONewParented l)); exact H].
    destruct (add_node_sim st (KParented l) st' r Hi ltac:(intros p E; injection E as <-; exact Hl) H) as (A & B & ->).
    split; [exact A|split; [exact B|reflexivity]].
  - destruct (Nat.ltb_spec l (length st)) as [Hl|Hl]; [|apply (Hbad (OFork l)); exact H].
    destruct (add_node_sim st (KParented l) st' r Hi ltac:(intros p E; injection E as <-; exact Hl) H) as (A & B & ->).
    split; [exact A|split; [exact B|reflexivity]].
  - destruct (Nat.ltb_spec l (length st)) as [Hl|Hl]; [|apply (Hbad (ONewTypeSet l t)); exact H].
    destruct (nth_error (cfg_tsets cfg) t) as [ts|]; [|apply (Hbad (ONewTypeSet l t)); exact H].
    destruct (add_node_sim st (KTypeSet l ts) st' r Hi ltac:(intros p E; injection E as <-; exact Hl) H) as (A & B & ->).
    split; [exact A|split; [exact B|reflexivity]].
  - (* Define *)
    destruct (Nat.ltb_spec l (length st)) as [Hl|Hl]; [|apply (Hbad (ODefine l n0 v)); exact H].
    destruct (define_sim st l (norm n0) v Hi Hw Hl) as (st1 & r1 & Hs & Hi1 & Hd & Hr).
    rewrite Hs in H. injection H as <- <-. split; [exact Hi1|]. rewrite Hd.
    destruct r1 as [[v'|]|[| |]|]; try destruct Hr; split; reflexivity.
  - (* Load *)
    destruct (Nat.ltb_spec l (length st)) as [Hl|Hl]; [|apply (Hbad (OLoad l n0)); exact H].
    destruct (negb (str_eqb (tn_auth (norm n0)) (cfg_auth cfg))).
    { injection H as <- <-. fin Hi. }
    destruct (load_entry_sim (fuel_of l (norm n0)) st l (norm n0) Hi Hw Hl ltac:(unfold fuel_of; lia))
      as (st1 & e & Hle & Hi1 & Ha1 & Hs1 & Hc1).
    rewrite Hle in H. unfold spec_resolve_top. rewrite Hs1.
    destruct e as [[v|]|]; cbn [flat].
    + injection H as <- <-. rewrite Ha1. fin Hi1.
    + injection H as <- <-. rewrite Ha1. fin Hi1.
    + destruct (Hc1 eq_refl) as (nd' & Hn' & Ht' & Ha').
      destruct (set_miss_sim st1 l (norm n0) nd' Hi1 Hw Hn' Ht' Ha') as (st2 & Hse & Hi2 & Ha2).
      rewrite Hse in H. injection H as <- <-. rewrite Ha2, Ha1. fin Hi2.
  - (* LoadEntry *)
    destruct (Nat.ltb_spec l (length st)) as [Hl|Hl]; [|apply (Hbad (OLoadEntry l n0)); exact H].
    destruct (load_entry_sim (fuel_of l (norm n0)) st l (norm n0) Hi Hw Hl ltac:(unfold fuel_of; lia))
      as (st1 & e & Hle & Hi1 & Ha1 & Hs1 & _).
    rewrite Hle in H. injection H as <- <-. unfold spec_resolve_top. rewrite Hs1, Ha1, project_entry.
    split; [exact Hi1|split; [reflexivity|destruct e as [[?|]|]; reflexivity]].
  - (* GetEntry *)
    destruct (Nat.ltb_spec l (length st)) as [Hl|Hl]; [|apply (Hbad (OGetEntry l n0)); exact H].
    injection H as <- <-. rewrite project_entry.
    destruct (nth_error st l) as [nd|] eqn:Hn; [|apply nth_error_None in Hn; lia].
    unfold own_binds. rewrite nth_abs, Hn, (own_ents_nth _ _ _ Hn). cbn [option_map abs_node abind].
    unfold b_get. rewrite (assoc_abs _ _ (inv_nodup st Hi l nd Hn)).
    split; [exact Hi|split; [reflexivity|]].
    destruct (assoc (map_key (norm n0)) (nents nd)) as [[?|]|]; reflexivity.
  - (* Has *)
    destruct (Nat.ltb_spec l (length st)) as [Hl|Hl]; [|apply (Hbad (OHas l n0)); exact H].
    rewrite (has_entry_top_spec st l (norm n0) Hi Hw Hl) in H. injection H as <- <-.
    destruct (spec_resolve_top_some st l (norm n0) Hi Hw Hl) as (x & Hx).
    unfold spec_has. rewrite Hx. destruct x; fin Hi.
  - (* Discover *)
    destruct (Nat.ltb_spec l (length st)) as [Hl|Hl]; [|apply (Hbad (ODiscover l p)); exact H].
    destruct (discover_sim (S l) st l (pred_eval p) Hi Hl ltac:(lia)) as (ks & Hd & Hs & _).
    rewrite Hd in H. injection H as <- <-. rewrite Hs. fin Hi.
Qed.

(* ---------------------------------------------------------------------------------------------- *)
(* all histories *)

Lemma abs_ents_static l : abs_ents (map (fun kv : str * val => (fst kv, Some (snd kv))) l) = l.
Proof. induction l as [|[k v] l IH]; [reflexivity|]. cbn [map abs_ents fst snd]. rewrite IH. reflexivity. Qed.

Lemma abs_init cfg : abs (init_state cfg) = spec_init cfg.
Proof. unfold init_state, spec_init, abs, abs_node. cbn [map nkind nents]. rewrite abs_ents_static. reflexivity. Qed.

Lemma inv_init cfg : cfg_wf cfg = true -> inv (init_state cfg).
Proof.
  unfold cfg_wf. intros H. apply andb_prop in H. destruct H as [H _].
  apply andb_prop in H. destruct H as [Hk Hn].
  assert (Hkeys : map fst (map (fun kv : str * val => (fst kv, Some (snd kv))) (cfg_static cfg)) = map fst (cfg_static cfg)).
  { rewrite map_map. reflexivity. }
  assert (Hcase : forall l nd, nth_error (init_state cfg) l = Some nd -> nd = mkNode KBasic (map (fun kv => (fst kv, Some (snd kv))) (cfg_static cfg))).
  { intros [|[|l]] nd E; cbn in E; try discriminate. injection E as <-. reflexivity. }
  constructor.
  - intros l nd p E Hp. rewrite (Hcase _ _ E) in Hp. discriminate.
  - intros l nd E. rewrite (Hcase _ _ E). cbn [nents]. rewrite Hkeys. apply nodup_keys_NoDup. exact Hn.
  - intros l nd k E Hin. rewrite (Hcase _ _ E) in Hin. cbn [nents] in Hin. rewrite Hkeys in Hin.
    rewrite forallb_forall in Hk. apply Hk. exact Hin.
  - intros l nd p ts k e E Hkind. rewrite (Hcase _ _ E) in Hkind. discriminate.
Qed.

Lemma run_from_sim cfg : forall ops st,
  inv st -> forallb op_wf ops = true ->
  inv (fst (run_from cfg st ops)) /\
  spec_run_from cfg (abs st) ops = (abs (fst (run_from cfg st ops)), map project (snd (run_from cfg st ops))) /\
  Forall2 (fun o r => out_ok o r = true) ops (snd (run_from cfg st ops)).
Proof.
  induction ops as [|o ops IH]; intros st Hi Hw.
  - cbn. split; [exact Hi|]. split; [reflexivity|constructor].
  - cbn [forallb] in Hw. apply andb_prop in Hw. destruct Hw as [Hwo Hw].
    cbn [run_from spec_run_from].
    destruct (step cfg st o) as [st1 r] eqn:Hs.
    destruct (step_sim cfg st o st1 r Hi Hwo Hs) as (Hi1 & Hsp & Hok).
    rewrite Hsp. destruct (IH st1 Hi1 Hw) as (Hi2 & Hsp2 & Hok2).
    rewrite Hsp2. destruct (run_from cfg st1 ops) as [st2 rs]. cbn [fst snd map] in *.
    split; [exact Hi2|]. split; [reflexivity|]. constructor; assumption.
Qed.

(* The model refines the write-once specification on every history. *)
Theorem loader_refines cfg ops :
  cfg_wf cfg = true -> forallb op_wf ops = true -> map project (outs cfg ops) = spec_outs cfg ops.
Proof.
  intros Hc Hw. unfold outs, spec_outs, run, spec_run.
  destruct (run_from_sim cfg ops (init_state cfg) (inv_init cfg Hc) Hw) as (_ & Hs & _).
  rewrite abs_init in Hs. rewrite Hs. reflexivity.
Qed.

Theorem loader_state_refines cfg ops :
  cfg_wf cfg = true -> forallb op_wf ops = true -> abs (fst (run cfg ops)) = fst (spec_run cfg ops).
Proof.
  intros Hc Hw. unfold run, spec_run.
  destruct (run_from_sim cfg ops (init_state cfg) (inv_init cfg Hc) Hw) as (_ & Hs & _).
  rewrite abs_init in Hs. rewrite Hs. reflexivity.
Qed.

Theorem reachable_inv cfg ops :
  cfg_wf cfg = true -> forallb op_wf ops = true -> inv (fst (run cfg ops)).
Proof.
  intros Hc Hw. unfold run. apply (run_from_sim cfg ops (init_state cfg) (inv_init cfg Hc) Hw).
Qed.

(* No operation of any history hits a runtime fault, runs out of fuel or reports an error other than the
   two redefinition errors of a definition. *)
Theorem results_classified cfg ops :
  cfg_wf cfg = true -> forallb op_wf ops = true -> Forall2 (fun o r => out_ok o r = true) ops (outs cfg ops).
Proof.
  intros Hc Hw. unfold outs, run. apply (run_from_sim cfg ops (init_state cfg) (inv_init cfg Hc) Hw).
Qed.

Lemma run_from_app cfg : forall ops1 ops2 st,
  run_from cfg st (ops1 ++ ops2) =
  (fst (run_from cfg (fst (run_from cfg st ops1)) ops2),
   snd (run_from cfg st ops1) ++ snd (run_from cfg (fst (run_from cfg st ops1)) ops2)).
Proof.
  induction ops1 as [|o ops1 IH]; intros ops2 st.
  - cbn. destruct (run_from cfg st ops2). reflexivity.
  - cbn [app run_from]. destruct (step cfg st o) as [st1 r]. rewrite IH.
    destruct (run_from cfg st1 ops1) as [st2 rs]. cbn [fst snd].
    destruct (run_from cfg st2 ops2). reflexivity.
Qed.
