(* CollHeapAProofs.v — property C08 for histories with read accessors that hand out Go slices and with the writes of
   the caller into what came back (Model/CollHeapA.v):
     access_fresh     the slice an accessor returns lives in an array that did not exist before the call
     astep_prefix     hence the step - the call AND every write of the caller into the elements / the spare capacity of
                      the result - leaves every array that existed before alone
     aframe, ...      the frame theorems of CollHeapFrame.v / CollHeapXProofs.v for these histories. *)
From Coq Require Import ZArith NArith Bool List Lia.
From PcoreV Require Import Model.Base Model.Heap Model.Coll Model.CollHeap Model.CollHeapX Model.CollHeapA
     Proofs.HeapProofs Proofs.CollHeapProofs Proofs.CollHeapDecide Proofs.CollHeapFrame Proofs.CollHeapXProofs.
Import ListNotations.
Local Open Scope nat_scope.
Local Opaque obs_fuel.

(* ---------------------------------------------------------------------------------------------- *)
(* a write of the caller *)

Lemma poke_length h s i v : length (poke h s i v) = length h.
Proof. unfold poke. destruct (Nat.ltb i (s_cap s)); [apply update_nth_length|reflexivity]. Qed.

Lemma poke_prefix (h0 h : hstore) s i v :
  prefix h0 h -> length h0 <= s_addr s -> prefix h0 (poke h s i v).
Proof.
  intros [e ->] Hs. unfold poke. destruct (Nat.ltb i (s_cap s)); [|now exists e].
  rewrite update_nth_app_r by assumption. now eexists.
Qed.

Lemma poke_closed (h : hstore) s i v :
  store_closed h -> val_closed (length h) v -> store_closed (poke h s i v).
Proof.
  intros Hc Hv a c Hin. rewrite poke_length. unfold poke in Hin.
  destruct (Nat.ltb i (s_cap s)); [|now apply (Hc a)].
  unfold arr_at in Hin. rewrite update_nth_nth in Hin.
  destruct (Nat.eqb (s_addr s) a).
  - destruct (Nat.ltb a (length h)); [|contradiction].
    apply write_cells_In in Hin. destruct Hin as [H|[x [Hx ->]]].
    + now apply (Hc a).
    + cbn in Hx. destruct Hx as [<-|[]]. exact Hv.
  - now apply (Hc a).
Qed.

Lemma pokes_length pool s : forall ws h, length (pokes pool h s ws) = length h.
Proof.
  unfold pokes. induction ws as [|w ws IH]; intros h; cbn [fold_left]; [reflexivity|].
  rewrite IH. apply poke_length.
Qed.

Lemma pokes_prefix pool (h0 : hstore) s : forall ws h,
  prefix h0 h -> length h0 <= s_addr s -> prefix h0 (pokes pool h s ws).
Proof.
  unfold pokes. induction ws as [|w ws IH]; intros h Hp Hs; cbn [fold_left]; [assumption|].
  apply IH; [|assumption]. now apply poke_prefix.
Qed.

Lemma pokes_closed pool s : forall ws h,
  store_closed h -> Forall (val_closed (length h)) pool -> store_closed (pokes pool h s ws).
Proof.
  unfold pokes. induction ws as [|w ws IH]; intros h Hc Hp; cbn [fold_left]; [assumption|].
  apply IH.
  - apply poke_closed; [assumption|]. unfold P. apply Forall_nth; [exact I|assumption].
  - now rewrite poke_length.
Qed.

(* ---------------------------------------------------------------------------------------------- *)
(* the accessor: append(dst, elements...) on the caller's destination *)

Lemma access_run_spec g (h : hstore) items dc loop elems :
  store_closed h -> Forall (val_closed (length h)) items -> Forall (val_closed (length h)) elems ->
  let r := access_run g h items dc loop elems in
  prefix h (fst r) /\ length h <= s_addr (snd r) /\
  store_closed (fst r) /\ s_addr (snd r) < length (fst r) /\ length h <= length (fst r).
Proof.
  intros Hc Hi He. unfold access_run.
  pose proof (halloc_closed h items dc Hc Hi) as Hc1.
  pose proof (halloc_length h items dc) as Hl1. pose proof (halloc_addr h items dc) as Ha1.
  pose proof (halloc_prefix h items dc) as Hp1.
  destruct (halloc h items dc) as [h1 d]. cbn [fst snd] in *.
  assert (He1 : Forall (val_closed (length h1)) elems).
  { rewrite Forall_forall in *. intros y Hy. eapply val_closed_mono; [|apply He; exact Hy]. lia. }
  destruct loop; cbn zeta.
  - destruct (append_each_prefix g h elems h1 d Hp1 ltac:(lia)) as [Hp2 Hs2].
    destruct (append_each_closed g elems h1 d Hc1 He1 ltac:(lia)) as [Hc2 [Hb2 Hd2]].
    repeat split; auto. lia.
  - destruct (happend_prefix_fresh g h h1 d elems Hp1 ltac:(lia)) as [Hp2 Hs2].
    pose proof (happend_closed g h1 d elems Hc1 He1) as Hc2.
    pose proof (happend_addr_lt g h1 d elems ltac:(lia)) as Hb2.
    pose proof (happend_length_ge g h1 d elems) as Hd2.
    repeat split; auto. lia.
Qed.

Lemma access_elems_closed h pool r entries loop elems :
  store_closed h -> Forall (val_closed (length h)) pool ->
  access_elems h (P pool r) entries = Some (loop, elems) -> Forall (val_closed (length h)) elems.
Proof.
  intros Hc Hp. assert (Hr : val_closed (length h) (P pool r)) by (unfold P; apply Forall_nth; [exact I|assumption]).
  unfold access_elems. destruct (P pool r) as [| | | |s|s|k v|]; destruct entries; try discriminate;
    intros [= <- <-]; try (now apply store_closed_els).
  cbn in Hr. destruct Hr. repeat constructor; assumption.
Qed.

(* ---------------------------------------------------------------------------------------------- *)
(* one step *)

(* what an AAccess step does, as one statement *)
Lemma access_step_spec g st entries r dl dc dx ws :
  state_wf st ->
  let st' := fst (astep g st (AAccess entries r dl dc dx ws)) in
  prefix (st_heap st) (st_heap st') /\ state_wf st' /\
  match snd (astep g st (AAccess entries r dl dc dx ws)) with
  | RVal p => exists res, st_pool st' = st_pool st ++ [if entries then HHash res else HArr res] /\
                          p = observe obs_fuel (st_heap st') (if entries then HHash res else HArr res) /\
                          length (st_heap st) <= s_addr res
  | RErr _ => st_pool st' = st_pool st ++ [HUndef]
  end.
Proof.
  intros [Hc Hp]. cbn [astep].
  destruct (if access_typed (st_pool st) entries dl dx ws then access_elems (st_heap st) (P (st_pool st) r) entries else None)
    as [[loop elems]|] eqn:E.
  - assert (He : Forall (val_closed (length (st_heap st))) elems).
    { destruct (access_typed (st_pool st) entries dl dx ws); [|discriminate].
      eapply access_elems_closed; eassumption. }
    assert (Hi : Forall (val_closed (length (st_heap st))) (repeat (P (st_pool st) dx) dl)).
    { rewrite Forall_forall. intros y Hy. apply repeat_spec in Hy. subst y. unfold P. apply Forall_nth; [exact I|assumption]. }
    destruct (access_run_spec g (st_heap st) (repeat (P (st_pool st) dx) dl) dc loop elems Hc Hi He) as [Hp2 [Hs2 [Hc2 [Hb2 Hd2]]]].
    destruct (access_run g (st_heap st) (repeat (P (st_pool st) dx) dl) dc loop elems) as [h2 res]. cbn [fst snd] in *.
    assert (Hp2' : Forall (val_closed (length h2)) (st_pool st)).
    { rewrite Forall_forall in *. intros y Hy. eapply val_closed_mono; [exact Hd2|auto]. }
    split; [now apply pokes_prefix|]. split.
    + split; cbn [st_heap st_pool].
      * now apply pokes_closed.
      * rewrite pokes_length. apply Forall_app'; [assumption|]. repeat constructor. destruct entries; exact Hb2.
    + exists res. repeat split; auto.
  - cbn [fst snd st_heap st_pool]. split; [apply prefix_refl|]. split; [|reflexivity].
    split; [assumption|]. apply Forall_app'; [assumption|repeat constructor].
Qed.

(* THE ACCESSOR RETURNS FRESH STORAGE: the slice that AppendTo / AppendEntriesTo hands out - for every receiver
   (whole arrays, views, arrays with spare capacity), every destination (nil, empty, empty with room, non-empty) and
   every growth policy - lies in a backing array that did not exist before the call *)
Theorem access_fresh g st entries r dl dc dx ws : state_wf st ->
  match snd (astep g st (AAccess entries r dl dc dx ws)) with
  | RVal _ => exists res, st_pool (fst (astep g st (AAccess entries r dl dc dx ws))) =
                          st_pool st ++ [if entries then HHash res else HArr res] /\
                          length (st_heap st) <= s_addr res
  | RErr _ => True
  end.
Proof.
  intros Hw. destruct (access_step_spec g st entries r dl dc dx ws Hw) as [_ [_ H]].
  destruct (snd (astep g st (AAccess entries r dl dc dx ws))); [|exact I].
  destruct H as [res [H1 [_ H3]]]. now exists res.
Qed.

Lemma astep_prefix g st o : state_wf st -> prefix (st_heap st) (st_heap (fst (astep g st o))).
Proof.
  intros Hw. destruct o as [x|entries r dl dc dx ws].
  - now apply xstep_prefix.
  - exact (proj1 (access_step_spec g st entries r dl dc dx ws Hw)).
Qed.

Lemma astep_wf g st o : state_wf st -> state_wf (fst (astep g st o)).
Proof.
  intros Hw. destruct o as [x|entries r dl dc dx ws].
  - now apply xstep_wf.
  - exact (proj1 (proj2 (access_step_spec g st entries r dl dc dx ws Hw))).
Qed.

Lemma astep_out g st o : state_wf st ->
  let st' := fst (astep g st o) in
  match snd (astep g st o) with
  | RVal p => exists v, st_pool st' = st_pool st ++ [v] /\ p = observe obs_fuel (st_heap st') v
  | RErr _ => st_pool st' = st_pool st ++ [HUndef]
  end.
Proof.
  intros Hw. destruct o as [x|entries r dl dc dx ws].
  - apply xstep_out.
  - pose proof (proj2 (proj2 (access_step_spec g st entries r dl dc dx ws Hw))) as H. cbn zeta in *.
    destruct (snd (astep g st (AAccess entries r dl dc dx ws))); [|exact H].
    destruct H as [res [H1 [H2 _]]]. eexists; split; eassumption.
Qed.

Lemma astep_pool g st o : state_wf st -> exists v, st_pool (fst (astep g st o)) = st_pool st ++ [v].
Proof.
  intros Hw. pose proof (astep_out g st o Hw) as H. cbn zeta in H.
  destruct (snd (astep g st o)); [destruct H as [w [H _]]; now exists w|now exists HUndef].
Qed.

(* ---------------------------------------------------------------------------------------------- *)
(* histories *)

Lemma arun_cons g st o t :
  arun g st (o :: t) = let '(st1, r) := astep g st o in let '(st2, rs) := arun g st1 t in (st2, r :: rs).
Proof. reflexivity. Qed.

Lemma arun_wf g : forall ops st, state_wf st -> state_wf (fst (arun g st ops)).
Proof.
  induction ops as [|o t IH]; intros st Hw; [assumption|]. rewrite arun_cons.
  pose proof (astep_wf g st o Hw) as H1. destruct (astep g st o) as [st1 r]. cbn [fst] in H1.
  specialize (IH st1 H1). destruct (arun g st1 t) as [st2 rs]. exact IH.
Qed.

Lemma arun_prefix g : forall ops st, state_wf st -> prefix (st_heap st) (st_heap (fst (arun g st ops))).
Proof.
  induction ops as [|o t IH]; intros st Hw; [apply prefix_refl|]. rewrite arun_cons.
  pose proof (astep_prefix g st o Hw) as H1. pose proof (astep_wf g st o Hw) as Hw1.
  destruct (astep g st o) as [st1 r]. cbn [fst] in H1, Hw1.
  specialize (IH st1 Hw1). destruct (arun g st1 t) as [st2 rs]. cbn [fst] in *. eapply prefix_trans; eassumption.
Qed.

Lemma arun_pool g : forall ops st, state_wf st ->
  exists more, st_pool (fst (arun g st ops)) = st_pool st ++ more /\ length more = length ops.
Proof.
  induction ops as [|o t IH]; intros st Hw; [exists []; split; [now rewrite app_nil_r|reflexivity]|]. rewrite arun_cons.
  destruct (astep_pool g st o Hw) as [v Hv]. pose proof (astep_wf g st o Hw) as Hw1.
  destruct (astep g st o) as [st1 r]. cbn [fst] in Hv, Hw1.
  destruct (IH st1 Hw1) as [more [Hm Hl]]. destruct (arun g st1 t) as [st2 rs]. cbn [fst] in *.
  exists (v :: more). rewrite Hm, Hv, <- app_assoc. split; [reflexivity|cbn; lia].
Qed.

(* C08 for histories with accessors and caller writes: no history changes the deep observation (at any depth) of a
   value of the pool *)
Theorem aframe g ops st : state_wf st ->
  forall fuel x, In x (st_pool st) ->
    observe fuel (st_heap (fst (arun g st ops))) x = observe fuel (st_heap st) x.
Proof.
  intros Hw fuel x Hx. pose proof Hw as [Hc Hp]. apply observe_local; [assumption|now apply arun_prefix|].
  rewrite Forall_forall in Hp. now apply Hp.
Qed.

Lemma arun_app g : forall ops1 ops2 st,
  arun g st (ops1 ++ ops2) =
  let '(st1, r1) := arun g st ops1 in let '(st2, r2) := arun g st1 ops2 in (st2, r1 ++ r2).
Proof.
  induction ops1 as [|o t IH]; intros ops2 st.
  - cbn [app arun]. destruct (arun g st ops2); reflexivity.
  - cbn [app]. rewrite !arun_cons. destruct (astep g st o) as [st1 r]. rewrite IH.
    destruct (arun g st1 t) as [st2 rs]. destruct (arun g st2 ops2); reflexivity.
Qed.

Theorem afinal_obs_stable g ops1 ops2 :
  firstn (length ops1) (final_obs (fst (arun g empty_state (ops1 ++ ops2)))) =
  final_obs (fst (arun g empty_state ops1)).
Proof.
  rewrite arun_app.
  pose proof (arun_wf g ops1 empty_state empty_wf) as Hw.
  destruct (arun_pool g ops1 empty_state empty_wf) as [m1 [Hm1 Hl1]].
  destruct (arun g empty_state ops1) as [st1 r1]. cbn [fst] in *.
  pose proof (aframe g ops2 st1 Hw obs_fuel) as Hf.
  destruct (arun_pool g ops2 st1 Hw) as [m2 [Hm2 Hl2]].
  destruct (arun g st1 ops2) as [st2 r2]. cbn [fst] in *.
  unfold final_obs. rewrite Hm2, map_app.
  assert (Hlen : length ops1 = length (map (observe obs_fuel (st_heap st2)) (st_pool st1))).
  { rewrite map_length, Hm1. cbn. lia. }
  rewrite Hlen, firstn_app, Nat.sub_diag, firstn_all. cbn [firstn]. rewrite app_nil_r.
  apply map_ext_in. intros x Hx. now apply Hf.
Qed.

Theorem aresults_stable g : forall ops st, state_wf st ->
  Forall2 out_matches (snd (arun g st ops))
          (skipn (length (st_pool st)) (final_obs (fst (arun g st ops)))).
Proof.
  induction ops as [|o t IH]; intros st Hw.
  - cbn [arun fst snd]. unfold final_obs. rewrite <- (map_length (observe obs_fuel (st_heap st))), skipn_all. constructor.
  - rewrite arun_cons.
    pose proof (astep_out g st o Hw) as Ho. pose proof (astep_wf g st o Hw) as Hw1.
    destruct (astep g st o) as [st1 r]. cbn [fst snd] in *.
    specialize (IH st1 Hw1). pose proof (aframe g t st1 Hw1 obs_fuel) as Hf.
    destruct (arun_pool g t st1 Hw1) as [more [Hm Hl]].
    destruct (arun g st1 t) as [st2 rs]. cbn [fst snd] in *.
    assert (Hv : exists v, st_pool st1 = st_pool st ++ [v] /\ out_matches r (observe obs_fuel (st_heap st2) v)).
    { destruct r as [p|e].
      - destruct Ho as [v [Hpp ->]]. exists v. split; [assumption|]. cbn. symmetry. apply Hf. rewrite Hpp. apply in_or_app; right; now left.
      - exists HUndef. split; [assumption|reflexivity]. }
    destruct Hv as [v [Hpp Hr]].
    unfold final_obs in *. rewrite Hm in *. rewrite skipn_map_app in IH.
    rewrite Hpp, <- app_assoc. cbn [app]. rewrite skipn_map_app. cbn [map].
    constructor; assumption.
Qed.

(* the histories of CollHeapX.v are the histories without accessor steps *)
Lemma arun_base g : forall ops st, arun g st (map ABase ops) = xrun g st ops.
Proof.
  induction ops as [|o t IH]; intros st; [reflexivity|]. cbn [map]. rewrite arun_cons, xrun_cons.
  change (astep g st (ABase o)) with (xstep g st o). destruct (xstep g st o) as [st1 r]. now rewrite IH.
Qed.

(* ---------------------------------------------------------------------------------------------- *)
(* sensitivity: the model expresses the defect class of C08-m8.  x = ['a','b','c','d'], s = x.Slice(0, 2),
   res := s.AppendTo(nil), res[:cap(res)][2] = true (what the Enum creator does with its trailing flag).
   With the accessor as it is, x is what it was; with an accessor that hands out the receiver's own slice when the
   destination is empty, x has become ['a','b',true,'d']. *)
Local Transparent obs_fuel.
Example aliasing_accessor_breaks_frame :
  let a := PStr [97%N] in let b := PStr [98%N] in let c := PStr [99%N] in let d := PStr [100%N] in
  let ops := [ABase (XBase (OLit (PArr [a; b; c; d]))); ABase (XBase (OSlice 0 0%Z 2%Z)); ABase (XBase (OLit (PBool true)))] in
  let st := fst (arun grow_exact empty_state ops) in
  let st1 := fst (astep grow_exact st (AAccess false 1 0 0 2 [(2, 2)])) in
  let st2 := aliasing_access st 1 [(2, 2)] in
  observe obs_fuel (st_heap st1) (P (st_pool st1) 0) = PArr [a; b; c; d] /\
  observe obs_fuel (st_heap st1) (P (st_pool st1) 3) = PArr [a; b] /\
  observe obs_fuel (st_heap st2) (P (st_pool st2) 0) = PArr [a; b; PBool true; d].
Proof. vm_compute. repeat split; reflexivity. Qed.
