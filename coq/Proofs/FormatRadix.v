(* FormatRadix.v — radix renderings convert back: for every int64 n, the rendering of n under
   %d %x %X %o %b %B (with or without '#', with or without '+') is accepted by the Integer
   constructor with the matching radix and gives n (property C20). *)
From Coq Require Import ZArith NArith Bool Lia List.
From PcoreV Require Import Model.Base Model.Format Proofs.FormatProofs.
Import ListNotations.
Open Scope Z_scope.

(* ------------------------------------------------------------------------------------------ *)
(* characters that are digits of a radix <= 16 *)

Ltac nsplit :=
  repeat match goal with
         | H : context [N.leb ?a ?b] |- _ => destruct (N.leb_spec a b)
         | |- context [N.leb ?a ?b] => destruct (N.leb_spec a b)
         | H : context [N.eqb ?a ?b] |- _ => destruct (N.eqb_spec a b)
         | |- context [N.eqb ?a ?b] => destruct (N.eqb_spec a b)
         end.

Ltac lsplit := repeat match goal with |- context [N.leb ?a ?b] => destruct (N.leb_spec a b) end.

Ltac fin := first [ reflexivity | lia | exfalso; lia ].

Definition dig (base : Z) (c : N) : Prop := exists d, digit_val c = Some d /\ 0 <= d < base.

Lemma dig_cases c d : digit_val c = Some d ->
  ((48 <= c <= 57)%N /\ d = Z.of_N c - 48) \/ ((97 <= c <= 122)%N /\ d = Z.of_N c - 87) \/ ((65 <= c <= 90)%N /\ d = Z.of_N c - 55).
Proof.
  unfold digit_val, is_digit, between. intros H. nsplit; cbn [andb] in H; try discriminate; injection H as <-; fin.
Qed.

Lemma dig_hex c : dig 16 c -> is_hex c = true.
Proof.
  intros (d & Hd & Hr). destruct (dig_cases c d Hd) as [[H1 ->]|[[H1 ->]|[H1 ->]]];
    unfold is_hex, is_digit, between; nsplit; cbn; fin.
Qed.

Lemma dig_not_sign c base : dig base c -> N.eqb c 43 = false /\ N.eqb c 45 = false /\ is_ws c = false.
Proof.
  intros (d & Hd & Hr). destruct (dig_cases c d Hd) as [[H1 ->]|[[H1 ->]|[H1 ->]]];
    unfold is_ws, mem; cbn [existsb]; nsplit; cbn; repeat split; try fin.
Qed.

Lemma dig_not_x c : dig 16 c -> N.eqb (lower_b c) 120 = false.
Proof.
  intros (d & Hd & Hr). destruct (dig_cases c d Hd) as [[H1 ->]|[[H1 ->]|[H1 ->]]];
    unfold lower_b, between; lsplit; cbn [andb]; cbv iota; nsplit; try fin.
Qed.

Lemma dig_not_b c : dig 2 c -> N.eqb (lower_b c) 98 = false.
Proof.
  intros (d & Hd & Hr). destruct (dig_cases c d Hd) as [[H1 ->]|[[H1 ->]|[H1 ->]]];
    unfold lower_b, between; lsplit; cbn [andb]; cbv iota; nsplit; try fin.
Qed.

Lemma dig_mono b1 b2 c : b1 <= b2 -> dig b1 c -> dig b2 c.
Proof. intros H (d & Hd & Hr). exists d. split; [assumption | lia]. Qed.

Lemma digit_val_nonneg c d : digit_val c = Some d -> 0 <= d.
Proof. intros H. destruct (dig_cases c d H) as [[H1 ->]|[[H1 ->]|[H1 ->]]]; lia. Qed.

Lemma digit_vals_all base ds dv : digit_vals base ds = Some dv -> Forall (dig base) ds.
Proof.
  revert dv. induction ds as [|c ds IH]; intros dv H; [constructor|]. cbn [digit_vals] in H.
  destruct (digit_val c) as [d|] eqn:Ed; [|discriminate]. destruct (Z.ltb_spec d base); [|discriminate].
  destruct (digit_vals base ds) as [dv'|]; [|discriminate].
  constructor; [exists d; split; [assumption | split; [now apply (digit_val_nonneg c) | assumption]] | now apply (IH dv')].
Qed.

Lemma forallb_hex base ds : base <= 16 -> Forall (dig base) ds -> forallb is_hex ds = true.
Proof.
  intros Hb H. induction H as [|c ds Hc _ IH]; [reflexivity|]. cbn [forallb].
  rewrite (dig_hex c (dig_mono base 16 c Hb Hc)), IH. reflexivity.
Qed.

(* ------------------------------------------------------------------------------------------ *)
(* strconv.ParseInt on sign ++ digits *)

Definition sign_ok (sg : str) : Prop := sg = [] \/ sg = [43%N] \/ sg = [45%N].
Definition signed (sg : str) (u : Z) : Z := match sg with [45%N] => - u | _ => u end.

Local Opaque digit_vals of_digits in_int64.
Lemma parse_int_signed base sg body dv :
  sign_ok sg -> body <> [] -> Forall (dig base) body ->
  digit_vals base body = Some dv -> in_int64 (signed sg (of_digits base dv)) = true ->
  parse_int (sg ++ body) base = Some (signed sg (of_digits base dv)).
Proof.
  intros Hs Hne Hall Hv Hr. destruct body as [|c body']; [congruence|].
  inversion Hall as [|? ? Hc _]; subst. destruct (dig_not_sign c base Hc) as (Hp & Hm & _).
  destruct Hs as [-> | [-> | ->]]; cbn in Hr |- *.
  - rewrite Hp, Hm. cbn. rewrite Hv, Hr. reflexivity.
  - rewrite Hv, Hr. reflexivity.
  - rewrite Hv, Hr. reflexivity.
Qed.
Local Transparent digit_vals of_digits in_int64.

Lemma digit_vals_zero base body dv :
  2 <= base -> digit_vals base body = Some dv ->
  digit_vals base (48%N :: body) = Some (0 :: dv) /\ of_digits base (0 :: dv) = of_digits base dv.
Proof.
  intros Hb Hv. split.
  - cbn [digit_vals]. change (digit_val 48) with (Some 0). cbv iota beta.
    assert (H0 : 0 <? base = true) by (apply Z.ltb_lt; lia). rewrite H0, Hv. reflexivity.
  - unfold of_digits. cbn [of_digits_acc]. reflexivity.
Qed.

(* ------------------------------------------------------------------------------------------ *)
(* the Integer constructor on sign ++ prefix ++ digits *)

Lemma drop_signs_digits base sg body :
  sign_ok sg -> body <> [] -> Forall (dig base) body ->
  drop_while (fun c => N.eqb c 43 || N.eqb c 45) (sg ++ body) = body /\ strip_sign (sg ++ body) = body.
Proof.
  intros Hs Hne Hall. destruct body as [|c body']; [congruence|].
  inversion Hall as [|? ? Hc _]; subst. destruct (dig_not_sign c base Hc) as (Hp & Hm & _).
  destruct Hs as [-> | [-> | ->]]; cbn [app drop_while strip_sign]; cbn; rewrite ?Hp, ?Hm; cbn; auto.
Qed.

Lemma firstn_sign (sg body : str) : firstn (length (sg ++ body) - length body) (sg ++ body) = sg.
Proof.
  rewrite app_length. replace (length sg + length body - length body)%nat with (length sg) by lia.
  rewrite firstn_app, Nat.sub_diag, firstn_all. cbn. now rewrite app_nil_r.
Qed.

(* no prefix: the digits alone *)
Lemma int_new_plain base sg ds dv :
  In base [2; 8; 10; 16] -> sign_ok sg -> ds <> [] -> digit_vals base ds = Some dv ->
  in_int64 (signed sg (of_digits base dv)) = true ->
  int_new (sg ++ ds) base = Some (signed sg (of_digits base dv)).
Proof.
  intros Hb Hs Hne Hv Hr. pose proof (digit_vals_all base ds dv Hv) as Hall.
  assert (Hb16 : base <= 16) by (cbn in Hb; lia).
  destruct (drop_signs_digits base sg ds Hs Hne Hall) as [Hd Hst].
  unfold int_new, convertible. rewrite Hst, Hd.
  assert (Hh : nonempty_all is_hex ds = true).
  { unfold nonempty_all. destruct ds; [congruence|]. now apply (forallb_hex base). }
  rewrite Hh, orb_true_r. cbv iota zeta.
  match goal with |- parse_int ?X _ = _ => assert (Hns : X = sg ++ ds) end.
  { destruct ds as [|a [|c [|e r]]].
    - reflexivity.
    - destruct a as [|p]; [reflexivity|]. repeat (destruct p as [p|p|]; try reflexivity).
    - destruct a as [|p]; [reflexivity|]. repeat (destruct p as [p|p|]; try reflexivity).
    - destruct a as [|p]; [reflexivity|].
      repeat (destruct p as [p|p|]; try reflexivity).
      inversion Hall as [|? ? _ Hall']; subst. inversion Hall' as [|? ? Hc _]; subst.
      destruct (Z.eqb_spec base 16) as [->|H16].
      + rewrite (dig_not_x c Hc). cbn [andb orb]. reflexivity.
      + destruct (Z.eqb_spec base 2) as [->|H2]; [|reflexivity].
        rewrite (dig_not_b c Hc). cbn [andb orb]. reflexivity. }
  rewrite Hns. now apply parse_int_signed.
Qed.

(* octal alternate form: a leading 0 *)
Lemma int_new_octal sg ds dv :
  sign_ok sg -> ds <> [] -> digit_vals 8 ds = Some dv ->
  in_int64 (signed sg (of_digits 8 dv)) = true ->
  int_new (sg ++ 48%N :: ds) 8 = Some (signed sg (of_digits 8 dv)).
Proof.
  intros Hs Hne Hv Hr.
  destruct (digit_vals_zero 8 ds dv ltac:(lia) Hv) as [Hv0 Ho]. rewrite <- Ho in Hr |- *.
  apply int_new_plain; [cbn; auto | assumption | discriminate | assumption | assumption].
Qed.

(* 0x / 0X / 0b / 0B: the prefix that agrees with the radix is dropped (integertype.go:124-128) *)
Lemma int_new_prefixed base p sg ds dv :
  (base = 16 /\ (p = 120%N \/ p = 88%N)) \/ (base = 2 /\ (p = 98%N \/ p = 66%N)) ->
  sign_ok sg -> ds <> [] -> digit_vals base ds = Some dv ->
  in_int64 (signed sg (of_digits base dv)) = true ->
  int_new (sg ++ 48%N :: p :: ds) base = Some (signed sg (of_digits base dv)).
Proof.
  intros Hp Hs Hne Hv Hr. pose proof (digit_vals_all base ds dv Hv) as Hall.
  assert (Hb16 : base <= 16) by (destruct Hp as [[-> _]|[-> _]]; lia).
  assert (Hh : forallb is_hex ds = true) by now apply (forallb_hex base).
  assert (Hd : drop_while (fun c => N.eqb c 43 || N.eqb c 45) (sg ++ 48%N :: p :: ds) = 48%N :: p :: ds
               /\ strip_sign (sg ++ 48%N :: p :: ds) = 48%N :: p :: ds).
  { destruct Hs as [-> | [-> | ->]]; cbn; auto. }
  destruct Hd as [Hd Hst].
  unfold int_new, convertible. rewrite Hst, Hd.
  assert (Hn : nonempty_all is_hex ds = true) by (unfold nonempty_all; destruct ds; [congruence | exact Hh]).
  assert (Hconv : int_body (drop_while is_ws (48%N :: p :: ds)) || nonempty_all is_hex (48%N :: p :: ds) = true).
  { destruct Hp as [[-> [-> | ->]]|[-> [-> | ->]]].
    - apply orb_true_iff; left.
      cbv beta iota zeta delta [int_body drop_while is_ws mem existsb N.eqb Pos.eqb orb andb]. rewrite Hn. reflexivity.
    - apply orb_true_iff; left.
      cbv beta iota zeta delta [int_body drop_while is_ws mem existsb N.eqb Pos.eqb orb andb]. rewrite Hn. reflexivity.
    - apply orb_true_iff; right. unfold nonempty_all. cbn [forallb]. rewrite Hh. reflexivity.
    - apply orb_true_iff; right. unfold nonempty_all. cbn [forallb]. rewrite Hh. reflexivity. }
  rewrite Hconv. destruct ds as [|d0 ds']; [congruence|].
  assert (Hcond : ((base =? 16) && N.eqb (lower_b p) 120) || ((base =? 2) && N.eqb (lower_b p) 98) = true).
  { destruct Hp as [[-> [-> | ->]]|[-> [-> | ->]]]; reflexivity. }
  cbv iota beta. rewrite Hcond.
  change (sg ++ 48%N :: p :: d0 :: ds') with (sg ++ (48%N :: p :: d0 :: ds')).
  rewrite firstn_sign. apply parse_int_signed; assumption.
Qed.

(* ------------------------------------------------------------------------------------------ *)
(* the renderings of fmt for an int64 *)

Definition sign_of (n : Z) (plus : bool) : str := if n <? 0 then [45%N] else if plus then [43%N] else [].

Lemma sign_of_ok n plus : sign_ok (sign_of n plus).
Proof. unfold sign_of, sign_ok. destruct (n <? 0); [auto|]. destruct plus; auto. Qed.

Lemma signed_sign_of n plus : signed (sign_of n plus) (Z.abs n) = n.
Proof.
  unfold sign_of, signed. destruct (Z.ltb_spec n 0); [lia|]. destruct plus; lia.
Qed.

(* no width, no precision, no space flag: sign, prefix, digits *)
Lemma fmt_integer_plain sharp zero plus minus base upper n :
  fmt_integer sharp zero plus false minus (-1) (-1) base upper n =
  sign_of n plus ++
  (if sharp then
     if base =? 2 then 48%N :: 98%N :: digits base upper (Z.abs n)
     else if base =? 8 then (match digits base upper (Z.abs n) with 48%N :: _ => digits base upper (Z.abs n) | _ => 48%N :: digits base upper (Z.abs n) end)
     else if base =? 16 then 48%N :: (if upper then 88%N else 120%N) :: digits base upper (Z.abs n)
     else digits base upper (Z.abs n)
   else digits base upper (Z.abs n)).
Proof.
  unfold fmt_integer, sign_of. cbv zeta. change (0 <=? -1) with false. cbn [andb]. rewrite andb_false_r. cbv iota.
  replace (zeros (0 - len (digits base upper (Z.abs n)))) with (@nil N).
  2:{ unfold zeros, len. replace (Z.to_nat _) with 0%nat by lia. reflexivity. }
  cbn [app].
  unfold fmt_pad. change (-1 <=? 0) with true. cbv iota.
  destruct (n <? 0); [reflexivity|]. destruct plus; reflexivity.
Qed.

Definition plain_format (f : format) : Prop :=
  f_width f = -1 /\ f_prec f = -1 /\ (f_plus f = 0%N \/ f_plus f = 43%N).

Lemma abs_int64 n : in_int64 n = true -> 0 <= Z.abs n < 2 ^ 64.
Proof.
  unfold in_int64, min_int64, max_int64. intros H. apply andb_true_iff in H. destruct H as [H1 H2].
  apply Z.leb_le in H1, H2. change (2 ^ 64) with 18446744073709551616. lia.
Qed.

(* %d %x %X %o %b *)
Theorem radix_roundtrip_verb f verb n :
  plain_format f -> in_int64 n = true -> In verb [100; 120; 88; 111; 98]%N ->
  int_new (go_fmt_int f verb n) (radix_of verb) = Some n.
Proof.
  intros (Hw & Hp & Hpl) Hn Hv. unfold go_fmt_int. rewrite Hw, Hp.
  assert (Hsp : N.eqb (f_plus f) 32 = false) by (destruct Hpl as [-> | ->]; reflexivity).
  rewrite Hsp, fmt_integer_plain.
  set (plus := N.eqb (f_plus f) 43). pose proof (sign_of_ok n plus) as Hs.
  pose proof (abs_int64 n Hn) as Hu.
  assert (Hcase : forall base up, In base [2; 8; 10; 16] ->
            exists dv, digit_vals base (digits base up (Z.abs n)) = Some dv /\ of_digits base dv = Z.abs n).
  { intros base up Hb. now apply digits_roundtrip. }
  assert (Hres : forall base dv, of_digits base dv = Z.abs n ->
                                  in_int64 (signed (sign_of n plus) (of_digits base dv)) = true
                                  /\ signed (sign_of n plus) (of_digits base dv) = n).
  { intros base dv ->. rewrite signed_sign_of. auto. }
  assert (Hfin : forall X base dv, of_digits base dv = Z.abs n ->
                   int_new X base = Some (signed (sign_of n plus) (of_digits base dv)) -> int_new X base = Some n).
  { intros X base dv Ho H. rewrite H. f_equal. apply Hres. exact Ho. }
  cbn [In] in Hv. destruct Hv as [<- | [<- | [<- | [<- | [<- | []]]]]]; cbn [N.eqb Pos.eqb radix_of orb].
  - (* d *)
    destruct (Hcase 10 false ltac:(cbn; auto)) as (dv & Hdv & Ho). destruct (Hres 10 dv Ho) as [Hr He].
    change (10 =? 2) with false. change (10 =? 8) with false. change (10 =? 16) with false. cbv iota.
    apply (Hfin _ 10 dv Ho).
    destruct (f_alt f); (apply int_new_plain; [cbn; auto | assumption | apply digits_nonempty | assumption | assumption]).
  - (* x *)
    destruct (Hcase 16 false ltac:(cbn; auto)) as (dv & Hdv & Ho). destruct (Hres 16 dv Ho) as [Hr He].
    change (16 =? 2) with false. change (16 =? 8) with false. change (16 =? 16) with true. cbv iota.
    apply (Hfin _ 16 dv Ho). destruct (f_alt f).
    + apply int_new_prefixed; [left; auto | assumption | apply digits_nonempty | assumption | assumption].
    + apply int_new_plain; [cbn; auto | assumption | apply digits_nonempty | assumption | assumption].
  - (* X *)
    destruct (Hcase 16 true ltac:(cbn; auto)) as (dv & Hdv & Ho). destruct (Hres 16 dv Ho) as [Hr He].
    change (16 =? 2) with false. change (16 =? 8) with false. change (16 =? 16) with true. cbv iota.
    apply (Hfin _ 16 dv Ho). destruct (f_alt f).
    + apply int_new_prefixed; [left; auto | assumption | apply digits_nonempty | assumption | assumption].
    + apply int_new_plain; [cbn; auto | assumption | apply digits_nonempty | assumption | assumption].
  - (* o *)
    destruct (Hcase 8 false ltac:(cbn; auto)) as (dv & Hdv & Ho). destruct (Hres 8 dv Ho) as [Hr He].
    change (8 =? 2) with false. change (8 =? 8) with true. cbv iota.
    apply (Hfin _ 8 dv Ho). destruct (f_alt f).
    + pose proof (digits_nonempty 8 false (Z.abs n)) as Hne.
      destruct (digits 8 false (Z.abs n)) as [|d0 ds'] eqn:Ed; [congruence|].
      assert (Hplain : int_new (sign_of n plus ++ d0 :: ds') 8 = Some (signed (sign_of n plus) (of_digits 8 dv)))
        by (apply int_new_plain; [cbn; auto | assumption | discriminate | assumption | assumption]).
      assert (Hoct : int_new (sign_of n plus ++ 48%N :: d0 :: ds') 8 = Some (signed (sign_of n plus) (of_digits 8 dv)))
        by (apply int_new_octal; [assumption | discriminate | assumption | assumption]).
      destruct d0 as [|p]; [exact Hoct|].
      repeat (destruct p as [p|p|]; try exact Hoct). exact Hplain.
    + apply int_new_plain; [cbn; auto | assumption | apply digits_nonempty | assumption | assumption].
  - (* b *)
    destruct (Hcase 2 false ltac:(cbn; auto)) as (dv & Hdv & Ho). destruct (Hres 2 dv Ho) as [Hr He].
    change (2 =? 2) with true. cbv iota.
    apply (Hfin _ 2 dv Ho). destruct (f_alt f).
    + apply int_new_prefixed; [right; auto | assumption | apply digits_nonempty | assumption | assumption].
    + apply int_new_plain; [cbn; auto | assumption | apply digits_nonempty | assumption | assumption].
Qed.

(* %B: the rendering of %b with the prefix in upper case (integertype.go:433-436) *)
Lemma replace_0b_skip a s : N.eqb a 48 = false -> replace_0b (a :: s) = a :: replace_0b s.
Proof. intros H. destruct s as [|b r]; [reflexivity|]. cbn [replace_0b]. rewrite H. reflexivity. Qed.

Lemma replace_0b_digits sg ds :
  sign_ok sg -> Forall (dig 2) ds -> replace_0b (sg ++ ds) = sg ++ ds.
Proof.
  intros Hs Hall.
  assert (Hd : replace_0b ds = ds).
  { induction Hall as [|c ds Hc Hall IH]; [reflexivity|]. cbn [replace_0b]. destruct ds as [|b ds']; [reflexivity|].
    inversion Hall as [|? ? Hb _]; subst.
    assert (Hb98 : N.eqb b 98 = false).
    { pose proof (dig_not_b b Hb) as H. unfold lower_b in H. destruct (N.eqb_spec b 98) as [->|]; [discriminate H | reflexivity]. }
    rewrite Hb98, andb_false_r. now rewrite IH. }
  destruct ds as [|c ds'].
  - rewrite app_nil_r. destruct Hs as [-> | [-> | ->]]; reflexivity.
  - inversion Hall as [|? ? Hc _]; subst.
    assert (Hc98 : N.eqb c 98 = false).
    { pose proof (dig_not_b c Hc) as H. unfold lower_b in H. destruct (N.eqb_spec c 98) as [->|]; [discriminate H | reflexivity]. }
    destruct Hs as [-> | [-> | ->]]; [exact Hd | |]; cbn [app]; rewrite replace_0b_skip by reflexivity; now rewrite Hd.
Qed.

Lemma replace_0b_prefixed sg ds :
  sign_ok sg -> replace_0b (sg ++ 48%N :: 98%N :: ds) = sg ++ 48%N :: 66%N :: ds.
Proof. intros [-> | [-> | ->]]; reflexivity. Qed.

Theorem radix_roundtrip_B f n :
  plain_format f -> in_int64 n = true ->
  int_new (replace_0b (go_fmt_int f 98 n)) 2 = Some n.
Proof.
  intros (Hw & Hp & Hpl) Hn. unfold go_fmt_int. rewrite Hw, Hp.
  assert (Hsp : N.eqb (f_plus f) 32 = false) by (destruct Hpl as [-> | ->]; reflexivity).
  rewrite Hsp, fmt_integer_plain. cbn [N.eqb Pos.eqb].
  set (plus := N.eqb (f_plus f) 43). pose proof (sign_of_ok n plus) as Hs.
  pose proof (abs_int64 n Hn) as Hu.
  destruct (digits_roundtrip 2 false (Z.abs n) ltac:(cbn; auto) Hu) as (dv & Hdv & Ho).
  assert (Hr : in_int64 (signed (sign_of n plus) (of_digits 2 dv)) = true /\ signed (sign_of n plus) (of_digits 2 dv) = n)
    by (rewrite Ho, signed_sign_of; auto).
  destruct Hr as [Hr He]. change (2 =? 2) with true. cbv iota.
  match goal with |- int_new ?X 2 = Some n =>
    assert (Hg : int_new X 2 = Some (signed (sign_of n plus) (of_digits 2 dv))); [|rewrite Hg; f_equal; exact He] end.
  destruct (f_alt f).
  - rewrite replace_0b_prefixed by assumption.
    apply int_new_prefixed; [right; auto | assumption | apply digits_nonempty | assumption | assumption].
  - rewrite replace_0b_digits; [|assumption|now apply (digit_vals_all 2 _ dv)].
    apply int_new_plain; [cbn; auto | assumption | apply digits_nonempty | assumption | assumption].
Qed.

(* through the value's ToString: Integer n under a plain format with letter d x X o b B *)
Theorem radix_roundtrip o f n t :
  plain_format f -> in_int64 n = true -> mem (f_char f) l_dxXobB = true ->
  render_scalar o f (VInt n) = OText t -> int_new t (radix_of (f_char f)) = Some n.
Proof.
  intros Hpf Hn Hc. cbn [render_scalar]. unfold render_int_top, render_integer. cbv zeta.
  destruct (mem (f_char f) l_xXodb) eqn:E1.
  - intros H. injection H as <-. apply radix_roundtrip_verb; try assumption.
    apply mem_true in E1. cbn in E1. cbn. intuition.
  - destruct (N.eqb (f_char f) 66) eqn:E2.
    + intros H. injection H as <-. apply N.eqb_eq in E2. rewrite E2. now apply radix_roundtrip_B.
    + exfalso. assert (Hf : mem (f_char f) l_dxXobB = false).
      { apply (mem_cover (f_char f) l_dxXobB [l_xXodb; [66%N]] eq_refl). cbn [forallb mem existsb]. rewrite E1, E2. reflexivity. }
      congruence.
Qed.

(* the same through px.NewFormatContext3(Integer n, directive) + ToString *)
Theorem radix_roundtrip_directive o s f n t :
  parse_format s None None CfNone = ROk f -> plain_format f -> in_int64 n = true ->
  mem (f_char f) l_dxXobB = true ->
  format_value o (VInt n) (FStr s) = Some (OText t) -> int_new t (radix_of (f_char f)) = Some n.
Proof.
  intros Hp Hpf Hn Hc H. rewrite (format_value_scalar o (VInt n) s f eq_refl Hp) in H.
  injection H as H. now apply (radix_roundtrip o f n t).
Qed.
