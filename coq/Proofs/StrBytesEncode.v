(* StrBytesEncode.v — C02, strings as bytes: encoding, and what strings.ToLower keeps for EVERY byte string. *)
From Coq Require Import ZArith NArith Bool List Lia.
From PcoreV Require Import Model.Base Model.Ty Model.Lattice Model.Spec Model.StrBytes Proofs.StrBytesProofs Proofs.StrBytesInst.
Import ListNotations.
Open Scope Z_scope.

Ltac nlia := zify; Z.to_euclidean_division_equations; lia.

(* what utf8.AppendRune writes for a value that is no Unicode scalar value: U+FFFD *)
Definition sanitize (c : N) : N :=
  if (N.ltb 1114111 c || (N.leb 55296 c && N.leb c 57343))%bool then RuneError else c.

Ltac first_tac :=
  unfold first;
  repeat match goal with
         | |- context [N.ltb ?a ?b] => destruct (N.ltb_spec a b); try lia
         | |- context [N.eqb ?a ?b] => destruct (N.eqb_spec a b); try lia
         end.

Lemma in_rng_true lo hi b : (lo <= b)%N -> (b <= hi)%N -> in_rng lo hi b = true.
Proof. intros A B. unfold in_rng. apply andb_true_iff. split; apply N.leb_le; assumption. Qed.

Lemma steps_fffd rest : steps (239 :: 191 :: 189 :: rest)%N = (RuneError, 3%nat) :: steps rest.
Proof. rewrite steps_cons. reflexivity. Qed.

Lemma steps_enc2 q r rest : (2 <= q < 32)%N -> (r < 64)%N ->
  steps ((192 + q) :: (128 + r) :: rest)%N = ((q * 64 + r)%N, 2%nat) :: steps rest.
Proof.
  intros Hq Hr. rewrite steps_cons.
  replace (first (192 + q)) with (LMulti 2 128 191) by (first_tac; reflexivity).
  rewrite (in_rng_true 128 191) by lia. cbv beta iota. cbn [negb].
  f_equal. f_equal. unfold cp2. nlia.
Qed.

Lemma steps_enc3 q1 q2 q3 rest : (q1 < 16)%N -> (q2 < 64)%N -> (q3 < 64)%N ->
  (q1 = 0 -> 32 <= q2)%N -> (q1 = 13 -> q2 < 32)%N ->
  steps ((224 + q1) :: (128 + q2) :: (128 + q3) :: rest)%N = ((q1 * 4096 + q2 * 64 + q3)%N, 3%nat) :: steps rest.
Proof.
  intros H1 H2 H3 Hlo Hsur. rewrite steps_cons.
  assert (F : exists lo hi, first (224 + q1) = LMulti 3 lo hi /\ (lo <= 128 + q2)%N /\ (128 + q2 <= hi)%N).
  { destruct (N.eq_dec q1 0) as [E|E]; [exists 160%N, 191%N; subst; split; [reflexivity|specialize (Hlo eq_refl); lia]|].
    destruct (N.eq_dec q1 13) as [E'|E']; [exists 128%N, 159%N; subst; split; [reflexivity|specialize (Hsur eq_refl); lia]|].
    exists 128%N, 191%N. split; [first_tac; reflexivity|lia]. }
  destruct F as (lo & hi & -> & A & B).
  rewrite (in_rng_true lo hi) by assumption. cbv beta iota. cbn [negb].
  unfold is_cont. rewrite (in_rng_true 128 191) by lia. cbn [negb].
  f_equal. f_equal. unfold cp3. nlia.
Qed.

Lemma steps_enc4 q0 q1 q2 q3 rest : (q0 <= 4)%N -> (q1 < 64)%N -> (q2 < 64)%N -> (q3 < 64)%N ->
  (q0 = 0 -> 16 <= q1)%N -> (q0 = 4 -> q1 < 16)%N ->
  steps ((240 + q0) :: (128 + q1) :: (128 + q2) :: (128 + q3) :: rest)%N =
  ((q0 * 262144 + q1 * 4096 + q2 * 64 + q3)%N, 4%nat) :: steps rest.
Proof.
  intros H0 H1 H2 H3 Hlo Hhi. rewrite steps_cons.
  assert (F : exists lo hi, first (240 + q0) = LMulti 4 lo hi /\ (lo <= 128 + q1)%N /\ (128 + q1 <= hi)%N).
  { destruct (N.eq_dec q0 0) as [E|E]; [exists 144%N, 191%N; subst; split; [reflexivity|specialize (Hlo eq_refl); lia]|].
    destruct (N.eq_dec q0 4) as [E'|E']; [exists 128%N, 143%N; subst; split; [reflexivity|specialize (Hhi eq_refl); lia]|].
    exists 128%N, 191%N. split; [first_tac; reflexivity|lia]. }
  destruct F as (lo & hi & -> & A & B).
  rewrite (in_rng_true lo hi) by assumption. cbv beta iota. cbn [negb].
  unfold is_cont. rewrite !(in_rng_true 128 191) by lia. cbn [negb].
  f_equal. f_equal. unfold cp4. nlia.
Qed.

(* decoding what AppendRune wrote gives the (sanitized) code point back, in one step *)
Theorem steps_encode_rune c rest :
  steps (encode_rune c ++ rest) = (sanitize c, length (encode_rune c)) :: steps rest.
Proof.
  unfold encode_rune, sanitize.
  destruct (N.ltb_spec c 128) as [L1|L1].
  - cbn [app length]. rewrite steps_cons. apply first_ascii in L1 as F. rewrite F.
    replace (N.ltb 1114111 c) with false by (symmetry; apply N.ltb_ge; lia).
    replace (N.leb 55296 c) with false by (symmetry; apply N.leb_gt; lia). reflexivity.
  - destruct (N.ltb_spec c 2048) as [L2|L2].
    + cbn [app length].
      replace (N.ltb 1114111 c) with false by (symmetry; apply N.ltb_ge; lia).
      replace (N.leb 55296 c) with false by (symmetry; apply N.leb_gt; lia). cbn [orb andb].
      rewrite (steps_enc2 (c / 64) (c mod 64)) by nlia. f_equal. f_equal. nlia.
    + destruct (N.ltb 1114111 c || (N.leb 55296 c && N.leb c 57343))%bool eqn:B.
      * cbn [app length]. apply steps_fffd.
      * apply orb_false_iff in B. destruct B as (B1 & B2). apply N.ltb_ge in B1.
        assert (NS : (c < 55296 \/ 57343 < c)%N).
        { apply andb_false_iff in B2. destruct B2 as [B2|B2]; [apply N.leb_gt in B2|apply N.leb_gt in B2]; lia. }
        destruct (N.ltb_spec c 65536) as [L3|L3].
        -- cbn [app length].
           replace (128 + c mod 64)%N with (128 + (c mod 64))%N by reflexivity.
           rewrite (steps_enc3 (c / 4096) ((c / 64) mod 64) (c mod 64)) by nlia. f_equal. f_equal. nlia.
        -- cbn [app length].
           rewrite (steps_enc4 (c / 262144) ((c / 4096) mod 64) ((c / 64) mod 64) (c mod 64)) by nlia. f_equal. f_equal. nlia.
Qed.

Theorem steps_encode cs : steps (encode cs) = map (fun c => (sanitize c, length (encode_rune c))) cs.
Proof.
  induction cs as [|c cs IH]; [reflexivity|]. unfold encode in *. cbn [flat_map map].
  now rewrite steps_encode_rune, IH.
Qed.

Theorem decode_encode cs : decode (encode cs) = map sanitize cs.
Proof. unfold decode. rewrite steps_encode, map_map. reflexivity. Qed.

Lemma encode_rune_width c : (2 <= length (encode_rune c))%nat \/ (length (encode_rune c) = 1%nat /\ (c < 128)%N).
Proof.
  unfold encode_rune.
  destruct (N.ltb_spec c 128); [right; split; [reflexivity|assumption]|].
  left. repeat match goal with |- context [if ?b then _ else _] => destruct b end; cbn; lia.
Qed.

(* whatever the code points, the encoder writes well-formed UTF-8 *)
Theorem encode_valid cs : valid_utf8 (encode cs) = true.
Proof.
  unfold valid_utf8. rewrite steps_encode. apply forallb_forall. intros st Hin.
  apply in_map_iff in Hin. destruct Hin as (c & <- & _). unfold err_step. cbn [fst snd].
  destruct (encode_rune_width c) as [W|(W & L)].
  - destruct (length (encode_rune c)) as [|[|n]]; try lia. now rewrite andb_false_r.
  - rewrite W. unfold sanitize.
    replace (N.ltb 1114111 c) with false by (symmetry; apply N.ltb_ge; lia).
    replace (N.leb 55296 c) with false by (symmetry; apply N.leb_gt; lia). cbn [orb andb].
    replace (N.eqb c RuneError) with false by (symmetry; apply N.eqb_neq; unfold RuneError; lia). reflexivity.
Qed.

Theorem encode_count cs : utf8_rune_count (encode cs) = zlen cs.
Proof. rewrite count_is_steps, steps_encode. unfold zlen. now rewrite map_length. Qed.

(* ---- strings.ToLower, for EVERY byte string and EVERY mapping of code points ---- *)
Section ToLower.
  Variable lc : N -> N.

  Lemma lower_ascii_is_ascii s : is_ascii s = true -> is_ascii (lower_ascii s) = true.
  Proof.
    unfold is_ascii. rewrite !forallb_forall. intros A b Hb.
    apply in_map_iff in Hb. destruct Hb as (b' & <- & Hb'). apply A in Hb'.
    rewrite N.ltb_lt in *. apply lower_low. exact Hb'.
  Qed.

  (* the result has as many code points as the argument: a case-insensitive Enum compares texts of equal size *)
  Theorem to_lower_count s : utf8_rune_count (to_lower_b lc s) = utf8_rune_count s.
  Proof.
    unfold to_lower_b. destruct (is_ascii s); [apply lower_count|].
    rewrite encode_count, count_is_decoded. unfold zlen. now rewrite map_length.
  Qed.

  (* the result is well-formed UTF-8, whatever the argument *)
  Theorem to_lower_valid s : valid_utf8 (to_lower_b lc s) = true.
  Proof.
    unfold to_lower_b. destruct (is_ascii s) eqn:A; [|apply encode_valid].
    apply ascii_valid, lower_ascii_is_ascii, A.
  Qed.

  (* its decoded text is the decoded text mapped (ASCII: folded) *)
  Theorem to_lower_decode s : is_ascii s = false -> decode (to_lower_b lc s) = map (fun c => sanitize (lc c)) (decode s).
  Proof. intros A. unfold to_lower_b. rewrite A, decode_encode, map_map. reflexivity. Qed.
End ToLower.

(* ---- well-formed UTF-8 is exactly what the encoder writes: encode (decode s) = s ---- *)

Lemma first_multi_precise b sz lo hi : first b = LMulti sz lo hi ->
  (sz = 2%nat /\ (194 <= b < 224)%N /\ lo = 128%N /\ hi = 191%N) \/
  (sz = 3%nat /\ (224 <= b < 240)%N /\ (128 <= lo)%N /\ (hi <= 191)%N /\ (b = 224 -> lo = 160)%N /\ (b = 237 -> hi = 159)%N) \/
  (sz = 4%nat /\ (240 <= b <= 244)%N /\ (128 <= lo)%N /\ (hi <= 191)%N /\ (b = 240 -> lo = 144)%N /\ (b = 244 -> hi = 143)%N).
Proof.
  unfold first.
  repeat match goal with
         | |- context [N.ltb ?a ?b] => destruct (N.ltb_spec a b)
         | |- context [N.eqb ?a ?b] => destruct (N.eqb_spec a b)
         end; intros HF; try discriminate; injection HF as <- <- <-;
    solve [ left; repeat split; first [reflexivity|lia]
          | right; left; repeat split; first [reflexivity|lia]
          | right; right; repeat split; first [reflexivity|lia] ].
Qed.

Lemma enc_cp2 b0 b1 : (194 <= b0 < 224)%N -> (128 <= b1 <= 191)%N -> encode_rune (cp2 b0 b1) = [b0; b1].
Proof.
  intros H0 H1. unfold encode_rune.
  assert (B : (128 <= cp2 b0 b1 < 2048)%N) by (unfold cp2; nlia).
  destruct (N.ltb_spec (cp2 b0 b1) 128); [lia|]. destruct (N.ltb_spec (cp2 b0 b1) 2048); [|lia].
  unfold cp2. f_equal; [nlia|f_equal; nlia].
Qed.

Lemma enc_cp3 b0 b1 b2 : (224 <= b0 < 240)%N -> (128 <= b1 <= 191)%N -> (128 <= b2 <= 191)%N ->
  (b0 = 224 -> 160 <= b1)%N -> (b0 = 237 -> b1 <= 159)%N -> encode_rune (cp3 b0 b1 b2) = [b0; b1; b2].
Proof.
  intros H0 H1 H2 Hlo Hsur. unfold encode_rune.
  assert (B : (2048 <= cp3 b0 b1 b2 < 65536)%N /\ (cp3 b0 b1 b2 < 55296 \/ 57343 < cp3 b0 b1 b2)%N).
  { unfold cp3. destruct (N.eq_dec b0 224) as [E|E]; [specialize (Hlo E)|]; (destruct (N.eq_dec b0 237) as [E'|E']; [specialize (Hsur E')|]); nlia. }
  destruct B as (B1 & B2).
  destruct (N.ltb_spec (cp3 b0 b1 b2) 128); [lia|]. destruct (N.ltb_spec (cp3 b0 b1 b2) 2048); [lia|].
  replace (N.ltb 1114111 (cp3 b0 b1 b2)) with false by (symmetry; apply N.ltb_ge; lia).
  replace (N.leb 55296 (cp3 b0 b1 b2) && N.leb (cp3 b0 b1 b2) 57343)%bool with false
    by (symmetry; apply andb_false_iff; destruct B2; [left|right]; apply N.leb_gt; lia).
  cbn [orb]. destruct (N.ltb_spec (cp3 b0 b1 b2) 65536); [|lia].
  unfold cp3. f_equal; [nlia|f_equal; [nlia|f_equal; nlia]].
Qed.

Lemma enc_cp4 b0 b1 b2 b3 : (240 <= b0 <= 244)%N -> (128 <= b1 <= 191)%N -> (128 <= b2 <= 191)%N -> (128 <= b3 <= 191)%N ->
  (b0 = 240 -> 144 <= b1)%N -> (b0 = 244 -> b1 <= 143)%N -> encode_rune (cp4 b0 b1 b2 b3) = [b0; b1; b2; b3].
Proof.
  intros H0 H1 H2 H3 Hlo Hhi. unfold encode_rune.
  assert (B : (65536 <= cp4 b0 b1 b2 b3 <= 1114111)%N).
  { unfold cp4. destruct (N.eq_dec b0 240) as [E|E]; [specialize (Hlo E)|]; (destruct (N.eq_dec b0 244) as [E'|E']; [specialize (Hhi E')|]); nlia. }
  destruct (N.ltb_spec (cp4 b0 b1 b2 b3) 128); [lia|]. destruct (N.ltb_spec (cp4 b0 b1 b2 b3) 2048); [lia|].
  replace (N.ltb 1114111 (cp4 b0 b1 b2 b3)) with false by (symmetry; apply N.ltb_ge; lia).
  replace (N.leb 55296 (cp4 b0 b1 b2 b3) && N.leb (cp4 b0 b1 b2 b3) 57343)%bool with false
    by (symmetry; apply andb_false_iff; right; apply N.leb_gt; lia).
  cbn [orb]. destruct (N.ltb_spec (cp4 b0 b1 b2 b3) 65536); [lia|].
  unfold cp4. f_equal; [nlia|f_equal; [nlia|f_equal; [nlia|f_equal; nlia]]].
Qed.

Lemma in_rng_bounds lo hi b : in_rng lo hi b = true -> (lo <= b <= hi)%N.
Proof. unfold in_rng. rewrite andb_true_iff, !N.leb_le. tauto. Qed.

Theorem encode_decode s : valid_utf8 s = true -> encode (decode s) = s.
Proof.
  induction s as [s IH] using str_len_ind. destruct s as [|b0 r]; [reflexivity|].
  unfold valid_utf8, decode, encode. rewrite steps_cons.
  assert (IHt : forall t, (length t <= length r)%nat -> forallb (fun st => negb (err_step st)) (steps t) = true ->
                          flat_map encode_rune (map fst (steps t)) = t)
    by (intros t L V; apply (IH t); [cbn [length]; lia|exact V]).
  assert (Err : forall l, forallb (fun st => negb (err_step st)) ((RuneError, 1%nat) :: l) = true -> False)
    by (intros l E; cbn [forallb] in E; apply andb_true_iff in E; destruct E as (E & _); discriminate E).
  destruct (first b0) as [| |sz lo hi] eqn:F.
  - apply first_ascii in F. cbn [forallb map flat_map fst]. intros V. apply andb_true_iff in V. destruct V as (_ & V).
    rewrite (IHt r (le_n _) V). unfold encode_rune. destruct (N.ltb_spec b0 128); [reflexivity|lia].
  - intros V. destruct (Err _ V).
  - destruct r as [|b1 r1]; [intros V; destruct (Err _ V)|].
    destruct (in_rng lo hi b1) eqn:R1; cbn [negb]; [|intros V; destruct (Err _ V)].
    apply in_rng_bounds in R1.
    destruct (first_multi_precise _ _ _ _ F) as [(-> & Hb & -> & ->)|[(-> & Hb & Hlo & Hhi & H224 & H237)|(-> & Hb & Hlo & Hhi & H240 & H244)]];
      cbv beta iota.
    + cbn [forallb map flat_map fst]. intros V. apply andb_true_iff in V. destruct V as (_ & V).
      rewrite (IHt r1) by (cbn [length]; lia || exact V). rewrite enc_cp2 by lia. reflexivity.
    + destruct r1 as [|b2 r2]; [intros V; destruct (Err _ V)|].
      destruct (is_cont b2) eqn:R2; cbn [negb]; [|intros V; destruct (Err _ V)].
      apply in_rng_bounds in R2.
      cbn [forallb map flat_map fst]. intros V. apply andb_true_iff in V. destruct V as (_ & V).
      rewrite (IHt r2) by (cbn [length]; lia || exact V).
      rewrite enc_cp3; [reflexivity|lia|lia|lia|intros E; specialize (H224 E); lia|intros E; specialize (H237 E); lia].
    + destruct r1 as [|b2 r2]; [intros V; destruct (Err _ V)|].
      destruct (is_cont b2) eqn:R2; cbn [negb]; [|intros V; destruct (Err _ V)].
      destruct r2 as [|b3 r3]; [intros V; destruct (Err _ V)|].
      destruct (is_cont b3) eqn:R3; cbn [negb]; [|intros V; destruct (Err _ V)].
      apply in_rng_bounds in R2. apply in_rng_bounds in R3.
      cbn [forallb map flat_map fst]. intros V. apply andb_true_iff in V. destruct V as (_ & V).
      rewrite (IHt r3) by (cbn [length]; lia || exact V).
      rewrite enc_cp4; [reflexivity|lia|lia|lia|lia|intros E; specialize (H240 E); lia|intros E; specialize (H244 E); lia].
Qed.

(* strings.ToLower returns well-formed text with no letter to fold unchanged (the "unchanged input" path of strings.Map) *)
Theorem to_lower_fixed (lc : N -> N) s : valid_utf8 s = true -> (forall c, In c (decode s) -> lc c = c) ->
  is_ascii s = false -> to_lower_b lc s = s.
Proof.
  intros V Fx A. unfold to_lower_b. rewrite A.
  replace (map lc (decode s)) with (decode s); [apply encode_decode; exact V|].
  symmetry. rewrite <- (map_id (decode s)) at 2. apply map_ext_in. exact Fx.
Qed.

(* A member of an Enum - flagged or not, ASCII or not, well-formed or not - has the number of code points of the listed
   value it matches (ToLower may change the BYTE length: U+0130 (2 bytes) -> 'i'); hence an Enum whose values all fit
   String[lo,hi] has only instances that fit it: the rule "String[lo,hi] accepts such an Enum" (stringtype.go:215) is
   sound on bytes. *)
Theorem enum_member_size (rx : str -> str -> bool) (lc : N -> N) ci vs s : vs <> [] -> instB rx lc (TEnum ci vs) s = true ->
  exists v, In v vs /\ utf8_rune_count v = utf8_rune_count s.
Proof.
  intros Hne H. cbn [instB] in H. unfold enum_inst_b in H. destruct vs as [|v0 vs]; [congruence|].
  apply mem_str_in in H. destruct ci.
  - exists (to_lower_b lc s). split; [exact H|apply to_lower_count].
  - exists s. split; [exact H|reflexivity].
Qed.

Theorem enum_fits_string_bound (rx : str -> str -> bool) (lc : N -> N) ci vs lo hi s : vs <> [] ->
  (forall v, In v vs -> in_size lo hi (utf8_rune_count v) = true) ->
  instB rx lc (TEnum ci vs) s = true -> instB rx lc (TStringSz lo hi) s = true.
Proof.
  intros Hne Hall H. destruct (enum_member_size rx lc ci vs s Hne H) as (v & Hin & E).
  cbn [instB]. rewrite <- E. apply Hall. exact Hin.
Qed.
