(* C13 - several namespaces, one file (Model/ConcNs.v): nobody waits for ever, and every operation returns.
   hinv: whoever holds a name mutex is inside the critical section of instantiate (phases locked/checked/marked) and
   can move; the measure rank(pc) + weights of the operations to come decreases at every step of an enabled thread.
   pinv: the results a thread has logged, the operation it is in and the operations to come are its program. *)
From Coq Require Import NArith Arith Bool List Lia.
From PcoreV Require Import Model.ConcNs Proofs.ConcNsProofs Proofs.ConcNsLoadProofs.
Import ListNotations.

Definition nenabled (st : nstate) (t : ntid) : bool :=
  match nt_pc (ns_thr st t) with
  | NIdle => match nt_todo (ns_thr st t) with [] => false | _ => true end
  | NBeforeLock _ _ lk => match nheld (ns_sh st) lk with None => true | Some _ => false end
  | _ => true
  end.

Definition nrank (p : npc) : nat :=
  match p with
  | NIdle => 0 | NBeforeSet _ _ => 1 | NUnlocked _ _ _ _ => 2 | NMarked _ _ _ => 3 | NChecked _ _ _ => 4
  | NLocked _ _ _ => 5 | NBeforeLock _ _ _ => 6 | NBeforeFind _ _ => 7 | NBetween _ _ => 8
  end.
Definition nopw (o : nop) : nat := match o with NLoad _ _ => 9 | NHas _ _ => 1 end.
Fixpoint ntodow (os : list nop) : nat := match os with [] => 0 | o :: r => nopw o + ntodow r end.
Definition ntm (th : nthread) : nat := nrank (nt_pc th) + ntodow (nt_todo th).
Fixpoint ntotal (st : nstate) (k : nat) : nat :=
  match k with 0 => 0 | S k' => ntm (ns_thr st k') + ntotal st k' end.

Ltac nfin_tac := cbn [ns_thr]; rewrite nupd1_same; unfold ntm; cbn [nt_pc nt_todo nrank ntodow nopw]; lia.

Lemma nstep_dec : forall c st t, nenabled st t = true ->
  ntm (ns_thr (nstep KeyMapped c st t) t) < ntm (ns_thr st t).
Proof.
  intros c st t H. unfold nenabled in H. unfold nstep.
  destruct (ns_thr st t) as [pc todo] eqn:Hth. cbn [nt_pc nt_todo] in *.
  destruct pc as [|s b|s b|s b|s b lk|s b lk|s b lk|s b lk|s b lk r].
  - destruct todo as [|o todo]; [discriminate|]. destruct o; cbn [nstart nfin]; nfin_tac.
  - cbn [nseg]. destruct (nget (ns_sh st) s b); rewrite ?nfinish_eq; nfin_tac.
  - cbn [nseg lock_ns]. destruct (Nat.leb s (n_extra c) && has_file c b); [destruct (nlockmap (ns_sh st) 0 b)|]; nfin_tac.
  - cbn [nseg]. rewrite nfinish_eq. nfin_tac.
  - cbn [nseg]. destruct (nheld (ns_sh st) lk); [discriminate|]. nfin_tac.
  - cbn [nseg]. destruct (nget (ns_sh st) 0 b); nfin_tac.
  - cbn [nseg]. nfin_tac.
  - cbn [nseg]. destruct (is_bad c b); [nfin_tac|]. destruct (bind_all c (ns_sh st) b (nsparse b (ns_log st))) as [sh' ok].
    destruct ok; nfin_tac.
  - cbn [nseg]. destruct r as [e|]; [destruct e|]; rewrite ?nfinish_eq; cbn [nfin]; nfin_tac.
Qed.

Lemma nstep_other : forall m c st t t0, t0 <> t -> ns_thr (nstep m c st t) t0 = ns_thr st t0.
Proof.
  intros m c st t t0 Hne. unfold nstep.
  destruct (nt_pc (ns_thr st t)) eqn:Hpc.
  - destruct (nt_todo (ns_thr st t)) as [|o todo]; [reflexivity|].
    destruct (nstart c t o) as [p' evs]. cbn [ns_thr]. now apply nupd1_other.
  - match goal with |- context [nseg ?a ?b ?c ?d ?e ?f] => destruct (nseg a b c d e f) as [[sh' [p' evs]]|] end;
      [cbn [ns_thr]; now apply nupd1_other | reflexivity].
  - match goal with |- context [nseg ?a ?b ?c ?d ?e ?f] => destruct (nseg a b c d e f) as [[sh' [p' evs]]|] end;
      [cbn [ns_thr]; now apply nupd1_other | reflexivity].
  - match goal with |- context [nseg ?a ?b ?c ?d ?e ?f] => destruct (nseg a b c d e f) as [[sh' [p' evs]]|] end;
      [cbn [ns_thr]; now apply nupd1_other | reflexivity].
  - match goal with |- context [nseg ?a ?b ?c ?d ?e ?f] => destruct (nseg a b c d e f) as [[sh' [p' evs]]|] end;
      [cbn [ns_thr]; now apply nupd1_other | reflexivity].
  - match goal with |- context [nseg ?a ?b ?c ?d ?e ?f] => destruct (nseg a b c d e f) as [[sh' [p' evs]]|] end;
      [cbn [ns_thr]; now apply nupd1_other | reflexivity].
  - match goal with |- context [nseg ?a ?b ?c ?d ?e ?f] => destruct (nseg a b c d e f) as [[sh' [p' evs]]|] end;
      [cbn [ns_thr]; now apply nupd1_other | reflexivity].
  - match goal with |- context [nseg ?a ?b ?c ?d ?e ?f] => destruct (nseg a b c d e f) as [[sh' [p' evs]]|] end;
      [cbn [ns_thr]; now apply nupd1_other | reflexivity].
  - match goal with |- context [nseg ?a ?b ?c ?d ?e ?f] => destruct (nseg a b c d e f) as [[sh' [p' evs]]|] end;
      [cbn [ns_thr]; now apply nupd1_other | reflexivity].
Qed.

Lemma ntotal_same : forall k st st', (forall t0, t0 < k -> ns_thr st' t0 = ns_thr st t0) -> ntotal st' k = ntotal st k.
Proof.
  induction k as [|k IH]; intros st st' H; cbn [ntotal]; [reflexivity|].
  rewrite H by lia. rewrite (IH st st'); [reflexivity|]. intros t0 Ht0. apply H. lia.
Qed.
Lemma ntotal_lt : forall k st st' t, t < k -> (forall t0, t0 <> t -> ns_thr st' t0 = ns_thr st t0) ->
  ntm (ns_thr st' t) < ntm (ns_thr st t) -> ntotal st' k < ntotal st k.
Proof.
  induction k as [|k IH]; intros st st' t Ht Ho Hd; [lia|]. cbn [ntotal].
  destruct (Nat.eq_dec t k) as [->|Hne].
  - rewrite (ntotal_same k st st'); [lia|]. intros t0 Ht0. apply Ho. lia.
  - rewrite (Ho k) by lia. pose proof (IH st st' t ltac:(lia) Ho Hd). lia.
Qed.

(* ---- who holds a mutex ------------------------------------------------------------------------------------- *)

Definition nhinv (st : nstate) : Prop := forall lk t, nheld (ns_sh st) lk = Some t -> nholds (pcof st t) = Some lk.

Lemma nhinv_move : forall st t p' todo sh' log', nhinv st ->
  (forall lk0 t0, nheld sh' lk0 = Some t0 ->
      (t0 <> t /\ nheld (ns_sh st) lk0 = Some t0) \/ (t0 = t /\ nholds p' = Some lk0)) ->
  nhinv (mkNSt sh' (nupd1 (ns_thr st) t (mkNT p' todo)) log').
Proof.
  intros st t p' todo sh' log' H Hm lk0 t0 Hx. cbn [ns_sh] in Hx. rewrite pcof_upd. cbn [nt_pc].
  destruct (Hm lk0 t0 Hx) as [[Hne Ho]|[-> Hn]].
  - destruct (Nat.eqb_spec t0 t); [contradiction|]. exact (H lk0 t0 Ho).
  - now rewrite Nat.eqb_refl.
Qed.
Lemma nhinv_move_same : forall st t p' todo sh' log', nhinv st ->
  nheld sh' = nheld (ns_sh st) -> nholds p' = nholds (pcof st t) ->
  nhinv (mkNSt sh' (nupd1 (ns_thr st) t (mkNT p' todo)) log').
Proof.
  intros st t p' todo sh' log' H He Hp. apply nhinv_move; [exact H|]. intros lk0 t0 Hx. rewrite He in Hx.
  destruct (Nat.eq_dec t0 t) as [->|Hne]; [right|left; auto]. split; [reflexivity|]. rewrite Hp. exact (H lk0 t Hx).
Qed.

Lemma nhinv_release : forall st t p' todo sh1 lk log', nhinv st ->
  nheld sh1 = nheld (ns_sh st) -> nholds (pcof st t) = Some lk -> nholds p' = None ->
  nhinv (mkNSt (nset_held sh1 lk None) (nupd1 (ns_thr st) t (mkNT p' todo)) log').
Proof.
  intros st t p' todo sh1 lk log' H He Hp Hp'. apply nhinv_move; [exact H|]. intros lk0 t0 Hx.
  cbn [nset_held nheld] in Hx. rewrite He in Hx. destruct (Nat.eq_dec lk0 lk) as [->|Hnl].
  - rewrite nupd1_same in Hx. discriminate.
  - rewrite nupd1_other in Hx by exact Hnl. left. split; [|exact Hx]. intros ->.
    pose proof (H lk0 t Hx) as E. congruence.
Qed.

Lemma nhinv_step : forall c st t, nhinv st -> nhinv (nstep KeyMapped c st t).
Proof.
  intros c st t H. unfold nstep.
  assert (Hpcof : pcof st t = nt_pc (ns_thr st t)) by reflexivity.
  destruct (nt_pc (ns_thr st t)) as [|s b|s b|s b|s b lk|s b lk|s b lk|s b lk|s b lk r] eqn:Hpc.
  - destruct (nt_todo (ns_thr st t)) as [|o todo]; [exact H|].
    destruct o; cbn [nstart nfin]; apply nhinv_move_same; auto; now rewrite Hpcof.
  - cbn [nseg]. destruct (nget (ns_sh st) s b); rewrite ?nfinish_eq; apply nhinv_move_same; auto; now rewrite Hpcof.
  - cbn [nseg lock_ns]. destruct (Nat.leb s (n_extra c) && has_file c b); [destruct (nlockmap (ns_sh st) 0 b)|];
      apply nhinv_move_same; auto; now rewrite Hpcof.
  - cbn [nseg]. rewrite nfinish_eq. destruct (nset_hole_rest (ns_sh st) s b) as (_ & Hr2 & _).
    apply nhinv_move_same; auto; now rewrite Hpcof.
  - cbn [nseg]. destruct (nheld (ns_sh st) lk) eqn:Hh; [exact H|].
    apply nhinv_move; [exact H|]. intros lk0 t0 Hx. cbn [nset_held nheld] in Hx.
    destruct (Nat.eq_dec lk0 lk) as [->|Hnl].
    + rewrite nupd1_same in Hx. injection Hx as <-. right. auto.
    + rewrite nupd1_other in Hx by exact Hnl. left. split; [|exact Hx]. intros ->.
      pose proof (H lk0 t Hx) as E. rewrite Hpcof in E. discriminate.
  - cbn [nseg]. destruct (nget (ns_sh st) 0 b).
    + apply nhinv_move_same; auto; now rewrite Hpcof.
    + apply nhinv_release; auto; now rewrite Hpcof.
    + apply nhinv_release; auto; now rewrite Hpcof.
  - cbn [nseg]. destruct (nset_hole_rest (ns_sh st) 0 b) as (_ & Hr2 & _).
    apply nhinv_move_same; auto; now rewrite Hpcof.
  - cbn [nseg]. destruct (is_bad c b).
    + apply nhinv_release; auto; now rewrite Hpcof.
    + unfold bind_all. destruct (bind_from (ns_sh st) b (nsparse b (ns_log st)) 0 (S (n_extra c))) as [sh1 ok] eqn:Hb.
      apply bind_from_facts in Hb. destruct Hb as (_ & E2 & _).
      destruct ok; apply nhinv_release; auto; now rewrite Hpcof.
  - cbn [nseg lock_ns]. destruct r as [e|]; [destruct e|]; rewrite ?nfinish_eq; cbn [nfin];
      apply nhinv_move_same; auto; now rewrite Hpcof.
Qed.

(* threads beyond the program never move *)
Definition nbeyond (p : nprog) (st : nstate) : Prop := forall t, length p <= t -> ns_thr st t = mkNT NIdle [].

Lemma nbeyond_step : forall m c p st t, nbeyond p st -> nbeyond p (nstep m c st t).
Proof.
  intros m c p st t H t0 Ht0. destruct (Nat.eq_dec t0 t) as [->|Hne]; [|rewrite nstep_other by exact Hne; now apply H].
  unfold nstep. rewrite (H t Ht0). cbn [nt_pc nt_todo]. now apply H.
Qed.

Record nreach (p : nprog) (st : nstate) : Prop := mkNReach { r_h : nhinv st; r_b : nbeyond p st }.

Lemma nreach_init : forall p, nreach p (ninit p).
Proof.
  intros p. split.
  - intros lk t Hx. discriminate Hx.
  - intros t Ht. unfold ninit. cbn [ns_thr]. now rewrite nth_overflow.
Qed.
Lemma nreach_step : forall c p st t, nreach p st -> nreach p (nstep KeyMapped c st t).
Proof. intros c p st t [H1 H2]. split; [now apply nhinv_step | now apply nbeyond_step]. Qed.
Lemma nreach_exec : forall c p s, nreach p (nexec KeyMapped c p s).
Proof.
  intros c p s. unfold nexec. generalize (nreach_init p). generalize (ninit p).
  induction s as [|t s IH]; intros st H; cbn [fold_left]; [exact H|]. apply IH. now apply nreach_step.
Qed.

Lemma nall_done_false : forall st k, nall_done st k = false ->
  exists t, t < k /\ (nt_pc (ns_thr st t) <> NIdle \/ nt_todo (ns_thr st t) <> []).
Proof.
  intros st k. induction k as [|k IH]; cbn [nall_done]; [discriminate|]. intros H.
  apply andb_false_iff in H. destruct H as [H|H].
  - exists k. split; [lia|]. destruct (nt_pc (ns_thr st k)); [|right + left; discriminate ..].
    destruct (nt_todo (ns_thr st k)); [discriminate|right; discriminate].
  - destruct (IH H) as (t & Ht & Hx). exists t. split; [lia|exact Hx].
Qed.
Lemma nall_done_true : forall st k, nall_done st k = true ->
  forall t, t < k -> nt_pc (ns_thr st t) = NIdle /\ nt_todo (ns_thr st t) = [].
Proof.
  intros st k. induction k as [|k IH]; cbn [nall_done]; intros H t Ht; [lia|].
  apply andb_true_iff in H. destruct H as [H1 H2]. destruct (Nat.eq_dec t k) as [->|Hne]; [|apply IH; [exact H2|lia]].
  destruct (nt_pc (ns_thr st k)); try discriminate. destruct (nt_todo (ns_thr st k)); [auto|discriminate].
Qed.

(* while some thread of the program has not finished, some thread of the program can move *)
Lemma ns_no_deadlock_st : forall p st, nreach p st -> nall_done st (length p) = false ->
  exists t, t < length p /\ nenabled st t = true.
Proof.
  intros p st [Hh Hb] Hd. destruct (nall_done_false st _ Hd) as (t & Ht & Hx).
  destruct (nenabled st t) eqn:He; [exists t; auto|].
  unfold nenabled in He. destruct (nt_pc (ns_thr st t)) eqn:Hpc; try discriminate.
  - destruct (nt_todo (ns_thr st t)); [|discriminate]. destruct Hx as [Hx|Hx]; contradiction.
  - destruct (nheld (ns_sh st) lk) as [t'|] eqn:Hheld; [|discriminate].
    pose proof (Hh lk t' Hheld) as Hho. exists t'. split.
    + destruct (Nat.lt_ge_cases t' (length p)) as [Hlt|Hge]; [exact Hlt|]. unfold pcof in Hho. rewrite (Hb t' Hge) in Hho. discriminate.
    + unfold nenabled. unfold pcof in Hho. destruct (nt_pc (ns_thr st t')); try discriminate; reflexivity.
Qed.

Lemma ns_can_complete_st : forall c p n st, nreach p st -> ntotal st (length p) <= n ->
  exists s', nall_done (fold_left (nstep KeyMapped c) s' st) (length p) = true.
Proof.
  intros c p n. induction n as [|n IH]; intros st HR Hn.
  - destruct (nall_done st (length p)) eqn:Hd; [exists []; exact Hd|].
    destruct (ns_no_deadlock_st p st HR Hd) as (t & Ht & He).
    pose proof (ntotal_lt (length p) st (nstep KeyMapped c st t) t Ht (fun t0 H0 => nstep_other _ c st t t0 H0) (nstep_dec c st t He)). lia.
  - destruct (nall_done st (length p)) eqn:Hd; [exists []; exact Hd|].
    destruct (ns_no_deadlock_st p st HR Hd) as (t & Ht & He).
    pose proof (ntotal_lt (length p) st (nstep KeyMapped c st t) t Ht (fun t0 H0 => nstep_other _ c st t t0 H0) (nstep_dec c st t He)) as Hlt.
    destruct (IH (nstep KeyMapped c st t) (nreach_step c p st t HR) ltac:(lia)) as [s' Hs']. exists (t :: s'). exact Hs'.
Qed.

Lemma ns_no_deadlock : forall c p s, nall_done (nexec KeyMapped c p s) (length p) = false ->
  exists t, t < length p /\ nenabled (nexec KeyMapped c p s) t = true.
Proof. intros c p s. apply ns_no_deadlock_st. apply nreach_exec. Qed.

Lemma ns_can_complete : forall c p s, exists s', nall_done (nexec KeyMapped c p (s ++ s')) (length p) = true.
Proof.
  intros c p s. destruct (ns_can_complete_st c p _ (nexec KeyMapped c p s) (nreach_exec c p s) (le_n _)) as [s' Hs'].
  exists s'. unfold nexec in *. now rewrite fold_left_app.
Qed.

(* ---- every operation of the program has exactly one result, in program order ------------------------------------ *)

Definition ncur (p : npc) : list nop :=
  match p with
  | NIdle => []
  | NBetween s b | NBeforeFind s b | NBeforeSet s b => [NLoad s b]
  | NBeforeLock s b _ | NLocked s b _ | NChecked s b _ | NMarked s b _ => [NLoad s b]
  | NUnlocked s b _ _ => [NLoad s b]
  end.
Fixpoint nevs_of (t : ntid) (log : list nevent) : list (nop * nres) :=
  match log with
  | [] => []
  | NvRes t' o r :: log' => if Nat.eqb t' t then (o, r) :: nevs_of t log' else nevs_of t log'
  | _ :: log' => nevs_of t log'
  end.
Lemma nevs_of_app : forall t l1 l2, nevs_of t (l1 ++ l2) = nevs_of t l1 ++ nevs_of t l2.
Proof.
  intros t l1 l2. induction l1 as [|e l1 IH]; cbn [app nevs_of]; [reflexivity|].
  destruct e; [destruct (Nat.eqb t0 t); rewrite IH; reflexivity | exact IH].
Qed.
Lemma nevs_of_in : forall t o r log, In (o, r) (nevs_of t log) -> In (NvRes t o r) log.
Proof.
  intros t o r log. induction log as [|e log IH]; cbn [nevs_of]; [auto|]. destruct e as [t' o' r'|t' b'].
  - destruct (Nat.eqb_spec t' t) as [->|Hne].
    + intros [H|H]; [injection H as -> ->; now left | right; now apply IH].
    + intros H. right. now apply IH.
  - intros H. right. now apply IH.
Qed.
Lemma nevs_res_same : forall t o r, nevs_of t [NvRes t o r] = [(o, r)].
Proof. intros. cbn. now rewrite Nat.eqb_refl. Qed.
Lemma nevs_res_other : forall t t0 o r, t0 <> t -> nevs_of t0 [NvRes t o r] = [].
Proof. intros t t0 o r H. cbn. destruct (Nat.eqb_spec t t0); [congruence|reflexivity]. Qed.

Definition pinv (p : nprog) (st : nstate) : Prop :=
  forall t, map fst (nevs_of t (ns_log st)) ++ ncur (pcof st t) ++ nt_todo (ns_thr st t) = nth t p [].

Lemma pinv_move : forall p st t p' todo' sh' evs, pinv p st ->
  (forall t0, t0 <> t -> nevs_of t0 evs = []) ->
  map fst (nevs_of t evs) ++ ncur p' ++ todo' = ncur (pcof st t) ++ nt_todo (ns_thr st t) ->
  pinv p (mkNSt sh' (nupd1 (ns_thr st) t (mkNT p' todo')) (ns_log st ++ evs)).
Proof.
  intros p st t p' todo' sh' evs H Ho Hm t0. unfold pcof. cbn [ns_log ns_thr]. rewrite nevs_of_app, map_app.
  destruct (Nat.eq_dec t0 t) as [->|Hne].
  - rewrite nupd1_same. cbn [nt_pc nt_todo]. rewrite <- app_assoc, Hm. apply H.
  - rewrite nupd1_other by exact Hne. rewrite (Ho t0 Hne). cbn [map]. rewrite app_nil_r. apply H.
Qed.

Ltac pinv_tac H Hpcof :=
  apply pinv_move;
  [ exact H | intros t0 Hne; first [reflexivity | now apply nevs_res_other]
  | rewrite ?nevs_res_same; rewrite Hpcof; reflexivity ].

Lemma pinv_step : forall c p st t, pinv p st -> pinv p (nstep KeyMapped c st t).
Proof.
  intros c p st t H. unfold nstep.
  assert (Hpcof : pcof st t = nt_pc (ns_thr st t)) by reflexivity.
  destruct (nt_pc (ns_thr st t)) as [|s b|s b|s b|s b lk|s b lk|s b lk|s b lk|s b lk r] eqn:Hpc.
  - destruct (nt_todo (ns_thr st t)) as [|o todo] eqn:Htodo; [exact H|].
    destruct o; cbn [nstart nfin]; (apply pinv_move;
      [ exact H | intros t0 Hne; first [reflexivity | now apply nevs_res_other]
      | rewrite ?nevs_res_same; rewrite Hpcof, Htodo; reflexivity ]).
  - cbn [nseg]. destruct (nget (ns_sh st) s b); rewrite ?nfinish_eq; pinv_tac H Hpcof.
  - cbn [nseg lock_ns]. destruct (Nat.leb s (n_extra c) && has_file c b); [destruct (nlockmap (ns_sh st) 0 b)|]; pinv_tac H Hpcof.
  - cbn [nseg]. rewrite nfinish_eq. pinv_tac H Hpcof.
  - cbn [nseg]. destruct (nheld (ns_sh st) lk); [exact H|]. pinv_tac H Hpcof.
  - cbn [nseg]. destruct (nget (ns_sh st) 0 b); pinv_tac H Hpcof.
  - cbn [nseg]. pinv_tac H Hpcof.
  - cbn [nseg]. destruct (is_bad c b); [pinv_tac H Hpcof|].
    destruct (bind_all c (ns_sh st) b (nsparse b (ns_log st))) as [sh' ok]. destruct ok; pinv_tac H Hpcof.
  - cbn [nseg]. destruct r as [e|]; [destruct e|]; rewrite ?nfinish_eq; cbn [nfin]; pinv_tac H Hpcof.
Qed.

Lemma pinv_exec : forall c p s, pinv p (nexec KeyMapped c p s).
Proof.
  intros c p s. unfold nexec.
  assert (H0 : pinv p (ninit p)) by (intros t; reflexivity).
  revert H0. generalize (ninit p).
  induction s as [|t s IH]; intros st H; cbn [fold_left]; [exact H|]. apply IH. now apply pinv_step.
Qed.

(* when every thread has finished, the results of thread t are those of its program, one per operation, in order *)
Lemma ns_all_results : forall c p s, nall_done (nexec KeyMapped c p s) (length p) = true ->
  forall t, map fst (nevs_of t (ntrace KeyMapped c p s)) = nth t p [].
Proof.
  intros c p s Hd t. pose proof (pinv_exec c p s t) as H. unfold ntrace.
  assert (E : nt_pc (ns_thr (nexec KeyMapped c p s) t) = NIdle /\ nt_todo (ns_thr (nexec KeyMapped c p s) t) = []).
  { destruct (Nat.lt_ge_cases t (length p)) as [Hlt|Hge]; [exact (nall_done_true _ _ Hd t Hlt)|].
    rewrite (r_b p _ (nreach_exec c p s) t Hge). auto. }
  destruct E as [E1 E2]. unfold pcof in H. rewrite E1, E2 in H. cbn [ncur app] in H. now rewrite app_nil_r in H.
Qed.

(* liveness + result: every schedule can be continued until every operation has returned, and then (as after EVERY
   schedule that lets all threads finish) each thread has one result per operation of its program, in order, and every
   load of a good file through a namespace other than the first has returned the value of the file *)
Lemma ns_every_load_returns_value : forall c p s,
  exists s', nall_done (nexec KeyMapped c p (s ++ s')) (length p) = true /\
    forall t, map fst (nevs_of t (ntrace KeyMapped c p (s ++ s'))) = nth t p [] /\
      forall sn b r, has_file c b = true -> is_bad c b = false -> 1 <= sn -> sn <= n_extra c ->
        In (NLoad sn b, r) (nevs_of t (ntrace KeyMapped c p (s ++ s'))) -> r = NFound (Some 0).
Proof.
  intros c p s. destruct (ns_can_complete c p s) as [s' Hs']. exists s'. split; [exact Hs'|].
  intros t. split; [now apply ns_all_results|].
  intros sn b r Hf Hb H1 Hs Hin. apply nevs_of_in in Hin. exact (ns_load_finds_value c p (s ++ s') t sn b r Hf Hb H1 Hs Hin).
Qed.

Lemma ns_finished_loads_have_value : forall c p s, nall_done (nexec KeyMapped c p s) (length p) = true ->
  forall t, map fst (nevs_of t (ntrace KeyMapped c p s)) = nth t p [] /\
    forall sn b r, has_file c b = true -> is_bad c b = false -> 1 <= sn -> sn <= n_extra c ->
      In (NLoad sn b, r) (nevs_of t (ntrace KeyMapped c p s)) -> r = NFound (Some 0).
Proof.
  intros c p s Hd t. split; [now apply ns_all_results|].
  intros sn b r Hf Hb H1 Hs Hin. apply nevs_of_in in Hin. exact (ns_load_finds_value c p s t sn b r Hf Hb H1 Hs Hin).
Qed.
