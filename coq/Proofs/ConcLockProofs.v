(* C13 - instantiate_once: the file of a name is read and parsed at most once per file based loader, whatever
   the number of threads, the program and the schedule.

   The argument is about the per-name mutexes of fileBasedLoader.instantiate (filebased.go:252-269).  The mutex of
   a name is created on demand, and it is DELETED from the lock map by whoever leaves the critical section, while
   other goroutines may still hold a pointer to it and later ones create a new one: the mutexes alone do not give
   mutual exclusion.  What holds is: as long as the name has no entry, every goroutine that is heading for, or is
   inside, the critical section uses the one mutex that is in the map (nobody has deleted anything yet, because a
   goroutine only deletes after it has been inside, and it leaves an entry behind).  So at most one goroutine ever
   sees "no entry" inside the critical section, and only that one parses. *)
From Coq Require Import NArith Arith Bool List Lia.
From PcoreV Require Import Model.Conc Proofs.ConcProofs.
Import ListNotations.

Local Arguments Nat.eqb : simpl never.
Local Arguments N.eqb : simpl never.

Inductive phase := PhW | PhLocked | PhChecked | PhMarked | PhUnl.

Definition linfo := option (lid * key * lockid * phase).

(* which mutex a parked thread has a pointer to, for which (loader, name), and how far it got *)
Definition info (p : pc) : linfo :=
  match p with
  | PBeforeLock _ n d lk _ => Some (d, n, lk, PhW)
  | PLocked _ n d lk _ => Some (d, n, lk, PhLocked)
  | PChecked _ n d lk _ => Some (d, n, lk, PhChecked)
  | PMarked _ n d lk _ => Some (d, n, lk, PhMarked)
  | PUnlocked _ n d lk _ _ => Some (d, n, lk, PhUnl)
  | _ => None
  end.

Definition holds (ph : phase) : bool := match ph with PhLocked | PhChecked | PhMarked => true | _ => false end.
Definition cm (ph : phase) : bool := match ph with PhChecked | PhMarked => true | _ => false end.

Lemma nparse_app d n a b : nparse d n (a ++ b) = nparse d n a + nparse d n b.
Proof.
  induction a as [|e a IH]; cbn [app nparse]; auto. destruct e; auto. rewrite IH. lia.
Qed.

(* ---- entries never vanish ------------------------------------------------------------------------------ *)

Lemma seg_nonnone cfg sh t p sh' r d0 n0 :
  seg cfg sh t p = Some (sh', r) -> ents sh d0 n0 <> None -> ents sh' d0 n0 <> None.
Proof.
  intros Hs Hb. destruct p; cbn [seg] in Hs.
  - discriminate.
  - inversion Hs; subst; auto.
  - inversion Hs; subst. now apply set_entry_nonnone.
  - destruct (file_of cfg d n); [destruct (lockmap sh d n)|]; inversion Hs; subst; auto.
  - inversion Hs; subst. now apply set_entry_nonnone.
  - destruct (held sh lk); inversion Hs; subst; auto.
  - destruct (get sh d n); inversion Hs; subst; auto.
  - inversion Hs; subst. now apply set_entry_nonnone.
  - destruct (file_of cfg d n) as [fv|]; [|inversion Hs; subst; auto].
    destruct (file_bad cfg d n); [inversion Hs; subst; auto|].
    pose proof (set_entry_nonnone sh d n (Some fv) d0 n0 Hb) as Hk.
    destruct (set_entry sh d n (Some fv)) as [sh1 [r1|]]; inversion Hs; subst; auto.
  - destruct r0; inversion Hs; subst; auto.
Qed.

Lemma start_nonnone cfg sh t o sh' r d0 n0 :
  start cfg sh t o = (sh', r) -> ents sh d0 n0 <> None -> ents sh' d0 n0 <> None.
Proof.
  intros Hs Hb. destruct o; cbn [start] in Hs.
  - destruct (chain cfg l); inversion Hs; subst; auto.
  - pose proof (set_entry_nonnone sh l n (Some v) d0 n0 Hb) as Hk.
    destruct (set_entry sh l n (Some v)) as [sh1 [[r1|]|]]; inversion Hs; subst; auto.
  - inversion Hs; subst; auto.
Qed.

Lemma set_entry_rest sh d n e :
  lockmap (fst (set_entry sh d n e)) = lockmap sh /\ held (fst (set_entry sh d n e)) = held sh.
Proof.
  destruct (set_entry sh d n e) as [sh' r] eqn:Hs. cbn [fst].
  destruct (set_entry_ents _ _ _ _ _ _ Hs) as (H1 & H2 & _). auto.
Qed.

(* ---- the helper functions that end a segment produce no lock information and no parse event ------------ *)

Lemma finish_load_info t l n e : info (fst (finish_load t l n e)) = None /\ forall d0 n0, nparse d0 n0 (snd (finish_load t l n e)) = 0.
Proof. unfold finish_load, fin. destruct e; cbn; auto. Qed.

Lemma next_level_info t l n e rest :
  info (fst (next_level t l n e rest)) = None /\ forall d0 n0, nparse d0 n0 (snd (next_level t l n e rest)) = 0.
Proof.
  unfold next_level. destruct e; try apply finish_load_info; (destruct rest; [apply finish_load_info | cbn; auto]).
Qed.

Lemma after_read_info cfg t l n d e rest :
  info (fst (after_read cfg t l n d e rest)) = None /\ forall d0 n0, nparse d0 n0 (snd (after_read cfg t l n d e rest)) = 0.
Proof.
  unfold after_read. destruct (is_file cfg d); [|apply next_level_info].
  destruct e; try apply next_level_info. cbn; auto.
Qed.

(* ---- what one move does, seen through `info` ------------------------------------------------------------ *)

Inductive ltrans (t : tid) (sh sh' : shared) : linfo -> linfo -> list event -> Prop :=
| LT_other evs :
    lockmap sh' = lockmap sh -> held sh' = held sh -> (forall d n, nparse d n evs = 0) ->
    ltrans t sh sh' None None evs
| LT_ptr d n lk :
    ents sh' = ents sh -> held sh' = held sh ->
    ((lockmap sh d n = Some lk /\ lockmap sh' = lockmap sh) \/
     (lockmap sh d n = None /\ lockmap sh' = upd2 (lockmap sh) d n (Some lk))) ->
    ltrans t sh sh' None (Some (d, n, lk, PhW)) []
| LT_lock d n lk :
    ents sh' = ents sh -> lockmap sh' = lockmap sh -> held sh lk = None -> held sh' = upd1 (held sh) lk (Some t) ->
    ltrans t sh sh' (Some (d, n, lk, PhW)) (Some (d, n, lk, PhLocked)) []
| LT_nil d n lk :
    sh' = sh -> ents sh d n = None ->
    ltrans t sh sh' (Some (d, n, lk, PhLocked)) (Some (d, n, lk, PhChecked)) []
| LT_some d n lk :
    ents sh' = ents sh -> lockmap sh' = lockmap sh -> ents sh d n <> None -> held sh' = upd1 (held sh) lk None ->
    ltrans t sh sh' (Some (d, n, lk, PhLocked)) (Some (d, n, lk, PhUnl)) []
| LT_mark d n lk :
    lockmap sh' = lockmap sh -> held sh' = held sh -> ents sh' d n <> None ->
    ltrans t sh sh' (Some (d, n, lk, PhChecked)) (Some (d, n, lk, PhMarked)) []
| LT_parse d n lk :
    lockmap sh' = lockmap sh -> held sh' = upd1 (held sh) lk None ->
    ltrans t sh sh' (Some (d, n, lk, PhMarked)) (Some (d, n, lk, PhUnl)) [EvParse t d n]
| LT_del d n lk evs :
    ents sh' = ents sh -> held sh' = held sh -> lockmap sh' = upd2 (lockmap sh) d n None ->
    (forall d0 n0, nparse d0 n0 evs = 0) ->
    ltrans t sh sh' (Some (d, n, lk, PhUnl)) None evs.

Lemma pair_eq_inv {A B} (x : A * B) a b : x = (a, b) -> a = fst x /\ b = snd x.
Proof. intros ->; auto. Qed.

Lemma seg_ltrans cfg sh t p sh' p' evs :
  seg cfg sh t p = Some (sh', (p', evs)) -> ltrans t sh sh' (info p) (info p') evs.
Proof.
  intros Hs. destruct p; cbn [seg] in Hs; cbn [info].
  - discriminate.
  - (* PBetween *) injection Hs as <- Hx. destruct (pair_eq_inv _ _ _ Hx) as [-> ->].
    destruct (after_read_info cfg t l n d (get sh d n) rest) as [Hi Hn]. rewrite Hi. now apply LT_other.
  - (* PAfterLookup *) injection Hs as <- <- <-. cbn [info].
    destruct (set_entry_rest sh l n None) as [H1 H2]. apply LT_other; auto.
  - (* PBeforeFind *) destruct (file_of cfg d n).
    + destruct (lockmap sh d n) as [lk|] eqn:Hl; injection Hs as <- <- <-; cbn [info].
      * apply LT_ptr; auto.
      * apply LT_ptr; auto.
    + injection Hs as <- <- <-. cbn [info]. apply LT_other; auto.
  - (* PBeforeSet *) injection Hs as <- Hx.
    assert (Hx' : next_level t l n RdHole rest = (p', evs)) by exact Hx. clear Hx.
    destruct (pair_eq_inv _ _ _ Hx') as [-> ->].
    destruct (next_level_info t l n RdHole rest) as [Hi Hn]. rewrite Hi.
    destruct (set_entry_rest sh d n None) as [H1 H2]. now apply LT_other.
  - (* PBeforeLock *) destruct (held sh lk) eqn:Hh; [discriminate|]. injection Hs as <- <- <-. cbn [info].
    apply LT_lock; auto.
  - (* PLocked *) destruct (get sh d n) eqn:Hg; injection Hs as <- <- <-; cbn [info].
    + apply LT_nil; auto. unfold get in Hg. destruct (ents sh d n) as [[?|]|]; congruence.
    + apply LT_some; auto. unfold get in Hg. destruct (ents sh d n) as [[?|]|]; congruence.
    + apply LT_some; auto. unfold get in Hg. destruct (ents sh d n) as [[?|]|]; congruence.
  - (* PChecked *) injection Hs as <- <- <-. cbn [info].
    destruct (set_entry_rest sh d n None) as [H1 H2]. apply LT_mark; auto. apply set_entry_there.
  - (* PMarked *) destruct (file_of cfg d n) as [fv|].
    + destruct (file_bad cfg d n); [injection Hs as <- <- <-; cbn [info]; apply LT_parse; auto|].
      destruct (set_entry_rest sh d n (Some fv)) as [H1 H2].
      destruct (set_entry sh d n (Some fv)) as [sh1 [r1|]]; injection Hs as <- <- <-; cbn [info fst] in *;
        (apply LT_parse; cbn; [assumption | now rewrite H2]).
    + injection Hs as <- <- <-. cbn [info]. apply LT_parse; auto.
  - (* PUnlocked *) destruct r as [e|].
    + injection Hs as <- Hx. destruct (pair_eq_inv _ _ _ Hx) as [-> ->].
      destruct (next_level_info t l n e rest) as [Hi Hn]. rewrite Hi. apply LT_del; auto.
    + injection Hs as <- <- <-. cbn [info]. apply LT_del; auto.
Qed.

Lemma start_ltrans cfg sh t o sh' p' evs :
  start cfg sh t o = (sh', (p', evs)) -> ltrans t sh sh' None (info p') evs.
Proof.
  intros Hs. destruct o; cbn [start] in Hs.
  - destruct (chain cfg l) as [|d0 rest].
    + injection Hs as <- <- <-. cbn [info]. apply LT_other; auto.
    + injection Hs as <- Hx. destruct (pair_eq_inv _ _ _ Hx) as [-> ->].
      destruct (after_read_info cfg t l n d0 (get sh d0 n) rest) as [Hi Hn]. rewrite Hi. now apply LT_other.
  - destruct (set_entry_rest sh l n (Some v)) as [H1 H2].
    destruct (set_entry sh l n (Some v)) as [sh1 [[r1|]|]]; injection Hs as <- <- <-; cbn [info fst] in *;
      apply LT_other; auto.
  - injection Hs as <- <- <-. cbn [info]. apply LT_other; auto.
Qed.

(* ---- the invariant --------------------------------------------------------------------------------------- *)

Record linv (st : state) : Prop := {
  (* a thread inside the critical section owns its mutex *)
  l_own : forall t d n lk ph, info (t_pc (st_thr st t)) = Some (d, n, lk, ph) -> holds ph = true ->
                              held (st_sh st) lk = Some t;
  (* while the name has no entry: everybody uses the mutex that is in the map, nobody is past the check *)
  l_uni : forall t d n lk ph, ents (st_sh st) d n = None -> info (t_pc (st_thr st t)) = Some (d, n, lk, ph) ->
                              lockmap (st_sh st) d n = Some lk /\ ph <> PhMarked /\ ph <> PhUnl;
  l_np0 : forall d n, ents (st_sh st) d n = None -> nparse d n (st_log st) = 0;
  (* at most one thread has seen "no entry" and has not parsed yet; once parsed, none *)
  l_cm1 : forall t1 t2 d n lk1 lk2 ph1 ph2,
      info (t_pc (st_thr st t1)) = Some (d, n, lk1, ph1) -> info (t_pc (st_thr st t2)) = Some (d, n, lk2, ph2) ->
      cm ph1 = true -> cm ph2 = true -> t1 = t2;
  l_np1 : forall d n, nparse d n (st_log st) <= 1;
  l_npcm : forall d n t lk ph, nparse d n (st_log st) >= 1 ->
                               info (t_pc (st_thr st t)) = Some (d, n, lk, ph) -> cm ph = false
}.

Lemma linv_init p : linv (init p).
Proof.
  split; cbn; intros; try discriminate; auto.
Qed.

Ltac flip :=
  repeat match goal with
         | H : Some _ = info _ |- _ => symmetry in H
         | H : None = info _ |- _ => symmetry in H
         end.

(* two facts about the info of the same pc: make them one *)
Ltac sync :=
  repeat match goal with
         | A : info ?p = None, B : info ?p = Some _ |- _ => rewrite A in B; discriminate B
         | A : info ?p = Some _, B : info ?p = Some _ |- _ => rewrite A in B; inversion B; subst; clear B
         end.

Ltac trans_cases Ht := inversion Ht; subst; flip; sync.

Section Move.
  Variables (st : state) (t : tid) (sh' : shared) (p' : pc) (todo' : list op) (evs : list event).
  Hypothesis Hinv : linv st.
  Hypothesis Hnv : forall d n, ents (st_sh st) d n <> None -> ents sh' d n <> None.
  Hypothesis Ht : ltrans t (st_sh st) sh' (info (t_pc (st_thr st t))) (info p') evs.

  Let thr' := upd1 (st_thr st) t (mkT p' todo').

  Lemma mv_back d n : ents sh' d n = None -> ents (st_sh st) d n = None.
  Proof. intros H. destruct (ents (st_sh st) d n) eqn:He; auto. exfalso. apply (Hnv d n); congruence. Qed.

  Lemma mv_pc_same : t_pc (thr' t) = p'.
  Proof. unfold thr'. now rewrite upd1_eq. Qed.

  Lemma mv_pc_other t0 : t0 <> t -> t_pc (thr' t0) = t_pc (st_thr st t0).
  Proof. intros H. unfold thr'. now rewrite upd1_neq. Qed.

  Lemma mv_own t0 d n lk ph :
    info (t_pc (thr' t0)) = Some (d, n, lk, ph) -> holds ph = true -> held sh' lk = Some t0.
  Proof.
    destruct Hinv as [Hown Huni Hnp0 Hcm1 Hnp1 Hnpcm].
    intros Hi Hh. destruct (Nat.eq_dec t0 t) as [->|Hne].
    - rewrite mv_pc_same in Hi. trans_cases Ht; try discriminate.
      + match goal with H : held _ = _ |- _ => rewrite H end. now rewrite upd1_eq.
      + eapply Hown; eauto.
      + match goal with H : held _ = _ |- _ => rewrite H end. eapply Hown; eauto.
    - rewrite mv_pc_other in Hi by assumption.
      pose proof (Hown _ _ _ _ _ Hi Hh) as Hheld.
      trans_cases Ht; try exact Hheld;
        try (match goal with H : held _ = held _ |- _ => rewrite H; exact Hheld end).
      + (* lock *) match goal with H : held _ = upd1 _ _ _ |- _ => rewrite H end.
        destruct (Nat.eq_dec lk lk0) as [->|Hl]; [congruence | now rewrite upd1_neq].
      + (* unlock, entry there *) match goal with H : held _ = upd1 _ _ _ |- _ => rewrite H end.
        destruct (Nat.eq_dec lk lk0) as [->|Hl]; [|now rewrite upd1_neq].
        assert (Hme : held (st_sh st) lk0 = Some t) by (eapply Hown; eauto). congruence.
      + (* unlock after the parse *) match goal with H : held _ = upd1 _ _ _ |- _ => rewrite H end.
        destruct (Nat.eq_dec lk lk0) as [->|Hl]; [|now rewrite upd1_neq].
        assert (Hme : held (st_sh st) lk0 = Some t) by (eapply Hown; eauto). congruence.
  Qed.
  Lemma mv_uni t0 d n lk ph :
    ents sh' d n = None -> info (t_pc (thr' t0)) = Some (d, n, lk, ph) ->
    lockmap sh' d n = Some lk /\ ph <> PhMarked /\ ph <> PhUnl.
  Proof.
    destruct Hinv as [Hown Huni Hnp0 Hcm1 Hnp1 Hnpcm].
    intros He Hi. pose proof (mv_back _ _ He) as Hold.
    destruct (Nat.eq_dec t0 t) as [->|Hne].
    - rewrite mv_pc_same in Hi. trans_cases Ht.
      + (* ptr *) repeat split; try discriminate.
        match goal with H : _ \/ _ |- _ => destruct H as [[Ha Hb]|[Ha Hb]] end; rewrite Hb; auto. now rewrite upd2_eq.
      + (* lock *) edestruct (Huni t) as (Hl & _); [exact Hold | eassumption |].
        repeat split; try discriminate. congruence.
      + (* nil *) edestruct (Huni t) as (Hl & _); [exact Hold | eassumption |].
        repeat split; try discriminate. auto.
      + (* some *) exfalso; auto.
      + (* mark *) exfalso; auto.
      + (* parse *) exfalso. edestruct (Huni t) as (_ & Hm & _); [exact Hold | eassumption |]. congruence.
    - rewrite mv_pc_other in Hi by assumption.
      destruct (Huni _ _ _ _ _ Hold Hi) as (Hl & Hm & Hu). repeat split; auto.
      trans_cases Ht; try congruence.
      + (* ptr *) match goal with H : _ \/ _ |- _ => destruct H as [[Ha Hb]|[Ha Hb]] end; rewrite Hb; auto.
        destruct (pair_dec d n d0 n0) as [Heq|Hneq]; [inversion Heq; subst; congruence | now rewrite upd2_neq].
      + (* del *) match goal with H : lockmap _ = upd2 _ _ _ _ |- _ => rewrite H end.
        destruct (pair_dec d n d0 n0) as [Heq|Hneq]; [|now rewrite upd2_neq].
        inversion Heq; subst. exfalso. edestruct (Huni t) as (_ & _ & Hx); [exact Hold | eassumption |]. congruence.
  Qed.

  Lemma mv_evs_parse d n :
    nparse d n evs = 0 \/ (nparse d n evs = 1 /\ exists lk, info (t_pc (st_thr st t)) = Some (d, n, lk, PhMarked)).
  Proof.
    trans_cases Ht; cbn [nparse]; auto.
    destruct (pair_dec d0 n0 d n) as [Heq|Hneq].
    - inversion Heq; subst. right. rewrite Nat.eqb_refl, N.eqb_refl. cbn. split; eauto.
    - left. destruct (Nat.eqb_spec d0 d); destruct (N.eqb_spec n0 n); cbn; auto. subst; congruence.
  Qed.

  Lemma mv_np0 d n : ents sh' d n = None -> nparse d n (st_log st ++ evs) = 0.
  Proof.
    destruct Hinv as [Hown Huni Hnp0 Hcm1 Hnp1 Hnpcm].
    intros He. pose proof (mv_back _ _ He) as Hold. rewrite nparse_app, (Hnp0 _ _ Hold).
    destruct (mv_evs_parse d n) as [Hz | (_ & lk & Hi)]; [lia|].
    exfalso. destruct (Huni t _ _ _ _ Hold Hi) as (_ & Hm & _). congruence.
  Qed.

  Lemma mv_np1 d n : nparse d n (st_log st ++ evs) <= 1.
  Proof.
    destruct Hinv as [Hown Huni Hnp0 Hcm1 Hnp1 Hnpcm].
    rewrite nparse_app. pose proof (Hnp1 d n) as Hle.
    destruct (mv_evs_parse d n) as [Hz | (H1 & lk & Hi)]; [lia|].
    destruct (Nat.eq_dec (nparse d n (st_log st)) 0) as [Hz|Hnz]; [lia|].
    assert (Hc : cm PhMarked = false) by (eapply Hnpcm; eauto; lia). discriminate.
  Qed.

  Lemma mv_cm1 t1 t2 d n lk1 lk2 ph1 ph2 :
    info (t_pc (thr' t1)) = Some (d, n, lk1, ph1) -> info (t_pc (thr' t2)) = Some (d, n, lk2, ph2) ->
    cm ph1 = true -> cm ph2 = true -> t1 = t2.
  Proof.
    destruct Hinv as [Hown Huni Hnp0 Hcm1 Hnp1 Hnpcm].
    (* a thread that enters {checked, marked} by this move, and another one that is there already *)
    assert (Hkey : forall t0 lk0 ph0 lk ph, t0 <> t ->
              info (t_pc (st_thr st t0)) = Some (d, n, lk0, ph0) -> cm ph0 = true ->
              info p' = Some (d, n, lk, ph) -> cm ph = true -> False).
    { intros t0 lk0 ph0 lk ph Hne H0 Hc0 Hp Hc. trans_cases Ht; try discriminate.
      - (* nil: no entry *)
        match goal with H : ents _ _ _ = None |- _ => rename H into Hnone end.
        match goal with Hf : info (t_pc (st_thr st t)) = Some (_, _, _, PhLocked) |- _ =>
          pose proof (Hown _ _ _ _ _ Hf eq_refl) as Ho; destruct (Huni _ _ _ _ _ Hnone Hf) as (Hl & _) end.
        assert (Ho0 : held (st_sh st) lk0 = Some t0) by (eapply Hown; [exact H0 | destruct ph0; auto; discriminate]).
        destruct (Huni _ _ _ _ _ Hnone H0) as (Hl0 & _).
        congruence.
      - (* mark: t was there before *)
        apply Hne. eapply Hcm1; eauto. }
    intros H1 H2 Hc1 Hc2.
    destruct (Nat.eq_dec t1 t) as [->|Hn1]; destruct (Nat.eq_dec t2 t) as [->|Hn2]; auto.
    - rewrite mv_pc_same in H1. rewrite mv_pc_other in H2 by assumption. exfalso. eapply Hkey; eauto.
    - rewrite mv_pc_same in H2. rewrite mv_pc_other in H1 by assumption. exfalso. eapply Hkey; eauto.
    - rewrite mv_pc_other in H1, H2 by assumption. eapply Hcm1; eauto.
  Qed.

  Lemma mv_npcm d n t0 lk ph :
    nparse d n (st_log st ++ evs) >= 1 -> info (t_pc (thr' t0)) = Some (d, n, lk, ph) -> cm ph = false.
  Proof.
    destruct Hinv as [Hown Huni Hnp0 Hcm1 Hnp1 Hnpcm].
    rewrite nparse_app. intros Hn Hi.
    destruct (cm ph) eqn:Hc; auto. exfalso.
    destruct (mv_evs_parse d n) as [Hz | (H1 & lkm & Him)].
    - (* parsed before this move *)
      assert (Hold : nparse d n (st_log st) >= 1) by lia.
      destruct (Nat.eq_dec t0 t) as [->|Hne].
      + rewrite mv_pc_same in Hi. trans_cases Ht; try discriminate.
        * (* nil *) match goal with H : ents _ _ _ = None |- _ => rewrite (Hnp0 _ _ H) in Hold end. lia.
        * (* mark *) assert (Hx : cm PhChecked = false) by (eapply Hnpcm; eauto). discriminate.
      + rewrite mv_pc_other in Hi by assumption.
        assert (Hx : cm ph = false) by (eapply Hnpcm; eauto). congruence.
    - (* parsed by this move: t leaves, nobody else can be there *)
      destruct (Nat.eq_dec t0 t) as [->|Hne].
      + rewrite mv_pc_same in Hi. trans_cases Ht; try discriminate.
      + rewrite mv_pc_other in Hi by assumption. apply Hne. eapply Hcm1; eauto.
  Qed.

  Lemma linv_move : linv (mkSt sh' thr' (st_log st ++ evs)).
  Proof.
    split; cbn [st_sh st_thr st_log].
    - apply mv_own.
    - apply mv_uni.
    - apply mv_np0.
    - apply mv_cm1.
    - apply mv_np1.
    - apply mv_npcm.
  Qed.
End Move.


Lemma linv_step cfg st t : linv st -> linv (step cfg st t).
Proof.
  intros Hl. destruct (step_cases cfg st t) as [He | (sh' & p' & todo' & evs & Hm & He)]; rewrite He; auto.
  destruct Hm as [(Hpc & o & Ht & Hs) | (Hpc & _ & Hs)].
  - apply linv_move; auto.
    + intros d n. eapply start_nonnone; eauto.
    + rewrite Hpc. cbn [info]. eapply start_ltrans; eauto.
  - apply linv_move; auto.
    + intros d n. eapply seg_nonnone; eauto.
    + eapply seg_ltrans; eauto.
Qed.

Lemma linv_exec cfg p s : linv (exec cfg p s).
Proof. apply exec_inv; [apply linv_init | intros; now apply linv_step]. Qed.

(* every file is read and parsed at most once per file based loader *)
Lemma instantiate_once cfg p s d n : nparse d n (trace cfg p s) <= 1.
Proof. apply (l_np1 _ (linv_exec cfg p s)). Qed.

(* and only by a thread that found no entry under the name lock: a name that has an entry is never parsed (again) *)
Lemma parsed_has_entry cfg p s d n :
  nparse d n (trace cfg p s) >= 1 -> ents (st_sh (exec cfg p s)) d n <> None.
Proof.
  intros H He. pose proof (l_np0 _ (linv_exec cfg p s) d n He) as Hz. unfold trace in H. lia.
Qed.
