(* LatticeTransColl.v — transitivity, receiver against receiver: middle types with type parameters
   (Collection, Array, Hash, Tuple, Struct, Type, Sensitive).  The induction hypothesis (transitivity for
   strictly smaller triples) is a premise. *)
From Coq Require Import ZArith NArith Bool List Lia.
From PcoreV Require Import Model.Base Model.Ty Model.Lattice Proofs.LatticeUnfold Proofs.LatticeBasics
  Proofs.StructCount Proofs.LatticeRule Proofs.LatticeSound Proofs.LatticeOrder.
From PcoreV Require Import Proofs.LatticeTransBasics.
Import ListNotations.
Open Scope Z_scope.

(* ---- the Tuple walk (tupletype.go:253): position i of the left list against position i of the right
        list, the last type of the shorter list repeating ---- *)
Section Pairs.
  Variable G : ty -> ty -> bool.

  Lemma tpairs_all ts os : (forall t o, In t ts -> In o os -> G t o = true) -> tpairs G ts os = true.
  Proof.
    revert os; induction ts as [|t ts IH]; intros os H; [reflexivity|].
    destruct os as [|o os]; [destruct ts; reflexivity|]. destruct ts as [|t' ts].
    - cbn. rewrite (H t o) by (cbn; auto). cbn. apply forallb_forall. intros u Hu. apply H; cbn; auto.
    - destruct os as [|o' os].
      + change (G t o && forallb (fun x => G x o) (t' :: ts) = true). rewrite (H t o) by (cbn; auto). cbn [andb].
        apply forallb_forall. intros x Hx. apply H; [right; exact Hx|left; reflexivity].
      + change (G t o && tpairs G (t' :: ts) (o' :: os) = true). rewrite (H t o) by (cbn; auto). cbn [andb].
        apply IH. intros x y Hx Hy. apply H; right; assumption.
  Qed.

  Lemma tpairs_cover_l ts : forall os, os <> [] -> tpairs G ts os = true -> forall t, In t ts -> exists o, In o os /\ G t o = true.
  Proof.
    induction ts as [|t ts IH]; intros os Hos Hp x Hx; [destruct Hx|].
    destruct os as [|o os]; [congruence|]. destruct ts as [|t' ts].
    - cbn in Hp. apply andb_true_iff in Hp. destruct Hp as [Hp _]. destruct Hx as [<-|[]]. exists o. split; [left; reflexivity|exact Hp].
    - destruct os as [|o' os].
      + change (G t o && forallb (fun x => G x o) (t' :: ts) = true) in Hp. apply andb_true_iff in Hp. destruct Hp as [Hp0 Hp].
        exists o. split; [left; reflexivity|]. destruct Hx as [<-|Hx]; [exact Hp0|]. rewrite forallb_forall in Hp. apply Hp. exact Hx.
      + change (G t o && tpairs G (t' :: ts) (o' :: os) = true) in Hp. apply andb_true_iff in Hp. destruct Hp as [Hp0 Hp].
        destruct Hx as [<-|Hx]; [exists o; split; [left; reflexivity|exact Hp0]|].
        destruct (IH (o' :: os) ltac:(congruence) Hp x Hx) as (y & Hy & Hg). exists y. split; [right; exact Hy|exact Hg].
  Qed.

  Lemma tpairs_cover_r ts : forall os, ts <> [] -> tpairs G ts os = true -> forall o, In o os -> exists t, In t ts /\ G t o = true.
  Proof.
    induction ts as [|t ts IH]; intros os Hts Hp y Hy; [congruence|].
    destruct os as [|o os]; [destruct Hy|]. destruct ts as [|t' ts].
    - cbn in Hp. apply andb_true_iff in Hp. destruct Hp as [Hp0 Hp]. exists t. split; [left; reflexivity|].
      destruct Hy as [<-|Hy]; [exact Hp0|]. rewrite forallb_forall in Hp. apply Hp. exact Hy.
    - destruct os as [|o' os].
      + change (G t o && forallb (fun x => G x o) (t' :: ts) = true) in Hp. apply andb_true_iff in Hp. destruct Hp as [Hp0 _].
        destruct Hy as [<-|[]]. exists t. split; [left; reflexivity|exact Hp0].
      + change (G t o && tpairs G (t' :: ts) (o' :: os) = true) in Hp. apply andb_true_iff in Hp. destruct Hp as [Hp0 Hp].
        destruct Hy as [<-|Hy]; [exists t; split; [left; reflexivity|exact Hp0]|].
        destruct (IH (o' :: os) ltac:(congruence) Hp y Hy) as (x & Hx & Hg). exists x. split; [right; exact Hx|exact Hg].
  Qed.

  Lemma tpairs_trans ts : forall os us, os <> [] ->
    (forall t o u, In t ts -> In o os -> In u us -> G t o = true -> G o u = true -> G t u = true) ->
    tpairs G ts os = true -> tpairs G os us = true -> tpairs G ts us = true.
  Proof.
    induction ts as [|t ts IH]; intros os us Hos Htr H1 H2; [reflexivity|].
    destruct os as [|o os]; [congruence|].
    destruct us as [|u us]; [destruct ts; reflexivity|].
    assert (Hall : (forall x, In x (t :: ts) -> forall y, In y (o :: os) -> G x y = true) \/
                   (forall y, In y (o :: os) -> forall z, In z (u :: us) -> G y z = true) ->
                   tpairs G (t :: ts) (u :: us) = true).
    { intros [Hl|Hr]; apply tpairs_all; intros x z Hx Hz.
      - destruct (tpairs_cover_r (o :: os) (u :: us) ltac:(congruence) H2 z Hz) as (y & Hy & Hg).
        apply (Htr x y z Hx Hy Hz); [apply Hl; assumption|exact Hg].
      - destruct (tpairs_cover_l (t :: ts) (o :: os) ltac:(congruence) H1 x Hx) as (y & Hy & Hg).
        apply (Htr x y z Hx Hy Hz); [exact Hg|apply Hr; assumption]. }
    destruct ts as [|t' ts].
    - (* one type on the left accepts every middle type *)
      apply Hall. left. cbn in H1. apply andb_true_iff in H1. destruct H1 as [H10 H1]. rewrite forallb_forall in H1.
      intros x [<-|[]] y [<-|Hy]; auto.
    - destruct os as [|o' os].
      + (* one middle type *)
        apply Hall. left.
        change (G t o && forallb (fun x => G x o) (t' :: ts) = true) in H1. apply andb_true_iff in H1. destruct H1 as [H10 H1].
        rewrite forallb_forall in H1. intros x Hx y [<-|[]]. destruct Hx as [<-|Hx]; auto.
      + change (G t o && tpairs G (t' :: ts) (o' :: os) = true) in H1. apply andb_true_iff in H1. destruct H1 as [H10 H1].
        destruct us as [|u' us].
        * (* one type on the right is accepted by every middle type *)
          apply Hall. right.
          change (G o u && forallb (fun x => G x u) (o' :: os) = true) in H2. apply andb_true_iff in H2. destruct H2 as [H20 H2].
          rewrite forallb_forall in H2. intros y Hy z [<-|[]]. destruct Hy as [<-|Hy]; auto.
        * change (G o u && tpairs G (o' :: os) (u' :: us) = true) in H2. apply andb_true_iff in H2. destruct H2 as [H20 H2].
          change (G t u && tpairs G (t' :: ts) (u' :: us) = true). apply andb_true_iff. split.
          -- apply (Htr t o u); cbn; auto.
          -- apply (IH (o' :: os) (u' :: us)); [congruence| |exact H1|exact H2].
             intros x y z Hx Hy Hz. apply Htr; right; assumption.
  Qed.
End Pairs.

(* ---- Struct members: counting by distinct names ---- *)
Notation members := (list (str * (ty * ty))).
Definition fnd (ms' : members) (m : str * (ty * ty)) : bool :=
  match find_member (fst m) ms' with Some _ => true | None => false end.

Lemma distinct_NoDup l : distinct l = true -> NoDup l.
Proof.
  induction l as [|x l IH]; intros H; [constructor|]. cbn in H. apply andb_true_iff in H. destruct H as [Hx Hd].
  apply negb_true_iff in Hx. constructor; [apply (mem_str_false_in _ _ Hx)|apply IH; exact Hd].
Qed.

Lemma NoDup_map_filter {A B} (f : A -> B) (p : A -> bool) l : NoDup (map f l) -> NoDup (map f (filter p l)).
Proof.
  induction l as [|x l IH]; intros H; [constructor|]. cbn in H. inversion H as [|? ? Hx Hd]; subst. cbn.
  destruct (p x); [|apply IH; exact Hd]. cbn. constructor; [|apply IH; exact Hd].
  intros Hin. apply Hx. apply in_map_iff in Hin. destruct Hin as (y & Hy & Hin). apply filter_In in Hin.
  apply in_map_iff. exists y. tauto.
Qed.

Lemma count_le (P Q : str * (ty * ty) -> bool) (ms ms' : members) : distinct (map fst ms) = true ->
  (forall m, In m ms -> P m = true -> exists m', In m' ms' /\ fst m' = fst m /\ Q m' = true) ->
  (length (filter P ms) <= length (filter Q ms'))%nat.
Proof.
  intros Hd H. rewrite <- (map_length fst (filter P ms)), <- (map_length fst (filter Q ms')).
  apply NoDup_incl_length; [apply NoDup_map_filter; apply distinct_NoDup; exact Hd|].
  intros n Hn. apply in_map_iff in Hn. destruct Hn as (m & <- & Hm). apply filter_In in Hm. destruct Hm as [Hm HP].
  destruct (H m Hm HP) as (m' & Hm' & He & HQ). rewrite <- He. apply in_map. apply filter_In. auto.
Qed.

Lemma find_member_none n ms : find_member n ms = None -> forall m, In m ms -> fst m <> n.
Proof.
  induction ms as [|[n' kv] ms IH]; intros H m Hm; [destruct Hm|]. cbn in H.
  destruct (str_eqb_spec n n') as [->|Hne]; [discriminate|]. destruct Hm as [<-|Hm]; [cbn; congruence|auto].
Qed.

Lemma fnd_true ms' m : fnd ms' m = true -> exists kv, In (fst m, kv) ms'.
Proof. unfold fnd. destruct (find_member (fst m) ms') as [kv|] eqn:E; [|discriminate]. intros _. exists kv. apply find_member_some. exact E. Qed.

Lemma fnd_in ms' m m' : In m' ms' -> fst m' = fst m -> fnd ms' m = true.
Proof.
  intros Hm' He. unfold fnd. destruct (find_member (fst m) ms') eqn:E; [reflexivity|].
  exfalso. apply (find_member_none _ _ E m' Hm'). exact He.
Qed.

(* as many members of ms found in ms' as ms' has members: every member of ms' has a namesake in ms *)
Lemma struct_cover ms ms' : distinct (map fst ms) = true -> distinct (map fst ms') = true ->
  Z.eqb (zlen (filter (fnd ms') ms)) (zlen ms') = true ->
  forall m', In m' ms' -> exists m, In m ms /\ fst m = fst m'.
Proof.
  intros Hd Hd' Hc m' Hm'. apply Z.eqb_eq in Hc. unfold zlen in Hc. apply Nat2Z.inj in Hc.
  assert (Hincl : incl (map fst (filter (fnd ms') ms)) (map fst ms')).
  { intros n Hn. apply in_map_iff in Hn. destruct Hn as (m & <- & Hm). apply filter_In in Hm. destruct Hm as [_ Hf].
    destruct (fnd_true _ _ Hf) as (kv & Hin). apply (in_map fst _ _ Hin). }
  assert (Hrev : incl (map fst ms') (map fst (filter (fnd ms') ms))).
  { apply NoDup_length_incl; [apply NoDup_map_filter; apply distinct_NoDup; exact Hd|rewrite !map_length; lia|exact Hincl]. }
  specialize (Hrev (fst m') (in_map fst _ _ Hm')). apply in_map_iff in Hrev. destruct Hrev as (m & He & Hm).
  apply filter_In in Hm. exists m. tauto.
Qed.

Lemma struct_count ms ms' : distinct (map fst ms) = true -> distinct (map fst ms') = true ->
  (forall m', In m' ms' -> exists m, In m ms /\ fst m = fst m') ->
  Z.eqb (zlen (filter (fnd ms') ms)) (zlen ms') = true.
Proof.
  intros Hd Hd' H. apply Z.eqb_eq. unfold zlen. f_equal.
  rewrite <- (map_length fst (filter (fnd ms') ms)), <- (map_length fst ms'). apply Nat.le_antisymm.
  - apply NoDup_incl_length; [apply NoDup_map_filter; apply distinct_NoDup; exact Hd|].
    intros n Hn. apply in_map_iff in Hn. destruct Hn as (m & <- & Hm). apply filter_In in Hm. destruct Hm as [_ Hf].
    destruct (fnd_true _ _ Hf) as (kv & Hin). apply (in_map fst _ _ Hin).
  - apply NoDup_incl_length; [apply distinct_NoDup; exact Hd'|].
    intros n Hn. apply in_map_iff in Hn. destruct Hn as (m' & <- & Hm'). destruct (H m' Hm') as (m & Hm & He).
    rewrite <- He. apply in_map. apply filter_In. split; [exact Hm|]. apply (fnd_in ms' m m' Hm'). congruence.
Qed.

(* a sub-range of a range whose maximum is not positive has a maximum that is not positive (fix of
   trans-negative-collection-size: the shortcut tests max <= 0, so it is inherited downwards) *)
Lemma emp_down lo hi lo' hi' : size_sub lo hi lo' hi' = true -> (hi <=? 0) = true -> (hi' <=? 0) = true.
Proof. unfold size_sub. intros H H0. apply andb_true_iff in H. destruct H as [_ H]. apply Z.leb_le in H, H0. apply Z.leb_le. lia. Qed.

Section Coll.
  Variable rx : str -> str -> bool.
  Notation asg := (asg rx false).
  Notation recv := (recv rx false asg).

  (* the induction hypothesis: transitivity for all strictly smaller triples *)
  Definition IHn (n : nat) : Prop :=
    forall a b c, (tsize a + tsize b + tsize c < n)%nat -> gd a -> gd b -> gd c ->
                  asg a b = true -> asg b c = true -> asg a c = true.

  Ltac rsimpl H := cbn [LatticeUnfold.recv] in H.
  Ltac lists H :=
    repeat match type of H with
           | context [match ?l with [] => _ | _ :: _ => _ end] => is_var l; destruct l; rsimpl H
           end.
  Ltac split_and H :=
    repeat match type of H with
           | _ && _ = true => let H1 := fresh H in apply andb_true_iff in H; destruct H as [H H1]
           end.
  Ltac sz := cbn [tsize] in *; lia.

  Lemma core_collection lo' hi' a c : rcv a = true ->
    recv a (TCollection lo' hi') = true -> recv (TCollection lo' hi') c = true -> recv a c = true.
  Proof.
    intros Ra Hab Hbc. destruct a; try discriminate; rsimpl Hab; try discriminate Hab.
    - destruct vs; discriminate.
    - destruct rxs; discriminate.
    - destruct c; rsimpl Hbc; try discriminate Hbc; cbn [LatticeUnfold.recv]; eapply size_sub_trans; eassumption.
  Qed.

  Lemma core_array e' lo' hi' a c : IHn (tsize a + tsize (TArray e' lo' hi') + tsize c) ->
    gd a -> gd (TArray e' lo' hi') -> gd c -> rcv a = true ->
    recv a (TArray e' lo' hi') = true -> recv (TArray e' lo' hi') c = true -> recv a c = true.
  Proof.
    intros IH Ha Hb Hc Ra Hab Hbc. pose proof (gd_array _ _ _ Hb) as Hge'.
    destruct c as [| | | | | | | | | | | | | | | | | |e'' lo'' hi''| |us gu lo'' hi''| | | | | | |]; rsimpl Hbc; try discriminate Hbc.
    - (* right: Array *)
      pose proof (gd_array _ _ _ Hc) as Hge''. apply andb_true_iff in Hbc. destruct Hbc as [Hs2 Hbc].
      destruct a as [| | | | | | | | | | | | |ci vs|rxs| | |lo hi|e lo hi| |ts g lo hi| | | | | | |]; try discriminate; rsimpl Hab; try discriminate Hab.
      + destruct vs; discriminate.
      + destruct rxs; discriminate.
      + cbn [LatticeUnfold.recv]. eapply size_sub_trans; eassumption.
      + (* Array <- Array <- Array *) apply andb_true_iff in Hab. destruct Hab as [Hs1 Hab].
        cbn [LatticeUnfold.recv]. rewrite (size_sub_trans _ _ _ _ _ _ Hs1 Hs2). cbn [andb].
        destruct (hi'' <=? 0) eqn:E2; [reflexivity|]. cbn [orb] in Hbc |- *.
        apply orb_true_iff in Hab. destruct Hab as [E1|Hab]; [rewrite (emp_down _ _ _ _ Hs2 E1) in E2; discriminate|].
        apply (IH e e' e''); try assumption; sz.
      + (* Tuple <- Array <- Array *) apply andb_true_iff in Hab. destruct Hab as [Hs1 Hab].
        cbn [LatticeUnfold.recv]. rewrite (size_sub_trans _ _ _ _ _ _ Hs1 Hs2). cbn [andb].
        destruct (hi'' <=? 0) eqn:E2; [reflexivity|]. cbn [orb] in Hbc |- *.
        apply orb_true_iff in Hab. destruct Hab as [E1|Hab]; [rewrite (emp_down _ _ _ _ Hs2 E1) in E2; discriminate|].
        rewrite forallb_forall in Hab |- *. intros t Ht. pose proof (tsize_in _ _ Ht).
        apply (IH t e' e''); try assumption; [sz|exact (gd_tuple _ _ _ _ _ Ha Ht)|apply Hab; exact Ht].
    - (* right: Tuple *)
      apply andb_true_iff in Hbc. destruct Hbc as [Hs2 Hbc].
      assert (Hr : (hi'' <=? 0) = false -> forall x, gd x -> (tsize x < tsize a)%nat -> asg x e' = true ->
                   (us = [] -> asg x TAny = true) /\ (forall u, In u us -> asg x u = true)).
      { intros E2 x Hgx Hsx Hxe. rewrite E2 in Hbc. cbn [orb] in Hbc. split.
        - intros ->. cbv iota in Hbc. apply (IH x e' TAny); try assumption; [sz|apply gd_any].
        - intros u Hu. destruct us as [|u0 us]; [destruct Hu|]. cbv iota in Hbc. rewrite forallb_forall in Hbc. pose proof (tsize_in _ _ Hu).
          apply (IH x e' u); try assumption; [sz|exact (gd_tuple _ _ _ _ _ Hc Hu)|apply Hbc; exact Hu]. }
      destruct a as [| | | | | | | | | | | | |ci vs|rxs| | |lo hi|e lo hi| |ts g lo hi| | | | | | |]; try discriminate; rsimpl Hab; try discriminate Hab.
      + destruct vs; discriminate.
      + destruct rxs; discriminate.
      + cbn [LatticeUnfold.recv]. eapply size_sub_trans; eassumption.
      + (* Array <- Array <- Tuple *) apply andb_true_iff in Hab. destruct Hab as [Hs1 Hab].
        cbn [LatticeUnfold.recv]. rewrite (size_sub_trans _ _ _ _ _ _ Hs1 Hs2). cbn [andb].
        destruct (hi'' <=? 0) eqn:E2; [reflexivity|]. cbn [orb].
        apply orb_true_iff in Hab. destruct Hab as [E1|Hab]; [rewrite (emp_down _ _ _ _ Hs2 E1) in E2; discriminate|].
        destruct (Hr eq_refl e (gd_array _ _ _ Ha) ltac:(sz) Hab) as [Hr1 Hr2].
        destruct us as [|u0 us]; [apply Hr1; reflexivity|]. apply forallb_forall. exact Hr2.
      + (* Tuple <- Array <- Tuple *) apply andb_true_iff in Hab. destruct Hab as [Hs1 Hab].
        cbn [LatticeUnfold.recv]. rewrite (size_sub_trans _ _ _ _ _ _ Hs1 Hs2). cbn [andb].
        destruct ts as [|t0 ts]; [reflexivity|]. remember (t0 :: ts) as tl eqn:Etl.
        destruct (hi'' <=? 0) eqn:E2; [reflexivity|]. cbn [orb].
        apply orb_true_iff in Hab. destruct Hab as [E1|Hab]; [rewrite (emp_down _ _ _ _ Hs2 E1) in E2; discriminate|].
        rewrite forallb_forall in Hab.
        assert (Hr' : forall t, In t tl -> (us = [] -> asg t TAny = true) /\ (forall u, In u us -> asg t u = true)).
        { intros t Ht. pose proof (tsize_in _ _ Ht). apply (Hr eq_refl t (gd_tuple _ _ _ _ _ Ha Ht)); [sz|apply Hab; exact Ht]. }
        destruct us as [|u0 us].
        * apply forallb_forall. intros t Ht. apply (proj1 (Hr' t Ht)). reflexivity.
        * apply tpairs_all. intros t u Ht Hu. apply (proj2 (Hr' t Ht)). exact Hu.
  Qed.

  Lemma core_tuple os g' lo' hi' a c : IHn (tsize a + tsize (TTuple os g' lo' hi') + tsize c) ->
    gd a -> gd (TTuple os g' lo' hi') -> gd c -> rcv a = true ->
    recv a (TTuple os g' lo' hi') = true -> recv (TTuple os g' lo' hi') c = true -> recv a c = true.
  Proof.
    intros IH Ha Hb Hc Ra Hab Hbc.
    (* the induction hypothesis through a middle slot *)
    assert (HIH : forall x o z, (tsize x < tsize a)%nat -> gd x -> In o os -> (tsize z <= tsize c)%nat -> gd z ->
                                asg x o = true -> asg o z = true -> asg x z = true).
    { intros x o z Hsx Hgx Ho Hsz Hgz Hxo Hoz. pose proof (tsize_in _ _ Ho).
      apply (IH x o z); try assumption; [sz|exact (gd_tuple _ _ _ _ _ Hb Ho)]. }
    destruct c as [| | | | | | | | | | | | | | | | | |e'' lo'' hi''| |us gu lo'' hi''| | | | | | |]; rsimpl Hbc; try discriminate Hbc.
    - (* right: Array *)
      pose proof (gd_array _ _ _ Hc) as Hge''. apply andb_true_iff in Hbc. destruct Hbc as [Hs2 Hbc].
      assert (Hsz'' : (tsize e'' <= tsize (TArray e'' lo'' hi''))%nat) by sz.
      destruct a as [| | | | | | | | | | | | |ci vs|rxs| | |lo hi|e lo hi| |ts g lo hi| | | | | | |]; try discriminate; rsimpl Hab; try discriminate Hab.
      + destruct vs; discriminate.
      + destruct rxs; discriminate.
      + cbn [LatticeUnfold.recv]. eapply size_sub_trans; eassumption.
      + (* Array <- Tuple <- Array *) apply andb_true_iff in Hab. destruct Hab as [Hs1 Hab].
        cbn [LatticeUnfold.recv]. rewrite (size_sub_trans _ _ _ _ _ _ Hs1 Hs2). cbn [andb].
        destruct (hi'' <=? 0) eqn:E2; [reflexivity|]. cbn [orb] in Hbc |- *.
        apply orb_true_iff in Hab. destruct Hab as [E1|Hab]; [rewrite (emp_down _ _ _ _ Hs2 E1) in E2; discriminate|].
        destruct os as [|o0 os]; [apply asg_any_all; exact Hab|].
        rewrite forallb_forall in Hab, Hbc.
        exact (HIH e o0 e'' ltac:(sz) (gd_array _ _ _ Ha) (or_introl eq_refl) Hsz'' Hge'' (Hab _ (or_introl eq_refl)) (Hbc _ (or_introl eq_refl))).
      + (* Tuple <- Tuple <- Array *) apply andb_true_iff in Hab. destruct Hab as [Hs1 Hab].
        cbn [LatticeUnfold.recv]. rewrite (size_sub_trans _ _ _ _ _ _ Hs1 Hs2). cbn [andb].
        destruct (hi'' <=? 0) eqn:E2; [reflexivity|]. cbn [orb] in Hbc |- *.
        destruct ts as [|t0 ts]; [reflexivity|]. remember (t0 :: ts) as tl eqn:Etl.
        apply orb_true_iff in Hab. destruct Hab as [E1|Hab]; [rewrite (emp_down _ _ _ _ Hs2 E1) in E2; discriminate|].
        apply forallb_forall. intros t Ht. pose proof (tsize_in _ _ Ht) as Hst.
        destruct os as [|o0 os].
        * apply asg_any_all. rewrite forallb_forall in Hab. apply Hab. exact Ht.
        * destruct (tpairs_cover_l asg tl (o0 :: os) ltac:(congruence) Hab t Ht) as (o & Ho & Hto).
          rewrite forallb_forall in Hbc.
          exact (HIH t o e'' ltac:(sz) (gd_tuple _ _ _ _ _ Ha Ht) Ho Hsz'' Hge'' Hto (Hbc _ Ho)).
    - (* right: Tuple *)
      apply andb_true_iff in Hbc. destruct Hbc as [Hs2 Hbc].
      assert (Hsu : forall u, u = TAny \/ In u us -> (tsize u <= tsize (TTuple us gu lo'' hi''))%nat /\ gd u).
      { intros u [->|Hu]; [split; [sz|apply gd_any]|]. pose proof (tsize_in _ _ Hu). split; [sz|exact (gd_tuple _ _ _ _ _ Hc Hu)]. }
      destruct a as [| | | | | | | | | | | | |ci vs|rxs| | |lo hi|e lo hi| |ts g lo hi| | | | | | |]; try discriminate; rsimpl Hab; try discriminate Hab.
      + destruct vs; discriminate.
      + destruct rxs; discriminate.
      + cbn [LatticeUnfold.recv]. eapply size_sub_trans; eassumption.
      + (* Array <- Tuple <- Tuple *) apply andb_true_iff in Hab. destruct Hab as [Hs1 Hab].
        cbn [LatticeUnfold.recv]. rewrite (size_sub_trans _ _ _ _ _ _ Hs1 Hs2). cbn [andb].
        destruct (hi'' <=? 0) eqn:E2; [reflexivity|]. cbn [orb].
        apply orb_true_iff in Hab. destruct Hab as [E1|Hab]; [rewrite (emp_down _ _ _ _ Hs2 E1) in E2; discriminate|].
        destruct os as [|o0 os].
        * (* the middle Tuple has no slots: the Array element accepts Any *)
          destruct us as [|u0 us]; [exact Hab|]. apply forallb_forall. intros u _. apply asg_any_all. exact Hab.
        * cbn [orb] in Hbc. rewrite forallb_forall in Hab.
          assert (Hsa : (tsize e < tsize (TArray e lo hi))%nat) by sz.
          destruct us as [|u0 us].
          -- rewrite forallb_forall in Hbc. destruct (Hsu TAny (or_introl eq_refl)) as [Hs Hg].
             exact (HIH e o0 TAny Hsa (gd_array _ _ _ Ha) (or_introl eq_refl) Hs Hg (Hab _ (or_introl eq_refl)) (Hbc _ (or_introl eq_refl))).
          -- apply forallb_forall. intros u Hu. destruct (Hsu u (or_intror Hu)) as [Hs Hg].
             destruct (tpairs_cover_r asg (o0 :: os) (u0 :: us) ltac:(congruence) Hbc u Hu) as (o & Ho & Hou).
             exact (HIH e o u Hsa (gd_array _ _ _ Ha) Ho Hs Hg (Hab _ Ho) Hou).
      + (* Tuple <- Tuple <- Tuple *) apply andb_true_iff in Hab. destruct Hab as [Hs1 Hab].
        cbn [LatticeUnfold.recv]. rewrite (size_sub_trans _ _ _ _ _ _ Hs1 Hs2). cbn [andb].
        destruct ts as [|t0 ts]; [reflexivity|]. remember (t0 :: ts) as tl eqn:Etl.
        destruct (hi'' <=? 0) eqn:E2; [reflexivity|]. cbn [orb].
        apply orb_true_iff in Hab. destruct Hab as [E1|Hab]; [rewrite (emp_down _ _ _ _ Hs2 E1) in E2; discriminate|].
        assert (Hst : forall t, In t tl -> (tsize t < tsize (TTuple tl g lo hi))%nat /\ gd t).
        { intros t Ht. pose proof (tsize_in _ _ Ht). split; [sz|exact (gd_tuple _ _ _ _ _ Ha Ht)]. }
        destruct os as [|o0 os].
        * (* the middle Tuple has no slots: every left slot accepts Any *)
          rewrite forallb_forall in Hab. destruct us as [|u0 us].
          -- apply forallb_forall. exact Hab.
          -- apply tpairs_all. intros t u Ht _. apply asg_any_all. apply Hab. exact Ht.
        * cbn [orb] in Hbc. destruct us as [|u0 us].
          -- rewrite forallb_forall in Hbc |- *. intros t Ht. destruct (Hst t Ht) as [Hs Hg].
             destruct (Hsu TAny (or_introl eq_refl)) as [Hs' Hg'].
             destruct (tpairs_cover_l asg tl (o0 :: os) ltac:(congruence) Hab t Ht) as (o & Ho & Hto).
             exact (HIH t o TAny Hs Hg Ho Hs' Hg' Hto (Hbc _ Ho)).
          -- apply (tpairs_trans asg tl (o0 :: os) (u0 :: us)); [congruence| |exact Hab|exact Hbc].
             intros t o u Ht Ho Hu Hto Hou. destruct (Hst t Ht) as [Hs Hg]. destruct (Hsu u (or_intror Hu)) as [Hs' Hg'].
             exact (HIH t o u Hs Hg Ho Hs' Hg' Hto Hou).
  Qed.

  Lemma gd_actual_key ms m : gd (TStruct ms) -> In m ms -> gd (actual_key (fst (snd m))).
  Proof.
    intros [Hw _] Hin. destruct (wf_struct_member _ _ Hw Hin) as [Hk _]. rewrite (key_ok_actual _ _ Hk). apply gd_stringval.
  Qed.

  Lemma core_hash k' v' lo' hi' a c : IHn (tsize a + tsize (THash k' v' lo' hi') + tsize c) ->
    gd a -> gd (THash k' v' lo' hi') -> gd c -> rcv a = true ->
    recv a (THash k' v' lo' hi') = true -> recv (THash k' v' lo' hi') c = true -> recv a c = true.
  Proof.
    intros IH Ha Hb Hc Ra Hab Hbc. destruct (gd_hash _ _ _ _ Hb) as [Hgk' Hgv'].
    destruct a as [| | | | | | | | | | | | |ci vs|rxs| | |lo hi| |k v lo hi| |ms| | | | | |]; try discriminate; rsimpl Hab; try discriminate Hab.
    - destruct vs; discriminate.
    - destruct rxs; discriminate.
    - (* Collection *) destruct c; rsimpl Hbc; try discriminate Hbc; cbn [LatticeUnfold.recv]; split_and Hbc; eapply size_sub_trans; eassumption.
    - (* Hash *) apply andb_true_iff in Hab. destruct Hab as [Hs1 Hab]. destruct (gd_hash _ _ _ _ Ha) as [Hgk Hgv].
      destruct c as [| | | | | | | | | | | | | | | | | | |k'' v'' lo'' hi''| |ms''| | | | | |]; rsimpl Hbc; try discriminate Hbc;
        apply andb_true_iff in Hbc; destruct Hbc as [Hs2 Hbc]; cbn [LatticeUnfold.recv]; rewrite (size_sub_trans _ _ _ _ _ _ Hs1 Hs2); cbn [andb].
      + (* Hash <- Hash <- Hash *) destruct (gd_hash _ _ _ _ Hc) as (Hgk'' & Hgv'').
        destruct (hi'' <=? 0) eqn:E2; [reflexivity|]. cbn [orb] in Hbc |- *.
        apply orb_true_iff in Hab. destruct Hab as [E1|Hab]; [rewrite (emp_down _ _ _ _ Hs2 E1) in E2; discriminate|].
        apply andb_true_iff in Hab, Hbc. destruct Hab as [Hk1 Hv1]. destruct Hbc as [Hk2 Hv2].
        rewrite (IH k k' k'' ltac:(sz) Hgk Hgk' Hgk'' Hk1 Hk2), (IH v v' v'' ltac:(sz) Hgv Hgv' Hgv'' Hv1 Hv2). reflexivity.
      + (* Hash <- Hash <- Struct *) apply orb_true_iff in Hab. destruct Hab as [E1|Hab].
        * (* the middle Hash allows only the empty hash: the Struct has no members *)
          unfold size_sub in Hs2. apply andb_true_iff in Hs2. destruct Hs2 as [_ Hs2].
          assert (Hz : (zlen ms'' <=? 0) = true) by (apply Z.leb_le in E1, Hs2; apply Z.leb_le; lia).
          rewrite (zlen_le0_nil ms'' Hz). reflexivity.
        * apply andb_true_iff in Hab. destruct Hab as [Hk1 Hv1]. rewrite forallb_forall in Hbc |- *. intros m Hm.
          specialize (Hbc m Hm). apply andb_true_iff in Hbc. destruct Hbc as [Hk2 Hv2].
          pose proof (tsize_member _ _ Hm) as Hsm. pose proof (tsize_actual_key (fst (snd m))) as Hsk.
          rewrite (IH k k' (actual_key (fst (snd m))) ltac:(sz) Hgk Hgk' (gd_actual_key _ _ Hc Hm) Hk1 Hk2).
          rewrite (IH v v' (snd (snd m)) ltac:(sz) Hgv Hgv' (gd_struct_v _ _ Hc Hm) Hv1 Hv2). reflexivity.
    (* a Struct on the left: the by-specification rule, disabled (hs = false), is gone by discriminate *)
  Qed.

  (* ---- Struct ---- *)
  Lemma recv_struct_struct ms ms' :
    recv (TStruct ms) (TStruct ms') =
    forallb (fun m => match find_member (fst m) ms' with
                      | None => key_optional (fst (snd m))
                      | Some (k', v') => asg (fst (snd m)) k' && asg (snd (snd m)) v'
                      end) ms &&
    Z.eqb (zlen (filter (fnd ms') ms)) (zlen ms').
  Proof. reflexivity. Qed.

  Lemma struct_sub ms' ms'' : gd (TStruct ms') -> gd (TStruct ms'') -> recv (TStruct ms') (TStruct ms'') = true ->
    (forall m'', In m'' ms'' -> exists m', In m' ms' /\ fst m' = fst m'' /\
        asg (fst (snd m')) (fst (snd m'')) = true /\ asg (snd (snd m')) (snd (snd m'')) = true) /\
    struct_required ms' <= struct_required ms'' /\ zlen ms'' <= zlen ms'.
  Proof.
    intros Hb Hc Hr. rewrite recv_struct_struct in Hr. apply andb_true_iff in Hr. destruct Hr as [Hall Hcnt].
    pose proof (wf_struct_names _ (proj1 Hb)) as Hd'. pose proof (wf_struct_names _ (proj1 Hc)) as Hd''.
    rewrite forallb_forall in Hall. split; [|split].
    - intros m'' Hm''. destruct (struct_cover ms' ms'' Hd' Hd'' Hcnt m'' Hm'') as (m' & Hm' & He).
      exists m'. split; [exact Hm'|]. split; [exact He|]. specialize (Hall m' Hm').
      assert (Hf : find_member (fst m') ms'' = Some (snd m'')).
      { apply find_member_in; [exact Hd''|]. rewrite He. destruct m''; exact Hm''. }
      rewrite Hf in Hall. destruct (snd m'') as [k'' v'']. cbn [fst snd]. apply andb_true_iff in Hall. exact Hall.
    - unfold struct_required, zlen. apply inj_le. apply count_le; [exact Hd'|].
      intros m' Hm' Hreq. specialize (Hall m' Hm'). destruct (find_member (fst m') ms'') as [[k'' v'']|] eqn:Ef.
      + apply find_member_some in Ef. exists (fst m', (k'', v'')). split; [exact Ef|]. split; [reflexivity|]. cbn [fst snd].
        apply andb_true_iff in Hall. destruct Hall as [Hk _]. unfold key_optional in *.
        destruct (nullable k'') eqn:En; [|reflexivity].
        pose proof (gd_struct_k _ _ Hc Ef) as [_ Hnu]. cbn [fst snd] in Hnu.
        rewrite (nullable_mono rx false k'' Hnu _ Hk En) in Hreq. discriminate.
      + rewrite Hall in Hreq. discriminate.
    - apply Z.eqb_eq in Hcnt. rewrite <- Hcnt. unfold zlen. apply inj_le. apply filter_length_le'.
  Qed.

  Lemma core_struct ms' a c : IHn (tsize a + tsize (TStruct ms') + tsize c) ->
    gd a -> gd (TStruct ms') -> gd c -> rcv a = true ->
    recv a (TStruct ms') = true -> recv (TStruct ms') c = true -> recv a c = true.
  Proof.
    intros IH Ha Hb Hc Ra Hab Hbc.
    destruct c as [| | | | | | | | | | | | | | | | | | | | |ms''| | | | | |]; try discriminate Hbc.
    destruct (struct_sub ms' ms'' Hb Hc Hbc) as (Hcov2 & Hreq & Hlen).
    pose proof (wf_struct_names _ (proj1 Hb)) as Hd'. pose proof (wf_struct_names _ (proj1 Hc)) as Hd''.
    destruct a as [| | | | | | | | | | | | |ci vs|rxs| | |lo hi| |k v lo hi| |ms| | | | | |]; try discriminate; rsimpl Hab; try discriminate Hab.
    - destruct vs; discriminate.
    - destruct rxs; discriminate.
    - (* Collection *) cbn [LatticeUnfold.recv]. unfold size_sub in *. lia.
    - (* Hash *) apply andb_true_iff in Hab. destruct Hab as [Hs1 Hab]. destruct (gd_hash _ _ _ _ Ha) as [Hgk Hgv].
      cbn [LatticeUnfold.recv]. apply andb_true_iff. split; [unfold size_sub in *; lia|].
      rewrite forallb_forall in Hab |- *. intros m'' Hm''. destruct (Hcov2 m'' Hm'') as (m' & Hm' & He & _ & Hv2).
      specialize (Hab m' Hm'). apply andb_true_iff in Hab. destruct Hab as [Hk1 Hv1].
      destruct (wf_struct_member _ _ (proj1 Hb) Hm') as [Hko' _].
      destruct (wf_struct_member _ _ (proj1 Hc) Hm'') as [Hko'' _].
      rewrite (key_ok_actual _ _ Hko') in Hk1. rewrite (key_ok_actual _ _ Hko''), <- He, Hk1. cbn [andb].
      pose proof (tsize_member _ _ Hm') as Hs'. pose proof (tsize_member _ _ Hm'') as Hs''.
      exact (IH v (snd (snd m')) (snd (snd m'')) ltac:(sz) Hgv (gd_struct_v _ _ Hb Hm') (gd_struct_v _ _ Hc Hm'') Hv1 Hv2).
    - (* Struct *) change (recv (TStruct ms) (TStruct ms') = true) in Hab. rewrite recv_struct_struct in Hab |- *. apply andb_true_iff in Hab. destruct Hab as [Hall1 Hcnt1].
      pose proof (wf_struct_names _ (proj1 Ha)) as Hd. rewrite forallb_forall in Hall1.
      rewrite recv_struct_struct in Hbc. apply andb_true_iff in Hbc. destruct Hbc as [Hall2 Hcnt2]. rewrite forallb_forall in Hall2.
      apply andb_true_iff. split.
      + apply forallb_forall. intros m Hm. specialize (Hall1 m Hm). pose proof (tsize_member _ _ Hm) as Hs.
        destruct (find_member (fst m) ms'') as [[k'' v'']|] eqn:Ef''.
        * apply find_member_some in Ef''. destruct (Hcov2 _ Ef'') as (m' & Hm' & He & Hk2 & Hv2). cbn [fst snd] in He, Hk2, Hv2.
          assert (Hf' : find_member (fst m) ms' = Some (snd m')).
          { apply find_member_in; [exact Hd'|]. rewrite <- He. destruct m'; exact Hm'. }
          rewrite Hf' in Hall1. destruct m' as [n' [k' v']]. cbn [fst snd] in *.
          apply andb_true_iff in Hall1. destruct Hall1 as [Hk1 Hv1].
          pose proof (tsize_member _ _ Hm') as Hs'. pose proof (tsize_member _ _ Ef'') as Hs''. cbn [fst snd] in Hs', Hs''.
          rewrite (IH (fst (snd m)) k' k'' ltac:(sz) (gd_struct_k _ _ Ha Hm) (gd_struct_k _ _ Hb Hm') (gd_struct_k _ _ Hc Ef'') Hk1 Hk2).
          rewrite (IH (snd (snd m)) v' v'' ltac:(sz) (gd_struct_v _ _ Ha Hm) (gd_struct_v _ _ Hb Hm') (gd_struct_v _ _ Hc Ef'') Hv1 Hv2).
          reflexivity.
        * destruct (find_member (fst m) ms') as [[k' v']|] eqn:Ef'; [|exact Hall1].
          apply andb_true_iff in Hall1. destruct Hall1 as [Hk1 _]. apply find_member_some in Ef'.
          specialize (Hall2 _ Ef'). cbn [fst snd] in Hall2. rewrite Ef'' in Hall2.
          pose proof (gd_struct_k _ _ Hb Ef') as [_ Hnu]. cbn [fst snd] in Hnu.
          unfold key_optional in *. apply (nullable_mono rx false k' Hnu _ Hk1 Hall2).
      + apply struct_count; [exact Hd|exact Hd''|]. intros m'' Hm''. destruct (Hcov2 m'' Hm'') as (m' & Hm' & He & _).
        destruct (struct_cover ms ms' Hd Hd' Hcnt1 m' Hm') as (m & Hm & He'). exists m. split; [exact Hm|congruence].
  Qed.

  Lemma core_type t' a c : IHn (tsize a + tsize (TType t') + tsize c) ->
    gd a -> gd (TType t') -> gd c -> rcv a = true ->
    recv a (TType t') = true -> recv (TType t') c = true -> recv a c = true.
  Proof.
    intros IH Ha Hb Hc Ra Hab Hbc. destruct c; try discriminate Hbc. rsimpl Hbc.
    destruct a; try discriminate; rsimpl Hab; try discriminate Hab.
    - destruct vs; discriminate.
    - destruct rxs; discriminate.
    - cbn [LatticeUnfold.recv]. exact (IH a t' c ltac:(sz) (gd_type _ Ha) (gd_type _ Hb) (gd_type _ Hc) Hab Hbc).
  Qed.

  Lemma core_sensitive t' a c : IHn (tsize a + tsize (TSensitive t') + tsize c) ->
    gd a -> gd (TSensitive t') -> gd c -> rcv a = true ->
    recv a (TSensitive t') = true -> recv (TSensitive t') c = true -> recv a c = true.
  Proof.
    intros IH Ha Hb Hc Ra Hab Hbc. destruct c; try discriminate Hbc. rsimpl Hbc.
    destruct a; try discriminate; rsimpl Hab; try discriminate Hab.
    - destruct vs; discriminate.
    - destruct rxs; discriminate.
    - cbn [LatticeUnfold.recv]. exact (IH a t' c ltac:(sz) (gd_sensitive _ Ha) (gd_sensitive _ Hb) (gd_sensitive _ Hc) Hab Hbc).
  Qed.
End Coll.
