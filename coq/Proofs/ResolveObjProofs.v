(* ResolveObjProofs.v — lemmas about Model/ResolveObj.v: the override check of Object members never reaches its
   unchecked type assertion and computes the reading "kind of member, then final, then override"; the parameter
   walk of a parameterized Object type never indexes beyond the arguments, reads exactly the first n arguments
   and ignores the surplus.  The two seeded variants (final first; walk over the arguments) do reach a fault. *)
From Coq Require Import Arith Bool List Lia.
From PcoreV Require Import Model.ResolveObj.
Import ListNotations.

(* ---- override check ------------------------------------------------------------------------------------- *)

Definition is_attr (m : member) : bool := match mb_feature m with FAttribute => true | FFunction => false end.

(* the reading of annotatedmember.go:88-101 without type assertions *)
Definition can_be_overridden_spec (a m : member) : ores :=
  if negb (feature_eqb (mb_feature a) (mb_feature m)) then OErr MemberMismatch
  else if mb_final a && negb (is_attr a && mb_constant a && mb_constant m) then OErr OverrideOfFinal
  else if negb (mb_override m) then OErr OverrideIsMissing
  else OPass.

Lemma assert_can_be_overridden_reading a m :
  assert_can_be_overridden a m = can_be_overridden_spec a m.
Proof.
  destruct a as [fa ca fina ova], m as [fm cm finm ovm].
  destruct fa, fm, ca, cm, fina, ovm; reflexivity.
Qed.

Lemma can_be_overridden_spec_no_fault a m : can_be_overridden_spec a m <> OFault.
Proof.
  unfold can_be_overridden_spec.
  destruct (negb (feature_eqb (mb_feature a) (mb_feature m))); [discriminate|].
  destruct (mb_final a && negb (is_attr a && mb_constant a && mb_constant m)); [discriminate|].
  destruct (negb (mb_override m)); discriminate.
Qed.

Lemma assert_can_be_overridden_no_fault a m : assert_can_be_overridden a m <> OFault.
Proof. rewrite assert_can_be_overridden_reading. apply can_be_overridden_spec_no_fault. Qed.

Lemma assert_override_no_fault p m : assert_override p m <> OFault.
Proof.
  destruct p as [a|]; cbn [assert_override].
  - apply assert_can_be_overridden_no_fault.
  - destruct (mb_override m); discriminate.
Qed.

Lemma declare_no_fault p d : declare p d <> OFault.
Proof.
  unfold declare. destruct p as [pd|].
  - destruct (member_of_decl false pd) as [a|c]; [|discriminate].
    destruct (member_of_decl true d) as [m|c]; [|discriminate].
    apply assert_override_no_fault.
  - destruct (member_of_decl false d) as [m|c]; [|discriminate].
    apply assert_override_no_fault.
Qed.

(* a constant is final (attribute.go:45), whatever the declaration says *)
Lemma member_of_decl_constant_final ph d m :
  member_of_decl ph d = inl m -> mb_constant m = true -> mb_final m = true.
Proof.
  destruct d as [k fg ov| |f ov]; cbn [member_of_decl].
  - destruct k; [destruct fg as [[|]|]|]; intros H; inversion H; subst; cbn; auto; discriminate.
  - intros H; inversion H; subst; cbn; auto.
  - intros H; inversion H; subst; cbn; discriminate.
Qed.

(* a function under the name of an inherited constant (the inputs of seeded change C06-m5): rejected for the kind
   of member, for every way of writing the two declarations *)
Lemma function_over_constant ph1 ph2 pd f ov a m :
  member_of_decl ph1 pd = inl a -> mb_constant a = true -> mb_feature a = FAttribute ->
  member_of_decl ph2 (DcFunc f ov) = inl m ->
  assert_can_be_overridden a m = OErr MemberMismatch.
Proof.
  intros Ha Hc Hf Hm. cbn [member_of_decl] in Hm. inversion Hm; subst m.
  unfold assert_can_be_overridden. rewrite Hf. reflexivity.
Qed.

(* with the two leading tests in the other order the assertion is reached *)
Lemma final_first_faults :
  exists a m, final_first a m = OFault /\ assert_can_be_overridden a m = OErr MemberMismatch.
Proof.
  exists (mkMember FAttribute true true false), (mkMember FFunction false false false).
  split; reflexivity.
Qed.

Lemma final_first_same_feature a m :
  feature_eqb (mb_feature a) (mb_feature m) = true -> final_first a m = assert_can_be_overridden a m.
Proof.
  destruct a as [fa ca fina ova], m as [fm cm finm ovm].
  destruct fa, fm, ca, cm, fina, ovm; cbn; intros H; try reflexivity; discriminate.
Qed.

(* ---- parameter walk --------------------------------------------------------------------------------------- *)

Fixpoint pos_spec (idx : nat) (l : list parg) (acc : list nat) : xres :=
  match l with
  | [] => XOk acc
  | PgDefault :: r => pos_spec (S idx) r acc
  | PgGood :: r => pos_spec (S idx) r (acc ++ [idx])
  | PgBad :: _ => XErr ParamTypeMismatch
  end.

Lemma skipn_nth_cons {A} (l : list A) i x :
  nth_error l i = Some x -> skipn i l = x :: skipn (S i) l.
Proof.
  revert l; induction i as [|i IH]; intros [|y l] H; cbn in H; try discriminate.
  - inversion H; reflexivity.
  - cbn [skipn]. rewrite (IH l H). reflexivity.
Qed.

Lemma pos_loop_reading todo : forall idx args acc,
  pos_loop todo idx args acc = pos_spec idx (firstn todo (skipn idx args)) acc.
Proof.
  induction todo as [|todo IH]; intros idx args acc.
  - reflexivity.
  - cbn [pos_loop]. destruct (idx <? length args) eqn:E.
    + apply Nat.ltb_lt in E.
      destruct (nth_error args idx) as [x|] eqn:N.
      * rewrite (skipn_nth_cons _ _ _ N). cbn [firstn pos_spec].
        destruct x; [apply IH | apply IH | reflexivity].
      * apply nth_error_None in N. lia.
    + apply Nat.ltb_ge in E.
      rewrite IH.
      rewrite (skipn_all2 args) by lia. rewrite (skipn_all2 args) by lia.
      rewrite !firstn_nil. reflexivity.
Qed.

Lemma pos_spec_no_fault l : forall idx acc, pos_spec idx l acc <> XFault.
Proof.
  induction l as [|x l IH]; intros idx acc; cbn [pos_spec]; [discriminate|].
  destruct x; [apply IH | apply IH | discriminate].
Qed.

Lemma pos_loop_no_fault todo idx args acc : pos_loop todo idx args acc <> XFault.
Proof. rewrite pos_loop_reading. apply pos_spec_no_fault. Qed.

Lemma named_loop_no_fault es : forall acc, named_loop es acc <> XFault.
Proof.
  induction es as [|[[i|] v] es IH]; intros acc; cbn [named_loop]; try discriminate.
  destruct v; [apply IH | apply IH | discriminate].
Qed.

Lemma ext_initialize_no_fault n args : ext_initialize n args <> XFault.
Proof.
  unfold ext_initialize. destruct (n =? 0); [discriminate|].
  destruct args as [l|es].
  - pose proof (pos_loop_no_fault n 0 l []) as H.
    destruct (pos_loop n 0 l []) as [[|s ss]|c|]; try discriminate. contradiction.
  - pose proof (named_loop_no_fault es []) as H.
    destruct (named_loop es []) as [[|s ss]|c|]; try discriminate. contradiction.
Qed.

Definition finish (r : xres) : xres := match r with XOk [] => XErr EmptyParameterList | _ => r end.

Lemma ext_initialize_positional n l :
  n <> 0 -> ext_initialize n (XPositional l) = finish (pos_spec 0 (firstn n l) []).
Proof.
  intros Hn. unfold ext_initialize. apply Nat.eqb_neq in Hn. rewrite Hn.
  rewrite pos_loop_reading. cbn [skipn]. reflexivity.
Qed.

(* arguments beyond the number of parameters are not looked at *)
Lemma ext_initialize_surplus n l extra :
  n <= length l -> ext_initialize n (XPositional (l ++ extra)) = ext_initialize n (XPositional l).
Proof.
  intros Hle. destruct (Nat.eq_dec n 0) as [->|Hn]; [reflexivity|].
  rewrite !ext_initialize_positional by assumption.
  rewrite firstn_app. replace (n - length l) with 0 by lia. cbn [firstn]. rewrite app_nil_r. reflexivity.
Qed.

(* the walk over the arguments (seeded change C06-m6) agrees as long as there are no more arguments than parameters
   and faults on the first surplus argument *)
Lemma pos_loop_args_within n l : forall idx acc,
  idx + length l <= n -> pos_loop_args n idx l acc = pos_spec idx l acc.
Proof.
  induction l as [|x l IH]; intros idx acc H; cbn [pos_loop_args pos_spec]; [reflexivity|].
  cbn [length] in H.
  assert (E : (idx <? n) = true) by (apply Nat.ltb_lt; lia). rewrite E.
  destruct x; [apply IH; lia | apply IH; lia | reflexivity].
Qed.

Lemma pos_loop_args_agrees n l :
  length l <= n -> pos_loop_args n 0 l [] = pos_loop n 0 l [].
Proof.
  intros H. rewrite pos_loop_args_within by (cbn; lia).
  rewrite pos_loop_reading. cbn [skipn]. rewrite firstn_all2 by assumption. reflexivity.
Qed.

Lemma pos_loop_args_faults :
  exists n l, pos_loop_args n 0 l [] = XFault /\ pos_loop n 0 l [] = XOk [0].
Proof. exists 1, [PgGood; PgGood]. split; reflexivity. Qed.
