(* CtxRegProofs.v — lemmas about Model/CtxReg.v: the implementation registry as a chain of levels with live
   references.  A lookup through a level is what the levels of its chain hold NOW (rlook_is_chain); the chain of a
   level never changes (hrun_chain_fixed); what an ancestor finds every descendant finds (ancestor_wins); a
   registration reaches every descendant (register_reaches) and nobody else (step_changes_only_descendants); a fork
   that registers nothing finds at every later time exactly what its parent finds then (fork_tracks_parent). *)
From Coq Require Import ZArith NArith Bool List Lia.
From PcoreV Require Import Model.Base Model.Ctx Model.CtxReg Proofs.CtxProofs.
Import ListNotations.
Local Open Scope nat_scope.

(* ---- association lists -------------------------------------------------------------------------------------------- *)
Lemma aget_aset_same {A} k (v : A) l : aget k (aset k v l) = Some v.
Proof. unfold aset. cbn [aget]. now rewrite N.eqb_refl. Qed.

(* ---- first_held -------------------------------------------------------------------------------------------------- *)
Lemma first_held_app {A} (own : rlevel -> option A) rh a b :
  first_held own rh (a ++ b) =
  match first_held own rh a with RFound x => RFound x | RMissing => first_held own rh b | RStuck => RStuck end.
Proof.
  induction a as [|x a IH]; cbn [app first_held]; [reflexivity|].
  destruct (nth_error rh x) as [lv|]; [|reflexivity].
  destruct (own lv); [reflexivity|exact IH].
Qed.

Lemma first_held_ext {A} (own : rlevel -> option A) rh1 rh2 ls :
  (forall a, In a ls -> nth_error rh1 a = nth_error rh2 a) -> first_held own rh1 ls = first_held own rh2 ls.
Proof.
  induction ls as [|x ls IH]; intros H; cbn [first_held]; [reflexivity|].
  rewrite (H x (or_introl eq_refl)).
  destruct (nth_error rh2 x) as [lv|]; [|reflexivity].
  destruct (own lv); [reflexivity|]. apply IH. intros a Ha. apply H. now right.
Qed.

(* ---- a lookup is what the chain holds now ------------------------------------------------------------------------ *)
Lemma rlook_is_chain_fuel {A} (own : rlevel -> option A) rh : forall f l,
  rlook own f rh l = match chain f rh l with Some ls => first_held own rh ls | None => RStuck end.
Proof.
  induction f as [|f IH]; intros l; cbn [rlook chain]; [reflexivity|].
  destruct (nth_error rh l) as [lv|] eqn:E; [|reflexivity].
  destruct (rl_parent lv) as [p|].
  - rewrite IH. destruct (chain f rh p) as [ls|]; [|reflexivity].
    rewrite first_held_app. cbn [first_held]. rewrite E.
    destruct (first_held own rh ls); try reflexivity; now destruct (own lv).
  - cbn [first_held]. rewrite E. now destruct (own lv).
Qed.

Lemma rlook_is_chain {A} (own : rlevel -> option A) rh l :
  rlook own (S (length rh)) rh l = match chain_of rh l with Some ls => first_held own rh ls | None => RStuck end.
Proof. apply rlook_is_chain_fuel. Qed.

(* ---- chains -------------------------------------------------------------------------------------------------------- *)
Definition rwf (rh : list rlevel) : Prop :=
  forall l lv p, nth_error rh l = Some lv -> rl_parent lv = Some p -> p < l.

Lemma chain_mono rh : forall f l ls, chain f rh l = Some ls -> forall f2, f <= f2 -> chain f2 rh l = Some ls.
Proof.
  induction f as [|f IH]; intros l ls H f2 Hle; [discriminate|].
  destruct f2 as [|f2]; [lia|]. cbn [chain] in *.
  destruct (nth_error rh l) as [lv|]; [|discriminate].
  destruct (rl_parent lv) as [p|]; [|exact H].
  destruct (chain f rh p) as [lp|] eqn:E; [|discriminate].
  rewrite (IH p lp E f2) by lia. exact H.
Qed.

Lemma chain_exists rh : rwf rh -> forall f l, l < f -> l < length rh ->
  exists ls, chain f rh l = Some ls /\ (forall a, In a ls -> a <= l).
Proof.
  intros W. induction f as [|f IH]; intros l Hf Hl; [lia|]. cbn [chain].
  destruct (nth_error rh l) as [lv|] eqn:E; [|apply nth_error_None in E; lia].
  destruct (rl_parent lv) as [p|] eqn:P.
  - pose proof (W l lv p E P) as Hp.
    destruct (IH p) as [lp [Hc Hb]]; [lia|lia|]. rewrite Hc. eexists; split; [reflexivity|].
    intros a Ha. apply in_app_or in Ha. destruct Ha as [Ha|[Ha|[]]]; [apply Hb in Ha; lia|lia].
  - eexists; split; [reflexivity|]. intros a [Ha|[]]. lia.
Qed.

Lemma chain_of_exists rh l : rwf rh -> l < length rh ->
  exists ls, chain_of rh l = Some ls /\ (forall a, In a ls -> a <= l).
Proof. intros W Hl. apply chain_exists; [exact W|lia|exact Hl]. Qed.

(* the chain ends with the level itself; the levels before it are older *)
Lemma chain_last rh : rwf rh -> forall f l ls, chain f rh l = Some ls ->
  exists pre, ls = pre ++ [l] /\ (forall a, In a pre -> a < l).
Proof.
  intros W. induction f as [|f IH]; intros l ls H; [discriminate|]. cbn [chain] in H.
  destruct (nth_error rh l) as [lv|] eqn:E; [|discriminate].
  destruct (rl_parent lv) as [p|] eqn:P.
  - destruct (chain f rh p) as [lp|] eqn:C; [|discriminate]. injection H as <-.
    exists lp. split; [reflexivity|]. intros a Ha.
    destruct (IH p lp C) as [pre [-> Hpre]]. pose proof (W l lv p E P).
    apply in_app_or in Ha. destruct Ha as [Ha|[Ha|[]]]; [apply Hpre in Ha; lia|lia].
  - injection H as <-. exists []. split; [reflexivity|]. intros a [].
Qed.

(* the chain of a member of a chain is a prefix of it *)
Lemma chain_prefix rh : forall f l ls a, chain f rh l = Some ls -> In a ls ->
  exists la tl, chain f rh a = Some la /\ ls = la ++ tl.
Proof.
  induction f as [|f IH]; intros l ls a H Ha; [discriminate|].
  pose proof H as H0. cbn [chain] in H.
  destruct (nth_error rh l) as [lv|] eqn:E; [|discriminate].
  destruct (rl_parent lv) as [p|] eqn:P.
  - destruct (chain f rh p) as [lp|] eqn:C; [|discriminate]. injection H as <-.
    apply in_app_or in Ha. destruct Ha as [Ha|[Ha|[]]].
    + destruct (IH p lp a C Ha) as [la [tl [Hc ->]]].
      exists la, (tl ++ [l]). split; [apply (chain_mono rh f a la Hc); lia|now rewrite app_assoc].
    + subst a. exists (lp ++ [l]), []. split; [exact H0|now rewrite app_nil_r].
  - injection H as <-. destruct Ha as [<-|[]]. exists [l], []. split; [exact H0|reflexivity].
Qed.

Lemma chain_snoc rh lv : rwf rh -> forall f l, l < length rh -> chain f (rh ++ [lv]) l = chain f rh l.
Proof.
  intros W. induction f as [|f IH]; intros l Hl; [reflexivity|]. cbn [chain].
  rewrite nth_error_snoc_lt by exact Hl.
  destruct (nth_error rh l) as [x|] eqn:E; [|reflexivity].
  destruct (rl_parent x) as [p|] eqn:P; [|reflexivity].
  pose proof (W l x p E P). rewrite IH by lia. reflexivity.
Qed.

Lemma chain_upd rh a lv lv' : nth_error rh a = Some lv -> rl_parent lv' = rl_parent lv ->
  forall f l, chain f (upd a lv' rh) l = chain f rh l.
Proof.
  intros Ea Hp. induction f as [|f IH]; intros l; [reflexivity|]. cbn [chain].
  destruct (Nat.eq_dec a l) as [->|Hne].
  - rewrite nth_error_upd_same by (eapply nth_error_lt; exact Ea). rewrite Ea, Hp.
    destruct (rl_parent lv); [now rewrite IH|reflexivity].
  - rewrite nth_error_upd_other by exact Hne.
    destruct (nth_error rh l) as [x|]; [|reflexivity].
    destruct (rl_parent x); [now rewrite IH|reflexivity].
Qed.

Lemma chain_of_snoc rh lv l : rwf rh -> l < length rh -> chain_of (rh ++ [lv]) l = chain_of rh l.
Proof.
  intros W Hl. unfold chain_of. rewrite chain_snoc by assumption.
  destruct (chain_of_exists rh l W Hl) as [ls [Hc _]]. unfold chain_of in Hc. rewrite Hc.
  apply (chain_mono rh _ _ _ Hc). rewrite app_length. cbn. lia.
Qed.

Lemma chain_of_upd rh a lv lv' l : nth_error rh a = Some lv -> rl_parent lv' = rl_parent lv ->
  chain_of (upd a lv' rh) l = chain_of rh l.
Proof. intros Ea Hp. unfold chain_of. rewrite upd_length. now apply chain_upd with (lv := lv). Qed.

(* ---- lookups: never stuck, independent of spare fuel, of younger levels --------------------------------------------- *)
Lemma first_held_not_stuck {A} (own : rlevel -> option A) rh ls :
  (forall a, In a ls -> a < length rh) -> first_held own rh ls <> RStuck.
Proof.
  induction ls as [|x ls IH]; intros H; cbn [first_held]; [discriminate|].
  destruct (nth_error rh x) as [lv|] eqn:E.
  - destruct (own lv); [discriminate|]. apply IH. intros a Ha. apply H. now right.
  - apply nth_error_None in E. specialize (H x (or_introl eq_refl)). lia.
Qed.

Lemma rlook_not_stuck {A} (own : rlevel -> option A) rh f l :
  rwf rh -> l < f -> l < length rh -> rlook own f rh l <> RStuck.
Proof.
  intros W Hf Hl. rewrite rlook_is_chain_fuel.
  destruct (chain_exists rh W f l Hf Hl) as [ls [-> Hb]].
  apply first_held_not_stuck. intros a Ha. apply Hb in Ha. lia.
Qed.

Lemma rlook_fuel {A} (own : rlevel -> option A) rh f1 f2 l :
  rwf rh -> l < length rh -> l < f1 -> l < f2 -> rlook own f1 rh l = rlook own f2 rh l.
Proof.
  intros W Hl H1 H2. rewrite !rlook_is_chain_fuel.
  destruct (chain_exists rh W (S l) l) as [ls [Hc _]]; [lia|exact Hl|].
  rewrite (chain_mono rh _ _ _ Hc f1) by lia. rewrite (chain_mono rh _ _ _ Hc f2) by lia. reflexivity.
Qed.

(* what an ancestor finds, every descendant finds: the parent is asked first *)
Lemma ancestor_wins {A} (own : rlevel -> option A) rh l ls a v :
  chain_of rh l = Some ls -> In a ls ->
  rlook own (S (length rh)) rh a = RFound v -> rlook own (S (length rh)) rh l = RFound v.
Proof.
  intros Hc Ha Hv. rewrite rlook_is_chain in *. rewrite Hc.
  destruct (chain_prefix rh _ l ls a Hc Ha) as [la [tl [Hca ->]]].
  unfold chain_of in Hv. rewrite Hca in Hv. rewrite first_held_app, Hv. reflexivity.
Qed.

(* ---- the invariant of histories -------------------------------------------------------------------------------------- *)
Record rinv (st : rstate) : Prop := {
  inv_wf : rwf (s_rh st);
  inv_top : 2 <= length (s_rh st);
  inv_cx : forall c x, nth_error (s_cx st) c = Some x -> x_reg x < length (s_rh st);
  inv_inj : forall c d x y, nth_error (s_cx st) c = Some x -> nth_error (s_cx st) d = Some y ->
                            x_reg x = x_reg y -> c = d }.

Lemma rwf_snoc rh par : rwf rh -> (forall p, par = Some p -> p < length rh) ->
  rwf (rh ++ [{| rl_parent := par; rl_r2t := []; rl_t2r := [] |}]).
Proof.
  intros W Hp l lv p E P.
  destruct (Nat.lt_ge_cases l (length rh)) as [Hl|Hl].
  - rewrite nth_error_snoc_lt in E by exact Hl. exact (W l lv p E P).
  - assert (l = length rh) as ->.
    { apply nth_error_lt in E. rewrite app_length in E. cbn in E. lia. }
    rewrite nth_error_snoc_eq in E. injection E as <-. cbn in P. now apply Hp.
Qed.

Lemma rwf_upd rh a lv lv' : rwf rh -> nth_error rh a = Some lv -> rl_parent lv' = rl_parent lv -> rwf (upd a lv' rh).
Proof.
  intros W Ea Hp l x p E P. destruct (Nat.eq_dec a l) as [->|Hne].
  - rewrite nth_error_upd_same in E by (eapply nth_error_lt; exact Ea). injection E as <-.
    rewrite Hp in P. exact (W l lv p Ea P).
  - rewrite nth_error_upd_other in E by exact Hne. exact (W l x p E P).
Qed.

Lemma init_rinv : rinv init_rstate.
Proof.
  split; cbn.
  - intros l lv p E P. destruct l as [|[|l]]; cbn in E; try (injection E as <-; cbn in P); try discriminate.
    + injection P as <-. lia.
    + destruct l; discriminate.
  - lia.
  - intros c x E. destruct c; discriminate.
  - intros c d x y E. destruct c; discriminate.
Qed.

(* a new context on a new youngest level *)
Lemma rinv_add st rh lh x :
  rwf rh -> length (s_rh st) <= x_reg x -> x_reg x < length rh -> length (s_rh st) <= length rh -> rinv st ->
  rinv (add_ctx st rh lh x).
Proof.
  intros W Hge Hlt Hlen I. split; cbn [add_ctx s_rh s_cx].
  - exact W.
  - pose proof (inv_top st I). lia.
  - intros c y E. destruct (Nat.lt_ge_cases c (length (s_cx st))) as [Hc|Hc].
    + rewrite nth_error_snoc_lt in E by exact Hc. pose proof (inv_cx st I c y E). lia.
    + assert (c = length (s_cx st)) as ->.
      { apply nth_error_lt in E. rewrite app_length in E. cbn in E. lia. }
      rewrite nth_error_snoc_eq in E. injection E as <-. exact Hlt.
  - intros c d y z Ec Ed Heq.
    assert (forall k w, nth_error (s_cx st ++ [x]) k = Some w ->
                        (k < length (s_cx st) /\ nth_error (s_cx st) k = Some w) \/ (k = length (s_cx st) /\ w = x)) as Split.
    { intros k w E. destruct (Nat.lt_ge_cases k (length (s_cx st))) as [Hk|Hk].
      - left. rewrite nth_error_snoc_lt in E by exact Hk. now split.
      - right. assert (k = length (s_cx st)) as ->.
        { apply nth_error_lt in E. rewrite app_length in E. cbn in E. lia. }
        rewrite nth_error_snoc_eq in E. injection E as <-. now split. }
    destruct (Split c y Ec) as [[Hc Ec']|[-> ->]]; destruct (Split d z Ed) as [[Hd Ed']|[-> ->]].
    + exact (inv_inj st I c d y z Ec' Ed' Heq).
    + pose proof (inv_cx st I c y Ec'). lia.
    + pose proof (inv_cx st I d z Ed'). lia.
    + reflexivity.
Qed.

Lemma hstep_rinv st o : rinv st -> rinv (fst (hstep st o)).
Proof.
  intros I. pose proof (inv_wf st I) as W. pose proof (inv_top st I) as T.
  destruct o as [| |c|cr cl|c t g|c n v|c]; cbn [hstep new_level new_loader].
  - (* HNew *)
    cbn [fst]. apply rinv_add; cbn [x_reg]; rewrite ?app_length; cbn [length]; try lia; [|exact I].
    apply rwf_snoc; [apply rwf_snoc; [exact W|discriminate]|].
    intros p [= <-]. rewrite app_length. cbn. lia.
  - (* HDo *)
    cbn [fst]. apply rinv_add; cbn [x_reg]; rewrite ?app_length; cbn [length]; try lia; [|exact I].
    apply rwf_snoc; [apply rwf_snoc; [exact W|]|].
    + intros p [= <-]. unfold top_registry. lia.
    + intros p [= <-]. rewrite app_length. cbn. lia.
  - (* HFork *)
    destruct (nth_error (s_cx st) c) as [x|] eqn:E; [|exact I]. cbn [fst].
    apply rinv_add; cbn [x_reg]; rewrite ?app_length; cbn [length]; try lia; [|exact I].
    apply rwf_snoc; [exact W|]. intros p [= <-]. exact (inv_cx st I c x E).
  - (* HWith *)
    destruct (nth_error (s_cx st) cr) as [xr|] eqn:Er; [|exact I].
    destruct (nth_error (s_cx st) cl) as [xl|] eqn:El; [|exact I]. cbn [fst].
    apply rinv_add; cbn [x_reg]; rewrite ?app_length; cbn [length]; try lia; [|exact I].
    apply rwf_snoc; [exact W|]. intros p [= <-]. exact (inv_cx st I cr xr Er).
  - (* HRegister *)
    destruct (nth_error (s_cx st) c) as [x|] eqn:E; [|exact I].
    destruct (nth_error (s_rh st) (x_reg x)) as [lv|] eqn:El; [|exact I].
    destruct (assert_unregistered (s_rh st) (x_reg x) t g); [|exact I]. cbn [fst].
    split; cbn [s_rh s_cx]; rewrite ?upd_length.
    + apply rwf_upd with (lv := lv); [exact W|exact El|reflexivity].
    + exact T.
    + exact (inv_cx st I).
    + exact (inv_inj st I).
  - (* HDefine *)
    destruct (nth_error (s_cx st) c) as [x|] eqn:E; [|exact I].
    destruct (nth_error (s_lh st) (x_ldr x)) as [ld|]; [|exact I].
    destruct (set_entry n v ld); [|exact I]. cbn [fst].
    split; cbn [s_rh s_cx]; [exact W|exact T|exact (inv_cx st I)|exact (inv_inj st I)].
  - destruct (nth_error (s_cx st) c); exact I.
Qed.

Lemma hrun_from_fst st o os : fst (hrun_from st (o :: os)) = fst (hrun_from (fst (hstep st o)) os).
Proof.
  cbn [hrun_from]. destruct (hstep st o) as [st1 r]. cbn [fst].
  destruct (hrun_from st1 os) as [st2 rs]. reflexivity.
Qed.

Lemma hrun_from_rinv os : forall st, rinv st -> rinv (fst (hrun_from st os)).
Proof.
  induction os as [|o os IH]; intros st I; [exact I|].
  rewrite hrun_from_fst. apply IH. now apply hstep_rinv.
Qed.

Lemma hfinal_rinv os : rinv (hfinal os).
Proof. apply hrun_from_rinv. exact init_rinv. Qed.

(* ---- what a step does to the levels ---------------------------------------------------------------------------------- *)
(* the heap after a step: the old levels with at most one of them - the level of the context through which a
   registration was made - given new tables, followed by new levels *)
Inductive heap_step (st : rstate) (o : hop) (rh' : list rlevel) : Prop :=
| HS_grow (ext : list rlevel) : rh' = s_rh st ++ ext -> (forall c t g, o <> HRegister c t g) -> heap_step st o rh'
| HS_reg c t g x lv : o = HRegister c t g -> nth_error (s_cx st) c = Some x -> nth_error (s_rh st) (x_reg x) = Some lv ->
                      assert_unregistered (s_rh st) (x_reg x) t g = true ->
                      rh' = upd (x_reg x) (add_mapping t g lv) (s_rh st) -> heap_step st o rh'
| HS_same : rh' = s_rh st -> heap_step st o rh'.

Lemma hstep_heap st o : heap_step st o (s_rh (fst (hstep st o))).
Proof.
  destruct o as [| |c|cr cl|c t g|c n v|c]; cbn [hstep new_level new_loader].
  - cbn [fst add_ctx s_rh]. rewrite <- app_assoc. eapply HS_grow; [reflexivity|discriminate].
  - cbn [fst add_ctx s_rh]. rewrite <- app_assoc. eapply HS_grow; [reflexivity|discriminate].
  - destruct (nth_error (s_cx st) c); [|now apply HS_same]. cbn [fst add_ctx s_rh].
    eapply HS_grow; [reflexivity|discriminate].
  - destruct (nth_error (s_cx st) cr); [|now apply HS_same].
    destruct (nth_error (s_cx st) cl); [|now apply HS_same]. cbn [fst add_ctx s_rh].
    eapply HS_grow; [reflexivity|discriminate].
  - destruct (nth_error (s_cx st) c) as [x|] eqn:E; [|now apply HS_same].
    destruct (nth_error (s_rh st) (x_reg x)) as [lv|] eqn:El; [|now apply HS_same].
    destruct (assert_unregistered (s_rh st) (x_reg x) t g) eqn:EA; [|now apply HS_same].
    cbn [fst s_rh]. eapply HS_reg; eauto.
  - destruct (nth_error (s_cx st) c) as [x|]; [|now apply HS_same].
    destruct (nth_error (s_lh st) (x_ldr x)) as [ld|]; [|now apply HS_same].
    destruct (set_entry n v ld); now apply HS_same.
  - destruct (nth_error (s_cx st) c); now apply HS_same.
Qed.

Lemma nth_error_app_lt {A} (l e : list A) j : j < length l -> nth_error (l ++ e) j = nth_error l j.
Proof. intros H. now apply nth_error_app1. Qed.

Lemma rwf_app_chain rh ext : rwf rh -> forall f l, l < length rh -> chain f (rh ++ ext) l = chain f rh l.
Proof.
  intros W. induction f as [|f IH]; intros l Hl; [reflexivity|]. cbn [chain].
  rewrite nth_error_app_lt by exact Hl.
  destruct (nth_error rh l) as [x|] eqn:E; [|reflexivity].
  destruct (rl_parent x) as [p|] eqn:P; [|reflexivity].
  pose proof (W l x p E P). rewrite IH by lia. reflexivity.
Qed.

Lemma chain_of_app rh ext l : rwf rh -> l < length rh -> chain_of (rh ++ ext) l = chain_of rh l.
Proof.
  intros W Hl. unfold chain_of. rewrite rwf_app_chain by assumption.
  destruct (chain_of_exists rh l W Hl) as [ls [Hc _]]. unfold chain_of in Hc. rewrite Hc.
  apply (chain_mono rh _ _ _ Hc). rewrite app_length. lia.
Qed.

Lemma hstep_len st o : length (s_rh st) <= length (s_rh (fst (hstep st o))).
Proof.
  destruct (hstep_heap st o) as [ext -> _|c t g x lv _ _ _ _ ->| ->]; rewrite ?app_length, ?upd_length; lia.
Qed.

(* the chain of an existing level is fixed for ever *)
Lemma hstep_chain_fixed st o l : rinv st -> l < length (s_rh st) ->
  chain_of (s_rh (fst (hstep st o))) l = chain_of (s_rh st) l.
Proof.
  intros I Hl. destruct (hstep_heap st o) as [ext -> _|c t g x lv _ _ El _ ->| ->].
  - apply chain_of_app; [exact (inv_wf st I)|exact Hl].
  - now apply chain_of_upd with (lv := lv).
  - reflexivity.
Qed.

Lemma hrun_chain_fixed os : forall st l, rinv st -> l < length (s_rh st) ->
  chain_of (s_rh (fst (hrun_from st os))) l = chain_of (s_rh st) l.
Proof.
  induction os as [|o os IH]; intros st l I Hl; [reflexivity|].
  rewrite hrun_from_fst, IH.
  - now apply hstep_chain_fixed.
  - now apply hstep_rinv.
  - pose proof (hstep_len st o). lia.
Qed.

Lemma hstep_cx st o c x : nth_error (s_cx st) c = Some x -> nth_error (s_cx (fst (hstep st o))) c = Some x.
Proof.
  intros E. assert (forall rh lh y, nth_error (s_cx (add_ctx st rh lh y)) c = Some x) as Add.
  { intros. cbn [add_ctx s_cx]. rewrite nth_error_app_lt; [exact E|eapply nth_error_lt; exact E]. }
  destruct o as [| |c'|cr cl|c' t g|c' n v|c']; cbn [hstep new_level new_loader]; try apply Add.
  - destruct (nth_error (s_cx st) c'); [apply Add|exact E].
  - destruct (nth_error (s_cx st) cr); [|exact E]. destruct (nth_error (s_cx st) cl); [apply Add|exact E].
  - destruct (nth_error (s_cx st) c') as [y|]; [|exact E].
    destruct (nth_error (s_rh st) (x_reg y)); [|exact E].
    destruct (assert_unregistered (s_rh st) (x_reg y) t g); exact E.
  - destruct (nth_error (s_cx st) c') as [y|]; [|exact E].
    destruct (nth_error (s_lh st) (x_ldr y)) as [ld|]; [|exact E].
    destruct (set_entry n v ld); exact E.
  - destruct (nth_error (s_cx st) c'); exact E.
Qed.

(* ---- isolation: a step changes what a level finds only if it registers through a context of its chain ---------------- *)
Definition look {A} (own : rlevel -> option A) (st : rstate) (l : raddr) : rres A :=
  rlook own (S (length (s_rh st))) (s_rh st) l.

Lemma step_changes_only_descendants {A} (own : rlevel -> option A) st o l ls :
  rinv st -> chain_of (s_rh st) l = Some ls ->
  (forall c t g x, o = HRegister c t g -> nth_error (s_cx st) c = Some x -> ~ In (x_reg x) ls) ->
  look own (fst (hstep st o)) l = look own st l.
Proof.
  intros I Hc Hout. unfold look. rewrite !rlook_is_chain.
  assert (l < length (s_rh st)) as Hl.
  { unfold chain_of in Hc. cbn [chain] in Hc. destruct (nth_error (s_rh st) l) eqn:E; [|discriminate].
    eapply nth_error_lt; exact E. }
  rewrite (hstep_chain_fixed st o l I Hl), Hc.
  destruct (chain_of_exists _ l (inv_wf st I) Hl) as [ls' [Hc' Hb]]. rewrite Hc in Hc'. injection Hc' as <-.
  apply first_held_ext. intros a Ha.
  destruct (hstep_heap st o) as [ext -> _|c t g x lv -> Ex El _ ->| ->].
  - apply nth_error_app_lt. apply Hb in Ha. lia.
  - apply nth_error_upd_other. intros <-. exact (Hout c t g x eq_refl Ex Ha).
  - reflexivity.
Qed.

(* a new level is in the chain of no level that exists: parent and siblings never look into a fork's level *)
Lemma chain_members_exist st l ls a : rinv st -> chain_of (s_rh st) l = Some ls -> In a ls -> a < length (s_rh st).
Proof.
  intros I Hc Ha.
  assert (l < length (s_rh st)) as Hl.
  { unfold chain_of in Hc. cbn [chain] in Hc. destruct (nth_error (s_rh st) l) eqn:E; [|discriminate].
    eapply nth_error_lt; exact E. }
  destruct (chain_of_exists _ l (inv_wf st I) Hl) as [ls' [Hc' Hb]]. rewrite Hc in Hc'. injection Hc' as <-.
  apply Hb in Ha. lia.
Qed.

(* ---- a registration reaches every descendant ------------------------------------------------------------------------- *)
Lemma rlook_upd_older {A} (own : rlevel -> option A) rh a lv' : rwf rh ->
  forall f l, l < a -> rlook own f (upd a lv' rh) l = rlook own f rh l.
Proof.
  intros W. induction f as [|f IH]; intros l Hl; [reflexivity|]. cbn [rlook].
  rewrite nth_error_upd_other by lia.
  destruct (nth_error rh l) as [x|] eqn:E; [|reflexivity].
  destruct (rl_parent x) as [p|] eqn:P; [|reflexivity].
  pose proof (W l x p E P). rewrite IH by lia. reflexivity.
Qed.

(* after the level a got the entry v: a lookup through a finds v, or what it found before *)
Lemma rlook_after_entry {A} (own : rlevel -> option A) rh a lv lv' v :
  rwf rh -> nth_error rh a = Some lv -> rl_parent lv' = rl_parent lv -> own lv' = Some v ->
  exists v', rlook own (S (length rh)) (upd a lv' rh) a = RFound v' /\
             (v' = v \/ rlook own (S (length rh)) rh a = RFound v').
Proof.
  intros W Ea Hp Hv. pose proof (nth_error_lt _ _ _ Ea) as Hl. cbn [rlook].
  rewrite nth_error_upd_same by exact Hl. rewrite Ea, Hp, Hv.
  destruct (rl_parent lv) as [p|] eqn:P.
  - pose proof (W a lv p Ea P) as Hpa. rewrite rlook_upd_older by assumption.
    destruct (rlook own (length rh) rh p) as [v0| |] eqn:R.
    + exists v0. split; [reflexivity|now right].
    + exists v. split; [reflexivity|now left].
    + exfalso. apply (rlook_not_stuck own rh (length rh) p W); [lia|lia|exact R].
  - exists v. split; [reflexivity|now left].
Qed.

Lemma register_reaches st c x t g l ls :
  rinv st -> nth_error (s_cx st) c = Some x -> snd (hstep st (HRegister c t g)) = HOk ->
  chain_of (s_rh st) l = Some ls -> In (x_reg x) ls ->
  let st' := fst (hstep st (HRegister c t g)) in
  (exists t', look (own_r2t g) st' l = RFound t' /\ t_id t' = t_id t) /\
  (t_name t <> 0%N -> look (own_t2r (t_name t)) st' l = RFound g).
Proof.
  intros I Ex Hok Hc Hin. cbn zeta. pose proof (inv_wf st I) as W.
  assert (l < length (s_rh st)) as Hl.
  { unfold chain_of in Hc. cbn [chain] in Hc. destruct (nth_error (s_rh st) l) eqn:E; [|discriminate].
    eapply nth_error_lt; exact E. }
  cbn [hstep] in *. rewrite Ex in *.
  destruct (nth_error (s_rh st) (x_reg x)) as [lv|] eqn:El; [|discriminate].
  destruct (assert_unregistered (s_rh st) (x_reg x) t g) eqn:EA; [|discriminate].
  cbn [fst]. unfold look. cbn [s_rh]. rewrite upd_length.
  set (lv' := add_mapping t g lv). set (rh' := upd (x_reg x) lv' (s_rh st)).
  assert (chain_of rh' l = Some ls) as Hc'.
  { unfold rh'. rewrite (chain_of_upd _ _ lv lv' l El eq_refl). exact Hc. }
  assert (length rh' = length (s_rh st)) as Hlen by apply upd_length.
  unfold assert_unregistered in EA. apply andb_prop in EA. destruct EA as [EA1 EA2].
  split.
  - destruct (rlook_after_entry (own_r2t g) (s_rh st) (x_reg x) lv lv' t W El eq_refl) as [t' [Hf Hor]].
    { unfold own_r2t, lv'. cbn [add_mapping rl_r2t]. apply aget_aset_same. }
    exists t'. split.
    + rewrite <- Hlen. apply (ancestor_wins _ rh' l ls (x_reg x) t' Hc' Hin). rewrite Hlen. exact Hf.
    + destruct Hor as [->|Hold]; [reflexivity|].
      unfold r2t in EA2. rewrite Hold in EA2. now apply N.eqb_eq in EA2.
  - intros Hname.
    destruct (rlook_after_entry (own_t2r (t_name t)) (s_rh st) (x_reg x) lv lv' g W El eq_refl) as [g' [Hf Hor]].
    { unfold own_t2r, lv'. cbn [add_mapping rl_t2r].
      destruct (N.eqb_spec (t_name t) 0) as [E0|_]; [contradiction|]. apply aget_aset_same. }
    assert (g' = g) as ->.
    { destruct Hor as [->|Hold]; [reflexivity|].
      unfold t2r in EA1. rewrite Hold in EA1.
      destruct (N.eqb_spec (t_name t) 0) as [E0|_]; [contradiction|]. cbn [orb] in EA1.
      apply N.eqb_eq in EA1. now subst. }
    rewrite <- Hlen. apply (ancestor_wins _ rh' l ls (x_reg x) g Hc' Hin). rewrite Hlen. exact Hf.
Qed.

(* ---- a fork that registers nothing finds what its parent finds, at every later time ----------------------------------- *)
(* context d is an empty level on top of the level of context c *)
Definition empty_on (st : rstate) (d c : nat) : Prop :=
  exists xd xc lv, nth_error (s_cx st) d = Some xd /\ nth_error (s_cx st) c = Some xc /\
                   nth_error (s_rh st) (x_reg xd) = Some lv /\ rl_parent lv = Some (x_reg xc) /\
                   rl_r2t lv = [] /\ rl_t2r lv = [].

Definition registers_through (d : nat) (o : hop) : bool :=
  match o with HRegister c _ _ => Nat.eqb c d | _ => false end.

Lemma empty_on_step st o d c : rinv st -> empty_on st d c -> registers_through d o = false ->
  empty_on (fst (hstep st o)) d c.
Proof.
  intros I (xd & xc & lv & Ed & Ec & El & Hp & H1 & H2) Hno.
  exists xd, xc, lv. split; [now apply hstep_cx|]. split; [now apply hstep_cx|].
  split; [|now repeat split].
  destruct (hstep_heap st o) as [ext -> _|c' t g x lv0 -> Ex El0 _ ->| ->].
  - rewrite nth_error_app_lt; [exact El|eapply nth_error_lt; exact El].
  - rewrite nth_error_upd_other; [exact El|]. intros Heq.
    cbn [registers_through] in Hno. apply Nat.eqb_neq in Hno. apply Hno.
    exact (inv_inj st I c' d x xd Ex Ed Heq).
  - exact El.
Qed.

Lemma empty_on_run os : forall st d c, rinv st -> empty_on st d c ->
  forallb (fun o => negb (registers_through d o)) os = true -> empty_on (fst (hrun_from st os)) d c.
Proof.
  induction os as [|o os IH]; intros st d c I E H; [exact E|].
  cbn [forallb] in H. apply andb_prop in H. destruct H as [Ho Hos]. apply negb_true_iff in Ho.
  rewrite hrun_from_fst. apply IH; [now apply hstep_rinv|now apply empty_on_step|exact Hos].
Qed.

Lemma empty_on_looks st d c : rinv st -> empty_on st d c ->
  exists xd xc, nth_error (s_cx st) d = Some xd /\ nth_error (s_cx st) c = Some xc /\
    (forall g, look (own_r2t g) st (x_reg xd) = look (own_r2t g) st (x_reg xc)) /\
    (forall n, look (own_t2r n) st (x_reg xd) = look (own_t2r n) st (x_reg xc)).
Proof.
  intros I (xd & xc & lv & Ed & Ec & El & Hp & H1 & H2). exists xd, xc. split; [exact Ed|]. split; [exact Ec|].
  pose proof (inv_wf st I) as W. pose proof (inv_cx st I c xc Ec) as Hc.
  assert (forall A (own : rlevel -> option A), own lv = None ->
            look own st (x_reg xd) = look own st (x_reg xc)) as Gen.
  { intros A own Hown. unfold look.
    rewrite (rlook_fuel own (s_rh st) (S (length (s_rh st))) (length (s_rh st)) (x_reg xc)) by (try assumption; lia).
    cbn [rlook]. rewrite El, Hp, Hown.
    destruct (rlook own (length (s_rh st)) (s_rh st) (x_reg xc)); reflexivity. }
  split; intros k; apply Gen; [unfold own_r2t; now rewrite H1|unfold own_t2r; now rewrite H2].
Qed.

Lemma fork_makes_empty st c x : rinv st -> nth_error (s_cx st) c = Some x ->
  empty_on (fst (hstep st (HFork c))) (length (s_cx st)) c.
Proof.
  intros I E. cbn [hstep new_level new_loader]. rewrite E. cbn [fst].
  eexists _, x, _. cbn [add_ctx s_cx s_rh].
  split; [apply nth_error_snoc_eq|].
  split; [rewrite nth_error_app_lt; [exact E|eapply nth_error_lt; exact E]|].
  cbn [x_reg]. split; [apply nth_error_snoc_eq|]. now repeat split.
Qed.

Lemma with_makes_empty st cr cl xr xl : rinv st -> nth_error (s_cx st) cr = Some xr -> nth_error (s_cx st) cl = Some xl ->
  empty_on (fst (hstep st (HWith cr cl))) (length (s_cx st)) cr.
Proof.
  intros I Er El. cbn [hstep new_level new_loader]. rewrite Er, El. cbn [fst].
  eexists _, xr, _. cbn [add_ctx s_cx s_rh].
  split; [apply nth_error_snoc_eq|].
  split; [rewrite nth_error_app_lt; [exact Er|eapply nth_error_lt; exact Er]|].
  cbn [x_reg]. split; [apply nth_error_snoc_eq|]. now repeat split.
Qed.

(* the call creates a context whose registry is a new level on the registry of context c *)
Definition forks_registry (o : hop) (c : nat) : Prop := o = HFork c \/ exists cl, o = HWith c cl.

Lemma fork_tracks_parent os1 o c os2 :
  let st := hfinal os1 in
  let d := length (s_cx st) in
  forks_registry o c -> snd (hstep st o) = HOk ->
  forallb (fun o => negb (registers_through d o)) os2 = true ->
  let st2 := fst (hrun_from (fst (hstep st o)) os2) in
  exists xd xc, nth_error (s_cx st2) d = Some xd /\ nth_error (s_cx st2) c = Some xc /\
    (forall g, look (own_r2t g) st2 (x_reg xd) = look (own_r2t g) st2 (x_reg xc)) /\
    (forall n, look (own_t2r n) st2 (x_reg xd) = look (own_t2r n) st2 (x_reg xc)).
Proof.
  cbn zeta. intros Hf Hok Hno. pose proof (hfinal_rinv os1) as I. set (st := hfinal os1) in *.
  apply empty_on_looks; [apply hrun_from_rinv; now apply hstep_rinv|].
  apply empty_on_run; [now apply hstep_rinv| |exact Hno].
  destruct Hf as [->|[cl ->]].
  - cbn [hstep] in Hok. destruct (nth_error (s_cx st) c) as [x|] eqn:E; [|discriminate].
    now apply fork_makes_empty with (x := x).
  - cbn [hstep] in Hok. destruct (nth_error (s_cx st) c) as [xr|] eqn:Er; [|discriminate].
    destruct (nth_error (s_cx st) cl) as [xl|] eqn:El; [|discriminate].
    now apply with_makes_empty with (xr := xr) (xl := xl).
Qed.

(* ---- the statements over histories ------------------------------------------------------------------------------------ *)
Lemma lookup_now os l :
  let rh := s_rh (hfinal os) in
  l < length rh ->
  exists ls, chain_of rh l = Some ls /\ (forall a, In a ls -> a <= l) /\
             (forall g, r2t rh l g = first_held (own_r2t g) rh ls) /\
             (forall n, t2r rh l n = first_held (own_t2r n) rh ls).
Proof.
  cbn zeta. intros Hl. destruct (chain_of_exists _ l (inv_wf _ (hfinal_rinv os)) Hl) as [ls [Hc Hb]].
  exists ls. split; [exact Hc|]. split; [exact Hb|].
  split; intros k; [unfold r2t|unfold t2r]; rewrite rlook_is_chain, Hc; reflexivity.
Qed.

Lemma chain_fixed os1 os2 l :
  l < length (s_rh (hfinal os1)) ->
  chain_of (s_rh (fst (hrun_from (hfinal os1) os2))) l = chain_of (s_rh (hfinal os1)) l.
Proof. intros Hl. apply hrun_chain_fixed; [apply hfinal_rinv|exact Hl]. Qed.

Lemma step_isolated os o l ls :
  let st := hfinal os in
  chain_of (s_rh st) l = Some ls ->
  (forall c t g x, o = HRegister c t g -> nth_error (s_cx st) c = Some x -> ~ In (x_reg x) ls) ->
  let st' := fst (hstep st o) in
  (forall g, r2t (s_rh st') l g = r2t (s_rh st) l g) /\ (forall n, t2r (s_rh st') l n = t2r (s_rh st) l n).
Proof.
  cbn zeta. intros Hc Hout.
  split; intros k; [apply (step_changes_only_descendants (own_r2t k) _ o l ls)
                   |apply (step_changes_only_descendants (own_t2r k) _ o l ls)];
    try apply hfinal_rinv; assumption.
Qed.

Lemma registration_reaches os c x t g l ls :
  let st := hfinal os in
  nth_error (s_cx st) c = Some x -> snd (hstep st (HRegister c t g)) = HOk ->
  chain_of (s_rh st) l = Some ls -> In (x_reg x) ls ->
  let st' := fst (hstep st (HRegister c t g)) in
  (exists t', r2t (s_rh st') l g = RFound t' /\ t_id t' = t_id t) /\
  (t_name t <> 0%N -> t2r (s_rh st') l (t_name t) = RFound g).
Proof. cbn zeta. intros Ex Hok Hc Hin. apply (register_reaches _ c x t g l ls); try assumption. apply hfinal_rinv. Qed.

Lemma chain_is_old os l ls a :
  chain_of (s_rh (hfinal os)) l = Some ls -> In a ls -> a < length (s_rh (hfinal os)).
Proof. apply chain_members_exist. apply hfinal_rinv. Qed.
