(* SerAttrsProofs.v — the attribute route of the serializer (Model/SerAttrs.v): what the stripping of the
   trailing default-valued optional attributes leaves out, and that the constructor from the attribute hash
   puts it back.  Property C10. *)
From Coq Require Import ZArith NArith Bool Lia List.
From PcoreV Require Import Model.Base Model.Ser Model.SerAttrs Proofs.SerProofs Proofs.SerDeserProofs.
Import ListNotations.
Local Open Scope nat_scope.

Section AttrsProofs.
Context {payload : Type}.
Notation attr := (attr payload).
Notation decl := (decl payload).

(* ---- the loop ---- *)

Lemma drop_defaults_spec n (rl : list attr) :
  exists dropped,
    rl = dropped ++ drop_defaults n rl /\
    Forall (fun a => a_isdef a = true) dropped /\
    length dropped <= n /\
    (length dropped < n -> match drop_defaults n rl with [] => True | a :: _ => a_isdef a = false end).
Proof.
  revert rl. induction n as [|n IH]; intros rl.
  - exists []. cbn. repeat split; auto; lia.
  - destruct rl as [|a rl]; cbn [drop_defaults].
    + exists []. cbn. repeat split; auto; lia.
    + destruct (a_isdef a) eqn:Ha.
      * destruct (IH rl) as (d & Hd & Hall & Hlen & Hmax).
        exists (a :: d). cbn [app length]. repeat split.
        -- now rewrite <- Hd.
        -- now constructor.
        -- lia.
        -- intros Hlt. apply Hmax. lia.
      * exists []. cbn. repeat split; auto; lia.
Qed.

(* only a suffix is left out, all of it default-valued, none of it among the required attributes *)
Theorem trim_prefix (req : nat) (l : list attr) :
  exists sfx,
    l = trim req l ++ sfx /\
    Forall (fun a => a_isdef a = true) sfx /\
    length sfx <= length l - req.
Proof.
  unfold trim. destruct (drop_defaults_spec (length l - req) (rev l)) as (d & Hd & Hall & Hlen & _).
  exists (rev d). repeat split.
  - rewrite <- rev_app_distr, <- Hd. now rewrite rev_involutive.
  - apply Forall_rev. exact Hall.
  - now rewrite rev_length.
Qed.

Corollary trim_keeps_required (req : nat) (l : list attr) :
  Nat.min req (length l) <= length (trim req l).
Proof.
  destruct (trim_prefix req l) as (sfx & Hl & _ & Hlen).
  apply (f_equal (@length _)) in Hl. rewrite app_length in Hl. lia.
Qed.

Corollary trim_firstn (req : nat) (l : list attr) : firstn req (trim req l) = firstn req l.
Proof.
  destruct (trim_prefix req l) as (sfx & Hl & _ & Hlen).
  pose proof (trim_keeps_required req l) as Hk.
  rewrite Hl at 2. rewrite firstn_app.
  apply (f_equal (@length _)) in Hl. rewrite app_length in Hl.
  destruct (Nat.le_ge_cases req (length l)) as [Hle|Hge].
  - replace (req - length (trim req l)) with 0 by lia. cbn. now rewrite app_nil_r.
  - assert (Hs : length sfx = 0) by lia. destruct sfx; [|discriminate]. now rewrite firstn_nil, app_nil_r.
Qed.

(* the loop stops only at a non-default attribute or at the required ones: nothing default-valued and
   optional is left at the end *)
Theorem trim_maximal (req : nat) (l : list attr) (k : list attr) (a : attr) :
  trim req l = k ++ [a] -> req <= length k -> a_isdef a = false.
Proof.
  unfold trim. intros Ht Hreq.
  destruct (drop_defaults_spec (length l - req) (rev l)) as (d & Hd & _ & Hlen & Hmax).
  apply (f_equal (@rev _)) in Ht. rewrite rev_involutive, rev_app_distr in Ht. cbn in Ht.
  rewrite Ht in Hmax, Hd. apply Hmax.
  apply (f_equal (@length _)) in Hd. rewrite rev_length, app_length in Hd. cbn in Hd. rewrite rev_length in Hd. lia.
Qed.

(* ---- the way back ---- *)

Definition given_of (k : list attr) : list (@pvalue payload * @pvalue payload) :=
  map (fun a : str * @rvalue payload => (PStr (fst a), erase (snd a))) (attr_fields k).

Lemma pobj_attrs_VObjT id ty req (l : list attr) disp :
  pobj_attrs (erase (VObjT id ty req l disp)) = given_of (trim req l).
Proof. unfold VObjT. now rewrite erase_obj. Qed.

Lemma plookup_absent s (k : list attr) :
  ~ In s (map a_name k) -> plookup s (given_of k) = None.
Proof.
  induction k as [|b k IH]; intros Hn; cbn; [reflexivity|].
  destruct (str_eqb_spec s (a_name b)) as [->|Hne].
  - exfalso. apply Hn. now left.
  - apply IH. intros Hin. apply Hn. now right.
Qed.

Lemma plookup_present (k : list attr) a :
  NoDup (map a_name k) -> In a k -> plookup (a_name a) (given_of k) = Some (erase (a_val a)).
Proof.
  induction k as [|b k IH]; intros Hnd Hin; [destruct Hin|].
  cbn [map] in Hnd. inversion Hnd as [|? ? Hnotin Hnd']; subst.
  cbn. destruct Hin as [->|Hin].
  - now rewrite str_eqb_refl.
  - destruct (str_eqb_spec (a_name a) (a_name b)) as [Heq|Hne].
    + exfalso. apply Hnotin. rewrite <- Heq. now apply in_map.
    + now apply IH.
Qed.

Lemma NoDup_app_l {A} (x y : list A) : NoDup (x ++ y) -> NoDup x.
Proof.
  induction x as [|a x IH]; intros H; [constructor|].
  cbn in H. inversion H as [|? ? Hn Hnd]; subst. constructor; [|now apply IH].
  intros Hin. apply Hn. apply in_or_app. now left.
Qed.

Lemma NoDup_app_disjoint {A} (x y : list A) a : NoDup (x ++ y) -> In a y -> ~ In a x.
Proof.
  induction x as [|b x IH]; intros H Hy Hx; [destruct Hx|].
  cbn in H. inversion H as [|? ? Hn Hnd]; subst. destruct Hx as [->|Hx].
  - apply Hn. apply in_or_app. now right.
  - now apply (IH Hnd Hy).
Qed.

Lemma fill_forall2 given (l : list attr) (ds : list decl) :
  Forall2 (fun a d => fill_one given d = Ok (erase (a_val a))) l ds ->
  fill ds given = Ok (map (fun a => erase (a_val a)) l).
Proof.
  unfold fill. induction 1 as [|a d l ds Had _ IH]; cbn; [reflexivity|].
  rewrite Had. cbn. now rewrite IH.
Qed.

Lemma Forall2_In_l {A B} (P : A -> B -> Prop) (Q : A -> Prop) l ds :
  Forall2 P l ds -> (forall a, In a l -> Q a) -> Forall2 (fun a d => P a d /\ Q a) l ds.
Proof.
  induction 1 as [|a d l ds Had _ IH]; intros HQ; constructor.
  - split; [exact Had|]. apply HQ. now left.
  - apply IH. intros b Hb. apply HQ. now right.
Qed.

(* The constructor from the hash of the attributes that were emitted rebuilds ALL attribute values of the
   original: an attribute that was left out is default-valued, and the default is what a missing attribute
   receives.  Hypotheses (each checked on every value of the attribute route by the correspondence run):
   the declarations are those of the attributes, in order; attribute names are distinct; a set default flag
   means the value equals the declared default. *)
Theorem trim_fill (req : nat) (l : list attr) (ds : list decl) :
  Forall2 (fun a d => d_name d = a_name a /\ isdef_sound a d) l ds ->
  NoDup (map a_name l) ->
  fill ds (given_of (trim req l)) = Ok (map (fun a => erase (a_val a)) l).
Proof.
  intros Hds Hnd.
  destruct (trim_prefix req l) as (sfx & Hl & Hall & _).
  set (k := trim req l) in *.
  assert (Hndk : NoDup (map a_name k)).
  { rewrite Hl, map_app in Hnd. now apply NoDup_app_l in Hnd. }
  apply fill_forall2.
  assert (Hpoint : forall a, In a l ->
            (In a k /\ True) \/ (In a sfx /\ ~ In (a_name a) (map a_name k))).
  { intros a Hin. rewrite Hl in Hin. apply in_app_or in Hin. destruct Hin as [Hk|Hs]; [left; auto|right].
    split; [exact Hs|]. rewrite Hl, map_app in Hnd.
    apply (NoDup_app_disjoint _ _ _ Hnd). now apply in_map. }
  apply (Forall2_In_l _ _ _ _ Hds) in Hpoint.
  clearbody k. clear Hds Hl Hnd. induction Hpoint as [|a d l' ds' [[Hname Hsound] Hcase] _ IH]; constructor; [|exact IH].
  unfold fill_one. rewrite Hname.
  destruct Hcase as [[Hk _]|[Hs Hnot]].
  - now rewrite (plookup_present k a Hndk Hk).
  - rewrite (plookup_absent _ _ Hnot).
    rewrite Forall_forall in Hall. now rewrite (Hsound (Hall a Hs)).
Qed.

End AttrsProofs.

(* ---- reading the attributes ---- *)
Lemma read_all_cons {payload} (r : reading payload) rs :
  read_all (r :: rs) = bind (read_one r) (fun a => bind (read_all rs) (fun t => Ok (a :: t))).
Proof. reflexivity. Qed.

Lemma read_all_ok {payload} (rs : list (reading payload)) :
  readers_ok rs = true -> exists l, read_all rs = Ok l /\ map a_name l = map (fun r => fst (fst r)) rs.
Proof.
  induction rs as [|[[n [v|]] d] rs IH]; intros H.
  - now exists [].
  - cbn [readers_ok forallb fst snd andb] in H. destruct (IH H) as (l & Hl & Hn).
    exists (mkattr n v d :: l). rewrite read_all_cons. unfold read_one. cbn [fst snd bind]. rewrite Hl. cbn [bind].
    split; [reflexivity|]. cbn [map a_name fst]. now rewrite Hn.
  - discriminate.
Qed.

Lemma read_all_err {payload} (rs : list (reading payload)) :
  readers_ok rs = false -> read_all rs = Err.
Proof.
  induction rs as [|[[n [v|]] d] rs IH]; intros H.
  - discriminate.
  - cbn [readers_ok forallb fst snd andb] in H. rewrite read_all_cons. unfold read_one. cbn [fst snd bind].
    now rewrite (IH H).
  - reflexivity.
Qed.

Theorem attr_route_serialize_ok {payload} (to_s : str -> payload -> str) o c id ty req (rs : list (reading payload)) disp :
  readers_ok rs = true ->
  exists l, read_all rs = Ok l /\
            attr_route_serialize to_s o c id ty req rs disp = Ok (serialize to_s o c (VObjT id ty req l disp)).
Proof.
  intros H. destruct (read_all_ok rs H) as (l & Hl & _). exists l. split; [exact Hl|].
  unfold attr_route_serialize. now rewrite Hl.
Qed.

(* ---- end to end: serialize, collect, deserialize, construct from the attribute hash ---- *)
Theorem attr_route_roundtrip {payload} (to_s : str -> payload -> str) (of_s : str -> str -> option payload) :
  (forall tn p, of_s tn (to_s tn p) = Some p) ->
  forall (o : opts) (c : caps) id ty req (l : list (attr payload)) disp (ds : list (decl payload)),
    rich_data o = true ->
    wf_rich (VObjT id ty req l disp) -> rt_ok to_s (env_of o c) (VObjT id ty req l disp) = true ->
    Forall2 (fun a d => d_name d = a_name a /\ isdef_sound a d) l ds ->
    NoDup (map a_name l) ->
    bind (roundtrip to_s of_s o c (VObjT id ty req l disp)) (fun p => fill ds (pobj_attrs p))
      = Ok (map (fun a => erase (a_val a)) l).
Proof.
  intros Hinv o c id ty req l disp ds Hrich Hwf Hrt Hds Hnd.
  rewrite (roundtrip_rich to_s of_s Hinv o c _ Hwf Hrt).
  unfold expected. replace (e_rich (env_of o c)) with true by (symmetry; exact Hrich).
  cbn [bind]. rewrite pobj_attrs_VObjT. now apply trim_fill.
Qed.
