(* LatticeEq.v — C03: equal types (Type.Equals, modelled by ty_eqb) accept each other. *)
From Coq Require Import ZArith NArith Bool List Lia.
From PcoreV Require Import Model.Base Model.Ty Model.Lattice Model.TyEq Proofs.LatticeUnfold Proofs.LatticeBasics
  Proofs.StructCount Proofs.LatticeRule Proofs.LatticeSound Proofs.LatticeOrder.
Import ListNotations.
Open Scope Z_scope.

Definition eq_list (f : ty -> ty -> bool) : list ty -> list ty -> bool :=
  fix go (l l' : list ty) {struct l} : bool :=
    match l, l' with
    | [], _ => true
    | x :: r, y :: r' => f x y && go r r'
    | _ :: _, [] => false
    end.

Definition eq_members (f : ty -> ty -> bool) : list (str * (ty * ty)) -> list (str * (ty * ty)) -> bool :=
  fix go (l l' : list (str * (ty * ty))) {struct l} : bool :=
    match l, l' with
    | [], _ => true
    | (_, (k, v)) :: r, (_, (k', v')) :: r' => f k k' && f v v' && go r r'
    | _ :: _, [] => false
    end.

Definition all_in (f : ty -> ty -> bool) (ts : list ty) : list ty -> bool :=
  fix go (l' : list ty) : bool :=
    match l' with
    | [] => true
    | v' :: r' => existsb (fun t => f t v') ts && go r'
    end.

Lemma ty_eqb_tuple ts g lo hi ts' g' lo' hi' :
  ty_eqb (TTuple ts g lo hi) (TTuple ts' g' lo' hi') =
  Nat.eqb (length ts) (length ts') && Z.eqb lo lo' && Z.eqb hi hi' && eq_list ty_eqb ts ts'.
Proof. reflexivity. Qed.

Lemma ty_eqb_struct ms ms' :
  ty_eqb (TStruct ms) (TStruct ms') = Nat.eqb (length ms) (length ms') && eq_members ty_eqb ms ms'.
Proof. reflexivity. Qed.

Lemma ty_eqb_variant ts ts' :
  ty_eqb (TVariant ts) (TVariant ts') =
  forallb (fun v => existsb (fun ov => ty_eqb v ov) ts') ts && all_in ty_eqb ts ts'.
Proof. reflexivity. Qed.

Lemma all_in_spec f ts l' : all_in f ts l' = forallb (fun v' => existsb (fun t => f t v') ts) l'.
Proof. induction l' as [|v' r IH]; [reflexivity|]. cbn. now rewrite IH. Qed.

Lemma eq_list_nth f ts : forall ts', eq_list f ts ts' = true ->
  forall i t o, nth_error ts i = Some t -> nth_error ts' i = Some o -> f t o = true.
Proof.
  induction ts as [|x r IH]; intros ts' H i t o Ht Ho; [destruct i; discriminate|].
  destruct ts' as [|y r']; [discriminate|]. cbn in H. apply andb_true_iff in H. destruct H as [H1 H2].
  destruct i as [|i]; cbn in Ht, Ho.
  - injection Ht as <-. injection Ho as <-. exact H1.
  - eapply IH; eauto.
Qed.

Section Eq.
  Variable rx : str -> str -> bool.
  Variable hs : bool.
  Notation asg := (asg rx hs).

  Definition both (a b : ty) : Prop := asg a b = true /\ asg b a = true.

  Lemma both_refl a : wf_ty a = true -> both a a.
  Proof. intros H. split; apply asg_refl; exact H. Qed.

  Lemma subset_nonempty (l l' : list str) : subset_str l l' = true -> l <> [] -> l' <> [].
  Proof.
    destruct l as [|x l]; [congruence|]. intros H _ ->. cbn in H. discriminate.
  Qed.

  Lemma subset_in (l l' : list str) s : subset_str l l' = true -> In s l -> In s l'.
  Proof. unfold subset_str. rewrite forallb_forall. intros H Hs. apply mem_str_in. auto. Qed.

  Lemma enum_accepts ci vs vs' : forallb is_lower vs' = true \/ ci = false ->
    subset_str vs' vs = true -> subset_str vs vs' = true -> asg (TEnum ci vs) (TEnum ci vs') = true.
  Proof.
    intros Hl H1 H2. rewrite asg_unfold. cbn [LatticeUnfold.gstep is_any LatticeUnfold.recv].
    destruct vs as [|v0 vs]; [reflexivity|]. remember (v0 :: vs) as l eqn:El.
    assert (Hne : l <> []) by (subst l; congruence).
    assert (Hne' : vs' <> []) by (apply (subset_nonempty l vs' H2 Hne)).
    apply length_neqb_nil in Hne'. rewrite Hne'. replace (ci || negb ci) with true by (destruct ci; reflexivity). cbn [andb].
    apply forallb_forall. intros s Hs. rewrite enum_inst_nonempty by assumption.
    pose proof (subset_in _ _ s H1 Hs) as Hin.
    destruct ci; [|apply mem_str_refl; assumption].
    destruct Hl as [Hl|Hl]; [|discriminate]. rewrite forallb_forall in Hl. specialize (Hl s Hs).
    unfold is_lower in Hl. apply str_eqb_eq in Hl. rewrite Hl. apply mem_str_refl; assumption.
  Qed.

  Lemma pattern_accepts rs rs' : subset_str rs rs' = true -> subset_str rs' rs = true -> asg (TPattern rs) (TPattern rs') = true.
  Proof.
    intros H1 H2. rewrite asg_unfold. cbn [LatticeUnfold.gstep is_any LatticeUnfold.recv].
    destruct rs as [|r0 rs]; [reflexivity|]. remember (r0 :: rs) as l eqn:El.
    assert (Hne : l <> []) by (subst l; congruence).
    assert (Hne' : rs' <> []) by (apply (subset_nonempty l rs' H1 Hne)).
    apply length_neqb_nil in Hne'. rewrite Hne'. cbn [andb]. exact H2.
  Qed.

  Lemma key_name_eq n n' k k' : key_ok n k = true -> key_ok n' k' = true -> ty_eqb k k' = true -> n = n'.
  Proof.
    destruct k; try discriminate; destruct k'; try discriminate; cbn.
    - intros H1 H2 H3. apply str_eqb_eq in H1, H2, H3. congruence.
    - destruct k; try discriminate. destruct k'; try discriminate. cbn.
      intros H1 H2 H3. apply str_eqb_eq in H1, H2, H3. congruence.
  Qed.

  (* element-wise related struct members: same names, related keys and values *)
  Lemma eq_members_nth f ms : forall ms', eq_members f ms ms' = true ->
    forall i m m', nth_error ms i = Some m -> nth_error ms' i = Some m' ->
    f (fst (snd m)) (fst (snd m')) = true /\ f (snd (snd m)) (snd (snd m')) = true.
  Proof.
    induction ms as [|[n [k v]] r IH]; intros ms' H i m m' Hm Hm'; [destruct i; discriminate|].
    destruct ms' as [|[n' [k' v']] r']; [discriminate|]. cbn in H.
    apply andb_true_iff in H. destruct H as [H H3]. apply andb_true_iff in H. destruct H as [H1 H2].
    destruct i as [|i]; cbn in Hm, Hm'.
    - injection Hm as <-. injection Hm' as <-. auto.
    - eapply IH; eauto.
  Qed.

  Lemma find_member_nth ms : distinct (map fst ms) = true ->
    forall i m, nth_error ms i = Some m -> find_member (fst m) ms = Some (snd m).
  Proof. intros Hd i m Hm. apply struct_self_found; [exact Hd|]. eapply nth_error_In; eauto. Qed.

  Lemma struct_accepts ms ms' :
    wf_ty (TStruct ms) = true -> wf_ty (TStruct ms') = true -> length ms = length ms' ->
    (forall i m m', nth_error ms i = Some m -> nth_error ms' i = Some m' ->
       fst m = fst m' /\ asg (fst (snd m)) (fst (snd m')) = true /\ asg (snd (snd m)) (snd (snd m')) = true) ->
    asg (TStruct ms) (TStruct ms') = true.
  Proof.
    intros Hw Hw' Hl Hp. pose proof (wf_struct_names _ Hw') as Hd'.
    rewrite asg_unfold. cbn [LatticeUnfold.gstep is_any LatticeUnfold.recv].
    assert (Hfound : forall m, In m ms -> exists m' : str * (ty * ty), find_member (fst m) ms' = Some (snd m') /\
               asg (fst (snd m)) (fst (snd m')) = true /\ asg (snd (snd m)) (snd (snd m')) = true).
    { intros m Hin. destruct (In_nth_error _ _ Hin) as (i & Hi).
      destruct (nth_error ms' i) as [m'|] eqn:Ei.
      - destruct (Hp i m m' Hi Ei) as (Hn & Hk & Hv). exists m'. rewrite Hn. split; [|auto].
        apply (find_member_nth ms' Hd' i m' Ei).
      - exfalso. apply nth_error_None in Ei. assert (i < length ms)%nat by (apply nth_error_Some; congruence). lia. }
    apply andb_true_iff. split.
    - apply forallb_forall. intros m Hin. destruct (Hfound m Hin) as (m' & Hf & Hk & Hv). rewrite Hf.
      destruct (snd m') as [k' v']. cbn [fst snd] in *. now rewrite Hk, Hv.
    - rewrite filter_all.
      + unfold zlen. rewrite Hl. apply Z.eqb_refl.
      + intros m Hin. destruct (Hfound m Hin) as (m' & Hf & _). now rewrite Hf.
  Qed.

  Theorem eq_accepts : forall a b, ty_eqb a b = true -> wf_ty a = true -> wf_ty b = true -> both a b.
  Proof.
    induction a using ty_ind'; intros b He Hwa Hwb; destruct b; try discriminate; try (apply both_refl; exact Hwa).
    - (* Boolean *) assert (v = v0) by (destruct v as [[|]|], v0 as [[|]|]; try discriminate; reflexivity). subst. apply both_refl. exact Hwa.
    - (* Integer *) cbn in He. apply andb_true_iff in He. destruct He as [H1 H2]. apply Z.eqb_eq in H1, H2. subst. apply both_refl. exact Hwa.
    - (* Float *) cbn in He. apply andb_true_iff in He. destruct He as [H1 H2]. apply Z.eqb_eq in H1, H2. subst. apply both_refl. exact Hwa.
    - (* StringSz *) cbn in He. apply andb_true_iff in He. destruct He as [H1 H2]. apply Z.eqb_eq in H1, H2. subst. apply both_refl. exact Hwa.
    - (* StringVal *) cbn in He. apply str_eqb_eq in He. subst. apply both_refl. exact Hwa.
    - (* Enum *) cbn in He. apply andb_true_iff in He. destruct He as [He H2]. apply andb_true_iff in He. destruct He as [Hc H1].
      apply eqb_prop in Hc. subst ci0. cbn in Hwa, Hwb.
      split; apply enum_accepts; try assumption; destruct ci; auto.
    - (* Pattern *) cbn in He. apply andb_true_iff in He. destruct He as [H1 H2]. split; apply pattern_accepts; assumption.
    - (* Regexp *) cbn in He. apply str_eqb_eq in He. subst. apply both_refl. exact Hwa.
    - (* Collection *) cbn in He. apply andb_true_iff in He. destruct He as [H1 H2]. apply Z.eqb_eq in H1, H2. subst. apply both_refl. exact Hwa.
    - (* Array *) cbn in He. apply andb_true_iff in He. destruct He as [He H3]. apply andb_true_iff in He. destruct He as [H1 H2].
      apply Z.eqb_eq in H1, H2. subst. cbn in Hwa, Hwb. destruct (IHa b H3 Hwa Hwb) as [I1 I2].
      split; apply mono_array; assumption.
    - (* Hash *) cbn in He. apply andb_true_iff in He. destruct He as [He H4]. apply andb_true_iff in He. destruct He as [He H3].
      apply andb_true_iff in He. destruct He as [H1 H2]. apply Z.eqb_eq in H1, H2. subst. cbn in Hwa, Hwb.
      apply andb_true_iff in Hwa, Hwb. destruct Hwa as [Wa1 Wa2], Hwb as [Wb1 Wb2].
      destruct (IHa1 b1 H3 Wa1 Wb1) as [K1 K2]. destruct (IHa2 b2 H4 Wa2 Wb2) as [V1 V2].
      split; rewrite asg_unfold; cbn; rewrite size_sub_refl; [rewrite K1, V1|rewrite K2, V2]; now rewrite orb_true_r.
    - (* Tuple *) rewrite ty_eqb_tuple in He. apply andb_true_iff in He. destruct He as [He H4]. apply andb_true_iff in He. destruct He as [He H3].
      apply andb_true_iff in He. destruct He as [H1 H2]. apply Z.eqb_eq in H2, H3. subst. apply Nat.eqb_eq in H1.
      cbn in Hwa, Hwb. apply andb_true_iff in Hwa, Hwb. destruct Hwa as [_ Wa], Hwb as [_ Wb]. rewrite forallb_forall in Wa, Wb.
      rewrite Forall_forall in H.
      assert (Hp : forall i t o, nth_error ts i = Some t -> nth_error ts0 i = Some o -> both t o).
      { intros i t o Ht Ho. pose proof (nth_error_In _ _ Ht) as Hin. apply (H t Hin o); [|auto|apply Wb; eapply nth_error_In; eauto].
        eapply eq_list_nth; eauto. }
      split; rewrite asg_unfold; cbn [LatticeUnfold.gstep is_any LatticeUnfold.recv]; rewrite size_sub_refl; cbn [andb].
      + destruct ts as [|t0 ts]; [reflexivity|]. destruct ts0 as [|o0 os]; [discriminate|].
        rewrite tpairs_pointwise; [apply orb_true_r|exact H1|]. intros i t o Ht Ho. apply (Hp i t o Ht Ho).
      + destruct ts0 as [|o0 os]; [reflexivity|]. destruct ts as [|t0 ts]; [discriminate|].
        rewrite tpairs_pointwise; [apply orb_true_r|symmetry; exact H1|]. intros i o t Ho Ht. apply (Hp i t o Ht Ho).
    - (* Struct *) rewrite ty_eqb_struct in He. apply andb_true_iff in He. destruct He as [H1 H2]. apply Nat.eqb_eq in H1.
      rewrite Forall_forall in H.
      assert (Hp : forall i m m', nth_error ms i = Some m -> nth_error ms0 i = Some m' ->
                fst m = fst m' /\ both (fst (snd m)) (fst (snd m')) /\ both (snd (snd m)) (snd (snd m'))).
      { intros i m m' Hm Hm'. pose proof (nth_error_In _ _ Hm) as Hin. pose proof (nth_error_In _ _ Hm') as Hin'.
        destruct (eq_members_nth ty_eqb ms ms0 H2 i m m' Hm Hm') as [Ek Ev].
        destruct (wf_struct_member _ _ Hwa Hin) as [Hk Hv]. destruct (wf_struct_member _ _ Hwb Hin') as [Hk' Hv'].
        destruct (H m Hin) as [IHk IHv]. split; [|split].
        - eapply key_name_eq; eauto.
        - apply IHk; [exact Ek|apply (key_ok_wf _ _ Hk)|apply (key_ok_wf _ _ Hk')].
        - apply IHv; assumption. }
      split; apply struct_accepts; try assumption; try (symmetry; assumption).
      + intros i m m' Hm Hm'. destruct (Hp i m m' Hm Hm') as (Hn & [K1 _] & [V1 _]). auto.
      + intros i m' m Hm' Hm. destruct (Hp i m m' Hm Hm') as (Hn & [_ K2] & [_ V2]). auto.
    - (* Variant *) rewrite ty_eqb_variant, all_in_spec in He. apply andb_true_iff in He. destruct He as [H1 H2].
      rewrite forallb_forall in H1, H2. cbn in Hwa, Hwb. rewrite forallb_forall in Hwa, Hwb. rewrite Forall_forall in H.
      split; apply asg_variant_r.
      + intros v' Hv'. specialize (H2 v' Hv'). apply existsb_exists in H2. destruct H2 as (t & Ht & Et).
        apply (variant_intro rx hs ts t Ht). apply (H t Ht v' Et); auto.
      + intros v Hv. specialize (H1 v Hv). apply existsb_exists in H1. destruct H1 as (ov & Hov & Eov).
        apply (variant_intro rx hs ts0 ov Hov). apply (H v Hv ov Eov); auto.
    - (* Optional *) cbn in He, Hwa, Hwb. destruct (IHa b He Hwa Hwb). split; apply mono_optional; assumption.
    - (* NotUndef *) cbn in He, Hwa, Hwb. destruct (IHa b He Hwa Hwb). split; apply mono_notundef; assumption.
    - (* Type *) cbn in He, Hwa, Hwb. destruct (IHa b He Hwa Hwb). split; apply mono_type; assumption.
    - (* Sensitive *) cbn in He, Hwa, Hwb. destruct (IHa b He Hwa Hwb). split; apply mono_sensitive; assumption.
  Qed.
End Eq.
