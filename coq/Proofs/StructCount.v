(* StructCount.v — the counting argument behind StructType.IsInstance / IsAssignable
   (`matched == ov.Len()`, structtype.go:297 and :276): with distinct member names and distinct hash
   keys, "as many members found as there are entries" means every entry is a declared member. *)
From Coq Require Import ZArith NArith Bool List Lia.
From PcoreV Require Import Model.Base Model.Ty Model.Lattice Proofs.LatticeBasics.
Import ListNotations.
Open Scope Z_scope.

Section Count.
  Context {M : Type}.                       (* members: anything with a name *)
  Variable name : M -> str.

  Definition found (es : list (value * value)) (m : M) : bool :=
    match hash_get (is_vstr (name m)) es with Some _ => true | None => false end.

  Lemma hash_get_none n es : (forall e, In e es -> is_vstr n (fst e) = false) -> hash_get (is_vstr n) es = None.
  Proof.
    induction es as [|[k x] es IH]; intros H; [reflexivity|]. cbn [hash_get].
    pose proof (H (k, x) (or_introl eq_refl)) as Hk. cbn [fst] in Hk. rewrite Hk. apply IH. intros e He. apply H. right. assumption.
  Qed.

  Lemma existsb_is_vstr_false n ks : existsb (is_vstr n) ks = false -> forall k, In k ks -> is_vstr n k = false.
  Proof.
    intros H k Hk. destruct (is_vstr n k) eqn:E; [|reflexivity].
    assert (existsb (is_vstr n) ks = true) by (apply existsb_exists; eauto). congruence.
  Qed.

  Lemma mem_str_false_in n l : mem_str n l = false -> ~ In n l.
  Proof.
    intros H Hin. assert (mem_str n l = true); [|congruence].
    unfold mem_str. apply existsb_exists. exists n. split; [assumption|apply str_eqb_refl].
  Qed.

  Lemma found_cons_str n x0 es m :
    found ((VStr n, x0) :: es) m = if str_eqb (name m) n then true else found es m.
  Proof. unfold found. cbn [hash_get is_vstr]. destruct (str_eqb (name m) n); reflexivity. Qed.

  (* adding an entry with a fresh string key n: exactly the member named n (if any) becomes found *)
  Lemma cnt_cons_str n x0 es ms :
    distinct (map name ms) = true -> (forall e, In e es -> is_vstr n (fst e) = false) ->
    length (filter (found ((VStr n, x0) :: es)) ms) =
    ((if mem_str n (map name ms) then 1 else 0) + length (filter (found es) ms))%nat.
  Proof.
    intros Hd Hfresh. induction ms as [|m ms IH]; [reflexivity|].
    cbn in Hd. apply andb_true_iff in Hd. destruct Hd as [Hm Hd]. apply negb_true_iff in Hm.
    cbn [map filter]. rewrite found_cons_str. unfold mem_str at 1. cbn [existsb]. fold (mem_str n (map name ms)).
    destruct (str_eqb_spec (name m) n) as [<-|Hne].
    - assert (Hf : found es m = false) by (unfold found; now rewrite (hash_get_none _ _ Hfresh)).
      rewrite Hf, str_eqb_refl. cbn [orb length]. rewrite (IH Hd). rewrite Hm. lia.
    - assert (Hn : str_eqb n (name m) = false) by (apply str_eqb_neq; congruence). rewrite Hn. cbn [orb].
      destruct (found es m); cbn [length]; rewrite (IH Hd); lia.
  Qed.

  Lemma cnt_cons_other k0 x0 es ms : vstr_of k0 = None ->
    filter (found ((k0, x0) :: es)) ms = filter (found es) ms.
  Proof.
    intros Hk. apply filter_ext. intros m. unfold found. cbn [hash_get].
    destruct k0; try discriminate; reflexivity.
  Qed.

  Definition covered (es : list (value * value)) (ms : list M) : Prop :=
    forall k x, In (k, x) es -> exists m, In m ms /\ k = VStr (name m) /\ hash_get (is_vstr (name m)) es = Some x.

  Lemma count_le_and_cover ms : distinct (map name ms) = true ->
    forall es, distinct_keys (map fst es) = true ->
    (length (filter (found es) ms) <= length es)%nat /\
    (length (filter (found es) ms) = length es -> covered es ms).
  Proof.
    intros Hd. induction es as [|[k0 x0] es IH]; intros Hk.
    - split; [|intros _ k x []]. induction ms as [|m ms IHm]; [cbn; lia|].
      cbn in Hd. apply andb_true_iff in Hd. destruct Hd as [_ Hd]. cbn. unfold found at 1. cbn. apply IHm. assumption.
    - cbn [map distinct_keys] in Hk. apply andb_true_iff in Hk. destruct Hk as [Hk0 Hk].
      destruct (IH Hk) as [IHle IHcov]. destruct (vstr_of k0) as [n|] eqn:Ek.
      + destruct k0; try discriminate. cbn in Ek. injection Ek as ->. apply negb_true_iff in Hk0.
        assert (Hfresh : forall e, In e es -> is_vstr n (fst e) = false).
        { intros e He. apply (existsb_is_vstr_false n (map fst es) Hk0). apply in_map. assumption. }
        rewrite (cnt_cons_str n x0 es ms Hd Hfresh). cbn [length].
        destruct (mem_str n (map name ms)) eqn:Em.
        * split; [lia|]. intros Heq. assert (Heq' : length (filter (found es) ms) = length es) by lia.
          specialize (IHcov Heq'). intros k x [Hin|Hin].
          -- injection Hin as <- <-. apply existsb_exists in Em. destruct Em as (n' & Hn' & He).
             apply str_eqb_eq in He. subst n'. apply in_map_iff in Hn'. destruct Hn' as (m & Hm & Hmin).
             exists m. rewrite Hm. repeat split; [assumption|]. cbn. now rewrite str_eqb_refl.
          -- destruct (IHcov k x Hin) as (m & Hm & -> & Hg). exists m. repeat split; [assumption|].
             cbn. specialize (Hfresh _ Hin). cbn in Hfresh.
             assert (Hs : str_eqb (name m) n = false).
             { apply str_eqb_neq. intros E. rewrite E, str_eqb_refl in Hfresh. discriminate. }
             rewrite Hs. exact Hg.
        * split; [lia|]. intros Heq. lia.
      + rewrite (cnt_cons_other k0 x0 es ms Ek). cbn [length]. split; [lia|intros Heq; lia].
  Qed.

  Lemma cover ms es : distinct (map name ms) = true -> distinct_keys (map fst es) = true ->
    Z.eqb (zlen (filter (found es) ms)) (zlen es) = true -> covered es ms.
  Proof.
    intros Hd Hk He. apply Z.eqb_eq in He. unfold zlen in He. apply Nat2Z.inj in He.
    exact (proj2 (count_le_and_cover ms Hd es Hk) He).
  Qed.

  Lemma filter_length_impl {A} (p q : A -> bool) l :
    (forall x, In x l -> p x = true -> q x = true) -> (length (filter p l) <= length (filter q l))%nat.
  Proof.
    induction l as [|x l IH]; intros H; [cbn; lia|]. cbn.
    assert (IH' := IH (fun y Hy => H y (or_intror Hy))).
    destruct (p x) eqn:Ep.
    - rewrite (H x (or_introl eq_refl) Ep). cbn. lia.
    - destruct (q x); cbn; lia.
  Qed.

  Lemma filter_length_le' {A} (p : A -> bool) l : (length (filter p l) <= length l)%nat.
  Proof. induction l as [|x l IH]; cbn; [lia|]. destruct (p x); cbn; lia. Qed.

  (* conversely: if every entry is (the name of) a member, all entries are counted *)
  Lemma count_full ms : distinct (map name ms) = true ->
    forall es, distinct_keys (map fst es) = true ->
    (forall k x, In (k, x) es -> exists m, In m ms /\ k = VStr (name m)) ->
    length (filter (found es) ms) = length es.
  Proof.
    intros Hd. induction es as [|[k0 x0] es IH]; intros Hk Hcov.
    - clear Hcov. induction ms as [|m ms IHm]; [reflexivity|].
      cbn in Hd. apply andb_true_iff in Hd. destruct Hd as [_ Hd]. cbn. unfold found at 1. cbn. apply IHm. assumption.
    - cbn [map distinct_keys] in Hk. apply andb_true_iff in Hk. destruct Hk as [Hk0 Hk].
      destruct (Hcov k0 x0 (or_introl eq_refl)) as (m0 & Hm0 & ->). cbn in Hk0. apply negb_true_iff in Hk0.
      assert (Hfresh : forall e, In e es -> is_vstr (name m0) (fst e) = false).
      { intros e He. apply (existsb_is_vstr_false (name m0) (map fst es) Hk0). apply in_map. assumption. }
      rewrite (cnt_cons_str (name m0) x0 es ms Hd Hfresh). cbn [length].
      assert (Em : mem_str (name m0) (map name ms) = true).
      { unfold mem_str. apply existsb_exists. exists (name m0). split; [apply in_map; assumption|apply str_eqb_refl]. }
      rewrite Em. rewrite IH; [lia|assumption|]. intros k x Hin. apply (Hcov k x). right. assumption.
  Qed.

  Lemma hash_get_some p es y : hash_get p es = Some y -> exists k, In (k, y) es /\ p k = true.
  Proof.
    induction es as [|[k x] es IH]; cbn; [discriminate|]. destruct (p k) eqn:E.
    - intros H. injection H as ->. exists k. auto.
    - intros H. destruct (IH H) as (k' & Hin & Hp). exists k'. auto.
  Qed.
End Count.

(* members of a struct type as pseudo entries: find_member is hash_get on them *)
Definition member_entries (ms : list (str * (ty * ty))) : list (value * value) :=
  map (fun m => (VStr (fst m), VUndef)) ms.

Lemma found_member_entries n ms :
  match hash_get (is_vstr n) (member_entries ms) with Some _ => true | None => false end =
  match find_member n ms with Some _ => true | None => false end.
Proof.
  induction ms as [|[n' kv] ms IH]; [reflexivity|]. cbn. destruct (str_eqb n n'); [reflexivity|exact IH].
Qed.

Lemma existsb_member_entries n ms :
  existsb (is_vstr n) (map fst (member_entries ms)) = mem_str n (map fst ms).
Proof.
  unfold member_entries, mem_str. induction ms as [|[n' kv'] ms IH]; [reflexivity|]. cbn. now rewrite IH.
Qed.

Lemma distinct_member_entries ms : distinct (map fst ms) = true -> distinct_keys (map fst (member_entries ms)) = true.
Proof.
  induction ms as [|[n kv] ms IH]; [reflexivity|]. intros H. cbn [map fst distinct] in H.
  apply andb_true_iff in H. destruct H as [Hn Hd].
  change (negb (existsb (is_vstr n) (map fst (member_entries ms))) && distinct_keys (map fst (member_entries ms)) = true).
  rewrite (IH Hd), andb_true_r, existsb_member_entries. exact Hn.
Qed.

Lemma find_member_in n kv ms : distinct (map fst ms) = true -> In (n, kv) ms -> find_member n ms = Some kv.
Proof.
  induction ms as [|[n' kv'] ms IH]; [intros _ []|]. cbn. intros H Hin. apply andb_true_iff in H. destruct H as [Hn Hd].
  destruct Hin as [Heq|Hin].
  - injection Heq as -> ->. now rewrite str_eqb_refl.
  - destruct (str_eqb_spec n n') as [->|Hne]; [|auto].
    apply negb_true_iff in Hn. exfalso. apply (mem_str_false_in _ _ Hn). apply (in_map fst _ _ Hin).
Qed.

Lemma find_member_some n kv ms : find_member n ms = Some kv -> In (n, kv) ms.
Proof.
  induction ms as [|[n' kv'] ms IH]; cbn; [discriminate|]. destruct (str_eqb_spec n n') as [->|Hne].
  - intros H. injection H as ->. auto.
  - auto.
Qed.

