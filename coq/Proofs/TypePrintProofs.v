(* TypePrintProofs.v — C05 layer L3: the parameters every type prints are accepted by the positional creator
   of its name and give the type back. *)
From Coq Require Import ZArith NArith Bool Lia List.
From PcoreV Require Import Model.Base Model.Ty Model.QuoteLex Model.TypePrint.
Import ListNotations.
Open Scope Z_scope.

Lemma range_ok_spec lo hi : range_ok lo hi = true ->
  min_int64 <= lo <= max_int64 /\ min_int64 <= hi <= max_int64 /\ lo <= hi.
Proof.
  unfold range_ok, in_int64. rewrite !andb_true_iff, !Z.leb_le. tauto.
Qed.

Lemma new_range_ok lo hi : lo <= hi -> new_range lo hi = COk (lo, hi).
Proof. intros H. unfold new_range. destruct (Z.ltb_spec hi lo); [lia|reflexivity]. Qed.

Section L3.
  Variable to_lower : str -> str.
  Variable rx_ok : str -> bool.
  Variable accepts_undef : ty -> bool.
  (* the lattice's answer does not depend on the flag `size != nil` of a Tuple type *)
  Hypothesis accepts_undef_canon : forall t, accepts_undef (canon t) = accepts_undef t.

  Notation reparse := (reparse to_lower rx_ok accepts_undef).
  Notation create := (create to_lower rx_ok accepts_undef).
  Notation ok := (c05_ok to_lower).

  Lemma is_any_canon t : is_any (canon t) = is_any t.
  Proof. destruct t; reflexivity. Qed.
  Lemma is_unit_canon t : is_unit (canon t) = is_unit t.
  Proof. destruct t; reflexivity. Qed.

  (* ---- lists of type parameters ---- *)
  Lemma sequence_types ts (tail : list (gpv (cres ty))) tail' :
    Forall (fun x => reparse x = COk (canon x)) ts ->
    sequence_list tail = COk tail' ->
    sequence_list (map (fun x => GTy (reparse x)) ts ++ tail) = COk (map GTy (map canon ts) ++ tail').
  Proof.
    intros H Ht. induction H as [|x ts Hx _ IH]; [exact Ht|].
    cbn [map app sequence_list sequence_gpv]. rewrite Hx. cbn [cbind]. rewrite IH. reflexivity.
  Qed.

  Lemma all_types_map ts : all_types (map GTy ts) = COk ts.
  Proof. induction ts as [|t ts IH]; [reflexivity|]. cbn [map all_types]. rewrite IH. reflexivity. Qed.

  Lemma has_array_types ts (tail : list pv) :
    has_array (map GTy ts ++ tail) = has_array tail.
  Proof. induction ts as [|t ts IH]; [reflexivity|]. cbn [map app has_array existsb orb]. exact IH. Qed.

  Ltac zb :=
    repeat match goal with
           | |- context [Z.eqb ?a ?b] => destruct (Z.eqb_spec a b); try lia
           | |- context [Z.ltb ?a ?b] => destruct (Z.ltb_spec a b); try lia
           | |- context [Z.leb ?a ?b] => destruct (Z.leb_spec a b); try lia
           end.

  (* ---- lists of scalar parameters ---- *)
  Lemma seq_strs vs (tail : list (gpv (cres ty))) tail' :
    sequence_list tail = COk tail' ->
    sequence_list (map GStr vs ++ tail) = COk (map GStr vs ++ tail').
  Proof.
    intros Ht. induction vs as [|v vs IH]; [exact Ht|].
    cbn [map app sequence_list sequence_gpv cbind]. rewrite IH. reflexivity.
  Qed.

  Lemma seq_strs0 vs : sequence_list (map GStr vs) = COk (map GStr vs).
  Proof.
    pose proof (seq_strs vs [] [] eq_refl) as H. rewrite !app_nil_r in H. exact H.
  Qed.

  Lemma has_array_strs0 vs : has_array (map GStr vs) = false.
  Proof. induction vs as [|t ts IH]; [reflexivity|]. cbn [map has_array existsb orb]. exact IH. Qed.

  Lemma seq_regexps rxs : sequence_list (map GRegexp rxs) = COk (map GRegexp rxs).
  Proof.
    induction rxs as [|v vs IH]; [reflexivity|].
    cbn [map sequence_list sequence_gpv cbind]. rewrite IH. reflexivity.
  Qed.

  Lemma has_array_strs vs (tail : list pv) : has_array (map GStr vs ++ tail) = has_array tail.
  Proof. induction vs as [|t ts IH]; [reflexivity|]. cbn [map app has_array existsb orb]. exact IH. Qed.

  Lemma has_array_regexps rxs : has_array (map GRegexp rxs) = false.
  Proof. induction rxs as [|t ts IH]; [reflexivity|]. cbn [map has_array existsb orb]. exact IH. Qed.

  Lemma enum_values_cons s a r :
    enum_values (GStr s :: a :: r) = cbind (enum_values (a :: r)) (fun vc => COk (s :: fst vc, snd vc)).
  Proof. reflexivity. Qed.

  Lemma enum_values_strs vs : enum_values (map GStr vs) = COk (vs, false).
  Proof.
    induction vs as [|s vs IH]; [reflexivity|].
    destruct vs as [|s2 vs]; [reflexivity|].
    cbn [map] in *. rewrite enum_values_cons, IH. reflexivity.
  Qed.

  Lemma enum_values_strs_flag vs b : enum_values (map GStr vs ++ [GBool b]) = COk (vs, b).
  Proof.
    induction vs as [|s vs IH]; [reflexivity|].
    cbn [map app]. destruct vs as [|s2 vs].
    - reflexivity.
    - cbn [map app] in *. rewrite enum_values_cons, IH. reflexivity.
  Qed.

  Lemma pattern_sources_regexps rxs : pattern_sources rx_ok (map GRegexp rxs) = COk rxs.
  Proof.
    induction rxs as [|r rxs IH]; [reflexivity|]. cbn [map pattern_sources]. rewrite IH. reflexivity.
  Qed.

  Lemma create_enum_multi a b r :
    has_array (a :: b :: r) = false ->
    create NEnum (a :: b :: r) =
    cbind (enum_values (a :: b :: r)) (fun vc => COk (new_enum to_lower (fst vc) (snd vc))).
  Proof. intros H. unfold TypePrint.create. rewrite H. destruct a; reflexivity. Qed.

  Lemma create_variant_multi a b r :
    has_array (a :: b :: r) = false ->
    create NVariant (a :: b :: r) = cbind (all_types (a :: b :: r)) (fun ts => COk (TVariant ts)).
  Proof. intros H. unfold TypePrint.create. rewrite H. destruct a; reflexivity. Qed.

  Lemma map_lower_id vs :
    forallb (fun v => str_eqb (to_lower v) v) vs = true -> map to_lower vs = vs.
  Proof.
    induction vs as [|v vs IH]; [reflexivity|]. cbn [forallb map]. intros H.
    apply andb_true_iff in H. destruct H as [H1 H2]. apply str_eqb_eq in H1. rewrite H1, (IH H2). reflexivity.
  Qed.

  Lemma forall_ok_ih (P : ty -> Prop) ts :
    Forall (fun t => ok t = true -> P t) ts -> forallb ok ts = true -> Forall P ts.
  Proof.
    intros H. induction H as [|t ts Ht _ IH]; intros Hf; [constructor|].
    cbn [forallb] in Hf. apply andb_true_iff in Hf. destruct Hf as [H1 H2].
    constructor; [exact (Ht H1)|exact (IH H2)].
  Qed.

  (* ---- tuples ---- *)
  Lemma tuple_types ts : ts <> [] ->
    tuple_from_args (map GTy ts) = COk (TTuple ts false (Z.of_nat (length ts)) (Z.of_nat (length ts))).
  Proof.
    intros Hne. unfold tuple_from_args. rewrite <- map_rev.
    destruct (rev ts) as [|x r] eqn:E.
    { apply (f_equal (@rev ty)) in E. rewrite rev_involutive in E. cbn in E. contradiction. }
    cbn [map]. rewrite all_types_map, map_length. reflexivity.
  Qed.

  Lemma tuple_sized ts lo hi :
    lo <= hi -> 0 <= hi -> hi <= max_int64 ->
    tuple_from_args (map GTy ts ++ [GInt lo; if hi =? max_int64 then GDefault else GInt hi]) =
    COk (TTuple ts true lo hi).
  Proof.
    intros Hl Hh Hm. unfold tuple_from_args. rewrite rev_app_distr.
    destruct (Z.eqb_spec hi max_int64) as [->|Hne]; cbn [rev app]; cbv zeta.
    - rewrite rev_involutive. rewrite (new_range_ok lo max_int64 Hl). cbn [cbind].
      destruct ts as [|t ts]; [reflexivity|].
      change (map GTy (t :: ts)) with (@GTy ty t :: map GTy ts) at 1. cbv iota.
      rewrite all_types_map. reflexivity.
    - destruct (Z.leb_spec 0 hi); [|lia].
      rewrite rev_involutive. rewrite (new_range_ok lo hi Hl). cbn [cbind].
      destruct ts as [|t ts]; [reflexivity|].
      change (map GTy (t :: ts)) with (@GTy ty t :: map GTy ts) at 1. cbv iota.
      rewrite all_types_map. reflexivity.
  Qed.

  Lemma seq_size_params lo hi :
    sequence_list (size_params lo hi) = COk (size_params lo hi).
  Proof. unfold size_params. destruct (hi =? max_int64); reflexivity. Qed.

  Lemma has_array_size_params lo hi : has_array (size_params lo hi : list pv) = false.
  Proof. unfold size_params. destruct (hi =? max_int64); reflexivity. Qed.

  Lemma resolve_named_nonempty n ps : ps <> [] ->
    resolve_named to_lower rx_ok accepts_undef n ps = cbind (sequence_list ps) (create n).
  Proof. intros H. destruct ps; [contradiction|reflexivity]. Qed.

  (* ---- structs ---- *)
  Lemma seq_hash_entries (kvs : list (gpv (cres ty) * gpv (cres ty))) (kvs' : list (pv * pv)) :
    Forall2 (fun kv kv' => sequence_gpv (fst kv) = COk (fst kv') /\ sequence_gpv (snd kv) = COk (snd kv')) kvs kvs' ->
    sequence_gpv (GHash kvs) = COk (GHash kvs').
  Proof.
    intros H. induction H as [|[k v] [k' v'] r r' [Hk Hv] _ IH]; [reflexivity|].
    cbn [fst snd] in Hk, Hv. cbn [sequence_gpv] in IH |- *. rewrite Hk, Hv. cbn [cbind].
    match type of IH with cbind ?g _ = _ => destruct g as [a| |]; cbn [cbind] in IH |- *; try discriminate IH end.
    injection IH as ->. reflexivity.
  Qed.

  (* the key that StructType.Parameters writes for a member *)
  Definition key_pv (n : str) (k v : ty) : pv :=
    if is_optional k then (if accepts_undef v then GStr n else GTy k)
    else (if accepts_undef v then GTy (TNotUndef k) else GStr n).

  Definition member_ok (m : str * (ty * ty)) : bool :=
    let '(n, (k, v)) := m in
    negb (match n with [] => true | _ => false end) &&
    (match k with
     | TStringVal n' => str_eqb n' n
     | TOptional (TStringVal n') => str_eqb n' n
     | _ => false
     end) && ok v.

  Lemma member_ok_spec n k v : member_ok (n, (k, v)) = true ->
    n <> [] /\ (k = TStringVal n \/ k = TOptional (TStringVal n)) /\ ok v = true.
  Proof.
    unfold member_ok. intros H. apply andb_true_iff in H. destruct H as [H Hv].
    apply andb_true_iff in H. destruct H as [Hn Hk]. split; [destruct n; [discriminate Hn|discriminate]|].
    split; [|exact Hv].
    destruct k; try discriminate Hk.
    - left. apply str_eqb_eq in Hk. subst. reflexivity.
    - right. destruct k; try discriminate Hk. apply str_eqb_eq in Hk. subst. reflexivity.
  Qed.

  Lemma member_seq n k v :
    n <> [] -> (k = TStringVal n \/ k = TOptional (TStringVal n)) -> reparse v = COk (canon v) ->
    sequence_gpv (struct_key reparse (reparse_notundef to_lower rx_ok accepts_undef) accepts_undef n k v)
      = COk (key_pv n k v) /\
    sequence_gpv (GTy (reparse v)) = COk (GTy (canon v)).
  Proof.
    intros Hn Hk Hv. split; [|cbn [sequence_gpv]; rewrite Hv; reflexivity].
    destruct n as [|c n]; [contradiction|].
    unfold struct_key, key_pv. destruct Hk as [-> | ->]; cbn [is_optional]; destruct (accepts_undef v); reflexivity.
  Qed.

  Lemma member_elem n k v :
    n <> [] -> (k = TStringVal n \/ k = TOptional (TStringVal n)) ->
    new_struct_element accepts_undef (key_pv n k v) (canon v) = COk (n, (k, canon v)).
  Proof.
    intros Hn Hk. destruct n as [|c n]; [contradiction|].
    unfold key_pv. destruct Hk as [-> | ->]; cbn [is_optional]; destruct (accepts_undef v) eqn:Ha;
      cbn [new_struct_element]; rewrite ?accepts_undef_canon, ?Ha; reflexivity.
  Qed.

  Lemma reparse_unfold t :
    reparse t = resolve_named to_lower rx_ok accepts_undef (name_of t)
                  (params_gen reparse (reparse_notundef to_lower rx_ok accepts_undef) accepts_undef t).
  Proof. destruct t; reflexivity. Qed.

  Ltac wrapper_case IHt Hok :=
    cbn [params_gen name_of]; unfold wrapper_params;
    match goal with |- context [is_any ?t] => destruct (is_any t) eqn:Ha end;
    [ match goal with H : is_any ?t = true |- _ => destruct t; try discriminate H; reflexivity end
    | match goal with H : is_any ?t = false |- _ =>
        destruct t; try discriminate H; cbn [c05_ok] in Hok; try discriminate Hok;
        try (match goal with s : str |- _ => destruct s; [discriminate Hok|]; reflexivity end);
        rewrite (IHt Hok); reflexivity
      end ].

  Ltac fin := unfold max_int64, min_int64 in *; try reflexivity; try (subst; reflexivity).

  Ltac finr1 := unfold TypePrint.create, size_args, int_or_default, is_zero, is_positive, max_int64, min_int64 in *; zb; simpl;
                 rewrite ?new_range_ok by (unfold max_int64, min_int64 in *; lia); simpl.
  Ltac finr := finr1; finr1; finr1; fin.

  Theorem reparse_canon t : ok t = true -> reparse t = COk (canon t).
  Proof.
    induction t using ty_ind'; intros Hok; cbn [c05_ok] in Hok; try discriminate;
      try (cbn; reflexivity).
    - (* Boolean *) destruct v as [[|]|]; reflexivity.
    - (* Integer *)
      apply range_ok_spec in Hok. unfold min_int64, max_int64 in Hok.
      unfold TypePrint.reparse. cbn [params_gen name_of]. unfold int_params, min_int64, max_int64.
      zb; cbn; unfold new_range, min_int64, max_int64; zb; try subst; reflexivity.
    - (* Float *)
      apply andb_true_iff in Hok. destruct Hok as [Hok H3]. apply andb_true_iff in Hok. destruct Hok as [H1 H2].
      apply Z.leb_le in H1, H2, H3. unfold fmin_key, fmax_key in *.
      unfold TypePrint.reparse. cbn [params_gen name_of]. unfold float_params, fmin_key, fmax_key.
      zb; cbn; unfold new_range, fmin_key, fmax_key; zb; try subst; reflexivity.
    - (* StringSz *)
      apply andb_true_iff in Hok. destruct Hok as [H1 H2].
      apply range_ok_spec in H1. apply negb_true_iff in H2.
      unfold min_int64, max_int64 in *.
      unfold TypePrint.reparse. cbn [params_gen name_of]. unfold int_params, min_int64, max_int64.
      destruct (Z.eqb_spec lo (-9223372036854775808)) as [El|Hl];
        destruct (Z.eqb_spec hi 9223372036854775807) as [Eh|Hh].
      + exfalso. subst lo hi. cbn in H2. discriminate H2.
      + (* default, hi *)
        cbn. unfold new_range, new_string_sized, min_int64, max_int64.
        destruct (Z.ltb_spec hi (-9223372036854775808)); [lia|]. cbn.
        destruct (Z.eqb_spec hi 9223372036854775807); [lia|]. rewrite ?andb_false_r. subst lo. reflexivity.
      + cbn. unfold new_range, new_string_sized, min_int64, max_int64.
        destruct (Z.ltb_spec 9223372036854775807 lo); [lia|]. cbn.
        subst hi. rewrite H2. reflexivity.
      + cbn. unfold new_range, new_string_sized, min_int64, max_int64.
        destruct (Z.ltb_spec hi lo); [lia|]. cbn.
        destruct (Z.eqb_spec hi 9223372036854775807); [lia|]. rewrite !andb_false_r. reflexivity.
    - (* Enum *)
      rewrite (reparse_unfold (TEnum ci vs)). cbn [params_gen name_of canon]. destruct ci.
      + pose proof (map_lower_id vs Hok) as Hl.
        destruct vs as [|s1 vs]; [reflexivity|].
        cbn [map app]. unfold resolve_named.
        change (@GStr (cres ty) s1 :: map GStr vs ++ [GBool true]) with (map (@GStr (cres ty)) (s1 :: vs) ++ [GBool true]).
        rewrite (seq_strs (s1 :: vs) [GBool true] [GBool true]) by reflexivity. cbn [cbind].
        destruct vs as [|s2 vs].
        * cbn [map app]. rewrite create_enum_multi by reflexivity. cbn [enum_values cbind fst snd]. unfold new_enum. rewrite Hl. reflexivity.
        * cbn [map app]. rewrite create_enum_multi by (cbn [has_array existsb orb]; apply (has_array_strs vs [GBool true])).
          change (@GStr ty s1 :: GStr s2 :: map GStr vs ++ [GBool true]) with (map (@GStr ty) (s1 :: s2 :: vs) ++ [GBool true]).
          rewrite enum_values_strs_flag. cbn [cbind fst snd]. unfold new_enum. rewrite Hl. reflexivity.
      + rewrite app_nil_r. destruct vs as [|s1 [|s2 vs]]; [reflexivity|reflexivity|].
        unfold resolve_named. cbn [map].
        change (@GStr (cres ty) s1 :: GStr s2 :: map GStr vs) with (map (@GStr (cres ty)) (s1 :: s2 :: vs)).
        rewrite seq_strs0. cbn [cbind map].
        rewrite create_enum_multi by (apply (has_array_strs0 (s1 :: s2 :: vs))).
        change (@GStr ty s1 :: GStr s2 :: map GStr vs) with (map (@GStr ty) (s1 :: s2 :: vs)).
        rewrite enum_values_strs. reflexivity.
    - (* Pattern *)
      rewrite (reparse_unfold (TPattern rxs)). cbn [params_gen name_of canon].
      destruct rxs as [|r rxs]; [reflexivity|]. unfold resolve_named.
      rewrite seq_regexps. cbn [map cbind]. unfold TypePrint.create.
      change (@GRegexp ty r :: map GRegexp rxs) with (map (@GRegexp ty) (r :: rxs)).
      rewrite has_array_regexps, pattern_sources_regexps. reflexivity.
    - (* Regexp *) destruct p; reflexivity.
    - (* Collection *)
      apply range_ok_spec in Hok. unfold min_int64, max_int64 in Hok.
      unfold TypePrint.reparse. cbn [params_gen name_of]. unfold is_positive, size_params, max_int64.
      destruct (Z.eqb_spec lo 0) as [->|Hl]; destruct (Z.eqb_spec hi 9223372036854775807) as [->|Hh]; cbn;
        unfold new_range, max_int64; zb; reflexivity.
    - (* Array *)
      rewrite (reparse_unfold (TArray t lo hi)). cbn [params_gen name_of canon].
      apply andb_true_iff in Hok. destruct Hok as [He Hr]. specialize (IHt He). apply range_ok_spec in Hr.
      rewrite IHt. unfold is_zero, is_positive, size_params, max_int64, min_int64 in *.
      destruct (is_unit t) eqn:Hu.
      { destruct t; try discriminate Hu. cbn [is_any negb orb andb].
        destruct (Z.eqb_spec lo 0) as [->|Hl]; destruct (Z.eqb_spec hi 0) as [->|Hh]; finr. }
      destruct (is_any t) eqn:Ha.
      { destruct t; try discriminate Ha. cbn [negb orb andb].
        destruct (Z.eqb_spec lo 0) as [Hl|Hl]; destruct (Z.eqb_spec hi 0) as [Hh|Hh];
          destruct (Z.eqb_spec hi 9223372036854775807) as [Hm|Hm]; try lia; finr. }
      cbn [negb orb andb app].
      destruct (Z.eqb_spec lo 0) as [->|Hl]; destruct (Z.eqb_spec hi 9223372036854775807) as [->|Hm]; finr.
    - (* Hash *)
      rewrite (reparse_unfold (THash t1 t2 lo hi)). cbn [params_gen name_of canon].
      apply andb_true_iff in Hok. destruct Hok as [Hok Hr]. apply andb_true_iff in Hok. destruct Hok as [H1 H2].
      specialize (IHt1 H1). specialize (IHt2 H2). apply range_ok_spec in Hr.
      rewrite IHt1, IHt2. unfold is_zero, is_positive, size_params, max_int64, min_int64 in *.
      destruct (is_any t1 && is_any t2) eqn:Ha.
      { apply andb_true_iff in Ha. destruct Ha as [A1 A2].
        destruct t1; try discriminate A1. destruct t2; try discriminate A2. cbn [is_unit andb].
        destruct (Z.eqb_spec lo 0) as [->|Hl]; destruct (Z.eqb_spec hi 9223372036854775807) as [->|Hm]; finr. }
      cbn [andb].
      destruct (is_unit t1 && is_unit t2) eqn:Hu.
      { apply andb_true_iff in Hu. destruct Hu as [U1 U2].
        destruct t1; try discriminate U1. destruct t2; try discriminate U2.
        destruct (Z.eqb_spec lo 0) as [Hl|Hl]; destruct (Z.eqb_spec hi 0) as [Hh|Hh];
          destruct (Z.eqb_spec hi 9223372036854775807) as [Hm|Hm]; try lia; finr. }
      cbn [andb app].
      destruct (Z.eqb_spec lo 0) as [->|Hl]; destruct (Z.eqb_spec hi 9223372036854775807) as [->|Hm]; finr.
    - (* Tuple *)
      rewrite (reparse_unfold (TTuple ts g lo hi)). cbn [params_gen name_of canon].
      apply andb_true_iff in Hok. destruct Hok as [Hok Hh]. apply andb_true_iff in Hok. destruct Hok as [Hf Hr].
      apply range_ok_spec in Hr. apply Z.leb_le in Hh.
      pose proof (forall_ok_ih _ ts H Hf) as Hall.
      destruct (((Z.of_nat (length ts) =? 0) && is_positive lo hi)
                || ((0 <? Z.of_nat (length ts)) && (lo =? Z.of_nat (length ts)) && (hi =? Z.of_nat (length ts)))) eqn:Hc.
      + destruct ts as [|t1 ts].
        * cbn [length Z.of_nat] in Hc. cbn in Hc. rewrite orb_false_r in Hc. unfold is_positive in Hc.
          apply andb_true_iff in Hc. destruct Hc as [Hl0 Hm]. apply Z.eqb_eq in Hl0, Hm. subst. reflexivity.
        * assert (Htop : 0 < Z.of_nat (length (t1 :: ts))) by (cbn [length]; lia).
          replace (Z.of_nat (length (t1 :: ts)) =? 0) with false in Hc by (symmetry; apply Z.eqb_neq; lia).
          cbn [andb orb] in Hc. rewrite Hc.
          apply andb_true_iff in Hc. destruct Hc as [Hc Hhi]. apply andb_true_iff in Hc. destruct Hc as [_ Hlo].
          apply Z.eqb_eq in Hlo, Hhi.
          rewrite resolve_named_nonempty by (cbn [map app]; discriminate).
          rewrite (sequence_types (t1 :: ts) [] [] Hall) by reflexivity. rewrite !app_nil_r. cbn [cbind].
          unfold TypePrint.create. rewrite <- (app_nil_r (map GTy (map canon (t1 :: ts)))) at 1.
          rewrite (has_array_types _ []). cbn [has_array existsb].
          rewrite tuple_types by (cbn [map]; discriminate). rewrite map_length. cbn [negb].
          rewrite Hlo at 1. rewrite Hhi at 1. reflexivity.
      + rewrite resolve_named_nonempty
          by (intro E; apply app_eq_nil in E; destruct E as [_ E]; unfold size_params in E; discriminate).
        rewrite (sequence_types ts _ _ Hall (seq_size_params lo hi)). cbn [cbind].
        unfold TypePrint.create. rewrite has_array_types, has_array_size_params.
        unfold size_params. rewrite tuple_sized by (unfold max_int64, min_int64 in *; lia).
        apply orb_false_iff in Hc. destruct Hc as [_ Hc]. rewrite Hc. reflexivity.
    - (* Struct *)
      rewrite (reparse_unfold (TStruct ms)). cbn [params_gen name_of canon].
      destruct ms as [|m0 ms0]; [reflexivity|]. set (ms := m0 :: ms0) in *.
      change (forallb member_ok ms = true) in Hok.
      rewrite resolve_named_nonempty by discriminate.
      assert (Hent : Forall2 (fun kv kv' => sequence_gpv (fst kv) = COk (fst kv') /\ sequence_gpv (snd kv) = COk (snd kv'))
                       (map (fun m => let '(n, (k, v)) := m in
                                      (struct_key reparse (reparse_notundef to_lower rx_ok accepts_undef) accepts_undef n k v,
                                       GTy (reparse v))) ms)
                       (map (fun m => let '(n, (k, v)) := m in (key_pv n k v, GTy (canon v))) ms)).
      { clearbody ms. clear m0 ms0. induction ms as [|[n [k v]] ms IH]; [constructor|].
        cbn [forallb] in Hok. apply andb_true_iff in Hok. destruct Hok as [Hm Hok].
        apply member_ok_spec in Hm. destruct Hm as [Hn [Hk Hv]].
        inversion H as [|? ? [_ Hpv] Hrest]; subst. cbn [fst snd] in Hpv.
        cbn [map]. constructor; [|exact (IH Hrest Hok)].
        cbn [fst snd]. apply member_seq; [exact Hn|exact Hk|exact (Hpv Hv)]. }
      cbn [sequence_list]. rewrite (seq_hash_entries _ _ Hent). cbn [cbind].
      unfold TypePrint.create, struct_from_args. cbn [has_array existsb orb].
      assert (Hel : struct_elements accepts_undef (map (fun m => let '(n, (k, v)) := m in (key_pv n k v, GTy (canon v))) ms)
                    = COk (map (fun m => let '(n, (k, v)) := m in (n, (k, canon v))) ms)).
      { clearbody ms. clear m0 ms0 Hent H. induction ms as [|[n [k v]] ms IH]; [reflexivity|].
        cbn [forallb] in Hok. apply andb_true_iff in Hok. destruct Hok as [Hm Hok].
        apply member_ok_spec in Hm. destruct Hm as [Hn [Hk Hv]].
        cbn [map struct_elements]. rewrite (member_elem n k v Hn Hk). cbn [cbind]. rewrite (IH Hok). reflexivity. }
      rewrite Hel. reflexivity.
    - (* Variant *)
      rewrite (reparse_unfold (TVariant ts)). cbn [params_gen name_of canon].
      apply andb_true_iff in Hok. destruct Hok as [Hf Hn]. apply negb_true_iff, Nat.eqb_neq in Hn.
      pose proof (forall_ok_ih _ ts H Hf) as Hall.
      destruct ts as [|t1 [|t2 ts]]; [reflexivity|cbn in Hn; congruence|].
      unfold resolve_named.
      rewrite <- (app_nil_r (map (fun x => GTy (reparse x)) (t1 :: t2 :: ts))).
      rewrite (sequence_types (t1 :: t2 :: ts) [] [] Hall) by reflexivity. rewrite !app_nil_r.
      cbn [map cbind]. rewrite create_variant_multi
        by (change (@GTy ty (canon t1) :: GTy (canon t2) :: map GTy (map canon ts)) with (map (@GTy ty) (map canon (t1 :: t2 :: ts)));
            rewrite <- (app_nil_r (map GTy _)); apply (has_array_types _ [])).
      change (@GTy ty (canon t1) :: GTy (canon t2) :: map GTy (map canon ts)) with (map (@GTy ty) (map canon (t1 :: t2 :: ts))).
      rewrite all_types_map. reflexivity.
    - (* Optional *) rewrite (reparse_unfold (TOptional t)). wrapper_case IHt Hok.
    - (* NotUndef *) rewrite (reparse_unfold (TNotUndef t)). wrapper_case IHt Hok.
    - (* Type *)
      rewrite (reparse_unfold (TType t)). cbn [params_gen name_of canon].
      destruct (is_any t) eqn:Ha; [destruct t; try discriminate Ha; reflexivity|].
      rewrite (IHt Hok). reflexivity.
    - (* Sensitive *)
      rewrite (reparse_unfold (TSensitive t)). cbn [params_gen name_of canon].
      destruct (is_any t) eqn:Ha; [destruct t; try discriminate Ha; reflexivity|].
      rewrite (IHt Hok). reflexivity.
  Qed.
  (* ---- the result is a fixed point ---- *)
  Lemma canon_idem t : canon (canon t) = canon t.
  Proof.
    induction t using ty_ind'; cbn [canon]; try reflexivity; try (rewrite ?IHt, ?IHt1, ?IHt2; reflexivity).
    - (* Tuple *) rewrite map_length, map_map. f_equal.
      induction H as [|x l Hx _ IH]; [reflexivity|]. cbn [map]. rewrite Hx, IH. reflexivity.
    - (* Struct *) f_equal. rewrite map_map.
      induction H as [|[n [k v]] l [_ Hv] _ IH]; [reflexivity|]. cbn [map fst snd] in *. rewrite Hv, IH. reflexivity.
    - (* Variant *) f_equal. rewrite map_map.
      induction H as [|x l Hx _ IH]; [reflexivity|]. cbn [map]. rewrite Hx, IH. reflexivity.
  Qed.

  Lemma canon_ok t : ok t = true -> ok (canon t) = true.
  Proof.
    induction t using ty_ind'; cbn [canon c05_ok]; intros Hok; try exact Hok.
    - (* Array *) apply andb_true_iff in Hok. destruct Hok as [H1 H2]. rewrite (IHt H1), H2. reflexivity.
    - (* Hash *) apply andb_true_iff in Hok. destruct Hok as [Hok H3]. apply andb_true_iff in Hok. destruct Hok as [H1 H2].
      rewrite (IHt1 H1), (IHt2 H2), H3. reflexivity.
    - (* Tuple *) apply andb_true_iff in Hok. destruct Hok as [Hok H3]. apply andb_true_iff in Hok. destruct Hok as [H1 H2].
      rewrite H2, H3, !andb_true_r. rewrite forallb_forall in *. intros x Hx. apply in_map_iff in Hx.
      destruct Hx as [y [<- Hy]]. rewrite Forall_forall in H. exact (H y Hy (H1 y Hy)).
    - (* Struct *) rewrite forallb_forall in *. intros m Hm. apply in_map_iff in Hm. destruct Hm as [[n [k v]] [<- Hy]].
      specialize (Hok _ Hy). cbn beta iota in Hok. apply andb_true_iff in Hok. destruct Hok as [Hnk Hv].
      rewrite Forall_forall in H. destruct (H _ Hy) as [_ Hpv]. cbn [fst snd] in Hpv. rewrite Hnk, (Hpv Hv). reflexivity.
    - (* Variant *) apply andb_true_iff in Hok. destruct Hok as [H1 H2]. rewrite map_length, H2, andb_true_r.
      rewrite forallb_forall in *. intros x Hx. apply in_map_iff in Hx.
      destruct Hx as [y [<- Hy]]. rewrite Forall_forall in H. exact (H y Hy (H1 y Hy)).
    - (* Optional *) destruct t; cbn [canon c05_ok] in *; try exact Hok; try exact (IHt Hok).
    - (* NotUndef *) destruct t; cbn [canon c05_ok] in *; try exact Hok; try exact (IHt Hok).
    - (* Type *) exact (IHt Hok).
    - (* Sensitive *) exact (IHt Hok).
  Qed.

  (* a type as the parser builds it (flag canonical) is reproduced exactly *)
  Corollary reparse_fixpoint t : ok t = true -> reparse (canon t) = COk (canon t).
  Proof. intros H. rewrite (reparse_canon (canon t) (canon_ok t H)). rewrite canon_idem. reflexivity. Qed.
End L3.

(* ---- printing does not look at the tuple flag: the parsed type prints the same text again ---- *)
Section PrintStable.
  Variable float_text : Z -> str.
  Variable au : ty -> bool.
  Hypothesis au_canon : forall t, au (canon t) = au t.
  Lemma is_any_canon' t : is_any (canon t) = is_any t. Proof. destruct t; reflexivity. Qed.
  Lemma is_unit_canon' t : is_unit (canon t) = is_unit t. Proof. destruct t; reflexivity. Qed.
  Lemma is_optional_canon t : is_optional (canon t) = is_optional t. Proof. destruct t; reflexivity. Qed.
  Lemma print_unfold t : print_ty float_text au t =
     print_named float_text (name_of t) (params_gen (print_ty float_text au) (print_notundef float_text) au t).
  Proof. destruct t; reflexivity. Qed.
  Theorem print_canon t : print_ty float_text au (canon t) = print_ty float_text au t.
  Proof.
    induction t using ty_ind'; try reflexivity.
    - rewrite (print_unfold (canon (TArray t lo hi))), (print_unfold (TArray t lo hi)).
      cbn [canon name_of params_gen]. rewrite is_unit_canon', is_any_canon', IHt. reflexivity.
    - rewrite (print_unfold (canon (THash t1 t2 lo hi))), (print_unfold (THash t1 t2 lo hi)).
      cbn [canon name_of params_gen]. rewrite !is_unit_canon', !is_any_canon', IHt1, IHt2. reflexivity.
    - rewrite (print_unfold (canon (TTuple ts g lo hi))), (print_unfold (TTuple ts g lo hi)).
      cbn [canon name_of params_gen]. rewrite map_length, map_map. f_equal. f_equal.
      induction H as [|x l Hx _ IH]; [reflexivity|]. cbn [map]. rewrite Hx, IH. reflexivity.
    - (* Struct *)
      rewrite (print_unfold (canon (TStruct ms))), (print_unfold (TStruct ms)). cbn [canon name_of].
      assert (E : map (fun m => let '(n, (k, v)) := m in
                                (struct_key (print_ty float_text au) (print_notundef float_text) au n k v,
                                 @GTy str (print_ty float_text au v)))
                      (map (fun m => let '(n, (k, v)) := m in (n, (k, canon v))) ms)
                  = map (fun m => let '(n, (k, v)) := m in
                                (struct_key (print_ty float_text au) (print_notundef float_text) au n k v,
                                 @GTy str (print_ty float_text au v))) ms).
      { induction H as [|[n [k v]] l [_ Hv] _ IH]; [reflexivity|]. cbn [map fst snd] in *.
        rewrite IH, Hv. unfold struct_key. rewrite au_canon. reflexivity. }
      destruct ms as [|m0 ms0]; [reflexivity|]. cbn [map params_gen] in *. rewrite E. reflexivity.
    - (* Variant *)
      rewrite (print_unfold (canon (TVariant ts))), (print_unfold (TVariant ts)).
      cbn [canon name_of params_gen]. rewrite map_map. f_equal.
      induction H as [|x l Hx _ IH]; [reflexivity|]. cbn [map]. rewrite Hx, IH. reflexivity.
    - (* Optional *)
      rewrite (print_unfold (canon (TOptional t))), (print_unfold (TOptional t)).
      cbn [canon name_of params_gen]. unfold wrapper_params. rewrite is_any_canon'.
      destruct t; cbn [canon is_any] in *; rewrite ?IHt; reflexivity.
    - (* NotUndef *)
      rewrite (print_unfold (canon (TNotUndef t))), (print_unfold (TNotUndef t)).
      cbn [canon name_of params_gen]. unfold wrapper_params. rewrite is_any_canon'.
      destruct t; cbn [canon is_any] in *; rewrite ?IHt; reflexivity.
    - (* Type *)
      rewrite (print_unfold (canon (TType t))), (print_unfold (TType t)).
      cbn [canon name_of params_gen]. rewrite is_any_canon', IHt. reflexivity.
    - (* Sensitive *)
      rewrite (print_unfold (canon (TSensitive t))), (print_unfold (TSensitive t)).
      cbn [canon name_of params_gen]. rewrite is_any_canon', IHt. reflexivity.
  Qed.
End PrintStable.
