(* CollProofsKeyed.v — the index-style code of Model/Coll.v (hfindG = Hash.valueIndex: LAST position of a key,
   set_nth / remove_nth / remove_positions on positions) against plain list functions (find, filter, map),
   over any carrier `ok` of values on which veq is an equivalence relation.
   Proofs/CollProofsEq.v shows that the well-formed values (wf_pv) are such a carrier; Proofs/CollProofs.v
   instantiates this file with it.  Nothing here depends on what `ok` is. *)
From Coq Require Import ZArith NArith Bool List Lia Permutation.
From PcoreV Require Import Model.Base Model.Coll.
Import ListNotations.
Local Open Scope nat_scope.

(* ---------------------------------------------------------------------------------------------- *)
(* "no two equal keys": no key is equal (keq = veq, Model/Coll.v) to a later one *)
Fixpoint nodup_keys (ks : list pv) : bool :=
  match ks with
  | [] => true
  | k :: t => negb (existsb (fun k' => keq k k') t) && nodup_keys t
  end.

(* ---------------------------------------------------------------------------------------------- *)
(* plain list facts *)

Lemma existsb_false {A} (f : A -> bool) l : existsb f l = false <-> forall x, In x l -> f x = false.
Proof.
  induction l as [|a l IH]; cbn [existsb].
  - split; [intros _ x []|reflexivity].
  - rewrite orb_false_iff, IH. split.
    + intros [H1 H2] x [<-|H]; auto.
    + intros H; split; [apply H; now left|intros x Hx; apply H; now right].
Qed.

Lemma existsb_map {A B} (f : B -> bool) (g : A -> B) l : existsb f (map g l) = existsb (fun x => f (g x)) l.
Proof. induction l as [|a l IH]; cbn [map existsb]; [reflexivity|now rewrite IH]. Qed.

Lemma existsb_ext_in {A} (f g : A -> bool) l : (forall x, In x l -> f x = g x) -> existsb f l = existsb g l.
Proof.
  induction l as [|a l IH]; cbn [existsb]; intros H; [reflexivity|].
  rewrite H by now left. rewrite IH; [reflexivity|]. intros x Hx; apply H; now right.
Qed.

Lemma filter_ext_in' {A} (f g : A -> bool) l : (forall x, In x l -> f x = g x) -> filter f l = filter g l.
Proof.
  induction l as [|a l IH]; cbn [filter]; intros H; [reflexivity|].
  rewrite H by now left. rewrite IH; [reflexivity|]. intros x Hx; apply H; now right.
Qed.

Lemma filter_all {A} (f : A -> bool) l : (forall x, In x l -> f x = true) -> filter f l = l.
Proof.
  induction l as [|a l IH]; cbn [filter]; intros H; [reflexivity|].
  rewrite H by now left. f_equal. apply IH. intros x Hx; apply H; now right.
Qed.

Lemma set_nth_length {A} i (x : A) l : length (set_nth i x l) = length l.
Proof. revert i; induction l as [|a l IH]; intros [|i]; cbn [set_nth length]; auto. Qed.

Lemma set_nth_app_l {A} i (x : A) l1 l2 : i < length l1 -> set_nth i x (l1 ++ l2) = set_nth i x l1 ++ l2.
Proof.
  revert i; induction l1 as [|a l1 IH]; intros i H; cbn [length] in H; [lia|].
  destruct i as [|i]; cbn [set_nth app]; [reflexivity|]. rewrite IH by lia. reflexivity.
Qed.

Lemma set_nth_In {A} i (x y : A) l : In y (set_nth i x l) -> y = x \/ In y l.
Proof.
  revert i; induction l as [|a l IH]; intros [|i]; cbn [set_nth]; intros H; auto.
  - destruct H as [<-|H]; [now left|right; now right].
  - destruct H as [<-|H]; [right; now left|]. destruct (IH _ H); [now left|right; now right].
Qed.

Lemma nth_error_ext {A} (l1 l2 : list A) : (forall i, nth_error l1 i = nth_error l2 i) -> l1 = l2.
Proof.
  revert l2; induction l1 as [|a l1 IH]; intros [|b l2] H.
  - reflexivity.
  - specialize (H 0); discriminate.
  - specialize (H 0); discriminate.
  - pose proof (H 0) as H0; cbn in H0. inversion H0; subst. f_equal. apply IH. intros i. apply (H (S i)).
Qed.

(* sub-sequences: what deletion, selection and slicing return *)
Inductive sublist {A} : list A -> list A -> Prop :=
| sl_nil : sublist [] []
| sl_skip x l1 l2 : sublist l1 l2 -> sublist l1 (x :: l2)
| sl_keep x l1 l2 : sublist l1 l2 -> sublist (x :: l1) (x :: l2).

Lemma sublist_refl {A} (l : list A) : sublist l l.
Proof. induction l; [apply sl_nil|apply sl_keep; auto]. Qed.

Lemma sublist_nil {A} (l : list A) : sublist [] l.
Proof. induction l; [apply sl_nil|apply sl_skip; auto]. Qed.

Lemma sublist_In {A} (l1 l2 : list A) x : sublist l1 l2 -> In x l1 -> In x l2.
Proof.
  induction 1 as [|y l1 l2 H IH|y l1 l2 H IH]; cbn [In]; intros Hx; auto.
  destruct Hx; auto.
Qed.

Lemma sublist_Forall {A} (P : A -> Prop) l1 l2 : sublist l1 l2 -> Forall P l2 -> Forall P l1.
Proof. intros H F. rewrite Forall_forall in *. intros x Hx. apply F. eapply sublist_In; eauto. Qed.

Lemma sublist_filter {A} (f : A -> bool) l : sublist (filter f l) l.
Proof. induction l as [|a l IH]; cbn [filter]; [apply sl_nil|]. destruct (f a); [apply sl_keep|apply sl_skip]; auto. Qed.

Lemma sublist_firstn {A} n (l : list A) : sublist (firstn n l) l.
Proof.
  revert n; induction l as [|a l IH]; intros [|n]; cbn [firstn]; try apply sl_nil; [apply sublist_nil|apply sl_keep; auto].
Qed.

Lemma sublist_skipn {A} n (l : list A) : sublist (skipn n l) l.
Proof.
  revert n; induction l as [|a l IH]; intros [|n]; cbn [skipn]; try apply sl_nil; [apply sublist_refl|apply sl_skip; auto].
Qed.

Lemma sublist_trans {A} (l1 l2 l3 : list A) : sublist l1 l2 -> sublist l2 l3 -> sublist l1 l3.
Proof.
  intros H12 H23; revert l1 H12; induction H23 as [|x l2 l3 H IH|x l2 l3 H IH]; intros l1 H12.
  - assumption.
  - apply sl_skip; auto.
  - inversion H12; subst; [apply sl_skip|apply sl_keep]; auto.
Qed.

Lemma sublist_remove_nth {A} i (l : list A) : sublist (remove_nth i l) l.
Proof.
  revert i; induction l as [|a l IH]; intros [|i]; cbn [remove_nth]; try apply sl_nil;
    [apply sl_skip, sublist_refl|apply sl_keep; auto].
Qed.

Lemma sublist_remove_positions {A} d i (l : list A) : sublist (remove_positions d i l) l.
Proof.
  revert i; induction l as [|a l IH]; intros i; cbn [remove_positions]; [apply sl_nil|].
  destruct (existsb (Nat.eqb i) d); [apply sl_skip|apply sl_keep]; auto.
Qed.

Lemma sublist_map {A B} (f : A -> B) l1 l2 : sublist l1 l2 -> sublist (map f l1) (map f l2).
Proof. induction 1; cbn [map]; [apply sl_nil|apply sl_skip|apply sl_keep]; auto. Qed.

(* ---------------------------------------------------------------------------------------------- *)
(* value equality is an equivalence relation on the carrier `ok` *)
Definition equiv_on (ok : pv -> Prop) : Prop :=
  (forall a, ok a -> veq a a = true) /\
  (forall a b, ok a -> ok b -> veq a b = true -> veq b a = true) /\
  (forall a b c, ok a -> ok b -> ok c -> veq a b = true -> veq b c = true -> veq a c = true).

Section Equiv.
  Variable ok : pv -> Prop.
  Hypothesis ok_equiv : equiv_on ok.

  Lemma ok_refl : forall a, ok a -> veq a a = true.
  Proof. apply ok_equiv. Qed.
  Lemma ok_sym : forall a b, ok a -> ok b -> veq a b = true -> veq b a = true.
  Proof. apply ok_equiv. Qed.
  Lemma ok_trans : forall a b c, ok a -> ok b -> ok c -> veq a b = true -> veq b c = true -> veq a c = true.
  Proof. apply ok_equiv. Qed.

  Local Hint Resolve ok_refl ok_sym ok_trans : core.

  Lemma ok_comm a b : ok a -> ok b -> veq a b = veq b a.
  Proof.
    intros Ha Hb. destruct (veq a b) eqn:E1, (veq b a) eqn:E2; auto.
    - rewrite (ok_sym a b) in E2; auto.
    - rewrite (ok_sym b a) in E1; auto.
  Qed.

  (* a ~ k and b ~ k give a ~ b *)
  Lemma ok_join a b k : ok a -> ok b -> ok k -> veq a k = true -> veq b k = true -> veq a b = true.
  Proof. intros Ha Hb Hk H1 H2. apply (ok_trans a k b); auto. Qed.

  (* equal values match the same keys *)
  Lemma ok_cong_r a k k' : ok a -> ok k -> ok k' -> veq k k' = true -> veq a k = veq a k'.
  Proof.
    intros Ha Hk Hk' H. destruct (veq a k) eqn:E1, (veq a k') eqn:E2; auto.
    - rewrite (ok_trans a k k') in E2; auto.
    - rewrite (ok_trans a k' k) in E1; auto.
  Qed.

  Section Keyed.
    Context {E : Type} (key : E -> pv).

    Definition oks (es : list E) : Prop := Forall (fun e => ok (key e)) es.

    Fixpoint nodupG (es : list E) : bool :=
      match es with
      | [] => true
      | e :: t => negb (existsb (fun e' => keq (key e) (key e')) t) && nodupG t
      end.

    Lemma nodup_keys_map es : nodup_keys (map key es) = nodupG es.
    Proof.
      induction es as [|e t IH]; cbn [map nodup_keys nodupG]; [reflexivity|].
      now rewrite existsb_map, IH.
    Qed.

    Lemma nodupG_cons e t : nodupG (e :: t) = true <->
      (forall e', In e' t -> veq (key e) (key e') = false) /\ nodupG t = true.
    Proof.
      cbn [nodupG]. unfold keq. rewrite andb_true_iff, negb_true_iff, existsb_false. reflexivity.
    Qed.

    Lemma oks_cons e t : oks (e :: t) <-> ok (key e) /\ oks t.
    Proof. unfold oks. split; [intros H; inversion H; auto|intros [? ?]; constructor; auto]. Qed.

    Lemma oks_In es e : oks es -> In e es -> ok (key e).
    Proof. unfold oks. rewrite Forall_forall. auto. Qed.

    Lemma nodupG_sublist l1 l2 : sublist l1 l2 -> nodupG l2 = true -> nodupG l1 = true.
    Proof.
      induction 1 as [|x l1 l2 H IH|x l1 l2 H IH]; intros Hn; auto.
      - apply nodupG_cons in Hn as [_ Hn]. auto.
      - apply nodupG_cons in Hn as [Hx Hn]. apply nodupG_cons. split; [|auto].
        intros e' He'. apply Hx. eapply sublist_In; eauto.
    Qed.

    Lemma nodupG_app l1 l2 : nodupG (l1 ++ l2) = true <->
      nodupG l1 = true /\ nodupG l2 = true /\
      (forall a b, In a l1 -> In b l2 -> veq (key a) (key b) = false).
    Proof.
      induction l1 as [|x l1 IH]; cbn [app].
      - split; [intros H; repeat split; auto; intros a b []|tauto].
      - rewrite !nodupG_cons, IH. split.
        + intros (Hx & H1 & H2 & H3). repeat split; auto.
          * intros e' He'. apply Hx. apply in_or_app; now left.
          * intros a b [<-|Ha] Hb; [apply Hx; apply in_or_app; now right|auto].
        + intros ((Hx & H1) & H2 & H3). repeat split; auto.
          * intros e' He'. apply in_app_or in He' as [He'|He']; [auto|apply H3; [now left|assumption]].
          * intros a b Ha Hb. apply H3; [now right|assumption].
    Qed.

    (* an entry whose key matches k is the only one *)
    Lemma head_unique e t k : oks (e :: t) -> ok k -> nodupG (e :: t) = true ->
      veq (key e) k = true -> existsb (fun e' => keq (key e') k) t = false.
    Proof.
      intros Ho Hk Hn Hm. apply oks_cons in Ho as [He Ht]. apply nodupG_cons in Hn as [Hn _].
      apply existsb_false. intros e' Hin. unfold keq.
      destruct (veq (key e') k) eqn:E'; [|reflexivity].
      specialize (Hn e' Hin). rewrite (ok_join (key e) (key e') k) in Hn by eauto using oks_In. discriminate.
    Qed.

    Lemma uniq_match es k e1 e2 : oks es -> ok k -> nodupG es = true ->
      In e1 es -> In e2 es -> veq (key e1) k = true -> veq (key e2) k = true -> e1 = e2.
    Proof.
      intros Ho Hk. induction es as [|e t IH]; intros Hn H1 H2 M1 M2; [destruct H1|].
      pose proof (fun Hm => proj1 (existsb_false _ _) (head_unique e t k Ho Hk Hn Hm)) as Hu. unfold keq in Hu.
      destruct H1 as [<-|H1], H2 as [<-|H2]; auto.
      - rewrite (Hu M1 _ H2) in M2; discriminate.
      - rewrite (Hu M2 _ H1) in M1; discriminate.
      - apply oks_cons in Ho as [_ Ho]. apply nodupG_cons in Hn as [_ Hn]. auto.
    Qed.

    (* ---- Hash.valueIndex ---- *)

    Lemma hfind_none es k : hfindG key es k = None <-> existsb (fun e => keq (key e) k) es = false.
    Proof.
      induction es as [|e t IH]; cbn [hfindG existsb]; [tauto|].
      destruct (hfindG key t k) as [i|].
      - split; [discriminate|]. intros H. apply orb_false_iff in H as [_ H]. apply IH in H. discriminate.
      - destruct (keq (key e) k); cbn [orb]; [split; discriminate|]. tauto.
    Qed.

    Lemma hfind_some es k i : hfindG key es k = Some i ->
      exists e, nth_error es i = Some e /\ veq (key e) k = true.
    Proof.
      revert i; induction es as [|e t IH]; cbn [hfindG]; intros i H; [discriminate|].
      destruct (hfindG key t k) as [j|].
      - inversion H; subst. cbn [nth_error]. auto.
      - unfold keq in H. destruct (veq (key e) k) eqn:Em; [|discriminate]. inversion H; subst. cbn. eauto.
    Qed.

    Lemma hfind_lt es k i : hfindG key es k = Some i -> i < length es.
    Proof. intros H. apply hfind_some in H as (e & H & _). apply nth_error_Some. congruence. Qed.

    (* with one entry per key the indexed position is the position of THE entry with that key *)
    Lemma hfind_iff es k i : oks es -> ok k -> nodupG es = true ->
      (hfindG key es k = Some i <-> exists e, nth_error es i = Some e /\ veq (key e) k = true).
    Proof.
      intros Ho Hk Hn. split; [apply hfind_some|]. intros (e & Hi & Hm).
      revert i Hi; induction es as [|e0 t IH]; intros i Hi; [destruct i; discriminate|].
      cbn [hfindG]. destruct i as [|i]; cbn [nth_error] in Hi.
      - inversion Hi; subst e0. apply (head_unique e t k Ho Hk Hn) in Hm as Hu.
        apply hfind_none in Hu. rewrite Hu. unfold keq. now rewrite Hm.
      - apply oks_cons in Ho as [_ Ho]. apply nodupG_cons in Hn as [_ Hn]. now rewrite (IH Ho Hn i Hi).
    Qed.

    (* Get: the entry at the indexed position is the first (the only) entry whose key matches *)
    Lemma hfind_find es k : oks es -> ok k -> nodupG es = true ->
      match hfindG key es k with Some i => nth_error es i | None => None end
      = find (fun e => keq (key e) k) es.
    Proof.
      intros Ho Hk. induction es as [|e t IH]; intros Hn; cbn [hfindG find]; [reflexivity|].
      unfold keq in *. destruct (veq (key e) k) eqn:Em.
      - apply (head_unique e t k Ho Hk Hn) in Em as Hu. apply hfind_none in Hu. rewrite Hu.
        reflexivity.
      - apply oks_cons in Ho as [_ Ho]. apply nodupG_cons in Hn as [_ Hn]. specialize (IH Ho Hn).
        destruct (hfindG key t k) as [i|]; cbn [nth_error]; exact IH.
    Qed.

    Lemma find_iff es k e : oks es -> ok k -> nodupG es = true ->
      (find (fun e => keq (key e) k) es = Some e <-> In e es /\ veq (key e) k = true).
    Proof.
      intros Ho Hk Hn. split; [apply find_some|]. intros [Hi Hm].
      destruct (find (fun e => keq (key e) k) es) as [e'|] eqn:Ef.
      - apply find_some in Ef as [Hi' Hm']. f_equal. eapply uniq_match; eauto.
      - apply (find_none _ _ Ef) in Hi. unfold keq in Hi. congruence.
    Qed.

    (* ---- Hash.Delete: removing the indexed position = filtering out the key ---- *)
    Lemma hash_delete_filter es k : oks es -> ok k -> nodupG es = true ->
      hash_deleteG key es k = filter (fun e => negb (keq (key e) k)) es.
    Proof.
      intros Ho Hk. unfold hash_deleteG.
      induction es as [|e t IH]; intros Hn; cbn [hfindG filter]; [reflexivity|].
      unfold keq in *. destruct (veq (key e) k) eqn:Em; cbn [negb].
      - apply (head_unique e t k Ho Hk Hn) in Em as Hu. pose proof Hu as Hu'. apply hfind_none in Hu. rewrite Hu.
        cbn [remove_nth]. symmetry. apply filter_all. intros x Hx.
        rewrite existsb_false in Hu'. unfold keq in Hu'. now rewrite Hu'.
      - apply oks_cons in Ho as [_ Ho]. apply nodupG_cons in Hn as [_ Hn]. specialize (IH Ho Hn).
        destruct (hfindG key t k) as [i|]; cbn [remove_nth]; now rewrite <- IH.
    Qed.

    (* ---- Hash.DeleteAll: removing the indexed positions of all given keys = filtering out those keys ---- *)
    Lemma doomed_iff es ks j e : oks es -> Forall ok ks -> nodupG es = true -> nth_error es j = Some e ->
      existsb (Nat.eqb j) (doomed_ofG key es ks) = existsb (fun k => keq (key e) k) ks.
    Proof.
      intros Ho Hks Hn Hj. unfold doomed_ofG.
      induction ks as [|k ks IH]; cbn [flat_map existsb]; [reflexivity|].
      inversion Hks as [|? ? Hk Hks']; subst. rewrite existsb_app, IH by assumption. f_equal.
      unfold keq. destruct (veq (key e) k) eqn:Em.
      - assert (H : hfindG key es k = Some j) by (apply hfind_iff; eauto).
        rewrite H. cbn [existsb]. now rewrite Nat.eqb_refl.
      - destruct (hfindG key es k) as [i|] eqn:Hf; cbn [existsb]; [|reflexivity].
        rewrite orb_false_r. apply Nat.eqb_neq. intros <-.
        apply hfind_some in Hf as (e' & Hj' & Hm'). congruence.
    Qed.

    Lemma remove_positions_filter (g : E -> bool) d : forall l i,
      (forall j e, nth_error l j = Some e -> existsb (Nat.eqb (i + j)) d = g e) ->
      remove_positions d i l = filter (fun e => negb (g e)) l.
    Proof.
      induction l as [|x t IH]; intros i H; cbn [remove_positions filter]; [reflexivity|].
      pose proof (H 0 x eq_refl) as H0. rewrite Nat.add_0_r in H0. rewrite H0.
      rewrite (IH (S i)); [destruct (g x); reflexivity|].
      intros j e Hj. rewrite <- (H (S j) e Hj). f_equal. f_equal. lia.
    Qed.

    Lemma hash_delete_all_filter es ks : oks es -> Forall ok ks -> nodupG es = true ->
      remove_positions (doomed_ofG key es ks) 0 es
      = filter (fun e => negb (existsb (fun k => keq (key e) k) ks)) es.
    Proof.
      intros Ho Hks Hn. apply remove_positions_filter. intros j e Hj. cbn [Nat.add].
      now apply doomed_iff.
    Qed.

    (* ---- one entry per key is kept by the operations that put entries ---- *)

    (* replacing an entry by one with an equal key *)
    Lemma nodupG_set_nth es i e0 e : oks es -> ok (key e) -> nodupG es = true ->
      nth_error es i = Some e0 -> veq (key e0) (key e) = true -> nodupG (set_nth i e es) = true.
    Proof.
      intros Ho He. revert i; induction es as [|h t IH]; intros i Hn Hi Hm; [destruct i; discriminate|].
      apply oks_cons in Ho as Ho'. destruct Ho' as [Hh Ht]. apply nodupG_cons in Hn as Hn'. destruct Hn' as [Hx Hn'].
      destruct i as [|i]; cbn [nth_error] in Hi; cbn [set_nth]; apply nodupG_cons.
      - inversion Hi; subst h. split; [|assumption]. intros e' He'.
        destruct (veq (key e) (key e')) eqn:Eq1; [|reflexivity].
        specialize (Hx e' He'). rewrite (ok_trans (key e0) (key e) (key e')) in Hx by eauto using oks_In. discriminate.
      - split; [|apply IH; auto]. intros e' He'. apply set_nth_In in He' as [->|He']; [|auto].
        assert (He0 : In e0 t) by (eapply nth_error_In; eauto).
        destruct (veq (key h) (key e)) eqn:Eq1; [|reflexivity].
        specialize (Hx e0 He0). rewrite (ok_trans (key h) (key e) (key e0)) in Hx by eauto using oks_In. discriminate.
    Qed.

    Lemma oks_set_nth es i e : oks es -> ok (key e) -> oks (set_nth i e es).
    Proof.
      unfold oks. rewrite !Forall_forall. intros H He x Hx. apply set_nth_In in Hx as [->|Hx]; auto.
    Qed.

    Lemma put_entry_inv es e : oks es -> ok (key e) -> nodupG es = true ->
      oks (put_entryG key es e) /\ nodupG (put_entryG key es e) = true.
    Proof.
      intros Ho He Hn. unfold put_entryG. destruct (hfindG key es (key e)) as [i|] eqn:Hf.
      - apply hfind_some in Hf as (e0 & Hi & Hm). split; [now apply oks_set_nth|eapply nodupG_set_nth; eauto].
      - apply hfind_none in Hf. rewrite existsb_false in Hf. split.
        + apply Forall_app; split; [assumption|constructor; auto].
        + apply nodupG_app. repeat split; auto.
          intros a b Ha [<-|[]]. apply Hf, Ha.
    Qed.

    Lemma unique_entries_inv es : oks es ->
      oks (unique_entriesG key es) /\ nodupG (unique_entriesG key es) = true.
    Proof.
      unfold unique_entriesG. intros Ho.
      assert (G : forall acc, oks acc -> nodupG acc = true ->
                  oks (fold_left (put_entryG key) es acc) /\ nodupG (fold_left (put_entryG key) es acc) = true).
      { induction es as [|e t IH]; intros acc Ha Hn; cbn [fold_left]; [auto|].
        apply oks_cons in Ho as [He Ht]. destruct (put_entry_inv acc e Ha He Hn) as [Ha' Hn']. auto. }
      apply G; [constructor|reflexivity].
    Qed.

    Lemma put_entry_In es e x : In x (put_entryG key es e) -> x = e \/ In x es.
    Proof.
      unfold put_entryG. destruct (hfindG key es (key e)); intros H.
      - now apply set_nth_In in H.
      - apply in_app_or in H as [H|[<-|[]]]; auto.
    Qed.

    Lemma unique_entries_In es x : In x (unique_entriesG key es) -> In x es.
    Proof.
      unfold unique_entriesG.
      assert (G : forall acc, In x (fold_left (put_entryG key) es acc) -> In x acc \/ In x es).
      { induction es as [|e t IH]; intros acc H; cbn [fold_left] in H; [auto|].
        apply IH in H as [H|H]; [|right; now right].
        apply put_entry_In in H as [->|H]; [right; now left|now left]. }
      intros H. apply G in H as [[]|H]. assumption.
    Qed.

    (* ---- mergeEntries: replace in place, append the new ones in the order of the operand ---- *)

    Definition repl (oh : list E) (h : E) : E :=
      match find (fun e' => keq (key h) (key e')) oh with Some e' => e' | None => h end.
    Definition is_new (hv : list E) (e' : E) : bool := negb (existsb (fun h => keq (key h) (key e')) hv).

    (* step 1 (no assumption): the positions below the receiver's length are updated, the rest is appended *)
    Definition upd_step (hv : list E) (A : list E) (e : E) : list E :=
      match hfindG key hv (key e) with Some i => set_nth i e A | None => A end.

    Lemma merge_split hv oh : forall A B, length A = length hv ->
      fold_left (fun all e => match hfindG key hv (key e) with
                              | Some i => set_nth i e all
                              | None => all ++ [e]
                              end) oh (A ++ B)
      = fold_left (upd_step hv) oh A ++ B ++ filter (is_new hv) oh.
    Proof.
      induction oh as [|e oh IH]; intros A B HA; cbn [fold_left filter].
      - now rewrite app_nil_r.
      - unfold upd_step at 2, is_new at 1. destruct (hfindG key hv (key e)) as [i|] eqn:Hf.
        + assert (Hex : existsb (fun h => keq (key h) (key e)) hv = true).
          { destruct (existsb (fun h => keq (key h) (key e)) hv) eqn:Ex; [reflexivity|].
            apply hfind_none in Ex. congruence. }
          rewrite Hex. cbn [negb]. apply hfind_lt in Hf. rewrite set_nth_app_l by lia.
          apply IH. now rewrite set_nth_length.
        + apply hfind_none in Hf. rewrite Hf. cbn [negb]. rewrite <- app_assoc.
          rewrite (IH A (B ++ [e]) HA). rewrite <- app_assoc. reflexivity.
    Qed.

    (* step 2: position by position *)
    Fixpoint upd1 (hv : list E) (e : E) (A : list E) : list E :=
      match hv, A with
      | h :: hv', a :: A' => if keq (key h) (key e) then e :: A' else a :: upd1 hv' e A'
      | _, _ => A
      end.

    Lemma upd_step_upd1 hv e : oks hv -> ok (key e) -> nodupG hv = true ->
      forall A, length A = length hv -> upd_step hv A e = upd1 hv e A.
    Proof.
      intros Ho He. unfold upd_step.
      induction hv as [|h t IH]; intros Hn A HA.
      - destruct A; [reflexivity|discriminate].
      - destruct A as [|a A']; [discriminate|]. cbn [hfindG upd1]. unfold keq in *.
        destruct (veq (key h) (key e)) eqn:Em.
        + apply (head_unique h t (key e) Ho He Hn) in Em as Hu. apply hfind_none in Hu. now rewrite Hu.
        + apply oks_cons in Ho as [_ Ho]. apply nodupG_cons in Hn as [_ Hn].
          cbn [length] in HA. specialize (IH Ho Hn A' ltac:(lia)).
          destruct (hfindG key t (key e)) as [i|]; cbn [set_nth]; now rewrite <- IH.
    Qed.

    Definition pick (oh : list E) (ha : E * E) : E :=
      match find (fun e' => keq (key (fst ha)) (key e')) oh with Some e' => e' | None => snd ha end.

    Lemma map_pick_nil hv : forall A, length A = length hv -> map (pick []) (combine hv A) = A.
    Proof.
      induction hv as [|h t IH]; intros [|a A] H; try discriminate; cbn [combine map]; [reflexivity|].
      unfold pick at 1; cbn [find snd]. f_equal. apply IH. cbn in H; lia.
    Qed.

    Lemma upd1_length hv e : forall A, length (upd1 hv e A) = length A.
    Proof.
      induction hv as [|h t IH]; intros [|a A]; cbn [upd1]; try reflexivity.
      destruct (keq (key h) (key e)); cbn [length]; [reflexivity|now rewrite IH].
    Qed.

    (* one more operand entry e0 in front: e0 goes to the position of its key; nothing else of the operand
       has that key (the operand has one entry per key) and no other position has it (so has the receiver) *)
    Lemma pick_cons hv e0 oh : oks hv -> oks (e0 :: oh) -> nodupG hv = true -> nodupG (e0 :: oh) = true ->
      forall A, length A = length hv ->
      map (pick oh) (combine hv (upd1 hv e0 A)) = map (pick (e0 :: oh)) (combine hv A).
    Proof.
      intros Ho Hoo Hn Hno. apply oks_cons in Hoo as Hoo'. destruct Hoo' as [He0 Hoh].
      induction hv as [|h t IH]; intros A HA; [reflexivity|].
      destruct A as [|a A']; [discriminate|]. cbn [upd1].
      apply oks_cons in Ho as Ho'. destruct Ho' as [Hh Ht]. apply nodupG_cons in Hn as Hn'. destruct Hn' as [Hx Hnt].
      unfold keq at 1. destruct (veq (key h) (key e0)) eqn:Em; cbn [combine map].
      - f_equal.
        + unfold pick; cbn [fst snd find]. unfold keq. rewrite Em.
          (* no entry of oh has the key of h *)
          destruct (find (fun e' => veq (key h) (key e')) oh) as [e'|] eqn:Ef; [|reflexivity].
          apply find_some in Ef as [Hin Hm']. apply nodupG_cons in Hno as [Hy _].
          specialize (Hy e' Hin). rewrite (ok_join (key e0) (key e') (key h)) in Hy by eauto using oks_In.
          discriminate.
        + (* no other position has the key of e0 *)
          apply map_ext_in. intros [h' a'] Hin. apply in_combine_l in Hin.
          unfold pick; cbn [fst snd find]. unfold keq.
          destruct (veq (key h') (key e0)) eqn:Em'; [|reflexivity].
          specialize (Hx h' Hin). rewrite (ok_join (key h) (key h') (key e0)) in Hx by eauto using oks_In. discriminate.
      - f_equal.
        + unfold pick; cbn [fst snd find]. unfold keq. now rewrite Em.
        + apply IH; auto; cbn in HA; lia.
    Qed.

    Lemma fold_upd1_pick hv : oks hv -> nodupG hv = true ->
      forall oh, oks oh -> nodupG oh = true -> forall A, length A = length hv ->
      fold_left (fun A e => upd1 hv e A) oh A = map (pick oh) (combine hv A).
    Proof.
      intros Ho Hn. induction oh as [|e0 oh IH]; intros Hoo Hno A HA; cbn [fold_left].
      - symmetry. now apply map_pick_nil.
      - apply oks_cons in Hoo as Hoo'. destruct Hoo' as [He0 Hoh]. apply nodupG_cons in Hno as Hno'. destruct Hno' as [_ Hnoh].
        rewrite IH by (auto; now rewrite upd1_length). now apply pick_cons.
    Qed.

    Lemma fold_upd_step_upd1 hv oh : oks hv -> oks oh -> nodupG hv = true ->
      forall A, length A = length hv ->
      fold_left (upd_step hv) oh A = fold_left (fun A e => upd1 hv e A) oh A.
    Proof.
      intros Ho Hoo Hn. induction oh as [|e oh IH]; intros A HA; cbn [fold_left]; [reflexivity|].
      apply oks_cons in Hoo as [He Hoh]. rewrite upd_step_upd1 by auto. apply IH; auto. now rewrite upd1_length.
    Qed.

    Lemma map_pick_self hv oh : map (pick oh) (combine hv hv) = map (repl oh) hv.
    Proof. induction hv as [|h t IH]; cbn [combine map]; [reflexivity|]. now rewrite IH. Qed.

    Theorem merge_entries_spec hv oh : oks hv -> oks oh -> nodupG hv = true -> nodupG oh = true ->
      merge_entriesG key hv oh = map (repl oh) hv ++ filter (is_new hv) oh.
    Proof.
      intros Ho Hoo Hn Hno. unfold merge_entriesG.
      pose proof (merge_split hv oh hv [] eq_refl) as Hs. rewrite app_nil_r in Hs. cbn [app] in Hs. rewrite Hs.
      rewrite fold_upd_step_upd1, fold_upd1_pick, map_pick_self; auto.
    Qed.

    (* the merged hash has one entry per key *)
    Lemma repl_key oh h : ok (key h) -> oks oh -> ok (key (repl oh h)) /\ veq (key h) (key (repl oh h)) = true.
    Proof.
      intros Hh Hoh. unfold repl. destruct (find (fun e' => keq (key h) (key e')) oh) as [e'|] eqn:Ef.
      - apply find_some in Ef as [Hin Hm]. split; [eauto using oks_In|exact Hm].
      - auto.
    Qed.

    Lemma nodupG_map_equiv (g : E -> E) hv :
      (forall h, ok (key h) -> ok (key (g h)) /\ veq (key h) (key (g h)) = true) ->
      oks hv -> nodupG hv = true -> oks (map g hv) /\ nodupG (map g hv) = true.
    Proof.
      intros Hg. induction hv as [|h t IH]; intros Ho Hn; cbn [map]; [split; [constructor|reflexivity]|].
      apply oks_cons in Ho as [Hh Ht]. apply nodupG_cons in Hn as [Hx Hn]. destruct (IH Ht Hn) as [IH1 IH2].
      destruct (Hg h Hh) as [Hgh Hm]. split; [apply oks_cons; auto|]. apply nodupG_cons. split; [|assumption].
      intros e' He'. apply in_map_iff in He' as (x & <- & Hx'). pose proof (oks_In _ _ Ht Hx') as Hxo.
      destruct (Hg x Hxo) as [Hgx Hmx].
      destruct (veq (key (g h)) (key (g x))) eqn:Eq1; [|reflexivity].
      specialize (Hx x Hx').
      assert (Hc : veq (key h) (key x) = true).
      { apply (ok_trans _ (key (g h))); auto. apply (ok_trans _ (key (g x))); auto. }
      congruence.
    Qed.

    Lemma merge_spec_inv hv oh : oks hv -> oks oh -> nodupG hv = true -> nodupG oh = true ->
      oks (map (repl oh) hv ++ filter (is_new hv) oh) /\
      nodupG (map (repl oh) hv ++ filter (is_new hv) oh) = true.
    Proof.
      intros Ho Hoo Hn Hno.
      destruct (nodupG_map_equiv (repl oh) hv (fun h Hh => repl_key oh h Hh Hoo) Ho Hn) as [H1 H2].
      pose proof (sublist_filter (is_new hv) oh) as Hs.
      split; [apply Forall_app; split; [exact H1|exact (sublist_Forall _ _ _ Hs Hoo)]|].
      apply nodupG_app. repeat split; [exact H2|exact (nodupG_sublist _ _ Hs Hno)|].
      intros a b Ha Hb. apply in_map_iff in Ha as (h & <- & Hh). apply filter_In in Hb as [Hb Hnew].
      unfold is_new in Hnew. apply negb_true_iff in Hnew. rewrite existsb_false in Hnew. specialize (Hnew h Hh).
      unfold keq in Hnew. destruct (repl_key oh h (oks_In _ _ Ho Hh) Hoo) as [Hr Hm].
      destruct (veq (key (repl oh h)) (key b)) eqn:Eq1; [|reflexivity].
      rewrite (ok_trans (key h) (key (repl oh h)) (key b)) in Hnew by eauto using oks_In. discriminate.
    Qed.

    (* ---- order-insensitive: a permutation of the entries keeps one entry per key (Sort) ---- *)
    Lemma existsb_perm (f : E -> bool) l l' : Permutation l l' -> existsb f l = existsb f l'.
    Proof.
      induction 1; cbn [existsb]; auto.
      - now rewrite IHPermutation.
      - rewrite !orb_assoc. f_equal. apply orb_comm.
      - congruence.
    Qed.

    Lemma nodupG_perm l l' : Permutation l l' -> oks l -> nodupG l = true -> nodupG l' = true.
    Proof.
      induction 1 as [|x l l' HP IH|x y l|l l' l'' HP1 IH1 HP2 IH2]; intros Ho Hn; auto.
      - apply oks_cons in Ho as [Hx Ho]. cbn [nodupG] in *. apply andb_true_iff in Hn as [H1 H2].
        rewrite <- (existsb_perm _ _ _ HP), H1, IH; auto.
      - apply oks_cons in Ho as [Hy Ho]. apply oks_cons in Ho as [Hx Ho].
        cbn [nodupG existsb] in *. unfold keq in *. rewrite (ok_comm (key x) (key y)) by assumption.
        destruct (veq (key y) (key x)); cbn [orb negb andb] in *; [discriminate|].
        apply andb_true_iff in Hn as [H1 Hn]. apply andb_true_iff in Hn as [H2 Hn]. now rewrite H1, H2, Hn.
      - apply IH2; auto. unfold oks in *. eapply Permutation_Forall; eauto.
    Qed.
  End Keyed.

  (* ---- element-wise equality of sequences ---- *)
  Fixpoint veq_list (la lb : list pv) : bool :=
    match la, lb with
    | [], [] => true
    | x :: la', y :: lb' => veq x y && veq_list la' lb'
    | _, _ => false
    end.

  Lemma veq_list_refl l : Forall ok l -> veq_list l l = true.
  Proof. induction 1 as [|x l Hx Hl IH]; cbn [veq_list]; [reflexivity|]. now rewrite ok_refl, IH. Qed.

  Lemma veq_list_sym la : forall lb, Forall ok la -> Forall ok lb -> veq_list la lb = true -> veq_list lb la = true.
  Proof.
    induction la as [|x la IH]; intros [|y lb] Ha Hb H; cbn [veq_list] in *; try discriminate; [reflexivity|].
    inversion Ha as [|? ? Hax Hal]; inversion Hb as [|? ? Hbx Hbl]; subst. apply andb_true_iff in H as [H1 H2].
    rewrite (ok_sym x y), IH; auto.
  Qed.

  Lemma veq_list_trans la : forall lb lc, Forall ok la -> Forall ok lb -> Forall ok lc ->
    veq_list la lb = true -> veq_list lb lc = true -> veq_list la lc = true.
  Proof.
    induction la as [|x la IH]; intros [|y lb] [|z lc] Ha Hb Hc H1 H2; cbn [veq_list] in *; try discriminate; [reflexivity|].
    inversion Ha as [|? ? Hax Hal]; inversion Hb as [|? ? Hbx Hbl]; inversion Hc as [|? ? Hcx Hcl]; subst.
    apply andb_true_iff in H1 as [H1 H1']. apply andb_true_iff in H2 as [H2 H2'].
    rewrite (ok_trans x y z), (IH lb lc); auto.
  Qed.

  (* ---- equality of hashes: same length, every entry of the first has its key in the second with an equal value ---- *)
  Definition fm (eb : list (pv * pv)) (k : pv) : option (pv * pv) := find (fun e' => veq k (fst e')) eb.
  Definition hsub (ea eb : list (pv * pv)) : bool :=
    forallb (fun e => match fm eb (fst e) with Some e' => veq (snd e) (snd e') | None => false end) ea.
  Definition heq (ea eb : list (pv * pv)) : bool := Nat.eqb (length ea) (length eb) && hsub ea eb.

  Definition okE (e : pv * pv) : Prop := ok (fst e) /\ ok (snd e).

  Lemma okE_oks es : Forall okE es -> oks fst es.
  Proof. unfold oks. apply Forall_impl. intros e [H _]; exact H. Qed.

  (* the first match of k in a hash with one entry per key is THE entry with that key *)
  Lemma fm_iff es k e : Forall okE es -> ok k -> nodupG fst es = true ->
    (fm es k = Some e <-> In e es /\ veq k (fst e) = true).
  Proof.
    intros Ho Hk Hn. unfold fm. split; [apply find_some|]. intros [Hi Hm].
    destruct (find (fun e' => veq k (fst e')) es) as [e'|] eqn:Ef.
    - apply find_some in Ef as [Hi' Hm']. f_equal. pose proof (okE_oks _ Ho) as Ho'.
      apply (uniq_match fst es k e' e); auto; apply ok_sym; eauto using oks_In.
    - apply (find_none _ _ Ef) in Hi. congruence.
  Qed.

  Lemma hsub_forall ea eb : hsub ea eb = true <->
    forall e, In e ea -> exists e', fm eb (fst e) = Some e' /\ veq (snd e) (snd e') = true.
  Proof.
    unfold hsub. rewrite forallb_forall. split; intros H e He; specialize (H e He).
    - destruct (fm eb (fst e)) as [e'|]; [eauto|discriminate].
    - destruct H as (e' & -> & H). exact H.
  Qed.

  Lemma heq_refl es : Forall okE es -> nodupG fst es = true -> heq es es = true.
  Proof.
    intros Ho Hn. unfold heq. rewrite Nat.eqb_refl. cbn [andb]. apply hsub_forall. intros e He.
    pose proof (proj1 (Forall_forall _ _) Ho e He) as [Hk Hv].
    exists e. split; [apply fm_iff; auto|auto].
  Qed.

  (* every key of ea is in eb, ea has one entry per key and eb is not longer: every key of eb is in ea *)
  Lemma pigeon : forall ea eb : list (pv * pv), oks fst ea -> oks fst eb -> nodupG fst ea = true ->
    length eb <= length ea ->
    (forall e, In e ea -> exists e', In e' eb /\ veq (fst e) (fst e') = true) ->
    forall e', In e' eb -> exists e, In e ea /\ veq (fst e) (fst e') = true.
  Proof.
    induction ea as [|x ea IH]; intros eb Ha Hb Hn Hl Hsub e' He'.
    - destruct eb; [destruct He'|cbn in Hl; lia].
    - apply oks_cons in Ha as Ha'. destruct Ha' as [Hx Ha']. apply nodupG_cons in Hn as Hn'. destruct Hn' as [Hxn Hn'].
      destruct (Hsub x (or_introl eq_refl)) as (y & Hy & Hxy).
      apply in_split in Hy as (eb1 & eb2 & ->).
      assert (Hb' : oks fst (eb1 ++ eb2)).
      { unfold oks in *. apply Forall_app in Hb as [H1 H2]. inversion H2; subst. apply Forall_app; auto. }
      assert (Hy : ok (fst y)).
      { unfold oks in Hb. apply Forall_app in Hb as [_ H2]. now inversion H2. }
      assert (Hsub' : forall e, In e ea -> exists e', In e' (eb1 ++ eb2) /\ veq (fst e) (fst e') = true).
      { intros e He. destruct (Hsub e (or_intror He)) as (e2 & He2 & Hm). exists e2. split; [|exact Hm].
        apply in_app_or in He2 as [He2|[<-|He2]]; apply in_or_app; auto.
        (* e matches y, and so does x: x and e have equal keys *)
        specialize (Hxn e He). rewrite (ok_join (fst x) (fst e) (fst y)) in Hxn by eauto using oks_In. discriminate. }
      assert (Hl' : length (eb1 ++ eb2) <= length ea).
      { rewrite app_length in *. cbn [length] in Hl. lia. }
      apply in_app_or in He' as [He'|[<-|He']].
      + destruct (IH _ Ha' Hb' Hn' Hl' Hsub' e' (in_or_app _ _ _ (or_introl He'))) as (e & He & Hm).
        exists e; split; [now right|exact Hm].
      + exists x; split; [now left|exact Hxy].
      + destruct (IH _ Ha' Hb' Hn' Hl' Hsub' e' (in_or_app _ _ _ (or_intror He'))) as (e & He & Hm).
        exists e; split; [now right|exact Hm].
  Qed.

  Lemma heq_sym ea eb : Forall okE ea -> Forall okE eb -> nodupG fst ea = true -> nodupG fst eb = true ->
    heq ea eb = true -> heq eb ea = true.
  Proof.
    intros Ha Hb Hna Hnb H. unfold heq in *. apply andb_true_iff in H as [Hl Hs].
    apply Nat.eqb_eq in Hl. rewrite Hl, Nat.eqb_refl. cbn [andb].
    rewrite hsub_forall in Hs |- *.
    assert (Hsub : forall e, In e ea -> exists e', In e' eb /\ veq (fst e) (fst e') = true).
    { intros e He. destruct (Hs e He) as (e' & Hf & _). apply find_some in Hf. eauto. }
    intros e' He'.
    destruct (pigeon ea eb (okE_oks _ Ha) (okE_oks _ Hb) Hna ltac:(lia) Hsub e' He') as (e & He & Hm).
    pose proof (proj1 (Forall_forall _ _) Ha e He) as [Hk Hv].
    pose proof (proj1 (Forall_forall _ _) Hb e' He') as [Hk' Hv'].
    exists e. split; [apply fm_iff; auto|].
    destruct (Hs e He) as (e2 & Hf & Hvv). apply fm_iff in Hf as [He2 Hm2]; auto.
    (* e2 and e' are both the entry of eb with the key of e *)
    assert (e2 = e').
    { apply (uniq_match fst eb (fst e)); eauto using okE_oks; apply ok_sym; auto.
      exact (proj1 (proj1 (Forall_forall _ _) Hb e2 He2)). }
    subst e2. apply ok_sym; auto.
  Qed.

  Lemma heq_trans ea eb ec : Forall okE ea -> Forall okE eb -> Forall okE ec -> nodupG fst ec = true ->
    heq ea eb = true -> heq eb ec = true -> heq ea ec = true.
  Proof.
    intros Ha Hb Hc Hnc H1 H2. unfold heq in *.
    apply andb_true_iff in H1 as [Hl1 Hs1]. apply andb_true_iff in H2 as [Hl2 Hs2].
    apply Nat.eqb_eq in Hl1, Hl2. rewrite Hl1, Hl2, Nat.eqb_refl. cbn [andb].
    rewrite hsub_forall in *. intros e He.
    destruct (Hs1 e He) as (e' & Hf1 & Hv1). apply find_some in Hf1 as [He' Hm1].
    destruct (Hs2 e' He') as (e'' & Hf2 & Hv2). apply find_some in Hf2 as [He'' Hm2].
    pose proof (proj1 (Forall_forall _ _) Ha e He) as [Hk Hv].
    pose proof (proj1 (Forall_forall _ _) Hb e' He') as [Hk' Hv'].
    pose proof (proj1 (Forall_forall _ _) Hc e'' He'') as [Hk'' Hv''].
    exists e''. split.
    - apply fm_iff; auto. split; [assumption|]. apply (ok_trans _ (fst e')); auto.
    - apply (ok_trans _ (snd e')); auto.
  Qed.
End Equiv.
