(* LatticeSound.v — C01: assignability is sound with respect to instance-of. *)
From Coq Require Import ZArith NArith Bool List Lia.
From PcoreV Require Import Model.Base Model.Ty Model.Lattice Proofs.LatticeUnfold Proofs.LatticeBasics.
Import ListNotations.
Open Scope Z_scope.

Section Sound.
  Variable rx : str -> str -> bool.
  Variable hs' : bool.
  Notation asg := (asg rx false).
  Notation inst := (inst rx hs').
  Notation recv := (recv rx false asg).

  Definition sub (a b : ty) : Prop := forall x, wf_val x = true -> inst b x = true -> inst a x = true.
  Definition good (t : ty) : Prop := wf_ty t = true /\ no_unit t = true.

  Lemma gstep_sound a :
    (forall b, good b -> recv a b = true -> sub a b) ->
    forall b, good b -> asg a b = true -> sub a b.
  Proof.
    intros Hrecv. induction b using ty_ind'; intros Hg Ha; rewrite asg_unfold in Ha; unfold gstep in Ha;
      (destruct (is_any a) eqn:Ea; [apply is_any_eq in Ea; subst; intros x _ _; reflexivity|]);
      cbv iota beta in Ha; try (apply Hrecv; assumption).
    - (* Unit *) destruct Hg as [_ Hn]; discriminate.
    - (* Variant *) intros x Hx Hi. cbn in Hi. apply existsb_exists in Hi. destruct Hi as (t & Ht & Hi).
      destruct Hg as [Hw Hn]. cbn in Hw, Hn. rewrite forallb_forall in Ha, Hw, Hn.
      rewrite Forall_forall in H. apply (H t Ht); [split; auto|auto|exact Hx|exact Hi].
    - (* Optional *) destruct (nullable a) eqn:En; [|discriminate]. intros x Hx Hi.
      destruct x; try (cbn in Hi; apply (IHb Hg Ha); assumption).
      rewrite <- (nullable_inst rx hs'). exact En.
    - (* NotUndef *) destruct (nullable b) eqn:En; [apply Hrecv; assumption|].
      intros x Hx Hi. destruct x; try (cbn in Hi; apply (IHb Hg Ha); assumption). discriminate.
  Qed.

  Ltac atomic := intros b Hgb Hr; destruct b; cbn in Hr; try discriminate;
                 intros x Hx Hi; destruct x; cbn in Hi |- *; try discriminate; try reflexivity.

  Lemma recv_boolean v : forall b, good b -> recv (TBoolean v) b = true -> sub (TBoolean v) b.
  Proof.
    atomic. destruct v as [y|]; [|reflexivity]. destruct v0 as [z|]; cbn in Hr; [|discriminate].
    apply eqb_prop in Hr. subst. exact Hi.
  Qed.

  Lemma recv_integer lo hi : forall b, good b -> recv (TInteger lo hi) b = true -> sub (TInteger lo hi) b.
  Proof. atomic. eapply in_size_sub; eauto. Qed.

  Lemma recv_float lo hi : forall b, good b -> recv (TFloat lo hi) b = true -> sub (TFloat lo hi) b.
  Proof. atomic. eapply in_size_sub; eauto. Qed.

  Lemma flat4_sound c1 c2 c3 c4 b x :
    good b -> flat c1 b || flat c2 b || flat c3 b || flat c4 b = true -> inst b x = true ->
    flat_inst c1 x = true \/ flat_inst c2 x = true \/ flat_inst c3 x = true \/ flat_inst c4 x = true.
  Proof.
    intros [_ Hn] H Hi. repeat rewrite orb_true_iff in H.
    destruct H as [[[H|H]|H]|H]; eauto 6 using (flat_sound rx hs').
  Qed.

  Lemma recv_scalar : forall b, good b -> recv TScalar b = true -> sub TScalar b.
  Proof.
    intros b Hgb Hr x Hx Hi.
    assert (Hc : b = TScalar \/ b = TScalarData \/
                 flat FString b || flat FNumeric b || flat FBoolean b || flat FRegexp b = true)
      by (destruct b; auto).
    destruct Hc as [->|[->|Hc]]; [destruct x; try discriminate; reflexivity..|].
    destruct (flat4_sound _ _ _ _ _ _ Hgb Hc Hi) as [H|[H|[H|H]]]; destruct x; try discriminate; reflexivity.
  Qed.

  Lemma recv_scalardata : forall b, good b -> recv TScalarData b = true -> sub TScalarData b.
  Proof.
    intros b Hgb Hr x Hx Hi.
    assert (Hc : b = TScalarData \/
                 flat FString b || flat FInteger b || flat FBoolean b || flat FFloat b = true)
      by (destruct b; auto).
    destruct Hc as [->|Hc]; [destruct x; try discriminate; reflexivity|].
    destruct (flat4_sound _ _ _ _ _ _ Hgb Hc Hi) as [H|[H|[H|H]]]; destruct x; try discriminate; reflexivity.
  Qed.

  Lemma lower_byte_class b :
    (N.ltb (lower_ascii_byte b) 128 || N.leb 192 (lower_ascii_byte b)) = (N.ltb b 128 || N.leb 192 b).
  Proof.
    unfold lower_ascii_byte. destruct (N.leb 65 b && N.leb b 90) eqn:E; [|reflexivity].
    apply andb_true_iff in E. destruct E as [E1 E2]. apply N.leb_le in E1, E2.
    assert (H1 : N.ltb (b + 32) 128 = true) by (apply N.ltb_lt; lia).
    assert (H2 : N.ltb b 128 = true) by (apply N.ltb_lt; lia). now rewrite H1, H2.
  Qed.

  Lemma rune_count_lower s : rune_count (lower_ascii s) = rune_count s.
  Proof.
    unfold rune_count, lower_ascii. f_equal. induction s as [|b s IH]; cbn; [reflexivity|].
    rewrite lower_byte_class. destruct (N.ltb b 128 || N.leb 192 b); cbn; now rewrite IH.
  Qed.

  Lemma lower_byte_idem b : lower_ascii_byte (lower_ascii_byte b) = lower_ascii_byte b.
  Proof.
    unfold lower_ascii_byte. destruct (N.leb 65 b && N.leb b 90) eqn:E; [|now rewrite E].
    apply andb_true_iff in E. destruct E as [E1 E2]. apply N.leb_le in E1, E2.
    assert (H : N.leb (b + 32) 90 = false) by (apply N.leb_gt; lia). now rewrite H, andb_false_r.
  Qed.

  Lemma lower_idem s : lower_ascii (lower_ascii s) = lower_ascii s.
  Proof. unfold lower_ascii. rewrite map_map. apply map_ext. apply lower_byte_idem. Qed.

  Lemma mem_str_in s l : mem_str s l = true <-> In s l.
  Proof.
    unfold mem_str. rewrite existsb_exists. split.
    - intros (y & Hy & He). apply str_eqb_eq in He. now subst.
    - intros H. exists s. split; [assumption|apply str_eqb_refl].
  Qed.

  Lemma enum_inst_nonempty ci vs s : vs <> [] -> enum_inst ci vs s = mem_str (if ci then lower_ascii s else s) vs.
  Proof. destruct vs; [congruence|reflexivity]. Qed.

  Lemma length_eqb_nil {A} (l : list A) : Nat.eqb (length l) 0 = true <-> l = [].
  Proof. destruct l; cbn; split; congruence. Qed.
  Lemma length_neqb_nil {A} (l : list A) : negb (Nat.eqb (length l) 0) = true <-> l <> [].
  Proof. destruct l; cbn; split; congruence. Qed.

  Lemma recv_stringsz lo hi : forall b, good b -> recv (TStringSz lo hi) b = true -> sub (TStringSz lo hi) b.
  Proof.
    atomic.
    - eapply in_size_sub; eauto.
    - apply str_eqb_eq in Hi. now subst.
    - apply andb_true_iff in Hr. destruct Hr as [Hne Hall]. apply length_neqb_nil in Hne.
      rewrite enum_inst_nonempty in Hi by assumption. apply mem_str_in in Hi.
      rewrite forallb_forall in Hall. specialize (Hall _ Hi).
      destruct ci; [now rewrite rune_count_lower in Hall|assumption].
  Qed.

  Lemma recv_stringval s : forall b, good b -> recv (TStringVal s) b = true -> sub (TStringVal s) b.
  Proof. atomic. apply str_eqb_eq in Hr, Hi. subst. apply str_eqb_refl. Qed.

  Lemma recv_enum ci vs : forall b, good b -> recv (TEnum ci vs) b = true -> sub (TEnum ci vs) b.
  Proof.
    intros b Hgb Hr. destruct vs as [|v0 vs].
    - destruct b; cbn in Hr; try discriminate; intros x Hx Hi; destruct x; cbn in Hi |- *; try discriminate; reflexivity.
    - set (l := v0 :: vs) in *. assert (Hl : l <> []) by (subst l; congruence).
      destruct b; try (cbn in Hr; discriminate); intros x Hx Hi; destruct x; try (cbn in Hi; discriminate).
      + (* StringVal *) cbn in Hi. apply str_eqb_eq in Hi. subst. exact Hr.
      + (* Enum *) cbn in Hr. cbn [Lattice.inst] in *.
        apply andb_true_iff in Hr. destruct Hr as [Hr Hall]. apply andb_true_iff in Hr. destruct Hr as [Hne Hci].
        apply length_neqb_nil in Hne. rewrite enum_inst_nonempty in Hi by assumption. apply mem_str_in in Hi.
        rewrite forallb_forall in Hall. specialize (Hall _ Hi).
        rewrite enum_inst_nonempty in Hall |- * by assumption.
        destruct ci0; cbn in Hci.
        * rewrite orb_false_r in Hci. subst ci. now rewrite lower_idem in Hall.
        * exact Hall.
  Qed.

  Lemma recv_pattern rxs : forall b, good b -> recv (TPattern rxs) b = true -> sub (TPattern rxs) b.
  Proof.
    intros b Hgb Hr. destruct b; try (cbn in Hr; discriminate); intros x Hx Hi; destruct x; try (cbn in Hi; discriminate);
      cbn in Hr; cbn [Lattice.inst] in *.
    - (* String *) now rewrite Hr.
    - (* StringVal *) apply str_eqb_eq in Hi. now subst.
    - (* Enum *) apply orb_true_iff in Hr. destruct Hr as [Hr|Hr]; [now rewrite Hr|].
      apply andb_true_iff in Hr. destruct Hr as [Hr Hall]. apply andb_true_iff in Hr. destruct Hr as [Hci Hne].
      apply length_neqb_nil in Hne. rewrite enum_inst_nonempty in Hi by assumption. apply mem_str_in in Hi.
      destruct ci; [discriminate|]. rewrite forallb_forall in Hall. rewrite (Hall _ Hi). apply orb_true_r.
    - (* Pattern *) apply orb_true_iff in Hr. destruct Hr as [Hr|Hr]; [now rewrite Hr|].
      apply andb_true_iff in Hr. destruct Hr as [Hne Hall]. apply length_neqb_nil in Hne.
      apply orb_true_iff in Hi. destruct Hi as [Hi|Hi]; [apply length_eqb_nil in Hi; congruence|].
      apply orb_true_iff. right. unfold matches_any in *. apply existsb_exists in Hi. destruct Hi as (p & Hp & Hm).
      rewrite forallb_forall in Hall. specialize (Hall _ Hp). apply mem_str_in in Hall.
      apply existsb_exists. eauto.
  Qed.

  Lemma recv_regexp p : forall b, good b -> recv (TRegexp p) b = true -> sub (TRegexp p) b.
  Proof.
    atomic. apply orb_true_iff in Hr. destruct Hr as [Hr|Hr]; [now rewrite Hr|].
    apply str_eqb_eq in Hr. subst. exact Hi.
  Qed.

  (* ---- receivers with type parameters: IH = soundness for the parameters ---- *)
  Definition IH (t : ty) : Prop := good t -> forall b, good b -> asg t b = true -> sub t b.

  Lemma inst_any x : inst TAny x = true.  Proof. reflexivity. Qed.

  Lemma good_any : good TAny.  Proof. split; reflexivity. Qed.

  Definition walk := fix walk (ts : list ty) (vs : list value) {struct ts} : bool :=
    match ts, vs with
    | [], _ => true
    | _, [] => true
    | [t], v :: vs' => inst t v && forallb (inst t) vs'
    | t :: ts', v :: vs' => inst t v && walk ts' vs'
    end.

  Lemma walk_nil_r ts : walk ts [] = true.
  Proof. destruct ts as [|t [|t' ts]]; reflexivity. Qed.

  Lemma walk_in ts : ts <> [] -> forall vs, walk ts vs = true -> forall v, In v vs -> exists t, In t ts /\ inst t v = true.
  Proof.
    induction ts as [|t ts IHts]; [congruence|]. intros _ vs Hw v Hv.
    destruct vs as [|v0 vs]; [destruct Hv|]. destruct ts as [|t' ts].
    - cbn in Hw. apply andb_true_iff in Hw. destruct Hw as [H0 Hall]. rewrite forallb_forall in Hall.
      exists t. split; [left; reflexivity|]. destruct Hv as [<-|Hv]; auto.
    - change (inst t v0 && walk (t' :: ts) vs = true) in Hw. apply andb_true_iff in Hw. destruct Hw as [H0 Hw].
      destruct Hv as [<-|Hv]; [exists t; split; [left; reflexivity|assumption]|].
      destruct (IHts ltac:(congruence) vs Hw v Hv) as (u & Hu & Hi). exists u. split; [right; assumption|assumption].
  Qed.

  Lemma walk_all ts vs : (forall t v, In t ts -> In v vs -> inst t v = true) -> walk ts vs = true.
  Proof.
    revert vs; induction ts as [|t ts IHts]; intros vs H; [reflexivity|].
    destruct vs as [|v0 vs]; [apply walk_nil_r|]. destruct ts as [|t' ts].
    - cbn. rewrite (H t v0) by (cbn; auto). cbn. apply forallb_forall. intros v Hv. apply H; cbn; auto.
    - change (inst t v0 && walk (t' :: ts) vs = true). rewrite (H t v0) by (cbn; auto). cbn.
      apply IHts. intros u v Hu Hv. apply H; cbn; auto.
  Qed.

  Lemma zlen_le0_nil {A} (l : list A) : (zlen l <=? 0) = true -> l = [].
  Proof. destruct l; [reflexivity|]. unfold zlen; cbn [length]. intros H. apply Z.leb_le in H. lia. Qed.

  Lemma in_size_hi0 {A} lo hi (l : list A) : in_size lo hi (zlen l) = true -> (hi <=? 0) = true -> l = [].
  Proof.
    unfold in_size. intros H H0. apply zlen_le0_nil. apply andb_true_iff in H. destruct H as [_ H].
    apply Z.leb_le in H, H0. apply Z.leb_le. lia.
  Qed.

  Lemma wf_val_arr vs v : wf_val (VArr vs) = true -> In v vs -> wf_val v = true.
  Proof. cbn. rewrite forallb_forall. auto. Qed.

  Lemma recv_array e lo hi : IH e -> good (TArray e lo hi) ->
    forall b, good b -> recv (TArray e lo hi) b = true -> sub (TArray e lo hi) b.
  Proof.
    intros IHe [Hwa Hna] b [Hwb Hnb] Hr. cbn in Hwa, Hna. assert (Hge : good e) by (split; assumption).
    destruct b; try (cbn in Hr; discriminate); intros x Hx Hi; destruct x; try (cbn in Hi; discriminate);
      cbn in Hr, Hwb, Hnb; cbn [Lattice.inst] in *;
      apply andb_true_iff in Hr; destruct Hr as [Hsz Hr]; apply andb_true_iff in Hi; destruct Hi as [Hisz Hi];
      rewrite (in_size_sub _ _ _ _ _ Hsz Hisz); cbn [andb]; apply orb_true_iff; right; apply forallb_forall; intros v Hv;
      pose proof (wf_val_arr _ _ Hx Hv) as Hwv.
    - (* Array *) assert (Hs : sub e b) by (apply IHe; [assumption|split; assumption|assumption]).
      apply Hs; [assumption|]. apply orb_true_iff in Hi. destruct Hi as [Hi|Hi].
      + apply is_any_eq in Hi. subst. reflexivity.
      + rewrite forallb_forall in Hi. auto.
    - (* Tuple *) change (walk ts vs = true) in Hi. destruct ts as [|t0 ts].
      + apply orb_true_iff in Hr. destruct Hr as [Hr|Hr].
        * rewrite (in_size_hi0 _ _ _ Hisz Hr) in Hv. destruct Hv.
        * assert (Hs : sub e TAny) by (apply IHe; [assumption|apply good_any|assumption]). apply Hs; auto.
      + destruct (walk_in (t0 :: ts) ltac:(congruence) vs Hi v Hv) as (t & Ht & Hit).
        apply andb_true_iff in Hwb. destruct Hwb as [_ Hwb]. rewrite forallb_forall in Hr, Hwb, Hnb.
        assert (Hs : sub e t) by (apply IHe; [assumption|split; auto|auto]). apply Hs; assumption.
  Qed.

  Lemma recv_variant ts : Forall IH ts -> good (TVariant ts) ->
    forall b, good b -> recv (TVariant ts) b = true -> sub (TVariant ts) b.
  Proof.
    intros IHts [Hwa Hna] b Hgb Hr x Hx Hi. cbn in Hwa, Hna, Hr |- *.
    apply existsb_exists in Hr. destruct Hr as (t & Ht & Hr). apply existsb_exists. exists t. split; [assumption|].
    rewrite Forall_forall in IHts. rewrite forallb_forall in Hwa, Hna.
    assert (Hs : sub t b) by (apply (IHts t Ht); [split; auto|assumption|assumption]). apply Hs; assumption.
  Qed.

  Lemma recv_optional t : IH t -> good (TOptional t) ->
    forall b, good b -> recv (TOptional t) b = true -> sub (TOptional t) b.
  Proof.
    intros IHt [Hwa Hna] b Hgb Hr x Hx Hi. cbn in Hwa, Hna, Hr.
    apply orb_true_iff in Hr. destruct Hr as [Hr|Hr].
    - destruct Hgb as [_ Hnb]. pose proof (flat_sound rx hs' FUndef b Hnb Hr x Hi) as Hf.
      destruct x; try discriminate. reflexivity.
    - assert (Hs : sub t b) by (apply IHt; [split; assumption|assumption|assumption]).
      specialize (Hs x Hx Hi). destruct x; cbn; auto.
  Qed.

  Lemma recv_notundef t : IH t -> good (TNotUndef t) ->
    forall b, good b -> recv (TNotUndef t) b = true -> sub (TNotUndef t) b.
  Proof.
    intros IHt [Hwa Hna] b Hgb Hr x Hx Hi. cbn in Hwa, Hna, Hr.
    apply andb_true_iff in Hr. destruct Hr as [Hnu Hr].
    assert (Hs : sub t b) by (apply IHt; [split; assumption|assumption|assumption]).
    specialize (Hs x Hx Hi). destruct x; cbn; auto.
    rewrite (nullable_inst rx hs') in Hnu. rewrite Hi in Hnu. discriminate.
  Qed.

  Lemma recv_type t : forall b, good b -> recv (TType t) b = true -> sub (TType t) b.
  Proof. intros b Hgb Hr x Hx Hi. destruct b; try (cbn in Hr; discriminate). destruct x; try (cbn in Hi; discriminate). Qed.

  Lemma recv_sensitive t : IH t -> good (TSensitive t) ->
    forall b, good b -> recv (TSensitive t) b = true -> sub (TSensitive t) b.
  Proof.
    intros IHt [Hwa Hna] b [Hwb Hnb] Hr x Hx Hi. destruct b; try (cbn in Hr; discriminate).
    destruct x; try (cbn in Hi; discriminate). cbn in *.
    assert (Hs : sub t b) by (apply IHt; [split; assumption|split; assumption|assumption]). auto.
  Qed.

  Theorem sound_explore : forall a, good a -> forall b, good b -> asg a b = true -> sub a b.
  Proof.
    induction a using ty_ind'; intros Hga; apply gstep_sound.
    all: try (atomic; fail).
    all: auto using recv_boolean, recv_integer, recv_float, recv_scalar, recv_scalardata, recv_stringsz, recv_stringval,
      recv_enum, recv_pattern, recv_regexp, recv_array, recv_variant, recv_optional, recv_notundef, recv_type, recv_sensitive.
    Show.
  Abort.
End Sound.
