(* LatticeStructHashKey.v — the by-specification rule "a Struct accepts a Hash type" (structtype.go, case *HashType) reads
   the key type of the Hash through the dispatcher, GuardedIsAssignable(String, key) — the model's `flat FString k`.
   Here: `flat FString k` IS `asg TString k` (the dispatcher takes Variant / NotUndef / Optional apart before the String
   receiver is asked), hence the answer of a Struct for a Hash follows the key type downwards: a Struct that accepts
   Hash[k, v, lo, hi] accepts Hash[k', v, lo, hi] for every k' that k accepts, and two key types that accept each other
   are interchangeable below a Hash on the right of a Struct (C03: seeded change C03-m8 asks the String receiver directly). *)
From Coq Require Import ZArith NArith Bool List Lia.
From PcoreV Require Import Model.Base Model.Ty Model.Lattice Proofs.LatticeUnfold Proofs.LatticeBasics
  Proofs.LatticeRule Proofs.LatticeOrder Proofs.LatticeTransBasics Proofs.LatticeTrans.
Import ListNotations.
Open Scope Z_scope.

Section FlatString.
  Variable rx : str -> str -> bool.
  Variable hs : bool.
  Notation asg := (asg rx hs).

  (* GuardedIsAssignable(stringTypeDefault, b): the structural function of the model is the assignability relation *)
  Lemma flat_string_spec b : no_unit b = true -> flat FString b = asg TString b.
  Proof.
    induction b using ty_ind'; intros Hnu; rewrite asg_unfold; unfold gstep; cbn [is_any]; try reflexivity.
    - (* Variant *) cbn [flat]. apply forallb_ext_in. intros t Ht. rewrite Forall_forall in H. apply (H t Ht).
      cbn [no_unit] in Hnu. rewrite forallb_forall in Hnu. exact (Hnu t Ht).
    - (* NotUndef *) cbn [flat]. cbn [no_unit] in Hnu. specialize (IHb Hnu). destruct (nullable b) eqn:En.
      + destruct (asg TString b) eqn:Ea.
        * pose proof (nullable_mono rx hs b Hnu TString Ea En) as Hc. discriminate.
        * reflexivity.
      + rewrite IHb. destruct (asg TString b); reflexivity.
  Qed.
End FlatString.

Section StructHashKey.
  Variable rx : str -> str -> bool.
  Notation asg := (asg rx true).

  Lemma struct_hash_unfold ms k v lo hi :
    asg (TStruct ms) (THash k v lo hi) =
    forallb (fun m => key_optional (fst (snd m)) || asg (snd (snd m)) v) ms &&
    (Z.eqb (struct_required ms) 0 || flat FString k) && size_sub (struct_required ms) (zlen ms) lo hi.
  Proof. rewrite asg_unfold. reflexivity. Qed.

  (* the rule follows the key type downwards *)
  Theorem struct_hash_key_down ms k k' v lo hi :
    wf_ty k = true -> wf_ty k' = true -> no_unit k = true -> no_unit k' = true -> rule_free k k' = true ->
    asg k k' = true -> asg (TStruct ms) (THash k v lo hi) = true -> asg (TStruct ms) (THash k' v lo hi) = true.
  Proof.
    intros Hwk Hwk' Hnk Hnk' Hrf Hkk'. rewrite !struct_hash_unfold. intros H.
    apply andb_true_iff in H. destruct H as [H Hsz]. apply andb_true_iff in H. destruct H as [Hv Hk].
    rewrite Hv, Hsz, andb_true_r. cbn [andb]. apply orb_true_iff in Hk. destruct Hk as [Hk|Hk]; [rewrite Hk; reflexivity|].
    apply orb_true_iff. right. rewrite (flat_string_spec rx true k Hnk) in Hk. rewrite (flat_string_spec rx true k' Hnk').
    apply (asg_trans_code rx TString k k'); try assumption; try reflexivity.
  Qed.

  (* key types that accept each other are interchangeable below a Hash on the right of a Struct *)
  Theorem struct_hash_key_interchange ms k k' v lo hi :
    wf_ty k = true -> wf_ty k' = true -> no_unit k = true -> no_unit k' = true -> rule_free k k' = true -> rule_free k' k = true ->
    asg k k' = true -> asg k' k = true -> asg (TStruct ms) (THash k v lo hi) = asg (TStruct ms) (THash k' v lo hi).
  Proof.
    intros Hwk Hwk' Hnk Hnk' Hrf Hrf' H1 H2.
    destruct (asg (TStruct ms) (THash k v lo hi)) eqn:E1; destruct (asg (TStruct ms) (THash k' v lo hi)) eqn:E2; try reflexivity.
    - rewrite (struct_hash_key_down ms k k' v lo hi Hwk Hwk' Hnk Hnk' Hrf H1 E1) in E2. discriminate.
    - rewrite (struct_hash_key_down ms k' k v lo hi Hwk' Hwk Hnk' Hnk Hrf' H2 E2) in E1. discriminate.
  Qed.
End StructHashKey.
