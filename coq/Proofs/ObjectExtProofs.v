(* ObjectExtProofs.v — property C05: an extension of a parameterized Object type is read back from the arguments
   it prints (Model/ObjectExt.v). *)
From Coq Require Import NArith Bool List Lia.
From PcoreV Require Import Model.Base Model.ObjectExt.
Import ListNotations.

(* ---- maps ---- *)

Lemma str_mem_In k l : str_mem k l = true <-> In k l.
Proof.
  unfold str_mem. rewrite existsb_exists. split.
  - intros (x & Hin & He). apply str_eqb_eq in He. now subst.
  - intros Hin. exists k. split; [assumption | apply str_eqb_refl].
Qed.

Lemma pget_In k v m : pget k m = Some v -> In (k, v) m.
Proof.
  induction m as [|[k' v'] m IH]; cbn [pget]; [discriminate|].
  destruct (str_eqb_spec k k') as [->|Hne]; intros H.
  - injection H as ->. now left.
  - right. now apply IH.
Qed.

Lemma pget_None_keys k m : pget k m = None <-> ~ In k (map fst m).
Proof.
  induction m as [|[k' v'] m IH]; cbn [pget map fst In]; [tauto|].
  destruct (str_eqb_spec k k') as [->|Hne].
  - split; [discriminate | intros H; exfalso; apply H; now left].
  - rewrite IH. split; [intros H [E|E]; [congruence | tauto] | tauto].
Qed.

Lemma pget_app k a b :
  pget k (a ++ b) = match pget k a with Some v => Some v | None => pget k b end.
Proof.
  induction a as [|[k' v'] a IH]; cbn [pget app]; [reflexivity|].
  destruct (str_eqb k k'); [reflexivity | exact IH].
Qed.

Lemma pput_fresh k v m : pget k m = None -> pput k v m = m ++ [(k, v)].
Proof.
  induction m as [|[k' v'] m IH]; cbn [pget pput app]; [reflexivity|].
  destruct (str_eqb k k'); [discriminate|]. intros H. now rewrite IH.
Qed.

Lemma pput_entries k v m x y : In (x, y) (pput k v m) -> (x, y) = (k, v) \/ In (x, y) m.
Proof.
  induction m as [|[k' v'] m IH]; cbn [pput In].
  - intros [E|[]]. left. now symmetry.
  - destruct (str_eqb k k'); cbn [In].
    + intros [E|H]; [left; now symmetry | right; now right].
    + intros [E|H]; [right; now left|]. destruct (IH H) as [E|H']; [now left | right; now right].
Qed.

Lemma pput_keys k v m x : In x (map fst (pput k v m)) -> x = k \/ In x (map fst m).
Proof.
  rewrite !in_map_iff. intros ([x' y] & E & Hin). cbn [fst] in E. subst x'.
  destruct (pput_entries _ _ _ _ _ Hin) as [E|H].
  - left. congruence.
  - right. exists (x, y). now split.
Qed.

Lemma pput_NoDup k v m : NoDup (map fst m) -> NoDup (map fst (pput k v m)).
Proof.
  induction m as [|[k' v'] m IH]; cbn [pput map fst]; intros Hnd.
  - repeat constructor. intros [].
  - inversion Hnd as [|? ? Hnot Hnd']; subst.
    destruct (str_eqb_spec k k') as [->|Hne]; cbn [map fst].
    + now constructor.
    + constructor; [|now apply IH].
      intros Hin. destruct (pput_keys _ _ _ _ Hin) as [E|H]; [congruence | contradiction].
Qed.

(* ---- the positional form ---- *)

Lemma declared_order_cons k names m :
  declared_order (k :: names) m =
  (match pget k m with Some v => [(k, v)] | None => [] end) ++ declared_order names m.
Proof. reflexivity. Qed.

Lemma pos_params_nil names m : pos_params names m = [] -> declared_order names m = [].
Proof.
  induction names as [|k names IH]; [reflexivity|].
  cbn [pos_params]. rewrite declared_order_cons.
  destruct (pget k m); [discriminate|].
  destruct (pos_params names m); [intros _; now rewrite IH | discriminate].
Qed.

Lemma pos_params_ext names a b : pmap_equal a b -> pos_params names a = pos_params names b.
Proof.
  intros He. induction names as [|k names IH]; [reflexivity|].
  cbn [pos_params]. now rewrite IH, (He k).
Qed.

Lemma pget_declared_order k names m :
  pget k (declared_order names m) = if str_mem k names then pget k m else None.
Proof.
  induction names as [|a names IH]; [reflexivity|].
  rewrite declared_order_cons, pget_app. unfold str_mem in *. cbn [existsb].
  destruct (str_eqb_spec k a) as [->|Hne]; cbn [orb].
  - destruct (pget a m) as [v|] eqn:G; cbn [pget].
    + now rewrite str_eqb_refl.
    + rewrite IH. now destruct (existsb (str_eqb a) names).
  - destruct (pget a m) as [v|]; cbn [pget]; [|exact IH].
    destruct (str_eqb_spec k a); [contradiction | exact IH].
Qed.

Lemma declared_order_keys names m :
  map fst (declared_order names m) =
  filter (fun k => match pget k m with Some _ => true | None => false end) names.
Proof.
  induction names as [|a names IH]; [reflexivity|].
  rewrite declared_order_cons, map_app, IH. cbn [filter].
  now destruct (pget a m).
Qed.

Lemma declared_order_entries names m k v :
  In (k, v) (declared_order names m) -> In k names /\ pget k m = Some v.
Proof.
  unfold declared_order. rewrite in_flat_map. intros (x & Hin & H).
  destruct (pget x m) as [w|] eqn:G; [|destruct H].
  destruct H as [E|[]]. injection E as -> ->. now split.
Qed.

Section Proofs.
  Variable inst : str -> xval -> bool.

  Lemma init_named_ok names h : forall acc,
    NoDup (map fst h) ->
    (forall k, In k (map fst h) -> pget k acc = None) ->
    (forall k v, In (k, v) h -> In k names /\ xis_default v = false /\ inst k v = true) ->
    init_named inst names h acc = XOk (acc ++ h).
  Proof.
    induction h as [|[k pv] h IH]; intros acc Hnd Hfresh Hwf.
    - cbn [init_named]. now rewrite app_nil_r.
    - cbn [init_named]. cbn [map fst] in Hnd, Hfresh.
      inversion Hnd as [|? ? Hnot Hnd']; subst.
      destruct (Hwf k pv (or_introl eq_refl)) as (Hin & Hd & Hi).
      apply str_mem_In in Hin. rewrite Hin, Hd, Hi. cbn [negb].
      rewrite pput_fresh by (apply Hfresh; now left).
      rewrite IH.
      + now rewrite <- app_assoc.
      + assumption.
      + intros k' Hk'. rewrite pget_app, (Hfresh k' (or_intror Hk')). cbn [pget].
        destruct (str_eqb_spec k' k) as [->|]; [contradiction | reflexivity].
      + intros k' v' H'. apply Hwf. now right.
  Qed.

  Lemma init_pos_ok m names : forall acc,
    NoDup names ->
    (forall k, In k names -> pget k acc = None) ->
    (forall k v, pget k m = Some v -> xis_default v = false /\ inst k v = true) ->
    init_pos inst names (pos_params names m) acc = XOk (acc ++ declared_order names m).
  Proof.
    induction names as [|k names IH]; intros acc Hnd Hfresh Hwf.
    - cbn. now rewrite app_nil_r.
    - inversion Hnd as [|? ? Hnot Hnd']; subst.
      rewrite declared_order_cons. cbn [pos_params].
      destruct (pget k m) as [v|] eqn:G.
      + cbn [init_pos]. destruct (Hwf k v G) as (Hd & Hi). rewrite Hd, Hi.
        rewrite pput_fresh by (apply Hfresh; now left).
        rewrite IH; [now rewrite <- app_assoc | assumption | | assumption].
        intros k' Hk'. rewrite pget_app, (Hfresh k' (or_intror Hk')). cbn [pget].
        destruct (str_eqb_spec k' k) as [->|]; [contradiction | reflexivity].
      + cbn [app]. specialize (IH acc Hnd' (fun k' Hk' => Hfresh k' (or_intror Hk')) Hwf).
        destruct (pos_params names m) as [|x r] eqn:E.
        * cbn [init_pos]. rewrite (pos_params_nil _ _ E), app_nil_r. reflexivity.
        * cbn [init_pos xis_default]. exact IH.
  Qed.

  Lemma wf_lookup names m :
    ext_wf inst names m -> forall k v, pget k m = Some v -> xis_default v = false /\ inst k v = true.
  Proof. intros (_ & _ & H) k v G. apply pget_In in G. now destruct (H k v G) as (_ & ? & ?). Qed.

  Lemma wf_declared_nonempty names m : ext_wf inst names m -> declared_order names m <> [].
  Proof.
    intros (_ & Hne & H). destruct m as [|[k v] m]; [congruence|].
    destruct (H k v (or_introl eq_refl)) as (Hin & _).
    assert (Hx : In (k, v) (declared_order names ((k, v) :: m))).
    { unfold declared_order. apply in_flat_map. exists k. split; [assumption|].
      cbn [pget]. rewrite str_eqb_refl. now left. }
    intros E. rewrite E in Hx. destruct Hx.
  Qed.

  (* what the printed arguments are read back as *)
  Lemma reparse_ext_eq names m :
    NoDup names -> ext_wf inst names m ->
    reparse_ext inst names m =
    XOk (if Nat.ltb 2 (length names) && negb (inst (hd [] names) (XHash m)) then m else declared_order names m).
  Proof.
    intros Hnd Hwf. pose proof Hwf as (Hkeys & Hne & Hent).
    destruct names as [|first rest].
    { destruct m as [|[k v] m]; [congruence|]. destruct (Hent k v (or_introl eq_refl)) as ([] & _). }
    assert (Hpos : initialize inst (first :: rest) (pos_params (first :: rest) m) =
                   XOk (declared_order (first :: rest) m)).
    { unfold initialize.
      assert (Hr : match pos_params (first :: rest) m with
                   | [XHash h] => if negb (inst first (XHash h)) then init_named inst (first :: rest) h []
                                  else init_pos inst (first :: rest) (pos_params (first :: rest) m) []
                   | _ => init_pos inst (first :: rest) (pos_params (first :: rest) m) []
                   end = init_pos inst (first :: rest) (pos_params (first :: rest) m) []).
      { destruct (pos_params (first :: rest) m) as [|a l] eqn:E; [reflexivity|].
        destruct a as [| |h]; try reflexivity.
        destruct l as [|b l]; [|reflexivity].
        cbn [pos_params] in E. destruct (pget first m) as [v|] eqn:G.
        - injection E as -> _. destruct (wf_lookup _ _ Hwf _ _ G) as (_ & Hi). now rewrite Hi.
        - destruct (pos_params rest m); discriminate. }
      rewrite Hr, init_pos_ok; [| assumption | reflexivity | exact (wf_lookup _ _ Hwf)].
      cbn [app]. pose proof (wf_declared_nonempty _ _ Hwf) as Hn.
      destruct (declared_order (first :: rest) m); [congruence | reflexivity]. }
    unfold reparse_ext, parameters. cbn [hd].
    destruct (Nat.ltb 2 (length (first :: rest))); cbn [andb]; [|exact Hpos].
    destruct (inst first (XHash m)) eqn:Hi; cbn [negb]; [exact Hpos|].
    unfold initialize. rewrite Hi. cbn [negb].
    rewrite init_named_ok; [| assumption | reflexivity | assumption]. cbn [app].
    destruct m; [congruence | reflexivity].
  Qed.

  Lemma declared_order_equal names m : ext_wf inst names m -> pmap_equal (declared_order names m) m.
  Proof.
    intros (_ & _ & Hent) k. rewrite pget_declared_order.
    destruct (str_mem k names) eqn:Hm; [reflexivity|].
    destruct (pget k m) as [v|] eqn:G; [|reflexivity].
    apply pget_In in G. destruct (Hent k v G) as (Hin & _). apply str_mem_In in Hin. congruence.
  Qed.

  Lemma declared_order_wf names m : NoDup names -> ext_wf inst names m -> ext_wf inst names (declared_order names m).
  Proof.
    intros Hnd Hwf. split; [|split].
    - rewrite declared_order_keys. now apply NoDup_filter.
    - exact (wf_declared_nonempty _ _ Hwf).
    - intros k v Hin. destruct (declared_order_entries _ _ _ _ Hin) as (Hk & G).
      split; [assumption|]. exact (wf_lookup _ _ Hwf _ _ G).
  Qed.

  (* print, parse, resolve gives an equal extension *)
  Theorem ext_round_trip names m :
    NoDup names -> ext_wf inst names m ->
    exists p, reparse_ext inst names m = XOk p /\ pmap_equal p m /\ ext_wf inst names p.
  Proof.
    intros Hnd Hwf. rewrite (reparse_ext_eq _ _ Hnd Hwf).
    destruct (Nat.ltb 2 (length names) && negb (inst (hd [] names) (XHash m))).
    - exists m. split; [reflexivity|]. split; [intros k; reflexivity | assumption].
    - exists (declared_order names m). split; [reflexivity|].
      split; [now apply declared_order_equal | now apply declared_order_wf].
  Qed.

  (* ... that prints the same arguments again (IsInstance of a Hash does not depend on the order of its entries) *)
  Theorem ext_prints_same names m p :
    NoDup names -> ext_wf inst names m ->
    (forall k a b, pmap_equal a b -> inst k (XHash a) = inst k (XHash b)) ->
    reparse_ext inst names m = XOk p ->
    parameters inst names p = parameters inst names m.
  Proof.
    intros Hnd Hwf Hord. rewrite (reparse_ext_eq _ _ Hnd Hwf).
    destruct (Nat.ltb 2 (length names) && negb (inst (hd [] names) (XHash m))) eqn:C;
      intros E; injection E as <-; [reflexivity|].
    pose proof (declared_order_equal _ _ Hwf) as He.
    unfold parameters. rewrite (Hord (hd [] names) _ _ He), (pos_params_ext names _ _ He).
    destruct (Nat.ltb 2 (length names)); [|reflexivity].
    destruct (negb (inst (hd [] names) (XHash m))); [discriminate C | reflexivity].
  Qed.

  (* ---- what initialize establishes: every extension the constructor builds satisfies ext_wf ---- *)

  Definition acc_inv (names : list str) (acc : pmap) : Prop :=
    NoDup (map fst acc) /\
    forall k v, In (k, v) acc -> In k names /\ xis_default v = false /\ inst k v = true.

  Lemma pput_inv names k v acc :
    acc_inv names acc -> In k names -> xis_default v = false -> inst k v = true -> acc_inv names (pput k v acc).
  Proof.
    intros (Hnd & Hent) Hk Hd Hi. split; [now apply pput_NoDup|].
    intros x y Hin. destruct (pput_entries _ _ _ _ _ Hin) as [E|H]; [|now apply Hent].
    injection E as -> ->. now repeat split.
  Qed.

  Lemma init_named_inv names h : forall acc p,
    acc_inv names acc -> init_named inst names h acc = XOk p -> acc_inv names p.
  Proof.
    induction h as [|[k pv] h IH]; intros acc p Hinv; cbn [init_named].
    - intros E. now injection E as <-.
    - destruct (str_mem k names) eqn:Hm; cbn [negb]; [|discriminate].
      destruct (xis_default pv) eqn:Hd; [now apply IH|].
      destruct (inst k pv) eqn:Hi; [|discriminate].
      apply IH. apply pput_inv; try assumption. now apply str_mem_In.
  Qed.

  Lemma init_pos_inv names0 names : forall args acc p,
    (forall k, In k names -> In k names0) ->
    acc_inv names0 acc -> init_pos inst names args acc = XOk p -> acc_inv names0 p.
  Proof.
    induction names as [|k names IH]; intros args acc p Hsub Hinv; cbn [init_pos].
    - intros E. now injection E as <-.
    - destruct args as [|pv args]; [intros E; now injection E as <-|].
      assert (Hsub' : forall k', In k' names -> In k' names0) by (intros k' H'; apply Hsub; now right).
      destruct (xis_default pv) eqn:Hd; [now apply IH|].
      destruct (inst k pv) eqn:Hi; [|discriminate].
      apply IH; [assumption|]. apply pput_inv; try assumption. apply Hsub. now left.
  Qed.

  Theorem initialize_wf names args p : initialize inst names args = XOk p -> ext_wf inst names p.
  Proof.
    unfold initialize. destruct names as [|first rest]; [discriminate|].
    set (names := first :: rest).
    assert (H0 : acc_inv names []) by (split; [constructor | intros k v []]).
    assert (Hpos : forall a, init_pos inst names a [] = XOk p -> acc_inv names p).
    { intros a. apply init_pos_inv; [tauto | exact H0]. }
    assert (Hr : forall r, match r with XOk [] => XErr XEmptyList | _ => r end = XOk p ->
                           (r = XOk p -> acc_inv names p) -> ext_wf inst names p).
    { intros r E Hinv. assert (r = XOk p /\ p <> []) as (-> & Hne).
      { destruct r as [[|x l]|e]; [discriminate | | discriminate]. injection E as <-. split; [reflexivity | discriminate]. }
      destruct (Hinv eq_refl) as (Hnd & Hent). split; [assumption | split; [assumption | exact Hent]]. }
    intros E. eapply Hr; [exact E|]. clear E.
    destruct args as [|a l]; [apply Hpos|].
    destruct a as [| |h]; try apply Hpos.
    destruct l as [|b l]; [|apply Hpos].
    destruct (negb (inst first (XHash h))); [|apply Hpos].
    now apply init_named_inv.
  Qed.
End Proofs.
