(* CtxRootProofs.v — lemmas about Model/CtxRoot.v (property C14): px.DoWithContext restores the table entry of the
   goroutine for every argument and every body of the language (bodies that call pcore.RootContext(), threadlocal.Init /
   Set / Delete, nest DoWithContext / pcore.Do / Try with any argument, return or panic). *)
From Coq Require Import ZArith NArith Bool List Lia.
From PcoreV Require Import Model.Base Model.Ctx Model.CtxRoot.
Import ListNotations.
Local Open Scope nat_scope.

(* ---- induction over programs with nested bodies ---------------------------------------------------------------- *)

Section RopInd.
  Variable P : rop -> Prop.
  Hypothesis HRoot : P RRoot.
  Hypothesis HInit : P RInit.
  Hypothesis HDelete : P RDelete.
  Hypothesis HSetNew : P RSetNew.
  Hypothesis HObs : P RObs.
  Hypothesis HPanic : P RPanic.
  Hypothesis HDwc : forall a body, Forall P body -> P (RDwc a body).
  Hypothesis HTry : forall body, Forall P body -> P (RTry body).

  Fixpoint rop_ind' (p : rop) : P p :=
    let all := fix all (l : list rop) : Forall P l :=
      match l with
      | [] => Forall_nil P
      | x :: r => Forall_cons x (rop_ind' x) (all r)
      end in
    match p with
    | RRoot => HRoot
    | RInit => HInit
    | RDelete => HDelete
    | RSetNew => HSetNew
    | RObs => HObs
    | RPanic => HPanic
    | RDwc a body => HDwc a body (all body)
    | RTry body => HTry body (all body)
    end.
End RopInd.

(* the local loop of eval is eval_list *)
Lemma eval_dwc a body st :
  eval (RDwc a body) st =
    let '(c, st0) := pick a st in
    let '(t1, x, fine) := dwc_enter 0 c (r_tbl st0) in
    let st1 := if fine then set_env (r_env st0) (eval_list body (set_env (c :: r_env st0) (set_tbl t1 st0)))
               else set_pan true (emit (REPanic true) (set_tbl t1 st0)) in
    let '(s2, p2) := run_dact 0 x (rshared (r_tbl st1)) in
    let st2 := set_tbl (tls s2) st1 in
    if p2 then set_pan true (emit (REPanic true) st2) else st2.
Proof. reflexivity. Qed.

Lemma eval_try body st : eval (RTry body) st = set_pan false (eval_list body st).
Proof. reflexivity. Qed.

(* ---- the table entry: one entry, index 0 -------------------------------------------------------------------------- *)

Definition one (t : tlsmap) : Prop := length t = 1.
Definition entry (st : rst) : option table := tl_find 0 (r_tbl st).

Lemma one_inv t : one t -> exists e, t = [e].
Proof. destruct t as [|e [|? ?]]; cbn; intros H; try discriminate. eauto. Qed.

(* has a table *)
Definition has (e : option table) : Prop := e <> None.

(* what a statement does to the entry: the table stays one entry long, and a table that exists keeps existing
   (no statement of the language releases it for good) *)
Definition keeps (st st' : rst) : Prop :=
  one (r_tbl st') /\ (has (entry st) -> has (entry st')).

Lemma keeps_refl st : one (r_tbl st) -> keeps st st.
Proof. intros H. split; auto. Qed.

Lemma keeps_trans a b c : keeps a b -> keeps b c -> keeps a c.
Proof. intros [H1 H2] [H3 H4]. split; auto. Qed.

Lemma pick_tbl a st : r_tbl (snd (pick a st)) = r_tbl st.
Proof.
  destruct a as [| |k]; cbn [pick].
  - destruct (tl_get 0 (r_tbl st)); reflexivity.
  - reflexivity.
  - destruct (nth_error (r_env st) k); reflexivity.
Qed.

(* px/context.go:147-161 on a one-entry table: the three ways, none faults *)
Lemma dwc_enter_one c e :
  dwc_enter 0 c [e] =
    ([Some (Some c)],
     match e with Some (Some s) => XRestore s | Some None => XDelete | None => XCleanup end, true).
Proof. destruct e as [[s|]|]; reflexivity. Qed.

(* the deferred function of DoWithContext, on an entry that has a table *)
Lemma run_dact_one e0 e :
  (e0 <> None -> has e) ->
  let x := match e0 with Some (Some s) => XRestore s | Some None => XDelete | None => XCleanup end in
  run_dact 0 x (rshared [e]) = (rshared [e0], false).
Proof.
  intros H. destruct e0 as [[s|]|]; cbn.
  - destruct e as [e|]; [reflexivity|]. exfalso. apply H; [discriminate|reflexivity].
  - destruct e as [e|]; [reflexivity|]. exfalso. apply H; [discriminate|reflexivity].
  - reflexivity.
Qed.

Lemma eval_list_keeps ps : Forall (fun p => forall st, one (r_tbl st) -> keeps st (eval p st)) ps ->
  forall st, one (r_tbl st) -> keeps st (eval_list ps st).
Proof.
  induction 1 as [|p ps Hp _ IH]; intros st H1; cbn [eval_list].
  - apply keeps_refl; exact H1.
  - destruct (r_pan st); [apply keeps_refl; exact H1|].
    pose proof (Hp st H1) as Hk. eapply keeps_trans; [exact Hk|]. apply IH. apply Hk.
Qed.

(* the central fact: DoWithContext leaves the entry exactly as found, given that its body keeps a table *)
Lemma dwc_restores a body st :
  (forall st, one (r_tbl st) -> keeps st (eval_list body st)) ->
  one (r_tbl st) ->
  r_tbl (eval (RDwc a body) st) = r_tbl st.
Proof.
  intros Hb H1. rewrite eval_dwc.
  destruct (pick a st) as [c st0] eqn:Ep.
  assert (Ht : r_tbl st0 = r_tbl st) by (rewrite <- (pick_tbl a st), Ep; reflexivity).
  destruct (one_inv _ H1) as [e He]. rewrite Ht, He, dwc_enter_one.
  cbv zeta. cbn [set_env r_tbl].
  set (stb := set_env (c :: r_env st0) (set_tbl [Some (Some c)] st0)).
  assert (Hone : one (r_tbl stb)) by reflexivity.
  destruct (Hb stb Hone) as [Ho Hh].
  destruct (one_inv _ Ho) as [e' He']. rewrite He'.
  rewrite run_dact_one.
  - reflexivity.
  - intros _. assert (Hx : has (entry (eval_list body stb))).
    { apply Hh. unfold has, entry, stb. cbn. discriminate. }
    unfold has, entry in Hx. rewrite He' in Hx. exact Hx.
Qed.

Lemma eval_keeps p : forall st, one (r_tbl st) -> keeps st (eval p st).
Proof.
  induction p as [| | | | | |a body IH|body IH] using rop_ind'; intros st H1.
  - (* RRoot *) destruct (one_inv _ H1) as [e He]. unfold keeps, entry, has. cbn. rewrite He. cbn. split; [reflexivity|discriminate].
  - (* RInit *) destruct (one_inv _ H1) as [e He]. unfold keeps, entry, has. cbn. rewrite He. cbn. split; [reflexivity|discriminate].
  - (* RDelete *) destruct (one_inv _ H1) as [e He]. unfold keeps, entry, has. cbn. rewrite He.
    destruct e as [e|]; cbn; (split; [reflexivity|]); [discriminate|auto].
  - (* RSetNew *) destruct (one_inv _ H1) as [e He]. unfold keeps, entry, has. cbn. rewrite He.
    destruct e as [e|]; cbn; (split; [reflexivity|]); [discriminate|auto].
  - (* RObs *) unfold keeps, entry. cbn. auto.
  - (* RPanic *) unfold keeps, entry. cbn. auto.
  - (* RDwc *)
    pose proof (dwc_restores a body st (eval_list_keeps body IH) H1) as Hr.
    unfold keeps, entry. rewrite Hr. auto.
  - (* RTry *)
    rewrite eval_try. destruct (eval_list_keeps body IH st H1) as [Ho Hh]. split; [exact Ho|exact Hh].
Qed.

Lemma eval_list_keeps_all ps st : one (r_tbl st) -> keeps st (eval_list ps st).
Proof. apply eval_list_keeps. apply Forall_forall. intros p _. apply eval_keeps. Qed.

(* C14, "restored when the body returns or panics", for every argument and every body *)
Theorem dwc_restores_any a body st :
  one (r_tbl st) -> r_tbl (eval (RDwc a body) st) = r_tbl st.
Proof. intros H1. apply dwc_restores; [intros st'; apply eval_list_keeps_all|exact H1]. Qed.

(* C14, "the current context observed inside DoWithContext is the one established": at the first statement of the body
   the current context is the argument *)
Theorem dwc_establishes c e : tl_get 0 (fst (fst (dwc_enter 0 c [e]))) = Some c /\ snd (dwc_enter 0 c [e]) = true.
Proof. rewrite dwc_enter_one. split; reflexivity. Qed.

(* whole programs: every DoWithContext / pcore.Do / Try / DoWithParent / TryWithParent statement of a sequence leaves
   the entry as found, so the entry after a sequence of such statements is the initial one *)
(* is_scope: Model/CtxRoot.v *)

Lemma scope_restores p st : is_scope p = true -> one (r_tbl st) -> r_tbl (eval p st) = r_tbl st.
Proof.
  intros Hs H1. destruct p as [| | | | | |a body|body]; try discriminate.
  - reflexivity.
  - apply dwc_restores_any; exact H1.
  - destruct body as [|q [|? ?]]; try discriminate; destruct q; try discriminate.
    rewrite eval_try. cbn [eval_list r_tbl set_pan].
    destruct (r_pan st); [reflexivity|]. apply dwc_restores_any; exact H1.
Qed.

Theorem scopes_restore ps : forall st, forallb is_scope ps = true -> one (r_tbl st) ->
  r_tbl (eval_list ps st) = r_tbl st.
Proof.
  induction ps as [|p ps IH]; intros st Hs H1; cbn [eval_list]; [reflexivity|].
  cbn [forallb] in Hs. apply andb_prop in Hs. destruct Hs as [Hp Hs].
  destruct (r_pan st); [reflexivity|].
  pose proof (scope_restores p st Hp H1) as Hr.
  rewrite IH; [exact Hr|exact Hs|]. unfold one. rewrite Hr. exact H1.
Qed.
