(* InferTransInst.v — C04: EVERY value is an instance of its inferred (generic) type, types used as values at any
   depth included (arrays and hashes of types, types inside nested collections).
   infer (VType t) = Type[t]; the inferred element type of a collection of types is Type[c] with c a fold of
   commonType over the types, and `inst (Type[c]) (VType u) = asg c u`: that the fold accepts every element is
   InferTransCommon.common_f_ub2 (the common type accepts both operands, Tuple/Tuple merges included) plus
   transitivity of assignability along the fold (LatticeTrans.asg_trans_code).  Hence the side conditions on the
   types that occur in the value: well-formed, Unit-free, and the by-specification Struct<-Hash rule cannot fire
   (all of them Struct-free, or all of them Hash-free: the `mode` m below).
   The development follows Proofs/InferInst.v (class K of inferred types closed under commonType, soundness of
   assignability on K, commonType a semantic upper bound on K) with K extended by Type[t]. *)
From Coq Require Import ZArith NArith Bool List Lia.
From PcoreV Require Import Model.Base Model.Ty Model.Lattice Model.Infer Proofs.LatticeUnfold Proofs.LatticeBasics
  Proofs.LatticeRule Proofs.LatticeTrans Proofs.InferProofs Proofs.InferCommon Proofs.InferInst Proofs.InferTransCommon.
Import ListNotations.
Open Scope Z_scope.

(* the types that occur in a value as values satisfy g *)
Fixpoint tv_ok (g : ty -> bool) (v : value) : bool :=
  match v with
  | VType u => g u
  | VArr vs => forallb (tv_ok g) vs
  | VHash es => forallb (fun e => tv_ok g (fst e) && tv_ok g (snd e)) es
  | VSensitive x => tv_ok g x
  | _ => true
  end.

Section InferInst2.
  Variable rx : str -> str -> bool.
  Notation A := (asg rx true).
  Notation R := (recv rx true (asg rx true)).
  Notation I := (inst rx true).
  Notation C := (common_f rx).
  Notation ok2 := (common_ok2 rx).

  (* the guard along the folds of inference: no alias / out-of-fuel marker at any step (the aliases Data / RichData
     are not constructors of `ty`), and the guard of the common-type theorem at every step *)
  Fixpoint fold_ok2 (acc : ty) (ts : list ty) : bool :=
    no_other acc &&
    match ts with
    | [] => true
    | t :: r => ok2 (S (tsize acc + tsize t)) acc t && fold_ok2 (common rx acc t) r
    end.

  Fixpoint iv_ok2 (v : value) : bool :=
    match v with
    | VOther _ => false
    | VArr vs =>
        forallb iv_ok2 vs &&
        match vs with [] => true | x :: r => fold_ok2 (infer rx x) (map (infer rx) r) end
    | VHash es =>
        forallb (fun e => iv_ok2 (fst e) && iv_ok2 (snd e)) es &&
        match es with
        | [] => true
        | (k, x) :: r => fold_ok2 (infer rx k) (map (fun e => infer rx (fst e)) r) &&
                         fold_ok2 (infer rx x) (map (fun e => infer rx (snd e)) r)
        end
    | VSensitive x => iv_ok2 x
    | _ => true
    end.

  Section Mode.
    Variable m : ty -> bool.        (* no_struct or no_hash *)
    Hypothesis m_rf : forall a b, m a = true -> m b = true -> rule_free a b = true.
    Hypothesis m_C : forall n a b, ok2 n a b = true -> no_other (C n a b) = true ->
      m a = true -> m b = true -> m (C n a b) = true.

    (* the side conditions of transitivity *)
    Definition TG (t : ty) : bool := wf_ty t && no_unit t && m t.

    Lemma TG_split t : TG t = true -> wf_ty t = true /\ no_unit t = true /\ m t = true.
    Proof. unfold TG. intros H. apply andb_true_iff in H. destruct H as [H H3]. apply andb_true_iff in H. tauto. Qed.

    Lemma TG_trans a b c : TG a = true -> TG b = true -> TG c = true -> A a b = true -> A b c = true -> A a c = true.
    Proof.
      intros Ha Hb Hc. apply TG_split in Ha, Hb, Hc.
      destruct Ha as (Wa & Ua & Ma). destruct Hb as (Wb & Ub & Mb). destruct Hc as (Wc & Uc & Mc).
      apply asg_trans_code; auto.
    Qed.

    Lemma TG_C n a b : ok2 n a b = true -> no_other (C n a b) = true -> TG a = true -> TG b = true -> TG (C n a b) = true.
    Proof.
      intros Hok Hno Ha Hb. apply TG_split in Ha, Hb. destruct Ha as (Wa & Ua & Ma). destruct Hb as (Wb & Ub & Mb).
      unfold TG. rewrite (wf_C rx n a b), (no_unit_C rx n a b), (m_C n a b); auto.
    Qed.

    (* InferInst.K extended by Type[t] *)
    Fixpoint K2 (t : ty) : bool :=
      match t with
      | TAny | TUndef | TDefault | TBoolean _ | TInteger _ _ | TFloat _ _ | TNumeric | TScalar | TScalarData
      | TString | TStringVal _ | TRegexp _ | TBinary | TOther _ => true
      | TEnum ci _ => negb ci
      | TArray e lo hi => (is_unit e && (lo =? 0) && (hi =? 0)) || K2 e
      | THash k v lo hi => (is_unit k && is_unit v && (lo =? 0) && (hi =? 0)) || (K2 k && K2 v)
      | TSensitive t => K2 t
      | TType t => TG t
      | _ => false
      end.

    Notation V := (tv_ok TG).

    Lemma K2_plain b : K2 b = true -> plain b = true.
    Proof. destruct b; try discriminate; reflexivity. Qed.

    Lemma K2_not_unit b : K2 b = true -> is_unit b = false.
    Proof. destruct b; try discriminate; reflexivity. Qed.

    Lemma K_K2 : forall t, K t = true -> K2 t = true.
    Proof.
      induction t using ty_ind'; intros HK; try discriminate HK; try reflexivity; cbn [K K2] in *.
      - exact HK.
      - apply orb_true_iff in HK. destruct HK as [HK|HK]; [rewrite HK; reflexivity|rewrite (IHt HK); apply orb_true_r].
      - apply orb_true_iff in HK. destruct HK as [HK|HK]; [rewrite HK; reflexivity|].
        apply andb_true_iff in HK. destruct HK as [H1 H2]. rewrite (IHt1 H1), (IHt2 H2). apply orb_true_r.
      - auto.
    Qed.

    Ltac dead H :=
      solve [ discriminate H
            | repeat (match type of H with context [match ?x with _ => _ end] => destruct x end; try discriminate H) ].

    (* ---- soundness of assignability on K2, for values whose types satisfy the side conditions ---- *)
    Definition SK2 (a : ty) : Prop :=
      forall b, K2 b = true -> A a b = true -> forall x, V x = true -> I b x = true -> I a x = true.

    Lemma SK2_atomic a :
      (forall b, K2 b = true -> R a b = true -> forall x, V x = true -> I b x = true -> I a x = true) -> SK2 a.
    Proof.
      intros H b Kb Ha x Hx Hi. rewrite (asg_plain rx true a b (K2_plain b Kb)) in Ha.
      destruct (is_any a) eqn:Ea; [apply is_any_eq in Ea; subst; reflexivity|]. cbn [orb] in Ha. eauto.
    Qed.

    Ltac atomic :=
      apply SK2_atomic; intros b Kb Hr x Hx Hi;
      destruct b; try discriminate Kb; cbn [recv flat flat_recv is_undef orb] in Hr; try (dead Hr);
      destruct x; cbn [inst] in Hi |- *; try discriminate Hi; try reflexivity.

    Lemma V_arr l y : V (VArr l) = true -> In y l -> V y = true.
    Proof. cbn [tv_ok]. rewrite forallb_forall. auto. Qed.

    Lemma V_hash l e : V (VHash l) = true -> In e l -> V (fst e) = true /\ V (snd e) = true.
    Proof. cbn [tv_ok]. rewrite forallb_forall. intros H He. apply H in He. apply andb_true_iff in He. exact He. Qed.

    Theorem sound_K2 : forall a, K2 a = true -> SK2 a.
    Proof.
      induction a using ty_ind'; intros Ka; try discriminate Ka.
      - intros b Kb Ha x Hx Hi. reflexivity.
      - atomic.
      - atomic.
      - (* Boolean *) atomic. destruct v as [y|]; [|reflexivity]. destruct v0 as [z|]; cbn in Hr; [|discriminate Hr].
        apply eqb_prop in Hr. subst. exact Hi.
      - (* Integer *) atomic. eapply in_size_sub'; eassumption.
      - (* Float *) atomic; [eapply float_in_sub|eapply float_unbounded_sub]; eassumption.
      - (* Numeric *) atomic.
      - (* Scalar *) atomic.
      - (* ScalarData *) atomic.
      - (* String *) atomic.
      - (* StringVal *) atomic. apply str_eqb_eq in Hr, Hi. subst. apply str_eqb_refl.
      - (* Enum *) cbn [K2] in Ka. apply negb_true_iff in Ka. subst ci. apply SK2_atomic. intros b Kb Hr x Hx Hi.
        destruct vs as [|v0 vs].
        + destruct b; try discriminate Kb; cbn [recv] in Hr; try discriminate Hr; destruct x; cbn [inst] in Hi |- *; try discriminate Hi; reflexivity.
        + destruct b; try discriminate Kb; cbn [recv] in Hr; try discriminate Hr; destruct x; cbn [inst] in Hi |- *; try discriminate Hi.
          * apply str_eqb_eq in Hi. subst. exact Hr.
          * cbn [K2] in Kb. apply negb_true_iff in Kb. subst ci.
            apply andb_true_iff in Hr. destruct Hr as [Hr Hall]. apply andb_true_iff in Hr. destruct Hr as [Hne _].
            destruct vs0 as [|w0 ws]; [discriminate Hne|]. cbn [enum_inst] in Hi. apply mem_str_In in Hi.
            rewrite forallb_forall in Hall. apply Hall. exact Hi.
      - (* Regexp *) atomic. apply orb_true_iff in Hr. destruct Hr as [Hr|Hr]; [rewrite Hr; reflexivity|].
        apply str_eqb_eq in Hr. subst. exact Hi.
      - (* Binary *) atomic.
      - (* Array *) apply SK2_atomic. intros b Kb Hr x Hx Hi.
        destruct b; try discriminate Kb; cbn [recv] in Hr; try discriminate Hr. destruct x; cbn [inst] in Hi; try discriminate Hi.
        apply andb_true_iff in Hr. destruct Hr as [Hsz Hr]. apply andb_true_iff in Hi. destruct Hi as [Hisz Hi].
        cbn [inst]. rewrite (in_size_sub _ _ _ _ _ Hsz Hisz). cbn [andb].
        destruct (hi0 <=? 0) eqn:Eh.
        { rewrite (zlen_nil_of_size _ _ _ Hisz Eh). apply orb_true_r. }
        cbn [orb] in Hr. cbn [K2] in Ka, Kb.
        apply orb_true_iff in Kb. destruct Kb as [Kb|Kb].
        { apply andb_true_iff in Kb. destruct Kb as [_ Kb]. apply Z.eqb_eq in Kb. apply Z.leb_gt in Eh. lia. }
        apply orb_true_iff in Ka. destruct Ka as [Ka|Ka].
        { apply andb_true_iff in Ka. destruct Ka as [Ka Kh]. apply Z.eqb_eq in Kh. subst hi.
          unfold size_sub in Hsz. apply andb_true_iff in Hsz. destruct Hsz as [_ Hsz].
          rewrite (zlen_nil_of_size _ _ _ Hisz Hsz). apply orb_true_r. }
        apply orb_true_iff. right. apply orb_true_iff in Hi. destruct Hi as [Hi|Hi].
        + apply is_any_eq in Hi. subst b. apply forallb_forall. intros y Hy.
          apply (IHa Ka TAny eq_refl Hr y (V_arr _ _ Hx Hy)). reflexivity.
        + apply forallb_forall. intros y Hy. rewrite forallb_forall in Hi.
          apply (IHa Ka b Kb Hr y (V_arr _ _ Hx Hy)). auto.
      - (* Hash *) apply SK2_atomic. intros b Kb Hr x Hx Hi.
        destruct b; try discriminate Kb; cbn [recv] in Hr; try discriminate Hr. destruct x; cbn [inst] in Hi; try discriminate Hi.
        apply andb_true_iff in Hr. destruct Hr as [Hsz Hr]. apply andb_true_iff in Hi. destruct Hi as [Hisz Hi].
        cbn [inst]. rewrite (in_size_sub _ _ _ _ _ Hsz Hisz). cbn [andb].
        destruct (hi0 <=? 0) eqn:Eh.
        { rewrite (zlen_nil_of_size _ _ _ Hisz Eh). reflexivity. }
        cbn [orb] in Hr. cbn [K2] in Ka, Kb.
        apply orb_true_iff in Kb. destruct Kb as [Kb|Kb].
        { apply andb_true_iff in Kb. destruct Kb as [_ Kb]. apply Z.eqb_eq in Kb. apply Z.leb_gt in Eh. lia. }
        apply orb_true_iff in Ka. destruct Ka as [Ka|Ka].
        { apply andb_true_iff in Ka. destruct Ka as [Ka Kh]. apply Z.eqb_eq in Kh. subst hi.
          unfold size_sub in Hsz. apply andb_true_iff in Hsz. destruct Hsz as [_ Hsz].
          rewrite (zlen_nil_of_size _ _ _ Hisz Hsz). reflexivity. }
        apply andb_true_iff in Ka, Kb, Hr. destruct Ka as [Ka1 Ka2]. destruct Kb as [Kb1 Kb2]. destruct Hr as [Hr1 Hr2].
        apply forallb_forall. intros e He. rewrite forallb_forall in Hi. specialize (Hi e He).
        apply andb_true_iff in Hi. destruct Hi as [Hi1 Hi2]. destruct (V_hash _ _ Hx He) as [Hx1 Hx2].
        rewrite (IHa1 Ka1 b1 Kb1 Hr1 _ Hx1 Hi1), (IHa2 Ka2 b2 Kb2 Hr2 _ Hx2 Hi2). reflexivity.
      - (* Type: transitivity of assignability *) apply SK2_atomic. intros b Kb Hr x Hx Hi.
        destruct b; try discriminate Kb; cbn [recv] in Hr; try discriminate Hr. destruct x; cbn [inst] in Hi |- *; try discriminate Hi.
        cbn [K2] in Ka, Kb. cbn [tv_ok] in Hx. exact (TG_trans a b t Ka Kb Hx Hr Hi).
      - (* Sensitive *) apply SK2_atomic. intros b Kb Hr x Hx Hi.
        destruct b; try discriminate Kb; cbn [recv] in Hr; try discriminate Hr. destruct x; cbn [inst] in Hi |- *; try discriminate Hi.
        apply (IHa Ka b Kb Hr x Hx). exact Hi.
      - (* Other *) apply SK2_atomic. intros b Kb Hr. discriminate Hr.
    Qed.

    (* ---- K2 is closed under commonType, and commonType is a semantic upper bound on K2 ---- *)
    Lemma K2_ladder a b : K2 (ladder rx a b) = true.
    Proof.
      unfold ladder. destruct (A TNumeric a && A TNumeric b); [reflexivity|].
      destruct (A TScalarData a && A TScalarData b); [reflexivity|].
      destruct (A TScalar a && A TScalar b); [reflexivity|].
      destruct (data_asg rx a && data_asg rx b); [reflexivity|].
      destruct (rich_asg rx a && rich_asg rx b); reflexivity.
    Qed.

    Lemma sm_K a b c : string_merge a b = Some c -> K2 a = true -> K2 b = true -> K a = true /\ K b = true.
    Proof. intros H Ka Kb. destruct a; try discriminate H; destruct b; try discriminate H; split; assumption. Qed.

    Theorem common_K2 : forall n a b, ok2 n a b = true -> no_other (C n a b) = true ->
      K2 a = true -> K2 b = true -> K2 (C n a b) = true.
    Proof.
      induction n as [|n IH]; intros a b Hok Hno Ka Kb; [reflexivity|]. cbn [common_f common_ok2] in *.
      rewrite (K2_not_unit a Ka), (K2_not_unit b Kb) in *.
      destruct (A a b); [assumption|]. destruct (A b a); [assumption|].
      destruct (string_merge a b) as [c|] eqn:Es.
      { destruct (sm_K a b c Es Ka Kb) as [Ka' Kb']. apply K_K2. exact (K_string_merge a b c Ka' Kb' Es). }
      destruct a; try discriminate Ka; try apply K2_ladder; destruct b; try discriminate Kb; try apply K2_ladder;
        cbn [merge_same merge_ok2 common_range fst snd] in *; try reflexivity.
      - (* Array + Array *)
        cbn [K2 no_other] in Ka, Kb, Hno |- *. apply orb_true_iff in Ka, Kb.
        destruct Ka as [Ka|Ka]; destruct Kb as [Kb|Kb].
        + apply andb_true_iff in Ka, Kb. destruct Ka as [Ka Ha]. destruct Kb as [Kb Hb].
          apply andb_true_iff in Ka, Kb. destruct Ka as [Ua La]. destruct Kb as [Ub Lb].
          apply Z.eqb_eq in Ha, Hb, La, Lb. subst. destruct a; try discriminate Ua. destruct b; try discriminate Ub.
          destruct n; reflexivity.
        + apply andb_true_iff in Ka. destruct Ka as [Ka _]. apply andb_true_iff in Ka. destruct Ka as [Ua _].
          destruct a; try discriminate Ua. destruct n; [reflexivity|]. rewrite common_unit_l, Kb. apply orb_true_r.
        + apply andb_true_iff in Kb. destruct Kb as [Kb _]. apply andb_true_iff in Kb. destruct Kb as [Ub _].
          destruct b; try discriminate Ub. destruct n; [reflexivity|]. rewrite (common_unit_r rx n a (K2_not_unit a Ka)), Ka. apply orb_true_r.
        + rewrite (IH a b Hok Hno Ka Kb). apply orb_true_r.
      - (* Type + Type *) cbn [K2 no_other] in *. apply TG_C; assumption.
    Qed.

    Lemma ladder_sem2 a b x : K2 a = true -> K2 b = true -> no_other (ladder rx a b) = true -> V x = true ->
      I a x = true \/ I b x = true -> I (ladder rx a b) x = true.
    Proof.
      intros Ka Kb Hn Hx Hi. unfold ladder in *.
      destruct (A TNumeric a && A TNumeric b) eqn:E1.
      { apply andb_true_iff in E1. destruct E1 as [Ea Eb]. destruct Hi as [Hi|Hi];
          [apply (sound_K2 TNumeric eq_refl a Ka Ea x Hx Hi)|apply (sound_K2 TNumeric eq_refl b Kb Eb x Hx Hi)]. }
      destruct (A TScalarData a && A TScalarData b) eqn:E2.
      { apply andb_true_iff in E2. destruct E2 as [Ea Eb]. destruct Hi as [Hi|Hi];
          [apply (sound_K2 TScalarData eq_refl a Ka Ea x Hx Hi)|apply (sound_K2 TScalarData eq_refl b Kb Eb x Hx Hi)]. }
      destruct (A TScalar a && A TScalar b) eqn:E3.
      { apply andb_true_iff in E3. destruct E3 as [Ea Eb]. destruct Hi as [Hi|Hi];
          [apply (sound_K2 TScalar eq_refl a Ka Ea x Hx Hi)|apply (sound_K2 TScalar eq_refl b Kb Eb x Hx Hi)]. }
      destruct (data_asg rx a && data_asg rx b); [discriminate Hn|].
      destruct (rich_asg rx a && rich_asg rx b); [discriminate Hn|]. reflexivity.
    Qed.

    (* every instance of an operand is an instance of the common type *)
    Theorem common_sem2 : forall n a b x, ok2 n a b = true -> K2 a = true -> K2 b = true ->
      no_other (C n a b) = true -> V x = true ->
      I a x = true \/ I b x = true -> I (C n a b) x = true.
    Proof.
      induction n as [|n IH]; intros a b x Hok Ka Kb Hn Hx Hi; [discriminate Hn|]. cbn [common_f common_ok2] in *.
      rewrite (K2_not_unit a Ka), (K2_not_unit b Kb) in *.
      destruct (A a b) eqn:Hab.
      { destruct Hi as [Hi|Hi]; [exact Hi|apply (sound_K2 a Ka b Kb Hab x Hx Hi)]. }
      destruct (A b a) eqn:Hba.
      { destruct Hi as [Hi|Hi]; [apply (sound_K2 b Kb a Ka Hba x Hx Hi)|exact Hi]. }
      destruct (string_merge a b) as [c|] eqn:Es.
      { destruct (sm_K a b c Es Ka Kb) as [Ka' Kb']. exact (string_merge_sem rx a b c x Ka' Kb' Es Hab Hba Hi). }
      destruct a; try discriminate Ka; try (apply ladder_sem2; assumption);
        destruct b; try discriminate Kb; try (apply ladder_sem2; assumption);
        cbn [merge_same merge_ok2 common_range fst snd] in *.
      - (* Integer *) destruct x; cbn [inst] in Hi |- *; try (destruct Hi as [Hi|Hi]; discriminate Hi).
        destruct Hi as [Hi|Hi]; [apply in_size_minmax_l|apply in_size_minmax_r]; exact Hi.
      - (* Float *) destruct x; cbn [inst] in Hi |- *; try (destruct Hi as [Hi|Hi]; discriminate Hi);
          unfold in_size, float_unbounded in *; lia.
      - (* Array *) destruct x; cbn [inst] in Hi; try (destruct Hi as [Hi|Hi]; discriminate Hi).
        cbn [no_other] in Hn. cbn [K2] in Ka, Kb. cbn [inst].
        destruct Hi as [Hi|Hi]; apply andb_true_iff in Hi; destruct Hi as [Hsz Hi].
        + rewrite (in_size_minmax_l _ _ lo0 hi0 _ Hsz). cbn [andb].
          apply orb_true_iff in Ka. destruct Ka as [Ka|Ka].
          { apply andb_true_iff in Ka. destruct Ka as [_ Kh]. apply Z.eqb_eq in Kh. subst hi.
            rewrite (zlen_nil_of_size _ _ _ Hsz eq_refl). apply orb_true_r. }
          apply orb_true_iff in Hi. destruct Hi as [Hi|Hi].
          { apply is_any_eq in Hi. subst a. destruct n; [discriminate Hn|]. rewrite common_any_l. reflexivity. }
          apply orb_true_iff. right. apply forallb_forall. intros y Hy. rewrite forallb_forall in Hi. specialize (Hi y Hy).
          apply orb_true_iff in Kb. destruct Kb as [Kb|Kb].
          * apply andb_true_iff in Kb. destruct Kb as [Kb _]. apply andb_true_iff in Kb. destruct Kb as [Ub _].
            destruct b; try discriminate Ub. destruct n; [discriminate Hn|]. rewrite (common_unit_r rx n a (K2_not_unit a Ka)). exact Hi.
          * apply IH; auto. exact (V_arr _ _ Hx Hy).
        + rewrite (in_size_minmax_r lo hi _ _ _ Hsz). cbn [andb].
          apply orb_true_iff in Kb. destruct Kb as [Kb|Kb].
          { apply andb_true_iff in Kb. destruct Kb as [_ Kh]. apply Z.eqb_eq in Kh. subst hi0.
            rewrite (zlen_nil_of_size _ _ _ Hsz eq_refl). apply orb_true_r. }
          apply orb_true_iff in Hi. destruct Hi as [Hi|Hi].
          { apply is_any_eq in Hi. subst b. destruct n; [discriminate Hn|].
            apply orb_true_iff in Ka. destruct Ka as [Ka|Ka].
            - apply andb_true_iff in Ka. destruct Ka as [Ka _]. apply andb_true_iff in Ka. destruct Ka as [Ua _].
              destruct a; try discriminate Ua. rewrite common_unit_l. reflexivity.
            - cbn [common_f]. rewrite (K2_not_unit a Ka). cbn [is_unit].
              destruct (A a TAny) eqn:E1.
              + apply orb_true_iff. right. apply forallb_forall. intros y Hy.
                apply (sound_K2 a Ka TAny eq_refl E1 y (V_arr _ _ Hx Hy)). reflexivity.
              + rewrite asg_any_l. reflexivity. }
          apply orb_true_iff. right. apply forallb_forall. intros y Hy. rewrite forallb_forall in Hi. specialize (Hi y Hy).
          apply orb_true_iff in Ka. destruct Ka as [Ka|Ka].
          * apply andb_true_iff in Ka. destruct Ka as [Ka _]. apply andb_true_iff in Ka. destruct Ka as [Ua _].
            destruct a; try discriminate Ua. destruct n; [discriminate Hn|]. rewrite common_unit_l. exact Hi.
          * apply IH; auto. exact (V_arr _ _ Hx Hy).
      - (* Type + Type: the common type accepts both operands; transitivity *)
        destruct x; cbn [inst] in Hi |- *; try (destruct Hi as [Hi|Hi]; discriminate Hi).
        cbn [K2 no_other tv_ok] in *.
        destruct (TG_split _ Ka) as (Wa & _). destruct (TG_split _ Kb) as (Wb & _).
        destruct (common_f_ub2 rx n a b Hok Wa Wb Hn) as [H1 H2].
        assert (Gc : TG (C n a b) = true) by (apply TG_C; assumption).
        destruct Hi as [Hi|Hi]; [exact (TG_trans _ _ _ Gc Ka Hx H1 Hi)|exact (TG_trans _ _ _ Gc Kb Hx H2 Hi)].
    Qed.

    (* ---- folds ---- *)
    Lemma fold_sem2 : forall ts acc, K2 acc = true -> forallb K2 ts = true -> fold_ok2 acc ts = true ->
      K2 (fold_left (common rx) ts acc) = true /\
      (forall z, V z = true -> I acc z = true -> I (fold_left (common rx) ts acc) z = true) /\
      (forall t z, In t ts -> V z = true -> I t z = true -> I (fold_left (common rx) ts acc) z = true).
    Proof.
      induction ts as [|t r IH]; intros acc Ka Kts Hok.
      - cbn. split; [assumption|]. split; [auto|]. intros t z [].
      - cbn [forallb] in Kts. apply andb_true_iff in Kts. destruct Kts as [Kt Kr].
        cbn [fold_ok2] in Hok. apply andb_true_iff in Hok. destruct Hok as [_ Hok].
        apply andb_true_iff in Hok. destruct Hok as [Hc Hok].
        assert (Hn : no_other (common rx acc t) = true).
        { destruct r; cbn [fold_ok2] in Hok; apply andb_true_iff in Hok; tauto. }
        assert (Kc : K2 (common rx acc t) = true) by (apply common_K2; assumption).
        destruct (IH (common rx acc t) Kc Kr Hok) as (HK & Hacc & Hts). cbn [fold_left]. repeat split; [exact HK| |].
        + intros z Hz Hi. apply Hacc; [exact Hz|]. apply common_sem2; auto.
        + intros u z [<-|Hu] Hz Hi; [apply Hacc; [exact Hz|]; apply common_sem2; auto|eauto].
    Qed.

    Theorem infer_inst2 : forall v, iv_ok2 v = true -> V v = true -> K2 (infer rx v) = true /\ I (infer rx v) v = true.
    Proof.
      induction v using value_ind'; intros Hok Hx; cbn [iv_ok2] in Hok; try discriminate Hok; try (split; reflexivity).
      - (* Bool *) split; [reflexivity|]. cbn. apply eqb_reflx.
      - (* Int *) split; [reflexivity|]. cbn. apply in_size_refl'.
      - (* Float *) split; [reflexivity|]. cbn. rewrite in_size_refl'. reflexivity.
      - (* Str *) split; [reflexivity|]. cbn. apply str_eqb_refl.
      - (* Regexp *) split; [reflexivity|]. cbn. rewrite str_eqb_refl. apply orb_true_r.
      - (* Arr *) destruct vs as [|x r]; [split; reflexivity|].
        apply andb_true_iff in Hok. destruct Hok as [Hall Hfold]. rewrite forallb_forall in Hall. rewrite Forall_forall in H.
        assert (HKI : forall y, In y (x :: r) -> K2 (infer rx y) = true /\ I (infer rx y) y = true).
        { intros y Hy. apply (H y Hy); [auto|exact (V_arr _ _ Hx Hy)]. }
        assert (Kts : forallb K2 (map (infer rx) r) = true).
        { apply forallb_forall. intros t Ht. apply in_map_iff in Ht. destruct Ht as (y & <- & Hy). apply HKI. right. assumption. }
        destruct (fold_sem2 (map (infer rx) r) (infer rx x) (proj1 (HKI x (or_introl eq_refl))) Kts Hfold) as (HK & Hacc & Hts).
        rewrite infer_arr_cons. split.
        + cbn [K2]. rewrite HK. apply orb_true_r.
        + cbn [inst]. rewrite in_size_refl'. cbn [andb]. apply orb_true_iff. right. apply forallb_forall. intros y [<-|Hy].
          * apply Hacc; [exact (V_arr _ _ Hx (or_introl eq_refl))|]. apply HKI. left. reflexivity.
          * apply (Hts (infer rx y)); [apply in_map; assumption|exact (V_arr _ _ Hx (or_intror Hy))|]. apply HKI. right. assumption.
      - (* Hash *) destruct es as [|[k x] r]; [split; reflexivity|].
        apply andb_true_iff in Hok. destruct Hok as [Hall Hfold]. apply andb_true_iff in Hfold. destruct Hfold as [Hfk Hfx].
        rewrite forallb_forall in Hall. rewrite Forall_forall in H.
        assert (HKI : forall e, In e ((k, x) :: r) ->
                  (K2 (infer rx (fst e)) = true /\ I (infer rx (fst e)) (fst e) = true) /\
                  (K2 (infer rx (snd e)) = true /\ I (infer rx (snd e)) (snd e) = true)).
        { intros e He. destruct (H e He) as [H1 H2]. specialize (Hall e He). apply andb_true_iff in Hall. destruct Hall.
          destruct (V_hash _ _ Hx He). split; auto. }
        assert (Kks : forallb K2 (map (fun e => infer rx (fst e)) r) = true).
        { apply forallb_forall. intros t Ht. apply in_map_iff in Ht. destruct Ht as (e & <- & He). apply HKI. right. assumption. }
        assert (Kxs : forallb K2 (map (fun e => infer rx (snd e)) r) = true).
        { apply forallb_forall. intros t Ht. apply in_map_iff in Ht. destruct Ht as (e & <- & He). apply HKI. right. assumption. }
        pose proof (HKI (k, x) (or_introl eq_refl)) as H0. cbn [fst snd] in H0. destruct H0 as [[Kk Ik] [Kx Ix]].
        destruct (fold_sem2 _ _ Kk Kks Hfk) as (HK1 & Hacc1 & Hts1).
        destruct (fold_sem2 _ _ Kx Kxs Hfx) as (HK2 & Hacc2 & Hts2).
        destruct (V_hash _ _ Hx (or_introl eq_refl)) as [Vk Vx]. cbn [fst snd] in Vk, Vx.
        rewrite infer_hash_cons. split.
        + cbn [K2]. rewrite HK1, HK2. apply orb_true_r.
        + cbn [inst]. rewrite in_size_refl'. cbn [andb]. apply forallb_forall. intros e [<-|He]; cbn [fst snd].
          * rewrite (Hacc1 _ Vk Ik), (Hacc2 _ Vx Ix). reflexivity.
          * destruct (HKI e (or_intror He)) as [[_ Ike] [_ Ixe]]. destruct (V_hash _ _ Hx (or_intror He)) as [Ve1 Ve2].
            rewrite (Hts1 (infer rx (fst e)) (fst e)), (Hts2 (infer rx (snd e)) (snd e)); auto.
            -- apply (in_map (fun e0 => infer rx (snd e0))). assumption.
            -- apply (in_map (fun e0 => infer rx (fst e0))). assumption.
      - (* Type: Type[t] has t as an instance by reflexivity *)
        cbn [tv_ok] in Hx. split; [exact Hx|]. cbn [infer inst]. apply refl. apply (TG_split _ Hx).
      - (* Sensitive *) cbn [tv_ok] in Hx. destruct (IHv Hok Hx) as [HK HI]. split; [exact HK|exact HI].
    Qed.
  End Mode.

  (* ---- the two modes ---- *)
  Definition TGs (t : ty) : bool := wf_ty t && no_unit t && no_struct t.
  Definition TGh (t : ty) : bool := wf_ty t && no_unit t && no_hash t.

  (* the types that occur in v as values: well-formed, Unit-free, and the by-specification rule cannot fire between
     any two of them or of their common types (none contains a Struct, or none contains a Hash) *)
  Definition tvals_ok (v : value) : bool := tv_ok TGs v || tv_ok TGh v.

  Definition iv_all (v : value) : bool := iv_ok2 v && tvals_ok v.

  Theorem infer_inst_all : forall v, iv_all v = true -> I (infer rx v) v = true.
  Proof.
    intros v H. unfold iv_all in H. apply andb_true_iff in H. destruct H as [Hok Hv].
    unfold tvals_ok in Hv. apply orb_true_iff in Hv. destruct Hv as [Hv|Hv].
    - refine (proj2 (infer_inst2 no_struct _ (no_struct_C rx) v Hok Hv)).
      intros a b Ha _. apply rule_free_l. exact Ha.
    - refine (proj2 (infer_inst2 no_hash _ (no_hash_C rx) v Hok Hv)).
      intros a b _ Hb. apply rule_free_r. exact Hb.
  Qed.

  (* ---- the guard of the first-order theorem (InferInst.iv_ok) implies this one ---- *)
  Lemma ok2_unit_l n b : ok2 n TUnit b = true.
  Proof. destruct n; reflexivity. Qed.
  Lemma ok2_unit_r n a : ok2 n a TUnit = true.
  Proof. destruct n; [reflexivity|]. cbn [common_ok2 is_unit]. destruct (is_unit a); reflexivity. Qed.

  Lemma K_ok2 : forall n a b, K a = true -> K b = true -> ok2 n a b = true.
  Proof.
    induction n as [|n IH]; intros a b Ka Kb; [reflexivity|]. cbn [common_ok2].
    destruct (is_unit a); [reflexivity|]. destruct (is_unit b); [reflexivity|].
    destruct (A a b); [reflexivity|]. destruct (A b a); [reflexivity|].
    destruct (string_merge a b); [reflexivity|].
    destruct a; try discriminate Ka; try reflexivity; destruct b; try discriminate Kb; try reflexivity.
    cbn [merge_ok2]. cbn [K] in Ka, Kb. apply orb_true_iff in Ka, Kb.
    destruct Ka as [Ka|Ka].
    { apply andb_true_iff in Ka. destruct Ka as [Ka _]. apply andb_true_iff in Ka. destruct Ka as [Ua _].
      destruct a; try discriminate Ua. apply ok2_unit_l. }
    destruct Kb as [Kb|Kb].
    { apply andb_true_iff in Kb. destruct Kb as [Kb _]. apply andb_true_iff in Kb. destruct Kb as [Ub _].
      destruct b; try discriminate Ub. apply ok2_unit_r. }
    apply IH; assumption.
  Qed.

  Lemma fold_ok_ok2 : forall ts acc, K acc = true -> forallb K ts = true -> fold_ok rx acc ts = true -> fold_ok2 acc ts = true.
  Proof.
    induction ts as [|t r IH]; intros acc Ka Kts Hok; cbn [fold_ok fold_ok2] in *.
    - exact Hok.
    - apply andb_true_iff in Hok. destruct Hok as [Hn Hok]. rewrite Hn. cbn [andb].
      cbn [forallb] in Kts. apply andb_true_iff in Kts. destruct Kts as [Kt Kr].
      rewrite (K_ok2 _ acc t Ka Kt). cbn [andb]. apply IH; [apply common_K; assumption|exact Kr|exact Hok].
  Qed.

  Lemma iv_ok_iv_all : forall v, iv_ok rx v = true -> iv_ok2 v = true /\ forall g, tv_ok g v = true.
  Proof.
    induction v using value_ind'; intros Hok; cbn [iv_ok] in Hok; try discriminate Hok; try (split; [reflexivity|intros g; reflexivity]).
    - (* Arr *) apply andb_true_iff in Hok. destruct Hok as [Hall Hfold]. rewrite forallb_forall in Hall. rewrite Forall_forall in H.
      split.
      + cbn [iv_ok2]. apply andb_true_iff. split; [apply forallb_forall; intros y Hy; apply (H y Hy); auto|].
        destruct vs as [|x r]; [reflexivity|]. apply fold_ok_ok2; [| |exact Hfold].
        * apply (infer_inst rx x). apply Hall. left. reflexivity.
        * apply forallb_forall. intros t Ht. apply in_map_iff in Ht. destruct Ht as (y & <- & Hy).
          apply (infer_inst rx y). apply Hall. right. exact Hy.
      + intros g. cbn [tv_ok]. apply forallb_forall. intros y Hy. apply (H y Hy); auto.
    - (* Hash *) apply andb_true_iff in Hok. destruct Hok as [Hall Hfold]. rewrite forallb_forall in Hall. rewrite Forall_forall in H.
      assert (Hsub : forall e, In e es -> iv_ok rx (fst e) = true /\ iv_ok rx (snd e) = true).
      { intros e He. specialize (Hall e He). apply andb_true_iff in Hall. exact Hall. }
      split.
      + cbn [iv_ok2]. apply andb_true_iff. split.
        * apply forallb_forall. intros e He. destruct (H e He) as [H1 H2]. destruct (Hsub e He) as [S1 S2].
          rewrite (proj1 (H1 S1)), (proj1 (H2 S2)). reflexivity.
        * destruct es as [|[k x] r]; [reflexivity|]. apply andb_true_iff in Hfold. destruct Hfold as [Hfk Hfx].
          apply andb_true_iff. split; apply fold_ok_ok2; try assumption.
          -- apply (infer_inst rx k). apply (Hsub (k, x)). left. reflexivity.
          -- apply forallb_forall. intros t Ht. apply in_map_iff in Ht. destruct Ht as (e & <- & He).
             apply (infer_inst rx (fst e)). apply (Hsub e). right. exact He.
          -- apply (infer_inst rx x). apply (Hsub (k, x)). left. reflexivity.
          -- apply forallb_forall. intros t Ht. apply in_map_iff in Ht. destruct Ht as (e & <- & He).
             apply (infer_inst rx (snd e)). apply (Hsub e). right. exact He.
      + intros g. cbn [tv_ok]. apply forallb_forall. intros e He. destruct (H e He) as [H1 H2]. destruct (Hsub e He) as [S1 S2].
        rewrite (proj2 (H1 S1) g), (proj2 (H2 S2) g). reflexivity.
    - (* Sensitive *) destruct (IHv Hok) as [H1 H2]. split; [exact H1|exact H2].
  Qed.

  Lemma iv_ok_subsumed v : iv_ok rx v = true -> iv_all v = true.
  Proof.
    intros H. destruct (iv_ok_iv_all v H) as [H1 H2]. unfold iv_all, tvals_ok. rewrite H1, (H2 TGs). reflexivity.
  Qed.
End InferInst2.
