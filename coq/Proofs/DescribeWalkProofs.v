(* Proofs about Model/DescribeWalk.v: the walk over the expected type visits every alias at most once,
   makes a number of visits that is linear in the size of the type graph, and never runs out of a fuel
   (depth of the Go stack) that is linear as well - for every graph of aliases, cyclic or not. *)
From Coq Require Import NArith Bool List Arith Lia.
From PcoreV Require Import Model.Base Model.DescribeWalk.
Import ListNotations.

Local Arguments Nat.ltb : simpl never.

(* ---- lists of numbers ---- *)

Lemma mem_In i l : mem i l = true <-> In i l.
Proof.
  unfold mem. rewrite existsb_exists. split.
  - intros [x [Hin Heq]]. apply Nat.eqb_eq in Heq. subst. exact Hin.
  - intros Hin. exists i. split; [exact Hin | apply Nat.eqb_refl].
Qed.

Lemma mem_false i l : mem i l = false <-> ~ In i l.
Proof.
  rewrite <- mem_In. destruct (mem i l); split; intro H.
  - discriminate.
  - exfalso. apply H. reflexivity.
  - intro H'. discriminate.
  - reflexivity.
Qed.

Lemma NoDup_app_intro {A} (a b : list A) :
  NoDup a -> NoDup b -> (forall x, In x a -> ~ In x b) -> NoDup (a ++ b).
Proof.
  induction a as [|x a IH]; intros Ha Hb Hd; cbn [app]; [exact Hb|].
  inversion Ha as [|x' a' Hx Ha']; subst. constructor.
  - rewrite in_app_iff. intros [H|H]; [exact (Hx H)|]. exact (Hd x (or_introl eq_refl) H).
  - apply IH; [exact Ha' | exact Hb |]. intros y Hy. apply Hd. right. exact Hy.
Qed.

Lemma list_sum_cons a l : list_sum (a :: l) = a + list_sum l.
Proof. reflexivity. Qed.

Lemma list_max_cons a l : list_max (a :: l) = Nat.max a (list_max l).
Proof. reflexivity. Qed.

Definition wsum (w : nat -> nat) (l : list nat) : nat := list_sum (map w l).

Lemma wsum_app w a b : wsum w (a ++ b) = wsum w a + wsum w b.
Proof. unfold wsum. rewrite map_app, list_sum_app. reflexivity. Qed.

Lemma wsum_le_pointwise (w w' : nat -> nat) l :
  (forall i, In i l -> w i <= w' i) -> wsum w l <= wsum w' l.
Proof.
  unfold wsum. induction l as [|a l IH]; intros H; cbn [map]; rewrite ?list_sum_cons; [lia|].
  assert (Ha := H a (or_introl eq_refl)).
  assert (Hl : forall i, In i l -> w i <= w' i) by (intros i Hi; apply H; right; exact Hi).
  specialize (IH Hl). lia.
Qed.

(* a duplicate-free list of members of m weighs at most as much as m *)
Lemma wsum_nodup_incl w l : forall m, NoDup l -> incl l m -> wsum w l <= wsum w m.
Proof.
  induction l as [|a l IH]; intros m Hnd Hin; [unfold wsum; cbn; lia|].
  inversion Hnd as [|a' l' Ha Hl]; subst.
  assert (Ham : In a m) by (apply Hin; left; reflexivity).
  destruct (in_split a m Ham) as [m1 [m2 Hm]]. subst m.
  assert (Hin' : incl l (m1 ++ m2)).
  { intros x Hx. assert (Hx' : In x (m1 ++ a :: m2)) by (apply Hin; right; exact Hx).
    rewrite in_app_iff in *. cbn [In] in Hx'. destruct Hx' as [H|[H|H]]; [left; exact H | | right; exact H].
    subst. contradiction. }
  specialize (IH (m1 ++ m2) Hl Hin').
  rewrite wsum_app in *. unfold wsum in *. cbn [map]; rewrite ?list_sum_cons. lia.
Qed.

Lemma wsum_seq_nth {A} (f : A -> nat) (d : A) (env : list A) :
  wsum (fun i => f (nth i env d)) (seq 0 (length env)) = list_sum (map f env).
Proof.
  unfold wsum. f_equal.
  rewrite <- (map_map (fun i => nth i env d) f). f_equal.
  clear f. induction env as [|a env IH]; [reflexivity|].
  cbn [length seq map nth]. f_equal. rewrite <- seq_shift, map_map. exact IH.
Qed.

(* ---- sizes ---- *)

Lemma depth_child c ts : In c ts -> depth c < depth (ANode ts).
Proof.
  intros Hin. cbn [depth].
  assert (H : depth c <= list_max (map depth ts)).
  { induction ts as [|x ts IH]; [destruct Hin|]. cbn [map]. rewrite list_max_cons. destruct Hin as [->|Hin]; [lia|].
    specialize (IH Hin). lia. }
  lia.
Qed.

(* ---- the invariant of the walk ---- *)

Section Walk.
  Variable env : list aty.

  Definition wsize (i : nat) : nat := S (size (nth i env ALeaf)).

  (* what a successful walk guarantees *)
  Definition walk_post (seen : list nat) (sz : nat) (r : wstate) : Prop :=
    let (s', es) := r in
    s' = rev (aliases es) ++ seen /\
    NoDup (aliases es) /\
    (forall i, In i (aliases es) -> ~ In i seen /\ i < length env) /\
    length es <= sz + wsum wsize (aliases es).

  Lemma aliases_app a b : aliases (a ++ b) = aliases a ++ aliases b.
  Proof.
    induction a as [|e a IH]; [reflexivity|]. destruct e; cbn [app aliases]; rewrite ?IH; reflexivity.
  Qed.

  Lemma walk_post_no_alias seen sz es : aliases es = [] -> length es <= sz -> walk_post seen sz (seen, es).
  Proof.
    intros Ha Hl. unfold walk_post. rewrite Ha.
    split; [reflexivity|]. split; [constructor|]. split; [intros i []|]. unfold wsum. cbn. lia.
  Qed.

  Lemma walk_list_post (w : list nat -> aty -> wres wstate) (ts : list aty) :
    (forall seen c r, In c ts -> w seen c = WOk r -> walk_post seen (size c) r) ->
    forall seen r, walk_list w seen ts = WOk r -> walk_post seen (list_sum (map size ts)) r.
  Proof.
    induction ts as [|c cs IH]; intros Hw seen r Hr; cbn [walk_list] in Hr.
    - inversion Hr; subst. apply walk_post_no_alias; [reflexivity | cbn; lia].
    - destruct (w seen c) as [[s1 e1]| |] eqn:Hc; try discriminate.
      destruct (walk_list w s1 cs) as [[s2 e2]| |] eqn:Hcs; try discriminate.
      inversion Hr; subst r; clear Hr.
      pose proof (Hw seen c _ (or_introl eq_refl) Hc) as P1. cbn in P1.
      destruct P1 as [Hs1 [Hnd1 [Hnew1 Hlen1]]].
      assert (Hw' : forall seen c0 r, In c0 cs -> w seen c0 = WOk r -> walk_post seen (size c0) r).
      { intros s0 c0 r0 Hin. apply Hw. right. exact Hin. }
      pose proof (IH Hw' s1 _ Hcs) as P2. cbn in P2.
      destruct P2 as [Hs2 [Hnd2 [Hnew2 Hlen2]]].
      cbn. rewrite aliases_app.
      assert (Hdisj : forall x, In x (aliases e1) -> ~ In x (aliases e2)).
      { intros x Hx1 Hx2. destruct (Hnew2 x Hx2) as [Hns _]. apply Hns. subst s1.
        rewrite in_app_iff. left. rewrite <- in_rev. exact Hx1. }
      repeat split.
      + subst s2 s1. rewrite rev_app_distr, app_assoc. reflexivity.
      + apply NoDup_app_intro; assumption.
      + rewrite in_app_iff in H. destruct H as [H|H]; [exact (proj1 (Hnew1 i H))|].
        destruct (Hnew2 i H) as [Hns _]. intro Hs. apply Hns. subst s1. rewrite in_app_iff. right. exact Hs.
      + rewrite in_app_iff in H. destruct H as [H|H]; [exact (proj2 (Hnew1 i H)) | exact (proj2 (Hnew2 i H))].
      + rewrite app_length, wsum_app. unfold list_sum in *. lia.
  Qed.

  Lemma walk_post_holds : forall fuel seen t r, walk fuel env seen t = WOk r -> walk_post seen (size t) r.
  Proof.
    induction fuel as [|f IH]; intros seen t r Hr; [discriminate|].
    cbn [walk] in Hr. destruct t as [|n|i|ts].
    - inversion Hr; subst. apply walk_post_no_alias; [reflexivity | cbn; lia].
    - inversion Hr; subst. apply walk_post_no_alias; [reflexivity | cbn; lia].
    - destruct (mem i seen) eqn:Hm.
      + inversion Hr; subst. apply walk_post_no_alias; [reflexivity | cbn; lia].
      + destruct (nth_error env i) as [b|] eqn:Hn; try discriminate.
        destruct (walk f env (i :: seen) b) as [[s' es]| |] eqn:Hb; try discriminate.
        inversion Hr; subst r; clear Hr.
        pose proof (IH _ _ _ Hb) as P. cbn in P. destruct P as [Hs [Hnd [Hnew Hlen]]].
        apply mem_false in Hm.
        assert (Hi : i < length env) by (apply nth_error_Some; rewrite Hn; discriminate).
        cbn [walk_post aliases]. repeat split.
        * subst s'. cbn [rev]. rewrite <- app_assoc. reflexivity.
        * constructor; [|exact Hnd]. intro Hin. destruct (Hnew i Hin) as [Hns _]. apply Hns. left. reflexivity.
        * destruct H as [<-|H]; [exact Hm|]. destruct (Hnew i0 H) as [Hns _]. intro Hs'. apply Hns. right. exact Hs'.
        * destruct H as [<-|H]; [exact Hi|]. exact (proj2 (Hnew i0 H)).
        * cbn [length size]. unfold wsum in *. cbn [map]; rewrite ?list_sum_cons. unfold wsize at 1.
          rewrite (nth_error_nth _ _ ALeaf Hn). lia.
    - destruct (walk_list (walk f env) seen ts) as [[s' es]| |] eqn:Hl; try discriminate.
      inversion Hr; subst r; clear Hr.
      assert (Hw : forall seen c r, In c ts -> walk f env seen c = WOk r -> walk_post seen (size c) r).
      { intros s0 c r0 _ H0. exact (IH _ _ _ H0). }
      pose proof (walk_list_post _ ts Hw _ _ Hl) as P. cbn in P. destruct P as [Hs [Hnd [Hnew Hlen]]].
      cbn [walk_post aliases size length]. repeat split; try assumption.
      + exact (proj1 (Hnew i H)).
      + exact (proj2 (Hnew i H)).
      + lia.
  Qed.

  (* ---- enough fuel ---- *)

  Definition wdepth (seen : list nat) (i : nat) : nat :=
    if mem i seen then 0 else S (depth (nth i env ALeaf)).
  Definition unseen_depth (seen : list nat) : nat := wsum (wdepth seen) (seq 0 (length env)).

  Lemma unseen_depth_mono seen seen' : incl seen seen' -> unseen_depth seen' <= unseen_depth seen.
  Proof.
    intros Hin. apply wsum_le_pointwise. intros i _. unfold wdepth.
    destruct (mem i seen) eqn:Hm.
    - apply mem_In in Hm. apply Hin in Hm. apply mem_In in Hm. rewrite Hm. lia.
    - destruct (mem i seen'); lia.
  Qed.

  Lemma wsum_enter seen i l :
    In i l -> mem i seen = false ->
    S (depth (nth i env ALeaf)) + wsum (wdepth (i :: seen)) l <= wsum (wdepth seen) l.
  Proof.
    intros Hin Hm. induction l as [|a l IH]; [destruct Hin|].
    unfold wsum in *. cbn [map]; rewrite ?list_sum_cons.
    destruct (Nat.eq_dec a i) as [->|Hne].
    - assert (Hl : list_sum (map (wdepth (i :: seen)) l) <= list_sum (map (wdepth seen) l)).
      { apply (wsum_le_pointwise (wdepth (i :: seen)) (wdepth seen)). intros j _. unfold wdepth, mem. cbn [existsb].
        destruct (Nat.eqb j i); cbn [orb]; [lia|]. destruct (existsb (Nat.eqb j) seen); lia. }
      unfold wdepth at 1 3. unfold mem at 1. cbn [existsb]. rewrite Nat.eqb_refl. cbn [orb]. rewrite Hm. lia.
    - destruct Hin as [Heq|Hin]; [contradiction|]. specialize (IH Hin).
      assert (Ha : wdepth (i :: seen) a = wdepth seen a).
      { unfold wdepth, mem. cbn [existsb]. apply Nat.eqb_neq in Hne. rewrite Hne. reflexivity. }
      rewrite Ha. lia.
  Qed.

  Lemma unseen_depth_enter seen i :
    i < length env -> mem i seen = false ->
    S (depth (nth i env ALeaf)) + unseen_depth (i :: seen) <= unseen_depth seen.
  Proof.
    intros Hi Hm. apply wsum_enter; [|exact Hm]. apply in_seq. lia.
  Qed.

  Lemma walk_post_incl seen sz r : walk_post seen sz r -> incl seen (fst r).
  Proof.
    destruct r as [s' es]. cbn. intros [Hs _] x Hx. subst s'. rewrite in_app_iff. right. exact Hx.
  Qed.

  Hypothesis Henv : closed_env env = true.

  Lemma closed_nth i : i < length env -> closed (length env) (nth i env ALeaf) = true.
  Proof.
    intros Hi. unfold closed_env in Henv. rewrite forallb_forall in Henv. apply Henv. apply nth_In. exact Hi.
  Qed.

  Lemma walk_list_enough (f : nat) (ts : list aty) :
    (forall seen c, In c ts -> f > depth c + unseen_depth seen -> exists r, walk f env seen c = WOk r) ->
    forall seen, (forall c, In c ts -> f > depth c + unseen_depth seen) ->
    exists r, walk_list (walk f env) seen ts = WOk r.
  Proof.
    induction ts as [|c cs IH]; intros Hw seen Hf; cbn [walk_list]; [eexists; reflexivity|].
    destruct (Hw seen c (or_introl eq_refl) (Hf c (or_introl eq_refl))) as [[s1 e1] Hc]. rewrite Hc.
    pose proof (walk_post_incl _ _ _ (walk_post_holds _ _ _ _ Hc)) as Hincl. cbn [fst] in Hincl.
    pose proof (unseen_depth_mono _ _ Hincl) as Hmono.
    assert (Hw' : forall seen c0, In c0 cs -> f > depth c0 + unseen_depth seen -> exists r, walk f env seen c0 = WOk r).
    { intros s0 c0 Hin. apply Hw. right. exact Hin. }
    assert (Hf' : forall c0, In c0 cs -> f > depth c0 + unseen_depth s1).
    { intros c0 Hin. specialize (Hf c0 (or_intror Hin)). lia. }
    destruct (IH Hw' s1 Hf') as [[s2 e2] Hcs]. rewrite Hcs. eexists; reflexivity.
  Qed.

  Lemma walk_enough : forall fuel seen t,
    closed (length env) t = true -> fuel > depth t + unseen_depth seen -> exists r, walk fuel env seen t = WOk r.
  Proof.
    induction fuel as [|f IH]; intros seen t Hc Hf; [lia|].
    cbn [walk]. destruct t as [|n|i|ts]; try (eexists; reflexivity).
    - destruct (mem i seen) eqn:Hm; [eexists; reflexivity|].
      cbn [closed] in Hc. apply Nat.ltb_lt in Hc.
      destruct (nth_error env i) as [b|] eqn:Hn; [|apply nth_error_None in Hn; lia].
      pose proof (unseen_depth_enter seen i Hc Hm) as Hent.
      pose proof (closed_nth i Hc) as Hcb. rewrite (nth_error_nth _ _ ALeaf Hn) in Hent, Hcb.
      cbn [depth] in Hf.
      destruct (IH (i :: seen) b Hcb) as [[s' es] Hb]; [lia|]. rewrite Hb. eexists; reflexivity.
    - cbn [closed] in Hc. rewrite forallb_forall in Hc.
      destruct (walk_list_enough f ts) with (seen := seen) as [[s' es] Hl].
      + intros s0 c Hin Hfc. apply IH; [apply Hc; exact Hin | exact Hfc].
      + intros c Hin. pose proof (depth_child c ts Hin). lia.
      + rewrite Hl. eexists; reflexivity.
  Qed.
End Walk.

(* ---- the statements about accept / describe_stage ---- *)

Lemma unseen_depth_nil env : unseen_depth env [] = list_sum (map (fun b => S (depth b)) env).
Proof.
  unfold unseen_depth, wdepth. cbn [mem existsb].
  exact (wsum_seq_nth (fun b => S (depth b)) ALeaf env).
Qed.

Definition env_size (env : list aty) : nat := list_sum (map (fun b => S (size b)) env).

(* an alias entered with a new guard: every alias at most once, at most env_size visits *)
Lemma walk_fresh env fuel i s es :
  walk fuel env [] (AAlias i) = WOk (s, es) ->
  NoDup (aliases es) /\ length (aliases es) <= length env /\ length es <= env_size env.
Proof.
  intros H. pose proof (walk_post_holds env _ _ _ _ H) as P. cbn in P. destruct P as [_ [Hnd [Hnew Hlen]]].
  assert (Hincl : incl (aliases es) (seq 0 (length env))).
  { intros j Hj. apply in_seq. destruct (Hnew j Hj). lia. }
  split; [exact Hnd|]. split.
  - rewrite <- (seq_length (length env) 0). apply NoDup_incl_length; assumption.
  - pose proof (wsum_nodup_incl (wsize env) _ _ Hnd Hincl) as Hle.
    unfold wsize in Hle, Hlen. rewrite (wsum_seq_nth (fun b => S (size b)) ALeaf env) in Hle.
    unfold env_size. lia.
Qed.

Lemma aliases_app' a b : aliases (a ++ b) = aliases a ++ aliases b.
Proof. exact (aliases_app a b). Qed.

Definition nil_post (env : list aty) (sz oc : nat) (es : list ev) : Prop :=
  length es <= sz + oc * env_size env /\ length (aliases es) <= oc * length env.

Lemma walk_nil_list_post env (w : aty -> wres (list ev)) (ts : list aty) :
  (forall c es, In c ts -> w c = WOk es -> nil_post env (size c) (occ c) es) ->
  forall es, walk_nil_list w ts = WOk es -> nil_post env (list_sum (map size ts)) (list_sum (map occ ts)) es.
Proof.
  induction ts as [|c cs IH]; intros Hw es Hes; cbn [walk_nil_list] in Hes.
  - inversion Hes; subst. unfold nil_post. cbn. lia.
  - destruct (w c) as [e1| |] eqn:Hc; try discriminate.
    destruct (walk_nil_list w cs) as [e2| |] eqn:Hcs; try discriminate.
    inversion Hes; subst es; clear Hes.
    destruct (Hw c e1 (or_introl eq_refl) Hc) as [H1 H1'].
    assert (Hw' : forall c0 es, In c0 cs -> w c0 = WOk es -> nil_post env (size c0) (occ c0) es).
    { intros c0 es0 Hin. apply Hw. right. exact Hin. }
    destruct (IH Hw' e2 eq_refl) as [H2 H2'].
    unfold nil_post. cbn [map]. rewrite !list_sum_cons, aliases_app', !app_length, !Nat.mul_add_distr_r. lia.
Qed.

Lemma walk_nil_post env : forall fuel t es, walk_nil fuel env t = WOk es -> nil_post env (size t) (occ t) es.
Proof.
  induction fuel as [|f IH]; intros t es H; [discriminate|].
  cbn [walk_nil] in H. destruct t as [|n|i|ts].
  - inversion H; subst. unfold nil_post. cbn. lia.
  - inversion H; subst. unfold nil_post. cbn. lia.
  - destruct (walk (S f) env [] (AAlias i)) as [[s es']| |] eqn:Hw; try discriminate.
    inversion H; subst es'; clear H.
    destruct (walk_fresh env _ _ _ _ Hw) as [_ [Ha Hl]].
    unfold nil_post. cbn [size occ]. lia.
  - destruct (walk_nil_list (walk_nil f env) ts) as [es'| |] eqn:Hl; try discriminate.
    inversion H; subst es; clear H.
    assert (Hw : forall c es, In c ts -> walk_nil f env c = WOk es -> nil_post env (size c) (occ c) es).
    { intros c es0 _ H0. exact (IH _ _ H0). }
    destruct (walk_nil_list_post env _ ts Hw _ Hl) as [H1 H2].
    unfold nil_post. cbn [size occ aliases length]. lia.
Qed.

Lemma walk_nil_list_enough (w : aty -> wres (list ev)) (ts : list aty) :
  (forall c, In c ts -> exists es, w c = WOk es) -> exists es, walk_nil_list w ts = WOk es.
Proof.
  induction ts as [|c cs IH]; intros Hw; cbn [walk_nil_list]; [eexists; reflexivity|].
  destruct (Hw c (or_introl eq_refl)) as [e1 Hc]. rewrite Hc.
  destruct IH as [e2 Hcs]; [intros c0 Hin; apply Hw; right; exact Hin|]. rewrite Hcs. eexists; reflexivity.
Qed.

Lemma walk_nil_enough env :
  closed_env env = true ->
  forall fuel t, closed (length env) t = true -> fuel > depth t + unseen_depth env [] ->
  exists es, walk_nil fuel env t = WOk es.
Proof.
  intros Henv. induction fuel as [|f IH]; intros t Hc Hf; [lia|].
  cbn [walk_nil]. destruct t as [|n|i|ts]; try (eexists; reflexivity).
  - destruct (walk_enough env Henv (S f) [] (AAlias i) Hc Hf) as [[s es] H]. rewrite H. eexists; reflexivity.
  - cbn [closed] in Hc. rewrite forallb_forall in Hc.
    destruct (walk_nil_list_enough (walk_nil f env) ts) as [es Hl].
    + intros c Hin. apply IH; [apply Hc; exact Hin|]. pose proof (depth_child c ts Hin). lia.
    + rewrite Hl. eexists; reflexivity.
Qed.

Lemma accept_total env t :
  closed_env env = true -> closed (length env) t = true -> exists es, accept env t = WOk es.
Proof.
  intros Henv Ht. unfold accept. apply walk_nil_enough; [exact Henv | exact Ht |].
  rewrite unseen_depth_nil. unfold walk_fuel. lia.
Qed.

(* an expected type that is an alias: every alias is visited at most once *)
Lemma accept_alias_once env i es :
  accept env (AAlias i) = WOk es -> NoDup (aliases es) /\ length (aliases es) <= length env.
Proof.
  unfold accept. intros H. destruct (walk_fuel env (AAlias i)) as [|f] eqn:Hf; [discriminate|].
  cbn [walk_nil] in H.
  destruct (walk (S f) env [] (AAlias i)) as [[s es']| |] eqn:Hw; try discriminate.
  inversion H; subst es'. destruct (walk_fresh env _ _ _ _ Hw) as [Hnd [Hl _]]. split; assumption.
Qed.

(* in general: at most once for every alias that is written in the expected type itself *)
Lemma accept_alias_visits env t es :
  accept env t = WOk es -> length (aliases es) <= occ t * length env.
Proof. intros H. exact (proj2 (walk_nil_post env _ _ _ H)). Qed.

Lemma accept_visits_linear env t es :
  accept env t = WOk es -> length es <= visit_bound env t.
Proof. intros H. exact (proj1 (walk_nil_post env _ _ _ H)). Qed.

Lemma describe_stage_total env e asg :
  closed_env env = true -> closed (length env) e = true -> exists d, describe_stage env e asg = WOk d.
Proof.
  intros Henv He. unfold describe_stage. destruct asg; [eexists; reflexivity|].
  destruct (accept_total env e Henv He) as [es H]. rewrite H.
  destruct (first_ref es); eexists; reflexivity.
Qed.

Lemma describe_stage_assignable env e : describe_stage env e true = WOk DNoMismatch.
Proof. reflexivity. Qed.

(* an unresolved reference is reported exactly when the pair is not assignable and the walk meets one *)
Lemma describe_stage_unresolved env e asg n :
  describe_stage env e asg = WOk (DUnresolved n) <->
  asg = false /\ exists es, accept env e = WOk es /\ first_ref es = Some n.
Proof.
  unfold describe_stage. destruct asg.
  - split; [discriminate | intros [H _]; discriminate].
  - destruct (accept env e) as [es| |] eqn:Ha.
    + destruct (first_ref es) as [m|] eqn:Hf; split.
      * intros H. inversion H; subst. split; [reflexivity|]. exists es. split; [reflexivity | exact Hf].
      * intros [_ [es' [H1 H2]]]. inversion H1; subst. rewrite Hf in H2. inversion H2. reflexivity.
      * discriminate.
      * intros [_ [es' [H1 H2]]]. inversion H1; subst. rewrite Hf in H2. discriminate.
    + split; [discriminate | intros [_ [es' [H1 _]]]; discriminate].
    + split; [discriminate | intros [_ [es' [H1 _]]]; discriminate].
Qed.
