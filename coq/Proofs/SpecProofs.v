(* SpecProofs.v — C02: the modelled IsInstance coincides with the set denotation of Model/Spec.v. *)
From Coq Require Import ZArith NArith Bool List Lia.
From PcoreV Require Import Model.Base Model.Ty Model.Lattice Model.Spec Proofs.LatticeUnfold Proofs.LatticeBasics
  Proofs.StructCount Proofs.LatticeSound.
Import ListNotations.
Open Scope Z_scope.

(* well-formed values: the keys of every hash are pairwise different (the invariant of C09); types may occur *)
Fixpoint wfv (v : value) : bool :=
  match v with
  | VArr vs => forallb wfv vs
  | VHash es => distinct_keys (map fst es) && forallb (fun e => wfv (fst e) && wfv (snd e)) es
  | VSensitive x => wfv x
  | _ => true
  end.

Lemma in_size_between lo hi n : in_size lo hi n = true <-> between lo hi n.
Proof. unfold in_size, between. rewrite andb_true_iff, !Z.leb_le. tauto. Qed.

Lemma float_unbounded_spec lo hi : float_unbounded lo hi = true <-> unbounded_float lo hi.
Proof. unfold float_unbounded, unbounded_float. rewrite andb_true_iff, !Z.leb_le. tauto. Qed.

Definition dens (d : ty -> value -> Prop) : list ty -> list (value -> Prop) :=
  fix go (l : list ty) := match l with [] => [] | t' :: r => d t' :: go r end.
Lemma dens_map d l : dens d l = map d l.
Proof. induction l; cbn; congruence. Qed.

Definition mdens (d : ty -> value -> Prop) : list (str * (ty * ty)) -> list (str * bool * (value -> Prop)) :=
  fix go (l : list (str * (ty * ty))) :=
    match l with [] => [] | (n, (k, x)) :: r => (n, key_optional k, d x) :: go r end.
Lemma mdens_in d ms n o p : In (n, o, p) (mdens d ms) <-> exists m, In m ms /\ n = fst m /\ o = key_optional (fst (snd m)) /\ p = d (snd (snd m)).
Proof.
  induction ms as [|[n' [k x]] r IH]; cbn.
  - split; [intros []|intros (m & [] & _)].
  - rewrite IH. split.
    + intros [H|(m & Hm & H)]; [injection H as <- <- <-; exists (n', (k, x)); auto|exists m; auto].
    + intros (m & [<-|Hm] & H1 & H2 & H3); [left; cbn in *; subst; reflexivity|right; exists m; auto].
Qed.

Definition anyd (d : ty -> Prop) : list ty -> Prop :=
  fix any (l : list ty) : Prop := match l with [] => False | t' :: r => d t' \/ any r end.
Lemma anyd_ex d l : anyd d l <-> exists t, In t l /\ d t.
Proof.
  induction l as [|t r IH]; cbn.
  - split; [intros []|intros (t & [] & _)].
  - rewrite IH. split.
    + intros [H|(t' & Ht & H)]; eauto.
    + intros (t' & [<-|Ht] & H); eauto.
Qed.

Section SpecEq.
  Variable rx : str -> str -> bool.
  Variable hs : bool.
  Notation inst := (inst rx hs).
  Notation den := (den rx (asg rx hs)).
  Notation walk := (walk rx hs).

  Definition slot (ts : list ty) (i : nat) : ty := nth (Nat.min i (length ts - 1)) ts TAny.

  Lemma walk_spec ts : ts <> [] -> forall vs,
    walk ts vs = true <-> (forall i x, nth_error vs i = Some x -> inst (slot ts i) x = true).
  Proof.
    induction ts as [|t ts IH]; [congruence|]. intros _ vs. destruct ts as [|t' ts].
    - (* one type: every element *)
      unfold slot. cbn [length Nat.sub]. destruct vs as [|v vs].
      + split; [intros _ i x H; destruct i; discriminate|reflexivity].
      + cbn. rewrite andb_true_iff, forallb_forall. split.
        * intros [H0 Hall] i x Hi. rewrite Nat.min_0_r. cbn. destruct i; cbn in Hi; [congruence|].
          apply Hall. eapply nth_error_In; eauto.
        * intros H. split; [apply (H 0%nat v eq_refl)|]. intros x Hx. destruct (In_nth_error _ _ Hx) as (i & Hi).
          specialize (H (S i) x Hi). rewrite Nat.min_0_r in H. exact H.
    - destruct vs as [|v vs].
      + split; [intros _ i x H; destruct i; discriminate|intros _; apply walk_nil_r].
      + change (walk (t :: t' :: ts) (v :: vs)) with (inst t v && walk (t' :: ts) vs).
        rewrite andb_true_iff, (IH ltac:(congruence) vs). split.
        * intros [H0 Hr] i x Hi. destruct i as [|i]; cbn in Hi.
          -- injection Hi as <-. exact H0.
          -- specialize (Hr i x Hi). unfold slot in *. cbn [length] in *.
             replace (Nat.min (S i) (S (S (length ts)) - 1)) with (S (Nat.min i (S (length ts) - 1))) by lia. exact Hr.
        * intros H. split; [apply (H 0%nat v eq_refl)|]. intros i x Hi. specialize (H (S i) x Hi).
          unfold slot in *. cbn [length] in *.
          replace (Nat.min (S i) (S (S (length ts)) - 1)) with (S (Nat.min i (S (length ts) - 1))) in H by lia. exact H.
  Qed.

  Lemma slot_in ts i : ts <> [] -> In (slot ts i) ts.
  Proof. intros H. unfold slot. apply nth_In. destruct ts; [congruence|]. cbn [length]. lia. Qed.

  Lemma slot_pred_den (d : ty -> value -> Prop) ts i x : d TAny = (fun _ => True) ->
    slot_pred (dens d ts) i x <-> d (slot ts i) x.
  Proof.
    intros Hd. unfold slot_pred, slot. rewrite dens_map, map_length. rewrite <- Hd. rewrite map_nth. tauto.
  Qed.

  Lemma wfv_arr vs x : wfv (VArr vs) = true -> In x vs -> wfv x = true.
  Proof. cbn. rewrite forallb_forall. auto. Qed.
  Lemma wfv_hash es k x : wfv (VHash es) = true -> In (k, x) es -> wfv k = true /\ wfv x = true.
  Proof.
    cbn. intros H Hin. apply andb_true_iff in H. destruct H as [_ H]. rewrite forallb_forall in H.
    specialize (H _ Hin). cbn in H. apply andb_true_iff in H. exact H.
  Qed.
  Lemma wfv_keys es : wfv (VHash es) = true -> distinct_keys (map fst es) = true.
  Proof. cbn. intros H. apply andb_true_iff in H. tauto. Qed.

  Lemma hash_get_found n x es : In (VStr n, x) es -> exists y, hash_get (is_vstr n) es = Some y.
  Proof.
    induction es as [|[k0 x0] es IH]; [intros []|]. intros [H|H]; cbn.
    - injection H as -> ->. cbn. rewrite str_eqb_refl. eauto.
    - destruct (is_vstr n k0); eauto.
  Qed.

  Lemma hash_get_unique n x es : distinct_keys (map fst es) = true -> In (VStr n, x) es -> hash_get (is_vstr n) es = Some x.
  Proof.
    induction es as [|[k0 x0] es IH]; [intros _ []|]. cbn [map fst distinct_keys]. intros Hd Hin.
    apply andb_true_iff in Hd. destruct Hd as [Hd0 Hd]. cbn [hash_get]. destruct Hin as [H|H].
    - injection H as -> ->. cbn. now rewrite str_eqb_refl.
    - destruct (is_vstr n k0) eqn:E; [|auto].
      destruct k0; try discriminate. cbn in E. apply str_eqb_eq in E. subst s. cbn in Hd0. apply negb_true_iff in Hd0.
      exfalso. assert (existsb (is_vstr n) (map fst es) = true); [|congruence].
      apply existsb_exists. exists (VStr n). split; [apply (in_map fst _ _ H)|cbn; apply str_eqb_refl].
  Qed.

  Ltac pick :=
    solve [ repeat (first [ reflexivity | eexists; reflexivity
                          | left; solve [reflexivity | eexists; reflexivity] | right ]) ].

  Theorem inst_is_den : forall t, wf_ty t = true -> forall u, wfv u = true -> (inst t u = true <-> den t u).
  Proof.
    induction t using ty_ind'; intros Hw u Hu.
    - cbn. tauto.
    - cbn. tauto.
    - destruct u; cbn; split; congruence.
    - destruct u; cbn; split; congruence.
    - destruct v as [x|]; destruct u; cbn; split; try congruence; try (intros (b0 & H); congruence).
      + intros H. apply eqb_prop in H. congruence.
      + intros H. injection H as ->. apply eqb_reflx.
      + eauto.
    - destruct u; cbn; split; try congruence; try (intros (z0 & H & _); congruence).
      + intros H. apply in_size_between in H. eauto.
      + intros (z0 & H & Hb). injection H as <-. apply in_size_between. exact Hb.
    - (* Float: the floats between the bounds; the unbounded range has NaN too *)
      destruct u; cbn [inst den]; split; try congruence;
        try (intros [(z0 & H & _)|(H & _)]; congruence).
      + intros H. left. exists k. split; [reflexivity|]. apply orb_true_iff in H. destruct H as [H|H].
        * left. apply in_size_between. exact H.
        * right. apply float_unbounded_spec. exact H.
      + intros [(z0 & H & Hb)|(H & _)]; [|congruence]. injection H as <-. apply orb_true_iff. destruct Hb as [Hb|Hb].
        * left. apply in_size_between. exact Hb.
        * right. apply float_unbounded_spec. exact Hb.
      + intros H. right. split; [reflexivity|]. apply float_unbounded_spec. exact H.
      + intros [(z0 & H & _)|(_ & Hb)]; [congruence|]. apply float_unbounded_spec. exact Hb.
    - destruct u; cbn; split; try congruence; eauto; intros [(? & H)|[(? & H)|H]]; congruence.
    - destruct u; cbn; split; try congruence; try (intros _; pick);
        intros [(? & H)|[(? & H)|[(? & H)|[H|[(? & H)|(? & H)]]]]]; congruence.
    - destruct u; cbn; split; try congruence; try (intros _; pick);
        intros [(? & H)|[(? & H)|[(? & H)|[H|(? & H)]]]]; congruence.
    - destruct u; cbn; split; try congruence; eauto; intros (? & H); congruence.
    - destruct u; cbn; split; try congruence; try (intros (z0 & H & _); congruence).
      + intros H. apply in_size_between in H. eauto.
      + intros (z0 & H & Hb). injection H as <-. apply in_size_between. exact Hb.
    - destruct u; cbn; split; try congruence.
      + intros H. apply str_eqb_eq in H. congruence.
      + intros H. injection H as ->. apply str_eqb_refl.
    - (* Enum *) destruct u; cbn [Lattice.inst Spec.den]; split; try congruence; try (intros (z0 & H & _); congruence).
      + intros H. exists s. split; [reflexivity|]. destruct vs as [|v0 vs]; [auto|right].
        rewrite enum_inst_nonempty in H by congruence. apply mem_str_in. exact H.
      + intros (s0 & H & Hc). injection H as <-. destruct vs as [|v0 vs]; [reflexivity|].
        destruct Hc as [Hc|Hc]; [discriminate|]. rewrite enum_inst_nonempty by congruence. apply mem_str_in. exact Hc.
    - (* Pattern *) destruct u; cbn [Lattice.inst Spec.den]; split; try congruence; try (intros (z0 & H & _); congruence).
      + intros H. exists s. split; [reflexivity|]. apply orb_true_iff in H. destruct H as [H|H].
        * left. apply length_eqb_nil. exact H.
        * right. unfold matches_any in H. apply existsb_exists in H. exact H.
      + intros (s0 & H & Hc). injection H as <-. apply orb_true_iff. destruct Hc as [->|Hc]; [left; reflexivity|right].
        unfold matches_any. apply existsb_exists. exact Hc.
    - (* Regexp *) destruct u; cbn [Lattice.inst Spec.den]; split; try congruence; try (intros (z0 & H & _); congruence).
      + intros H. exists p0. split; [reflexivity|]. apply orb_true_iff in H. destruct H as [H|H]; apply str_eqb_eq in H; auto.
      + intros (p' & H & Hc). injection H as <-. apply orb_true_iff. destruct Hc as [-> | ->]; [left|right]; apply str_eqb_refl.
    - destruct u; cbn; split; try congruence; eauto; intros (? & H); congruence.
    - (* Collection *) destruct u; cbn [Lattice.inst Spec.den]; split; try congruence;
        try (intros [(z0 & H & _)|(z0 & H & _)]; congruence).
      + intros H. apply in_size_between in H. left. eauto.
      + intros [(z0 & H & Hb)|(z0 & H & _)]; [|congruence]. injection H as <-. apply in_size_between. exact Hb.
      + intros H. apply in_size_between in H. right. eauto.
      + intros [(z0 & H & _)|(z0 & H & Hb)]; [congruence|]. injection H as <-. apply in_size_between. exact Hb.
    - (* Array *) cbn in Hw. destruct u; cbn [Lattice.inst Spec.den]; split; try congruence; try (intros (z0 & H & _); congruence).
      + intros H. apply andb_true_iff in H. destruct H as [Hs He]. exists vs. split; [reflexivity|]. split; [apply in_size_between; exact Hs|].
        intros x Hx. apply (IHt Hw x (wfv_arr _ _ Hu Hx)). apply orb_true_iff in He. destruct He as [He|He].
        * apply is_any_eq in He. subst. reflexivity.
        * rewrite forallb_forall in He. auto.
      + intros (vs0 & H & Hs & He). injection H as <-. apply andb_true_iff. split; [apply in_size_between; exact Hs|].
        apply orb_true_iff. right. apply forallb_forall. intros x Hx. apply (IHt Hw x (wfv_arr _ _ Hu Hx)). auto.
    - (* Hash *) cbn in Hw. apply andb_true_iff in Hw. destruct Hw as [Hw1 Hw2].
      destruct u; cbn [Lattice.inst Spec.den]; split; try congruence; try (intros (z0 & H & _); congruence).
      + intros H. apply andb_true_iff in H. destruct H as [Hs He]. exists es. split; [reflexivity|]. split; [apply in_size_between; exact Hs|].
        intros a b Hin. rewrite forallb_forall in He. specialize (He _ Hin). cbn in He. apply andb_true_iff in He.
        destruct (wfv_hash _ _ _ Hu Hin) as [Ha Hb]. destruct He as [He1 He2].
        split; [apply (IHt1 Hw1 a Ha)|apply (IHt2 Hw2 b Hb)]; assumption.
      + intros (es0 & H & Hs & He). injection H as <-. apply andb_true_iff. split; [apply in_size_between; exact Hs|].
        apply forallb_forall. intros [a b] Hin. cbn. destruct (wfv_hash _ _ _ Hu Hin) as [Ha Hb]. destruct (He a b Hin) as [D1 D2].
        rewrite (proj2 (IHt1 Hw1 a Ha) D1), (proj2 (IHt2 Hw2 b Hb) D2). reflexivity.
    - (* Tuple *) cbn in Hw. apply andb_true_iff in Hw. destruct Hw as [_ Hw]. rewrite forallb_forall in Hw. rewrite Forall_forall in H.
      destruct u; cbn [Lattice.inst Spec.den]; split; try congruence; try (intros (z0 & H0 & _); congruence).
      + intros Hi. apply andb_true_iff in Hi. destruct Hi as [Hs Hi]. change (walk ts vs = true) in Hi.
        exists vs. split; [reflexivity|]. split; [apply in_size_between; exact Hs|].
        fold (dens den ts). intros Hne i x Hx. assert (Hts : ts <> []) by (destruct ts; [cbn in Hne; congruence|congruence]).
        apply slot_pred_den; [reflexivity|]. pose proof (slot_in ts i Hts) as Hin.
        apply (H _ Hin (Hw _ Hin) x (wfv_arr _ _ Hu (nth_error_In _ _ Hx))).
        apply (proj1 (walk_spec ts Hts vs) Hi i x Hx).
      + fold (dens den ts). intros (vs0 & H0 & Hs & Hp). injection H0 as <-. apply andb_true_iff. split; [apply in_size_between; exact Hs|].
        change (walk ts vs = true). destruct ts as [|t0 ts]; [reflexivity|]. apply walk_spec; [congruence|].
        intros i x Hx. pose proof (slot_in (t0 :: ts) i ltac:(congruence)) as Hin.
        apply (H _ Hin (Hw _ Hin) x (wfv_arr _ _ Hu (nth_error_In _ _ Hx))).
        apply slot_pred_den; [reflexivity|]. apply Hp; [cbn; congruence|exact Hx].
    - (* Struct *) pose proof (wf_struct_names _ Hw) as Hd. rewrite Forall_forall in H.
      destruct u; cbn [Spec.den]; fold (mdens den ms); try (split; [cbn; congruence|intros (z0 & H0 & _); congruence]).
      pose proof (wfv_keys _ Hu) as Hk. split.
      + intros Hi. exists es. split; [reflexivity|].
        pose proof Hi as Hi'. rewrite (struct_inst_split rx hs) in Hi'. apply andb_true_iff in Hi'. destruct Hi' as [Hall Hc].
        pose proof (cover (@fst str (ty * ty)) ms es Hd Hk Hc) as Hcov. rewrite forallb_forall in Hall. split.
        * intros a b Hin. destruct (Hcov a b Hin) as (m & Hm & -> & Hg).
          exists (fst m), (key_optional (fst (snd m))), (den (snd (snd m))). split; [apply mdens_in; exists m; auto|]. split; [reflexivity|].
          destruct (wf_struct_member _ _ Hw Hm) as [_ Hwv]. destruct (wfv_hash _ _ _ Hu Hin) as [_ Hb].
          apply (proj2 (H m Hm) Hwv b Hb). specialize (Hall m Hm). now rewrite Hg in Hall.
        * intros n p Hin. apply mdens_in in Hin. destruct Hin as (m & Hm & -> & Ho & _).
          specialize (Hall m Hm). destruct (hash_get (is_vstr (fst m)) es) as [y|] eqn:Eg.
          -- exists y. apply hash_get_in. exact Eg.
          -- congruence.
      + intros (es0 & H0 & Hent & Hreq). injection H0 as <-. rewrite (struct_inst_split rx hs). apply andb_true_iff. split.
        * apply forallb_forall. intros m Hm. destruct (hash_get (is_vstr (fst m)) es) as [y|] eqn:Eg.
          -- pose proof (hash_get_in _ _ _ Eg) as Hin. destruct (Hent _ _ Hin) as (n & o & p & Hmp & Hn & Hp).
             injection Hn as Hn. apply mdens_in in Hmp. destruct Hmp as (m' & Hm' & -> & _ & ->).
             assert (m' = m).
             { destruct m as [n1 kv1], m' as [n2 kv2]. cbn [fst] in Hn. subst n2.
               pose proof (find_member_in n1 kv1 ms Hd Hm) as F1. pose proof (find_member_in n1 kv2 ms Hd Hm') as F2. congruence. }
             subst m'. destruct (wf_struct_member _ _ Hw Hm) as [_ Hwv]. destruct (wfv_hash _ _ _ Hu Hin) as [_ Hb].
             apply (proj2 (H m Hm) Hwv y Hb). exact Hp.
          -- destruct (key_optional (fst (snd m))) eqn:Eo; [reflexivity|].
             destruct (Hreq (fst m) (den (snd (snd m)))) as (b & Hb).
             { apply mdens_in. exists m. auto. }
             destruct (hash_get_found _ _ _ Hb) as (y & Hy). congruence.
        * apply Z.eqb_eq. unfold zlen. f_equal. apply (count_full (@fst str (ty * ty)) ms Hd es Hk).
          intros k x Hin. destruct (Hent _ _ Hin) as (n & o & p & Hmp & -> & _). apply mdens_in in Hmp.
          destruct Hmp as (m & Hm & -> & _). exists m. auto.
    - (* Variant *) cbn in Hw. rewrite forallb_forall in Hw. rewrite Forall_forall in H.
      cbn [Lattice.inst Spec.den]. fold (anyd (fun t' => den t' u) ts). rewrite anyd_ex, existsb_exists. split.
      + intros (t & Ht & Hi). exists t. split; [assumption|]. apply (H t Ht (Hw t Ht) u Hu). exact Hi.
      + intros (t & Ht & Hi). exists t. split; [assumption|]. apply (H t Ht (Hw t Ht) u Hu). exact Hi.
    - (* Optional *) cbn in Hw. cbn [Lattice.inst Spec.den]. destruct u; try (rewrite (IHt Hw _ Hu); split; [auto|intros [?|?]; [congruence|assumption]]).
      split; auto.
    - (* NotUndef *) cbn in Hw. cbn [Lattice.inst Spec.den]. destruct u; try (rewrite (IHt Hw _ Hu); split; [intros ?; split; [congruence|assumption]|tauto]).
      split; [discriminate|intros [? _]; congruence].
    - (* Type *) destruct u; cbn [Lattice.inst Spec.den]; split; try congruence; try (intros (z0 & H & _); congruence).
      + eauto.
      + intros (u' & H & Hu'). injection H as <-. exact Hu'.
    - (* Sensitive *) cbn in Hw. destruct u; cbn [Lattice.inst Spec.den]; split; try congruence; try (intros (z0 & H & _); congruence).
      + intros H. exists u. split; [reflexivity|]. apply (IHt Hw u Hu). exact H.
      + intros (x & H & Hx). injection H as <-. apply (IHt Hw u Hu). exact Hx.
    - discriminate.
  Qed.
End SpecEq.
