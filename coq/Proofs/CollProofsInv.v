(* CollProofsInv.v — the invariant of the pure model of the List / OrderedMap operations (Model/Coll.v):
   every value of the pool is well-formed (wf_pv: every hash, at any depth, has pairwise non-equal keys), for
   every history whose literals are well-formed.  Preserved by every operation of the model. *)
From Coq Require Import ZArith NArith Bool List Lia Permutation.
From PcoreV Require Import Model.Base Model.Coll Proofs.CollInd Proofs.CollProofsKeyed Proofs.CollProofsEq.
Import ListNotations.
Local Open Scope nat_scope.

Definition wf_pool (pool : list pv) : Prop := Forall wf pool.

(* the literals a history starts from: written out (WrapValues / WrapHash), built with a capacity, or parsed *)
Definition lit_ok (o : op) : bool :=
  match o with OLit p | OBuild _ p | OParse p => wf_pv p | _ => true end.
Definition lits_ok (ops : list op) : bool := forallb lit_ok ops.

(* a hash value: well-formed entries, one entry per key *)
Definition hash_ok (es : list (pv * pv)) : Prop := Forall (okE wf) es /\ nodupG fst es = true.

Lemma wf_arr l : wf (PArr l) <-> Forall wf l.
Proof. unfold wf. rewrite wf_pv_arr, forallb_forall, Forall_forall. reflexivity. Qed.

Lemma wf_hash es : wf (PHash es) <-> hash_ok es.
Proof.
  unfold wf, hash_ok. rewrite wf_pv_hash, andb_true_iff, nodup_keys_map, forallb_forall, Forall_forall.
  split; intros [H1 H2]; (split; [|exact H2]); intros e He; specialize (H1 e He); unfold okE, wf, wf_entry in *.
  - now apply andb_true_iff in H1.
  - now apply andb_true_iff.
Qed.

Lemma wf_entry_iff k v : wf (PEntry k v) <-> wf k /\ wf v.
Proof. unfold wf. cbn [wf_pv]. now rewrite andb_true_iff. Qed.

Lemma wf_undef : wf PUndef. Proof. reflexivity. Qed.
Lemma wf_bool b : wf (PBool b). Proof. reflexivity. Qed.
Lemma wf_int z : wf (PInt z). Proof. reflexivity. Qed.

Lemma pool_at_wf pool i : wf_pool pool -> wf (pool_at pool i).
Proof.
  intros H. unfold pool_at. destruct (nth_in_or_default i pool PUndef) as [Hin| ->]; [|reflexivity].
  exact (proj1 (Forall_forall _ _) H _ Hin).
Qed.

Lemma hash_ok_nil : hash_ok [].
Proof. split; [constructor|reflexivity]. Qed.

Lemma hash_ok_sublist s es : sublist s es -> hash_ok es -> hash_ok s.
Proof. intros Hs [H1 H2]. split; [eapply sublist_Forall; eauto|eapply nodupG_sublist; eauto]. Qed.

Lemma hash_ok_single k v : wf k -> wf v -> hash_ok [(k, v)].
Proof. intros Hk Hv. split; [repeat constructor; assumption|reflexivity]. Qed.

Lemma hash_ok_oks es : hash_ok es -> oks wf fst es.
Proof. intros [H _]. now apply okE_oks. Qed.

(* ---- merge ---- *)
Lemma merge_entries_eq hv oh : hash_ok hv -> hash_ok oh ->
  merge_entries hv oh = map (repl fst oh) hv ++ filter (is_new fst hv) oh.
Proof.
  intros Hh Ho. unfold merge_entries.
  apply (merge_entries_spec wf wf_equiv); auto using hash_ok_oks; [apply Hh|apply Ho].
Qed.

Lemma hash_ok_merge hv oh : hash_ok hv -> hash_ok oh -> hash_ok (merge_entries hv oh).
Proof.
  intros Hh Ho. rewrite merge_entries_eq by assumption. split.
  - apply Forall_app. split.
    + apply Forall_forall. intros x Hx. apply in_map_iff in Hx as (h & <- & Hin).
      unfold repl. destruct (find _ oh) as [e'|] eqn:Ef.
      * apply find_some in Ef as [Hi _]. exact (proj1 (Forall_forall _ _) (proj1 Ho) _ Hi).
      * exact (proj1 (Forall_forall _ _) (proj1 Hh) _ Hin).
    + eapply sublist_Forall; [apply sublist_filter|apply Ho].
  - apply (merge_spec_inv wf wf_equiv); auto using hash_ok_oks; [apply Hh|apply Ho].
Qed.

(* ---- HashFromArray ---- *)
Lemma hash_ok_unique es : Forall (okE wf) es -> hash_ok (unique_entries es).
Proof.
  intros H. unfold unique_entries. split.
  - apply Forall_forall. intros x Hx. apply unique_entries_In in Hx. exact (proj1 (Forall_forall _ _) H _ Hx).
  - apply (unique_entries_inv wf wf_equiv). now apply okE_oks.
Qed.

Lemma elems_wf p xs : wf p -> elems p = Some xs -> Forall wf xs.
Proof.
  destruct p; cbn [elems]; intros Hp H; try discriminate; inversion H; subst.
  - now apply wf_arr.
  - apply wf_hash in Hp as [Hp _]. apply Forall_forall. intros x Hx. apply in_map_iff in Hx as (e & <- & He).
    apply wf_entry_iff. exact (proj1 (Forall_forall _ _) Hp _ He).
  - apply wf_entry_iff in Hp as [Hk Hv]. repeat constructor; assumption.
Qed.

Lemma pairs_of_wf l : forall es, Forall wf l -> pairs_of l = Some es -> Forall (okE wf) es.
Proof.
  induction l as [|p t IH]; cbn [pairs_of]; intros es Hl H.
  - inversion H. constructor.
  - inversion Hl as [|? ? Hp Ht]; subst.
    destruct (elems p) as [[|k [|v [|z r]]]|] eqn:Ee; try discriminate.
    destruct (pairs_of t) as [r|]; [|discriminate]. inversion H; subst.
    pose proof (elems_wf p _ Hp Ee) as Hkv. inversion Hkv as [|? ? Hk Hkv']; subst. inversion Hkv' as [|? ? Hv _]; subst.
    constructor; [split; assumption|]. now apply IH.
Qed.

Lemma pairs_flat_wf : forall l, Forall wf l -> Forall (okE wf) (pairs_flat l).
Proof.
  fix IH 1. intros [|k [|v t]] H; cbn [pairs_flat]; try constructor.
  - inversion H as [|? ? Hk H']; subst. inversion H' as [|? ? Hv H'']; subst. split; assumption.
  - apply IH. inversion H as [|? ? Hk H']; subst. now inversion H'.
Qed.

Lemma hash_from_array_wf l : Forall wf l -> wf (val_of (hash_from_array l)).
Proof.
  intros Hl. unfold hash_from_array.
  destruct (negb (length l =? 0) && forallb is_pairlike l).
  - destruct (pairs_of l) as [es|] eqn:Ep; cbn [val_of]; [|reflexivity].
    apply wf_hash, hash_ok_unique. eapply pairs_of_wf; eauto.
  - destruct (Nat.odd (length l)); cbn [val_of]; [reflexivity|].
    apply wf_hash, hash_ok_unique, pairs_flat_wf, Hl.
Qed.

(* ---- Sort ---- *)
Lemma insert_by_perm {A} (key : A -> Z) x l : Permutation (insert_by key x l) (x :: l).
Proof.
  induction l as [|y t IH]; cbn [insert_by]; [reflexivity|].
  destruct (Z.ltb (key x) (key y)); [reflexivity|].
  rewrite IH. apply perm_swap.
Qed.

Lemma sort_by_perm {A} (key : A -> Z) l : Permutation (sort_by key l) l.
Proof.
  unfold sort_by.
  assert (G : forall acc, Permutation (fold_left (fun acc x => insert_by key x acc) l acc) (l ++ acc)).
  { induction l as [|x t IH]; intros acc; cbn [fold_left app]; [reflexivity|].
    rewrite IH, insert_by_perm. symmetry. apply Permutation_middle. }
  rewrite G. now rewrite app_nil_r.
Qed.

Lemma hash_ok_perm es es' : Permutation es es' -> hash_ok es -> hash_ok es'.
Proof.
  intros HP [H1 H2]. split; [eapply Permutation_Forall; eauto|].
  eapply (nodupG_perm wf wf_equiv); eauto. now apply okE_oks.
Qed.

(* ---- Flatten ---- *)
Lemma flatten1_wf p : wf p -> Forall wf (flatten1 p).
Proof.
  induction p as [ | | | |l IH|es IH|k v IHk IHv| | | ] using pv_ind'; intros H; cbn [flatten1];
    try (constructor; [exact H|constructor]).
  - apply wf_arr in H. induction IH as [|x t Hx Ht IHt]; [constructor|].
    inversion H as [|? ? Hwx Hwt]; subst. apply Forall_app. split; auto.
  - apply wf_entry_iff in H as [Hk Hv]. apply Forall_app. split; auto.
Qed.

Lemma flatten_wf l : Forall wf l -> Forall wf (flatten l).
Proof.
  unfold flatten. induction 1 as [|x t Hx Ht IH]; cbn [flat_map]; [constructor|].
  apply Forall_app. split; [now apply flatten1_wf|exact IH].
Qed.

Lemma kv_list_wf es : Forall (okE wf) es -> Forall wf (kv_list es).
Proof.
  induction 1 as [|[k v] t [Hk Hv] Ht IH]; cbn [kv_list]; [constructor|]. repeat constructor; assumption.
Qed.

(* ---- the rest ---- *)
Lemma zslice_sublist {A} i j (l s : list A) : zslice i j l = Some s -> sublist s l.
Proof.
  unfold zslice. destruct (_ || _ || _); [discriminate|]. intros H; inversion H; subst.
  eapply sublist_trans; [apply sublist_firstn|apply sublist_skipn].
Qed.

Lemma chunk_sublist {A} n j (l c : list A) : chunk n j l = Some c -> sublist c l.
Proof.
  unfold chunk. destruct (length l <=? j * n); [discriminate|]. intros H; inversion H; subst.
  eapply sublist_trans; [apply sublist_firstn|apply sublist_skipn].
Qed.

Lemma unique_acc_sublist seen l : sublist (unique_acc seen l) l.
Proof.
  unfold unique_acc. revert seen; induction l as [|x t IH]; intros seen; cbn [unique_accG]; [apply sl_nil|].
  destruct (existsb _ seen); [apply sl_skip|apply sl_keep]; auto.
Qed.

Lemma at_z_In {A} i (l : list A) x : at_z i l = Some x -> In x l.
Proof. unfold at_z. destruct (i <? 0)%Z; [discriminate|]. apply nth_error_In. Qed.

Lemma mapper_wf pool m v : wf_pool pool -> wf v -> wf (eval_mapper pool m v).
Proof.
  intros HP Hv. destruct m; cbn [eval_mapper]; [exact Hv| |now apply pool_at_wf].
  apply wf_arr. repeat constructor; exact Hv.
Qed.

Lemma entry_of_wf e : okE wf e -> wf (entry_of e).
Proof. intros [Hk Hv]. unfold entry_of. now apply wf_entry_iff. Qed.

Lemma hash_ok_mapvalues (f : pv -> pv) es : (forall v, wf v -> wf (f v)) -> hash_ok es ->
  hash_ok (map (fun e => (fst e, f (snd e))) es).
Proof.
  intros Hf [H1 H2]. split.
  - apply Forall_forall. intros x Hx. apply in_map_iff in Hx as (e & <- & He).
    destruct (proj1 (Forall_forall _ _) H1 _ He) as [Hk Hv]. split; cbn [fst snd]; auto.
  - rewrite <- nodup_keys_map in *. now rewrite map_map.
Qed.

Lemma nth_entry_wf es i : Forall (okE wf) es -> wf (snd (nth i es (PUndef, PUndef))).
Proof.
  intros H. destruct (nth_in_or_default i es (PUndef, PUndef)) as [Hin| ->]; [|reflexivity].
  exact (proj2 (proj1 (Forall_forall _ _) H _ Hin)).
Qed.

Ltac inv_wf :=
  repeat match goal with
         | H : wf (PArr _) |- _ => apply wf_arr in H
         | H : wf (PHash _) |- _ => apply wf_hash in H
         | H : wf (PEntry _ _) |- _ => apply wf_entry_iff in H; destruct H
         end.

Lemma Forall_In_wf {A} (P : A -> Prop) l x : Forall P l -> In x l -> P x.
Proof. intros H. exact (proj1 (Forall_forall _ _) H x). Qed.

(* every operation keeps the invariant *)
Theorem step_wf pool o : wf_pool pool -> lit_ok o = true -> wf (val_of (step pool o)).
Proof.
  intros HP Hlit. pose proof (fun i => pool_at_wf pool i HP) as W.
  assert (Wm : forall m v, wf v -> wf (eval_mapper pool m v)) by (intros; now apply mapper_wf).
  destruct o as [p|c p|p|r x|r x|r x|r x|r x|r x|r x|r x|r i j|r i|r n j|r pd|r pd|r pd|r pd|r pd|r m|r m
                 |r|r|r|r|r|r|r|r|r|r|r]; cbn [step lit_ok] in *;
    try exact Hlit; try reflexivity;
    try (pose proof (W r) as Wr; destruct (pool_at pool r) as [| | | |l|es|k v| | |] eqn:Er; cbn [val_of entry_op negb];
         try reflexivity; inv_wf).
  - (* Add *) apply wf_arr, Forall_app. split; [assumption|repeat constructor; apply W].
  - pose proof (W x) as Wx. destruct (pool_at pool x) as [| | | |lx|ex|kx vx| | |]; cbn [val_of]; try reflexivity; inv_wf.
    + destruct lx as [|a [|b [|c t]]]; cbn [val_of]; try reflexivity.
      inversion Wx as [|? ? Ha Wx']; subst. inversion Wx' as [|? ? Hb _]; subst.
      apply wf_hash, hash_ok_merge; [assumption|now apply hash_ok_single].
    + apply wf_hash, hash_ok_merge; [assumption|now apply hash_ok_single].
  - (* AddAll *) destruct (elems (pool_at pool x)) as [xs|] eqn:Ex; cbn [val_of]; [|reflexivity].
    apply wf_arr, Forall_app. split; [assumption|]. eapply elems_wf; eauto.
  - pose proof (W x) as Wx. destruct (pool_at pool x) as [| | | |lx|ex|kx vx| | |]; cbn [val_of]; try reflexivity; inv_wf.
    + pose proof (hash_from_array_wf lx Wx) as Hh.
      destruct (hash_from_array lx) as [[| | | |?|oh|? ?| | |]|e]; cbn [val_of] in *; try exact Hh.
      inv_wf. now apply wf_hash, hash_ok_merge.
    + now apply wf_hash, hash_ok_merge.
  - destruct (elems (pool_at pool x)); reflexivity.
  - (* Delete *) apply wf_arr. eapply sublist_Forall; [apply sublist_filter|assumption].
  - apply wf_hash. eapply hash_ok_sublist; [|eassumption]. unfold hash_delete, hash_deleteG.
    destruct (hfindG fst es (pool_at pool x)); [apply sublist_remove_nth|apply sublist_refl].
  - (* DeleteAll *) destruct (elems (pool_at pool x)); cbn [val_of]; [|reflexivity].
    apply wf_arr. eapply sublist_Forall; [apply sublist_filter|assumption].
  - destruct (elems (pool_at pool x)); cbn [val_of]; [|reflexivity].
    apply wf_hash. eapply hash_ok_sublist; [apply sublist_remove_positions|eassumption].
  - destruct (elems (pool_at pool x)); reflexivity.
  - (* Merge *) pose proof (W x) as Wx.
    destruct (pool_at pool x) as [| | | |lx|ex|kx vx| | |]; cbn [val_of]; try reflexivity; inv_wf.
    now apply wf_hash, hash_ok_merge.
  - (* Get *) destruct (hfind es (pool_at pool x)); cbn [val_of]; [|reflexivity]. apply nth_entry_wf, Wr.
  - (* Slice *) destruct (zslice i j l) eqn:Ez; cbn [val_of]; [|reflexivity].
    apply wf_arr. eapply sublist_Forall; [eapply zslice_sublist; eauto|assumption].
  - destruct (zslice i j es) eqn:Ez; cbn [val_of]; [|reflexivity].
    apply wf_hash. eapply hash_ok_sublist; [eapply zslice_sublist; eauto|assumption].
  - (* At *) destruct (at_z i l) eqn:Ea; cbn [val_of]; [|reflexivity]. eapply Forall_In_wf; [eassumption|eapply at_z_In; eauto].
  - destruct (at_z i es) eqn:Ea; cbn [val_of]; [|reflexivity].
    apply entry_of_wf. eapply Forall_In_wf; [apply Wr|eapply at_z_In; eauto].
  - destruct (i =? 0)%Z; [assumption|]. destruct (i =? 1)%Z; [assumption|reflexivity].
  - (* EachSlice *) destruct (n =? 0); cbn [val_of]; [reflexivity|].
    destruct (chunk n j l) eqn:Ec; cbn [val_of]; [|reflexivity].
    apply wf_arr. eapply sublist_Forall; [eapply chunk_sublist; eauto|assumption].
  - destruct (n =? 0); cbn [val_of]; [reflexivity|].
    destruct (chunk n j es) eqn:Ec; cbn [val_of]; [|reflexivity].
    apply wf_arr. apply Forall_forall. intros y Hy. apply in_map_iff in Hy as (e & <- & He).
    apply entry_of_wf. eapply Forall_In_wf; [apply Wr|]. eapply sublist_In; [eapply chunk_sublist; eauto|exact He].
  - (* Select *) apply wf_arr. eapply sublist_Forall; [apply sublist_filter|assumption].
  - apply wf_hash. eapply hash_ok_sublist; [apply sublist_filter|assumption].
  - (* Reject *) apply wf_arr. eapply sublist_Forall; [apply sublist_filter|assumption].
  - apply wf_hash. eapply hash_ok_sublist; [apply sublist_filter|assumption].
  - (* Find *) destruct (find (eval_pred pool pd) l) eqn:Ef; cbn [val_of]; [|reflexivity].
    apply find_some in Ef as [Hin _]. eapply Forall_In_wf; eauto.
  - destruct (find _ es) eqn:Ef; cbn [val_of]; [|reflexivity].
    apply find_some in Ef as [Hin _]. apply entry_of_wf. eapply Forall_In_wf; [apply Wr|exact Hin].
  - (* SelectPairs *) apply wf_hash. eapply hash_ok_sublist; [apply sublist_filter|assumption].
  - (* RejectPairs *) apply wf_hash. eapply hash_ok_sublist; [apply sublist_filter|assumption].
  - (* Map *) apply wf_arr. apply Forall_forall. intros y Hy. apply in_map_iff in Hy as (e & <- & He).
    apply Wm. eapply Forall_In_wf; eauto.
  - apply wf_arr. apply Forall_forall. intros y Hy. apply in_map_iff in Hy as (e & <- & He).
    apply Wm, entry_of_wf. eapply Forall_In_wf; [apply Wr|exact He].
  - (* MapValues *) apply wf_hash. apply hash_ok_mapvalues; [apply Wm|assumption].
  - (* Sort *) destruct (forallb is_int l); cbn [val_of]; [|reflexivity].
    apply wf_arr. eapply Permutation_Forall; [symmetry; apply sort_by_perm|assumption].
  - destruct (forallb _ es); cbn [val_of]; [|reflexivity].
    apply wf_hash. eapply hash_ok_perm; [symmetry; apply sort_by_perm|assumption].
  - (* Flatten *) apply wf_arr. now apply flatten_wf.
  - apply wf_arr. apply flatten_wf, kv_list_wf, Wr.
  - apply wf_arr. apply flatten_wf. repeat constructor; assumption.
  - (* Unique *) apply wf_arr. eapply sublist_Forall; [apply unique_acc_sublist|assumption].
  - now apply wf_hash.
  - (* Keys *) apply wf_arr. apply Forall_forall. intros y Hy. apply in_map_iff in Hy as (e & <- & He).
    exact (proj1 (Forall_In_wf _ _ _ (proj1 Wr) He)).
  - (* Values *) apply wf_arr. apply Forall_forall. intros y Hy. apply in_map_iff in Hy as (e & <- & He).
    exact (proj2 (Forall_In_wf _ _ _ (proj1 Wr) He)).
  - (* HashFromArray *) now apply hash_from_array_wf.
  - (* Key *) assumption.
  - (* Value *) assumption.
  - (* AsArray *) apply wf_arr. apply Forall_forall. intros y Hy. apply in_map_iff in Hy as (e & <- & He).
    destruct (Forall_In_wf _ _ _ (proj1 Wr) He) as [Hk Hv]. apply wf_arr. repeat constructor; assumption.
  - apply wf_arr. repeat constructor; assumption.
Qed.

Lemma lits_ok_cons o ops : lits_ok (o :: ops) = true <-> lit_ok o = true /\ lits_ok ops = true.
Proof. unfold lits_ok. cbn [forallb]. apply andb_true_iff. Qed.

(* all histories *)
Theorem pool_after_wf ops : forall pool, wf_pool pool -> lits_ok ops = true -> wf_pool (pool_after pool ops).
Proof.
  induction ops as [|o ops IH]; intros pool HP HL; cbn [pool_after]; [exact HP|].
  apply lits_ok_cons in HL as [Ho HL]. apply IH; [|exact HL].
  apply Forall_app. split; [exact HP|]. constructor; [|constructor]. now apply step_wf.
Qed.

(* the pool is only ever extended *)
Theorem pool_after_prefix ops : forall pool,
  exists more, pool_after pool ops = pool ++ more /\ length more = length ops.
Proof.
  induction ops as [|o ops IH]; intros pool; cbn [pool_after].
  - exists []. now rewrite app_nil_r.
  - destruct (IH (pool ++ [val_of (step pool o)])) as (more & H & Hl).
    exists (val_of (step pool o) :: more). rewrite H, <- app_assoc. split; [reflexivity|]. cbn [length]. now rewrite Hl.
Qed.
