(* InferHistProofs.v — histories of inference on values that share parts (Model/InferHist.v): whatever the order in
   which the inferred and detailed types of the objects of a value graph are asked for, every cached type and every
   returned type is the pure function of Model/Infer.v of the value the object denotes. *)
From Coq Require Import ZArith NArith Bool List Lia.
From PcoreV Require Import Model.Base Model.Ty Model.Lattice Model.Infer Model.InferHist
  Proofs.InferProofs Proofs.InferInst.
Import ListNotations.

Local Arguments Nat.ltb : simpl never.

(* ---- the values of a graph ---- *)
Lemma build_length ns : forall acc, length (build ns acc) = (length acc + length ns)%nat.
Proof.
  induction ns as [|n r IH]; intros acc; cbn [build length]; [lia|].
  rewrite IH, app_length. cbn [length]. lia.
Qed.

Lemma build_prefix ns : forall acc i d, (i < length acc)%nat -> nth i (build ns acc) d = nth i acc d.
Proof.
  induction ns as [|n r IH]; intros acc i d Hi; cbn [build]; [reflexivity|].
  rewrite IH by (rewrite app_length; cbn [length]; lia). apply app_nth1. exact Hi.
Qed.

Lemma nval_ext acc acc' i n :
  node_ok i n = true -> (forall c, (c < i)%nat -> nth c acc VUndef = nth c acc' VUndef) -> nval acc n = nval acc' n.
Proof.
  intros Hok Hext. destruct n as [v|cs|es|c]; cbn [nval node_ok] in *.
  - reflexivity.
  - f_equal. apply map_ext_in. intros c Hc. apply Hext. rewrite forallb_forall in Hok. apply Nat.ltb_lt. apply Hok. exact Hc.
  - f_equal. apply map_ext_in. intros e He. rewrite forallb_forall in Hok. specialize (Hok e He).
    apply andb_true_iff in Hok. destruct Hok as [H1 H2]. apply Nat.ltb_lt in H1. apply Nat.ltb_lt in H2.
    rewrite (Hext _ H1), (Hext _ H2). reflexivity.
  - f_equal. apply Hext. apply Nat.ltb_lt. exact Hok.
Qed.

Lemma wf_node ns : forall k j n, wf_from k ns = true -> nth_error ns j = Some n -> node_ok (k + j) n = true.
Proof.
  induction ns as [|m r IH]; intros k j n Hwf Hn; [destruct j; discriminate|].
  cbn [wf_from] in Hwf. apply andb_true_iff in Hwf. destruct Hwf as [Hm Hr]. destruct j as [|j]; cbn [nth_error] in Hn.
  - injection Hn as <-. rewrite Nat.add_0_r. exact Hm.
  - replace (k + S j)%nat with (S k + j)%nat by lia. eapply IH; eassumption.
Qed.

Lemma build_nth ns : forall acc j n, wf_from (length acc) ns = true -> nth_error ns j = Some n ->
  nth (length acc + j) (build ns acc) VUndef = nval (build ns acc) n.
Proof.
  induction ns as [|m r IH]; intros acc j n Hwf Hn; [destruct j; discriminate|].
  pose proof Hwf as Hwf0. cbn [wf_from] in Hwf. apply andb_true_iff in Hwf. destruct Hwf as [Hm Hr].
  destruct j as [|j]; cbn [nth_error] in Hn.
  - injection Hn as <-. cbn [build]. rewrite Nat.add_0_r.
    rewrite build_prefix by (rewrite app_length; cbn [length]; lia).
    rewrite app_nth2 by lia. rewrite Nat.sub_diag. cbn [nth].
    apply (nval_ext _ _ (length acc)); [exact Hm|]. intros c Hc.
    rewrite build_prefix by (rewrite app_length; cbn [length]; lia). symmetry. apply app_nth1. exact Hc.
  - cbn [build]. replace (length acc + S j)%nat with (length (acc ++ [nval acc m]) + j)%nat by (rewrite app_length; cbn [length]; lia).
    apply IH; [|exact Hn]. rewrite app_length. cbn [length]. replace (length acc + 1)%nat with (S (length acc)) by lia. exact Hr.
Qed.

Lemma vals_length ns : length (vals_of ns) = length ns.
Proof. unfold vals_of. rewrite build_length. reflexivity. Qed.

Lemma val_node ns i n : wf_dag ns = true -> nth_error ns i = Some n -> nth i (vals_of ns) VUndef = nval (vals_of ns) n.
Proof. intros Hwf Hn. exact (build_nth ns [] i n Hwf Hn). Qed.

(* ---- the cached fields ---- *)
Lemma upd_length c : forall i f, length (upd c i f) = length c.
Proof. induction c as [|s r IH]; intros [|i] f; cbn [upd length]; try reflexivity. rewrite IH. reflexivity. Qed.

Lemma nth_upd_eq c : forall i f, (i < length c)%nat -> nth i (upd c i f) no_slot = f (nth i c no_slot).
Proof.
  induction c as [|s r IH]; intros [|i] f Hi; cbn [length] in Hi; try lia; cbn [upd nth]; [reflexivity|].
  apply IH. lia.
Qed.

Lemma nth_upd_neq c : forall i j f, i <> j -> nth j (upd c i f) no_slot = nth j c no_slot.
Proof.
  induction c as [|s r IH]; intros [|i] [|j] f Hij; cbn [upd nth]; try reflexivity; try congruence.
  apply IH. congruence.
Qed.

Lemma fold_left_map2 {X Y Z} (f : X -> Y) (g : Z -> Y -> Z) l acc :
  fold_left (fun a y => g a (f y)) l acc = fold_left g (map f l) acc.
Proof. revert acc. induction l as [|y l IH]; intros acc; [reflexivity|]. cbn [fold_left map]. apply IH. Qed.

Lemma combine_map_r {X Y} (g : X -> Y) (l : list X) : combine l (map g l) = map (fun e => (e, g e)) l.
Proof. induction l as [|x l IH]; [reflexivity|]. cbn [map combine]. rewrite IH. reflexivity. Qed.

Lemma forallb_map_eq {X Y} (p : X -> bool) (q : Y -> bool) (g : X -> Y) l :
  (forall e, p e = q (g e)) -> forallb p l = forallb q (map g l).
Proof. intros H. induction l as [|x l IH]; [reflexivity|]. cbn [forallb map]. rewrite H, IH. reflexivity. Qed.

Lemma nth_firstn_lt {X} (d : X) : forall n l j, (j < n)%nat -> nth j (firstn n l) d = nth j l d.
Proof.
  induction n as [|n IH]; intros l j Hj; [lia|]. destruct l as [|x l]; [reflexivity|].
  cbn [firstn]. destruct j as [|j]; [reflexivity|]. cbn [nth]. apply IH. lia.
Qed.

Lemma nth_empty_cache (l : list node) : forall i, nth i (empty_cache l) no_slot = no_slot.
Proof. unfold empty_cache. induction l as [|n r IHr]; intros [|i]; cbn [map nth]; try reflexivity. apply IHr. Qed.

Section HistProofs.
  Variable rx : str -> str -> bool.
  Variable ns : list node.
  Hypothesis Hwf : wf_dag ns = true.

  Notation vals := (vals_of ns).
  Notation val := (fun i => nth i (vals_of ns) VUndef).
  Notation I := (infer rx).
  Notation D := (infer_detailed rx).

  (* every cached type is the pure function of the value of its object *)
  Definition inv (c : cache) : Prop :=
    length c = length ns /\
    (forall i t, get_red c i = Some t -> t = I (val i)) /\
    (forall i t, get_det c i = Some t -> t = D (val i)).

  Lemma inv_empty : inv (empty_cache ns).
  Proof.
    unfold inv, empty_cache. split; [apply map_length|].
    pose proof (nth_empty_cache ns) as Hn. unfold empty_cache in Hn.
    split; intros i t; unfold get_red, get_det; rewrite Hn; cbn; discriminate.
  Qed.

  Lemma inv_set_red c i t : inv c -> (i < length ns)%nat -> t = I (val i) -> inv (set_red c i t).
  Proof.
    intros (Hl & Hr & Hd) Hi Ht. unfold set_red. split; [rewrite upd_length; exact Hl|]. split; intros j u.
    - unfold get_red. destruct (Nat.eq_dec i j) as [<-|Hij].
      + rewrite nth_upd_eq by lia. cbn [fst]. intros [= <-]. exact Ht.
      + rewrite nth_upd_neq by exact Hij. apply Hr.
    - unfold get_det. destruct (Nat.eq_dec i j) as [<-|Hij].
      + rewrite nth_upd_eq by lia. cbn [snd]. apply Hd.
      + rewrite nth_upd_neq by exact Hij. apply Hd.
  Qed.

  Lemma inv_set_det c i t : inv c -> (i < length ns)%nat -> t = D (val i) -> inv (set_det c i t).
  Proof.
    intros (Hl & Hr & Hd) Hi Ht. unfold set_det. split; [rewrite upd_length; exact Hl|]. split; intros j u.
    - unfold get_red. destruct (Nat.eq_dec i j) as [<-|Hij].
      + rewrite nth_upd_eq by lia. cbn [fst]. apply Hr.
      + rewrite nth_upd_neq by exact Hij. apply Hr.
    - unfold get_det. destruct (Nat.eq_dec i j) as [<-|Hij].
      + rewrite nth_upd_eq by lia. cbn [snd]. intros [= <-]. exact Ht.
      + rewrite nth_upd_neq by exact Hij. apply Hd.
  Qed.

  Lemma node_at i : (i < length ns)%nat -> exists n, nth_error ns i = Some n /\ node_ok i n = true /\ val i = nval vals n.
  Proof.
    intros Hi. destruct (nth_error ns i) as [n|] eqn:En; [|apply nth_error_None in En; lia].
    exists n. split; [reflexivity|]. split; [exact (wf_node ns 0 i n Hwf En)|exact (val_node ns i n Hwf En)].
  Qed.

  (* ---- v.PType() ---- *)
  Definition pt_spec (f : nat) : Prop :=
    forall c i, inv c -> (i < f)%nat -> (i < length ns)%nat ->
      inv (fst (pt rx ns f c i)) /\ snd (pt rx ns f c i) = I (val i).

  Lemma pt_fold_arr f : pt_spec f -> forall r st, inv (fst st) -> (forall y, In y r -> (y < f)%nat /\ (y < length ns)%nat) ->
    let st' := fold_left (fun (st : cache * ty) y => let ry := pt rx ns f (fst st) y in (fst ry, common rx (snd st) (snd ry))) r st in
    inv (fst st') /\ snd st' = fold_left (common rx) (map (fun y => I (val y)) r) (snd st).
  Proof.
    intros IH r. induction r as [|y r IHr]; intros st Hinv Hb; cbn [fold_left map]; [split; [exact Hinv|reflexivity]|].
    destruct (Hb y (or_introl eq_refl)) as [Hy1 Hy2]. destruct (IH (fst st) y Hinv Hy1 Hy2) as [Hi1 Hs1].
    cbn zeta. match goal with |- context [fold_left ?F r ?S0] => specialize (IHr S0) end.
    cbn [fst snd] in IHr. destruct (IHr Hi1 (fun z Hz => Hb z (or_intror Hz))) as [Ha Hb']. split; [exact Ha|].
    rewrite Hb', Hs1. reflexivity.
  Qed.

  Lemma pt_fold_hash f : pt_spec f -> forall (r : list (nat * nat)) (st : cache * (ty * ty)), inv (fst st) ->
    (forall e, In e r -> ((fst e < f)%nat /\ (fst e < length ns)%nat) /\ ((snd e < f)%nat /\ (snd e < length ns)%nat)) ->
    let st' := fold_left (fun (st : cache * (ty * ty)) e =>
                            let rk' := pt rx ns f (fst st) (fst e) in
                            let rv' := pt rx ns f (fst rk') (snd e) in
                            (fst rv', (common rx (fst (snd st)) (snd rk'), common rx (snd (snd st)) (snd rv')))) r st in
    inv (fst st') /\
    fst (snd st') = fold_left (common rx) (map (fun e => I (val (fst e))) r) (fst (snd st)) /\
    snd (snd st') = fold_left (common rx) (map (fun e => I (val (snd e))) r) (snd (snd st)).
  Proof.
    intros IH r. induction r as [|e r IHr]; intros st Hinv Hb; cbn [fold_left map]; [split; [exact Hinv|split; reflexivity]|].
    destruct (Hb e (or_introl eq_refl)) as [[Hk1 Hk2] [Hv1 Hv2]].
    destruct (IH (fst st) (fst e) Hinv Hk1 Hk2) as [Hi1 Hs1].
    destruct (IH _ (snd e) Hi1 Hv1 Hv2) as [Hi2 Hs2].
    cbn zeta.
    match goal with |- context [fold_left ?F r ?S0] => specialize (IHr S0) end.
    cbn [fst snd] in IHr. destruct (IHr Hi2 (fun z Hz => Hb z (or_intror Hz))) as (Ha & Hb1 & Hb2).
    split; [exact Ha|]. split.
    - rewrite Hb1. rewrite Hs1. reflexivity.
    - rewrite Hb2. rewrite Hs2. reflexivity.
  Qed.

  Lemma zlen_map {X Y} (g : X -> Y) l : zlen (map g l) = zlen l.
  Proof. unfold zlen. rewrite map_length. reflexivity. Qed.

  Lemma pt_ok : forall f, pt_spec f.
  Proof.
    induction f as [|f IH]; intros c i Hinv Hf Hi; [lia|].
    destruct (node_at i Hi) as (n & En & Hok & Hv). cbn [pt]. rewrite En.
    destruct n as [v|cs|es|k].
    - cbn [fst snd]. split; [exact Hinv|]. rewrite Hv. reflexivity.
    - destruct (get_red c i) as [t|] eqn:Eg.
      + cbn [fst snd]. split; [exact Hinv|]. destruct Hinv as (_ & Hr & _). apply Hr. exact Eg.
      + destruct cs as [|x r].
        * cbn [fst snd]. assert (Ht : TArray TUnit 0 0 = I (val i)) by (rewrite Hv; reflexivity).
          split; [apply inv_set_red; assumption|exact Ht].
        * cbn zeta. cbn [node_ok forallb] in Hok. apply andb_true_iff in Hok. destruct Hok as [Hx Hr].
          apply Nat.ltb_lt in Hx. rewrite forallb_forall in Hr.
          destruct (IH c x Hinv ltac:(lia) ltac:(lia)) as [Hi0 Hs0].
          assert (Hb : forall y, In y r -> (y < f)%nat /\ (y < length ns)%nat).
          { intros y Hy. specialize (Hr y Hy). apply Nat.ltb_lt in Hr. lia. }
          destruct (pt_fold_arr f IH r (pt rx ns f c x) Hi0 Hb) as [Hi1 Hs1]. cbn zeta in Hi1, Hs1.
          assert (Ht : TArray (snd (fold_left (fun (st : cache * ty) y => let ry := pt rx ns f (fst st) y in
                                   (fst ry, common rx (snd st) (snd ry))) r (pt rx ns f c x))) (zlen (x :: r)) (zlen (x :: r)) = I (val i)).
          { rewrite Hv. cbn [nval map]. rewrite infer_arr_cons. rewrite map_map. cbn zeta in *. rewrite Hs1, Hs0.
            f_equal; change (nth x vals VUndef :: map (fun c0 => nth c0 vals VUndef) r) with (map (fun c0 => nth c0 vals VUndef) (x :: r));
              rewrite zlen_map; reflexivity. }
          cbn [fst snd]. split; [apply inv_set_red; assumption|exact Ht].
    - destruct (get_red c i) as [t|] eqn:Eg.
      + cbn [fst snd]. split; [exact Hinv|]. destruct Hinv as (_ & Hr & _). apply Hr. exact Eg.
      + destruct es as [|e0 r].
        * cbn [fst snd]. assert (Ht : THash TUnit TUnit 0 0 = I (val i)) by (rewrite Hv; reflexivity).
          split; [apply inv_set_red; assumption|exact Ht].
        * cbn zeta. cbn [node_ok forallb] in Hok. apply andb_true_iff in Hok. destruct Hok as [H0 Hr].
          apply andb_true_iff in H0. destruct H0 as [Hk Hx]. apply Nat.ltb_lt in Hk. apply Nat.ltb_lt in Hx.
          rewrite forallb_forall in Hr.
          destruct (IH c (fst e0) Hinv ltac:(lia) ltac:(lia)) as [Hi0 Hs0].
          destruct (IH _ (snd e0) Hi0 ltac:(lia) ltac:(lia)) as [Hi0' Hs0'].
          assert (Hb : forall e, In e r -> ((fst e < f)%nat /\ (fst e < length ns)%nat) /\ ((snd e < f)%nat /\ (snd e < length ns)%nat)).
          { intros e He. specialize (Hr e He). apply andb_true_iff in Hr. destruct Hr as [H1 H2].
            apply Nat.ltb_lt in H1. apply Nat.ltb_lt in H2. lia. }
          match goal with |- context [fold_left ?F r ?S0] =>
            destruct (pt_fold_hash f IH r S0 Hi0' Hb) as (Hi1 & Hs1 & Hs2); set (R1 := fold_left F r S0) in *
          end.
          cbn zeta in Hi1, Hs1, Hs2. cbn [fst snd] in Hs1, Hs2.
          assert (Ht : THash (fst (snd R1)) (snd (snd R1)) (zlen (e0 :: r)) (zlen (e0 :: r)) = I (val i)).
          { rewrite Hv. cbn [nval map]. rewrite infer_hash_cons. rewrite !map_map. cbn [fst snd].
            rewrite Hs1, Hs2, Hs0, Hs0'.
            f_equal;
              change ((nth (fst e0) vals VUndef, nth (snd e0) vals VUndef) :: map (fun e => (nth (fst e) vals VUndef, nth (snd e) vals VUndef)) r)
                with (map (fun e : nat * nat => (nth (fst e) vals VUndef, nth (snd e) vals VUndef)) (e0 :: r));
              rewrite zlen_map; reflexivity. }
          cbn [fst snd]. split; [apply inv_set_red; assumption|exact Ht].
    - cbn [node_ok] in Hok. apply Nat.ltb_lt in Hok. destruct (IH c k Hinv ltac:(lia) ltac:(lia)) as [Hi0 Hs0].
      cbn zeta. cbn [fst snd]. split; [exact Hi0|]. rewrite Hs0, Hv. reflexivity.
  Qed.

  (* ---- px.DetailedValueType(v) ---- *)
  Definition dt_spec (f : nat) : Prop :=
    forall c i, inv c -> (i < f)%nat -> (i < length ns)%nat ->
      inv (fst (dt rx ns f c i)) /\ snd (dt rx ns f c i) = D (val i).

  Lemma dt_fold_arr f : dt_spec f -> forall r (st : cache * list ty), inv (fst st) ->
    (forall y, In y r -> (y < f)%nat /\ (y < length ns)%nat) ->
    let st' := fold_left (fun (st : cache * list ty) y => let ry := dt rx ns f (fst st) y in (fst ry, snd st ++ [snd ry])) r st in
    inv (fst st') /\ snd st' = snd st ++ map (fun y => D (val y)) r.
  Proof.
    intros IH r. induction r as [|y r IHr]; intros st Hinv Hb; cbn [fold_left map]; [split; [exact Hinv|symmetry; apply app_nil_r]|].
    destruct (Hb y (or_introl eq_refl)) as [Hy1 Hy2]. destruct (IH (fst st) y Hinv Hy1 Hy2) as [Hi1 Hs1].
    cbn zeta. match goal with |- context [fold_left ?F r ?S0] => specialize (IHr S0) end.
    cbn [fst snd] in IHr. destruct (IHr Hi1 (fun z Hz => Hb z (or_intror Hz))) as [Ha Hb']. split; [exact Ha|].
    rewrite Hb', Hs1, <- app_assoc. reflexivity.
  Qed.

  Lemma dt_fold_hash f : dt_spec f -> forall (r : list (nat * nat)) (st : cache * list (ty * ty)), inv (fst st) ->
    (forall e, In e r -> ((fst e < f)%nat /\ (fst e < length ns)%nat) /\ ((snd e < f)%nat /\ (snd e < length ns)%nat)) ->
    let st' := fold_left (fun (st : cache * list (ty * ty)) e =>
                            let rk := dt rx ns f (fst st) (fst e) in
                            let rv := dt rx ns f (fst rk) (snd e) in
                            (fst rv, snd st ++ [(snd rk, snd rv)])) r st in
    inv (fst st') /\ snd st' = snd st ++ map (fun e => (D (val (fst e)), D (val (snd e)))) r.
  Proof.
    intros IH r. induction r as [|e r IHr]; intros st Hinv Hb; cbn [fold_left map]; [split; [exact Hinv|symmetry; apply app_nil_r]|].
    destruct (Hb e (or_introl eq_refl)) as [[Hk1 Hk2] [Hv1 Hv2]].
    destruct (IH (fst st) (fst e) Hinv Hk1 Hk2) as [Hi1 Hs1].
    destruct (IH _ (snd e) Hi1 Hv1 Hv2) as [Hi2 Hs2].
    cbn zeta. match goal with |- context [fold_left ?F r ?S0] => specialize (IHr S0) end.
    cbn [fst snd] in IHr. destruct (IHr Hi2 (fun z Hz => Hb z (or_intror Hz))) as [Ha Hb']. split; [exact Ha|].
    rewrite Hb', Hs1, Hs2, <- app_assoc. reflexivity.
  Qed.

  Lemma node_name_val k : node_name ns k = name_of (val k).
  Proof.
    unfold node_name. destruct (nth_error ns k) as [n|] eqn:En.
    - rewrite (val_node ns k n Hwf En). destruct n; reflexivity.
    - apply nth_error_None in En. rewrite nth_overflow by (rewrite vals_length; exact En). reflexivity.
  Qed.

  Lemma dt_ok : forall f, dt_spec f.
  Proof.
    induction f as [|f IH]; intros c i Hinv Hf Hi; [lia|].
    destruct (node_at i Hi) as (n & En & Hok & Hv). cbn [dt]. rewrite En.
    destruct n as [v|cs|es|k].
    - cbn [fst snd]. split; [exact Hinv|]. rewrite Hv. reflexivity.
    - destruct (get_det c i) as [t|] eqn:Eg.
      + cbn [fst snd]. split; [exact Hinv|]. destruct Hinv as (_ & _ & Hd). apply Hd. exact Eg.
      + destruct cs as [|x r].
        * assert (Ht : TArray TUnit 0 0 = D (val i)) by (rewrite Hv; reflexivity).
          assert (Ht' : TArray TUnit 0 0 = I (val i)) by (rewrite Hv; reflexivity).
          destruct (get_red c i) as [t|] eqn:Er; cbn [fst snd].
          -- assert (t = TArray TUnit 0 0) as -> by (destruct Hinv as (_ & Hr & _); rewrite (Hr i t Er); symmetry; exact Ht').
             split; [apply inv_set_det; assumption|exact Ht].
          -- split; [apply inv_set_det; [apply inv_set_red|..]; assumption|exact Ht].
        * cbn zeta. cbn [node_ok] in Hok. rewrite forallb_forall in Hok.
          assert (Hb : forall y, In y (x :: r) -> (y < f)%nat /\ (y < length ns)%nat).
          { intros y Hy. specialize (Hok y Hy). apply Nat.ltb_lt in Hok. lia. }
          destruct (dt_fold_arr f IH (x :: r) (c, []) Hinv Hb) as [Hi1 Hs1]. cbn zeta in Hi1, Hs1. cbn [snd app] in Hs1.
          match goal with |- context [TTuple ?L false ?a ?b] => assert (Ht : TTuple L false a b = D (val i)) end.
          { rewrite Hs1, Hv. cbn [nval]. set (vs := map (fun c0 => nth c0 vals VUndef) (x :: r)).
            assert (Hvs : vs = nth x vals VUndef :: map (fun c0 => nth c0 vals VUndef) r) by reflexivity.
            rewrite Hvs, D_arr_cons, <- Hvs. unfold vs. rewrite map_map, zlen_map. reflexivity. }
          cbn [fst snd]. split; [apply inv_set_det; assumption|exact Ht].
    - destruct (get_det c i) as [t|] eqn:Eg.
      + cbn [fst snd]. split; [exact Hinv|]. destruct Hinv as (_ & _ & Hd). apply Hd. exact Eg.
      + destruct es as [|e0 r].
        * assert (Ht : THash TUnit TUnit 0 0 = D (val i)) by (rewrite Hv; reflexivity).
          assert (Ht' : THash TUnit TUnit 0 0 = I (val i)) by (rewrite Hv; reflexivity).
          destruct (get_red c i) as [t|] eqn:Er; cbn [fst snd].
          -- assert (t = THash TUnit TUnit 0 0) as -> by (destruct Hinv as (_ & Hr & _); rewrite (Hr i t Er); symmetry; exact Ht').
             split; [apply inv_set_det; assumption|exact Ht].
          -- split; [apply inv_set_det; [apply inv_set_red|..]; assumption|exact Ht].
        * cbn zeta. cbn [node_ok] in Hok. rewrite forallb_forall in Hok.
          assert (Hb : forall e, In e (e0 :: r) -> ((fst e < f)%nat /\ (fst e < length ns)%nat) /\ ((snd e < f)%nat /\ (snd e < length ns)%nat)).
          { intros e He. specialize (Hok e He). apply andb_true_iff in Hok. destruct Hok as [H1 H2].
            apply Nat.ltb_lt in H1. apply Nat.ltb_lt in H2. lia. }
          destruct (dt_fold_hash f IH (e0 :: r) (c, []) Hinv Hb) as [Hi1 Hs1]. cbn zeta in Hi1, Hs1. cbn [snd app] in Hs1.
          set (es := e0 :: r) in *.
          set (g := fun e : nat * nat => (nth (fst e) vals VUndef, nth (snd e) vals VUndef)).
          match goal with |- context [set_det _ i ?T] => assert (Ht : T = D (val i)) end.
          { rewrite Hs1, Hv. cbn [nval]. fold g.
            assert (Hes : map g es = g e0 :: map g r) by reflexivity.
            rewrite Hes, D_hash_cons, <- Hes.
            assert (Hn : forallb (fun e => match node_name ns (fst e) with Some _ => true | None => false end) es =
                         forallb (is_named) (map g es)).
            { apply forallb_map_eq. intros e. unfold is_named, g. cbn [fst]. rewrite node_name_val. reflexivity. }
            rewrite Hn. destruct (forallb is_named (map g es)).
            - f_equal. rewrite combine_map_r, !map_map. apply map_ext. intros e. unfold struct_member, smember, g. cbn [fst snd].
              rewrite node_name_val. reflexivity.
            - unfold dkeys, dvals. rewrite !map_map, zlen_map. reflexivity. }
          cbn [fst snd]. split; [apply inv_set_det; assumption|exact Ht].
    - cbn [node_ok] in Hok. apply Nat.ltb_lt in Hok. destruct (IH c k Hinv ltac:(lia) ltac:(lia)) as [Hi0 Hs0].
      cbn zeta. cbn [fst snd]. split; [exact Hi0|]. rewrite Hs0, Hv. reflexivity.
  Qed.

  (* ---- histories ---- *)
  Lemma step_ok st o : inv (fst st) -> op_ok ns o = true ->
    inv (fst (step rx ns st o)) /\ snd (step rx ns st o) = snd st ++ [spec_op rx vals (snd st) o].
  Proof.
    intros Hinv Hop. destruct o as [i|i|a b|a]; cbn [step spec_op op_ok] in *.
    - apply Nat.ltb_lt in Hop. destruct (pt_ok (fuel ns) (fst st) i Hinv Hop Hop) as [H1 H2]. cbn zeta. cbn [fst snd].
      split; [exact H1|]. rewrite H2. reflexivity.
    - apply Nat.ltb_lt in Hop. destruct (dt_ok (fuel ns) (fst st) i Hinv Hop Hop) as [H1 H2]. cbn zeta. cbn [fst snd].
      split; [exact H1|]. rewrite H2. reflexivity.
    - cbn [fst snd]. split; [exact Hinv|reflexivity].
    - cbn [fst snd]. split; [exact Hinv|reflexivity].
  Qed.

  Lemma run_from_ok ops : forall st, inv (fst st) -> forallb (op_ok ns) ops = true ->
    inv (fst (run_from rx ns st ops)) /\ snd (run_from rx ns st ops) = spec_from rx vals (snd st) ops.
  Proof.
    induction ops as [|o r IH]; intros st Hinv Hops; cbn [run_from spec_from fold_left]; [split; [exact Hinv|reflexivity]|].
    cbn [forallb] in Hops. apply andb_true_iff in Hops. destruct Hops as [Ho Hr].
    destruct (step_ok st o Hinv Ho) as [H1 H2]. destruct (IH _ H1 Hr) as [H3 H4]. unfold run_from in H3, H4.
    split; [exact H3|]. rewrite H4, H2. reflexivity.
  Qed.

  (* every history, from objects that have not been asked yet: each operation returns the pure function of the value *)
  Theorem history_pure ops : forallb (op_ok ns) ops = true ->
    snd (run rx ns ops) = spec_run rx ns ops /\ inv (fst (run rx ns ops)).
  Proof.
    intros Hops. destruct (run_from_ok ops (empty_cache ns, []) inv_empty Hops) as [H1 H2]. split; [exact H2|exact H1].
  Qed.

  (* results are only ever appended: what an operation returned is what every longer history still holds *)
  Lemma spec_from_app res ops ops' : spec_from rx vals res (ops ++ ops') = spec_from rx vals (spec_from rx vals res ops) ops'.
  Proof. unfold spec_from. apply fold_left_app. Qed.

  Lemma spec_from_length ops : forall res, length (spec_from rx vals res ops) = (length res + length ops)%nat.
  Proof.
    induction ops as [|o r IH]; intros res; cbn [spec_from fold_left length]; [lia|].
    unfold spec_from in IH. rewrite IH, app_length. cbn [length]. lia.
  Qed.

  Lemma spec_from_prefix ops : forall res k, (k < length res)%nat -> nth k (spec_from rx vals res ops) TFault = nth k res TFault.
  Proof.
    induction ops as [|o r IH]; intros res k Hk; cbn [spec_from fold_left]; [reflexivity|].
    unfold spec_from in IH. rewrite IH by (rewrite app_length; cbn [length]; lia). apply app_nth1. exact Hk.
  Qed.

  Lemma spec_from_nth ops : forall res k o, nth_error ops k = Some o ->
    nth (length res + k) (spec_from rx vals res ops) TFault = spec_op rx vals (firstn (length res + k) (spec_from rx vals res ops)) o.
  Proof.
    induction ops as [|o' r IH]; intros res k o Hk; [destruct k; discriminate|].
    cbn [spec_from fold_left]. fold (spec_from rx vals (res ++ [spec_op rx vals res o']) r).
    destruct k as [|k]; cbn [nth_error] in Hk.
    - injection Hk as ->. rewrite Nat.add_0_r.
      assert (Hf : firstn (length res) (spec_from rx vals (res ++ [spec_op rx vals res o]) r) = res).
      { apply nth_ext with (d := TFault) (d' := TFault).
        - rewrite firstn_length, spec_from_length, app_length. cbn [length]. lia.
        - intros j Hj. rewrite firstn_length, spec_from_length, app_length in Hj. cbn [length] in Hj.
          assert (Hj' : (j < length res)%nat) by lia.
          rewrite nth_firstn_lt by exact Hj'.
          rewrite spec_from_prefix by (rewrite app_length; cbn [length]; lia). apply app_nth1. exact Hj'. }
      rewrite Hf. rewrite spec_from_prefix by (rewrite app_length; cbn [length]; lia).
      rewrite app_nth2 by lia. rewrite Nat.sub_diag. reflexivity.
    - specialize (IH (res ++ [spec_op rx vals res o']) k o Hk). rewrite app_length in IH. cbn [length] in IH.
      replace (length res + S k)%nat with (length res + 1 + k)%nat by lia. exact IH.
  Qed.

  Theorem history_result ops ops' k o : forallb (op_ok ns) (ops ++ ops') = true -> nth_error ops k = Some o ->
    nth k (snd (run rx ns (ops ++ ops'))) TFault =
    spec_op rx vals (firstn k (snd (run rx ns (ops ++ ops')))) o.
  Proof.
    intros Hops Hk. destruct (history_pure (ops ++ ops') Hops) as [-> _]. unfold spec_run.
    assert (Hk' : nth_error (ops ++ ops') k = Some o).
    { rewrite nth_error_app1; [exact Hk|]. apply nth_error_Some. congruence. }
    exact (spec_from_nth (ops ++ ops') [] k o Hk').
  Qed.

  Lemma deref_firstn k res r : ref_ok k r = true -> deref (firstn k res) r = deref res r.
  Proof. destruct r as [t|j]; cbn [ref_ok deref]; [reflexivity|]. intros Hj. apply Nat.ltb_lt in Hj. apply nth_firstn_lt. exact Hj. Qed.

  (* the k-th result of a history, at the END of the history (whatever came after the k-th operation), is the pure
     function of the value / of the operands as they are at the end *)
  Theorem history_result_end ops k o : forallb (op_ok ns) ops = true -> nth_error ops k = Some o -> refs_ok k o = true ->
    nth k (snd (run rx ns ops)) TFault = spec_op rx vals (snd (run rx ns ops)) o.
  Proof.
    intros Hops Hk Hr. pose proof (history_result ops [] k o) as H. rewrite app_nil_r in H. rewrite (H Hops Hk).
    destruct o as [i|i|a b|a]; cbn [spec_op refs_ok] in *; try reflexivity.
    - apply andb_true_iff in Hr. destruct Hr as [Ha Hb]. rewrite (deref_firstn k _ a Ha), (deref_firstn k _ b Hb). reflexivity.
    - rewrite (deref_firstn k _ a Hr). reflexivity.
  Qed.
End HistProofs.
