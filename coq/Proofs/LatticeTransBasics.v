(* LatticeTransBasics.v — helper lemmas for the transitivity of assignability (C03): the size measure, the
   side conditions per constructor, "accepts Any = accepts everything", monotonicity of `nullable` along
   assignability, the shape of a receiver's answer on a decomposed right operand, the Tuple walk. *)
From Coq Require Import ZArith NArith Bool List Lia.
From PcoreV Require Import Model.Base Model.Ty Model.Lattice Proofs.LatticeUnfold Proofs.LatticeBasics
  Proofs.StructCount Proofs.LatticeRule Proofs.LatticeSound Proofs.LatticeOrder.
Import ListNotations.
Open Scope Z_scope.

(* side conditions of every operand of a chain *)
Definition gd (t : ty) : Prop := wf_ty t = true /\ no_unit t = true.

Lemma gd_any : gd TAny.  Proof. split; reflexivity. Qed.

(* ---- the measure ---- *)
Lemma tsize_pos t : (1 <= tsize t)%nat.
Proof. destruct t; cbn; lia. Qed.

Lemma tsize_in ts t : In t ts -> (tsize t <= fold_right (fun x n => tsize x + n)%nat O ts)%nat.
Proof.
  induction ts as [|x ts IH]; [intros []|]. intros [<-|Hin]; cbn; [lia|]. specialize (IH Hin). lia.
Qed.

Lemma tsize_member ms m : In m ms ->
  (tsize (fst (snd m)) + tsize (snd (snd m)) <
   fold_right (fun (m : str * (ty * ty)) n => S (tsize (fst (snd m)) + tsize (snd (snd m)) + n))%nat O ms)%nat.
Proof.
  induction ms as [|x ms IH]; [intros []|]. intros [<-|Hin]; cbn; [lia|]. specialize (IH Hin). lia.
Qed.

Lemma tsize_variant ts t : In t ts -> (tsize t < tsize (TVariant ts))%nat.
Proof. intros H. apply tsize_in in H. cbn. lia. Qed.
Lemma tsize_tuple ts g lo hi t : In t ts -> (tsize t < tsize (TTuple ts g lo hi))%nat.
Proof. intros H. apply tsize_in in H. cbn. lia. Qed.
Lemma tsize_struct_k ms m : In m ms -> (tsize (fst (snd m)) < tsize (TStruct ms))%nat.
Proof. intros H. apply tsize_member in H. cbn. lia. Qed.
Lemma tsize_struct_v ms m : In m ms -> (tsize (snd (snd m)) < tsize (TStruct ms))%nat.
Proof. intros H. apply tsize_member in H. cbn. lia. Qed.
Lemma tsize_actual_key k : (tsize (actual_key k) <= tsize k)%nat.
Proof. destruct k; cbn; lia. Qed.

(* ---- side conditions, per constructor ---- *)
Lemma gd_variant ts t : gd (TVariant ts) -> In t ts -> gd t.
Proof. intros [Hw Hn] Hin. cbn in Hw, Hn. rewrite forallb_forall in Hw, Hn. split; auto. Qed.
Lemma gd_optional t : gd (TOptional t) -> gd t.  Proof. intros H. exact H. Qed.
Lemma gd_notundef t : gd (TNotUndef t) -> gd t.  Proof. intros H. exact H. Qed.
Lemma gd_type t : gd (TType t) -> gd t.  Proof. intros H. exact H. Qed.
Lemma gd_sensitive t : gd (TSensitive t) -> gd t.  Proof. intros H. exact H. Qed.
Lemma gd_array e lo hi : gd (TArray e lo hi) -> gd e.  Proof. intros H. exact H. Qed.
Lemma gd_hash k v lo hi : gd (THash k v lo hi) -> gd k /\ gd v.
Proof.
  intros [Hw Hn]. cbn in Hw, Hn. apply andb_true_iff in Hw, Hn. destruct Hw, Hn. repeat split; assumption.
Qed.
Lemma gd_tuple ts g lo hi t : gd (TTuple ts g lo hi) -> In t ts -> gd t.
Proof.
  intros [Hw Hn] Hin. cbn in Hw, Hn. apply andb_true_iff in Hw. destruct Hw as [_ Hw].
  rewrite forallb_forall in Hw, Hn. split; auto.
Qed.
Lemma gd_struct_k ms m : gd (TStruct ms) -> In m ms -> gd (fst (snd m)).
Proof.
  intros [Hw Hn] Hin. destruct (wf_struct_member _ _ Hw Hin) as [Hk _].
  destruct (nounit_struct_member _ _ Hn Hin) as [Hnk _]. split; [eapply key_ok_wf; eauto|assumption].
Qed.
Lemma gd_struct_v ms m : gd (TStruct ms) -> In m ms -> gd (snd (snd m)).
Proof.
  intros [Hw Hn] Hin. destruct (wf_struct_member _ _ Hw Hin) as [_ Hv].
  destruct (nounit_struct_member _ _ Hn Hin) as [_ Hnv]. split; assumption.
Qed.
Lemma gd_stringval s : gd (TStringVal s).  Proof. split; reflexivity. Qed.

(* right operands handed to the receiver that no receiver other than a wrapper accepts *)
Definition rcv (a : ty) : bool :=
  match a with
  | TAny | TUnit | TVariant _ | TOptional _ | TNotUndef _ => false
  | _ => true
  end.

Lemma flat_plain k c : plain c = true -> flat k c = flat_recv k c.
Proof.
  destruct c; try reflexivity; try discriminate.
  cbn [plain]. intros Hn. cbn [flat]. rewrite Hn. destruct k; reflexivity.
Qed.

Lemma flat_undef_plain c : plain c = true -> flat FUndef c = true -> c = TUndef.
Proof. intros Hp. rewrite (flat_plain _ _ Hp). destruct c; cbn; congruence. Qed.

Section TransBasics.
  Variable rx : str -> str -> bool.
  Variable hs : bool.
  Notation asg := (asg rx hs).
  Notation recv := (recv rx hs asg).


  Lemma rcv_not_any a : rcv a = true -> is_any a = false.
  Proof. destruct a; cbn; congruence. Qed.

  Lemma recv_notundef_r a nt : rcv a = true -> nullable nt = true -> recv a (TNotUndef nt) = false.
  Proof.
    intros Ha Hn. destruct a; try discriminate; try reflexivity; cbn [LatticeUnfold.recv flat]; rewrite ?Hn; try reflexivity.
    - destruct vs; reflexivity.
    - destruct rxs; reflexivity.
  Qed.

  Lemma recv_any_r a : rcv a = true -> recv a TAny = false.
  Proof.
    intros Ha. destruct a; try discriminate; try reflexivity.
    - destruct vs; reflexivity.
    - destruct rxs; reflexivity.
  Qed.

  (* a receiver proper accepts only receivers proper *)
  Lemma recv_rcv_r a b : rcv a = true -> plain b = true -> recv a b = true -> rcv b = true.
  Proof.
    intros Ha Hp Hr. destruct b; try reflexivity; try discriminate.
    - rewrite (recv_any_r a Ha) in Hr. discriminate.
    - cbn in Hp. rewrite (recv_notundef_r a b Ha Hp) in Hr. discriminate.
  Qed.

  (* ---- who accepts Undef / Any ---- *)
  Lemma asg_undef_nullable a : asg a TUndef = true -> nullable a = true.
  Proof.
    induction a using ty_ind'; try reflexivity; rewrite asg_unfold; cbn; try discriminate.
    - destruct vs; discriminate.
    - destruct rxs; discriminate.
    - intros Hex. apply existsb_exists in Hex. destruct Hex as (t & Ht & Hex). apply existsb_exists. exists t.
      rewrite Forall_forall in H. auto.
  Qed.

  Lemma asg_any_all a : asg a TAny = true -> forall c, asg a c = true.
  Proof.
    induction a using ty_ind'; intros Ha; try (rewrite asg_unfold in Ha; cbn in Ha; discriminate).
    - intros c. apply asg_any.
    - (* Unit *) apply accepts_all; [intros; reflexivity|reflexivity].
    - rewrite asg_unfold in Ha; cbn in Ha. destruct vs; discriminate.
    - rewrite asg_unfold in Ha; cbn in Ha. destruct rxs; discriminate.
    - (* Variant *) rewrite asg_unfold in Ha. cbn in Ha. apply existsb_exists in Ha. destruct Ha as (t & Ht & Ha).
      rewrite Forall_forall in H. intros c. apply (variant_intro rx hs ts t Ht). apply (H t Ht Ha).
    - (* Optional *) rewrite asg_unfold in Ha. cbn in Ha. intros c. apply optional_intro. apply IHa. exact Ha.
  Qed.

  (* whoever accepts a type that accepts Undef accepts Undef *)
  Lemma nullable_mono b : no_unit b = true -> forall a, asg a b = true -> nullable b = true -> nullable a = true.
  Proof.
    induction b using ty_ind'; intros Hnu a Hab Hn; try discriminate.
    - apply asg_undef_nullable. apply asg_any_all. exact Hab.
    - apply asg_undef_nullable. exact Hab.
    - (* Variant *) cbn in Hn. apply existsb_exists in Hn. destruct Hn as (t & Ht & Hn).
      rewrite Forall_forall in H. cbn in Hnu. rewrite forallb_forall in Hnu.
      apply (H t Ht (Hnu t Ht) a); [|exact Hn]. apply (asg_variant_elim rx hs a ts Hab t Ht).
    - (* Optional *) apply (asg_optional_elim rx hs a b Hab).
  Qed.

  (* GuardedIsAssignable hands a receiver proper on the right straight to the left operand *)
  Lemma asg_rcv_r a b : rcv b = true -> is_any a = false -> asg a b = recv a b.
  Proof. intros Hb Ha. rewrite asg_unfold. unfold gstep. rewrite Ha. destruct b; try reflexivity; discriminate. Qed.

  Lemma rcv_plain b : rcv b = true -> plain b = true.
  Proof. destruct b; try reflexivity; discriminate. Qed.

  (* acceptance of a plain right operand *)
  Lemma asg_plain_elim b c : plain c = true -> asg b c = true ->
    is_any b = true \/ (is_any b = false /\ recv b c = true) \/ (exists nt, c = TNotUndef nt /\ asg b nt = true).
  Proof.
    intros Hp H. destruct (is_any b) eqn:Eb; [left; reflexivity|right].
    destruct c; try discriminate;
      try (left; split; [reflexivity|]; rewrite asg_unfold in H; unfold gstep in H; rewrite Eb in H; exact H).
    destruct (asg_notundef_elim rx hs _ _ H) as [H1|(_ & _ & H1)]; [right; eauto|left; auto].
  Qed.
End TransBasics.
