(* Proofs about Part 2 of Model/DescribeNested.v: an alias environment without cycles (env_ok: every declaration refers to
   earlier declarations only) and a type whose references are declared (refs_below) unfold to an xty - and only those do;
   so the three clauses of the describer hold for every expected type written over every such environment. *)
From Coq Require Import ZArith NArith Bool List Arith Lia.
From PcoreV Require Import Model.Base Model.Ty Model.Lattice Model.Describe Model.DescribeHist Model.DescribeNested
  Proofs.DescribeProofs Proofs.DescribeNestedProofs.
Import ListNotations.

Section EtyInd.
  Variable P : ety -> Prop.
  Hypothesis HTy : forall t, P (ETy t).
  Hypothesis HRef : forall i, P (ERef i).
  Hypothesis HOptional : forall t, P t -> P (EOptional t).
  Hypothesis HArray : forall et lo hi, P et -> P (EArray et lo hi).
  Hypothesis HHash : forall k v lo hi, P k -> P v -> P (EHash k v lo hi).
  Hypothesis HTuple : forall ts g lo hi, Forall P ts -> P (ETuple ts g lo hi).
  Hypothesis HStruct : forall ms, Forall (fun m => P (snd (snd m))) ms -> P (EStruct ms).
  Hypothesis HVariant : forall ts, Forall P ts -> P (EVariant ts).

  Fixpoint ety_ind' (x : ety) : P x :=
    match x with
    | ETy t => HTy t
    | ERef i => HRef i
    | EOptional t => HOptional t (ety_ind' t)
    | EArray et lo hi => HArray et lo hi (ety_ind' et)
    | EHash k v lo hi => HHash k v lo hi (ety_ind' k) (ety_ind' v)
    | ETuple ts g lo hi =>
        HTuple ts g lo hi ((fix go (l : list ety) : Forall P l :=
                              match l with [] => Forall_nil _ | y :: r => Forall_cons _ (ety_ind' y) (go r) end) ts)
    | EStruct ms =>
        HStruct ms ((fix go (l : list (str * (ty * ety))) : Forall (fun m => P (snd (snd m))) l :=
                       match l with
                       | [] => Forall_nil _
                       | (n, (k, v)) :: r => @Forall_cons _ (fun m => P (snd (snd m))) (n, (k, v)) r (ety_ind' v) (go r)
                       end) ms)
    | EVariant ts =>
        HVariant ts ((fix go (l : list ety) : Forall P l :=
                        match l with [] => Forall_nil _ | y :: r => Forall_cons _ (ety_ind' y) (go r) end) ts)
    end.
End EtyInd.

Definition is_some {A} (o : option A) : bool := match o with Some _ => true | None => false end.

Lemma mapo_some_iff {A B} (f : A -> option B) (g : A -> bool) l :
  Forall (fun x => is_some (f x) = g x) l -> is_some (mapo f l) = forallb g l.
Proof.
  intros H. induction H as [|x r Hx Hr IH]; cbn [mapo forallb]; [reflexivity|].
  fold (mapo f r). rewrite <- Hx, <- IH. destruct (f x), (mapo f r); reflexivity.
Qed.

Lemma is_some_option_map {A B} (f : A -> B) o : is_some (option_map f o) = is_some o.
Proof. destruct o; reflexivity. Qed.

(* a type unfolds over the aliases declared so far exactly when all its references are declared *)
Lemma eunfold_some_iff done : forall t, is_some (eunfold done t) = refs_below (length done) t.
Proof.
  intro t. induction t as [u|i|u IHu|u lo hi IHu|k v lo hi IHk IHv|ts g lo hi IHts|ms IHms|ts IHts] using ety_ind';
    cbn [eunfold refs_below]; rewrite ?is_some_option_map.
  - reflexivity.
  - destruct (nth_error done i) eqn:E; cbn [is_some]; symmetry.
    + apply Nat.ltb_lt. apply nth_error_Some. congruence.
    + apply Nat.ltb_ge. apply nth_error_None. exact E.
  - exact IHu.
  - exact IHu.
  - rewrite <- IHk, <- IHv. destruct (eunfold done k), (eunfold done v); reflexivity.
  - apply mapo_some_iff. exact IHts.
  - apply mapo_some_iff. eapply Forall_impl; [|exact IHms]. intros [n [k v]] Hv. cbn [snd] in Hv.
    rewrite is_some_option_map. exact Hv.
  - apply mapo_some_iff. exact IHts.
Qed.

Lemma ebuild_some_iff : forall bodies done, is_some (ebuild done bodies) = env_ok_from (length done) bodies.
Proof.
  induction bodies as [|b r IH]; intros done; cbn [ebuild env_ok_from]; [reflexivity|].
  rewrite <- eunfold_some_iff. destruct (eunfold done b) as [x|]; cbn [is_some andb]; [|reflexivity].
  rewrite IH. rewrite app_length. cbn [length]. replace (length done + 1)%nat with (S (length done)) by lia. reflexivity.
Qed.

Lemma ebuild_length : forall bodies done d, ebuild done bodies = Some d -> length d = (length done + length bodies)%nat.
Proof.
  induction bodies as [|b r IH]; intros done d; cbn [ebuild].
  - intros [= <-]. cbn. lia.
  - destruct (eunfold done b) as [x|]; [|discriminate]. intros H. apply IH in H. rewrite app_length in H. cbn in H |- *. lia.
Qed.

(* the boolean conditions are exactly the domain of the unfolding *)
Theorem eresolve_some_iff bodies t :
  is_some (eresolve bodies t) = env_ok bodies && refs_below (length bodies) t.
Proof.
  unfold eresolve, env_ok. pose proof (ebuild_some_iff bodies []) as B. cbn [length] in B. rewrite <- B.
  destruct (ebuild [] bodies) as [d|] eqn:E; cbn [is_some andb]; [|reflexivity].
  rewrite eunfold_some_iff. apply ebuild_length in E. cbn in E. now rewrite E.
Qed.

Theorem eresolve_defined bodies t :
  env_ok bodies = true -> refs_below (length bodies) t = true -> exists x, eresolve bodies t = Some x.
Proof.
  intros H1 H2. pose proof (eresolve_some_iff bodies t) as H. rewrite H1, H2 in H.
  destruct (eresolve bodies t) as [x|]; [eauto|discriminate].
Qed.

Theorem eresolve_defined_iff bodies t :
  (exists x, eresolve bodies t = Some x) <-> env_ok bodies && refs_below (length bodies) t = true.
Proof.
  rewrite <- eresolve_some_iff. destruct (eresolve bodies t) as [x|]; cbn [is_some]; split.
  - reflexivity.
  - eauto.
  - intros [x H]. discriminate.
  - discriminate.
Qed.

(* reference i stands for an alias object whose resolved type is body i written over the EARLIER declarations *)
Lemma ebuild_app : forall bs1 bs2 done, 
  ebuild done (bs1 ++ bs2) = match ebuild done bs1 with Some d => ebuild d bs2 | None => None end.
Proof.
  induction bs1 as [|b r IH]; intros bs2 done; cbn [app ebuild]; [reflexivity|].
  destruct (eunfold done b); [apply IH|reflexivity].
Qed.

Lemma ebuild_prefix : forall bodies done d, ebuild done bodies = Some d -> exists ext, d = done ++ ext.
Proof.
  induction bodies as [|b r IH]; intros done d; cbn [ebuild].
  - intros [= <-]. exists []. now rewrite app_nil_r.
  - destruct (eunfold done b) as [x|]; [|discriminate]. intros H. apply IH in H. destruct H as [ext ->].
    exists (XAlias x :: ext). now rewrite <- app_assoc.
Qed.

Theorem eresolve_ref bodies i b x :
  eresolve bodies (ERef i) = Some x -> nth_error bodies i = Some b ->
  exists r, x = XAlias r /\ eresolve (firstn i bodies) b = Some r.
Proof.
  unfold eresolve. intros H Hb.
  pose proof (nth_error_split bodies i Hb) as (l1 & l2 & Hsplit & Hlen).
  assert (F : firstn i bodies = l1).
  { rewrite Hsplit, <- Hlen. rewrite firstn_app, Nat.sub_diag, firstn_all. cbn. now rewrite app_nil_r. }
  rewrite F. rewrite Hsplit in H. rewrite ebuild_app in H.
  destruct (ebuild [] l1) as [d1|] eqn:E1; [|discriminate].
  cbn [ebuild] in H. destruct (eunfold d1 b) as [r|] eqn:Eb; [|discriminate].
  destruct (ebuild (d1 ++ [XAlias r]) l2) as [d|] eqn:E2; [|discriminate].
  cbn [eunfold] in H. apply ebuild_prefix in E2. destruct E2 as [ext ->].
  apply ebuild_length in E1. cbn in E1.
  rewrite <- app_assoc in H. rewrite nth_error_app2 in H by lia.
  replace (i - length d1)%nat with 0%nat in H by lia. cbn in H. injection H as <-.
  exists r. split; reflexivity.
Qed.

(* the three clauses for every expected type over every alias environment without cycles *)
Section EnvClauses.
  Variable rx : str -> str -> bool.
  Variable teq : ty -> ty -> bool.

  Theorem env_describe_clauses bodies t :
    env_ok bodies = true -> refs_below (length bodies) t = true ->
    exists x, eresolve bodies t = Some x /\
      (forall a p, exists ms, xdescribe rx teq x a p = Ok ms) /\
      (forall a p, xdescribe rx teq x a p = Ok [] <-> asg rx true (xres x) a = true) /\
      (forall a subj p ms, xdescribe rx teq x a (subj :: p) = Ok ms -> Forall (fun m => hd_error (snd m) = Some subj) ms).
  Proof.
    intros H1 H2. destruct (eresolve_defined bodies t H1 H2) as [x E]. exists x. split; [exact E|]. split; [|split].
    - intros a p. apply xdescribe_total.
    - intros a p. apply xdescribe_empty_iff.
    - intros a subj p ms. apply xdescribe_names_subject.
  Qed.
End EnvClauses.
