(* ObjectPrintProofs.v — property C05: the init hash an Object type prints is read back as the same attributes. *)
From Coq Require Import NArith Bool List Permutation.
From PcoreV Require Import Model.Base Model.ObjectPrint.
Import ListNotations.

Section Proofs.
  Variables T V : Type.
  Variable O : oracle T V.
  Hypothesis Hok : oracle_ok O.

  Notation attr := (attr T V).
  Notation aspec := (aspec T V).

  Lemma akind_eqb_eq a b : akind_eqb a b = true <-> a = b.
  Proof. destruct a, b; cbn; split; intro H; try reflexivity; try discriminate. Qed.

  Lemma akind_eqb_refl a : akind_eqb a a = true.
  Proof. destruct a; reflexivity. Qed.

  Ltac split_ifs :=
    repeat match goal with
           | |- context [if ?b then _ else _] => let E := fresh "E" in destruct b eqn:E
           end.

  (* an attribute that is not written in the short constant form: its (compressed) spec is read as the attribute *)
  Lemma new_attribute_attr_spec (a : attr) :
    wf_attr O a ->
    new_attribute O (a_name a) (spec_of O (compress (attr_spec O a))) = OOk a.
  Proof.
    intros (Hov & Hc & Hg & Hn & Hv).
    destruct Hok as (Hteq & Hu & Huu & Hoi).
    destruct a as [n t k v f o]; cbn [a_name a_type a_kind a_value a_final a_override] in *.
    subst o.
    destruct v as [v|].
    - destruct (Hv v eq_refl) as (Hi & Hk). clear Hv Hn.
      destruct k; destruct f; cbn [kind_takes_no_value] in Hk;
        try (destruct (Hc eq_refl) as (Hf & _); try discriminate Hf);
        try (destruct (Hk eq_refl) as (-> & Eopt));
        unfold compress, attr_spec, new_attribute, spec_of, bare_spec;
        cbn [a_name a_type a_kind a_value a_final a_override s_type s_final s_override s_kind s_value
             bool_arg akind_eqb negb andb kind_takes_no_value];
        try rewrite Huu; cbn [andb];
        try (destruct (is_undef O v) eqn:Eu; [try (apply Hu in Eu; subst v)|]);
        (destruct (is_optional O t) eqn:Eopt'; try discriminate);
        cbn [andb s_type s_final s_override s_kind s_value bool_arg akind_eqb negb kind_takes_no_value];
        try rewrite Eopt'; try rewrite Hi; try rewrite (Hg eq_refl); try rewrite (Hoi _ Eopt');
        try rewrite orb_true_r; cbn [andb negb]; try rewrite Eopt'; try reflexivity.
    - specialize (Hn eq_refl). clear Hv.
      destruct k; destruct f;
        try (exfalso; destruct (Hc eq_refl) as (_ & Hne); congruence);
        unfold compress, attr_spec, new_attribute, spec_of, bare_spec;
        cbn [a_name a_type a_kind a_value a_final a_override s_type s_final s_override s_kind s_value
             bool_arg akind_eqb negb andb kind_takes_no_value];
        try rewrite Hn;
        cbn [andb s_type s_final s_override s_kind s_value bool_arg akind_eqb negb kind_takes_no_value];
        try rewrite (Hg eq_refl); try rewrite Hn; cbn [andb negb]; try rewrite Hn; try reflexivity.
  Qed.

  (* a constant written in the short form `constants => {name => value}` is read as the attribute *)
  Definition cval (a : attr) : V := match a_value a with Some v => v | None => undef O end.

  Lemma new_attribute_const_spec (a : attr) :
    wf_attr O a -> is_short O a = true ->
    new_attribute O (a_name a) (const_spec O (cval a)) = OOk a /\ a_value a = Some (cval a).
  Proof.
    intros (Hov & Hc & Hg & Hn & Hv) Hs.
    destruct Hok as (Hteq & _).
    unfold is_short, short_const in Hs.
    destruct (akind_eqb (a_kind a) KConstant) eqn:Ek; [|discriminate].
    apply akind_eqb_eq in Ek.
    destruct (a_value a) as [v|] eqn:Ev; [|discriminate].
    destruct (teq O (a_type a) (gen_type O v)) eqn:Et; [|discriminate].
    apply Hteq in Et.
    destruct (Hc Ek) as (Hf & _). destruct (Hv v eq_refl) as (Hi & _).
    unfold cval. rewrite Ev. split; [|reflexivity].
    destruct a as [n t k v' f o]; cbn [a_name a_type a_kind a_value a_final a_override] in *.
    subst. unfold new_attribute, const_spec.
    cbn [s_type s_final s_override s_kind s_value bool_arg akind_eqb kind_takes_no_value].
    rewrite Hi. reflexivity.
  Qed.

  Definition others (l : list attr) : list attr := filter (fun a => negb (is_short O a)) l.
  Definition consts (l : list attr) : list attr := filter (is_short O) l.

  Definition others_hash (l : list attr) := map (fun a => (a_name a, compress (attr_spec O a))) (others l).
  Definition consts_hash (l : list attr) := map (fun a => (a_name a, cval a)) (consts l).

  Lemma wf_short_const (a : attr) : wf_attr O a -> short_const O a <> None.
  Proof.
    intros (_ & Hc & _) H. unfold short_const in H.
    destruct (akind_eqb (a_kind a) KConstant) eqn:Ek; [|discriminate].
    apply akind_eqb_eq in Ek. destruct (Hc Ek) as (_ & Hne).
    destruct (a_value a); [discriminate|congruence].
  Qed.

  Lemma init_hash_go_spec (l : list attr) : Forall (wf_attr O) l -> forall os cs,
    init_hash_go O l os cs = OOk {| h_attributes := os ++ others_hash l; h_constants := cs ++ consts_hash l |}.
  Proof.
    induction 1 as [|a l Ha Hl IH]; intros os cs.
    - cbn. rewrite !app_nil_r. reflexivity.
    - cbn [init_hash_go]. pose proof (wf_short_const a Ha) as Hne.
      assert (Hfo : others (a :: l) = if is_short O a then others l else a :: others l).
      { unfold others. cbn [filter]. destruct (is_short O a); reflexivity. }
      assert (Hfc : consts (a :: l) = if is_short O a then a :: consts l else consts l).
      { unfold consts. cbn [filter]. reflexivity. }
      unfold others_hash, consts_hash. rewrite Hfo, Hfc.
      destruct (short_const O a) as [[|]|] eqn:Es; [| |congruence].
      + assert (Hsh : is_short O a = true) by (unfold is_short; rewrite Es; reflexivity).
        destruct (new_attribute_const_spec a Ha Hsh) as (_ & Hv). rewrite Hv, Hsh.
        cbn [map]. rewrite IH. unfold others_hash, consts_hash. rewrite <- app_assoc. reflexivity.
      + assert (Hsh : is_short O a = false) by (unfold is_short; rewrite Es; reflexivity).
        rewrite Hsh. cbn [map].
        destruct (a_value a); rewrite IH; unfold others_hash, consts_hash; rewrite <- app_assoc; reflexivity.
  Qed.

  Lemma has_name_false k (acc : list (str * aspec)) :
    ~ In k (map fst acc) -> has_name k acc = false.
  Proof.
    induction acc as [|[k' s] acc IH]; cbn; intro H; [reflexivity|].
    destruct (str_eqb_spec k' k) as [->|Hn]; [exfalso; apply H; left; reflexivity|].
    cbn. apply IH. intro Hin. apply H. right. exact Hin.
  Qed.

  Lemma add_constants_spec (cl : list attr) : forall acc,
    NoDup (map fst acc ++ map (@a_name T V) cl) ->
    add_constants O (map (fun a => (a_name a, cval a)) cl) acc =
    OOk (acc ++ map (fun a => (a_name a, const_spec O (cval a))) cl).
  Proof.
    induction cl as [|a cl IH]; intros acc Hnd.
    - cbn. rewrite app_nil_r. reflexivity.
    - cbn [map add_constants].
      rewrite has_name_false.
      + rewrite IH.
        * rewrite <- app_assoc. reflexivity.
        * rewrite map_app. cbn [map fst]. rewrite <- app_assoc. exact Hnd.
      + cbn [map] in Hnd. apply NoDup_remove_2 in Hnd. intro Hin. apply Hnd. apply in_or_app. left. exact Hin.
  Qed.

  Lemma new_attributes_spec (ps : list (str * aspec)) (l : list attr) :
    Forall2 (fun p a => new_attribute O (fst p) (snd p) = OOk a /\ a_override a = false) ps l ->
    new_attributes O ps = OOk l.
  Proof.
    induction 1 as [|[k s] a ps l (Hn & Ho) _ IH]; [reflexivity|].
    cbn [new_attributes]. cbn [fst snd] in Hn. rewrite Hn, Ho, IH. reflexivity.
  Qed.

  Lemma reorder_perm (l : list attr) : Permutation l (reorder O l).
  Proof.
    unfold reorder. induction l as [|a l IH]; [constructor|].
    cbn [filter]. destruct (is_short O a); cbn [negb].
    - apply Permutation_cons_app. exact IH.
    - cbn. constructor. exact IH.
  Qed.

  Theorem init_hash_round_trip (l : list attr) :
    Forall (wf_attr O) l -> NoDup (map (@a_name T V) l) ->
    exists h, init_hash O l = OOk h /\ init_from_hash O h = OOk (reorder O l).
  Proof.
    intros Hwf Hnd.
    eexists. split.
    - unfold init_hash. rewrite (init_hash_go_spec l Hwf). cbn [app]. reflexivity.
    - unfold init_from_hash. cbn [h_attributes h_constants].
      unfold consts_hash. rewrite add_constants_spec.
      + apply new_attributes_spec. unfold reorder, others_hash. rewrite map_map. cbn [fst snd].
        apply Forall2_app.
        * fold (others l). assert (Ho : Forall (wf_attr O) (others l)).
          { unfold others. rewrite Forall_forall in *. intros a Ha. apply filter_In in Ha. apply Hwf, Ha. }
          induction Ho as [|a r Ha _ IH]; [constructor|].
          cbn [map]. constructor; [|exact IH]. cbn [fst snd]. split.
          -- apply new_attribute_attr_spec. exact Ha.
          -- apply Ha.
        * fold (consts l). assert (Ho : Forall (fun a => wf_attr O a /\ is_short O a = true) (consts l)).
          { unfold consts. rewrite Forall_forall in *. intros a Ha. apply filter_In in Ha. split; [apply Hwf|]; apply Ha. }
          induction Ho as [|a r (Ha & Hs) _ IH]; [constructor|].
          cbn [map]. constructor; [|exact IH]. cbn [fst snd]. split.
          -- apply (new_attribute_const_spec a Ha Hs).
          -- apply Ha.
      + unfold others_hash. rewrite !map_map. cbn [fst].
        rewrite <- map_app. apply (Permutation_NoDup (l := map (@a_name T V) l)); [|exact Hnd].
        apply Permutation_map. apply reorder_perm.
  Qed.

  (* the attributes as read back print the same init hash: a fixed point *)
  Lemma filter_filter_same {A} (f : A -> bool) (l : list A) : filter f (filter f l) = filter f l.
  Proof. induction l as [|x l IH]; [reflexivity|]. cbn. destruct (f x) eqn:E; cbn; rewrite ?E, IH; reflexivity. Qed.

  Lemma filter_filter_neg {A} (f : A -> bool) (l : list A) : filter f (filter (fun x => negb (f x)) l) = [].
  Proof. induction l as [|x l IH]; [reflexivity|]. cbn. destruct (f x) eqn:E; cbn; rewrite ?E, IH; reflexivity. Qed.

  Lemma filter_neg_filter {A} (f : A -> bool) (l : list A) : filter (fun x => negb (f x)) (filter f l) = [].
  Proof. induction l as [|x l IH]; [reflexivity|]. cbn. destruct (f x) eqn:E; cbn; rewrite ?E, ?IH; reflexivity. Qed.

  Lemma reorder_idempotent (l : list attr) : reorder O (reorder O l) = reorder O l.
  Proof.
    unfold reorder. rewrite !filter_app.
    rewrite (filter_filter_same (fun a => negb (is_short O a))), filter_neg_filter, filter_filter_neg, filter_filter_same.
    rewrite app_nil_r. reflexivity.
  Qed.

  Theorem init_hash_reorder (l : list attr) :
    Forall (wf_attr O) l -> init_hash O (reorder O l) = init_hash O l.
  Proof.
    intro Hwf.
    assert (Hwf' : Forall (wf_attr O) (reorder O l)).
    { rewrite Forall_forall in *. intros a Ha. apply Hwf. apply (Permutation_in _ (Permutation_sym (reorder_perm l)) Ha). }
    unfold init_hash. rewrite (init_hash_go_spec _ Hwf'), (init_hash_go_spec _ Hwf).
    unfold others_hash, consts_hash, others, consts.
    pose proof (reorder_idempotent l) as Hid. unfold reorder in Hid at 1.
    unfold reorder at 1 2. rewrite !filter_app.
    rewrite (filter_filter_same (fun a => negb (is_short O a))), filter_neg_filter, filter_filter_neg, filter_filter_same.
    rewrite app_nil_r. reflexivity.
  Qed.

End Proofs.
