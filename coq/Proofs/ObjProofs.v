(* ObjProofs.v — lemmas about the model of Object types (Model/Obj.v) for property C17.
   Part 1: decidable equalities reflect Leibniz equality; the parent chain (instance-of). *)
From Coq Require Import ZArith NArith Bool List Lia Arith.
From PcoreV Require Import Model.Base Model.Obj.
Import ListNotations.
Open Scope Z_scope.

Local Arguments Nat.ltb : simpl never.
Local Arguments Nat.leb : simpl never.

(* ---------------------------------------------------------------------------------------------- *)
(* reflection of the boolean equalities *)

Lemma ty_eqb_eq a b : ty_eqb a b = true <-> a = b.
Proof.
  revert b; induction a as [lo hi| | |a IH|a IH| | |a IH| |k r vt IHv rest IHr|n|n];
    intros [lo' hi'| | |b|b| | |b| |k' r' vt' rest'|m|m]; cbn [ty_eqb];
    split; intros H; try discriminate; try reflexivity.
  - apply andb_true_iff in H as [H1 H2]. apply Z.eqb_eq in H1, H2. congruence.
  - inversion H; subst. now rewrite !Z.eqb_refl.
  - apply IH in H. congruence.
  - inversion H; subst. now apply IH.
  - apply IH in H. congruence.
  - inversion H; subst. now apply IH.
  - apply IH in H. congruence.
  - inversion H; subst. now apply IH.
  - apply andb_true_iff in H as [H H4]. apply andb_true_iff in H as [H H3]. apply andb_true_iff in H as [H1 H2].
    apply str_eqb_eq in H1. apply Bool.eqb_prop in H2. apply IHv in H3. apply IHr in H4. congruence.
  - inversion H; subst. rewrite str_eqb_refl, eqb_reflx. cbn [andb].
    rewrite (proj2 (IHv vt') eq_refl), (proj2 (IHr rest') eq_refl). reflexivity.
  - apply str_eqb_eq in H. congruence.
  - inversion H; subst. apply str_eqb_refl.
  - apply str_eqb_eq in H. congruence.
  - inversion H; subst. apply str_eqb_refl.
Qed.

Lemma ty_eqb_refl a : ty_eqb a a = true.
Proof. now apply ty_eqb_eq. Qed.

(* ---------------------------------------------------------------------------------------------- *)
(* typeAndInit: on the fragment the type a named argument is checked against is the declared type - in particular a
   Struct member keeps its key, so a member that may be left out positionally may be left out by name *)

Lemma type_and_init_id t : type_and_init t = t.
Proof.
  induction t as [lo hi| | |a IH|a IH| | |a IH| |k r vt IHv rest IHr|n|n]; cbn [type_and_init]; congruence.
Qed.

Lemma inst_type_and_init t v : inst (type_and_init t) v = inst t v.
Proof. now rewrite type_and_init_id. Qed.

Lemma struct_elems_type_and_init t : struct_elems (type_and_init t) = struct_elems t.
Proof. now rewrite type_and_init_id. Qed.

(* which members of a Struct may be left out is not changed by typeAndInit (stated without using that it is the identity:
   this is the fact a change of the key derivation breaks) *)
Lemma struct_reqs_type_and_init t : struct_reqs (type_and_init t) = struct_reqs t.
Proof.
  induction t as [lo hi| | |a IH|a IH| | |a IH| |k r vt IHv rest IHr|n|n]; try reflexivity.
  cbn [type_and_init struct_reqs]. f_equal. exact IHr.
Qed.

(* the Struct type shown by the signature of the named constructor is the one the dispatch tests with *)
Lemma init_type_elems info : struct_elems (init_type info) = init_struct info.
Proof.
  unfold init_type, init_struct. induction (ai_attrs info) as [|a r IH]; [reflexivity|].
  cbn [fold_right map struct_elems]. now rewrite IH.
Qed.

Lemma init_type_inst info v : inst (init_type info) v = struct_inst (init_struct info) v.
Proof.
  rewrite <- init_type_elems. unfold init_type. destruct (ai_attrs info) as [|a r]; reflexivity.
Qed.

Lemma init_struct_plain info :
  init_struct info = map (fun a => (a_name a, negb (is_opt_attr a), inst (a_type a))) (ai_attrs info).
Proof. unfold init_struct. apply map_ext. intros a. now rewrite type_and_init_id. Qed.

(* induction principle for the nested type `value` *)
Section ValueInd.
  Variable P : value -> Prop.
  Hypothesis HUndef : P VUndef.
  Hypothesis HDefault : P VDefault.
  Hypothesis HBool : forall b, P (VBool b).
  Hypothesis HInt : forall z, P (VInt z).
  Hypothesis HStr : forall s, P (VStr s).
  Hypothesis HTyStr : forall t, P (VTyStr t).
  Hypothesis HType : forall t, P (VType t).
  Hypothesis HArr : forall l, Forall P l -> P (VArr l).
  Hypothesis HHash : forall l, Forall (fun kv => P (snd kv)) l -> P (VHash l).

  Fixpoint value_ind' (v : value) : P v :=
    match v with
    | VUndef => HUndef
    | VDefault => HDefault
    | VBool b => HBool b
    | VInt z => HInt z
    | VStr s => HStr s
    | VTyStr t => HTyStr t
    | VType t => HType t
    | VArr l => HArr l ((fix go (l : list value) : Forall P l :=
                           match l with
                           | [] => Forall_nil _
                           | x :: r => Forall_cons x (value_ind' x) (go r)
                           end) l)
    | VHash l => HHash l ((fix go (l : list (str * value)) : Forall (fun kv => P (snd kv)) l :=
                             match l with
                             | [] => Forall_nil _
                             | x :: r => Forall_cons x (value_ind' (snd x)) (go r)
                             end) l)
    end.
End ValueInd.

Lemma value_eqb_eq a b : value_eqb a b = true <-> a = b.
Proof.
  revert b; induction a as [| |x|x|x|x|x|l IH|l IH] using value_ind'; intros b;
    destruct b as [| |y|y|y|y|y|l'|l']; cbn [value_eqb]; split; intros H; try discriminate; try reflexivity.
  - apply eqb_prop in H. congruence.
  - inversion H; subst. apply eqb_reflx.
  - apply Z.eqb_eq in H. congruence.
  - inversion H; subst. apply Z.eqb_refl.
  - apply str_eqb_eq in H. congruence.
  - inversion H; subst. apply str_eqb_refl.
  - apply ty_eqb_eq in H. congruence.
  - inversion H; subst. apply ty_eqb_refl.
  - apply ty_eqb_eq in H. congruence.
  - inversion H; subst. apply ty_eqb_refl.
  - f_equal. revert l' H. induction IH as [|x l Hx _ IHl]; intros [|y l'] H; try discriminate; try reflexivity.
    apply andb_true_iff in H as [H1 H2]. apply Hx in H1. apply IHl in H2. congruence.
  - inversion H; subst l'. clear H. induction IH as [|x l Hx _ IHl]; [reflexivity|].
    apply andb_true_iff; split; [now apply Hx | exact IHl].
  - f_equal. revert l' H. induction IH as [|[k x] l Hx _ IHl]; intros [|[k' y] l'] H; try discriminate; try reflexivity.
    apply andb_true_iff in H as [H1 H2]. apply andb_true_iff in H1 as [H0 H1].
    apply str_eqb_eq in H0. cbn [snd] in Hx. apply Hx in H1. apply IHl in H2. congruence.
  - inversion H; subst l'. clear H. induction IH as [|[k x] l Hx _ IHl]; [reflexivity|].
    cbn [snd] in Hx. rewrite str_eqb_refl. cbn [andb]. apply andb_true_iff; split; [now apply Hx | exact IHl].
Qed.

Lemma value_eqb_refl a : value_eqb a a = true.
Proof. now apply value_eqb_eq. Qed.

Lemma value_eqb_sym a b : value_eqb a b = value_eqb b a.
Proof.
  destruct (value_eqb a b) eqn:E.
  - apply value_eqb_eq in E; subst. symmetry. apply value_eqb_refl.
  - destruct (value_eqb b a) eqn:E2; [|reflexivity]. apply value_eqb_eq in E2; subst.
    rewrite value_eqb_refl in E. discriminate.
Qed.

Lemma opt_value_eqb_eq a b : opt_value_eqb a b = true <-> a = b.
Proof.
  destruct a as [x|], b as [y|]; cbn; split; intros H; try discriminate; try reflexivity.
  - apply value_eqb_eq in H. congruence.
  - inversion H. apply value_eqb_refl.
Qed.

Lemma kind_eqb_eq a b : kind_eqb a b = true <-> a = b.
Proof. destruct a, b; cbn; split; intros H; try discriminate; reflexivity. Qed.

Lemma kind_eqb_refl a : kind_eqb a a = true.
Proof. now destruct a. Qed.

Lemma str_eqb_sym a b : str_eqb a b = str_eqb b a.
Proof.
  destruct (str_eqb_spec a b) as [->|Hn]; [now rewrite str_eqb_refl|].
  symmetry. apply str_eqb_neq. congruence.
Qed.

Lemma str_eqb_list_refl l : str_eqb_list l l = true.
Proof. induction l as [|x l IH]; cbn; [reflexivity|]. now rewrite str_eqb_refl, IH. Qed.

Lemma attr_eqb_refl a : attr_eqb a a = true.
Proof.
  unfold attr_eqb. now rewrite kind_eqb_refl, !eqb_reflx, str_eqb_refl, ty_eqb_refl.
Qed.

Lemma list_eqb_refl {A} (f : A -> A -> bool) l : (forall x, f x x = true) -> list_eqb f l l = true.
Proof. intros Hf. induction l as [|x l IH]; cbn; [reflexivity|]. now rewrite Hf, IH. Qed.

Lemma option_eqb_refl {A} (f : A -> A -> bool) o : (forall x, f x x = true) -> option_eqb f o o = true.
Proof. intros Hf. destruct o; cbn; auto. Qed.

(* ---------------------------------------------------------------------------------------------- *)
(* objectType.Equals is reflexive; types of different inheritance depth are never equal *)

Fixpoint depth (d : objdef) : nat :=
  match d with
  | mkDef _ p _ _ _ _ _ => match p with Some q => S (depth q) | None => O end
  end.

(* induction along the parent chain *)
Section DefInd.
  Variable P : objdef -> Prop.
  Hypothesis HRoot : forall n own eq it se info, P (mkDef n None own eq it se info).
  Hypothesis HSub : forall n q own eq it se info, P q -> P (mkDef n (Some q) own eq it se info).
  Fixpoint objdef_ind' (d : objdef) : P d :=
    match d with
    | mkDef n None own eq it se info => HRoot n own eq it se info
    | mkDef n (Some q) own eq it se info => HSub n q own eq it se info (objdef_ind' q)
    end.
End DefInd.

Lemma def_eqb_refl d : def_eqb d d = true.
Proof.
  induction d as [n own eq it se info|n q own eq it se info IH] using objdef_ind';
    cbn [def_eqb]; rewrite str_eqb_refl, eqb_reflx; cbn [andb];
    rewrite (list_eqb_refl attr_eqb own attr_eqb_refl);
    rewrite !(option_eqb_refl str_eqb_list _ str_eqb_list_refl); [reflexivity|].
  now rewrite IH.
Qed.

Lemma def_eqb_depth a b : def_eqb a b = true -> depth a = depth b.
Proof.
  revert b. induction a as [n own eq it se info|n q own eq it se info IH] using objdef_ind';
    intros [n' [q'|] own' eq' it' se' info'] H; cbn [def_eqb depth] in *;
    repeat (apply andb_true_iff in H as [H ?]); try discriminate; try reflexivity.
  f_equal. now apply IH.
Qed.

(* ---------------------------------------------------------------------------------------------- *)
(* instance-of along the parent chain (objecttype.go IsAssignable / IsInstance) *)

Lemma ancestors_self d : In d (ancestors d).
Proof. destruct d; cbn; auto. Qed.

Lemma ancestors_depth d a : In a (ancestors d) -> (depth a <= depth d)%nat.
Proof.
  induction d as [n own eq it se info|n q own eq it se info IH] using objdef_ind'; cbn [ancestors depth In];
    intros [<-|H]; cbn [depth]; try lia; try contradiction.
  apply IH in H. lia.
Qed.

(* an instance of a type is an instance of the type itself and of every ancestor *)
Lemma is_assignable_ancestor d a : In a (ancestors d) -> is_assignable a d = true.
Proof.
  induction d as [n own eq it se info|n q own eq it se info IH] using objdef_ind'; cbn [ancestors In];
    intros [<-|H]; try contradiction.
  - cbn [is_assignable]. now rewrite def_eqb_refl.
  - cbn [is_assignable]. now rewrite def_eqb_refl.
  - cbn [is_assignable]. rewrite (IH H). apply orb_true_r.
Qed.

(* a type never accepts a type of smaller inheritance depth: in particular never an instance of one of
   its proper ancestors *)
Lemma is_assignable_shallower t d : (depth d < depth t)%nat -> is_assignable t d = false.
Proof.
  induction d as [n own eq it se info|n q own eq it se info IH] using objdef_ind'; intros Hd.
  - cbn [is_assignable]. rewrite orb_false_r.
    destruct (def_eqb t _) eqn:E; [|reflexivity]. apply def_eqb_depth in E. lia.
  - cbn [is_assignable]. cbn [depth] in Hd. rewrite IH by lia. rewrite orb_false_r.
    destruct (def_eqb t _) eqn:E; [|reflexivity]. apply def_eqb_depth in E. cbn [depth] in E. lia.
Qed.

Lemma proper_ancestor_depth d p a : d_parent d = Some p -> In a (ancestors p) -> (depth a < depth d)%nat.
Proof.
  intros Hp Ha. apply ancestors_depth in Ha. destruct d as [n [q|] own eq it se info]; cbn in Hp; [|discriminate].
  inversion Hp; subst. cbn [depth]. lia.
Qed.

Lemma sub_instance_of_ancestors o a :
  In a (ancestors (o_type o)) -> instance_of a o = true.
Proof. unfold instance_of. apply is_assignable_ancestor. Qed.

Lemma never_the_reverse d p a o :
  d_parent d = Some p -> In a (ancestors p) -> o_type o = a -> instance_of d o = false.
Proof.
  intros Hp Ha <-. unfold instance_of. apply is_assignable_shallower. eapply proper_ancestor_depth; eauto.
Qed.

(* ============================================================================================== *)
(* Part 2: the attributes info (layout) — name lookup, Get, the two constructors, InitHash, Equals *)

Lemma mem_str_In n l : mem_str n l = true <-> In n l.
Proof.
  induction l as [|x l IH]; cbn [mem_str In]; [split; [discriminate|tauto]|].
  rewrite orb_true_iff, IH, str_eqb_eq. tauto.
Qed.

Lemma mem_str_notIn n l : mem_str n l = false <-> ~ In n l.
Proof.
  rewrite <- mem_str_In. destruct (mem_str n l); split; intros H; try congruence; try discriminate.
Qed.

Lemma nodup_str_NoDup l : nodup_str l = true <-> NoDup l.
Proof.
  induction l as [|x l IH]; cbn [nodup_str]; [split; [constructor|reflexivity]|].
  rewrite andb_true_iff, negb_true_iff, mem_str_notIn, IH. split.
  - intros [H1 H2]. now constructor.
  - intros H. inversion H; subst. tauto.
Qed.

Lemma nth_error_ext {A} (l l' : list A) : (forall i, nth_error l i = nth_error l' i) -> l = l'.
Proof.
  revert l'; induction l as [|x l IH]; intros [|y l'] H; try reflexivity.
  - specialize (H O). discriminate.
  - specialize (H O). discriminate.
  - f_equal; [specialize (H O); cbn in H; congruence|]. apply IH. intros i. exact (H (S i)).
Qed.

Lemma nth_error_firstn' {A} (l : list A) k i :
  nth_error (firstn k l) i = if Nat.ltb i k then nth_error l i else None.
Proof.
  revert k i; induction l as [|x l IH]; intros k i.
  - rewrite firstn_nil. destruct i; cbn; now destruct (Nat.ltb _ _).
  - destruct k as [|k]; cbn [firstn].
    + destruct i; reflexivity.
    + destruct i as [|i]; cbn [nth_error]; [reflexivity|]. rewrite IH.
      change (Nat.ltb (S i) (S k)) with (Nat.leb (S (S i)) (S k)). change (Nat.ltb i k) with (Nat.leb (S i) k).
      reflexivity.
Qed.

(* ---- nameToPos ---- *)

Lemma ntp_none l n i : mem_str n (map a_name l) = false -> name_to_pos_from l n i = None.
Proof.
  revert i; induction l as [|x r IH]; intros i H; cbn [name_to_pos_from]; [reflexivity|].
  cbn [map mem_str] in H. apply orb_false_iff in H as [H1 H2]. now rewrite IH, H1.
Qed.

Lemma ntp_nth l : nodup_str (map a_name l) = true ->
  forall k a i, nth_error l k = Some a -> name_to_pos_from l (a_name a) i = Some (i + k)%nat.
Proof.
  induction l as [|x r IH]; intros Hnd k a i Hk; [destruct k; discriminate|].
  cbn [map nodup_str] in Hnd. apply andb_true_iff in Hnd as [Hx Hr]. apply negb_true_iff in Hx.
  destruct k as [|k]; cbn [nth_error] in Hk.
  - inversion Hk; subst a. cbn [name_to_pos_from]. rewrite ntp_none by assumption.
    rewrite str_eqb_refl. f_equal; lia.
  - cbn [name_to_pos_from]. rewrite (IH Hr k a (S i) Hk). f_equal; lia.
Qed.

Lemma ntp_sound l n i j : name_to_pos_from l n i = Some j ->
  exists a, (i <= j)%nat /\ nth_error l (j - i) = Some a /\ a_name a = n.
Proof.
  revert i; induction l as [|x r IH]; intros i H; cbn [name_to_pos_from] in H; [discriminate|].
  destruct (name_to_pos_from r n (S i)) eqn:E.
  - inversion H; subst. apply IH in E as (a' & Hle & Hn & Hname). exists a'. split; [lia|]. split; [|assumption].
    replace (j - i)%nat with (S (j - S i)) by lia. exact Hn.
  - destruct (str_eqb (a_name x) n) eqn:En; [|discriminate]. inversion H; subst. exists x.
    rewrite Nat.sub_diag. split; [lia|]. split; [reflexivity|]. now apply str_eqb_eq.
Qed.

Lemma ntp_none_inv l n i : name_to_pos_from l n i = None -> mem_str n (map a_name l) = false.
Proof.
  revert i; induction l as [|x r IH]; intros i H; cbn [name_to_pos_from] in H; [reflexivity|].
  destruct (name_to_pos_from r n (S i)) eqn:E; [discriminate|].
  destruct (str_eqb (a_name x) n) eqn:En; [discriminate|]. cbn [map mem_str]. now rewrite En, (IH _ E).
Qed.

Lemma name_to_pos_nth l k a : nodup_str (map a_name l) = true -> nth_error l k = Some a ->
  name_to_pos l (a_name a) = Some k.
Proof. intros Hnd Hk. unfold name_to_pos. now rewrite (ntp_nth l Hnd k a O Hk). Qed.

Lemma name_to_pos_sound l n j : name_to_pos l n = Some j -> exists a, nth_error l j = Some a /\ a_name a = n.
Proof.
  intros H. apply ntp_sound in H as (a & _ & Hn & Hname). rewrite Nat.sub_0_r in Hn. eauto.
Qed.

Lemma name_to_pos_lt l n j : name_to_pos l n = Some j -> (j < length l)%nat.
Proof. intros H. apply name_to_pos_sound in H as (a & Hn & _). apply nth_error_Some. congruence. Qed.

Lemma dedup_id l seen : nodup_str l = true -> (forall x, In x l -> mem_str x seen = false) -> dedup l seen = l.
Proof.
  revert seen; induction l as [|x r IH]; intros seen Hnd Hs; cbn [dedup]; [reflexivity|].
  cbn [nodup_str] in Hnd. apply andb_true_iff in Hnd as [Hx Hr]. apply negb_true_iff in Hx.
  rewrite (Hs x (or_introl eq_refl)). f_equal. apply IH; [assumption|]. intros y Hy. cbn [mem_str].
  rewrite (Hs y (or_intror Hy)), orb_false_r. apply str_eqb_neq. intros ->.
  apply mem_str_notIn in Hx. contradiction.
Qed.

Lemma distinct_names_nodup l : nodup_str (map a_name l) = true -> distinct_names l = length l.
Proof.
  intros H. unfold distinct_names. rewrite dedup_id; [apply map_length|assumption|reflexivity].
Qed.

(* ---- defaults ---- *)

(* the value an attribute contributes when none is given (fillValueSlice objectvalue.go:103, the trailing
   positions of Get :119): undef for a given_or_derived attribute — whether or not it carries the implicit
   value of an Optional type —, the declared value otherwise *)
Definition eff_value (a : attr) : option value :=
  if kind_eqb (a_kind a) KGivenOrDerived then Some VUndef else a_value a.

Definition default_of (a : attr) : value := match eff_value a with Some v => v | None => VUndef end.

(* the value an object holds for position i: stored, or (trailing positions) the attribute's value *)
Definition lval (attrs : list attr) (vals : list value) (i : nat) : option value :=
  match nth_error vals i with
  | Some v => Some v
  | None => match nth_error attrs i with Some a => eff_value a | None => None end
  end.

Lemma is_opt_eff a : is_opt_attr a = match eff_value a with Some _ => true | None => false end.
Proof.
  unfold is_opt_attr, eff_value, has_value. destruct (kind_eqb (a_kind a) KGivenOrDerived); [reflexivity|].
  now destruct (a_value a).
Qed.

Lemma is_opt_false_eff a : is_opt_attr a = false <-> eff_value a = None.
Proof. rewrite is_opt_eff. destruct (eff_value a); split; intros H; congruence. Qed.

Lemma is_opt_true_eff a : is_opt_attr a = true <-> eff_value a <> None.
Proof. rewrite is_opt_eff. destruct (eff_value a); split; intros H; congruence. Qed.

Lemma default_of_god a : kind_eqb (a_kind a) KGivenOrDerived = true -> default_of a = VUndef.
Proof. intros H. unfold default_of, eff_value. now rewrite H. Qed.

(* attribute.Default(v) implies that v is the value the attribute contributes *)
Lemma is_default_eff a v : attr_wf a = true -> is_default a v = true -> eff_value a = Some v.
Proof.
  unfold attr_wf, is_default, eff_value. intros H Hd. apply andb_true_iff in H as [H _].
  destruct (a_value a) as [d|]; [|discriminate]. apply value_eqb_eq in Hd. subst d.
  destruct (kind_eqb (a_kind a) KGivenOrDerived); [|reflexivity]. cbn [negb orb] in H.
  apply value_eqb_eq in H. now subst.
Qed.

Lemma attr_wf_constant a : attr_wf a = true -> a_kind a = KConstant -> exists v, a_value a = Some v.
Proof.
  unfold attr_wf. intros H Hk. apply andb_true_iff in H as [_ H]. rewrite Hk in H. cbn in H. unfold has_value in H.
  destruct (a_value a); [eauto|discriminate].
Qed.

Lemma fill_default a :
  (if kind_eqb (a_kind a) KGivenOrDerived then Ok VUndef
   else match a_value a with Some d => Ok d | None => Err EMissingRequiredAttribute end)
  = match eff_value a with Some d => Ok d | None => Err EMissingRequiredAttribute end.
Proof. unfold eff_value. now destruct (kind_eqb (a_kind a) KGivenOrDerived). Qed.

(* ---- Get ---- *)

Lemma get_nth d vals i a :
  nodup_str (map a_name (ai_attrs (d_info d))) = true ->
  nth_error (ai_attrs (d_info d)) i = Some a ->
  get (mkObj d vals) (a_name a) =
  match lval (ai_attrs (d_info d)) vals i with Some v => Ok (Some v) | None => Err EAttributeHasNoValue end.
Proof.
  intros Hnd Hi. unfold get, lval. cbn [o_type o_vals]. rewrite (name_to_pos_nth _ i a Hnd Hi), Hi.
  destruct (nth_error vals i); [reflexivity|]. unfold eff_value.
  destruct (kind_eqb (a_kind a) KGivenOrDerived); reflexivity.
Qed.

Lemma get_unknown d vals n :
  mem_str n (map a_name (ai_attrs (d_info d))) = false -> get (mkObj d vals) n = Ok None.
Proof. intros H. unfold get, name_to_pos. cbn [o_type]. now rewrite ntp_none. Qed.

(* ---- hashes (association lists; a pcore Hash has unique keys) ---- *)

Fixpoint hget_last (h : list (str * value)) (k : str) : option value :=
  match h with
  | [] => None
  | (k', v) :: r => match hget_last r k with Some w => Some w | None => if str_eqb k' k then Some v else None end
  end.

Lemma hget_none h k : ~ In k (map fst h) -> hget h k = None.
Proof.
  induction h as [|[k' v] r IH]; intros H; cbn [hget]; [reflexivity|]. cbn [map fst In] in H.
  destruct (str_eqb k' k) eqn:E; [apply str_eqb_eq in E; tauto|]. apply IH. tauto.
Qed.

Lemma hget_In h k v : hget h k = Some v -> In (k, v) h.
Proof.
  induction h as [|[k' w] r IH]; cbn [hget]; [discriminate|]. destruct (str_eqb k' k) eqn:E.
  - apply str_eqb_eq in E. intros H; inversion H; subst. now left.
  - intros H. right. now apply IH.
Qed.

Lemma hget_of_In h k v : NoDup (map fst h) -> In (k, v) h -> hget h k = Some v.
Proof.
  induction h as [|[k' w] r IH]; intros Hnd Hin; [contradiction|]. cbn [map fst] in Hnd. inversion Hnd; subst.
  cbn [hget]. destruct Hin as [E|Hin].
  - inversion E; subst. now rewrite str_eqb_refl.
  - destruct (str_eqb k' k) eqn:E; [|now apply IH]. apply str_eqb_eq in E; subst k'.
    exfalso. apply H1. change k with (fst (k, v)). now apply in_map.
Qed.

Lemma hget_some_key h k v : hget h k = Some v -> In k (map fst h).
Proof. intros H. apply hget_In in H. change k with (fst (k, v)). now apply in_map. Qed.

Lemma hget_last_nodup h k : NoDup (map fst h) -> hget_last h k = hget h k.
Proof.
  induction h as [|[k' v] r IH]; intros Hnd; cbn [hget_last hget]; [reflexivity|].
  cbn [map fst] in Hnd. inversion Hnd; subst. rewrite IH by assumption.
  destruct (str_eqb k' k) eqn:E; [|now destruct (hget r k)].
  apply str_eqb_eq in E; subst k'. now rewrite hget_none.
Qed.

(* ---- PositionalFromHash: slots, defaults, trimming ---- *)

Lemma set_slot_some slots i v : (i < length slots)%nat ->
  exists s', set_slot slots i v = Some s' /\ length s' = length slots /\
             forall j, nth_error s' j = if Nat.eqb j i then Some (Some v) else nth_error slots j.
Proof.
  revert i; induction slots as [|s r IH]; intros i Hi; cbn [length] in Hi; [lia|].
  destruct i as [|i]; cbn [set_slot].
  - eexists; split; [reflexivity|]. split; [reflexivity|]. intros [|j]; reflexivity.
  - destruct (IH i) as (s' & E & Hl & Hn); [lia|]. rewrite E. cbn [option_map].
    eexists; split; [reflexivity|]. split; [cbn [length]; lia|]. intros [|j]; cbn [nth_error Nat.eqb]; [reflexivity|apply Hn].
Qed.

Lemma place_all_spec attrs : nodup_str (map a_name attrs) = true ->
  forall h slots, length slots = length attrs ->
  exists slots', place_all h attrs slots = Ok slots' /\ length slots' = length attrs /\
    forall i a, nth_error attrs i = Some a ->
      nth_error slots' i = match hget_last h (a_name a) with Some v => Some (Some v) | None => nth_error slots i end.
Proof.
  intros Hnd. induction h as [|[k v] r IH]; intros slots Hlen; cbn [place_all].
  - exists slots. split; [reflexivity|]. split; [assumption|]. intros i a _. reflexivity.
  - destruct (name_to_pos attrs k) as [ix|] eqn:E.
    + pose proof (name_to_pos_lt _ _ _ E) as Hlt.
      destruct (set_slot_some slots ix v) as (s' & Es & Hl & Hn); [lia|]. rewrite Es.
      destruct (IH s') as (s'' & E2 & Hl2 & Hn2); [lia|]. exists s''. split; [exact E2|]. split; [exact Hl2|].
      intros i a Hi. rewrite (Hn2 i a Hi). cbn [hget_last]. destruct (hget_last r (a_name a)); [reflexivity|].
      rewrite Hn. destruct (str_eqb k (a_name a)) eqn:Ek.
      * apply str_eqb_eq in Ek; subst k. rewrite (name_to_pos_nth attrs i a Hnd Hi) in E. inversion E; subst.
        now rewrite Nat.eqb_refl.
      * destruct (Nat.eqb i ix) eqn:Ei; [|reflexivity]. apply Nat.eqb_eq in Ei; subst ix.
        apply name_to_pos_sound in E as (a' & Ha' & Hname). rewrite Hi in Ha'. inversion Ha'; subst a'.
        rewrite Hname, str_eqb_refl in Ek. discriminate.
    + destruct (IH slots Hlen) as (s'' & E2 & Hl2 & Hn2). exists s''. split; [exact E2|]. split; [exact Hl2|].
      intros i a Hi. rewrite (Hn2 i a Hi). cbn [hget_last]. destruct (hget_last r (a_name a)); [reflexivity|].
      destruct (str_eqb k (a_name a)) eqn:Ek; [|reflexivity]. apply str_eqb_eq in Ek; subst k.
      rewrite (name_to_pos_nth attrs i a Hnd Hi) in E. discriminate.
Qed.

Lemma nth_error_repeat' {A} (x : A) n i : (i < n)%nat -> nth_error (repeat x n) i = Some x.
Proof. revert i; induction n as [|n IH]; intros i Hi; [lia|]. destruct i; cbn; [reflexivity|]. apply IH. lia. Qed.

Lemma place_all_fresh attrs h : nodup_str (map a_name attrs) = true ->
  place_all h attrs (repeat None (length attrs)) = Ok (map (fun a => hget_last h (a_name a)) attrs).
Proof.
  intros Hnd. destruct (place_all_spec attrs Hnd h (repeat None (length attrs))) as (s & E & Hl & Hn);
    [apply repeat_length|]. rewrite E. f_equal. apply nth_error_ext. intros i.
  destruct (nth_error attrs i) as [a|] eqn:Hi.
  - rewrite (Hn i a Hi), (map_nth_error _ _ _ Hi).
    rewrite nth_error_repeat' by (apply nth_error_Some; congruence). now destruct (hget_last h (a_name a)).
  - apply nth_error_None in Hi. transitivity (@None (option value)); [|symmetry]; apply nth_error_None;
      [|rewrite map_length]; lia.
Qed.

Lemma fill_slots_spec attrs (f : attr -> option value) :
  (forall a, In a attrs -> f a = None -> eff_value a <> None) ->
  fill_slots (map f attrs) attrs = Ok (map (fun a => match f a with Some v => v | None => default_of a end) attrs).
Proof.
  induction attrs as [|a r IH]; intros Hreq; cbn [map fill_slots]; [reflexivity|].
  rewrite IH; [|intros b Hb; apply Hreq; now right]. rewrite (fill_default a).
  destruct (f a) as [v|] eqn:Ef; cbn [bind]; [reflexivity|].
  unfold default_of. destruct (eff_value a) as [d|] eqn:Ed; cbn [bind]; [reflexivity|].
  exfalso. apply (Hreq a (or_introl eq_refl) Ef Ed).
Qed.

Lemma trim_spec : forall va attrs req, length va = length attrs ->
  exists k, trim_defaults (rev va) (rev attrs) (length va) req = firstn k va /\ (k <= length va)%nat /\
            (Nat.min req (length va) <= k)%nat /\
            forall i a v, (k <= i)%nat -> nth_error attrs i = Some a -> nth_error va i = Some v -> is_default a v = true.
Proof.
  induction va as [|v va IH] using rev_ind; intros attrs req Hlen.
  - destruct attrs; [|discriminate]. exists O. cbn. repeat split; try lia. intros i a v _ H; destruct i; discriminate.
  - destruct (exists_last (l := attrs)) as (attrs' & a & ->).
    { intros ->. rewrite app_length in Hlen. cbn in Hlen. lia. }
    rewrite !app_length in Hlen. cbn [length] in Hlen. assert (Hlen' : length va = length attrs') by lia.
    rewrite !rev_app_distr. cbn [rev app]. rewrite app_length. cbn [length]. rewrite Nat.add_1_r.
    cbn [trim_defaults].
    assert (Hfull : exists k, rev (v :: rev va) = firstn k (va ++ [v]) /\ (k <= S (length va))%nat /\
              (Nat.min req (S (length va)) <= k)%nat /\
              forall i a0 v0, (k <= i)%nat -> nth_error (attrs' ++ [a]) i = Some a0 ->
                              nth_error (va ++ [v]) i = Some v0 -> is_default a0 v0 = true).
    { exists (S (length va)). cbn [rev]. rewrite rev_involutive. split.
      - rewrite firstn_all2; [reflexivity|]. rewrite app_length. cbn. lia.
      - split; [lia|]. split; [lia|]. intros i a0 v0 Hi _ Hv. exfalso.
        assert (nth_error (va ++ [v]) i = None) by (apply nth_error_None; rewrite app_length; cbn; lia). congruence. }
    destruct (Nat.leb (S (length va)) req) eqn:E1; [exact Hfull|].
    destruct (is_default a v) eqn:E2; [|exact Hfull]. clear Hfull.
    apply Nat.leb_gt in E1. cbn [Nat.pred].
    destruct (IH attrs' req Hlen') as (k & Ek & Hk1 & Hk2 & Hk3). exists k. split.
    + rewrite Ek. rewrite firstn_app. replace (k - length va)%nat with O by lia. cbn [firstn]. now rewrite app_nil_r.
    + split; [lia|]. split; [lia|]. intros i a0 v0 Hi Ha0 Hv0.
      destruct (Nat.lt_ge_cases i (length va)) as [Hlt|Hge].
      * rewrite nth_error_app1 in Ha0 by lia. rewrite nth_error_app1 in Hv0 by lia. eapply Hk3; eauto.
      * destruct (Nat.eq_dec i (length va)) as [->|Hne].
        -- rewrite nth_error_app2 in Hv0 by lia. rewrite Nat.sub_diag in Hv0. cbn in Hv0.
           rewrite Hlen', nth_error_app2 in Ha0 by lia. rewrite Nat.sub_diag in Ha0. cbn in Ha0. congruence.
        -- exfalso. assert (nth_error (va ++ [v]) i = None) by (apply nth_error_None; rewrite app_length; cbn; lia).
           congruence.
Qed.

Lemma req_prefix_len l req : req_prefix l req = true -> (req <= length l)%nat.
Proof.
  revert req; induction l as [|a r IH]; intros [|n] H; cbn [req_prefix length] in *; try lia; try discriminate.
  apply andb_true_iff in H as [_ H]. apply IH in H. lia.
Qed.

Lemma req_prefix_nth l req i a : req_prefix l req = true -> nth_error l i = Some a ->
  is_opt_attr a = negb (Nat.ltb i req).
Proof.
  revert req i; induction l as [|x r IH]; intros req i H Hi; [destruct i; discriminate|].
  destruct req as [|n]; cbn [req_prefix] in H; apply andb_true_iff in H as [H1 H2].
  - destruct i as [|i]; cbn [nth_error] in Hi.
    + inversion Hi; subst. now rewrite H1.
    + rewrite (IH O i H2 Hi). reflexivity.
  - destruct i as [|i]; cbn [nth_error] in Hi.
    + inversion Hi; subst. apply negb_true_iff in H1. now rewrite H1.
    + rewrite (IH n i H2 Hi). reflexivity.
Qed.

Definition given_or_default (h : list (str * value)) (a : attr) : value :=
  match hget h (a_name a) with Some v => v | None => default_of a end.

Lemma info_wf_parts info : info_wf info = true ->
  nodup_str (map a_name (ai_attrs info)) = true /\ req_prefix (ai_attrs info) (ai_req info) = true /\
  forallb attr_wf (ai_attrs info) = true /\
  forallb (fun k => Nat.ltb k (length (ai_attrs info))) (ai_eq info) = true.
Proof. unfold info_wf. intros H. repeat (apply andb_true_iff in H as [H ?]). tauto. Qed.

Lemma forallb_nth {A} (f : A -> bool) l i a : forallb f l = true -> nth_error l i = Some a -> f a = true.
Proof. intros H Hi. rewrite forallb_forall in H. apply H. eapply nth_error_In; eauto. Qed.

Lemma pfh_spec info h : info_wf info = true -> NoDup (map fst h) ->
  (forall a, In a (ai_attrs info) -> is_opt_attr a = false -> hget h (a_name a) <> None) ->
  exists vals, positional_from_hash info h = Ok vals /\
    (ai_req info <= length vals <= length (ai_attrs info))%nat /\
    forall i a, nth_error (ai_attrs info) i = Some a -> lval (ai_attrs info) vals i = Some (given_or_default h a).
Proof.
  intros Hwf Hnd Hreq. destruct (info_wf_parts info Hwf) as (Hn & Hp & Ha & _).
  unfold positional_from_hash. rewrite (distinct_names_nodup _ Hn), (place_all_fresh _ h Hn). cbn [bind].
  rewrite fill_slots_spec.
  2:{ intros a Hin E Hv. rewrite hget_last_nodup in E by assumption. apply is_opt_false_eff in Hv. exact (Hreq a Hin Hv E). }
  cbn [bind]. rewrite firstn_all.
  set (va := map _ (ai_attrs info)). assert (Hlen : length va = length (ai_attrs info)) by apply map_length.
  rewrite <- Hlen. destruct (trim_spec va (ai_attrs info) (ai_req info) Hlen) as (k & Ek & Hk1 & Hk2 & Hk3).
  rewrite Ek. eexists. split; [reflexivity|]. pose proof (req_prefix_len _ _ Hp) as Hrl.
  split; [rewrite firstn_length; lia|].
  intros i a Hi. unfold lval. rewrite nth_error_firstn', Hi.
  assert (Hva : nth_error va i = Some (given_or_default h a)).
  { unfold va. rewrite (map_nth_error _ _ _ Hi). unfold given_or_default. now rewrite hget_last_nodup. }
  destruct (Nat.ltb i k) eqn:Eik; [now rewrite Hva|]. apply Nat.ltb_ge in Eik.
  specialize (Hk3 i a _ Eik Hi Hva). exact (is_default_eff a _ (forallb_nth _ _ _ _ Ha Hi) Hk3).
Qed.

(* ---- Struct.IsInstance on the named-argument struct (structtype.go:297) ---- *)

Definition ekey (e : str * bool * (value -> bool)) : str := fst (fst e).
Definition present (h : list (str * value)) (e : str * bool * (value -> bool)) : bool :=
  match hget h (ekey e) with Some _ => true | None => false end.
Definition elem_ok (h : list (str * value)) (e : str * bool * (value -> bool)) : bool :=
  match hget h (ekey e) with Some v => snd e v | None => negb (snd (fst e)) end.

Lemma struct_matched_eq elems h :
  struct_matched elems h = if forallb (elem_ok h) elems then Some (length (filter (present h) elems)) else None.
Proof.
  induction elems as [|[[k r] t] es IH]; cbn [struct_matched forallb filter]; [reflexivity|].
  unfold elem_ok at 1, present at 1. cbn [ekey fst snd].
  destruct (hget h k) as [v|].
  - destruct (t v); cbn [andb]; [|reflexivity]. rewrite IH. now destruct (forallb (elem_ok h) es).
  - destruct r; cbn [negb andb]; [reflexivity|]. exact IH.
Qed.

Lemma NoDup_map_filter {A B} (f : A -> B) (p : A -> bool) l : NoDup (map f l) -> NoDup (map f (filter p l)).
Proof.
  induction l as [|x l IH]; cbn [map filter]; intros H; [constructor|]. inversion H; subst.
  destruct (p x); cbn [map]; [|now apply IH]. constructor; [|now apply IH].
  intros Hin. apply H2. apply in_map_iff in Hin as (y & Hy & Hin). apply filter_In in Hin as [Hin _].
  rewrite <- Hy. now apply in_map.
Qed.

Lemma hget_key_some h k : In k (map fst h) -> hget h k <> None.
Proof.
  induction h as [|[k' v] r IH]; cbn [map fst In hget]; [tauto|]. intros [->|H].
  - now rewrite str_eqb_refl.
  - destruct (str_eqb k' k); [discriminate|]. now apply IH.
Qed.

Lemma present_count elems h : NoDup (map ekey elems) ->
  (length (filter (present h) elems) = length h <->
   NoDup (map fst h) /\ forall k, In k (map fst h) -> In k (map ekey elems)).
Proof.
  intros Hnd. set (P := map ekey (filter (present h) elems)).
  assert (HP : NoDup P) by now apply NoDup_map_filter.
  assert (HPl : length P = length (filter (present h) elems)) by apply map_length.
  assert (Hincl : incl P (map fst h)).
  { intros k Hk. apply in_map_iff in Hk as (e & <- & He). apply filter_In in He as [_ He].
    unfold present in He. destruct (hget h (ekey e)) eqn:E; [|discriminate]. eapply hget_some_key; eauto. }
  split.
  - intros Hlen. assert (Hle : (length (map fst h) <= length P)%nat) by (rewrite map_length; lia). split.
    + exact (NoDup_incl_NoDup HP Hle Hincl).
    + intros k Hk. pose proof (NoDup_length_incl HP Hle Hincl k Hk) as Hin.
      apply in_map_iff in Hin as (e & <- & He). apply filter_In in He as [He _]. now apply in_map.
  - intros [Hh Hsub]. rewrite <- HPl. rewrite <- (map_length fst h). apply Nat.le_antisymm.
    + now apply NoDup_incl_length.
    + apply NoDup_incl_length; [assumption|]. intros k Hk. specialize (Hsub k Hk).
      apply in_map_iff in Hsub as (e & <- & He). apply in_map. apply filter_In. split; [assumption|].
      unfold present. pose proof (hget_key_some h _ Hk). now destruct (hget h (ekey e)).
Qed.

Lemma same_name_eq l a b : nodup_str (map a_name l) = true -> In a l -> In b l -> a_name a = a_name b -> a = b.
Proof.
  induction l as [|x l IH]; intros Hnd Ha Hb Hn; [contradiction|].
  cbn [map nodup_str] in Hnd. apply andb_true_iff in Hnd as [Hx Hl]. apply negb_true_iff, mem_str_notIn in Hx.
  destruct Ha as [->|Ha], Hb as [->|Hb]; try reflexivity.
  - exfalso. apply Hx. rewrite Hn. now apply in_map.
  - exfalso. apply Hx. rewrite <- Hn. now apply in_map.
  - now apply IH.
Qed.

Lemma init_struct_keys info : map ekey (init_struct info) = map a_name (ai_attrs info).
Proof. unfold init_struct. rewrite map_map. apply map_ext. reflexivity. Qed.

Lemma struct_inst_init_spec info h : info_wf info = true ->
  (struct_inst (init_struct info) (VHash h) = true <->
   NoDup (map fst h) /\
   (forall k v, In (k, v) h -> exists a, In a (ai_attrs info) /\ a_name a = k /\ inst (a_type a) v = true) /\
   (forall a, In a (ai_attrs info) -> is_opt_attr a = false -> hget h (a_name a) <> None)).
Proof.
  intros Hwf. destruct (info_wf_parts info Hwf) as (Hn & _ & _ & _).
  assert (HndE : NoDup (map ekey (init_struct info))) by (rewrite init_struct_keys; now apply nodup_str_NoDup).
  unfold struct_inst. rewrite struct_matched_eq.
  assert (Hok : forallb (elem_ok h) (init_struct info) = true <->
                forall a, In a (ai_attrs info) ->
                          match hget h (a_name a) with Some v => inst (a_type a) v = true | None => is_opt_attr a = true end).
  { rewrite init_struct_plain. rewrite forallb_forall. split.
    - intros H a Hin. specialize (H _ (in_map _ _ a Hin)). unfold elem_ok in H. cbn [ekey fst snd] in H.
      destruct (hget h (a_name a)); [exact H|]. now rewrite negb_involutive in H.
    - intros H e He. apply in_map_iff in He as (a & <- & Hin). specialize (H a Hin). unfold elem_ok. cbn [ekey fst snd].
      destruct (hget h (a_name a)); [exact H|]. now rewrite negb_involutive. }
  split.
  - intros H. destruct (forallb (elem_ok h) (init_struct info)) eqn:E; [|discriminate]. apply Nat.eqb_eq in H.
    apply (present_count _ h HndE) in H as [Hh Hsub]. rewrite init_struct_keys in Hsub.
    pose proof (proj1 Hok eq_refl) as Hall. split; [assumption|]. split.
    + intros k v Hkv. assert (Hk : In k (map fst h)) by (change k with (fst (k, v)); now apply in_map).
      apply Hsub, in_map_iff in Hk as (a & Hname & Hin). exists a. split; [assumption|]. split; [assumption|].
      specialize (Hall a Hin). rewrite Hname, (hget_of_In h k v Hh Hkv) in Hall. exact Hall.
    + intros a Hin Hv Hg. specialize (Hall a Hin). rewrite Hg in Hall. congruence.
  - intros (Hh & Hent & Hreq).
    assert (E : forallb (elem_ok h) (init_struct info) = true).
    { apply Hok. intros a Hin. destruct (hget h (a_name a)) as [v|] eqn:Eg.
      - apply hget_In in Eg. destruct (Hent _ _ Eg) as (a' & Hin' & Hname & Hinst).
        now rewrite (same_name_eq _ a a' Hn Hin Hin' (eq_sym Hname)).
      - destruct (is_opt_attr a) eqn:Eo; [reflexivity|]. exfalso. exact (Hreq a Hin Eo Eg). }
    rewrite E. apply Nat.eqb_eq. apply (present_count _ h HndE). split; [assumption|].
    intros k Hk. rewrite init_struct_keys. apply in_map_iff in Hk as ([k' v] & <- & Hkv).
    destruct (Hent _ _ Hkv) as (a & Hin & Hname & _). cbn [fst]. rewrite <- Hname. now apply in_map.
Qed.

(* ---- positional dispatch (tupletype.go IsInstance3, createNewFunction) ---- *)

Lemma tuple_elems_nth : forall args ts last, tuple_elems ts last args = true -> (length args <= length ts)%nat ->
  forall i v t, nth_error args i = Some v -> nth_error ts i = Some t -> inst t v = true.
Proof.
  induction args as [|x args IH]; intros ts last H Hlen i v t Hv Ht; [destruct i; discriminate|].
  destruct ts as [|t0 ts]; [cbn in Hlen; lia|]. cbn [tuple_elems] in H. apply andb_true_iff in H as [H1 H2].
  destruct i as [|i]; cbn [nth_error] in Hv, Ht.
  - congruence.
  - eapply IH; eauto. cbn in Hlen. lia.
Qed.

Lemma tuple_elems_intro : forall args ts last, (length args <= length ts)%nat ->
  (forall i v t, nth_error args i = Some v -> nth_error ts i = Some t -> inst t v = true) ->
  tuple_elems ts last args = true.
Proof.
  induction args as [|x args IH]; intros ts last Hlen H; [reflexivity|].
  destruct ts as [|t0 ts]; [cbn in Hlen; lia|]. cbn [tuple_elems]. apply andb_true_iff. split.
  - exact (H O x t0 eq_refl eq_refl).
  - apply IH; [cbn in Hlen; lia|]. intros i v t Hv Ht. exact (H (S i) v t Hv Ht).
Qed.

Lemma count_required_zero l j q : (q <= j)%nat -> count_required l j q = O.
Proof.
  revert j; induction l as [|a r IH]; intros j H; cbn [count_required]; [reflexivity|].
  rewrite IH by lia. assert (E : Nat.ltb j q = false) by (apply Nat.ltb_ge; lia). rewrite E.
  now destruct (kind_eqb (a_kind a) KGivenOrDerived).
Qed.

Lemma count_required_prefix l : forall i req, req_prefix l req = true -> count_required l i (i + req) = req.
Proof.
  induction l as [|a r IH]; intros i [|n] H; cbn [req_prefix] in H; cbn [count_required]; try reflexivity; try discriminate.
  - apply andb_true_iff in H as [_ H]. rewrite count_required_zero by lia.
    assert (E : Nat.ltb i (i + 0) = false) by (apply Nat.ltb_ge; lia). rewrite E.
    now destruct (kind_eqb (a_kind a) KGivenOrDerived).
  - apply andb_true_iff in H as [H1 H2]. apply negb_true_iff in H1. unfold is_opt_attr in H1.
    apply orb_false_iff in H1 as [H1 _]. rewrite H1.
    assert (E : Nat.ltb i (i + S n) = true) by (apply Nat.ltb_lt; lia). rewrite E.
    replace (i + S n)%nat with (S i + n)%nat by lia. rewrite (IH (S i) n H2). reflexivity.
Qed.

(* the named dispatcher takes the call exactly when the only argument is an instance of the init Struct *)
Lemma named_dispatch_some info args h : named_dispatch info args = Some h ->
  args = [VHash h] /\ struct_inst (init_struct info) (VHash h) = true.
Proof.
  destruct args as [|v [|v2 r]]; cbn [named_dispatch]; try discriminate; destruct v; try discriminate.
  destruct (struct_inst (init_struct info) (VHash l)) eqn:E; [|discriminate]. intros H; inversion H; subst. auto.
Qed.

Lemma named_dispatch_intro info h : struct_inst (init_struct info) (VHash h) = true ->
  named_dispatch info [VHash h] = Some h.
Proof. intros H. cbn [named_dispatch]. now rewrite H. Qed.

Lemma new_positional_inv d args o : info_wf (d_info d) = true -> named_dispatch (d_info d) args = None ->
  new_object d args = Ok o ->
  o = mkObj d args /\ (ai_req (d_info d) <= length args <= length (ai_attrs (d_info d)))%nat /\
  forall i v a, nth_error args i = Some v -> nth_error (ai_attrs (d_info d)) i = Some a -> inst (a_type a) v = true.
Proof.
  intros Hwf Hpos H. destruct (info_wf_parts _ Hwf) as (_ & Hp & _ & _).
  unfold new_object in H. cbv zeta in H. rewrite Hpos in H.
  destruct (tuple_inst _ _ _ args) eqn:E; [|discriminate]. unfold ctor_positional in H.
  inversion H; subst o. split; [reflexivity|]. unfold tuple_inst in E.
  apply andb_true_iff in E as [E E3]. apply andb_true_iff in E as [E1 E2].
  apply Nat.leb_le in E1, E2. rewrite map_length in E2.
  pose proof (count_required_prefix _ O _ Hp) as Hc. cbn [plus] in Hc. rewrite Hc in E1. split; [lia|].
  intros i v a Hv Ha. destruct (map a_type (ai_attrs (d_info d))) as [|t ts] eqn:Ets.
  - destruct (ai_attrs (d_info d)); [destruct i; discriminate|discriminate].
  - rewrite <- Ets in E3. eapply tuple_elems_nth with (ts := map a_type (ai_attrs (d_info d))); eauto.
    + rewrite map_length. lia.
    + now apply map_nth_error.
Qed.

Lemma lval_some info vals i a : info_wf info = true -> (ai_req info <= length vals)%nat ->
  nth_error (ai_attrs info) i = Some a -> exists v, lval (ai_attrs info) vals i = Some v.
Proof.
  intros Hwf Hreq Hi. destruct (info_wf_parts _ Hwf) as (_ & Hp & Ha & _). unfold lval.
  destruct (nth_error vals i) as [v|] eqn:Ev; [eauto|]. rewrite Hi. apply nth_error_None in Ev.
  pose proof (req_prefix_nth _ _ _ _ Hp Hi) as Ho.
  assert (E : Nat.ltb i (ai_req info) = false) by (apply Nat.ltb_ge; lia). rewrite E in Ho. cbn [negb] in Ho.
  rewrite is_opt_eff in Ho. destruct (eff_value a); [eauto|discriminate].
Qed.

Lemma new_named_inv d args h o : info_wf (d_info d) = true -> named_dispatch (d_info d) args = Some h ->
  new_object d args = Ok o ->
  NoDup (map fst h) /\
  (forall k v, In (k, v) h -> exists a, In a (ai_attrs (d_info d)) /\ a_name a = k /\ inst (a_type a) v = true) /\
  (forall a, In a (ai_attrs (d_info d)) -> is_opt_attr a = false -> hget h (a_name a) <> None) /\
  exists vals, o = mkObj d vals /\ (ai_req (d_info d) <= length vals <= length (ai_attrs (d_info d)))%nat /\
    forall i a, nth_error (ai_attrs (d_info d)) i = Some a ->
                lval (ai_attrs (d_info d)) vals i = Some (given_or_default h a).
Proof.
  intros Hwf Hd H. unfold new_object in H. cbv zeta in H. rewrite Hd in H. apply named_dispatch_some in Hd as [-> E].
  apply (struct_inst_init_spec _ h Hwf) in E as (Hh & Hent & Hreq). split; [assumption|]. split; [assumption|].
  split; [assumption|]. destruct (pfh_spec _ h Hwf Hh Hreq) as (vals & Ev & Hlen & Hl).
  unfold ctor_named in H. rewrite Ev in H. cbn [bind] in H. inversion H; subst o. eauto.
Qed.

Lemma new_named_ok d h : info_wf (d_info d) = true -> NoDup (map fst h) ->
  (forall k v, In (k, v) h -> exists a, In a (ai_attrs (d_info d)) /\ a_name a = k /\ inst (a_type a) v = true) ->
  (forall a, In a (ai_attrs (d_info d)) -> is_opt_attr a = false -> hget h (a_name a) <> None) ->
  named_dispatch (d_info d) [VHash h] = Some h /\
  exists vals, new_object d [VHash h] = Ok (mkObj d vals) /\
    (ai_req (d_info d) <= length vals <= length (ai_attrs (d_info d)))%nat /\
    forall i a, nth_error (ai_attrs (d_info d)) i = Some a ->
                lval (ai_attrs (d_info d)) vals i = Some (given_or_default h a).
Proof.
  intros Hwf Hh Hent Hreq.
  pose proof (named_dispatch_intro _ h (proj2 (struct_inst_init_spec _ h Hwf) (conj Hh (conj Hent Hreq)))) as Hd.
  split; [exact Hd|]. unfold new_object. cbv zeta. rewrite Hd.
  destruct (pfh_spec _ h Hwf Hh Hreq) as (vals & Ev & Hlen & Hl). exists vals. unfold ctor_named. rewrite Ev. cbn [bind].
  eauto.
Qed.

(* attribute.Default / the drop condition of makeValueHash, in terms of the value the attribute contributes *)
Definition eff_default (a : attr) (v : value) : bool :=
  match eff_value a with Some d => value_eqb d v | None => false end.

Lemma eff_default_eff a v : eff_default a v = true -> eff_value a = Some v.
Proof.
  unfold eff_default. destruct (eff_value a) as [d|]; [|discriminate]. intros H. apply value_eqb_eq in H. now subst.
Qed.

(* what the constructors guarantee about the value slice of an object *)
Definition obj_ok (info : ainfo) (vals : list value) : Prop :=
  (ai_req info <= length vals <= length (ai_attrs info))%nat /\
  forall i v a, nth_error vals i = Some v -> nth_error (ai_attrs info) i = Some a ->
                inst (a_type a) v = true \/ eff_default a v = true.

Lemma new_object_ok d args o : info_wf (d_info d) = true -> new_object d args = Ok o ->
  exists vals, o = mkObj d vals /\ obj_ok (d_info d) vals.
Proof.
  intros Hwf H. destruct (named_dispatch (d_info d) args) as [h|] eqn:Hd.
  - destruct (new_named_inv _ _ _ _ Hwf Hd H) as (Hh & Hent & Hreq & vals & -> & Hlen & Hl). exists vals.
    split; [reflexivity|]. split; [assumption|]. intros i v a Hv Ha. specialize (Hl i a Ha). unfold lval in Hl.
    rewrite Hv in Hl. inversion Hl as [Hvv]. unfold given_or_default. destruct (hget h (a_name a)) as [w|] eqn:Eg.
    + left. apply hget_In in Eg. destruct (Hent _ _ Eg) as (a' & Hin' & Hname & Hinst).
      destruct (info_wf_parts _ Hwf) as (Hn & _ & _ & _).
      rewrite (same_name_eq _ a a' Hn (nth_error_In _ _ Ha) Hin' (eq_sym Hname)). exact Hinst.
    + right. unfold eff_default, default_of. destruct (eff_value a) as [dv|] eqn:Ed; [apply value_eqb_refl|].
      exfalso. apply (Hreq a (nth_error_In _ _ Ha)); [now apply is_opt_false_eff|exact Eg].
  - destruct (new_positional_inv _ _ _ Hwf Hd H) as (-> & Hlen & Hinst). exists args. split; [reflexivity|].
    split; [assumption|]. intros i v a Hv Ha. left. eauto.
Qed.

(* ---- InitHash (makeValueHash) ---- *)

Lemma drop_cond a v : attr_wf a = true ->
  (is_default a v || (kind_eqb (a_kind a) KGivenOrDerived && value_eqb v VUndef)) = eff_default a v.
Proof.
  intros Hwf. unfold attr_wf in Hwf. apply andb_true_iff in Hwf as [H _]. unfold eff_default, eff_value, is_default.
  destruct (kind_eqb (a_kind a) KGivenOrDerived); cbn [negb orb andb] in *.
  - rewrite (value_eqb_sym v VUndef). destruct (a_value a) as [d|]; [|reflexivity].
    apply value_eqb_eq in H; subst d. apply orb_diag.
  - destruct (a_value a); [apply orb_false_r|reflexivity].
Qed.

Lemma mvh_spec : forall vals attrs, forallb attr_wf attrs = true -> (length vals <= length attrs)%nat ->
  exists h, make_value_hash attrs vals = Ok h /\
    (forall k v, In (k, v) h -> exists i a, nth_error attrs i = Some a /\ nth_error vals i = Some v /\
                                           a_name a = k /\ eff_default a v = false) /\
    (forall i a v, nth_error attrs i = Some a -> nth_error vals i = Some v -> eff_default a v = false ->
                   In (a_name a, v) h) /\
    (NoDup (map a_name attrs) -> NoDup (map fst h)).
Proof.
  induction vals as [|v rv IH]; intros attrs Hwf Hlen.
  - exists []. split; [now destruct attrs|]. split; [intros k v []|]. split.
    + intros i a v _ H. destruct i; discriminate.
    + intros _. constructor.
  - destruct attrs as [|a ra]; [cbn in Hlen; lia|]. cbn [forallb] in Hwf. apply andb_true_iff in Hwf as [Ha Hra].
    destruct (IH ra Hra) as (rest & E & H1 & H2 & H3); [cbn in Hlen; lia|].
    cbn [make_value_hash]. rewrite E. cbn [bind]. rewrite (drop_cond a v Ha).
    assert (Hkeys : forall k, In k (map fst rest) -> In k (map a_name ra)).
    { intros k Hk. apply in_map_iff in Hk as ([k' w] & <- & Hin). destruct (H1 _ _ Hin) as (i & a' & Hi & _ & Hn & _).
      cbn [fst]. rewrite <- Hn. apply in_map. eapply nth_error_In; eauto. }
    destruct (eff_default a v) eqn:Ed.
    + exists rest. split; [reflexivity|]. split; [|split].
      * intros k w Hin. destruct (H1 _ _ Hin) as (i & a' & Hi & Hv & Hn & Hd). exists (S i), a'. auto.
      * intros [|i] a' w Hi Hv Hd; cbn [nth_error] in Hi, Hv; [congruence|eauto].
      * intros Hnd. cbn [map] in Hnd. inversion Hnd; subst. auto.
    + exists ((a_name a, v) :: rest). split; [reflexivity|]. split; [|split].
      * intros k w [Heq|Hin].
        -- inversion Heq; subst. exists O, a. auto.
        -- destruct (H1 _ _ Hin) as (i & a' & Hi & Hv & Hn & Hd). exists (S i), a'. auto.
      * intros [|i] a' w Hi Hv Hd; cbn [nth_error] in Hi, Hv.
        -- inversion Hi; inversion Hv; subst. now left.
        -- right. eauto.
      * intros Hnd. cbn [map] in Hnd. inversion Hnd; subst. cbn [map fst]. constructor; [|auto].
        intros Hin. apply H4. now apply Hkeys.
Qed.

Lemma nth_error_same_name l i j a b : nodup_str (map a_name l) = true ->
  nth_error l i = Some a -> nth_error l j = Some b -> a_name a = a_name b -> i = j.
Proof.
  intros Hnd Hi Hj Hn. pose proof (name_to_pos_nth l i a Hnd Hi) as E1.
  pose proof (name_to_pos_nth l j b Hnd Hj) as E2. rewrite Hn in E1. congruence.
Qed.

(* ---- Equals ---- *)

Lemma eq_at_spec d v1 v2 : info_wf (d_info d) = true ->
  (ai_req (d_info d) <= length v1)%nat -> (ai_req (d_info d) <= length v2)%nat ->
  forall idxs, forallb (fun k => Nat.ltb k (length (ai_attrs (d_info d)))) idxs = true ->
  eq_at (mkObj d v1) (mkObj d v2) (ai_attrs (d_info d)) idxs =
  Ok (forallb (fun i => opt_value_eqb (lval (ai_attrs (d_info d)) v1 i) (lval (ai_attrs (d_info d)) v2 i)) idxs).
Proof.
  intros Hwf H1 H2. destruct (info_wf_parts _ Hwf) as (Hn & _ & Ha & _).
  induction idxs as [|i r IH]; intros Hlt; cbn [eq_at forallb]; [reflexivity|].
  cbn [forallb] in Hlt. apply andb_true_iff in Hlt as [Hi Hr]. apply Nat.ltb_lt in Hi.
  destruct (nth_error (ai_attrs (d_info d)) i) as [a|] eqn:Ei; [|apply nth_error_None in Ei; lia].
  rewrite (get_nth d v1 i a Hn Ei), (get_nth d v2 i a Hn Ei).
  destruct (lval_some _ v1 i a Hwf H1 Ei) as (x & Ex). destruct (lval_some _ v2 i a Hwf H2 Ei) as (y & Ey).
  rewrite Ex, Ey. cbn [bind]. destruct (opt_value_eqb (Some x) (Some y)); cbn [andb]; [now apply IH|reflexivity].
Qed.

Lemma obj_eqb_spec d v1 v2 : info_wf (d_info d) = true ->
  (ai_req (d_info d) <= length v1)%nat -> (ai_req (d_info d) <= length v2)%nat ->
  obj_eqb (mkObj d v1) (mkObj d v2) =
  Ok (forallb (fun i => opt_value_eqb (lval (ai_attrs (d_info d)) v1 i) (lval (ai_attrs (d_info d)) v2 i))
              (ai_eq (d_info d))).
Proof.
  intros Hwf H1 H2. unfold obj_eqb. cbn [o_type]. rewrite def_eqb_refl. cbn [negb].
  apply eq_at_spec; try assumption. now destruct (info_wf_parts _ Hwf) as (_ & _ & _ & He).
Qed.

Lemma obj_eqb_true_iff d v1 v2 : info_wf (d_info d) = true ->
  (ai_req (d_info d) <= length v1)%nat -> (ai_req (d_info d) <= length v2)%nat ->
  (obj_eqb (mkObj d v1) (mkObj d v2) = Ok true <->
   forall i, In i (ai_eq (d_info d)) -> lval (ai_attrs (d_info d)) v1 i = lval (ai_attrs (d_info d)) v2 i).
Proof.
  intros Hwf H1 H2. rewrite (obj_eqb_spec d v1 v2 Hwf H1 H2). split.
  - intros H. inversion H as [Hf]. rewrite forallb_forall in Hf. intros i Hi. now apply opt_value_eqb_eq, Hf.
  - intros H. f_equal. apply forallb_forall. intros i Hi. apply opt_value_eqb_eq. now apply H.
Qed.

Lemma obj_eqb_same_lval d v1 v2 : info_wf (d_info d) = true ->
  (ai_req (d_info d) <= length v1)%nat -> (ai_req (d_info d) <= length v2)%nat ->
  (forall i a, nth_error (ai_attrs (d_info d)) i = Some a ->
               lval (ai_attrs (d_info d)) v1 i = lval (ai_attrs (d_info d)) v2 i) ->
  obj_eqb (mkObj d v1) (mkObj d v2) = Ok true.
Proof.
  intros Hwf H1 H2 H. apply obj_eqb_true_iff; try assumption. intros i Hi.
  destruct (info_wf_parts _ Hwf) as (_ & _ & _ & He). rewrite forallb_forall in He. specialize (He i Hi).
  apply Nat.ltb_lt in He. destruct (nth_error (ai_attrs (d_info d)) i) as [a|] eqn:Ei; [eauto|].
  apply nth_error_None in Ei. lia.
Qed.

Lemma obj_eqb_other_type o1 o2 : def_eqb (o_type o1) (o_type o2) = false -> obj_eqb o1 o2 = Ok false.
Proof. intros H. unfold obj_eqb. now rewrite H. Qed.

(* ---- the clauses of C17 at the level of a well-formed layout ---- *)

Lemma hget_combine : forall attrs args i a, nodup_str (map a_name attrs) = true -> nth_error attrs i = Some a ->
  hget (combine (map a_name attrs) args) (a_name a) = nth_error args i.
Proof.
  induction attrs as [|x r IH]; intros args i a Hnd Hi; [destruct i; discriminate|].
  cbn [map nodup_str] in Hnd. apply andb_true_iff in Hnd as [Hx Hr]. apply negb_true_iff in Hx.
  destruct args as [|v args]; [cbn; now destruct i|]. cbn [map combine hget].
  destruct i as [|i]; cbn [nth_error] in Hi |- *.
  - inversion Hi; subst. now rewrite str_eqb_refl.
  - assert (E : str_eqb (a_name x) (a_name a) = false).
    { apply str_eqb_neq. intros En. apply mem_str_notIn in Hx. apply Hx. rewrite En. apply in_map.
      eapply nth_error_In; eauto. }
    rewrite E. now apply IH.
Qed.

Lemma combine_keys_nodup : forall (names : list str) (args : list value), NoDup names -> NoDup (map fst (combine names args)).
Proof.
  induction names as [|n r IH]; intros args Hnd; [constructor|]. destruct args as [|v args]; [constructor|].
  cbn [combine map fst]. inversion Hnd; subst. constructor; [|now apply IH].
  intros Hin. apply H1. apply in_map_iff in Hin as ([k w] & <- & Hkw). cbn [fst]. now apply in_combine_l in Hkw.
Qed.

Lemma in_combine_nth {A B} : forall (l : list A) (l' : list B) x y, In (x, y) (combine l l') ->
  exists i, nth_error l i = Some x /\ nth_error l' i = Some y.
Proof.
  induction l as [|a l IH]; intros [|b l'] x y H; cbn [combine] in H; try contradiction.
  destruct H as [E|H].
  - inversion E; subst. now exists O.
  - destruct (IH _ _ _ H) as (i & H1 & H2). now exists (S i).
Qed.

Lemma required_index info i a : info_wf info = true -> nth_error (ai_attrs info) i = Some a ->
  (is_opt_attr a = false <-> (i < ai_req info)%nat).
Proof.
  intros Hwf Hi. destruct (info_wf_parts _ Hwf) as (_ & Hp & _ & _).
  pose proof (req_prefix_nth _ _ _ _ Hp Hi) as Ho.
  destruct (Nat.ltb i (ai_req info)) eqn:E; cbn [negb] in Ho; rewrite Ho.
  - apply Nat.ltb_lt in E. split; auto.
  - apply Nat.ltb_ge in E. split; [discriminate|lia].
Qed.

Lemma nth_error_map_inv {A B} (f : A -> B) l i y : nth_error (map f l) i = Some y ->
  exists x, nth_error l i = Some x /\ f x = y.
Proof.
  revert i; induction l as [|x l IH]; intros [|i] H; cbn in H; try discriminate.
  - inversion H. now exists x.
  - now apply IH.
Qed.

(* positional and named construction with the same values yield equal objects *)
Lemma pos_named_equal_info d args o : info_wf (d_info d) = true -> named_dispatch (d_info d) args = None ->
  new_object d args = Ok o ->
  let h := combine (map a_name (ai_attrs (d_info d))) args in
  named_dispatch (d_info d) [VHash h] = Some h /\
  exists o', new_object d [VHash h] = Ok o' /\ obj_eqb o o' = Ok true /\ obj_eqb o' o = Ok true.
Proof.
  intros Hwf Hpos H. destruct (new_positional_inv _ _ _ Hwf Hpos H) as (-> & Hlen & Hinst).
  destruct (info_wf_parts _ Hwf) as (Hn & _ & _ & _).
  set (h := combine (map a_name (ai_attrs (d_info d))) args). cbv zeta.
  destruct (new_named_ok d h Hwf) as (Hd & vals & Ev & Hl & Hv).
  - apply combine_keys_nodup. now apply nodup_str_NoDup.
  - intros k v Hin. apply in_combine_nth in Hin as (i & Hk & Hvi). apply nth_error_map_inv in Hk as (a & Ha & <-).
    exists a. split; [eapply nth_error_In; eauto|]. split; [reflexivity|]. eauto.
  - intros a Hin Hnone. apply In_nth_error in Hin as (i & Hi). unfold h. rewrite (hget_combine _ args i a Hn Hi).
    apply (required_index _ i a Hwf Hi) in Hnone. intros E. apply nth_error_None in E. lia.
  - split; [exact Hd|]. exists (mkObj d vals). split; [exact Ev|].
    assert (Hsame : forall i a, nth_error (ai_attrs (d_info d)) i = Some a -> lval (ai_attrs (d_info d)) args i = lval (ai_attrs (d_info d)) vals i).
    { intros i a Hi. rewrite (Hv i a Hi). unfold lval, given_or_default, h. rewrite (hget_combine _ args i a Hn Hi), Hi.
      destruct (nth_error args i) eqn:Ea; [reflexivity|]. unfold default_of. destruct (eff_value a) eqn:Ed; [reflexivity|].
      apply is_opt_false_eff in Ed. apply (required_index _ i a Hwf Hi) in Ed. apply nth_error_None in Ea. lia. }
    split; apply obj_eqb_same_lval; try assumption; try lia. intros i a Hi. symmetry. eauto.
Qed.

(* ... and conversely: when the named constructor takes {name_i => arg_i} for a tuple no longer than the
   layout, the positional constructor takes the tuple (unless the tuple is itself one named-argument hash)
   and builds an equal object *)
Lemma named_pos_equal_info d args o' : info_wf (d_info d) = true ->
  let h := combine (map a_name (ai_attrs (d_info d))) args in
  (length args <= length (ai_attrs (d_info d)))%nat ->
  named_dispatch (d_info d) [VHash h] = Some h -> new_object d [VHash h] = Ok o' ->
  named_dispatch (d_info d) args = None ->
  exists o, new_object d args = Ok o /\ obj_eqb o o' = Ok true /\ obj_eqb o' o = Ok true.
Proof.
  intros Hwf h Hlen Hd H Hpos. destruct (info_wf_parts _ Hwf) as (Hn & Hp & _ & _).
  destruct (new_named_inv _ _ _ _ Hwf Hd H) as (Hh & Hent & Hreq & vals & -> & Hl & Hv).
  assert (Hinst : forall i v a, nth_error args i = Some v -> nth_error (ai_attrs (d_info d)) i = Some a ->
                                inst (a_type a) v = true).
  { intros i v a Ha Hi. assert (Hin : In (a_name a, v) h).
    { apply hget_In. unfold h. now rewrite (hget_combine _ args i a Hn Hi). }
    destruct (Hent _ _ Hin) as (a' & Hin' & Hname & Hi').
    now rewrite (same_name_eq _ a a' Hn (nth_error_In _ _ Hi) Hin' (eq_sym Hname)). }
  pose proof (req_prefix_len _ _ Hp) as Hrl.
  assert (Hreqlen : (ai_req (d_info d) <= length args)%nat).
  { destruct (ai_req (d_info d)) as [|r] eqn:Er; [lia|].
    destruct (nth_error (ai_attrs (d_info d)) r) as [a|] eqn:Hi; [|apply nth_error_None in Hi; lia].
    assert (Ho : is_opt_attr a = false) by (apply (required_index _ r a Hwf Hi); lia).
    pose proof (Hreq a (nth_error_In _ _ Hi) Ho) as Hg. unfold h in Hg. rewrite (hget_combine _ args r a Hn Hi) in Hg.
    assert (r < length args)%nat by (apply nth_error_Some; exact Hg). lia. }
  assert (Hnew : new_object d args = Ok (mkObj d args)).
  { unfold new_object. cbv zeta. rewrite Hpos. unfold tuple_inst.
    pose proof (count_required_prefix _ O _ Hp) as Hc. cbn [plus] in Hc. rewrite Hc, map_length.
    rewrite (proj2 (Nat.leb_le _ _) Hreqlen), (proj2 (Nat.leb_le _ _) Hlen). cbn [andb].
    destruct (map a_type (ai_attrs (d_info d))) as [|t ts] eqn:Ets; [reflexivity|].
    rewrite <- Ets. rewrite tuple_elems_intro; [reflexivity|now rewrite map_length|].
    intros i v t' Hv' Ht. apply nth_error_map_inv in Ht as (a & Hi & <-). eauto. }
  exists (mkObj d args). split; [exact Hnew|].
  assert (Hsame : forall i a, nth_error (ai_attrs (d_info d)) i = Some a -> lval (ai_attrs (d_info d)) args i = lval (ai_attrs (d_info d)) vals i).
  { intros i a Hi. rewrite (Hv i a Hi). unfold lval, given_or_default. fold h. unfold h at 1.
    rewrite (hget_combine _ args i a Hn Hi), Hi.
    destruct (nth_error args i) eqn:Ea; [reflexivity|]. unfold default_of. destruct (eff_value a) eqn:Ed; [reflexivity|].
    apply is_opt_false_eff in Ed. apply (required_index _ i a Hwf Hi) in Ed. apply nth_error_None in Ea. lia. }
  split; apply obj_eqb_same_lval; try assumption; try lia. intros i a Hi. symmetry. eauto.
Qed.

(* rebuilding an object from its init-hash yields an equal object *)
Lemma roundtrip_vals d vals : info_wf (d_info d) = true -> obj_ok (d_info d) vals ->
  exists h vals', init_hash (mkObj d vals) = Ok h /\ named_dispatch (d_info d) [VHash h] = Some h /\
    new_object d [VHash h] = Ok (mkObj d vals') /\
    obj_eqb (mkObj d vals) (mkObj d vals') = Ok true /\ obj_eqb (mkObj d vals') (mkObj d vals) = Ok true.
Proof.
  intros Hwf [Hlen Hok]. destruct (info_wf_parts _ Hwf) as (Hn & _ & Ha & _).
  destruct (mvh_spec vals (ai_attrs (d_info d)) Ha) as (h & Eh & H1 & H2 & H3); [lia|].
  assert (Hget : forall i a, nth_error (ai_attrs (d_info d)) i = Some a ->
             hget h (a_name a) = match nth_error vals i with
                                 | Some v => if eff_default a v then None else Some v
                                 | None => None end).
  { intros i a Hi. specialize (H3 (proj1 (nodup_str_NoDup _) Hn)).
    destruct (hget h (a_name a)) as [w|] eqn:Eg.
    - apply hget_In in Eg. destruct (H1 _ _ Eg) as (j & a' & Hj & Hv & Hname & Hd).
      assert (j = i) by (eapply nth_error_same_name; eauto). subst j. rewrite Hi in Hj. inversion Hj; subst a'.
      now rewrite Hv, Hd.
    - destruct (nth_error vals i) as [v|] eqn:Ev; [|reflexivity]. destruct (eff_default a v) eqn:Ed; [reflexivity|].
      pose proof (H2 i a v Hi Ev Ed) as Hin. apply (hget_of_In h _ _ H3) in Hin. congruence. }
  destruct (new_named_ok d h Hwf) as (Hd & vals' & Ev & Hl & Hv).
  - apply H3. now apply nodup_str_NoDup.
  - intros k v Hin. destruct (H1 _ _ Hin) as (i & a & Hi & Hvi & Hname & Hd). exists a.
    split; [eapply nth_error_In; eauto|]. split; [assumption|]. destruct (Hok i v a Hvi Hi) as [Hinst|Hdef]; [assumption|congruence].
  - intros a Hin Hnone. apply In_nth_error in Hin as (i & Hi). rewrite (Hget i a Hi).
    pose proof (proj1 (required_index _ i a Hwf Hi) Hnone) as Hlt. destruct (nth_error vals i) as [v|] eqn:Evi.
    + unfold eff_default. apply is_opt_false_eff in Hnone. rewrite Hnone. discriminate.
    + apply nth_error_None in Evi. lia.
  - exists h, vals'. split; [exact Eh|]. split; [exact Hd|]. split; [exact Ev|].
    assert (Hsame : forall i a, nth_error (ai_attrs (d_info d)) i = Some a ->
                                lval (ai_attrs (d_info d)) vals i = lval (ai_attrs (d_info d)) vals' i).
    { intros i a Hi. rewrite (Hv i a Hi). unfold lval, given_or_default. rewrite (Hget i a Hi), Hi.
      destruct (nth_error vals i) as [v|] eqn:Evi.
      - destruct (eff_default a v) eqn:Ed; [|reflexivity]. apply eff_default_eff in Ed. unfold default_of. now rewrite Ed.
      - unfold default_of. destruct (eff_value a) eqn:Ed; [reflexivity|].
        apply is_opt_false_eff in Ed. apply (required_index _ i a Hwf Hi) in Ed. apply nth_error_None in Evi. lia. }
    split; apply obj_eqb_same_lval; try assumption; try lia. intros i a Hi. symmetry. eauto.
Qed.

Lemma init_hash_roundtrip_info d args o : info_wf (d_info d) = true -> new_object d args = Ok o ->
  exists h o', init_hash o = Ok h /\ named_dispatch (d_info d) [VHash h] = Some h /\ new_object d [VHash h] = Ok o' /\
               obj_eqb o o' = Ok true /\ obj_eqb o' o = Ok true.
Proof.
  intros Hwf H. destruct (new_object_ok _ _ _ Hwf H) as (vals & -> & Hok).
  destruct (roundtrip_vals d vals Hwf Hok) as (h & vals' & ? & ? & ? & ? & ?). exists h, (mkObj d vals'). auto.
Qed.

(* each attribute reads back the value given or its default *)
Lemma get_positional_info d args o i a : info_wf (d_info d) = true -> named_dispatch (d_info d) args = None ->
  new_object d args = Ok o ->
  nth_error (ai_attrs (d_info d)) i = Some a ->
  get o (a_name a) = Ok (Some (match nth_error args i with Some v => v | None => default_of a end)) /\
  (nth_error args i = None -> is_opt_attr a = true).
Proof.
  intros Hwf Hpos H Hi. destruct (new_positional_inv _ _ _ Hwf Hpos H) as (-> & Hlen & _).
  destruct (info_wf_parts _ Hwf) as (Hn & _ & _ & _).
  rewrite (get_nth d args i a Hn Hi). unfold lval. rewrite Hi.
  destruct (nth_error args i) as [v|] eqn:Ev; [split; [reflexivity|discriminate]|].
  apply nth_error_None in Ev. unfold default_of. destruct (eff_value a) eqn:Ed.
  - split; [reflexivity|]. intros _. apply is_opt_true_eff. congruence.
  - apply is_opt_false_eff in Ed. apply (required_index _ i a Hwf Hi) in Ed. lia.
Qed.

Lemma get_named_info d args h o a : info_wf (d_info d) = true -> named_dispatch (d_info d) args = Some h ->
  new_object d args = Ok o ->
  In a (ai_attrs (d_info d)) ->
  get o (a_name a) = Ok (Some (given_or_default h a)) /\ (hget h (a_name a) = None -> is_opt_attr a = true).
Proof.
  intros Hwf Hd H Hin. destruct (new_named_inv _ _ _ _ Hwf Hd H) as (_ & _ & Hreq & vals & -> & _ & Hl).
  destruct (info_wf_parts _ Hwf) as (Hn & _ & _ & _). apply In_nth_error in Hin as Hi. destruct Hi as (i & Hi).
  rewrite (get_nth d vals i a Hn Hi), (Hl i a Hi). split; [reflexivity|].
  intros Hg. destruct (is_opt_attr a) eqn:Eo; [reflexivity|]. exfalso. exact (Hreq a Hin Eo Hg).
Qed.

(* reading never faults and never misses a value on a constructed object *)
Lemma get_total_info d args o n : info_wf (d_info d) = true -> new_object d args = Ok o ->
  exists r, get o n = Ok r.
Proof.
  intros Hwf H. destruct (new_object_ok _ _ _ Hwf H) as (vals & -> & [Hlen _]).
  destruct (info_wf_parts _ Hwf) as (Hn & _ & Ha & _).
  destruct (name_to_pos (ai_attrs (d_info d)) n) as [i|] eqn:E.
  - apply name_to_pos_sound in E as (a & Hi & <-). rewrite (get_nth d vals i a Hn Hi).
    destruct (lval_some _ vals i a Hwf (proj1 Hlen) Hi) as (v & ->). eauto.
  - exists None. apply get_unknown. eapply ntp_none_inv. exact E.
Qed.

(* objects of one type are equal exactly when they agree on the attributes at the equality indexes *)
Definition eq_names (info : ainfo) : list str :=
  map (fun i => match nth_error (ai_attrs info) i with Some a => a_name a | None => [] end) (ai_eq info).

Lemma eq_iff_info d a1 a2 o1 o2 : info_wf (d_info d) = true ->
  new_object d a1 = Ok o1 -> new_object d a2 = Ok o2 ->
  (obj_eqb o1 o2 = Ok true <-> forall n, In n (eq_names (d_info d)) -> get o1 n = get o2 n) /\
  (exists b, obj_eqb o1 o2 = Ok b).
Proof.
  intros Hwf H1 H2. destruct (new_object_ok _ _ _ Hwf H1) as (v1 & -> & [L1 _]).
  destruct (new_object_ok _ _ _ Hwf H2) as (v2 & -> & [L2 _]).
  destruct (info_wf_parts _ Hwf) as (Hn & _ & Ha & He). split.
  - rewrite (obj_eqb_true_iff d v1 v2 Hwf (proj1 L1) (proj1 L2)). unfold eq_names. split.
    + intros H n Hin. apply in_map_iff in Hin as (i & <- & Hi). specialize (H i Hi).
      destruct (nth_error (ai_attrs (d_info d)) i) as [a|] eqn:Ei.
      * rewrite !(get_nth d _ i a Hn Ei). now rewrite H.
      * rewrite forallb_forall in He. specialize (He i Hi). apply Nat.ltb_lt in He. apply nth_error_None in Ei. lia.
    + intros H i Hi. rewrite forallb_forall in He. pose proof (He i Hi) as Hlt. apply Nat.ltb_lt in Hlt.
      destruct (nth_error (ai_attrs (d_info d)) i) as [a|] eqn:Ei; [|apply nth_error_None in Ei; lia].
      assert (Hin : In (a_name a) (map (fun i => match nth_error (ai_attrs (d_info d)) i with
                                                 | Some a => a_name a | None => [] end) (ai_eq (d_info d)))).
      { apply in_map_iff. exists i. now rewrite Ei. }
      specialize (H _ Hin). rewrite !(get_nth d _ i a Hn Ei) in H.
      destruct (lval_some _ v1 i a Hwf (proj1 L1) Ei) as (x & Ex). destruct (lval_some _ v2 i a Hwf (proj1 L2) Ei) as (y & Ey).
      rewrite Ex, Ey in *. congruence.
  - rewrite (obj_eqb_spec d v1 v2 Hwf (proj1 L1) (proj1 L2)). eauto.
Qed.
