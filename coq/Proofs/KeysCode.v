(* KeysCode.v — C07: the byte encodings are injective and the set of hash keys is a prefix code
   (no key is a proper prefix of another, a sequence of keys ended by HkEnd decodes uniquely). *)
From Coq Require Import ZArith NArith Bool Lia List.
From PcoreV Require Import Model.Base Model.Keys.
Import ListNotations.

Global Arguments be64 : simpl never.
Global Arguments lp : simpl never.
Global Arguments u64 : simpl never.

(* ------------------------------------------------------------------------------------------ *)
(* lists *)

Lemma app_inv_length {A} (a b r r' : list A) :
  length a = length b -> a ++ r = b ++ r' -> a = b /\ r = r'.
Proof.
  revert b; induction a as [|x a IH]; intros [|y b] Hl H; cbn in *; try discriminate.
  - auto.
  - injection H as -> H. injection Hl as Hl. destruct (IH b Hl H) as [-> ->]. auto.
Qed.

Lemma cons2_inj {A} (t t' c c' : A) a b : t :: c :: a = t' :: c' :: b -> t = t' /\ c = c' /\ a = b.
Proof. intros H. injection H. auto. Qed.

(* ------------------------------------------------------------------------------------------ *)
(* fixed-size payloads *)

Lemma digits_length k n : length (digits k n) = k.
Proof. revert n; induction k as [|k IH]; intros n; cbn; [reflexivity|]. rewrite IH. reflexivity. Qed.

Lemma digits_inj k a b :
  (a < 256 ^ N.of_nat k)%N -> (b < 256 ^ N.of_nat k)%N -> digits k a = digits k b -> a = b.
Proof.
  revert a b; induction k as [|k IH]; intros a b Ha Hb H.
  - cbn in Ha, Hb. lia.
  - cbn [digits] in H. injection H as Hm Ht.
    rewrite Nat2N.inj_succ, N.pow_succ_r' in Ha, Hb.
    assert (a / 256 = b / 256)%N as Hq.
    { apply IH; [| |assumption]; apply N.div_lt_upper_bound; lia. }
    rewrite (N.div_mod' a 256), (N.div_mod' b 256). congruence.
Qed.

Lemma be64_length n : length (be64 n) = 8%nat.
Proof. unfold be64. rewrite rev_length, digits_length. reflexivity. Qed.

Lemma be64_inj a b : bits64 a = true -> bits64 b = true -> be64 a = be64 b -> a = b.
Proof.
  unfold bits64, be64. intros Ha Hb H. apply N.ltb_lt in Ha, Hb.
  apply (f_equal (@rev N)) in H. rewrite !rev_involutive in H.
  apply (digits_inj 8); assumption.
Qed.

Lemma u64_bits z : bits64 (u64 z) = true.
Proof.
  unfold bits64, u64. apply N.ltb_lt.
  pose proof (Z.mod_pos_bound z two64 eq_refl) as H.
  change 0x10000000000000000%N with (Z.to_N two64). apply Z2N.inj_lt; lia.
Qed.

Lemma u64_inj a b : in_int64 a = true -> in_int64 b = true -> u64 a = u64 b -> a = b.
Proof.
  unfold in_int64, u64, min_int64, max_int64. intros Ha Hb H.
  apply andb_true_iff in Ha, Hb. destruct Ha as [Ha1 Ha2], Hb as [Hb1 Hb2].
  apply Z.leb_le in Ha1, Ha2, Hb1, Hb2.
  pose proof (Z.mod_pos_bound a two64 eq_refl) as Hma.
  pose proof (Z.mod_pos_bound b two64 eq_refl) as Hmb.
  apply Z2N.inj in H; [|lia|lia].
  pose proof (Z.div_mod a two64) as Da. pose proof (Z.div_mod b two64) as Db.
  unfold two64 in *. lia.
Qed.

Lemma k64_inj a b : in_int64 a = true -> in_int64 b = true -> be64 (u64 a) = be64 (u64 b) -> a = b.
Proof. intros Ha Hb H. apply u64_inj; [assumption|assumption|]. apply be64_inj; [apply u64_bits|apply u64_bits|assumption]. Qed.

(* length-prefixed bytes *)
Lemma lp_inj_app s s' r r' : lenok s = true -> lenok s' = true -> lp s ++ r = lp s' ++ r' -> s = s' /\ r = r'.
Proof.
  unfold lp, lenok. intros Hs Hs' H. rewrite <- !app_assoc in H.
  apply app_inv_length in H; [|rewrite !be64_length; reflexivity].
  destruct H as [Hn H]. apply be64_inj in Hn; [|assumption|assumption].
  apply Nat2N.inj in Hn. apply app_inv_length in H; assumption.
Qed.

Lemma lp_inj s s' : lenok s = true -> lenok s' = true -> lp s = lp s' -> s = s'.
Proof.
  intros Hs Hs' H. apply (lp_inj_app s s' [] []); [assumption|assumption|]. rewrite !app_nil_r. assumption.
Qed.

(* ------------------------------------------------------------------------------------------ *)
(* the grammar of hash keys *)

Definition fix_kind (c : N) : option nat :=
  if ((c =? 105) || (c =? 102) || (c =? 68))%N then Some 8%nat        (* i f D *)
  else if (c =? 84)%N then Some 16%nat                                  (* T *)
  else if (c =? 98)%N then Some 1%nat                                   (* b *)
  else if ((c =? 117) || (c =? 100))%N then Some 0%nat                  (* u d *)
  else None.
Definition lp_kind (c : N) : bool := ((c =? 115) || (c =? 114))%N.     (* s r *)
Definition seq_kind (c : N) : bool := ((c =? 65) || (c =? 72))%N.      (* A H *)
Definition name_ok (name : list N) : Prop := Forall (fun b => 4 < b)%N name.

Inductive Key : list N -> Prop :=
 | K_fix : forall c p, fix_kind c = Some (length p) -> Key (1 :: c :: p)%N
 | K_lp : forall c s, lp_kind c = true -> lenok s = true -> Key (1 :: c :: lp s)%N
 | K_bin : forall s, lenok s = true -> Key (0 :: 66 :: lp s)%N
 | K_seq : forall c ks, seq_kind c = true -> Forall Key ks -> Key (0 :: c :: concat ks ++ [4])%N
 | K_type : forall name ks, name_ok name -> Forall Key ks -> Key (1 :: 116 :: name ++ concat ks ++ [4])%N.

Section KeyInd.
  Variable P : list N -> Prop.
  Hypothesis Hfix : forall c p, fix_kind c = Some (length p) -> P (1 :: c :: p)%N.
  Hypothesis Hlp : forall c s, lp_kind c = true -> lenok s = true -> P (1 :: c :: lp s)%N.
  Hypothesis Hbin : forall s, lenok s = true -> P (0 :: 66 :: lp s)%N.
  Hypothesis Hseq : forall c ks, seq_kind c = true -> Forall Key ks -> Forall P ks -> P (0 :: c :: concat ks ++ [4])%N.
  Hypothesis Htype : forall name ks, name_ok name -> Forall Key ks -> Forall P ks -> P (1 :: 116 :: name ++ concat ks ++ [4])%N.

  Fixpoint Key_ind2 (k : list N) (H : Key k) {struct H} : P k :=
    match H in Key k0 return P k0 with
    | K_fix c p e => Hfix c p e
    | K_lp c s e1 e2 => Hlp c s e1 e2
    | K_bin s e => Hbin s e
    | K_seq c ks e HF =>
        Hseq c ks e HF
          ((fix go (l : list (list N)) (HF : Forall Key l) {struct HF} : Forall P l :=
              match HF in Forall _ l0 return Forall P l0 with
              | Forall_nil _ => Forall_nil P
              | @Forall_cons _ _ x l' Hx Hl => @Forall_cons _ P x l' (Key_ind2 x Hx) (go l' Hl)
              end) ks HF)
    | K_type name ks e HF =>
        Htype name ks e HF
          ((fix go (l : list (list N)) (HF : Forall Key l) {struct HF} : Forall P l :=
              match HF in Forall _ l0 return Forall P l0 with
              | Forall_nil _ => Forall_nil P
              | @Forall_cons _ _ x l' Hx Hl => @Forall_cons _ P x l' (Key_ind2 x Hx) (go l' Hl)
              end) ks HF)
    end.
End KeyInd.

Ltac kinds :=
  repeat match goal with
         | H : (_ || _) = true |- _ => apply orb_true_iff in H; destruct H
         | H : (_ =? _)%N = true |- _ => apply N.eqb_eq in H; subst
         end.

(* a key starts with the tag 0 or 1 *)
Lemma Key_head k : Key k -> exists t rest, k = t :: rest /\ (t = 0 \/ t = 1)%N.
Proof. intros H; destruct H; eexists _, _; (split; [reflexivity|auto]). Qed.

Definition low (x : list N) : Prop := match x with b :: _ => (b <= 4)%N | [] => False end.

Lemma keys_low ks r : Forall Key ks -> low (concat ks ++ 4%N :: r).
Proof.
  intros H. destruct H as [|k ks Hk Hks]; cbn; [lia|].
  destruct (Key_head k Hk) as (t & rest & -> & Ht). cbn. lia.
Qed.

Lemma name_split n n' x x' :
  name_ok n -> name_ok n' -> low x -> low x' -> n ++ x = n' ++ x' -> n = n' /\ x = x'.
Proof.
  unfold name_ok. revert n'; induction n as [|b n IH]; intros [|b' n'] Hn Hn' Hx Hx' H; cbn in *.
  - auto.
  - subst x. inversion Hn'; subst. cbn in Hx. lia.
  - subst x'. inversion Hn; subst. cbn in Hx'. lia.
  - injection H as -> H. inversion Hn; inversion Hn'; subst.
    destruct (IH n') as [-> ->]; auto.
Qed.

Definition PF (a : list N) : Prop :=
  forall b, Key b -> forall r r', a ++ r = b ++ r' -> a = b /\ r = r'.

Lemma seq_decode ks : Forall PF ks -> Forall Key ks -> forall ks' r r',
  Forall Key ks' -> concat ks ++ 4%N :: r = concat ks' ++ 4%N :: r' -> ks = ks' /\ r = r'.
Proof.
  induction ks as [|k ks IH]; intros HP HK [|k' ks'] r r' HK' H; cbn in H.
  - injection H as ->. auto.
  - exfalso. inversion HK' as [|? ? Hk' _]; subst.
    destruct (Key_head k' Hk') as (t & rest & -> & Ht). cbn in H. injection H as <- _. lia.
  - exfalso. inversion HK as [|? ? Hk _]; subst.
    destruct (Key_head k Hk) as (t & rest & -> & Ht). cbn in H. injection H as -> _. lia.
  - inversion HP as [|? ? Pk HP']; inversion HK as [|? ? Hk HK0]; inversion HK' as [|? ? Hk' HK0']; subst.
    rewrite <- !app_assoc in H.
    destruct (Pk k' Hk' _ _ H) as [-> H2].
    destruct (IH HP' HK0 ks' r r' HK0' H2) as [-> ->]. auto.
Qed.

Theorem Key_prefix_free a : Key a -> PF a.
Proof.
  intros Ha. induction Ha as [c p Hc|c s Hc Hs|s Hs|c ks Hc HK IH|name ks Hn HK IH] using Key_ind2;
    intros b Hb r r' H; destruct Hb as [c' p' Hc'|c' s' Hc' Hs'|s' Hs'|c' ks' Hc' HK'|name' ks' Hn' HK'];
    cbn [app] in H; try discriminate.
  - (* fix / fix *)
    apply cons2_inj in H. destruct H as (_ & -> & H). rewrite Hc in Hc'. injection Hc' as Hl.
    destruct (app_inv_length _ _ _ _ Hl H) as [-> ->]. auto.
  - (* fix / lp *) apply cons2_inj in H. destruct H as (_ & -> & _). exfalso. unfold lp_kind in Hc'. kinds; discriminate.
  - (* fix / type *) apply cons2_inj in H. destruct H as (_ & -> & _). discriminate.
  - (* lp / fix *) apply cons2_inj in H. destruct H as (_ & -> & _). exfalso. unfold lp_kind in Hc. kinds; discriminate.
  - (* lp / lp *)
    apply cons2_inj in H. destruct H as (_ & -> & H). destruct (lp_inj_app _ _ _ _ Hs Hs' H) as [-> ->]. auto.
  - (* lp / type *) apply cons2_inj in H. destruct H as (_ & -> & _). discriminate.
  - (* bin / bin *)
    apply cons2_inj in H. destruct H as (_ & _ & H). destruct (lp_inj_app _ _ _ _ Hs Hs' H) as [-> ->]. auto.
  - (* bin / seq *) apply cons2_inj in H. destruct H as (_ & <- & _). discriminate.
  - (* seq / bin *) apply cons2_inj in H. destruct H as (_ & -> & _). discriminate.
  - (* seq / seq *)
    apply cons2_inj in H. destruct H as (_ & -> & H). rewrite <- !app_assoc in H. cbn [app] in H.
    destruct (seq_decode ks IH HK ks' r r' HK' H) as [-> ->]. auto.
  - (* type / fix *) apply cons2_inj in H. destruct H as (_ & <- & _). discriminate.
  - (* type / lp *) apply cons2_inj in H. destruct H as (_ & <- & _). discriminate.
  - (* type / type *)
    apply cons2_inj in H. destruct H as (_ & _ & H). rewrite <- !app_assoc in H. cbn [app] in H.
    destruct (name_split _ _ _ _ Hn Hn' (keys_low ks r HK) (keys_low ks' r' HK') H) as [-> H2].
    destruct (seq_decode ks IH HK ks' r r' HK' H2) as [-> ->]. auto.
Qed.

(* a key is not a proper prefix of another, and equal concatenations of keys have equal parts *)
Corollary Key_inj_app a b r r' : Key a -> Key b -> a ++ r = b ++ r' -> a = b /\ r = r'.
Proof. intros Ha Hb. apply Key_prefix_free; assumption. Qed.

Lemma Forall_PF ks : Forall Key ks -> Forall PF ks.
Proof. intros H. eapply Forall_impl; [|exact H]. apply Key_prefix_free. Qed.

Corollary keys_decode ks ks' r r' :
  Forall Key ks -> Forall Key ks' -> concat ks ++ 4%N :: r = concat ks' ++ 4%N :: r' -> ks = ks' /\ r = r'.
Proof. intros H H'. apply seq_decode; [apply Forall_PF|..]; assumption. Qed.

Corollary k_seq_inj c c' ks ks' :
  Forall Key ks -> Forall Key ks' -> k_seq c ks = k_seq c' ks' -> c = c' /\ ks = ks'.
Proof.
  unfold k_seq. intros H H' E. injection E as -> E.
  destruct (keys_decode ks ks' [] [] H H' E) as [-> _]. auto.
Qed.

Corollary k_type_inj n n' ps ps' :
  name_ok n -> name_ok n' -> Forall Key ps -> Forall Key ps' -> k_type n ps = k_type n' ps' -> n = n' /\ ps = ps'.
Proof.
  unfold k_type. intros Hn Hn' H H' E. injection E as E.
  destruct (name_split _ _ _ _ Hn Hn' (keys_low ps [] H) (keys_low ps' [] H') E) as [-> E2].
  destruct (keys_decode ps ps' [] [] H H' E2) as [-> _]. auto.
Qed.

(* ------------------------------------------------------------------------------------------ *)
(* the scalar keys are keys *)

Lemma Key_undef : Key k_undef. Proof. apply (K_fix 117 []). reflexivity. Qed.
Lemma Key_default : Key k_default. Proof. apply (K_fix 100 []). reflexivity. Qed.
Lemma Key_bool b : Key (k_bool b). Proof. apply (K_fix 98 [_]). reflexivity. Qed.
Lemma Key_int z : Key (k_int z).
Proof. apply K_fix. rewrite be64_length. reflexivity. Qed.
Lemma Key_float b : Key (k_float b).
Proof. apply K_fix. rewrite be64_length. reflexivity. Qed.
Lemma Key_timespan z : Key (k_timespan z).
Proof. apply K_fix. rewrite be64_length. reflexivity. Qed.
Lemma Key_timestamp s ns : Key (k_timestamp s ns).
Proof. apply K_fix. rewrite app_length, !be64_length. reflexivity. Qed.
Lemma Key_str s : lenok s = true -> Key (k_str s). Proof. apply K_lp. reflexivity. Qed.
Lemma Key_regexp s : lenok s = true -> Key (k_regexp s). Proof. apply K_lp. reflexivity. Qed.
Lemma Key_binary s : lenok s = true -> Key (k_binary s). Proof. apply K_bin. Qed.
Lemma Key_seq c ks : seq_kind c = true -> Forall Key ks -> Key (k_seq c ks). Proof. apply K_seq. Qed.
Lemma Key_type n ps : name_ok n -> Forall Key ps -> Key (k_type n ps). Proof. apply K_type. Qed.

(* injectivity of the scalar keys *)
Lemma k_int_inj a b : in_int64 a = true -> in_int64 b = true -> k_int a = k_int b -> a = b.
Proof. unfold k_int. intros Ha Hb H. apply cons2_inj in H. destruct H as (_ & _ & H). apply k64_inj; assumption. Qed.
Lemma k_str_inj a b : lenok a = true -> lenok b = true -> k_str a = k_str b -> a = b.
Proof. unfold k_str. intros Ha Hb H. apply cons2_inj in H. destruct H as (_ & _ & H). apply lp_inj; assumption. Qed.
Lemma k_regexp_inj a b : lenok a = true -> lenok b = true -> k_regexp a = k_regexp b -> a = b.
Proof. unfold k_regexp. intros Ha Hb H. apply cons2_inj in H. destruct H as (_ & _ & H). apply lp_inj; assumption. Qed.
Lemma k_binary_inj a b : lenok a = true -> lenok b = true -> k_binary a = k_binary b -> a = b.
Proof. unfold k_binary. intros Ha Hb H. apply cons2_inj in H. destruct H as (_ & _ & H). apply lp_inj; assumption. Qed.
Lemma k_bool_inj a b : k_bool a = k_bool b -> a = b.
Proof. destruct a, b; cbn; intros H; try reflexivity; discriminate. Qed.

(* floats *)
Lemma fnorm_bits b : bits64 b = true -> bits64 (fnorm b) = true.
Proof. unfold fnorm. destruct (f_is_zero b); [reflexivity|auto]. Qed.
Lemma k_float_inj a b : bits64 a = true -> bits64 b = true -> k_float a = k_float b -> fnorm a = fnorm b.
Proof. unfold k_float. intros Ha Hb H. apply cons2_inj in H. destruct H as (_ & _ & H). apply be64_inj; [apply fnorm_bits; assumption|apply fnorm_bits; assumption|assumption]. Qed.
Lemma feq_true a b : feq a b = true <-> f_is_nan a = false /\ f_is_nan b = false /\ fnorm a = fnorm b.
Proof.
  unfold feq. rewrite !andb_true_iff, !negb_true_iff, N.eqb_eq. tauto.
Qed.
Lemma fnorm_eq_const a c : f_is_zero c = false -> c <> 0%N -> fnorm a = c -> a = c.
Proof. unfold fnorm. destruct (f_is_zero a); intros Hc Hc0 H; congruence. Qed.

(* Timespan: whole seconds stay in the int64 range *)
Lemma tspan_secs_in64 z : in_int64 z = true -> in_int64 (tspan_secs z) = true.
Proof.
  unfold in_int64, tspan_secs, min_int64, max_int64. intros H.
  apply andb_true_iff in H. destruct H as [H1 H2]. apply Z.leb_le in H1, H2.
  apply andb_true_iff. split; apply Z.leb_le.
  - destruct (Z.le_gt_cases 0 z).
    + pose proof (Z.quot_pos z 1000000000). lia.
    + pose proof (Z.quot_opp_l z 1000000000). pose proof (Z.quot_le_upper_bound (- z) 1000000000 (- z)).
      pose proof (Z.quot_pos (-z) 1000000000). lia.
  - destruct (Z.le_gt_cases 0 z).
    + pose proof (Z.quot_le_upper_bound z 1000000000 z). lia.
    + pose proof (Z.quot_opp_l z 1000000000). pose proof (Z.quot_pos (-z) 1000000000). lia.
Qed.
