(* SerDeserProofs.v — the second half of the round trip: the deserializer applied to the reference-free
   Data image of a value rebuilds the value (its documented lossy image when rich_data is off), for every
   value on which the format is unambiguous (rt_ok).  Property C10. *)
From Coq Require Import ZArith NArith Bool Lia List.
From PcoreV Require Import Model.Base Model.Ser Proofs.SerProofs.
Import ListNotations.
Local Open Scope nat_scope.

Lemma sequence_map_ok {A B} (f : A -> res B) (g : A -> B) l :
  (forall x, In x l -> f x = Ok (g x)) -> sequence (map f l) = Ok (map g l).
Proof.
  induction l as [|x l IH]; intros H; cbn; [reflexivity|].
  rewrite (H x (or_introl eq_refl)); cbn. rewrite IH; [reflexivity|]. intros y Hy. apply H. now right.
Qed.

Lemma sequence_flat_ok {A B C} (f : A -> res B) (a b : C -> A) (ga gb : C -> B) l :
  (forall x, In x l -> f (a x) = Ok (ga x) /\ f (b x) = Ok (gb x)) ->
  sequence (map f (flat_map (fun x => [a x; b x]) l)) = Ok (flat_map (fun x => [ga x; gb x]) l).
Proof.
  induction l as [|x l IH]; intros H; cbn; [reflexivity|].
  destruct (H x (or_introl eq_refl)) as [H1 H2]. rewrite H1, H2; cbn.
  cbn in IH. rewrite IH; [reflexivity|]. intros y Hy. apply H. now right.
Qed.

Lemma forallb_map' {A B} (f : A -> B) (p : B -> bool) l : forallb p (map f l) = forallb (fun x => p (f x)) l.
Proof. induction l as [|x l IH]; cbn; [reflexivity|]. now rewrite IH. Qed.

Lemma existsb_map' {A B} (f : A -> B) (p : B -> bool) l : existsb p (map f l) = existsb (fun x => p (f x)) l.
Proof. induction l as [|x l IH]; cbn; [reflexivity|]. now rewrite IH. Qed.

Section Deser.
Context {payload : Type}.
Context (to_s : str -> payload -> str) (of_s : str -> str -> option payload).
Notation data := (@data payload).
Notation rvalue := (@rvalue payload).
Notation pvalue := (@pvalue payload).
Notation centry := (@centry payload).
Notation deser := (deser of_s).
Notation image := (image to_s).
Notation rt_ok := (rt_ok to_s).

(* ------------------------------------------------------------------------------------------------ *)
(* deser with its inner loops as maps *)

Definition key_of (c : centry) : data := fst (fst (fst c)).

Definition centries (l : list (data * data)) : list centry :=
  map (fun kv => (fst kv, snd kv, deser (fst kv), deser (snd kv))) l.

Definition conv_type (tv : data) (rtv : res pvalue) : res pvalue :=
  match tv with
  | DHash _ => bind rtv (fun t => match t with PHash _ => Err | _ => Ok t end)
  | DStr s => Ok (PStr s)
  | _ => Err
  end.

Definition plain_hash (cl : list centry) : res pvalue :=
  bind (sequence (map centry_pair cl)) (fun ps => Ok (PHash ps)).

(* deserializer.go:47-96, the body of convert on a hash *)
Definition hash_body (cl : list centry) : res pvalue :=
  if forallb (fun c => is_dstr (key_of c)) cl then
    match clookup ptype_key cl with
    | None => plain_hash cl
    | Some (tv, rtv) =>
        if dkey_is t_hash tv then
          match clookup pvalue_key cl with
          | None => Ok (PHash [])
          | Some (DArr _, rv) =>
              bind rv (fun pv => match pv with
                                 | PArr ps => match pair_up ps with Some es => Ok (PHash es) | None => Fault end
                                 | _ => Fault end)
          | Some _ => Fault
          end
        else if dkey_is t_sensitive tv then
          match clookup pvalue_key cl with
          | None => Ok (PSens PUndef)
          | Some (_, rv) => bind rv (fun pv => Ok (PSens pv))
          end
        else if dkey_is t_default tv then Ok PDefault
        else
          bind (conv_type tv rtv) (fun typ =>
            match clookup pvalue_key cl with
            | None =>
                bind (sequence (map centry_pair (filter (fun c => negb (dkey_is ptype_key (key_of c))) cl)))
                     (fun ps => Ok (PObj typ ps))
            | Some (DHash _, rv) =>
                bind rv (fun pv => match pv with PHash ps => Ok (PObj typ ps) | _ => Fault end)
            | Some (DStr s, _) =>
                match typ with
                | PStr tn => match of_s tn s with Some p => Ok (PRich tn p) | None => Err end
                | _ => Err
                end
            | Some _ => Err
            end)
    end
  else plain_hash cl.

Lemma deser_arr l : deser (DArr l) = bind (sequence (map deser l)) (fun ps => Ok (PArr ps)).
Proof.
  reflexivity.
Qed.

Lemma deser_hash l : deser (DHash l) = hash_body (centries l).
Proof.
  cbn [Ser.deser].
  assert (E : (fix go (l0 : list (data * data)) : list centry :=
                 match l0 with
                 | [] => []
                 | (k, v) :: l' => (k, v, deser k, deser v) :: go l'
                 end) l = centries l).
  { induction l as [|[k v] l IH]; cbn; [reflexivity|]. now rewrite IH. }
  rewrite E. reflexivity.
Qed.

Lemma clookup_none s (cl : list centry) :
  existsb (dkey_is s) (map key_of cl) = false -> clookup s cl = None.
Proof.
  induction cl as [|[[[k v] rk] rv] cl IH]; cbn; [reflexivity|].
  unfold key_of at 1; cbn. destruct (dkey_is s k); cbn; [discriminate|]. exact IH.
Qed.

Lemma hash_body_plain cl : reads_as_rich (map key_of cl) = false -> hash_body cl = plain_hash cl.
Proof.
  unfold reads_as_rich, hash_body. rewrite forallb_map'.
  destruct (forallb (fun c => is_dstr (key_of c)) cl); cbn [andb]; [|reflexivity].
  intros H. now rewrite (clookup_none _ _ H).
Qed.

Lemma hash_body_default r1 r2 : hash_body [(DStr ptype_key, DStr t_default, r1, r2)] = Ok PDefault.
Proof. reflexivity. Qed.

Lemma hash_body_sensitive r1 r2 r3 d rv :
  hash_body [(DStr ptype_key, DStr t_sensitive, r1, r2); (DStr pvalue_key, d, r3, rv)] =
  bind rv (fun pv => Ok (PSens pv)).
Proof. reflexivity. Qed.

Lemma hash_body_exthash r1 r2 r3 l rv :
  hash_body [(DStr ptype_key, DStr t_hash, r1, r2); (DStr pvalue_key, DArr l, r3, rv)] =
  bind rv (fun pv => match pv with
                     | PArr ps => match pair_up ps with Some es => Ok (PHash es) | None => Fault end
                     | _ => Fault end).
Proof. reflexivity. Qed.

Lemma reserved_tn_false tn :
  reserved_tn tn = false -> str_eqb t_hash tn = false /\ str_eqb t_sensitive tn = false /\ str_eqb t_default tn = false.
Proof. unfold reserved_tn. intros H. apply orb_false_elim in H as [H H3]. apply orb_false_elim in H as [H1 H2]. auto. Qed.

Lemma hash_body_richstr tn s r1 r2 r3 r4 :
  reserved_tn tn = false ->
  hash_body [(DStr ptype_key, DStr tn, r1, r2); (DStr pvalue_key, DStr s, r3, r4)] =
  match of_s tn s with Some p => Ok (PRich tn p) | None => Err end.
Proof.
  intros H. destruct (reserved_tn_false _ H) as (H1 & H2 & H3).
  unfold hash_body. cbn [forallb key_of fst is_dstr andb clookup].
  change (dkey_is ptype_key (DStr ptype_key)) with true. cbn iota.
  cbn [dkey_is]. rewrite H1, H2, H3. cbn [conv_type bind].
  change (str_eqb pvalue_key ptype_key) with false. cbn iota.
  change (str_eqb pvalue_key pvalue_key) with true. cbn iota. reflexivity.
Qed.

(* an object: {__ptype => type, attribute => value ...} *)
Lemma hash_body_obj tv r0 rtv typ (acl : list centry) ps :
  (forall c, In c acl -> exists k, key_of c = DStr k /\ reserved_key k = false) ->
  dkey_is t_hash tv = false -> dkey_is t_sensitive tv = false -> dkey_is t_default tv = false ->
  conv_type tv rtv = Ok typ ->
  sequence (map centry_pair acl) = Ok ps ->
  hash_body ((DStr ptype_key, tv, r0, rtv) :: acl) = Ok (PObj typ ps).
Proof.
  intros Hk H1 H2 H3 Hty Hseq.
  assert (Hall : forallb (fun c => is_dstr (key_of c)) acl = true).
  { apply forallb_forall. intros c Hc. destruct (Hk c Hc) as (k & -> & _). reflexivity. }
  assert (Hpv : clookup pvalue_key acl = None).
  { clear Hseq Hall. induction acl as [|[[[k v] rk] rv] acl IH]; cbn; [reflexivity|].
    destruct (Hk _ (or_introl eq_refl)) as (k' & Hk' & Hr). unfold key_of in Hk'; cbn in Hk'. subst k.
    unfold reserved_key in Hr. apply orb_false_elim in Hr as [_ Hr]. cbn [dkey_is]. rewrite Hr.
    apply IH. intros c Hc. apply Hk. now right. }
  assert (Hfl : filter (fun c => negb (dkey_is ptype_key (key_of c))) acl = acl).
  { clear Hseq Hall Hpv. induction acl as [|c acl IH]; cbn; [reflexivity|].
    destruct (Hk _ (or_introl eq_refl)) as (k' & Hk' & Hr). rewrite Hk'.
    unfold reserved_key in Hr. apply orb_false_elim in Hr as [Hr _]. cbn [dkey_is]. rewrite Hr. cbn [negb].
    f_equal. apply IH. intros c' Hc'. apply Hk. now right. }
  unfold hash_body. cbn [forallb key_of fst is_dstr andb clookup]. fold key_of. rewrite Hall.
  change (dkey_is ptype_key (DStr ptype_key)) with true. cbn iota.
  rewrite H1, H2, H3, Hty. cbn [bind].
  change (dkey_is pvalue_key (DStr ptype_key)) with false. cbn iota. rewrite Hpv.
  cbn [filter key_of fst].
  change (dkey_is ptype_key (DStr ptype_key)) with true. cbn [negb]. fold key_of. rewrite Hfl, Hseq. reflexivity.
Qed.

(* ------------------------------------------------------------------------------------------------ *)
(* erase / degrade with their inner loops as maps *)

Lemma erase_hash id es :
  erase (VHash id es) = PHash (map (fun en : rvalue * str * rvalue => (erase (fst (fst en)), erase (snd en))) es).
Proof. cbn [erase]. f_equal. induction es as [|[[k kd] x] es IH]; cbn; [reflexivity|]. now rewrite IH. Qed.

Lemma erase_obj id ty hint attrs disp :
  erase (VObj id ty hint attrs disp) =
  PObj (erase ty) (map (fun a : str * rvalue => (PStr (fst a), erase (snd a))) attrs).
Proof. cbn [erase]. f_equal. induction attrs as [|[k x] attrs IH]; cbn; [reflexivity|]. now rewrite IH. Qed.

Definition key_deg (en : rvalue * str * rvalue) : pvalue :=
  match fst (fst en) with VStr s => PStr s | _ => PStr (snd (fst en)) end.

Lemma degrade_hash e id es :
  degrade e (VHash id es) =
  if e_ck e || all_keys_str es
  then PHash (map (fun en : rvalue * str * rvalue => (degrade e (fst (fst en)), degrade e (snd en))) es)
  else PHash (map (fun en => (key_deg en, degrade e (snd en))) es).
Proof.
  cbn [degrade]. destruct (e_ck e || all_keys_str es); f_equal.
  - induction es as [|[[k kd] x] es IH]; cbn; [reflexivity|]. now rewrite IH.
  - induction es as [|[[k kd] x] es IH]; cbn; [reflexivity|]. rewrite IH. unfold key_deg; cbn. now destruct k.
Qed.

(* ------------------------------------------------------------------------------------------------ *)

Variable e : env.

(* the string form of every value with a serialization string in v is inverted by its constructor *)
Definition node_ok (n : rvalue) : Prop :=
  match n with
  | VBin _ p _ => of_s t_binary (to_s t_binary p) = Some p
  | VRich _ tn _ p _ => of_s tn (to_s tn p) = Some p
  | _ => True
  end.
Definition strs_ok (v : rvalue) : Prop := forall n, sub n v -> node_ok n.

Lemma strs_ok_child c v : strs_ok v -> child c v -> strs_ok c.
Proof. intros H Hc n Hn. apply H. now apply (sub_step n c v). Qed.

Lemma strs_ok_self v : strs_ok v -> node_ok v.
Proof. intros H. apply H. constructor. Qed.

Lemma plain_pairs (F : rvalue * str * rvalue -> data * data) (G : rvalue * str * rvalue -> pvalue * pvalue) es :
  (forall en, In en es -> deser (fst (F en)) = Ok (fst (G en)) /\ deser (snd (F en)) = Ok (snd (G en))) ->
  plain_hash (centries (map F es)) = Ok (PHash (map G es)).
Proof.
  intros H. unfold plain_hash, centries. rewrite !map_map.
  rewrite (sequence_map_ok _ G); [reflexivity|].
  intros en Hen. destruct (H en Hen) as [H1 H2]. cbn [centry_pair]. rewrite H1, H2. cbn [bind].
  now destruct (G en).
Qed.

Theorem deser_image_rich v :
  e_rich e = true -> strs_ok v -> rt_ok e v = true -> deser (image e v) = Ok (erase v).
Proof.
  intros Er.
  induction v as [ | b | z | f | s | | id vs IH | id es IH | id x IH | id p disp | id tn l2 p disp
                   | id ty hint attrs disp IHty IHattrs ] using rvalue_ind'; intros Hs Hok;
    try reflexivity.
  - (* Default *) cbn [Ser.image]. rewrite Er. reflexivity.
  - (* Array *)
    cbn [Ser.image Ser.rt_ok] in *. rewrite deser_arr, map_map.
    rewrite forallb_forall in Hok. rewrite Forall_forall in IH.
    rewrite (sequence_map_ok _ erase); [reflexivity|].
    intros x Hx. apply IH; [assumption| |now apply Hok]. apply (strs_ok_child _ _ Hs). now constructor.
  - (* Hash *)
    rewrite Forall_forall in IH. rewrite image_hash, erase_hash. cbn [Ser.rt_ok] in Hok. rewrite Er in *.
    assert (Hch : forall en, In en es -> rt_ok e (fst (fst en)) && rt_ok e (snd en) = true ->
                   deser (image e (fst (fst en))) = Ok (erase (fst (fst en))) /\
                   deser (image e (snd en)) = Ok (erase (snd en))).
    { intros en Hen Hb. apply andb_prop in Hb as [Hb1 Hb2]. split.
      - apply (proj1 (IH en Hen)); [|assumption]. apply (strs_ok_child _ _ Hs). now constructor.
      - apply (proj2 (IH en Hen)); [|assumption]. apply (strs_ok_child _ _ Hs). now constructor. }
    destruct (e_ck e || all_keys_str es).
    + apply andb_prop in Hok as [Hall Hnr]. rewrite forallb_forall in Hall. apply negb_true_iff in Hnr.
      rewrite deser_hash, hash_body_plain.
      * apply (plain_pairs (fun en => (image e (fst (fst en)), image e (snd en)))
                           (fun en => (erase (fst (fst en)), erase (snd en)))).
        intros en Hen. cbn [fst snd]. now apply Hch; [|apply Hall].
      * unfold centries. rewrite !map_map. cbn [key_of fst]. exact Hnr.
    + rewrite forallb_forall in Hok.
      rewrite deser_hash. cbn [centries map fst snd]. rewrite hash_body_exthash, deser_arr.
      rewrite (sequence_flat_ok _ _ _ (fun en => erase (fst (fst en))) (fun en => erase (snd en))).
      * cbn [bind]. now rewrite pair_up_flat.
      * intros en Hen. now apply Hch; [|apply Hok].
  - (* Sensitive *)
    cbn [Ser.image Ser.rt_ok erase] in *. rewrite Er in *. cbn [negb orb] in Hok.
    rewrite deser_hash. cbn [centries map fst snd]. rewrite hash_body_sensitive, IH; [reflexivity| |assumption].
    apply (strs_ok_child _ _ Hs). constructor.
  - (* Binary *)
    cbn [Ser.image erase]. destruct (e_bin e); [reflexivity|]. rewrite Er.
    rewrite deser_hash. cbn [centries map fst snd]. rewrite hash_body_richstr by reflexivity.
    now rewrite (strs_ok_self _ Hs).
  - (* a value with a serialization string *)
    cbn [Ser.image erase Ser.rt_ok] in *. rewrite Er in *. cbn [negb orb] in Hok. apply negb_true_iff in Hok.
    rewrite deser_hash. cbn [centries map fst snd]. rewrite hash_body_richstr by assumption.
    now rewrite (strs_ok_self _ Hs).
  - (* an object *)
    rewrite image_obj, erase_obj. cbn [Ser.rt_ok] in Hok. rewrite Er in *. cbn [negb orb] in Hok.
    apply andb_prop in Hok as [Hok Hat]. apply andb_prop in Hok as [Hty Hshape].
    rewrite forallb_forall in Hat. rewrite Forall_forall in IHattrs.
    assert (Ety : deser (image e ty) = Ok (erase ty)).
    { apply IHty; [|assumption]. apply (strs_ok_child _ _ Hs). constructor. }
    rewrite deser_hash. cbn [centries map fst snd]. rewrite map_map. cbn [fst snd].
    apply hash_body_obj.
    + intros c Hc. apply in_map_iff in Hc as (a & <- & Ha). exists (fst a). split; [reflexivity|].
      specialize (Hat a Ha). apply andb_prop in Hat as [Hat _]. now apply negb_true_iff in Hat.
    + destruct ty; try discriminate; cbn [Ser.image]; rewrite ?Er; cbn [dkey_is]; try reflexivity.
      apply negb_true_iff in Hshape. now destruct (reserved_tn_false _ Hshape) as (-> & _ & _).
    + destruct ty; try discriminate; cbn [Ser.image]; rewrite ?Er; cbn [dkey_is]; try reflexivity.
      apply negb_true_iff in Hshape. now destruct (reserved_tn_false _ Hshape) as (_ & -> & _).
    + destruct ty; try discriminate; cbn [Ser.image]; rewrite ?Er; cbn [dkey_is]; try reflexivity.
      apply negb_true_iff in Hshape. now destruct (reserved_tn_false _ Hshape) as (_ & _ & ->).
    + rewrite Ety. destruct ty; try discriminate; cbn [Ser.image conv_type]; rewrite ?Er; cbn [conv_type bind];
        try reflexivity.
    + rewrite map_map. apply (sequence_map_ok _ (fun a : str * rvalue => (PStr (fst a), erase (snd a)))).
      intros a Ha. cbn [centry_pair bind]. rewrite IHattrs; [reflexivity|assumption| |].
      * apply (strs_ok_child _ _ Hs). now constructor.
      * specialize (Hat a Ha). now apply andb_prop in Hat as [_ Hat].
Qed.

Theorem deser_image_plain v :
  e_rich e = false -> rt_ok e v = true -> deser (image e v) = Ok (degrade e v).
Proof.
  intros Er.
  induction v as [ | b | z | f | s | | id vs IH | id es IH | id x IH | id p disp | id tn l2 p disp
                   | id ty hint attrs disp IHty IHattrs ] using rvalue_ind'; intros Hok;
    try reflexivity.
  - (* Default *) cbn [Ser.image]. rewrite Er. reflexivity.
  - (* Array *)
    cbn [Ser.image Ser.rt_ok degrade] in *. rewrite deser_arr, map_map.
    rewrite forallb_forall in Hok. rewrite Forall_forall in IH.
    rewrite (sequence_map_ok _ (degrade e)); [reflexivity|].
    intros x Hx. apply IH; [assumption|now apply Hok].
  - (* Hash *)
    rewrite Forall_forall in IH. rewrite image_hash, degrade_hash. cbn [Ser.rt_ok] in Hok. rewrite Er in *.
    destruct (e_ck e || all_keys_str es).
    + apply andb_prop in Hok as [Hall Hnr]. rewrite forallb_forall in Hall. apply negb_true_iff in Hnr.
      rewrite deser_hash, hash_body_plain.
      * apply (plain_pairs (fun en => (image e (fst (fst en)), image e (snd en)))
                           (fun en => (degrade e (fst (fst en)), degrade e (snd en)))).
        intros en Hen. cbn [fst snd]. specialize (Hall en Hen). apply andb_prop in Hall as [Hb1 Hb2].
        split; [now apply (proj1 (IH en Hen))|now apply (proj2 (IH en Hen))].
      * unfold centries. rewrite !map_map. cbn [key_of fst]. exact Hnr.
    + apply andb_prop in Hok as [Hall Hnr]. rewrite forallb_forall in Hall. apply negb_true_iff in Hnr.
      rewrite deser_hash, hash_body_plain.
      * apply (plain_pairs (fun en => (key_img en, image e (snd en))) (fun en => (key_deg en, degrade e (snd en)))).
        intros en Hen. cbn [fst snd]. split; [|now apply (proj2 (IH en Hen)), Hall].
        unfold key_img, key_deg. now destruct (fst (fst en)).
      * unfold centries. rewrite !map_map. cbn [key_of fst]. unfold reads_as_rich. rewrite existsb_map'.
        replace (existsb (fun en => dkey_is ptype_key (key_img en)) es) with false; [apply andb_false_r|].
        rewrite <- Hnr. clear. induction es as [|en es IH]; cbn; [reflexivity|]. rewrite <- IH. f_equal.
        unfold key_img. now destruct (fst (fst en)).
  - (* Sensitive *) cbn [Ser.image degrade]. rewrite Er. reflexivity.
  - (* Binary *) cbn [Ser.image degrade]. destruct (e_bin e); [reflexivity|]. rewrite Er. reflexivity.
  - (* a value with a serialization string *) cbn [Ser.image degrade]. rewrite Er. reflexivity.
  - (* an object *) rewrite image_obj. rewrite Er. reflexivity.
Qed.

Theorem deser_image v :
  strs_ok v -> rt_ok e v = true -> deser (image e v) = Ok (expected e v).
Proof.
  intros Hs Hok. unfold expected. destruct (e_rich e) eqn:Er.
  - now apply deser_image_rich.
  - now apply deser_image_plain.
Qed.

End Deser.

(* ------------------------------------------------------------------------------------------------ *)
(* the round trip *)

Theorem roundtrip_ok {payload} (to_s : str -> payload -> str) (of_s : str -> str -> option payload) o c x :
  wf_rich x -> strs_ok to_s of_s x -> rt_ok to_s (env_of o c) x = true ->
  roundtrip to_s of_s o c x = Ok (expected (env_of o c) x).
Proof.
  intros Hwf Hs Hok. unfold roundtrip. rewrite (collect_serialize to_s o c x Hwf). cbn [bind].
  now apply deser_image.
Qed.

Theorem roundtrip_rich {payload} (to_s : str -> payload -> str) (of_s : str -> str -> option payload) :
  (forall tn p, of_s tn (to_s tn p) = Some p) ->
  forall o c x, wf_rich x -> rt_ok to_s (env_of o c) x = true ->
  roundtrip to_s of_s o c x = Ok (expected (env_of o c) x).
Proof.
  intros Hinv o c x Hwf Hok. apply roundtrip_ok; [assumption| |assumption].
  intros n _. destruct n; cbn; auto.
Qed.

(* the plain Data fragment needs nothing of the string forms and comes back as itself under all options *)
Lemma is_data_child {payload} (c v : @rvalue payload) : is_data v = true -> child c v -> is_data c = true.
Proof.
  intros Hd Hc. destruct Hc as [id vs x Hin|id es en Hin|id es en Hin|id x|id ty hint attrs disp|id ty hint attrs disp a Hin];
    cbn [is_data] in Hd; try discriminate.
  - rewrite forallb_forall in Hd. now apply Hd.
  - rewrite forallb_forall in Hd. specialize (Hd en Hin). apply andb_prop in Hd as [Hd _].
    now destruct (fst (fst en)).
  - rewrite forallb_forall in Hd. specialize (Hd en Hin). now apply andb_prop in Hd as [_ Hd].
Qed.

Lemma is_data_strs_ok {payload} (to_s : str -> payload -> str) of_s (v : @rvalue payload) :
  is_data v = true -> strs_ok to_s of_s v.
Proof.
  intros Hd n Hn. revert Hd. induction Hn as [|c v Hc Hs IH]; intros Hd.
  - destruct n; cbn in *; auto; discriminate.
  - apply IH. now apply (is_data_child c v).
Qed.

Lemma is_data_expected {payload} e (v : @rvalue payload) : is_data v = true -> expected e v = erase v.
Proof.
  unfold expected. destruct (e_rich e); [reflexivity|].
  induction v as [ | b | z | f | s | | id vs IH | id es IH | id x IH | id p disp | id tn l2 p disp
                   | id ty hint attrs disp IHty IHattrs ] using rvalue_ind'; intros Hd;
    try reflexivity; try discriminate.
  - cbn [degrade erase is_data] in *. f_equal. rewrite forallb_forall in Hd. rewrite Forall_forall in IH.
    apply map_ext_in. intros x Hx. now apply IH, Hd.
  - rewrite degrade_hash, erase_hash. cbn [is_data] in Hd. rewrite forallb_forall in Hd. rewrite Forall_forall in IH.
    assert (Hall : all_keys_str es = true).
    { apply forallb_forall. intros en Hen. specialize (Hd en Hen). now apply andb_prop in Hd as [Hd _]. }
    rewrite Hall, orb_true_r. f_equal. apply map_ext_in. intros en Hen. specialize (Hd en Hen).
    apply andb_prop in Hd as [Hk Hx]. f_equal.
    + now destruct (fst (fst en)).
    + now apply (proj2 (IH en Hen)).
Qed.

Theorem roundtrip_data {payload} (to_s : str -> payload -> str) (of_s : str -> str -> option payload) o c x :
  is_data x = true -> wf_rich x -> rt_ok to_s (env_of o c) x = true ->
  roundtrip to_s of_s o c x = Ok (erase x).
Proof.
  intros Hd Hwf Hok. rewrite <- (is_data_expected (env_of o c) x Hd).
  apply roundtrip_ok; [assumption|now apply is_data_strs_ok|assumption].
Qed.
