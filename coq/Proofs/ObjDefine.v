(* ObjDefine.v — every definition that `define` (objectType.InitFromHash by either route) accepts, in an
   environment of accepted definitions, has a well-formed attributes info (layout), provided its
   serialization list (if any) is a duplicate-free enumeration of all constructor attributes. *)
From Coq Require Import ZArith NArith Bool List Lia Arith Permutation.
From PcoreV Require Import Model.Base Model.Obj Proofs.ObjProofs.
Import ListNotations.
Open Scope Z_scope.

Local Arguments Nat.ltb : simpl never.
Local Arguments Nat.leb : simpl never.

Lemma bind_ok {A B} (r : result A) (f : A -> result B) b : bind r f = Ok b -> exists a, r = Ok a /\ f a = Ok b.
Proof. destruct r as [a|e]; cbn [bind]; [eauto|discriminate]. Qed.

(* ---- the ordered member map: Put replaces in place or appends ---- *)

Lemma put_attr_names m a :
  map a_name (put_attr m a) =
  if mem_str (a_name a) (map a_name m) then map a_name m else map a_name m ++ [a_name a].
Proof.
  induction m as [|x r IH]; cbn [put_attr map mem_str app]; [reflexivity|].
  destruct (str_eqb (a_name x) (a_name a)) eqn:E; cbn [orb map].
  - apply str_eqb_eq in E. now rewrite E.
  - rewrite IH. now destruct (mem_str (a_name a) (map a_name r)).
Qed.

Lemma nodup_str_snoc l n : nodup_str l = true -> mem_str n l = false -> nodup_str (l ++ [n]) = true.
Proof.
  intros H1 H2. apply nodup_str_NoDup. apply nodup_str_NoDup in H1. apply mem_str_notIn in H2.
  apply NoDup_rev in H1. rewrite <- (rev_involutive (l ++ [n])). apply NoDup_rev. rewrite rev_app_distr. cbn [rev app].
  constructor; [|assumption]. now rewrite <- in_rev.
Qed.

Lemma put_attr_nodup m a : nodup_str (map a_name m) = true -> nodup_str (map a_name (put_attr m a)) = true.
Proof.
  intros H. rewrite put_attr_names. destruct (mem_str (a_name a) (map a_name m)) eqn:E; [assumption|].
  now apply nodup_str_snoc.
Qed.

Lemma put_attr_In m a b : In b (put_attr m a) -> b = a \/ In b m.
Proof.
  induction m as [|x r IH]; cbn [put_attr In].
  - intros [<-|[]]. now left.
  - destruct (str_eqb (a_name x) (a_name a)); cbn [In].
    + intros [<-|H]; auto.
    + intros [<-|H]; auto. destruct (IH H); auto.
Qed.

Lemma put_attr_forallb (f : attr -> bool) m a : forallb f m = true -> f a = true -> forallb f (put_attr m a) = true.
Proof.
  intros Hm Ha. apply forallb_forall. intros b Hb. apply put_attr_In in Hb as [->|Hb]; [assumption|].
  rewrite forallb_forall in Hm. now apply Hm.
Qed.

Lemma find_put m a n : find_attr (put_attr m a) n = if str_eqb (a_name a) n then Some a else find_attr m n.
Proof.
  induction m as [|x r IH]; cbn [put_attr find_attr]; [reflexivity|].
  destruct (str_eqb (a_name x) (a_name a)) eqn:E; cbn [find_attr].
  - apply str_eqb_eq in E. rewrite E. now destruct (str_eqb (a_name a) n).
  - rewrite IH. destruct (str_eqb (a_name x) n) eqn:E2; [|reflexivity].
    apply str_eqb_eq in E2. subst n. rewrite str_eqb_sym in E. now rewrite E.
Qed.

Lemma find_attr_none l n : mem_str n (map a_name l) = false -> find_attr l n = None.
Proof.
  induction l as [|x r IH]; cbn [map mem_str find_attr]; [reflexivity|]. intros H.
  apply orb_false_iff in H as [H1 H2]. now rewrite H1, IH.
Qed.

Lemma find_attr_some l n a : find_attr l n = Some a -> In a l /\ a_name a = n.
Proof.
  induction l as [|x r IH]; cbn [find_attr]; [discriminate|]. destruct (str_eqb (a_name x) n) eqn:E.
  - intros H; inversion H; subst. apply str_eqb_eq in E. split; [now left|assumption].
  - intros H. destruct (IH H). split; [now right|assumption].
Qed.

Lemma find_attr_In l a : nodup_str (map a_name l) = true -> In a l -> find_attr l (a_name a) = Some a.
Proof.
  intros Hnd Hin. destruct (find_attr l (a_name a)) as [b|] eqn:E.
  - apply find_attr_some in E as [Hb Hn]. f_equal. eapply same_name_eq; eauto.
  - exfalso. assert (H : mem_str (a_name a) (map a_name l) = true) by (apply mem_str_In; now apply in_map).
    clear Hnd. induction l as [|x r IH]; [contradiction|]. cbn [find_attr] in E. cbn [map mem_str] in H.
    destruct (str_eqb (a_name x) (a_name a)) eqn:E2; [discriminate|]. cbn [orb] in H.
    destruct Hin as [->|Hin]; [now rewrite str_eqb_refl in E2|]. now apply IH.
Qed.

Lemma put_all_nodup l m : nodup_str (map a_name m) = true -> nodup_str (map a_name (put_all m l)) = true.
Proof.
  unfold put_all. revert m; induction l as [|x r IH]; intros m H; cbn [fold_left]; [assumption|].
  apply IH. now apply put_attr_nodup.
Qed.

Lemma put_all_forallb (f : attr -> bool) l m : forallb f m = true -> forallb f l = true -> forallb f (put_all m l) = true.
Proof.
  unfold put_all. revert m; induction l as [|x r IH]; intros m Hm Hl; cbn [fold_left]; [assumption|].
  cbn [forallb] in Hl. apply andb_true_iff in Hl as [Hx Hr]. apply IH; [|assumption]. now apply put_attr_forallb.
Qed.

Lemma find_put_all l : nodup_str (map a_name l) = true -> forall m n,
  find_attr (put_all m l) n = match find_attr l n with Some a => Some a | None => find_attr m n end.
Proof.
  unfold put_all. induction l as [|x r IH]; intros Hnd m n; cbn [fold_left find_attr]; [reflexivity|].
  cbn [map nodup_str] in Hnd. apply andb_true_iff in Hnd as [Hx Hr]. apply negb_true_iff in Hx.
  rewrite (IH Hr), find_put. destruct (str_eqb (a_name x) n) eqn:E; [|reflexivity].
  apply str_eqb_eq in E. subst n. now rewrite (find_attr_none r _ Hx).
Qed.

(* collectAttributes never lists a name twice *)
Lemma collect_attributes_nodup d : nodup_str (map a_name (collect_attributes d)) = true.
Proof.
  induction d as [n own eq it se info|n q own eq it se info IH] using objdef_ind'; cbn [collect_attributes];
    apply put_all_nodup; [reflexivity|assumption].
Qed.

(* ---- the invariant of accepted definitions: own attributes have distinct names, a given_or_derived
        attribute carries no value or the implicit undef, a constant has a value, all along the parent chain ---- *)

Fixpoint def_okb (d : objdef) : bool :=
  match d with
  | mkDef _ p own _ _ _ _ =>
    nodup_str (map a_name own) && forallb attr_wf own && match p with Some q => def_okb q | None => true end
  end.

Lemma collect_attributes_wf d : def_okb d = true -> forallb attr_wf (collect_attributes d) = true.
Proof.
  induction d as [n own eq it se info|n q own eq it se info IH] using objdef_ind'; cbn [def_okb collect_attributes];
    intros H; apply andb_true_iff in H as [H H3]; apply andb_true_iff in H as [H1 H2];
    apply put_all_forallb; auto.
Qed.

(* Member = lookup in the collected attributes *)
Lemma member_collect d n : def_okb d = true -> member d n = find_attr (collect_attributes d) n.
Proof.
  induction d as [nm own eq it se info|nm q own eq it se info IH] using objdef_ind'; cbn [def_okb member collect_attributes];
    intros H; apply andb_true_iff in H as [H H3]; apply andb_true_iff in H as [H1 H2];
    rewrite (find_put_all own H1).
  - now destruct (find_attr own n).
  - rewrite (IH H3). now destruct (find_attr own n).
Qed.

(* ---- attribute.initialize ---- *)

Lemma new_attribute_wf name spec a : new_attribute name spec = Ok a -> attr_wf a = true.
Proof.
  unfold new_attribute. destruct (negb (struct_inst attribute_schema (VHash spec))); [discriminate|].
  destruct (match hget spec k_go_name with Some _ => true | None => false end); [discriminate|].
  intros H. apply bind_ok in H as (typ & _ & H). apply bind_ok in H as (final & _ & H).
  set (knd := match hget spec k_kind with
              | Some (VStr s) => match kind_of_string s with Some k => k | None => KNormal end
              | _ => KNormal end) in *.
  destruct (hget spec k_value) as [v|].
  - destruct (kind_eqb knd KDerived || kind_eqb knd KGivenOrDerived) eqn:E; [discriminate|].
    apply orb_false_iff in E as [_ E].
    destruct (match v with VDefault => true | _ => inst typ v end); [|discriminate]. inversion H; subst a.
    unfold attr_wf, has_value. cbn [a_kind a_value]. rewrite E. cbn. apply orb_true_r.
  - destruct (kind_eqb knd KConstant) eqn:Ec; [discriminate|]. inversion H; subst a. unfold attr_wf. cbn [a_kind a_value].
    rewrite Ec. cbn [negb orb andb]. rewrite andb_true_r.
    destruct (kind_eqb knd KGivenOrDerived) eqn:E; [|reflexivity]. cbn [negb orb andb].
    now destruct (is_optional_ty _).
Qed.

Lemma attr_of_spec_wf k v a : attr_of_spec k v = Ok a -> attr_wf a = true.
Proof.
  unfold attr_of_spec. destruct v; cbn [parse_type_string bind]; try discriminate; apply new_attribute_wf.
Qed.

Lemma build_attrs_ok : forall specs pm acc own, build_attrs specs pm acc = Ok own ->
  nodup_str (map a_name acc) = true -> forallb attr_wf acc = true ->
  nodup_str (map a_name own) = true /\ forallb attr_wf own = true.
Proof.
  induction specs as [|[k v] r IH]; intros pm acc own H Hn Hw; cbn [build_attrs] in H.
  - inversion H; subst. auto.
  - apply bind_ok in H as (a & Ha & H). apply bind_ok in H as (u & _ & H).
    apply (IH _ _ _ H); [now apply put_attr_nodup|]. apply put_attr_forallb; [assumption|].
    eapply attr_of_spec_wf; eauto.
Qed.

(* ---- createAttributesInfo ---- *)

Lemma filter_partition_perm {A} (p : A -> bool) l :
  Permutation (filter (fun x => negb (p x)) l ++ filter p l) l.
Proof.
  induction l as [|x l IH]; cbn [filter]; [constructor|]. destruct (p x); cbn [negb app].
  - etransitivity; [symmetry; apply Permutation_middle|]. now constructor.
  - now constructor.
Qed.

Lemma forallb_filter_self {A} (p : A -> bool) l : forallb p (filter p l) = true.
Proof. apply forallb_forall. intros x Hx. now apply filter_In in Hx. Qed.

Lemma forallb_filter_sub {A} (f p : A -> bool) l : forallb f l = true -> forallb f (filter p l) = true.
Proof.
  intros H. apply forallb_forall. intros x Hx. apply filter_In in Hx as [Hx _]. rewrite forallb_forall in H. now apply H.
Qed.

Lemma req_prefix_zero l : forallb is_opt_attr l = true -> req_prefix l O = true.
Proof. induction l as [|a r IH]; cbn [forallb req_prefix]; [reflexivity|]. intros H. apply andb_true_iff in H as [-> H]. now apply IH. Qed.

Lemma req_prefix_app A B : forallb (fun a => negb (is_opt_attr a)) A = true -> forallb is_opt_attr B = true ->
  req_prefix (A ++ B) (length A) = true.
Proof.
  intros HA HB. induction A as [|a r IH]; cbn [app length req_prefix]; [now apply req_prefix_zero|].
  cbn [forallb] in HA. apply andb_true_iff in HA as [-> HA]. now apply IH.
Qed.

Definition eq_indexes (attrs : list attr) (equality : list str) : list nat :=
  flat_map (fun e => match name_to_pos attrs e with Some ix => [ix] | None => [] end) equality.

Lemma eq_indexes_lt attrs equality :
  forallb (fun k => Nat.ltb k (length attrs)) (eq_indexes attrs equality) = true.
Proof.
  apply forallb_forall. intros k Hk. apply in_flat_map in Hk as (e & _ & Hk).
  destruct (name_to_pos attrs e) as [ix|] eqn:E; [|contradiction]. destruct Hk as [<-|[]].
  apply Nat.ltb_lt. eapply name_to_pos_lt; eauto.
Qed.

Lemma info_wf_intro attrs req equality :
  nodup_str (map a_name attrs) = true -> req_prefix attrs req = true -> forallb attr_wf attrs = true ->
  info_wf (new_attributes_info attrs req equality) = true.
Proof.
  intros H1 H2 H3. unfold info_wf, new_attributes_info. cbn [ai_attrs ai_req ai_eq]. rewrite H1, H2, H3. cbn [andb].
  apply eq_indexes_lt.
Qed.

Lemma cai_none all equality info : nodup_str (map a_name all) = true -> forallb attr_wf all = true ->
  create_attributes_info all None equality = Ok info ->
  info_wf info = true /\
  (forall a, In a (ai_attrs info) <-> In a all /\ is_ctor_kind (a_kind a) = true) /\
  ai_eq info = eq_indexes (ai_attrs info) equality.
Proof.
  intros Hn Hw H. cbn [create_attributes_info] in H. inversion H; subst info. clear H.
  set (ctor := filter (fun a => is_ctor_kind (a_kind a)) all).
  assert (Hperm := filter_partition_perm is_opt_attr ctor).
  split; [|split].
  - apply info_wf_intro.
    + apply nodup_str_NoDup. eapply Permutation_NoDup; [symmetry; apply Permutation_map; exact Hperm|].
      apply NoDup_map_filter. now apply nodup_str_NoDup.
    + apply req_prefix_app; apply forallb_filter_self.
    + rewrite forallb_app. rewrite !forallb_filter_sub; [reflexivity| |]; now apply forallb_filter_sub.
  - intros a. cbn [new_attributes_info ai_attrs]. split.
    + intros Hin. apply (Permutation_in _ Hperm) in Hin. now apply filter_In in Hin.
    + intros Hin. apply (Permutation_in _ (Permutation_sym Hperm)). now apply filter_In.
  - reflexivity.
Qed.

Lemma lookup_all_spec m : forall names attrs, lookup_all m names = Ok attrs ->
  Forall2 (fun n a => find_attr m n = Some a) names attrs.
Proof.
  induction names as [|n r IH]; intros attrs H; cbn [lookup_all] in H.
  - inversion H. constructor.
  - destruct (find_attr m n) as [a|] eqn:E; [|discriminate]. apply bind_ok in H as (rest & Hr & H). inversion H; subst.
    constructor; auto.
Qed.

Lemma check_ser_spec own pm : forall names attrs b,
  Forall2 (fun n a => lookup_member own pm n = Some a) names attrs ->
  check_serialization names own pm b = Ok tt ->
  forallb (fun a => is_ctor_kind (a_kind a)) attrs = true /\
  (if b then forallb is_opt_attr attrs = true
   else req_prefix attrs (length (filter (fun a => negb (is_opt_attr a)) attrs)) = true).
Proof.
  intros names attrs b HF. revert b. induction HF as [|n a names attrs Hna HF IH]; intros b H.
  - cbn. split; [reflexivity|]. now destruct b.
  - cbn [check_serialization] in H. rewrite Hna in H.
    destruct (kind_eqb (a_kind a) KConstant || kind_eqb (a_kind a) KDerived) eqn:Ek; [discriminate|].
    cbn [forallb filter]. unfold is_ctor_kind at 1. rewrite Ek. cbn [negb andb].
    destruct (is_opt_attr a) eqn:Eo.
    + destruct (IH true H) as [Hc Hopt]. split; [assumption|]. cbn [negb].
      destruct b; cbn [andb]; [assumption|].
      assert (E0 : filter (fun a => negb (is_opt_attr a)) attrs = []).
      { clear - Hopt. induction attrs as [|x r IHr]; [reflexivity|]. cbn [forallb filter] in *.
        apply andb_true_iff in Hopt as [Hx Hr]. rewrite Hx. cbn [negb]. now apply IHr. }
      rewrite E0. cbn [length req_prefix]. rewrite Eo. now apply req_prefix_zero.
    + destruct b; [discriminate|]. destruct (IH false H) as [Hc Hp]. split; [assumption|].
      cbn [negb length req_prefix]. now rewrite Eo.
Qed.

Lemma cai_some all names equality info own pm :
  nodup_str (map a_name all) = true -> forallb attr_wf all = true -> nodup_str names = true ->
  (forall n, lookup_member own pm n = find_attr all n) ->
  check_serialization names own pm false = Ok tt ->
  create_attributes_info all (Some names) equality = Ok info ->
  info_wf info = true /\
  (forall a, In a (ai_attrs info) -> In a all /\ is_ctor_kind (a_kind a) = true) /\
  (forall a, In a all -> mem_str (a_name a) names = true -> In a (ai_attrs info)) /\
  ai_eq info = eq_indexes (ai_attrs info) equality.
Proof.
  intros Hn Hw Hnames Hlm Hchk H. cbn [create_attributes_info] in H. apply bind_ok in H as (attrs & Hl & H).
  inversion H; subst info. clear H. apply lookup_all_spec in Hl.
  assert (Hsub : forall a, In a attrs -> In a all).
  { intros a Hin. apply In_nth_error in Hin as (i & Hi). clear - Hl Hi. revert i Hi.
    induction Hl as [|n x names attrs Hx _ IH]; intros [|i] Hi; cbn [nth_error] in Hi; try discriminate.
    - inversion Hi; subst. now apply find_attr_some in Hx.
    - eauto. }
  assert (Hwa : forallb attr_wf attrs = true).
  { apply forallb_forall. intros a Hin. rewrite forallb_forall in Hw. auto. }
  assert (Hmap : map a_name attrs = names).
  { clear - Hl. induction Hl as [|n x names attrs Hx _ IH]; [reflexivity|]. cbn [map]. apply find_attr_some in Hx as [_ ->].
    now rewrite IH. }
  destruct (check_ser_spec own pm names attrs false) as [Hc Hp]; [|assumption|].
  { clear - Hl Hlm. induction Hl; constructor; auto. now rewrite Hlm. }
  split; [|split; [|split]].
  - apply info_wf_intro; [now rewrite Hmap|exact Hp|exact Hwa].
  - intros a Hin. cbn [new_attributes_info ai_attrs] in Hin. split; [auto|]. rewrite forallb_forall in Hc. now apply Hc.
  - intros a Hin Hmem. cbn [new_attributes_info ai_attrs]. apply mem_str_In in Hmem. rewrite <- Hmap in Hmem.
    apply in_map_iff in Hmem as (b & Hname & Hb). rewrite (same_name_eq all a b Hn Hin (Hsub b Hb) (eq_sym Hname)). exact Hb.
  - reflexivity.
Qed.

(* ---- InitFromHash ---- *)

Lemma lookup_def_In env n d : lookup_def env n = Some d -> In d env.
Proof.
  induction env as [|x r IH]; cbn [lookup_def]; [discriminate|]. destruct (str_eqb (d_name x) n).
  - intros H; inversion H; subst. now left.
  - intros H. right. auto.
Qed.

Definition parent_members (parent : option objdef) : list attr :=
  match parent with Some p => collect_attributes p | None => [] end.

Lemma init_from_hash_inv rt env name0 pre hv d : init_from_hash rt env name0 pre hv = Ok d ->
  exists h par name parent own equality incl ser info specs,
    hv = VHash h /\
    match rt with RText => Ok pre | RHash => resolve_hash_parent env h end = Ok par /\
    match par with PNone => parent = None | PDef q => parent = Some q | _ => False end /\
    build_attrs specs (parent_members parent) [] = Ok own /\
    check_serialization (match ser with Some l => l | None => [] end) own (parent_members parent) false = Ok tt /\
    create_attributes_info (put_all (parent_members parent) own) ser
      (equality_attributes (mkDef name parent own equality incl ser (mkInfo [] O []))) = Ok info /\
    d = mkDef name parent own equality incl ser info.
Proof.
  unfold init_from_hash. destruct (negb (schema_ok hv)); [discriminate|]. destruct hv as [| | | | | | | |h]; try discriminate.
  destruct (outside_keys h); [discriminate|]. cbv zeta. intros H.
  apply bind_ok in H as (par & Hpar & H). apply bind_ok in H as (parent & Hparent & H).
  apply bind_ok in H as (cspecs & _ & H). apply bind_ok in H as (own & Hown & H).
  apply bind_ok in H as (u1 & _ & H). apply bind_ok in H as (u2 & Hser & H). apply bind_ok in H as (info & Hinfo & H).
  inversion H. destruct u2.
  exists h, par. do 7 eexists. exists (hash_entries h k_attributes ++ cspecs).
  split; [reflexivity|]. split; [exact Hpar|]. split.
  { destruct par; inversion Hparent; reflexivity. }
  split; [exact Hown|]. split; [exact Hser|]. split; [|reflexivity].
  exact Hinfo.
Qed.

Lemma define_inv rt env name hv d : define rt env name hv = Ok d ->
  exists name0 pre, init_from_hash rt env name0 pre hv = Ok d /\
    (rt = RText -> forall q, pre = PDef q -> In q env).
Proof.
  unfold define. destruct rt.
  - destruct hv as [| | | | | | | |h]; try discriminate. intros H. apply bind_ok in H as (pre & Hpre & H).
    exists name, pre. split; [exact H|]. intros _ q ->. unfold resolve_text_parent in Hpre.
    destruct (text_parent_name h) as [n|]; [|discriminate]. destruct (str_eqb n name); [discriminate|].
    destruct (lookup_def env n) as [d'|] eqn:E.
    + inversion Hpre; subst. eapply lookup_def_In; eauto.
    + destruct (is_core_name n); discriminate.
  - destruct (negb (schema_ok hv)); [discriminate|]. intros H. exists [], PNone. split.
    + destruct hv as [| | | | | | | |h]; try exact H. destruct h; [discriminate|exact H].
    + discriminate.
Qed.

Lemma resolve_hash_parent_In env h q : resolve_hash_parent env h = Ok (PDef q) -> In q env.
Proof.
  unfold resolve_hash_parent. destruct (hget h k_parent) as [v|]; [|discriminate].
  destruct v as [| | | |s|t|t| |]; try discriminate.
  - destruct (lookup_def env s) eqn:E; intros H; inversion H; subst. eapply lookup_def_In; eauto.
  - destruct t; try discriminate. destruct (lookup_def env n) eqn:E; intros H; inversion H; subst. eapply lookup_def_In; eauto.
  - destruct t; try discriminate. destruct (lookup_def env n) eqn:E; intros H; inversion H; subst. eapply lookup_def_In; eauto.
Qed.

(* the facts about an accepted definition that the clauses of C17 need *)
Record layout_ok (d : objdef) : Prop := {
  lo_wf : info_wf (d_info d) = true;
  lo_sound : forall a, In a (ai_attrs (d_info d)) -> In a (collect_attributes d) /\ is_ctor_kind (a_kind a) = true;
  lo_complete : forall a, In a (collect_attributes d) -> is_ctor_kind (a_kind a) = true -> In a (ai_attrs (d_info d));
}.

Lemma define_facts rt env name hv d : (forall p, In p env -> def_okb p = true) -> define rt env name hv = Ok d ->
  def_okb d = true /\
  ai_eq (d_info d) = eq_indexes (ai_attrs (d_info d)) (equality_attributes d) /\
  (ser_complete d = true -> layout_ok d).
Proof.
  intros Henv H. apply define_inv in H as (name0 & pre & H & Hpre).
  apply init_from_hash_inv in H as (h & par & nm & parent & own & equality & incl & ser & info & specs &
                                      -> & Hpar & Hparent & Hown & Hser & Hinfo & ->).
  assert (Hpok : match parent with Some p => def_okb p = true | None => True end).
  { destruct parent as [p|]; [|exact I]. apply Henv. destruct par; try contradiction; try discriminate.
    inversion Hparent; subst. destruct rt; [apply Hpre; [reflexivity|]; now inversion Hpar|].
    eapply resolve_hash_parent_In; eauto. }
  destruct (build_attrs_ok _ _ _ _ Hown eq_refl eq_refl) as [Hon How].
  assert (Hok : def_okb (mkDef nm parent own equality incl ser info) = true).
  { cbn [def_okb]. rewrite Hon, How. cbn [andb]. now destruct parent. }
  split; [exact Hok|].
  set (d := mkDef nm parent own equality incl ser info) in *.
  assert (Hall : collect_attributes d = put_all (parent_members parent) own) by (unfold d; now destruct parent).
  assert (Heqa : equality_attributes (mkDef nm parent own equality incl ser (mkInfo [] O [])) = equality_attributes d)
    by reflexivity.
  rewrite Heqa, <- Hall in Hinfo.
  pose proof (collect_attributes_nodup d) as Hn. pose proof (collect_attributes_wf d Hok) as Hw.
  cbn [d_info d]. destruct ser as [names|].
  - split.
    + apply bind_ok in Hinfo as (attrs & _ & Hi). now inversion Hi.
    + intros Hsc. unfold ser_complete in Hsc. cbn [d_serialization d] in Hsc. fold d in Hsc.
      apply andb_true_iff in Hsc as [Hnd Hcov].
      destruct (cai_some (collect_attributes d) names (equality_attributes d) info own (parent_members parent) Hn Hw Hnd) as (H1 & H2 & H3 & H4); try assumption.
      { intros n. unfold lookup_member. rewrite Hall, (find_put_all own Hon). reflexivity. }
      split; [exact H1|exact H2|]. intros a Hin Hk. apply H3; [assumption|]. rewrite forallb_forall in Hcov.
      specialize (Hcov a Hin). rewrite Hk in Hcov. exact Hcov.
  - destruct (cai_none _ _ info Hn Hw Hinfo) as (H1 & H2 & H3). split; [exact H3|]. intros _.
    split; [exact H1| |]; intros a; [now apply H2|]. intros Hin Hk. apply H2. auto.
Qed.

(* histories of definitions: every definition is made in the environment of the earlier accepted ones *)
Inductive accepted_env : list objdef -> Prop :=
| ae_nil : accepted_env []
| ae_def env rt name hv d : accepted_env env -> define rt env name hv = Ok d -> accepted_env (env ++ [d]).

Definition accepted (d : objdef) : Prop := exists env, accepted_env env /\ In d env.

Lemma accepted_env_ok env : accepted_env env ->
  forall d, In d env -> def_okb d = true /\
    ai_eq (d_info d) = eq_indexes (ai_attrs (d_info d)) (equality_attributes d) /\
    (ser_complete d = true -> layout_ok d).
Proof.
  induction 1 as [|env rt name hv d' Henv IH Hd]; intros d Hin; [contradiction|].
  apply in_app_or in Hin as [Hin|[<-|[]]]; [now apply IH|].
  eapply define_facts; eauto. intros p Hp. now apply IH.
Qed.

Lemma accepted_facts d : accepted d ->
  def_okb d = true /\ ai_eq (d_info d) = eq_indexes (ai_attrs (d_info d)) (equality_attributes d) /\
  (ser_complete d = true -> layout_ok d).
Proof. intros (env & Henv & Hin). eapply accepted_env_ok; eauto. Qed.

(* ============================================================================================== *)
(* the clauses of C17 for every accepted definition outside the class of the open finding *)

Section Accepted.
  Variable d : objdef.
  Hypothesis Hacc : accepted d.
  Hypothesis Hser : ser_complete d = true.

  Let Hwf : info_wf (d_info d) = true.
  Proof. destruct (accepted_facts d Hacc) as (_ & _ & H). exact (lo_wf d (H Hser)). Qed.

  Lemma acc_pos_named_equal args o : named_dispatch (d_info d) args = None -> new_object d args = Ok o ->
    let h := combine (map a_name (ai_attrs (d_info d))) args in
    named_dispatch (d_info d) [VHash h] = Some h /\
    exists o', new_object d [VHash h] = Ok o' /\ obj_eqb o o' = Ok true /\ obj_eqb o' o = Ok true.
  Proof. exact (pos_named_equal_info d args o Hwf). Qed.

  Lemma acc_named_pos_equal args o' :
    let h := combine (map a_name (ai_attrs (d_info d))) args in
    (length args <= length (ai_attrs (d_info d)))%nat ->
    named_dispatch (d_info d) [VHash h] = Some h -> new_object d [VHash h] = Ok o' ->
    named_dispatch (d_info d) args = None ->
    exists o, new_object d args = Ok o /\ obj_eqb o o' = Ok true /\ obj_eqb o' o = Ok true.
  Proof. exact (named_pos_equal_info d args o' Hwf). Qed.

  Lemma acc_init_hash_roundtrip args o : new_object d args = Ok o ->
    exists h o', init_hash o = Ok h /\ named_dispatch (d_info d) [VHash h] = Some h /\ new_object d [VHash h] = Ok o' /\
                 obj_eqb o o' = Ok true /\ obj_eqb o' o = Ok true.
  Proof. exact (init_hash_roundtrip_info d args o Hwf). Qed.

  (* every declared constructor attribute (own, inherited or overriding) has exactly one position *)
  Lemma acc_layout a : In a (collect_attributes d) -> is_ctor_kind (a_kind a) = true ->
    exists i, nth_error (ai_attrs (d_info d)) i = Some a.
  Proof.
    intros Hin Hk. destruct (accepted_facts d Hacc) as (_ & _ & H). apply In_nth_error. now apply (lo_complete d (H Hser)).
  Qed.

  Lemma acc_get_positional args o a : named_dispatch (d_info d) args = None -> new_object d args = Ok o ->
    In a (collect_attributes d) -> is_ctor_kind (a_kind a) = true ->
    exists i, nth_error (ai_attrs (d_info d)) i = Some a /\
      get o (a_name a) = Ok (Some (match nth_error args i with Some v => v | None => default_of a end)) /\
      (nth_error args i = None -> is_opt_attr a = true).
  Proof.
    intros Hpos Hnew Hin Hk. destruct (acc_layout a Hin Hk) as (i & Hi). exists i. split; [exact Hi|].
    exact (get_positional_info d args o i a Hwf Hpos Hnew Hi).
  Qed.

  Lemma acc_get_named args h o a : named_dispatch (d_info d) args = Some h -> new_object d args = Ok o ->
    In a (collect_attributes d) -> is_ctor_kind (a_kind a) = true ->
    get o (a_name a) = Ok (Some (given_or_default h a)) /\ (hget h (a_name a) = None -> is_opt_attr a = true).
  Proof.
    intros Hd Hnew Hin Hk. destruct (acc_layout a Hin Hk) as (i & Hi). apply (get_named_info d args h o a Hwf Hd Hnew).
    eapply nth_error_In; eauto.
  Qed.

  (* a constant reads its declared value through the type, whatever the object *)
  Lemma acc_get_constant o a : o_type o = d -> In a (collect_attributes d) -> a_kind a = KConstant ->
    exists v, a_value a = Some v /\ attr_get o (a_name a) = AVal v.
  Proof.
    intros Ho Hin Hk. destruct (accepted_facts d Hacc) as (Hok & _ & _).
    pose proof (collect_attributes_wf d Hok) as Hw. rewrite forallb_forall in Hw.
    destruct (attr_wf_constant a (Hw a Hin) Hk) as (v & Hv). exists v. split; [assumption|].
    unfold attr_get. rewrite Ho, (member_collect d _ Hok), (find_attr_In _ a (collect_attributes_nodup d) Hin).
    now rewrite Hk, Hv.
  Qed.

  (* a constructor attribute read through the type gives what Get gives *)
  Lemma acc_attr_get o a v : o_type o = d -> In a (collect_attributes d) -> is_ctor_kind (a_kind a) = true ->
    get o (a_name a) = Ok (Some v) -> attr_get o (a_name a) = AVal v.
  Proof.
    intros Ho Hin Hk Hg. destruct (accepted_facts d Hacc) as (Hok & _ & _).
    unfold attr_get. rewrite Ho, (member_collect d _ Hok), (find_attr_In _ a (collect_attributes_nodup d) Hin), Hg.
    unfold is_ctor_kind in Hk. apply negb_true_iff, orb_false_iff in Hk as [-> _]. reflexivity.
  Qed.

  Lemma acc_get_total args o n : new_object d args = Ok o -> exists r, get o n = Ok r.
  Proof. exact (get_total_info d args o n Hwf). Qed.

  Lemma eq_names_declared n :
    In n (eq_names (d_info d)) <->
    In n (equality_attributes d) /\ name_to_pos (ai_attrs (d_info d)) n <> None.
  Proof.
    destruct (accepted_facts d Hacc) as (_ & He & _). unfold eq_names. rewrite He. unfold eq_indexes. split.
    - intros H. apply in_map_iff in H as (i & Hn & Hi). apply in_flat_map in Hi as (e & He' & Hi).
      destruct (name_to_pos (ai_attrs (d_info d)) e) as [ix|] eqn:E; [|contradiction]. destruct Hi as [<-|[]].
      pose proof E as E'. apply name_to_pos_sound in E' as (a & Ha & Hname). rewrite Ha in Hn. subst n.
      rewrite Hname. split; [assumption|]. congruence.
    - intros [Hin Hpos]. destruct (name_to_pos (ai_attrs (d_info d)) n) as [ix|] eqn:E; [|congruence].
      apply in_map_iff. exists ix. pose proof E as E'. apply name_to_pos_sound in E' as (a & Ha & Hname). rewrite Ha.
      split; [assumption|]. apply in_flat_map. exists n. split; [assumption|]. rewrite E. now left.
  Qed.

  Lemma acc_eq_iff a1 a2 o1 o2 : new_object d a1 = Ok o1 -> new_object d a2 = Ok o2 ->
    (obj_eqb o1 o2 = Ok true <-> forall n, In n (equality_attributes d) -> get o1 n = get o2 n) /\
    (exists b, obj_eqb o1 o2 = Ok b).
  Proof.
    intros H1 H2. destruct (eq_iff_info d a1 a2 o1 o2 Hwf H1 H2) as [Hiff Hex]. split; [|exact Hex].
    rewrite Hiff. split.
    - intros H n Hn. destruct (name_to_pos (ai_attrs (d_info d)) n) eqn:E.
      + apply H. apply eq_names_declared. split; [assumption|congruence].
      + destruct (new_object_ok _ _ _ Hwf H1) as (v1 & -> & _). destruct (new_object_ok _ _ _ Hwf H2) as (v2 & -> & _).
        rewrite !get_unknown; [reflexivity| |]; eapply ntp_none_inv; exact E.
    - intros H n Hn. apply H. now apply eq_names_declared in Hn.
  Qed.
End Accepted.

(* ============================================================================================== *)
(* the open finding `serialization-partial`: witnesses *)

Definition kf_int : value := VType (TInteger min_int64 max_int64).
(* type Ta = Object[{attributes => {a => Integer, b => Integer}, serialization => ['a']}] *)
Definition kf_omit : value :=
  VHash [(k_attributes, VHash [([97]%N, kf_int); ([98]%N, kf_int)]); (k_serialization, VArr [VStr [97]%N])].
(* type Ta = Object[{attributes => {a => Integer}, serialization => ['a', 'a']}] *)
Definition kf_twice : value :=
  VHash [(k_attributes, VHash [([97]%N, kf_int)]); (k_serialization, VArr [VStr [97]%N; VStr [97]%N])].

Lemma accepted_single name hv d : define RText [] name hv = Ok d -> accepted d.
Proof. intros H. exists ([] ++ [d]). split; [eapply ae_def; [constructor|exact H]|now left]. Qed.

(* a required attribute left out of the serialization list can never be given: the object is
   constructed without it and Get finds nothing *)
Lemma serialization_omit_refuted :
  exists d args o a, accepted d /\ ser_complete d = false /\ named_dispatch (d_info d) args = None /\
    new_object d args = Ok o /\
    In a (collect_attributes d) /\ is_ctor_kind (a_kind a) = true /\ is_opt_attr a = false /\
    get o (a_name a) = Ok None.
Proof.
  destruct (define RText [] [84; 97]%N kf_omit) as [d|] eqn:E; [|vm_compute in E; discriminate].
  exists d, [VInt 1]. pose proof (accepted_single _ _ _ E) as Hacc. vm_compute in E. inversion E; subst d. clear E.
  eexists. exists (mkAttr [98]%N KNormal (TInteger min_int64 max_int64) None false false).
  split; [exact Hacc|]. split; [reflexivity|]. split; [reflexivity|]. split; [vm_compute; reflexivity|].
  split; [vm_compute; auto|]. repeat split.
Qed.

(* a name listed twice: the first of the two positions is lost, the value given for it does not read back *)
Lemma serialization_twice_refuted :
  exists d args o a, accepted d /\ ser_complete d = false /\ named_dispatch (d_info d) args = None /\
    new_object d args = Ok o /\
    nth_error (ai_attrs (d_info d)) 0 = Some a /\ nth_error args 0 = Some (VInt 1) /\
    get o (a_name a) = Ok (Some (VInt 2)).
Proof.
  destruct (define RText [] [84; 97]%N kf_twice) as [d|] eqn:E; [|vm_compute in E; discriminate].
  exists d, [VInt 1; VInt 2]. pose proof (accepted_single _ _ _ E) as Hacc. vm_compute in E. inversion E; subst d. clear E.
  do 2 eexists. split; [exact Hacc|]. split; [reflexivity|]. split; [reflexivity|].
  split; [vm_compute; reflexivity|]. split; [reflexivity|]. split; reflexivity.
Qed.

(* ============================================================================================== *)
(* no runtime fault escapes: neither from a definition nor from a constructor *)

Lemma struct_inst_field elems h k r test v :
  struct_inst elems (VHash h) = true -> In (k, r, test) elems -> hget h k = Some v -> test v = true.
Proof.
  unfold struct_inst. rewrite struct_matched_eq. destruct (forallb (elem_ok h) elems) eqn:E; [|discriminate].
  intros _ Hin Hg. rewrite forallb_forall in E. specialize (E _ Hin). unfold elem_ok in E. cbn [ekey fst snd] in E.
  now rewrite Hg in E.
Qed.

Lemma struct_inst_required elems h k test :
  struct_inst elems (VHash h) = true -> In (k, true, test) elems -> hget h k <> None.
Proof.
  unfold struct_inst. rewrite struct_matched_eq. destruct (forallb (elem_ok h) elems) eqn:E; [|discriminate].
  intros _ Hin Hg. rewrite forallb_forall in E. specialize (E _ Hin). unfold elem_ok in E. cbn [ekey fst snd] in E.
  now rewrite Hg in E.
Qed.

Lemma bind_err {A B} (r : result A) (f : A -> result B) e :
  bind r f = Err e -> r = Err e \/ exists a, r = Ok a /\ f a = Err e.
Proof. destruct r as [a|e']; cbn [bind]; intros H; [right; eauto|left; congruence]. Qed.

Lemma new_attribute_no_fault name spec : new_attribute name spec <> Err EFault.
Proof.
  unfold new_attribute. destruct (struct_inst attribute_schema (VHash spec)) eqn:Es; cbn [negb]; [|discriminate].
  destruct (match hget spec k_go_name with Some _ => true | None => false end); [discriminate|].
  intros H. apply bind_err in H as [H|(typ & _ & H)].
  - destruct (hget spec k_type) as [v|] eqn:Et.
    + destruct v; cbn [parse_type_string] in H; discriminate.
    + eapply (struct_inst_required attribute_schema spec k_type); eauto. now left.
  - apply bind_err in H as [H|(final & _ & H)].
    + repeat match type of H with (if ?c then _ else _) = _ => destruct c end; discriminate.
    + destruct (hget spec k_value).
      * repeat match type of H with (if ?c then _ else _) = _ => destruct c end; discriminate.
      * repeat match type of H with (if ?c then _ else _) = _ => destruct c end; discriminate.
Qed.

Lemma attr_of_spec_no_fault k v : attr_of_spec k v <> Err EFault.
Proof.
  unfold attr_of_spec. destruct v; cbn [parse_type_string bind]; try discriminate; apply new_attribute_no_fault.
Qed.

Lemma assert_override_no_fault a pm : assert_override a pm <> Err EFault.
Proof.
  unfold assert_override. destruct (find_attr pm (a_name a)).
  - repeat match goal with |- (if ?c then _ else _) <> _ => destruct c end; discriminate.
  - destruct (a_override a); discriminate.
Qed.

Lemma build_attrs_no_fault : forall specs pm acc, build_attrs specs pm acc <> Err EFault.
Proof.
  induction specs as [|[k v] r IH]; intros pm acc; cbn [build_attrs]; [discriminate|]. intros H.
  apply bind_err in H as [H|(a & _ & H)]; [now apply attr_of_spec_no_fault in H|].
  apply bind_err in H as [H|(u & _ & H)]; [now apply assert_override_no_fault in H|]. now apply IH in H.
Qed.

Lemma constant_specs_no_fault : forall consts names pm, constant_specs consts names pm <> Err EFault.
Proof.
  induction consts as [|[k v] r IH]; intros names pm; cbn [constant_specs]; [discriminate|].
  destruct (mem_str k names); [discriminate|]. destruct (generalize_of v); [|discriminate]. intros H.
  apply bind_err in H as [H|(rest & _ & H)]; [now apply IH in H|discriminate].
Qed.

Lemma check_equality_no_fault : forall names own pm pe, check_equality names own pm pe <> Err EFault.
Proof.
  induction names as [|n r IH]; intros own pm pe; cbn [check_equality]; [discriminate|].
  destruct (lookup_member own pm n); [|discriminate]. destruct (kind_eqb _ _); [discriminate|].
  destruct (match pe with Some l => mem_str n l | None => false end); [discriminate|apply IH].
Qed.

Lemma check_serialization_found : forall names own pm b, check_serialization names own pm b = Ok tt ->
  forall n, In n names -> lookup_member own pm n <> None.
Proof.
  induction names as [|x r IH]; intros own pm b H n Hin; [contradiction|]. cbn [check_serialization] in H.
  destruct (lookup_member own pm x) as [a|] eqn:E; [|discriminate].
  destruct (kind_eqb (a_kind a) KConstant || kind_eqb (a_kind a) KDerived); [discriminate|].
  destruct Hin as [<-|Hin]; [congruence|].
  destruct (is_opt_attr a); [eapply IH; eauto|]. destruct b; [discriminate|eapply IH; eauto].
Qed.

Lemma check_serialization_no_fault : forall names own pm b, check_serialization names own pm b <> Err EFault.
Proof.
  induction names as [|x r IH]; intros own pm b; cbn [check_serialization]; [discriminate|].
  destruct (lookup_member own pm x) as [a|]; [|discriminate].
  destruct (kind_eqb (a_kind a) KConstant || kind_eqb (a_kind a) KDerived); [discriminate|].
  destruct (is_opt_attr a); [apply IH|]. destruct b; [discriminate|apply IH].
Qed.

Lemma lookup_all_total m : forall names, (forall n, In n names -> find_attr m n <> None) ->
  exists attrs, lookup_all m names = Ok attrs.
Proof.
  induction names as [|n r IH]; intros H; cbn [lookup_all]; [eauto|].
  destruct (find_attr m n) as [a|] eqn:E; [|exfalso; apply (H n); [now left|assumption]].
  destruct IH as (rest & ->); [intros x Hx; apply H; now right|]. cbn [bind]. eauto.
Qed.

Lemma is_type_or_type_name_shape v : is_type_or_type_name v = true ->
  match v with VType _ | VStr _ | VTyStr _ => True | _ => False end.
Proof. destruct v; cbn; intros H; try discriminate; exact I. Qed.

Lemma resolve_hash_parent_no_fault env h : schema_ok (VHash h) = true -> resolve_hash_parent env h <> Err EFault.
Proof.
  intros Hs. unfold resolve_hash_parent. destruct (hget h k_parent) as [v|] eqn:E; [|discriminate].
  assert (Hv : is_type_or_type_name v = true).
  { eapply (struct_inst_field init_hash_schema h k_parent false); eauto. right. now left. }
  apply is_type_or_type_name_shape in Hv. destruct v; try contradiction.
  - destruct (lookup_def env s); discriminate.
  - destruct t; try discriminate. destruct (lookup_def env n); discriminate.
  - destruct t; try discriminate. destruct (lookup_def env n); discriminate.
Qed.

Lemma init_from_hash_no_fault rt env name0 pre hv : init_from_hash rt env name0 pre hv <> Err EFault.
Proof.
  unfold init_from_hash. destruct (schema_ok hv) eqn:Es; cbn [negb]; [|discriminate].
  destruct hv as [| | | | | | | |h]; try discriminate. destruct (outside_keys h); [discriminate|]. cbv zeta. intros H.
  apply bind_err in H as [H|(par & Hpar & H)].
  { destruct rt; [discriminate|]. now apply (resolve_hash_parent_no_fault env h Es). }
  apply bind_err in H as [H|(parent & Hparent & H)]; [destruct par; discriminate|].
  apply bind_err in H as [H|(cspecs & _ & H)]; [now apply constant_specs_no_fault in H|].
  apply bind_err in H as [H|(own & Hown & H)]; [now apply build_attrs_no_fault in H|].
  apply bind_err in H as [H|(u1 & _ & H)]; [now apply check_equality_no_fault in H|].
  apply bind_err in H as [H|(u2 & Hser & H)]; [now apply check_serialization_no_fault in H|].
  apply bind_err in H as [H|(info & _ & H)]; [|discriminate]. destruct u2.
  destruct (build_attrs_ok _ _ _ _ Hown eq_refl eq_refl) as [Hon _].
  destruct (serialization_arg h) as [names|]; [|discriminate]. cbn [create_attributes_info] in H.
  set (pm := match parent with Some p => collect_attributes p | None => [] end) in *.
  destruct (lookup_all_total (collect_attributes (mkDef (match hget h k_name with Some (VStr s) => s | _ => name0 end)
                                parent own (equality_arg h) (bool_arg h k_equality_include_type true) (Some names)
                                (mkInfo [] O []))) names) as (attrs & Ea).
  { intros n Hn. pose proof (check_serialization_found _ _ _ _ Hser n Hn) as Hf. unfold lookup_member in Hf.
    cbn [collect_attributes]. fold pm. now rewrite (find_put_all own Hon). }
  rewrite Ea in H. discriminate.
Qed.

Lemma define_no_fault rt env name hv : define rt env name hv <> Err EFault.
Proof.
  unfold define. destruct rt.
  - destruct hv as [| | | | | | | |h]; try discriminate. intros H. apply bind_err in H as [H|(pre & _ & H)].
    + unfold resolve_text_parent in H. destruct (text_parent_name h) as [n|]; [|discriminate].
      destruct (str_eqb n name); [discriminate|]. destruct (lookup_def env n); [discriminate|].
      destruct (is_core_name n); discriminate.
    + now apply init_from_hash_no_fault in H.
  - destruct (negb (schema_ok hv)); [discriminate|]. destruct hv as [| | | | | | | |h]; try apply init_from_hash_no_fault.
    destruct h; [discriminate|apply init_from_hash_no_fault].
Qed.

(* a constructor call either builds an object or is rejected as ILLEGAL_ARGUMENTS: no index fault, no
   MISSING_REQUIRED_ATTRIBUTE after the dispatch accepted the arguments *)
Lemma new_object_total d args : info_wf (d_info d) = true ->
  (exists o, new_object d args = Ok o) \/ new_object d args = Err EIllegalArguments.
Proof.
  intros Hwf. unfold new_object. cbv zeta. destruct (named_dispatch (d_info d) args) as [h|] eqn:Hd.
  - left. apply named_dispatch_some in Hd as [-> E].
    apply (struct_inst_init_spec _ h Hwf) in E as (Hh & Hent & Hreq).
    destruct (pfh_spec _ h Hwf Hh Hreq) as (vals & Ev & _). unfold ctor_named. rewrite Ev. cbn [bind]. eauto.
  - destruct (tuple_inst _ _ _ args); [left; unfold ctor_positional; eauto|now right].
Qed.

Lemma acc_new_object_total d args : accepted d -> ser_complete d = true ->
  (exists o, new_object d args = Ok o) \/ new_object d args = Err EIllegalArguments.
Proof.
  intros Hacc Hser. apply new_object_total. destruct (accepted_facts d Hacc) as (_ & _ & H). exact (lo_wf d (H Hser)).
Qed.
