(* FormatProofs.v — lemmas about the formatting model (property C20). *)
From Coq Require Import ZArith NArith Bool Lia List.
From PcoreV Require Import Model.Base Model.Format.
Import ListNotations.
Open Scope Z_scope.

(* ------------------------------------------------------------------------------------------ *)
(* sets of format characters *)

Lemma mem_true c l : mem c l = true <-> In c l.
Proof.
  unfold mem. rewrite existsb_exists. split.
  - intros (x & Hin & He). apply N.eqb_eq in He. now subst.
  - intros H. exists c. split; [assumption | apply N.eqb_refl].
Qed.

Lemma mem_cover c s ls :
  forallb (fun x => existsb (mem x) ls) s = true ->
  forallb (fun l => negb (mem c l)) ls = true -> mem c s = false.
Proof.
  intros Hs Hl. destruct (mem c s) eqn:E; [|reflexivity]. exfalso.
  apply mem_true in E. rewrite forallb_forall in Hs, Hl. specialize (Hs c E).
  apply existsb_exists in Hs. destruct Hs as (l & Hin & Hm). specialize (Hl l Hin).
  rewrite Hm in Hl. discriminate.
Qed.

Lemma mem_sub c l s : forallb (fun x => mem x s) l = true -> mem c l = true -> mem c s = true.
Proof. intros H E. rewrite forallb_forall in H. apply H. now apply mem_true. Qed.

Lemma mem_disj c l1 l2 : forallb (fun x => negb (mem x l2)) l1 = true -> mem c l1 = true -> mem c l2 = false.
Proof.
  intros H E. rewrite forallb_forall in H. apply mem_true in E. specialize (H c E).
  now apply negb_true_iff in H.
Qed.

(* ------------------------------------------------------------------------------------------ *)
(* "does not raise UnsupportedFormat" *)

Definition nu {A} (r : R A) : Prop := match r with RErr (EUnsupported _ _) => False | _ => True end.

Lemma nu_bind {A B} (x : R A) (k : A -> R B) : nu x -> (forall a, nu (k a)) -> nu (bind x k).
Proof. destruct x as [a|e]; cbn; [intros _ H; apply H | intros H _; exact H]. Qed.

Lemma sup_of_nu (r : obs) (P : Prop) (Q : N -> kind -> Prop) :
  nu r -> P -> match r with RErr (EUnsupported c k) => Q c k | _ => P end.
Proof. destruct r as [|[]]; cbn; tauto. Qed.

Lemma nu_quote o s : nu (quote o s).
Proof. unfold quote. destruct (is_plain s); [exact I|]. destruct (assoc _ _ _); exact I. Qed.

Lemma nu_apply o f s q : nu (apply_string_flags o f s q).
Proof.
  unfold apply_string_flags. apply nu_bind.
  - destruct q; [apply nu_quote | exact I].
  - intros a. destruct (_ || _); exact I.
Qed.

Lemma nu_case_op o op fn s : nu (case_op o op fn s).
Proof. unfold case_op. destruct (is_ascii s); [exact I|]. destruct (assoc _ _ _); exact I. Qed.

Lemma nu_fmt_float o sharp zero plus space minus wid prec verb bits :
  nu (fmt_float o sharp zero plus space minus wid prec verb bits).
Proof.
  unfold fmt_float. cbv zeta. destruct (assoc _ _ _) as [ds0|]; [|exact I].
  destruct (match ds0 with 43%N :: r => r | _ => ds0 end) as [|d0 ds']; [exact I|].
  repeat match goal with |- nu (if ?b then _ else _) => destruct b end; exact I.
Qed.

Lemma nu_go_fmt_float o f verb bits : nu (go_fmt_float o f verb bits).
Proof. apply nu_fmt_float. Qed.

Lemma nu_float_g o f bits : nu (float_g o f bits).
Proof.
  unfold float_g. apply nu_bind; [apply nu_go_fmt_float|]. intros s. cbv zeta.
  destruct (_ || _); [exact I|]. destruct s as [|c0 s']; [exact I|].
  destruct (_ && _); [apply nu_go_fmt_float | exact I].
Qed.

Ltac nu_tac :=
  repeat first
         [ exact I
         | apply nu_apply | apply nu_go_fmt_float | apply nu_float_g | apply nu_case_op | apply nu_quote
         | apply nu_bind; [|intros ?]
         | match goal with
           | |- nu (if ?b then _ else _) => destruct b
           | |- nu (match ?x with _ => _ end) => destruct x
           end ].

(* every arm of the integer switch that is reached by d x X o b B gives text *)
Lemma render_integer_dx o cb f n : mem (f_char f) l_dxXobB = true -> nu (render_integer o cb f n).
Proof.
  intros H. unfold render_integer. cbv zeta.
  destruct (mem (f_char f) l_xXodb) eqn:E1; [exact I|].
  destruct (N.eqb (f_char f) 66) eqn:E2; [exact I|].
  exfalso. assert (Hf : mem (f_char f) l_dxXobB = false).
  { apply (mem_cover (f_char f) l_dxXobB [l_xXodb; [66%N]] eq_refl). cbn [forallb mem existsb]. rewrite E1, E2. reflexivity. }
  congruence.
Qed.

(* every arm of the float switch that is reached by e E f g G a A gives text or an oracle/fault class *)
Lemma render_float_efg o cb f b : mem (f_char f) l_efg = true -> nu (render_float o cb f b).
Proof.
  intros H. unfold render_float. cbv zeta.
  rewrite (mem_disj (f_char f) l_efg l_dxXobB eq_refl H).
  destruct (N.eqb (f_char f) 112) eqn:E0; [nu_tac|].
  destruct (mem (f_char f) l_eEf) eqn:E1; [nu_tac|].
  destruct (mem (f_char f) l_gG) eqn:E2; [nu_tac|].
  destruct (N.eqb (f_char f) 115) eqn:E3; [nu_tac|].
  destruct (mem (f_char f) l_aA) eqn:E4; [nu_tac|].
  exfalso. assert (Hf : mem (f_char f) l_efg = false).
  { apply (mem_cover (f_char f) l_efg [l_eEf; l_gG; l_aA] eq_refl). cbn [forallb]. rewrite E1, E2, E4. reflexivity. }
  congruence.
Qed.

Ltac in_set E :=
  first [ apply N.eqb_eq in E; rewrite E; reflexivity
        | match type of E with mem ?c ?l = true =>
            match goal with |- supported ?k _ = true =>
              let st := eval cbv beta iota delta [supported] in (fun x => supported k x) in
              match st with (fun x => mem x ?set) => change (mem c set = true); apply (mem_sub c l set eq_refl E) end
            end
          end ].

(* the shape shared by all kinds: UnsupportedFormat is raised with the format's letter and the
   kind's name exactly when the letter is outside the documented set *)
Definition sup_spec (k : kind) (f : format) (r : obs) : Prop :=
  match r with
  | RErr (EUnsupported c k') => c = f_char f /\ k' = k /\ supported k c = false
  | _ => supported k (f_char f) = true
  end.

Lemma sup_taken k f r : nu r -> supported k (f_char f) = true -> sup_spec k f r.
Proof. intros. unfold sup_spec. now apply sup_of_nu. Qed.

Lemma render_integer_sup o cb f n :
  (forall f' b, mem (f_char f') l_efg = true -> nu (cb f' b)) ->
  sup_spec KdInteger f (render_integer o cb f n).
Proof.
  intros Hcb. unfold render_integer. cbv zeta.
  destruct (mem (f_char f) l_xXodb) eqn:E1; [apply sup_taken; [exact I | in_set E1]|].
  destruct (N.eqb (f_char f) 66) eqn:E2; [apply sup_taken; [exact I | in_set E2]|].
  destruct (N.eqb (f_char f) 112) eqn:E3; [apply sup_taken; [nu_tac | in_set E3]|].
  destruct (mem (f_char f) l_efg) eqn:E4.
  { apply sup_taken; [|in_set E4]. destruct (assoc _ _ _); [now apply Hcb | exact I]. }
  destruct (N.eqb (f_char f) 99) eqn:E5; [apply sup_taken; [nu_tac | in_set E5]|].
  destruct (N.eqb (f_char f) 115) eqn:E6; [apply sup_taken; [nu_tac | in_set E6]|].
  unfold sup_spec. repeat split. change (mem (f_char f) set_integer = false).
  apply (mem_cover (f_char f) set_integer [l_xXodb; [66%N]; [112%N]; l_efg; [99%N]; [115%N]] eq_refl).
  cbn [forallb mem existsb]. rewrite E1, E2, E3, E4, E5, E6. reflexivity.
Qed.

Lemma render_float_sup o cb f b :
  (forall f' n, mem (f_char f') l_dxXobB = true -> nu (cb f' n)) ->
  sup_spec KdFloat f (render_float o cb f b).
Proof.
  intros Hcb. unfold render_float. cbv zeta.
  destruct (mem (f_char f) l_dxXobB) eqn:E1.
  { apply sup_taken; [|in_set E1]. destruct (assoc _ _ _); [now apply Hcb | exact I]. }
  destruct (N.eqb (f_char f) 112) eqn:E2; [apply sup_taken; [nu_tac | in_set E2]|].
  destruct (mem (f_char f) l_eEf) eqn:E3; [apply sup_taken; [nu_tac | in_set E3]|].
  destruct (mem (f_char f) l_gG) eqn:E4; [apply sup_taken; [nu_tac | in_set E4]|].
  destruct (N.eqb (f_char f) 115) eqn:E5; [apply sup_taken; [nu_tac | in_set E5]|].
  destruct (mem (f_char f) l_aA) eqn:E6; [apply sup_taken; [nu_tac | in_set E6]|].
  unfold sup_spec. repeat split. change (mem (f_char f) set_float = false).
  apply (mem_cover (f_char f) set_float [l_dxXobB; [112%N]; l_eEf; l_gG; [115%N]; l_aA] eq_refl).
  cbn [forallb mem existsb]. rewrite E1, E2, E3, E4, E5, E6. reflexivity.
Qed.

Lemma render_boolean_sup o f b : sup_spec KdBoolean f (render_boolean o f b).
Proof.
  unfold render_boolean. cbv zeta.
  destruct (N.eqb (f_char f) 116) eqn:E1; [apply sup_taken; [nu_tac | in_set E1]|].
  destruct (N.eqb (f_char f) 84) eqn:E2; [apply sup_taken; [nu_tac | in_set E2]|].
  destruct (N.eqb (f_char f) 121) eqn:E3; [apply sup_taken; [nu_tac | in_set E3]|].
  destruct (N.eqb (f_char f) 89) eqn:E4; [apply sup_taken; [nu_tac | in_set E4]|].
  destruct (mem (f_char f) l_dxXobB) eqn:E5; [apply sup_taken; [now apply render_integer_dx | in_set E5]|].
  destruct (mem (f_char f) l_efg) eqn:E6; [apply sup_taken; [now apply render_float_efg | in_set E6]|].
  destruct (mem (f_char f) l_sp) eqn:E7; [apply sup_taken; [nu_tac | in_set E7]|].
  unfold sup_spec. repeat split. change (mem (f_char f) set_boolean = false).
  apply (mem_cover (f_char f) set_boolean [[116%N]; [84%N]; [121%N]; [89%N]; l_dxXobB; l_efg; l_sp] eq_refl).
  cbn [forallb mem existsb]. rewrite E1, E2, E3, E4, E5, E6, E7. reflexivity.
Qed.

Lemma render_string_sup o f s : sup_spec KdString f (render_string o f s).
Proof.
  unfold render_string. cbv zeta.
  destruct (N.eqb (f_char f) 115) eqn:E1; [apply sup_taken; [nu_tac | in_set E1]|].
  destruct (N.eqb (f_char f) 112) eqn:E2; [apply sup_taken; [nu_tac | in_set E2]|].
  destruct (N.eqb (f_char f) 99) eqn:E3; [apply sup_taken; [nu_tac | in_set E3]|].
  destruct (N.eqb (f_char f) 67) eqn:E4; [apply sup_taken; [nu_tac | in_set E4]|].
  destruct (N.eqb (f_char f) 117) eqn:E5; [apply sup_taken; [nu_tac | in_set E5]|].
  destruct (N.eqb (f_char f) 100) eqn:E6; [apply sup_taken; [nu_tac | in_set E6]|].
  destruct (N.eqb (f_char f) 116) eqn:E7; [apply sup_taken; [nu_tac | in_set E7]|].
  unfold sup_spec. repeat split. change (mem (f_char f) set_string = false).
  apply (mem_cover (f_char f) set_string [[115%N]; [112%N]; [99%N]; [67%N]; [117%N]; [100%N]; [116%N]] eq_refl).
  cbn [forallb mem existsb]. rewrite E1, E2, E3, E4, E5, E6, E7. reflexivity.
Qed.

Lemma render_binary_sup o f s : sup_spec KdBinary f (render_binary o f s).
Proof.
  unfold render_binary. cbv zeta.
  destruct (N.eqb (f_char f) 115) eqn:E1; [apply sup_taken; [nu_tac | in_set E1]|].
  destruct (N.eqb (f_char f) 112) eqn:E2; [apply sup_taken; [nu_tac | in_set E2]|].
  destruct (N.eqb (f_char f) 98) eqn:E3; [apply sup_taken; [nu_tac | in_set E3]|].
  destruct (N.eqb (f_char f) 66) eqn:E4; [apply sup_taken; [nu_tac | in_set E4]|].
  destruct (N.eqb (f_char f) 117) eqn:E5; [apply sup_taken; [nu_tac | in_set E5]|].
  destruct (N.eqb (f_char f) 116) eqn:E6; [apply sup_taken; [nu_tac | in_set E6]|].
  destruct (N.eqb (f_char f) 84) eqn:E7; [apply sup_taken; [nu_tac | in_set E7]|].
  unfold sup_spec. repeat split. change (mem (f_char f) set_binary = false).
  apply (mem_cover (f_char f) set_binary [[115%N]; [112%N]; [98%N]; [66%N]; [117%N]; [116%N]; [84%N]] eq_refl).
  cbn [forallb mem existsb]. rewrite E1, E2, E3, E4, E5, E6, E7. reflexivity.
Qed.

Lemma render_default_sup o f : sup_spec KdDefault f (render_default o f).
Proof.
  unfold render_default. cbv zeta.
  destruct (mem (f_char f) l_dsp) eqn:E1; [apply sup_taken; [nu_tac | in_set E1]|].
  destruct (N.eqb (f_char f) 68) eqn:E2; [apply sup_taken; [nu_tac | in_set E2]|].
  unfold sup_spec. repeat split. change (mem (f_char f) set_default = false).
  apply (mem_cover (f_char f) set_default [l_dsp; [68%N]] eq_refl).
  cbn [forallb mem existsb]. rewrite E1, E2. reflexivity.
Qed.

Lemma no_cb_vacuous (l : str) : forall f' (x : Z), mem (f_char f') l = true -> nu (no_cb f' x).
Proof. intros; exact I. Qed.

Theorem render_scalar_sup o f v : is_container v = false -> sup_spec (kind_of v) f (render_scalar o f v).
Proof.
  destruct v; cbn [is_container render_scalar kind_of]; intros Hc; try discriminate.
  - apply sup_taken; [unfold render_undef; nu_tac | reflexivity].
  - apply render_default_sup.
  - apply render_boolean_sup.
  - apply render_integer_sup. intros f' b' H. now apply render_float_efg.
  - apply render_float_sup. intros f' n' H. now apply render_integer_dx.
  - apply render_string_sup.
  - apply sup_taken; [unfold render_regexp; nu_tac | reflexivity].
  - apply render_binary_sup.
Qed.

(* the two directions, spelled out *)
Corollary unsupported_only_outside o f v c k :
  is_container v = false -> render_scalar o f v = OErr (EUnsupported c k) ->
  c = f_char f /\ k = kind_of v /\ supported (kind_of v) (f_char f) = false.
Proof.
  intros Hc Hr. pose proof (render_scalar_sup o f v Hc) as H. unfold sup_spec in H. rewrite Hr in H.
  destruct H as (-> & -> & H). auto.
Qed.

Corollary unsupported_outside o f v :
  is_container v = false -> supported (kind_of v) (f_char f) = false ->
  render_scalar o f v = OErr (EUnsupported (f_char f) (kind_of v)).
Proof.
  intros Hc Hs. pose proof (render_scalar_sup o f v Hc) as H. unfold sup_spec in H.
  destruct (render_scalar o f v) as [t|e].
  - congruence.
  - destruct e; try congruence. destruct H as (-> & -> & _). reflexivity.
Qed.

(* a directive string as the specification: the context's only key is the value's own type, which
   accepts the value (NaN included: its type is the unbounded Float type) *)
Lemma format_value_scalar o v s f :
  is_container v = false -> parse_format s None None CfNone = ROk f ->
  format_value o v (FStr s) = Some (render_scalar o f v).
Proof.
  intros Hc Hp. unfold format_value, context_of. rewrite Hp. cbn [bind].
  destruct v; cbn in Hc |- *; try discriminate; reflexivity.
Qed.

(* ------------------------------------------------------------------------------------------ *)
(* digits in radix 2, 8, 10, 16 *)

Lemma of_digits_acc_app base a b acc :
  of_digits_acc base (a ++ b) acc = of_digits_acc base b (of_digits_acc base a acc).
Proof. revert acc; induction a as [|x a IH]; intros acc; cbn; [reflexivity | apply IH]. Qed.

Lemma of_digits_snoc base a d : of_digits base (a ++ [d]) = of_digits base a * base + d.
Proof. unfold of_digits. rewrite of_digits_acc_app. reflexivity. Qed.

Lemma digit_vals_app base a b da db :
  digit_vals base a = Some da -> digit_vals base b = Some db -> digit_vals base (a ++ b) = Some (da ++ db).
Proof.
  revert da; induction a as [|c a IH]; intros da Ha Hb; cbn in *.
  - injection Ha as <-. exact Hb.
  - destruct (digit_val c) as [d|]; [|discriminate]. destruct (d <? base); [|discriminate].
    destruct (digit_vals base a) as [ds|]; [|discriminate]. injection Ha as <-.
    rewrite (IH ds eq_refl Hb). reflexivity.
Qed.

Lemma digit_val_char up d : 0 <= d < 16 -> digit_val (digit_char up d) = Some d.
Proof.
  intros H.
  assert (Hd : d = 0 \/ d = 1 \/ d = 2 \/ d = 3 \/ d = 4 \/ d = 5 \/ d = 6 \/ d = 7 \/ d = 8 \/ d = 9 \/
               d = 10 \/ d = 11 \/ d = 12 \/ d = 13 \/ d = 14 \/ d = 15) by lia.
  destruct up; repeat (destruct Hd as [-> | Hd]; [reflexivity|]); subst; reflexivity.
Qed.

Lemma digit_vals_single base up d : 0 <= d < base -> base <= 16 -> digit_vals base [digit_char up d] = Some [d].
Proof.
  intros H Hb. cbn. rewrite digit_val_char by lia.
  destruct (Z.ltb_spec d base); [reflexivity | lia].
Qed.

Lemma digits_f_spec base up :
  2 <= base <= 16 ->
  forall fuel u acc, 0 <= u < 2 ^ Z.of_nat fuel ->
    exists ds dv, digits_f fuel base up u acc = ds ++ acc /\ digit_vals base ds = Some dv /\ of_digits base dv = u.
Proof.
  intros Hb. induction fuel as [|k IH]; intros u acc Hu.
  - exists [], []. cbn in *. split; [reflexivity|]. split; [reflexivity|]. unfold of_digits; cbn. lia.
  - cbn [digits_f]. destruct (Z.ltb_spec u base) as [Hlt|Hge].
    + exists [digit_char up u], [u]. split; [reflexivity|]. split.
      * apply digit_vals_single; lia.
      * unfold of_digits; cbn. lia.
    + assert (Hq : 0 <= u / base < 2 ^ Z.of_nat k).
      { split; [apply Z.div_pos; lia|].
        apply Z.div_lt_upper_bound; [lia|].
        rewrite Nat2Z.inj_succ, Z.pow_succ_r in Hu by lia.
        assert (2 * 2 ^ Z.of_nat k <= base * 2 ^ Z.of_nat k) by (apply Z.mul_le_mono_nonneg_r; lia).
        lia. }
      destruct (IH (u / base) (digit_char up (u mod base) :: acc) Hq) as (ds & dv & He & Hv & Ho).
      exists (ds ++ [digit_char up (u mod base)]), (dv ++ [u mod base]). split; [|split].
      * rewrite He, <- app_assoc. reflexivity.
      * apply digit_vals_app; [exact Hv|]. apply digit_vals_single; [apply Z.mod_pos_bound; lia | lia].
      * rewrite of_digits_snoc, Ho. rewrite Z.mul_comm. symmetry. apply Z.div_mod. lia.
Qed.

Lemma digits_f_nonempty base up fuel u acc : digits_f (S fuel) base up u acc <> [].
Proof.
  revert u acc. induction fuel as [|k IH]; intros u acc.
  - cbn. destruct (u <? base); discriminate.
  - cbn [digits_f]. destruct (u <? base); [discriminate|]. apply IH.
Qed.

Theorem digits_roundtrip base up u :
  In base [2; 8; 10; 16] -> 0 <= u < 2 ^ 64 ->
  exists dv, digit_vals base (digits base up u) = Some dv /\ of_digits base dv = u.
Proof.
  intros Hb Hu.
  assert (Hb' : 2 <= base <= 16) by (cbn in Hb; lia).
  destruct (digits_f_spec base up Hb' 64 u [] Hu) as (ds & dv & He & Hv & Ho).
  exists dv. unfold digits. rewrite He, app_nil_r. auto.
Qed.

Lemma digits_nonempty base up u : digits base up u <> [].
Proof. apply digits_f_nonempty. Qed.

(* ------------------------------------------------------------------------------------------ *)
(* the unsupported-format error, as an equivalence *)

Theorem unsupported_iff o f v c k :
  is_container v = false ->
  (render_scalar o f v = OErr (EUnsupported c k)
   <-> (supported (kind_of v) (f_char f) = false /\ c = f_char f /\ k = kind_of v)).
Proof.
  intros Hc. split.
  - intros Hr. destruct (unsupported_only_outside o f v c k Hc Hr) as (-> & -> & H). auto.
  - intros (Hs & -> & ->). now apply unsupported_outside.
Qed.

Theorem unsupported_iff_directive o v s f c k :
  is_container v = false -> parse_format s None None CfNone = ROk f ->
  (format_value o v (FStr s) = Some (OErr (EUnsupported c k))
   <-> (supported (kind_of v) (f_char f) = false /\ c = f_char f /\ k = kind_of v)).
Proof.
  intros Hc Hp. rewrite (format_value_scalar o v s f Hc Hp).
  rewrite <- (unsupported_iff o f v c k Hc). split; [intros H; now injection H | intros ->; reflexivity].
Qed.
