(* FormatWidth.v — width and padding side (property C20): every scalar rendering that does not pass
   through fmt's float verbs is at least as wide (in runes) as the format asks, and the padding is
   on the side the '-' flag names. *)
From Coq Require Import ZArith NArith Bool Lia List.
From PcoreV Require Import Model.Base Model.Format Proofs.FormatProofs.
Import ListNotations.
Open Scope Z_scope.

(* ------------------------------------------------------------------------------------------ *)
(* runes *)

Definition asciis (p : str) : Prop := Forall (fun c => (c < 128)%N) p.

Lemma ascii_cont p : (p < 128)%N -> cont p = false.
Proof. intros H. unfold cont, between. destruct (N.leb_spec 128 p); [lia | reflexivity]. Qed.

Lemma ascii_between lo hi p : (128 <= lo)%N -> (p < 128)%N -> between lo hi p = false.
Proof. intros Hl H. unfold between. destruct (N.leb_spec lo p); [lia | reflexivity]. Qed.

Lemma rune_width_ascii b r : (b < 128)%N -> rune_width (b :: r) = 1%nat.
Proof. intros H. unfold rune_width. destruct (N.ltb_spec b 128); [reflexivity | lia]. Qed.

Lemma rune_width_le s : (rune_width s <= length s)%nat.
Proof.
  unfold rune_width. destruct s as [|b0 [|b1 [|b2 [|b3 r]]]]; cbn [length];
    repeat match goal with |- context [if ?b then _ else _] => destruct b end; lia.
Qed.

Lemma rune_width_app_ascii b r p : asciis p -> rune_width (b :: r ++ p) = rune_width (b :: r).
Proof.
  intros Hp. unfold rune_width.
  destruct (N.ltb b 128); [reflexivity|].
  destruct (between 194 223 b).
  { destruct r as [|b1 r]; cbn [app]; [|reflexivity].
    destruct Hp as [|p1 p H1 Hp]; [reflexivity|]. now rewrite (ascii_cont p1 H1). }
  destruct (between 224 239 b).
  { set (lo := if N.eqb b 224 then 160%N else 128%N). set (hi := if N.eqb b 237 then 159%N else 191%N).
    assert (Hlo : (128 <= lo)%N) by (subst lo; destruct (N.eqb b 224); lia).
    destruct r as [|b1 [|b2 r]]; cbn [app]; [| |reflexivity].
    - destruct Hp as [|p1 p H1 Hp]; [reflexivity|]. destruct Hp as [|p2 p H2 Hp]; [reflexivity|].
      now rewrite (ascii_between lo hi p1 Hlo H1).
    - destruct Hp as [|p2 p H2 Hp]; [reflexivity|]. rewrite (ascii_cont p2 H2). now rewrite andb_false_r. }
  destruct (between 240 244 b); [|reflexivity].
  set (lo := if N.eqb b 240 then 144%N else 128%N). set (hi := if N.eqb b 244 then 143%N else 191%N).
  assert (Hlo : (128 <= lo)%N) by (subst lo; destruct (N.eqb b 240); lia).
  destruct r as [|b1 [|b2 [|b3 r]]]; cbn [app]; [| | |reflexivity].
  - destruct Hp as [|p1 p H1 Hp]; [reflexivity|]. destruct Hp as [|p2 p H2 Hp]; [reflexivity|].
    destruct Hp as [|p3 p H3 Hp]; [reflexivity|]. now rewrite (ascii_between lo hi p1 Hlo H1).
  - destruct Hp as [|p2 p H2 Hp]; [reflexivity|]. destruct Hp as [|p3 p H3 Hp]; [reflexivity|].
    rewrite (ascii_cont p2 H2). now rewrite andb_false_r.
  - destruct Hp as [|p3 p H3 Hp]; [reflexivity|]. rewrite (ascii_cont p3 H3). now rewrite andb_false_r.
Qed.

Lemma rc_ascii p : asciis p -> rc 0 p = length p.
Proof.
  induction 1 as [|c p Hc Hp IH]; [reflexivity|].
  cbn [rc length]. rewrite (rune_width_ascii c p Hc). cbn. now rewrite IH.
Qed.

Lemma rc_app_ascii t : forall sk p, (sk <= length t)%nat -> asciis p -> rc sk (t ++ p) = (rc sk t + length p)%nat.
Proof.
  induction t as [|a t IH]; intros sk p Hsk Hp.
  - cbn [length] in Hsk. assert (sk = 0%nat) by lia. subst. cbn [app rc]. rewrite rc_ascii by assumption.
    destruct p; reflexivity.
  - destruct sk as [|k].
    + change ((a :: t) ++ p) with (a :: t ++ p). cbn [rc]. rewrite (rune_width_app_ascii a t p Hp).
      rewrite IH; [reflexivity | | assumption].
      pose proof (rune_width_le (a :: t)). cbn [length] in H. lia.
    + change ((a :: t) ++ p) with (a :: t ++ p). cbn [rc]. apply IH; [cbn [length] in Hsk; lia | assumption].
Qed.

Lemma rc_prefix_ascii c k t : (c < 128)%N -> rc 0 (repeat c k ++ t) = (k + rc 0 t)%nat.
Proof.
  intros Hc. induction k as [|k IH]; [reflexivity|].
  cbn [repeat app rc]. rewrite (rune_width_ascii c _ Hc). cbn [Nat.sub]. rewrite IH. reflexivity.
Qed.

Lemma asciis_repeat c k : (c < 128)%N -> asciis (repeat c k).
Proof. intros H. induction k; cbn; constructor; assumption. Qed.

Lemma rlen_ascii p : asciis p -> rlen p = len p.
Proof. intros H. unfold rlen, len, rune_count. now rewrite rc_ascii. Qed.

Lemma rlen_nonneg s : 0 <= rlen s.
Proof. unfold rlen. lia. Qed.

Lemma rlen_pad_left c n s : (c < 128)%N -> rlen (repeat c (Z.to_nat n) ++ s) = Z.of_nat (Z.to_nat n) + rlen s.
Proof. intros H. unfold rlen, rune_count. rewrite rc_prefix_ascii by assumption. lia. Qed.

Lemma rlen_pad_right c n s : (c < 128)%N -> rlen (s ++ repeat c (Z.to_nat n)) = rlen s + Z.of_nat (Z.to_nat n).
Proof.
  intros H. unfold rlen, rune_count. rewrite rc_app_ascii; [|lia|now apply asciis_repeat].
  rewrite repeat_length. lia.
Qed.

(* ------------------------------------------------------------------------------------------ *)
(* fmt's padding *)

Lemma fmt_pad_width wid minus zero s : wid <= rlen (fmt_pad wid minus zero s).
Proof.
  unfold fmt_pad. pose proof (rlen_nonneg s).
  destruct (Z.leb_spec wid 0); [lia|].
  destruct minus.
  - unfold spaces. rewrite rlen_pad_right by lia. lia.
  - destruct zero; unfold zeros, spaces; rewrite rlen_pad_left by lia; lia.
Qed.

Lemma fmt_pad_left wid zero s : fmt_pad wid true zero s = s ++ spaces (wid - rlen s).
Proof.
  unfold fmt_pad. pose proof (rlen_nonneg s). destruct (Z.leb_spec wid 0); [|reflexivity].
  unfold spaces. replace (Z.to_nat (wid - rlen s)) with 0%nat by lia. cbn. now rewrite app_nil_r.
Qed.

Lemma fmt_pad_right wid s : fmt_pad wid false false s = spaces (wid - rlen s) ++ s.
Proof.
  unfold fmt_pad. pose proof (rlen_nonneg s). destruct (Z.leb_spec wid 0); [|reflexivity].
  unfold spaces. replace (Z.to_nat (wid - rlen s)) with 0%nat by lia. reflexivity.
Qed.

Lemma fmt_pad_none minus zero s : fmt_pad (-1) minus zero s = s.
Proof. reflexivity. Qed.

Lemma fmt_s_width wid prec minus zero s : wid <= rlen (fmt_s wid prec minus zero s).
Proof. apply fmt_pad_width. Qed.

Lemma fmt_integer_width sharp zero plus space minus wid prec base upper n :
  wid <= rlen (fmt_integer sharp zero plus space minus wid prec base upper n).
Proof.
  unfold fmt_integer. cbv zeta. destruct (_ && _ && _).
  - unfold spaces. rewrite <- (app_nil_r (repeat _ _)). rewrite rlen_pad_left by lia. unfold rlen, rune_count; cbn. lia.
  - apply fmt_pad_width.
Qed.

Lemma go_fmt_int_width f verb n : f_width f <= rlen (go_fmt_int f verb n).
Proof. apply fmt_integer_width. Qed.

(* ASCII-ness of integer renderings (needed because %B rewrites the prefix afterwards) *)
Lemma digit_char_ascii up d : 0 <= d < 16 -> (digit_char up d < 128)%N.
Proof.
  intros H. unfold digit_char. destruct (d <? 10) eqn:E; destruct up; lia.
Qed.

Lemma digits_f_ascii base up : 2 <= base <= 16 ->
  forall fuel u acc, 0 <= u -> asciis acc -> asciis (digits_f fuel base up u acc).
Proof.
  intros Hb. induction fuel as [|k IH]; intros u acc Hu Ha; [exact Ha|].
  cbn [digits_f]. destruct (Z.ltb_spec u base).
  - constructor; [apply digit_char_ascii; lia | exact Ha].
  - apply IH; [apply Z.div_pos; lia|]. constructor; [|exact Ha].
    apply digit_char_ascii. pose proof (Z.mod_pos_bound u base). lia.
Qed.

Lemma asciis_app a b : asciis a -> asciis b -> asciis (a ++ b).
Proof. intros Ha Hb. apply Forall_app. split; assumption. Qed.

Lemma fmt_pad_ascii wid minus zero s : asciis s -> asciis (fmt_pad wid minus zero s).
Proof.
  intros H. unfold fmt_pad. destruct (wid <=? 0); [exact H|].
  destruct minus; [apply asciis_app; [exact H | apply asciis_repeat; lia]|].
  destruct zero; (apply asciis_app; [apply asciis_repeat; lia | exact H]).
Qed.

Lemma asciis_sign (a b c : bool) x :
  asciis x -> asciis (if a then 45%N :: x else if b then 43%N :: x else if c then 32%N :: x else x).
Proof. intros H. destruct a, b, c; try exact H; (constructor; [lia | exact H]). Qed.

Lemma asciis_sharp (sharp up : bool) base ds :
  asciis ds ->
  asciis (if sharp then
            if base =? 2 then 48%N :: 98%N :: ds
            else if base =? 8 then (match ds with 48%N :: _ => ds | _ => 48%N :: ds end)
            else if base =? 16 then 48%N :: (if up then 88%N else 120%N) :: ds
            else ds
          else ds).
Proof.
  intros Hd. destruct sharp; [|exact Hd]. destruct (base =? 2); [repeat constructor; try lia; exact Hd|].
  destruct (base =? 8).
  { destruct ds as [|d ds']; [repeat constructor; lia|].
    destruct d as [|p]; [constructor; [lia|exact Hd]|].
    repeat (destruct p as [p|p|]; try (constructor; [lia | exact Hd])); exact Hd. }
  destruct (base =? 16); [|exact Hd]. destruct up; repeat constructor; try lia; exact Hd.
Qed.

Lemma fmt_integer_ascii sharp zero plus space minus wid prec base upper n :
  2 <= base <= 16 -> asciis (fmt_integer sharp zero plus space minus wid prec base upper n).
Proof.
  intros Hb. unfold fmt_integer. cbv zeta.
  destruct (_ && _ && _); [apply asciis_repeat; lia|].
  apply fmt_pad_ascii. apply asciis_sign. apply asciis_sharp.
  apply asciis_app; [apply asciis_repeat; lia|]. apply digits_f_ascii; [exact Hb | lia | constructor].
Qed.

Lemma go_fmt_int_ascii f verb n : asciis (go_fmt_int f verb n).
Proof.
  unfold go_fmt_int. apply fmt_integer_ascii.
  repeat match goal with |- context [if ?b then _ else _] => destruct b end; lia.
Qed.

Lemma replace_0b_length s : length (replace_0b s) = length s.
Proof.
  induction s as [|a r IH]; [reflexivity|]. cbn [replace_0b]. destruct r as [|b r']; [reflexivity|].
  destruct (_ && _); [reflexivity|]. cbn [length] in *. now rewrite IH.
Qed.

Lemma replace_0b_ascii s : asciis s -> asciis (replace_0b s).
Proof.
  induction s as [|a r IH]; intros H; [exact H|]. cbn [replace_0b]. destruct r as [|b r']; [exact H|].
  inversion H as [|? ? Ha Hr]; subst. inversion Hr as [|? ? Hb Hr']; subst.
  destruct (_ && _); [repeat constructor; try lia; exact Hr'|]. constructor; [exact Ha | apply IH; exact Hr].
Qed.

Lemma replace_0b_width f n : f_width f <= rlen (replace_0b (go_fmt_int f 98 n)).
Proof.
  pose proof (go_fmt_int_ascii f 98 n) as Ha.
  rewrite (rlen_ascii _ (replace_0b_ascii _ Ha)). unfold len. rewrite replace_0b_length.
  fold (len (go_fmt_int f 98 n)). rewrite <- (rlen_ascii _ Ha). apply go_fmt_int_width.
Qed.

(* ------------------------------------------------------------------------------------------ *)
(* ApplyStringFlags and the scalar ToString methods *)

Lemma apply_width o f s q t : apply_string_flags o f s q = OText t -> f_width f <= rlen t.
Proof.
  unfold apply_string_flags. destruct (if q then quote o s else ROk s) as [s'|e]; cbn [bind]; [|discriminate].
  destruct (f_left f || (0 <=? f_width f) || (0 <=? f_prec f)) eqn:E; intros H; injection H as <-.
  - apply fmt_s_width.
  - pose proof (rlen_nonneg s'). apply orb_false_iff in E. destruct E as [E _]. apply orb_false_iff in E.
    destruct E as [_ E]. apply Z.leb_gt in E. lia.
Qed.

Ltac width_arm H :=
  cbn [bind] in H;
  first
    [ discriminate H
    | exact (apply_width _ _ _ _ _ H)
    | injection H as <-; first [apply go_fmt_int_width | apply replace_0b_width | apply fmt_s_width]
    | match type of H with
      | bind ?x _ = _ => let E := fresh "E" in destruct x eqn:E; width_arm H
      | match ?x with _ => _ end = _ => let E := fresh "E" in destruct x eqn:E; width_arm H
      | (if ?x then _ else _) = _ => let E := fresh "E" in destruct x eqn:E; width_arm H
      end ].

Lemma render_integer_width o cb f n t :
  mem (f_char f) l_efg = false -> render_integer o cb f n = OText t -> f_width f <= rlen t.
Proof.
  intros He. unfold render_integer. cbv zeta. rewrite He.
  destruct (mem (f_char f) l_xXodb); [intros H; width_arm H|].
  destruct (N.eqb (f_char f) 66); [intros H; width_arm H|].
  destruct (N.eqb (f_char f) 112); [intros H; width_arm H|].
  destruct (N.eqb (f_char f) 99); [intros H; width_arm H|].
  destruct (N.eqb (f_char f) 115); intros H; width_arm H.
Qed.

Lemma efg_false_of c l : forallb (fun x => mem x l_efg) l = true -> mem c l_efg = false -> mem c l = false.
Proof.
  intros Hs He. destruct (mem c l) eqn:E; [|reflexivity]. rewrite (mem_sub c l l_efg Hs E) in He. discriminate.
Qed.

Lemma render_float_width o cb f b t :
  mem (f_char f) l_efg = false ->
  (forall f' n t', cb f' n = OText t' -> f_width f' <= rlen t') ->
  render_float o cb f b = OText t -> f_width f <= rlen t.
Proof.
  intros He Hcb. unfold render_float. cbv zeta.
  rewrite (efg_false_of _ l_eEf eq_refl He), (efg_false_of _ l_gG eq_refl He), (efg_false_of _ l_aA eq_refl He).
  destruct (mem (f_char f) l_dxXobB).
  { destruct (assoc _ _ _); [apply Hcb | discriminate]. }
  destruct (N.eqb (f_char f) 112); [intros H; width_arm H|].
  destruct (N.eqb (f_char f) 115); intros H; width_arm H.
Qed.

Lemma render_boolean_width o f b t :
  mem (f_char f) l_efg = false -> render_boolean o f b = OText t -> f_width f <= rlen t.
Proof.
  intros He. unfold render_boolean. cbv zeta. rewrite He.
  destruct (N.eqb (f_char f) 116); [intros H; width_arm H|].
  destruct (N.eqb (f_char f) 84); [intros H; width_arm H|].
  destruct (N.eqb (f_char f) 121); [intros H; width_arm H|].
  destruct (N.eqb (f_char f) 89); [intros H; width_arm H|].
  destruct (mem (f_char f) l_dxXobB); [now apply render_integer_width|].
  destruct (mem (f_char f) l_sp); intros H; width_arm H.
Qed.

Lemma render_string_width o f s t : render_string o f s = OText t -> f_width f <= rlen t.
Proof.
  unfold render_string. cbv zeta.
  repeat match goal with |- (if ?b then _ else _) = _ -> _ => destruct b; [intros H; width_arm H|] end.
  intros H; width_arm H.
Qed.

Lemma render_binary_width o f s t : render_binary o f s = OText t -> f_width f <= rlen t.
Proof. unfold render_binary. cbv zeta. intros H. width_arm H. Qed.

Lemma render_default_width o f t : render_default o f = OText t -> f_width f <= rlen t.
Proof. unfold render_default. cbv zeta. intros H. width_arm H. Qed.

(* does the rendering pass through fmt's float verbs (digits from strconv)? *)
Definition float_path (v : value) (c : N) : bool :=
  match v with VInt _ | VFloat _ | VBool _ => mem c l_efg | _ => false end.

Theorem width_respected o f v t :
  is_container v = false -> float_path v (f_char f) = false ->
  render_scalar o f v = OText t -> f_width f <= rlen t.
Proof.
  destruct v; cbn [is_container float_path render_scalar]; intros Hc Hf; try discriminate.
  - unfold render_undef. apply apply_width.
  - apply render_default_width.
  - now apply render_boolean_width.
  - unfold render_int_top. now apply render_integer_width.
  - unfold render_float_top. apply render_float_width; [assumption|].
    intros f' n t'. destruct (mem (f_char f') l_efg) eqn:E.
    + unfold render_integer. cbv zeta. rewrite E.
      destruct (mem (f_char f') l_xXodb); [intros H; width_arm H|].
      destruct (N.eqb (f_char f') 66); [intros H; width_arm H|].
      destruct (N.eqb (f_char f') 112); [intros H; width_arm H|].
      destruct (assoc _ _ _); discriminate.
    + now apply render_integer_width.
  - apply render_string_width.
  - unfold render_regexp. destruct (assoc _ _ _); [apply apply_width | discriminate].
  - apply render_binary_width.
Qed.

(* ------------------------------------------------------------------------------------------ *)
(* padding side: the rendering under width w is the rendering without width, padded with spaces on
   the right under '-', on the left otherwise (zero padding aside) *)

Definition set_width (f : format) (w : Z) : format :=
  mkFormat (f_alt f) (f_left f) (f_zero f) (f_char f) (f_plus f) (f_prec f) w (f_delim f) (f_sep f) (f_sep2 f) (f_cf f).

Definition padded (left : bool) (w : Z) (t0 t : str) : Prop :=
  if left then t = t0 ++ spaces (w - rlen t0) else t = spaces (w - rlen t0) ++ t0.

Lemma fmt_s_padded w prec left s :
  padded left w (fmt_s (-1) prec left false s) (fmt_s w prec left false s).
Proof.
  unfold fmt_s. rewrite fmt_pad_none. unfold padded. destruct left; [apply fmt_pad_left | apply fmt_pad_right].
Qed.

Lemma apply_padded o f s q t :
  apply_string_flags o f s q = OText t ->
  exists t0, apply_string_flags o (set_width f (-1)) s q = OText t0 /\ padded (f_left f) (f_width f) t0 t.
Proof.
  unfold apply_string_flags.
  destruct (if q then quote o s else ROk s) as [s'|e]; cbn [bind]; [|discriminate].
  destruct f as [alt left zero ch plus prec width delim sep sep2 cf]. cbn [f_left f_width f_prec set_width f_alt f_zero f_char f_plus f_delim f_sep f_sep2 f_cf].
  change (0 <=? -1) with false. rewrite orb_false_r.
  destruct (left || (0 <=? width) || (0 <=? prec)) eqn:E; intros H; injection H as <-.
  - destruct (left || (0 <=? prec)) eqn:E2.
    + eexists; split; [reflexivity|]. apply fmt_s_padded.
    + apply orb_false_iff in E2. destruct E2 as [-> E2]. exists s'. split; [reflexivity|].
      unfold fmt_s. rewrite E2. unfold padded. apply fmt_pad_right.
  - apply orb_false_iff in E. destruct E as [E E3]. apply orb_false_iff in E. destruct E as [-> E].
    cbn [orb]. rewrite E3. exists s'. split; [reflexivity|]. unfold padded.
    apply Z.leb_gt in E. pose proof (rlen_nonneg s'). unfold spaces.
    replace (Z.to_nat (width - rlen s')) with 0%nat by lia. reflexivity.
Qed.

Lemma fmt_integer_padded sharp plus space minus zero wid prec base upper n :
  (minus = true \/ zero = false) ->
  padded minus wid (fmt_integer sharp zero plus space minus (-1) prec base upper n)
         (fmt_integer sharp zero plus space minus wid prec base upper n).
Proof.
  intros Hz. unfold fmt_integer. cbv zeta.
  destruct ((0 <=? prec) && (prec =? 0) && (Z.abs n =? 0)).
  - unfold padded, spaces. change (Z.to_nat (-1)) with 0%nat. cbn [repeat].
    unfold rlen, rune_count; cbn [rc]. rewrite Z.sub_0_r, app_nil_r. destruct minus; reflexivity.
  - assert (Hp : (if 0 <=? prec then prec
                  else if zero && negb minus && (0 <=? wid) then wid - (if (n <? 0) || plus || space then 1 else 0) else 0)
                 = (if 0 <=? prec then prec
                    else if zero && negb minus && (0 <=? -1) then -1 - (if (n <? 0) || plus || space then 1 else 0) else 0)).
    { destruct (0 <=? prec); [reflexivity|]. change (0 <=? -1) with false. rewrite andb_false_r.
      destruct Hz as [-> | ->]; [now rewrite andb_false_r | reflexivity]. }
    rewrite <- Hp. rewrite fmt_pad_none. unfold padded. destruct minus; [apply fmt_pad_left | apply fmt_pad_right].
Qed.

Theorem padding_side_string_flags o f s q t :
  apply_string_flags o f s q = OText t ->
  exists t0, apply_string_flags o (set_width f (-1)) s q = OText t0 /\ padded (f_left f) (f_width f) t0 t.
Proof. apply apply_padded. Qed.

Theorem padding_side_integer f verb n :
  (f_left f = true \/ f_zero f = false) ->
  padded (f_left f) (f_width f) (go_fmt_int (set_width f (-1)) verb n) (go_fmt_int f verb n).
Proof.
  intros Hz. unfold go_fmt_int.
  destruct f as [alt left zero ch plus prec width delim sep sep2 cf].
  cbn [f_left f_width f_prec set_width f_alt f_zero f_char f_plus f_delim f_sep f_sep2 f_cf] in *.
  now apply fmt_integer_padded.
Qed.

(* through px.NewFormatContext3(value, directive) + ToString (NaN included since the fix of nan-directive-ignored:
   its type is the unbounded Float type, which accepts itself, so the directive is applied) *)
Theorem width_respected_directive o v s f t :
  is_container v = false -> float_path v (f_char f) = false ->
  parse_format s None None CfNone = ROk f ->
  format_value o v (FStr s) = Some (OText t) -> f_width f <= rlen t.
Proof.
  intros Hc Hf Hp H. rewrite (format_value_scalar o v s f Hc Hp) in H. injection H as H.
  now apply (width_respected o f v t).
Qed.
