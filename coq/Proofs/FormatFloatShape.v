(* Proofs/FormatFloatShape.v — property C20, the float verbs e E f g G a A: what the code builds around the digit
   string (an oracle: every statement is for EVERY table of digit strings).
   A. in bytes the text is at least `width` long for every digit string whatsoever;
   B. for ASCII digit strings (strconv's are) the text is ASCII, so it is `width` RUNES wide: width_respected_all
      removes the float_path exclusion of Proofs/FormatWidth.v;
   C. fmt_float = fmt_float_spec, pad_float = pad_float_spec (Model/FormatFloatShape.v): sign, '#', zeros between sign
      and digits, left alignment, nothing cut. *)
From Coq Require Import ZArith NArith Bool Lia List.
From PcoreV Require Import Model.Base Model.Format Model.FormatFloatShape.
From PcoreV Require Import Proofs.FormatProofs Proofs.FormatWidth Proofs.FormatNoFault.
Import ListNotations.
Open Scope Z_scope.

(* ------------------------------------------------------------------------------------------ *)
(* lengths *)

Lemma len_app a b : len (a ++ b) = len a + len b.
Proof. unfold len. rewrite app_length. lia. Qed.

Lemma len_cons c a : len (c :: a) = 1 + len a.
Proof. unfold len. cbn [length]. lia. Qed.

Lemma len_nonneg a : 0 <= len a.
Proof. unfold len. lia. Qed.

Lemma len_spaces n : len (spaces n) = Z.max 0 n.
Proof. unfold len, spaces. rewrite repeat_length. lia. Qed.

Lemma len_zeros n : len (zeros n) = Z.max 0 n.
Proof. unfold len, zeros. rewrite repeat_length. lia. Qed.

Lemma spaces_nil n : n <= 0 -> spaces n = [].
Proof. intros H. unfold spaces. replace (Z.to_nat n) with 0%nat by lia. reflexivity. Qed.

Lemma zeros_nil n : n <= 0 -> zeros n = [].
Proof. intros H. unfold zeros. replace (Z.to_nat n) with 0%nat by lia. reflexivity. Qed.

Lemma rc_le s : forall sk, (rc sk s <= length s)%nat.
Proof.
  induction s as [|a s IH]; intros sk; cbn [rc length]; [lia|].
  destruct sk as [|k]; [specialize (IH (rune_width (a :: s) - 1)%nat) | specialize (IH k)]; lia.
Qed.

Lemma rlen_le_len s : rlen s <= len s.
Proof. unfold rlen, len, rune_count. pose proof (rc_le s 0). lia. Qed.

Ltac lens := repeat first [rewrite len_app | rewrite len_cons | rewrite len_spaces | rewrite len_zeros].

(* ------------------------------------------------------------------------------------------ *)
(* A. bytes: every digit string *)

Lemma fmt_pad_len wid minus zero s : wid <= len (fmt_pad wid minus zero s).
Proof. pose proof (fmt_pad_width wid minus zero s). pose proof (rlen_le_len (fmt_pad wid minus zero s)). lia. Qed.

Lemma fmt_float_len o sharp zero plus space minus wid prec verb bits t :
  fmt_float o sharp zero plus space minus wid prec verb bits = OText t -> wid <= len t.
Proof.
  unfold fmt_float. cbv zeta.
  destruct (assoc fdig_key_eqb _ (o_fdig o)) as [ds0|]; [|discriminate].
  destruct (match ds0 with 43%N :: r => r | _ => ds0 end) as [|d0 ds']; [discriminate|].
  destruct (N.eqb d0 73 || N.eqb d0 78); [intros H; injection H as <-; apply fmt_pad_len|].
  set (body := if sharp then _ else _).
  destruct (plus || _); [|intros H; injection H as <-; apply fmt_pad_len].
  destruct (_ && _ && _ && _); intros H; injection H as <-; [|apply fmt_pad_len].
  lens. pose proof (len_nonneg body). lia.
Qed.

Lemma go_fmt_float_len o f verb bits t : go_fmt_float o f verb bits = OText t -> f_width f <= len t.
Proof. apply fmt_float_len. Qed.

Lemma pad_float_len f s : f_width f <= len (pad_float f s).
Proof.
  unfold pad_float. cbv zeta. destruct (Z.leb_spec (f_width f - len s) 0) as [Hp|Hp]; [lia|].
  destruct (f_left f); [lens; lia|].
  destruct (f_zero f && _); [|lens; lia].
  destruct s as [|c r]; [lens; unfold len in *; cbn [length] in *; lia|].
  destruct (_ || _); lens; rewrite len_cons in Hp; lia.
Qed.

Lemma float_g_len o f bits t : float_g o f bits = OText t -> f_width f <= len t.
Proof.
  unfold float_g. destruct (go_fmt_float o (without_width f) (f_char f) bits) as [s|e]; cbn [bind]; [|discriminate].
  cbv zeta. destruct (_ || _ || _); [intros H; injection H as <-; apply pad_float_len|].
  destruct s as [|c0 s']; [discriminate|].
  destruct (_ && _ && _).
  - intros H. apply go_fmt_float_len in H. exact H.
  - intros H; injection H as <-; apply pad_float_len.
Qed.

(* the seven letters *)
Lemma efg_cases c : mem c l_efg = true ->
  c = 101%N \/ c = 69%N \/ c = 102%N \/ c = 103%N \/ c = 71%N \/ c = 97%N \/ c = 65%N.
Proof.
  intros H. apply mem_true in H. cbn in H.
  repeat (destruct H as [H|H]; [subst; tauto|]). contradiction.
Qed.

(* render_float under e E f g G a A is fmt on the float or floatGFormat *)
Lemma render_float_efg o cb f b : mem (f_char f) l_efg = true ->
  render_float o cb f b = go_fmt_float o f (f_char f) b \/ render_float o cb f b = float_g o f b
  \/ render_float o cb f b = go_fmt_float o f 120 b \/ render_float o cb f b = go_fmt_float o f 88 b.
Proof.
  intros H. unfold render_float. cbv zeta.
  destruct (efg_cases _ H) as [E|[E|[E|[E|[E|[E|E]]]]]]; rewrite E; cbn; tauto.
Qed.

Lemma render_float_efg_len o cb f b t : mem (f_char f) l_efg = true ->
  render_float o cb f b = OText t -> f_width f <= len t.
Proof.
  intros H. destruct (render_float_efg o cb f b H) as [E|[E|[E|E]]]; rewrite E;
    first [apply go_fmt_float_len | apply float_g_len].
Qed.

(* render_integer under e E f g G a A converts and calls the float's ToString *)
Lemma render_integer_efg o cb f n : mem (f_char f) l_efg = true ->
  render_integer o cb f n = match assoc Z.eqb n (o_i2f o) with Some bits => cb f bits | None => OErr EOracle end.
Proof.
  intros H. unfold render_integer. cbv zeta. rewrite H.
  destruct (efg_cases _ H) as [E|[E|[E|[E|[E|[E|E]]]]]]; rewrite E; reflexivity.
Qed.

Lemma render_boolean_efg o f b : mem (f_char f) l_efg = true ->
  render_boolean o f b = render_float o no_cb f (if b then bits_one else 0).
Proof.
  intros H. unfold render_boolean. cbv zeta. rewrite H.
  destruct (efg_cases _ H) as [E|[E|[E|[E|[E|[E|E]]]]]]; rewrite E; reflexivity.
Qed.

(* a scalar on the float path is render_float of some bits (or no text) *)
Lemma float_path_render o f v t :
  float_path v (f_char f) = true -> render_scalar o f v = OText t ->
  exists cb bits, render_float o cb f bits = OText t /\ mem (f_char f) l_efg = true.
Proof.
  destruct v; cbn [float_path render_scalar]; intros Hf H; try discriminate.
  - rewrite (render_boolean_efg o f _ Hf) in H. eauto.
  - unfold render_int_top in H. rewrite (render_integer_efg o _ f _ Hf) in H.
    destruct (assoc Z.eqb _ (o_i2f o)) as [bits|]; [eauto | discriminate].
  - unfold render_float_top in H. eauto.
Qed.

Theorem width_respected_bytes o f v t :
  is_container v = false -> render_scalar o f v = OText t -> f_width f <= len t.
Proof.
  intros Hc H. destruct (float_path v (f_char f)) eqn:Hf.
  - destruct (float_path_render o f v t Hf H) as (cb & bits & Hr & He). now apply (render_float_efg_len o cb f bits).
  - pose proof (width_respected o f v t Hc Hf H). pose proof (rlen_le_len t). lia.
Qed.

(* ------------------------------------------------------------------------------------------ *)
(* B. ASCII digit strings give ASCII text, whose runes are its bytes *)

Lemma is_ascii_asciis s : is_ascii s = true -> asciis s.
Proof.
  unfold is_ascii, asciis. intros H. apply Forall_forall. intros c Hc.
  rewrite forallb_forall in H. apply N.ltb_lt. now apply H.
Qed.

Lemma lookup_ascii o k ds : fdig_ascii o = true -> assoc fdig_key_eqb k (o_fdig o) = Some ds -> asciis ds.
Proof.
  intros Ho Ha. destruct (assoc_in_gen _ _ _ _ Ha) as (k' & Hin).
  unfold fdig_ascii in Ho. rewrite forallb_forall in Ho. apply is_ascii_asciis. exact (Ho _ Hin).
Qed.

Lemma asciis_cons c s : (c < 128)%N -> asciis s -> asciis (c :: s).
Proof. intros; constructor; assumption. Qed.

Lemma asciis_tail c s : asciis (c :: s) -> asciis s.
Proof. intros H; inversion H; assumption. Qed.

Lemma asciis_rev s : asciis s -> asciis (rev s).
Proof. apply Forall_rev. Qed.

Lemma asciis_zeros n : asciis (zeros n).
Proof. apply asciis_repeat. lia. Qed.

Lemma asciis_spaces n : asciis (spaces n).
Proof. apply asciis_repeat. lia. Qed.

Lemma strip_plus_ascii ds0 : asciis ds0 -> asciis (match ds0 with 43%N :: r => r | _ => ds0 end).
Proof.
  intros H. destruct ds0 as [|a r]; [exact H|]. destruct a as [|p]; [exact H|].
  repeat (destruct p as [p|p|]; try exact H). exact (asciis_tail _ _ H).
Qed.

Lemma sharp_scan_ascii verb : forall l d hp saw acc, asciis l -> asciis acc ->
  let '(body, tail, _, _) := sharp_scan verb l d hp saw acc in asciis body /\ asciis tail.
Proof.
  induction l as [|c r IH]; intros d hp saw acc Hl Ha; cbn [sharp_scan].
  - split; [now apply asciis_rev | constructor].
  - inversion Hl as [|? ? Hc Hr]; subst.
    destruct (N.eqb c 46); [apply IH; [exact Hr | now apply asciis_cons]|].
    destruct (N.eqb c 112 || N.eqb c 80); [split; [now apply asciis_rev | exact Hl]|].
    destruct ((N.eqb c 101 || N.eqb c 69) && negb (N.eqb verb 120) && negb (N.eqb verb 88));
      [split; [now apply asciis_rev | exact Hl]|].
    apply IH; [exact Hr | now apply asciis_cons].
Qed.

Lemma sharp_fix_ascii verb p num : asciis num -> asciis (sharp_fix verb p num).
Proof.
  intros Hn. unfold sharp_fix.
  match goal with |- context [sharp_scan verb num ?d0 false false []] =>
    pose proof (sharp_scan_ascii verb num d0 false false [] Hn (Forall_nil _)) as H;
    destruct (sharp_scan verb num d0 false false []) as [[[body tail] digits] hp] end.
  destruct H as [Hb Ht]. destruct hp.
  - apply asciis_app; [exact Hb|]. apply asciis_app; [apply asciis_zeros | exact Ht].
  - apply asciis_app; [apply asciis_app; [exact Hb | repeat constructor; lia]|].
    apply asciis_app; [apply asciis_zeros | exact Ht].
Qed.

(* fmt_float after the table lookup, the sign byte abstracted *)
Definition ff_sgn (plus space : bool) (bits : Z) : N :=
  let sgn := if f_is_nan bits then 43%N else if f_signbit bits then 45%N else 43%N in
  if space && N.eqb sgn 43 && negb plus then 32%N else sgn.

Definition ff_tail (sharp zero plus space minus : bool) (wid : Z) (verb : N) (p : Z) (sgn : N) (ds : str) : obs :=
  match ds with
  | [] => OErr EFault
  | d0 :: _ =>
    if N.eqb d0 73 || N.eqb d0 78 then
      let num := if N.eqb d0 78 && negb space && negb plus then ds else sgn :: ds in
      OText (fmt_pad wid minus false num)
    else
      let ds := if sharp then sharp_fix verb p ds else ds in
      if plus || negb (N.eqb sgn 43) then
        if zero && negb minus && (0 <=? wid) && (len ds + 1 <? wid)
        then OText (sgn :: zeros (wid - (len ds + 1)) ++ ds)
        else OText (fmt_pad wid minus zero (sgn :: ds))
      else OText (fmt_pad wid minus zero ds)
  end.

Lemma fmt_float_tail o sharp zero plus space minus wid prec verb bits :
  fmt_float o sharp zero plus space minus wid prec verb bits =
  match dig_of o bits verb (fl_prec prec verb) with
  | None => OErr EOracle
  | Some ds0 => ff_tail sharp zero plus space minus wid verb (fl_prec prec verb) (ff_sgn plus space bits) (fl_strip_plus ds0)
  end.
Proof. reflexivity. Qed.

Lemma ff_sgn_ascii plus space bits : (ff_sgn plus space bits < 128)%N.
Proof.
  unfold ff_sgn. cbv zeta. destruct (space && _ && negb plus); [lia|]. destruct (f_is_nan bits); [lia|].
  destruct (f_signbit bits); lia.
Qed.

Lemma ff_tail_ascii sharp zero plus space minus wid verb p sgn ds t :
  (sgn < 128)%N -> asciis ds -> ff_tail sharp zero plus space minus wid verb p sgn ds = OText t -> asciis t.
Proof.
  intros Hs Hd. unfold ff_tail. destruct ds as [|d0 ds']; [discriminate|]. cbv zeta.
  destruct (N.eqb d0 73 || N.eqb d0 78).
  { intros H; injection H as <-. apply fmt_pad_ascii.
    destruct (N.eqb d0 78 && negb space && negb plus); [exact Hd | now apply asciis_cons]. }
  set (body := if sharp then _ else _).
  assert (Hb : asciis body) by (subst body; destruct sharp; [now apply sharp_fix_ascii | exact Hd]).
  destruct (plus || negb (N.eqb sgn 43)); [|intros H; injection H as <-; now apply fmt_pad_ascii].
  destruct (zero && negb minus && (0 <=? wid) && (len body + 1 <? wid)); intros H; injection H as <-.
  - apply asciis_cons; [exact Hs|]. apply asciis_app; [apply asciis_zeros | exact Hb].
  - apply fmt_pad_ascii. now apply asciis_cons.
Qed.

Lemma fmt_float_ascii o sharp zero plus space minus wid prec verb bits t :
  fdig_ascii o = true -> fmt_float o sharp zero plus space minus wid prec verb bits = OText t -> asciis t.
Proof.
  intros Ho. rewrite fmt_float_tail. unfold dig_of.
  destruct (assoc fdig_key_eqb _ (o_fdig o)) as [ds0|] eqn:Ea; [|discriminate].
  apply ff_tail_ascii; [apply ff_sgn_ascii|]. apply strip_plus_ascii. exact (lookup_ascii o _ _ Ho Ea).
Qed.

Lemma pad_float_ascii f s : asciis s -> asciis (pad_float f s).
Proof.
  intros H. unfold pad_float. cbv zeta. destruct (_ <=? 0); [exact H|].
  destruct (f_left f); [apply asciis_app; [exact H | apply asciis_spaces]|].
  destruct (f_zero f && _); [|apply asciis_app; [apply asciis_spaces | exact H]].
  destruct s as [|c r]; [apply asciis_zeros|].
  destruct (_ || _).
  - inversion H; subst. apply asciis_cons; [assumption|]. apply asciis_app; [apply asciis_zeros | assumption].
  - apply asciis_app; [apply asciis_zeros | exact H].
Qed.

Lemma float_g_ascii o f bits t : fdig_ascii o = true -> float_g o f bits = OText t -> asciis t.
Proof.
  intros Ho. unfold float_g.
  destruct (go_fmt_float o (without_width f) (f_char f) bits) as [s|e] eqn:Es; cbn [bind]; [|discriminate].
  apply (fmt_float_ascii o) in Es; [|exact Ho].
  cbv zeta. destruct (_ || _ || _); [intros H; injection H as <-; now apply pad_float_ascii|].
  destruct s as [|c0 s']; [discriminate|].
  destruct (_ && _ && _).
  - intros H. now apply (fmt_float_ascii o) in H.
  - intros H; injection H as <-. apply pad_float_ascii. apply (asciis_app (c0 :: s') _ Es).
    apply asciis_app; [|apply asciis_zeros].
    match goal with |- asciis (if ?b then _ else _) => destruct b end; [constructor|].
    apply asciis_cons; [lia|].
    match goal with |- asciis (if ?b then _ else _) => destruct b end; repeat constructor; lia.
Qed.

Lemma render_float_efg_ascii o cb f b t : fdig_ascii o = true -> mem (f_char f) l_efg = true ->
  render_float o cb f b = OText t -> asciis t.
Proof.
  intros Ho H. destruct (render_float_efg o cb f b H) as [E|[E|[E|E]]]; rewrite E;
    first [now apply fmt_float_ascii | now apply float_g_ascii].
Qed.

(* the width theorem without the float_path exclusion *)
Theorem width_respected_all o f v t :
  fdig_ascii o = true -> is_container v = false -> render_scalar o f v = OText t -> f_width f <= rlen t.
Proof.
  intros Ho Hc H. destruct (float_path v (f_char f)) eqn:Hf.
  - destruct (float_path_render o f v t Hf H) as (cb & bits & Hr & He).
    rewrite (rlen_ascii t (render_float_efg_ascii o cb f bits t Ho He Hr)).
    now apply (render_float_efg_len o cb f bits).
  - now apply (width_respected o f v t).
Qed.

Theorem width_respected_directive_all o v s f t :
  fdig_ascii o = true -> is_container v = false ->
  parse_format s None None CfNone = ROk f ->
  format_value o v (FStr s) = Some (OText t) -> f_width f <= rlen t.
Proof.
  intros Ho Hc Hp H. rewrite (format_value_scalar o v s f Hc Hp) in H. injection H as H.
  now apply (width_respected_all o f v t).
Qed.

(* ------------------------------------------------------------------------------------------ *)
(* C. the shape: fmt_float IS fmt_float_spec, pad_float IS pad_float_spec *)

Lemma fl_layout_small minus zero wid sign body :
  wid <= len sign + len body -> fl_layout minus zero wid sign body = sign ++ body.
Proof.
  intros H. unfold fl_layout. cbv zeta. rewrite spaces_nil, zeros_nil by lia.
  destruct minus; [now rewrite app_nil_r|]. destruct zero; reflexivity.
Qed.

(* fmt's pad on ASCII text, when the zeros (if any) cannot land in front of a sign *)
Lemma fmt_pad_layout minus zero wid sign body :
  asciis (sign ++ body) -> (zero = false \/ minus = true \/ sign = []) ->
  fmt_pad wid minus zero (sign ++ body) = fl_layout minus zero wid sign body.
Proof.
  intros Ha Hz. unfold fmt_pad. rewrite (rlen_ascii _ Ha), len_app.
  pose proof (len_nonneg sign). pose proof (len_nonneg body).
  destruct (Z.leb_spec wid 0) as [Hw|Hw]; [symmetry; apply fl_layout_small; lia|].
  unfold fl_layout. cbv zeta. destruct minus; [now rewrite app_assoc|].
  destruct zero; [|now rewrite app_assoc].
  destruct Hz as [Hz|[Hz|Hz]]; try discriminate. subst sign. reflexivity.
Qed.

Lemma fmt_pad_small wid minus zero s : wid <= rlen s -> fmt_pad wid minus zero s = s.
Proof.
  intros H. unfold fmt_pad. destruct (wid <=? 0); [reflexivity|].
  unfold spaces, zeros. replace (Z.to_nat (wid - rlen s)) with 0%nat by lia. cbn [repeat].
  destruct minus; [now rewrite app_nil_r|]. destruct zero; reflexivity.
Qed.

(* the sign byte of fmt_float is the sign byte of the specification *)
Lemma ff_sgn_char plus space bits :
  ff_sgn plus space bits = fl_sign_char (negb (f_is_nan bits) && f_signbit bits) plus space.
Proof.
  unfold ff_sgn, fl_sign_char. cbv zeta. destruct (f_is_nan bits), (f_signbit bits), plus, space; reflexivity.
Qed.

Lemma ff_sgn_shown plus space bits :
  plus || negb (N.eqb (ff_sgn plus space bits) 43) = (negb (f_is_nan bits) && f_signbit bits) || plus || space.
Proof.
  unfold ff_sgn. cbv zeta. destruct (f_is_nan bits), (f_signbit bits), plus, space; reflexivity.
Qed.

Lemma ff_tail_shape sharp zero plus space minus wid verb p bits ds :
  asciis ds -> ds <> [] ->
  ff_tail sharp zero plus space minus wid verb p (ff_sgn plus space bits) ds =
  OText (fl_layout minus (zero && negb (fl_special ds)) wid
                   (fl_sign ds (negb (f_is_nan bits) && f_signbit bits) plus space) (fl_body sharp verb p ds)).
Proof.
  intros Hd Hne. destruct ds as [|d0 ds']; [congruence|]. clear Hne.
  unfold ff_tail, fl_sign, fl_body, fl_special, fl_is_n. cbv zeta.
  rewrite ff_sgn_shown, ff_sgn_char.
  set (neg := negb (f_is_nan bits) && f_signbit bits).
  assert (Hs : (fl_sign_char neg plus space < 128)%N) by (unfold fl_sign_char; destruct neg, plus, space; lia).
  destruct (N.eqb d0 73 || N.eqb d0 78).
  { (* Inf, NaN: never zero padded *)
    cbn [negb]. rewrite andb_false_r. f_equal.
    destruct (N.eqb d0 78 && negb space && negb plus); cbn [negb].
    - apply (fmt_pad_layout minus false wid [] (d0 :: ds')); [exact Hd | now left].
    - apply (fmt_pad_layout minus false wid [_] (d0 :: ds')); [now apply asciis_cons | now left]. }
  cbn [negb]. rewrite andb_true_r.
  set (body := if sharp then _ else _).
  assert (Hb : asciis body) by (subst body; destruct sharp; [now apply sharp_fix_ascii | exact Hd]).
  destruct (neg || plus || space).
  - (* a sign is written *)
    assert (Hsb : asciis ([fl_sign_char neg plus space] ++ body)) by (now apply asciis_cons).
    destruct (zero && negb minus && (0 <=? wid) && (len body + 1 <? wid)) eqn:Ez.
    + apply andb_prop in Ez. destruct Ez as [Ez _]. apply andb_prop in Ez. destruct Ez as [Ez _].
      apply andb_prop in Ez. destruct Ez as [-> Em]. apply negb_true_iff in Em. subst minus.
      f_equal. unfold fl_layout. cbv zeta. rewrite len_cons. change (len []) with 0.
      replace (wid - (1 + 0 + len body)) with (wid - (len body + 1)) by lia. reflexivity.
    + f_equal. destruct minus; [apply (fmt_pad_layout true zero wid [_] body Hsb); tauto|].
      destruct zero; [|apply (fmt_pad_layout false false wid [_] body Hsb); tauto].
      cbn [negb andb] in Ez. change (fl_sign_char neg plus space :: body) with ([fl_sign_char neg plus space] ++ body).
      assert (Hw : wid <= len [fl_sign_char neg plus space] + len body).
      { pose proof (len_nonneg body). rewrite len_cons. change (len []) with 0. destruct (0 <=? wid) eqn:Ew; cbn [andb] in Ez; [apply Z.ltb_ge in Ez | apply Z.leb_gt in Ew]; lia. }
      rewrite fl_layout_small by exact Hw. apply fmt_pad_small. rewrite (rlen_ascii _ Hsb), len_app. exact Hw.
  - f_equal. apply (fmt_pad_layout minus zero wid [] body Hb). tauto.
Qed.

(* fmt.fmtFloat is the shape, for every table of ASCII digit strings *)
Theorem fmt_float_shape o sharp zero plus space minus wid prec verb bits :
  fdig_ascii o = true ->
  fmt_float o sharp zero plus space minus wid prec verb bits =
  fmt_float_spec (dig_of o) sharp zero plus space minus wid prec verb bits.
Proof.
  intros Ho. rewrite fmt_float_tail. unfold fmt_float_spec. cbv zeta. unfold dig_of.
  destruct (assoc fdig_key_eqb _ (o_fdig o)) as [ds0|] eqn:Ea; [|reflexivity].
  pose proof (strip_plus_ascii _ (lookup_ascii o _ _ Ho Ea)) as Hd. fold (fl_strip_plus ds0) in Hd.
  destruct (fl_strip_plus ds0) as [|d0 ds'] eqn:Ed; [reflexivity|].
  apply ff_tail_shape; [exact Hd | discriminate].
Qed.

Theorem go_fmt_float_shape o f verb bits :
  fdig_ascii o = true -> go_fmt_float o f verb bits = go_fmt_float_spec (dig_of o) f verb bits.
Proof. intros Ho. now apply fmt_float_shape. Qed.

(* padFloat is the shape (every text) *)
Theorem pad_float_shape f s : pad_float f s = pad_float_spec f s.
Proof.
  unfold pad_float, pad_float_spec, fl_split_sign, fl_layout. cbv zeta.
  destruct s as [|c r].
  - change (len []) with 0. rewrite Z.sub_0_r, Z.add_0_r, Z.sub_0_r.
    destruct (Z.leb_spec (f_width f) 0) as [Hp|Hp].
    + rewrite spaces_nil, zeros_nil by lia. destruct (f_left f); [reflexivity|]. destruct (f_zero f && _); reflexivity.
    + destruct (f_left f); [reflexivity|]. destruct (f_zero f && _); now rewrite ?app_nil_r.
  - destruct (N.eqb c 45 || N.eqb c 43 || N.eqb c 32) eqn:Es.
    + rewrite !len_cons. change (len []) with 0.
      replace (f_width f - (1 + 0 + len r)) with (f_width f - (1 + len r)) by lia.
      destruct (Z.leb_spec (f_width f - (1 + len r)) 0) as [Hp|Hp].
      * rewrite spaces_nil, zeros_nil by lia. destruct (f_left f); [now rewrite app_nil_r|].
        destruct (f_zero f && _); reflexivity.
      * destruct (f_left f); [reflexivity|]. destruct (f_zero f && _); reflexivity.
    + change (len []) with 0. rewrite Z.add_0_l.
      destruct (Z.leb_spec (f_width f - len (c :: r)) 0) as [Hp|Hp].
      * rewrite spaces_nil, zeros_nil by lia. destruct (f_left f); [now rewrite app_nil_r|].
        destruct (f_zero f && _); reflexivity.
      * destruct (f_left f); [reflexivity|]. destruct (f_zero f && _); reflexivity.
Qed.

(* what the shape says *)
Lemma fl_layout_len minus zero wid sign body :
  len (fl_layout minus zero wid sign body) = Z.max wid (len sign + len body).
Proof.
  unfold fl_layout. cbv zeta. pose proof (len_nonneg sign). pose proof (len_nonneg body).
  destruct minus; [lens; lia|]. destruct zero; lens; lia.
Qed.

Lemma fl_layout_parts minus zero wid sign body :
  exists lpad zpad rpad : Z,
    fl_layout minus zero wid sign body = spaces lpad ++ sign ++ zeros zpad ++ body ++ spaces rpad
    /\ lpad + zpad + rpad = Z.max 0 (wid - (len sign + len body))
    /\ 0 <= lpad /\ 0 <= zpad /\ 0 <= rpad
    /\ (minus = true -> lpad = 0 /\ zpad = 0)
    /\ (minus = false -> rpad = 0 /\ (if zero then lpad = 0 else zpad = 0)).
Proof.
  set (n := Z.max 0 (wid - (len sign + len body))).
  assert (Hs : spaces n = spaces (wid - (len sign + len body))) by (unfold spaces; f_equal; lia).
  assert (Hz : zeros n = zeros (wid - (len sign + len body))) by (unfold zeros; f_equal; lia).
  unfold fl_layout. cbv zeta. destruct minus.
  - exists 0, 0, n. rewrite Hs. cbn [spaces zeros Z.to_nat repeat app].
    repeat split; try lia; discriminate.
  - destruct zero.
    + exists 0, n, 0. rewrite Hz. cbn [spaces Z.to_nat repeat app]. rewrite app_nil_r.
      repeat split; try lia; discriminate.
    + exists n, 0, 0. rewrite Hs. cbn [spaces zeros Z.to_nat repeat app]. rewrite app_nil_r.
      repeat split; try lia; discriminate.
Qed.

(* floatGFormat: the %g text of fmt is a prefix of the body laid out (nothing cut), or the value is rendered anew
   under %e *)
Theorem float_g_shape o f bits t :
  float_g o f bits = OText t ->
  exists s, go_fmt_float o (without_width f) (f_char f) bits = OText s /\
    ((exists fill, t = pad_float_spec f (s ++ fill) /\ Forall (fun c => c = 46%N \/ c = 48%N) fill)
     \/ (exists p, go_fmt_float o (with_prec (replace_char f (if N.eqb (f_char f) 71 then 69%N else 101%N)) p)
                                (if N.eqb (f_char f) 71 then 69%N else 101%N) bits = OText t)).
Proof.
  unfold float_g. destruct (go_fmt_float o (without_width f) (f_char f) bits) as [s|e]; cbn [bind]; [|discriminate].
  cbv zeta. intros H. exists s. split; [reflexivity|].
  destruct (_ || _ || _).
  { injection H as <-. left. exists []. rewrite app_nil_r. split; [apply pad_float_shape | constructor]. }
  destruct s as [|c0 s'] eqn:Es; [discriminate|]. rewrite <- Es in *.
  destruct (_ && _ && _).
  - right. eexists. exact H.
  - injection H as <-. left. eexists. split; [apply pad_float_shape|].
    apply Forall_app. split.
    + destruct (mem 46 s); [constructor|]. constructor; [now left|]. destruct (_ =? 0); [repeat constructor; now right | constructor].
    + unfold zeros. apply Forall_forall. intros c Hc. apply repeat_spec in Hc. now right.
Qed.

(* a Boolean / Integer / Float under e E f a A is the shape around the digit string of its float value *)
Lemma direct_cases c : float_verb_direct c = true -> c = 101%N \/ c = 69%N \/ c = 102%N \/ c = 97%N \/ c = 65%N.
Proof.
  unfold float_verb_direct. intros H. apply orb_true_iff in H. destruct H as [H|H]; apply mem_true in H; cbn in H;
    repeat (destruct H as [H|H]; [subst; tauto|]); contradiction.
Qed.

Lemma direct_efg c : float_verb_direct c = true -> mem c l_efg = true.
Proof. intros H. destruct (direct_cases c H) as [E|[E|[E|[E|E]]]]; subst; reflexivity. Qed.

Lemma render_float_direct o cb f b : float_verb_direct (f_char f) = true ->
  render_float o cb f b = go_fmt_float o f (fl_verb (f_char f)) b.
Proof.
  intros H. unfold render_float. cbv zeta.
  destruct (direct_cases _ H) as [E|[E|[E|[E|E]]]]; rewrite E; reflexivity.
Qed.

Theorem render_scalar_float_shape o f v bits :
  fdig_ascii o = true -> float_bits_of o v = Some bits -> float_verb_direct (f_char f) = true ->
  render_scalar o f v = go_fmt_float_spec (dig_of o) f (fl_verb (f_char f)) bits.
Proof.
  intros Ho Hb Hd. pose proof (direct_efg _ Hd) as He. rewrite <- (go_fmt_float_shape o f _ bits Ho).
  destruct v; cbn [float_bits_of] in Hb; try discriminate; cbn [render_scalar].
  - injection Hb as <-. rewrite (render_boolean_efg o f _ He). now apply render_float_direct.
  - unfold render_int_top. rewrite (render_integer_efg o _ f _ He), Hb. now apply render_float_direct.
  - injection Hb as <-. unfold render_float_top. now apply render_float_direct.
Qed.

(* the correspondence obligation float_shape_check is an instance of the theorems: it can only fail where the
   model's text differs from the observed one *)
Lemma scalar_format_render o v spec f t :
  scalar_format o v spec = Some f -> format_value o v spec = Some (OText t) -> render_scalar o f v = OText t.
Proof.
  unfold scalar_format, format_value. destruct (is_container v) eqn:Hc; [discriminate|].
  destruct (context_of spec) as [[m|e]|]; try discriminate.
  destruct (get_format o m v) as [f'|e] eqn:Eg; [|discriminate]. intros Hf. injection Hf as ->.
  destruct v; cbn [is_container] in Hc; try discriminate; cbn [render]; rewrite Eg; cbn [bind];
    intros H; injection H as H; exact H.
Qed.

Lemma scalar_format_scalar o v spec f : scalar_format o v spec = Some f -> is_container v = false.
Proof. unfold scalar_format. destruct (is_container v); [discriminate | reflexivity]. Qed.

Lemma float_shape_check_model o v spec t :
  fdig_ascii o = true -> format_value o v spec = Some (OText t) -> float_shape_check o v spec (OText t) = true.
Proof.
  intros Ho H. unfold float_shape_check. rewrite Ho. cbn [andb].
  destruct (scalar_format o v spec) as [f|] eqn:Ef; [|reflexivity].
  destruct (float_bits_of o v) as [bits|] eqn:Eb; [|reflexivity]. cbv zeta.
  destruct (mem (f_char f) l_efg) eqn:He; [|reflexivity].
  pose proof (scalar_format_render o v spec f t Ef H) as Hr.
  pose proof (width_respected_all o f v t Ho (scalar_format_scalar o v spec f Ef) Hr) as Hw.
  apply Z.leb_le in Hw. rewrite Hw. cbn [andb].
  destruct (float_verb_direct (f_char f)) eqn:Ed; [|reflexivity].
  rewrite <- (render_scalar_float_shape o f v bits Ho Eb Ed), Hr. cbn [str_obs_eqb]. apply str_eqb_refl.
Qed.

(* width for a scalar under ANY specification *)
Theorem width_respected_spec o v spec f t :
  fdig_ascii o = true -> scalar_format o v spec = Some f ->
  format_value o v spec = Some (OText t) -> f_width f <= rlen t.
Proof.
  intros Ho Ef H. apply (width_respected_all o f v t Ho (scalar_format_scalar o v spec f Ef)).
  now apply (scalar_format_render o v spec f t).
Qed.
