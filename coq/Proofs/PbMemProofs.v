(* PbMemProofs.v — the protoConsumer over Go slices (Model/PbMem.v) computes what the list model (Model/Pb.v)
   computes: for every tree of calls, every initial capacity and every growth policy of `append`.  Moving the
   stack to a larger backing array is therefore harmless for the code as it is — and not for the rewrite that
   keeps `&pc.stack[top]` across the doer (refuted at nesting depth 8 = the initial capacity). *)
From Coq Require Import ZArith NArith Bool List Lia Arith.
From PcoreV Require Import Model.Base Model.Json Model.Pb Model.PbMem Proofs.JsonProofs Proofs.PbProofs.
Import ListNotations.
Open Scope nat_scope.
Local Arguments Nat.ltb : simpl never.
Local Arguments Nat.leb : simpl never.
Local Arguments Nat.max : simpl never.
Local Arguments Nat.sub : simpl never.

(* ---------------------------------------------------------------------------------------------- *)
(* lists *)

Lemma set_nth_length {A} : forall n (x : A) l, length (set_nth n x l) = length l.
Proof. induction n as [|n IH]; intros x [|y l]; cbn [set_nth length]; auto. Qed.

Lemma nth_set_nth_eq {A} : forall n (x : A) l d, n < length l -> nth n (set_nth n x l) d = x.
Proof.
  induction n as [|n IH]; intros x [|y l] d Hn; cbn [length] in Hn; try lia; cbn [set_nth nth]; auto.
  apply IH. lia.
Qed.

Lemma nth_firstn_lt {A} : forall i k (l : list A) d, i < k -> nth i (firstn k l) d = nth i l d.
Proof.
  induction i as [|i IH]; intros [|k] [|y l] d Hi; try lia; cbn [firstn nth]; auto.
  apply IH. lia.
Qed.

Lemma firstn_set_nth_lt {A} : forall n k (x : A) l, n < k -> firstn k (set_nth n x l) = set_nth n x (firstn k l).
Proof.
  induction n as [|n IH]; intros [|k] x [|y l] Hn; try lia; cbn [set_nth firstn]; auto.
  f_equal. apply IH. lia.
Qed.

Lemma firstn_S_set_nth {A} : forall n (x : A) l, n < length l -> firstn (S n) (set_nth n x l) = firstn n l ++ [x].
Proof.
  induction n as [|n IH]; intros x [|y l] Hn; cbn [length] in Hn; try lia.
  - reflexivity.
  - cbn [set_nth]. change (firstn (S (S n)) (y :: set_nth n x l)) with (y :: firstn (S n) (set_nth n x l)).
    rewrite IH by lia. reflexivity.
Qed.

Lemma set_nth_app_last {A} : forall (bot : list A) top x, set_nth (length bot) x (bot ++ [top]) = bot ++ [x].
Proof. induction bot as [|b bot IH]; intros top x; cbn [length app set_nth]; [reflexivity | now rewrite IH]. Qed.

Lemma nth_app_last {A} : forall (bot : list A) top d, nth (length bot) (bot ++ [top]) d = top.
Proof. intros bot top d. rewrite app_nth2 by lia. rewrite Nat.sub_diag. reflexivity. Qed.

Lemma firstn_app_exact {A} : forall (l r : list A), firstn (length l) (l ++ r) = l.
Proof. intros l r. rewrite firstn_app, Nat.sub_diag, firstn_all, firstn_O, app_nil_r. reflexivity. Qed.

Lemma firstn_app_cons {A} : forall (l : list A) n x r, length l = n -> firstn (S n) (l ++ x :: r) = l ++ [x].
Proof.
  intros l n x r <-. replace (l ++ x :: r) with ((l ++ [x]) ++ r) by (rewrite <- app_assoc; reflexivity).
  replace (S (length l)) with (length (l ++ [x])) by (rewrite app_length; cbn [length]; lia).
  apply firstn_app_exact.
Qed.

(* ---------------------------------------------------------------------------------------------- *)
(* slices: index / store / append / reslice act on the contents as on a list, wherever the contents live *)

Section SliceFacts.
  Context {A : Type}.
  Variable dflt : A.
  Variable grow : nat -> nat.

  (* the header names an allocated array of exactly cap cells, len <= cap *)
  Definition wf (m : mem A) : Prop :=
    sl_arr (m_sl m) < length (m_heap m) /\
    length (nth (sl_arr (m_sl m)) (m_heap m) []) = sl_cap (m_sl m) /\
    sl_len (m_sl m) <= sl_cap (m_sl m).

  Lemma contents_length m : wf m -> length (sl_contents m) = sl_len (m_sl m).
  Proof. intros (_ & Hc & Hl). unfold sl_contents. rewrite firstn_length. lia. Qed.

  Lemma heap_row_set (h : heap A) a row : a < length h -> nth a (set_nth a row h) [] = row.
  Proof. intros Ha. apply nth_set_nth_eq. exact Ha. Qed.

  Lemma index_spec m i : wf m -> i < sl_len (m_sl m) -> sl_index dflt m i = Ok (nth i (sl_contents m) dflt).
  Proof.
    intros _ Hi. unfold sl_index. apply Nat.ltb_lt in Hi as Hb. rewrite Hb.
    unfold cell, sl_contents. rewrite nth_firstn_lt by exact Hi. reflexivity.
  Qed.

  Lemma index_oob m i : sl_len (m_sl m) <= i -> sl_index dflt m i = Fault.
  Proof. intros Hi. unfold sl_index. apply Nat.ltb_ge in Hi. rewrite Hi. reflexivity. Qed.

  Lemma store_spec m i x : wf m -> i < sl_len (m_sl m) ->
    exists m', sl_store m i x = Ok m' /\ wf m' /\ m_sl m' = m_sl m /\ sl_contents m' = set_nth i x (sl_contents m).
  Proof.
    intros (Ha & Hc & Hl) Hi. unfold sl_store. apply Nat.ltb_lt in Hi as Hb. rewrite Hb.
    eexists. split; [reflexivity|]. unfold wf, sl_contents, set_cell. cbn [m_heap m_sl].
    rewrite set_nth_length, heap_row_set by exact Ha. rewrite set_nth_length.
    repeat split; auto. apply firstn_set_nth_lt. exact Hi.
  Qed.

  Lemma append_spec m x : wf m ->
    let m' := sl_append dflt grow m x in
    wf m' /\ sl_len (m_sl m') = S (sl_len (m_sl m)) /\ sl_contents m' = sl_contents m ++ [x].
  Proof.
    intros (Ha & Hc & Hl). unfold sl_append.
    destruct (sl_len (m_sl m) <? sl_cap (m_sl m)) eqn:Hlt.
    - apply Nat.ltb_lt in Hlt. unfold wf, sl_contents, set_cell. cbn [m_heap m_sl sl_arr sl_len sl_cap].
      rewrite set_nth_length, heap_row_set by exact Ha. rewrite set_nth_length.
      repeat split; auto; try lia. apply firstn_S_set_nth. lia.
    - apply Nat.ltb_ge in Hlt. unfold wf, sl_contents. cbn [m_heap m_sl sl_arr sl_len sl_cap].
      rewrite app_length. cbn [length].
      rewrite app_nth2 by lia. rewrite Nat.sub_diag. cbn [nth].
      set (old := nth (sl_arr (m_sl m)) (m_heap m) []) in *.
      set (n := sl_len (m_sl m)) in *.
      assert (Hfl : length (firstn n old) = n) by (rewrite firstn_length; lia).
      repeat split; try lia.
      + rewrite app_length. cbn [length]. rewrite repeat_length, Hfl. lia.
      + apply firstn_app_cons. exact Hfl.
  Qed.

  Lemma reslice_spec m top : wf m -> top <= sl_len (m_sl m) ->
    exists m', sl_reslice m top = Ok m' /\ wf m' /\ sl_len (m_sl m') = top /\
               sl_contents m' = firstn top (sl_contents m).
  Proof.
    intros (Ha & Hc & Hl) Ht. unfold sl_reslice.
    assert (Hb : (top <=? sl_cap (m_sl m)) = true) by (apply Nat.leb_le; lia). rewrite Hb.
    eexists. split; [reflexivity|]. unfold wf, sl_contents. cbn [m_heap m_sl sl_arr sl_len sl_cap].
    repeat split; auto; try lia.
    rewrite firstn_firstn. rewrite Nat.min_l by lia. reflexivity.
  Qed.

  Lemma make1_spec cap0 x : wf (sl_make1 dflt cap0 x) /\ sl_contents (sl_make1 dflt cap0 x) = [x].
  Proof.
    unfold wf, sl_make1, sl_contents. cbn [m_heap m_sl sl_arr sl_len sl_cap length nth firstn].
    rewrite repeat_length. repeat split; lia.
  Qed.
End SliceFacts.

(* ---------------------------------------------------------------------------------------------- *)
(* protoConsumer: the slice machine simulates the list machine *)

Lemma pcm_add_spec d (m : pcm) bot top :
  wf m -> sl_contents m = bot ++ [top] ->
  exists m', pcm_add d m = Ok m' /\ wf m' /\ sl_contents m' = bot ++ [top ++ [d]].
Proof.
  intros Hwf Hc. pose proof (contents_length m Hwf) as Hlen. rewrite Hc, app_length in Hlen. cbn [length] in Hlen.
  unfold pcm_add. destruct (sl_len (m_sl m)) as [|k] eqn:Hk; [lia|].
  assert (Hkb : k = length bot) by lia. subst k.
  assert (Hlt : length bot < sl_len (m_sl m)) by (rewrite Hk; lia).
  rewrite (index_spec [] m (length bot) Hwf Hlt). rewrite Hc, nth_app_last. cbn [bind].
  destruct (store_spec m (length bot) (top ++ [d]) Hwf Hlt) as (m' & Hs & Hwf' & _ & Hc').
  exists m'. rewrite Hs. split; [reflexivity|]. split; [exact Hwf'|]. rewrite Hc', Hc. apply set_nth_app_last.
Qed.

Lemma pcm_add_empty d (m : pcm) : wf m -> sl_contents m = [] -> pcm_add d m = Fault.
Proof.
  intros Hwf Hc. pose proof (contents_length m Hwf) as Hlen. rewrite Hc in Hlen. cbn [length] in Hlen.
  unfold pcm_add. rewrite <- Hlen. reflexivity.
Qed.

Section Simulation.
  Variable grow : nat -> nat.

  (* the slice machine in state m, whose stack holds bot ++ [top] (bottom frame first), does what the list
     machine does on top :: rev bot: same fault, or a state that holds bot ++ [top'] *)
  Definition sim_res (bot : list pframe) (r : res pcm) (r' : res (list (list pb))) : Prop :=
    match r' with
    | Ok s => exists m' top', r = Ok m' /\ wf m' /\ sl_contents m' = bot ++ [top'] /\ s = top' :: rev bot
    | Err => r = Err
    | Fault => r = Fault
    | OutOfFuel => r = OutOfFuel
    end.

  Definition P_sim (e : ev) : Prop :=
    forall (m : pcm) bot top, wf m -> sl_contents m = bot ++ [top] ->
      sim_res bot (pcm_ev grow false m e) (pc_ev (top :: rev bot) e).

  Lemma pcm_seq_sim l : Forall P_sim l ->
    forall (m : pcm) bot top, wf m -> sl_contents m = bot ++ [top] ->
      sim_res bot (pcm_seq (pcm_ev grow false) m l) (pc_seq pc_ev (top :: rev bot) l).
  Proof.
    induction 1 as [|x l Hx _ IH]; intros m bot top Hwf Hc.
    - cbn [pcm_seq pc_seq sim_res]. exists m, top. auto.
    - rewrite pc_seq_cons. change (pcm_seq (pcm_ev grow false) m (x :: l))
        with (let* m1 := pcm_ev grow false m x in pcm_seq (pcm_ev grow false) m1 l).
      specialize (Hx m bot top Hwf Hc). unfold sim_res in Hx.
      destruct (pc_ev (top :: rev bot) x) as [s| | |]; try (rewrite Hx; reflexivity).
      destruct Hx as (m1 & top1 & -> & Hwf1 & Hc1 & ->). cbn [bind]. apply IH; assumption.
  Qed.

  (* the part common to AddArray and AddHash: push, doer, read the frame back, pop *)
  Lemma frame_sim l (m : pcm) bot top : Forall P_sim l -> wf m -> sl_contents m = bot ++ [top] ->
    match pc_seq pc_ev ([] :: top :: rev bot) l with
    | Ok s1 => exists m2 m3 els,
        pcm_seq (pcm_ev grow false) (sl_append [] grow m []) l = Ok m2 /\
        read_frame false (sl_append [] grow m []) m2 (sl_len (m_sl m)) = Ok els /\
        sl_reslice m2 (sl_len (m_sl m)) = Ok m3 /\
        wf m3 /\ sl_contents m3 = bot ++ [top] /\ s1 = els :: top :: rev bot
    | Err => pcm_seq (pcm_ev grow false) (sl_append [] grow m []) l = Err
    | Fault => pcm_seq (pcm_ev grow false) (sl_append [] grow m []) l = Fault
    | OutOfFuel => pcm_seq (pcm_ev grow false) (sl_append [] grow m []) l = OutOfFuel
    end.
  Proof.
    intros Hl Hwf Hc.
    pose proof (contents_length m Hwf) as Hlen.
    destruct (append_spec [] grow m [] Hwf) as (Hwf1 & Hlen1 & Hc1).
    rewrite Hc in Hc1.
    pose proof (pcm_seq_sim l Hl _ (bot ++ [top]) [] Hwf1 Hc1) as Hs.
    rewrite rev_unit in Hs. unfold sim_res in Hs.
    destruct (pc_seq pc_ev ([] :: top :: rev bot) l) as [s1| | |]; try exact Hs.
    destruct Hs as (m2 & els & Hm2 & Hwf2 & Hc2 & ->).
    pose proof (contents_length m2 Hwf2) as Hlen2. rewrite Hc2, app_length in Hlen2. cbn [length] in Hlen2.
    rewrite Hc in Hlen.
    destruct (reslice_spec m2 (sl_len (m_sl m)) Hwf2) as (m3 & Hr & Hwf3 & _ & Hc3); [lia|].
    exists m2, m3, els. rewrite rev_unit.
    split; [exact Hm2|]. split.
    { unfold read_frame. rewrite (index_spec [] m2 _ Hwf2) by lia.
      rewrite Hc2, <- Hlen, nth_app_last. reflexivity. }
    split; [exact Hr|]. split; [exact Hwf3|]. split; [|reflexivity].
    rewrite Hc3, Hc2, <- Hlen. apply firstn_app_exact.
  Qed.

  Lemma pcm_ev_sim : forall e, P_sim e.
  Proof.
    induction e as [s|n|l IH|l IH] using ev_ind'; intros m bot top Hwf Hc.
    - cbn [pcm_ev pc_ev pc_add sim_res].
      destruct (pcm_add_spec (scalar_pb s) m bot top Hwf Hc) as (m' & Ha & Hwf' & Hc').
      exists m', (top ++ [scalar_pb s]). auto.
    - cbn [pcm_ev pc_ev pc_add sim_res].
      destruct (pcm_add_spec (PbRef n) m bot top Hwf Hc) as (m' & Ha & Hwf' & Hc').
      exists m', (top ++ [PbRef n]). auto.
    - cbn [pcm_ev pc_ev].
      pose proof (frame_sim l m bot top IH Hwf Hc) as Hf.
      destruct (pc_seq pc_ev ([] :: top :: rev bot) l) as [s1| | |]; try (rewrite Hf; reflexivity).
      destruct Hf as (m2 & m3 & els & -> & Hrd & Hrs & Hwf3 & Hc3 & ->). cbn [bind].
      rewrite Hrd. cbn [bind]. rewrite Hrs. cbn [bind pc_add sim_res].
      destruct (pcm_add_spec (PbArr els) m3 bot top Hwf3 Hc3) as (m' & Ha & Hwf' & Hc').
      exists m', (top ++ [PbArr els]). auto.
    - cbn [pcm_ev pc_ev].
      pose proof (frame_sim l m bot top IH Hwf Hc) as Hf.
      destruct (pc_seq pc_ev ([] :: top :: rev bot) l) as [s1| | |]; try (rewrite Hf; reflexivity).
      destruct Hf as (m2 & m3 & els & -> & Hrd & Hrs & Hwf3 & Hc3 & ->). cbn [bind].
      rewrite Hrd. cbn [bind]. rewrite Hrs. cbn [bind].
      destruct (pair_up els) as [ps| | |]; cbn [bind sim_res]; try reflexivity.
      cbn [pc_add].
      destruct (pcm_add_spec (PbHash ps) m3 bot top Hwf3 Hc3) as (m' & Ha & Hwf' & Hc').
      exists m', (top ++ [PbHash ps]). auto.
  Qed.

  (* NewProtoConsumer with any initial capacity, one top-level call, Value() *)
  Theorem pcm_run_refines cap0 e : pcm_run grow cap0 false e = pc_run e.
  Proof.
    unfold pcm_run, pc_run.
    destruct (make1_spec (A := pframe) [] cap0 []) as (Hwf & Hc).
    pose proof (pcm_ev_sim e _ [] [] Hwf Hc) as Hs. cbn [rev] in Hs. unfold sim_res in Hs.
    destruct (pc_ev [[]] e) as [s| | |]; try (rewrite Hs; reflexivity).
    destruct Hs as (m' & top' & -> & Hwf' & Hc' & ->). cbn [bind pc_value app] in *.
    unfold pcm_value.
    pose proof (contents_length m' Hwf') as Hlen. rewrite Hc' in Hlen. cbn [length] in Hlen.
    rewrite (index_spec [] m' 0 Hwf') by lia. rewrite Hc'. cbn [nth bind]. reflexivity.
  Qed.
End Simulation.

(* hence, with the list-model theorems: over real slices, for every growth policy and initial capacity, the
   message of every even-hashed tree of calls is the one the calls denote, and ConsumePBData replays them *)
Theorem pcm_stream_roundtrip grow cap0 e :
  even_hashes e = true ->
  exists d, pcm_run grow cap0 false e = Ok d /\ consume_pb d = Ok (pb_image e).
Proof. intros He. rewrite pcm_run_refines. apply pb_stream_roundtrip. exact He. Qed.

(* the rewrite that keeps &pc.stack[top] across the doer: right below the capacity, wrong from depth 8 on *)
Lemma pcm_retained_pointer_shallow :
  pcm_run go_grow 8 true (nest 6 (EArr [EAdd (SInt 1%Z); EAdd (SInt 2%Z)]))
  = pc_run (nest 6 (EArr [EAdd (SInt 1%Z); EAdd (SInt 2%Z)])).
Proof. vm_compute. reflexivity. Qed.

Theorem pcm_retained_pointer_refuted :
  exists e, even_hashes e = true /\ pcm_run go_grow 8 true e <> pc_run e.
Proof.
  exists (nest 7 (EArr [EAdd (SInt 1%Z); EAdd (SInt 2%Z)])).
  split; [reflexivity|]. vm_compute. discriminate.
Qed.
