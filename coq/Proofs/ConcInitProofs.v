(* C13 - the first initialization of the runtime (Model/ConcInit.v): under the code's locking every first use of
   the runtime sees a completely initialized runtime, whatever the number of goroutines and the schedule; the
   lock holder can always move; the double-checked fast path on the logger does not have the property. *)
From Coq Require Import Arith Bool List Lia.
From PcoreV Require Import Model.ConcInit.
Import ListNotations.

Record iinv (st : istate) : Prop := mkIInv {
  ii_stolen : i_stolen st = false;
  ii_free : i_lock st = None -> i_logger st = true -> i_resolved st = true /\ i_registry st = true;
  ii_logger : forall t, i_pc st t = IAtLogger -> i_lock st = Some t /\ i_logger st = true;
  ii_resolved : forall t, i_pc st t = IAtResolved -> i_lock st = Some t /\ i_resolved st = true /\ i_logger st = true;
  ii_done : forall t c, i_pc st t = IDone c -> c = true;
  ii_holder : forall h, i_lock st = Some h -> i_pc st h = IAtLogger \/ i_pc st h = IAtResolved
}.

Lemma iupd_same : forall f t p, iupd f t p t = p.
Proof. intros f t p. unfold iupd. now rewrite Nat.eqb_refl. Qed.

Lemma iupd_other : forall f t p t', t' <> t -> iupd f t p t' = f t'.
Proof. intros f t p t' Hne. unfold iupd. destruct (Nat.eqb t' t) eqn:E; [apply Nat.eqb_eq in E; contradiction | reflexivity]. Qed.

Lemma iinv_init : iinv iinit.
Proof. constructor; cbn; intros; try discriminate; auto. Qed.

(* the use of a thread that does not hold the lock, in a state where the lock is free and the logger assigned *)
Lemma iinv_use : forall st t,
  iinv st -> i_lock st = None -> i_logger st = true -> iinv (iuse st t).
Proof.
  intros st t H Hl Hg. destruct (ii_free st H Hl Hg) as [Hr Hy].
  pose proof (ii_stolen st H) as Hs.
  constructor; unfold iuse; cbn [i_stolen i_lock i_logger i_resolved i_registry i_pc].
  - rewrite Hs, Hr. reflexivity.
  - auto.
  - intros t0 Hp. destruct (Nat.eq_dec t0 t) as [->|Hne].
    + rewrite iupd_same in Hp. discriminate.
    + rewrite iupd_other in Hp by exact Hne. destruct (ii_logger st H t0 Hp) as [Hx _]. congruence.
  - intros t0 Hp. destruct (Nat.eq_dec t0 t) as [->|Hne].
    + rewrite iupd_same in Hp. discriminate.
    + rewrite iupd_other in Hp by exact Hne. destruct (ii_resolved st H t0 Hp) as [Hx _]. congruence.
  - intros t0 c Hp. destruct (Nat.eq_dec t0 t) as [->|Hne].
    + rewrite iupd_same in Hp. injection Hp as <-. rewrite Hs, Hr, Hy. reflexivity.
    + rewrite iupd_other in Hp by exact Hne. exact (ii_done st H t0 c Hp).
  - intros h Hh. congruence.
Qed.

Lemma iinv_enter : forall st t,
  iinv st -> i_lock st = None -> (i_pc st t = IStart \/ i_pc st t = IWait) -> iinv (ienter st t).
Proof.
  intros st t H Hl Hpc. unfold ienter. destruct (i_logger st) eqn:Hg.
  - apply iinv_use; assumption.
  - constructor; cbn [i_stolen i_lock i_logger i_resolved i_registry i_pc].
    + exact (ii_stolen st H).
    + intros Hx. discriminate.
    + intros t0 Hp. destruct (Nat.eq_dec t0 t) as [->|Hne]; [auto|].
      rewrite iupd_other in Hp by exact Hne. destruct (ii_logger st H t0 Hp) as [Hx _]. congruence.
    + intros t0 Hp. destruct (Nat.eq_dec t0 t) as [->|Hne].
      * rewrite iupd_same in Hp. discriminate.
      * rewrite iupd_other in Hp by exact Hne. destruct (ii_resolved st H t0 Hp) as [Hx _]. congruence.
    + intros t0 c Hp. destruct (Nat.eq_dec t0 t) as [->|Hne].
      * rewrite iupd_same in Hp. discriminate.
      * rewrite iupd_other in Hp by exact Hne. exact (ii_done st H t0 c Hp).
    + intros h Hh. injection Hh as <-. left. apply iupd_same.
Qed.

Lemma iinv_wait : forall st t,
  iinv st -> i_lock st <> None -> (i_pc st t = IStart \/ i_pc st t = IWait) ->
  iinv (mkI (i_lock st) (i_logger st) (i_resolved st) (i_registry st) (i_stolen st) (iupd (i_pc st) t IWait)).
Proof.
  intros st t H Hl Hpc.
  assert (Hnot : forall t0, i_pc st t0 = IAtLogger \/ i_pc st t0 = IAtResolved -> t0 <> t).
  { intros t0 Hp ->. destruct Hpc as [Hpc|Hpc], Hp as [Hp|Hp]; congruence. }
  constructor; cbn [i_stolen i_lock i_logger i_resolved i_registry i_pc].
  - exact (ii_stolen st H).
  - exact (ii_free st H).
  - intros t0 Hp. destruct (Nat.eq_dec t0 t) as [->|Hne].
    + rewrite iupd_same in Hp. discriminate.
    + rewrite iupd_other in Hp by exact Hne. exact (ii_logger st H t0 Hp).
  - intros t0 Hp. destruct (Nat.eq_dec t0 t) as [->|Hne].
    + rewrite iupd_same in Hp. discriminate.
    + rewrite iupd_other in Hp by exact Hne. exact (ii_resolved st H t0 Hp).
  - intros t0 c Hp. destruct (Nat.eq_dec t0 t) as [->|Hne].
    + rewrite iupd_same in Hp. discriminate.
    + rewrite iupd_other in Hp by exact Hne. exact (ii_done st H t0 c Hp).
  - intros h Hh. pose proof (ii_holder st H h Hh) as Hp.
    rewrite iupd_other by (apply Hnot; exact Hp). exact Hp.
Qed.

Lemma iinv_lock : forall st t,
  iinv st -> (i_pc st t = IStart \/ i_pc st t = IWait) -> iinv (ilock st t).
Proof.
  intros st t H Hpc. unfold ilock. destruct (i_lock st) eqn:Hl.
  - rewrite <- Hl. apply iinv_wait; [assumption | congruence | assumption].
  - apply iinv_enter; assumption.
Qed.

Lemma iinv_step : forall st t, iinv st -> iinv (istep ILocked st t).
Proof.
  intros st t H. unfold istep. destruct (i_pc st t) eqn:Hpc.
  - apply iinv_lock; auto.
  - destruct (i_lock st) eqn:Hl; [exact H|]. apply iinv_enter; auto.
  - (* IAtLogger: resolve *)
    destruct (ii_logger st H t Hpc) as [Hl Hg]. pose proof (ii_stolen st H) as Hs.
    constructor; cbn [i_stolen i_lock i_logger i_resolved i_registry i_pc].
    + exact Hs.
    + intros Hx. congruence.
    + intros t0 Hp. destruct (Nat.eq_dec t0 t) as [->|Hne].
      * rewrite iupd_same in Hp. discriminate.
      * rewrite iupd_other in Hp by exact Hne. destruct (ii_logger st H t0 Hp) as [Hx _]. congruence.
    + intros t0 Hp. destruct (Nat.eq_dec t0 t) as [->|Hne].
      * rewrite Hs. auto.
      * rewrite iupd_other in Hp by exact Hne. destruct (ii_resolved st H t0 Hp) as [Hx _]. congruence.
    + intros t0 c Hp. destruct (Nat.eq_dec t0 t) as [->|Hne].
      * rewrite iupd_same in Hp. discriminate.
      * rewrite iupd_other in Hp by exact Hne. exact (ii_done st H t0 c Hp).
    + intros h Hh. assert (h = t) as -> by congruence. right. apply iupd_same.
  - (* IAtResolved: registry, unlock, use *)
    destruct (ii_resolved st H t Hpc) as [Hl [Hr Hg]]. pose proof (ii_stolen st H) as Hs.
    constructor; unfold iuse; cbn [i_stolen i_lock i_logger i_resolved i_registry i_pc].
    + rewrite Hs, Hr. reflexivity.
    + auto.
    + intros t0 Hp. destruct (Nat.eq_dec t0 t) as [->|Hne].
      * rewrite iupd_same in Hp. discriminate.
      * rewrite iupd_other in Hp by exact Hne. destruct (ii_logger st H t0 Hp) as [Hx _]. congruence.
    + intros t0 Hp. destruct (Nat.eq_dec t0 t) as [->|Hne].
      * rewrite iupd_same in Hp. discriminate.
      * rewrite iupd_other in Hp by exact Hne. destruct (ii_resolved st H t0 Hp) as [Hx _]. congruence.
    + intros t0 c Hp. destruct (Nat.eq_dec t0 t) as [->|Hne].
      * rewrite iupd_same in Hp. injection Hp as <-. rewrite Hs, Hr. reflexivity.
      * rewrite iupd_other in Hp by exact Hne. exact (ii_done st H t0 c Hp).
    + intros h Hh. discriminate.
  - exact H.
Qed.

Lemma iinv_exec : forall s, iinv (iexec ILocked s).
Proof.
  intros s. unfold iexec. generalize iinv_init. generalize iinit.
  induction s as [|t s IH]; intros st H; cbn [fold_left]; [exact H|].
  apply IH. apply iinv_step. exact H.
Qed.

(* every first use of the runtime that has returned saw a completely initialized runtime *)
Lemma first_use_complete : forall s t c, i_pc (iexec ILocked s) t = IDone c -> c = true.
Proof. intros s t c. apply (ii_done _ (iinv_exec s)). Qed.

(* nobody ever takes the init-time declarations away from the static loader *)
Lemma first_use_never_stolen : forall s, i_stolen (iexec ILocked s) = false.
Proof. intros s. apply (ii_stolen _ (iinv_exec s)). Qed.

(* whoever holds staticLock can move; a thread that has not returned implies that some thread can move *)
Lemma first_use_no_deadlock : forall s t,
  is_done (i_pc (iexec ILocked s) t) = false -> exists t', ienabled (iexec ILocked s) t' = true.
Proof.
  intros s t Hnd. pose proof (iinv_exec s) as H. set (st := iexec ILocked s) in *.
  destruct (i_lock st) as [h|] eqn:Hl.
  - exists h. unfold ienabled. destruct (ii_holder st H h Hl) as [Hp|Hp]; rewrite Hp; reflexivity.
  - exists t. unfold ienabled. destruct (i_pc st t); try reflexivity; [rewrite Hl; reflexivity | discriminate].
Qed.

(* the fast path on the logger (C13-m7): the second goroutine uses a runtime without implementation registry *)
Lemma fast_path_refuted : exists s t, i_pc (iexec IFastPath s) t = IDone false.
Proof. exists [0; 1], 1. vm_compute. reflexivity. Qed.

(* ... and the initializer then finds the declarations of the init() functions taken away *)
Lemma fast_path_refuted_initializer : exists s, i_pc (iexec IFastPath s) 0 = IDone false /\ i_stolen (iexec IFastPath s) = true.
Proof. exists [0; 1; 0; 0]. vm_compute. split; reflexivity. Qed.
