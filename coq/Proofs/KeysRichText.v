(* KeysRichText.v — C07: the modelled text of a Timespan bound (Model/KeysRich.v sp_text = SerializationString) determines
   the duration and is a Go string: the oracle hypotheses of sp_key_iff_eq discharged for Timespan types. *)
From Coq Require Import ZArith NArith Bool List Lia.
From PcoreV Require Import Model.Base Model.Keys Model.KeysRich Proofs.KeysCode Proofs.KeysTypes Proofs.KeysRichProofs.
From PcoreV Require Model.CtxGid Proofs.CtxGidProofs.
Import ListNotations.
Open Scope Z_scope.

Lemma ddigits_length k : forall n, length (ddigits k n) = k.
Proof. induction k as [|k IH]; intros n; cbn [ddigits length]; [reflexivity|]. rewrite IH. reflexivity. Qed.

Lemma ddigits_inj k : forall a b,
  (a < 10 ^ N.of_nat k)%N -> (b < 10 ^ N.of_nat k)%N -> ddigits k a = ddigits k b -> a = b.
Proof.
  induction k as [|k IH]; intros a b Ha Hb H.
  - cbn in Ha, Hb. lia.
  - cbn [ddigits] in H. apply cons_inj in H. destruct H as [Hm Ht].
    rewrite Nat2N.inj_succ, N.pow_succ_r' in Ha, Hb.
    assert (a / 10 = b / 10)%N as Hq.
    { apply IH; [| |assumption]; apply N.div_lt_upper_bound; lia. }
    assert (a mod 10 = b mod 10)%N as Hr by lia.
    rewrite (N.div_mod' a 10), (N.div_mod' b 10). congruence.
Qed.

Lemma pad9_inj a b : (a < 1000000000)%N -> (b < 1000000000)%N -> pad9 a = pad9 b -> a = b.
Proof.
  unfold pad9. intros Ha Hb H. apply (f_equal (@rev N)) in H. rewrite !rev_involutive in H.
  apply (ddigits_inj 9); [exact Ha|exact Hb|exact H].
Qed.

(* a text is cut at its first '.' in one way when no digit is a '.' *)
Lemma split_first_dot a : forall a' p p', ~ In 46%N a -> ~ In 46%N a' ->
  a ++ 46%N :: p = a' ++ 46%N :: p' -> a = a' /\ p = p'.
Proof.
  induction a as [|c a IH]; intros [|c' a'] p p' Ha Ha' H; cbn [app] in H.
  - apply cons_inj in H. destruct H as [_ ->]. auto.
  - exfalso. apply cons_inj in H. destruct H as [<- _]. apply Ha'. left. reflexivity.
  - exfalso. apply cons_inj in H. destruct H as [-> _]. apply Ha. left. reflexivity.
  - apply cons_inj in H. destruct H as [-> H].
    destruct (IH a' p p') as [-> ->]; auto.
    + intros HI. apply Ha. right. exact HI.
    + intros HI. apply Ha'. right. exact HI.
Qed.

Lemma digits_no_dot n : ~ In 46%N (CtxGid.digits n).
Proof.
  destruct (CtxGidProofs.digits_spec n) as (Hd & _ & _). intros HI.
  rewrite Forall_forall in Hd. specialize (Hd _ HI). unfold CtxGidProofs.is_digit in Hd. lia.
Qed.

Lemma digits_inj n m : CtxGid.digits n = CtxGid.digits m -> n = m.
Proof.
  intros H. destruct (CtxGidProofs.digits_spec n) as (_ & _ & Hn). destruct (CtxGidProofs.digits_spec m) as (_ & _ & Hm).
  rewrite H in Hn. rewrite Hn in Hm. lia.
Qed.

Lemma digits_head n : exists c r, CtxGid.digits n = c :: r /\ (48 <= c <= 57)%N.
Proof.
  destruct (CtxGidProofs.digits_spec n) as (Hd & Hne & _). destruct (CtxGid.digits n) as [|c r]; [contradiction|].
  exists c, r. split; [reflexivity|]. inversion Hd; subst. assumption.
Qed.

(* the magnitude is determined by the text after the sign *)
Lemma sp_body_inj u v :
  CtxGid.digits (u / 1000000000)%N ++ 46%N :: pad9 (u mod 1000000000)%N =
  CtxGid.digits (v / 1000000000)%N ++ 46%N :: pad9 (v mod 1000000000)%N -> u = v.
Proof.
  intros H. apply split_first_dot in H; [|apply digits_no_dot|apply digits_no_dot].
  destruct H as [H1 H2]. apply digits_inj in H1.
  apply pad9_inj in H2; [|apply N.mod_lt; lia|apply N.mod_lt; lia].
  rewrite (N.div_mod' u 1000000000), (N.div_mod' v 1000000000). congruence.
Qed.

Theorem sp_text_inj a b : sp_text a = sp_text b -> a = b.
Proof.
  unfold sp_text. destruct (a <? 0) eqn:Sa, (b <? 0) eqn:Sb; cbn [app]; intros H.
  - apply cons_inj in H. destruct H as [_ H]. apply sp_body_inj in H.
    apply Z.ltb_lt in Sa, Sb. lia.
  - exfalso. destruct (digits_head (Z.to_N (Z.abs b) / 1000000000)%N) as (c & r & E & Hc).
    rewrite E in H. cbn [app] in H. apply cons_inj in H. destruct H as [<- _]. lia.
  - exfalso. destruct (digits_head (Z.to_N (Z.abs a) / 1000000000)%N) as (c & r & E & Hc).
    rewrite E in H. cbn [app] in H. apply cons_inj in H. destruct H as [-> _]. lia.
  - apply sp_body_inj in H. apply Z.ltb_ge in Sa, Sb. lia.
Qed.

Lemma sp_text_len d : in_int64 d = true -> lenok (sp_text d) = true.
Proof.
  unfold in_int64, min_int64, max_int64. intros H. apply andb_true_iff in H. destruct H as [H1 H2].
  apply Z.leb_le in H1, H2.
  assert (L : (length (sp_text d) <= 21)%nat).
  { unfold sp_text. rewrite !app_length. cbn [length]. unfold pad9. rewrite rev_length, ddigits_length.
    assert (Lq : (length (CtxGid.digits (Z.to_N (Z.abs d) / 1000000000)%N) <= 10)%nat).
    { unfold CtxGid.digits.
      pose proof (CtxGidProofs.digits_aux_length (S (N.to_nat (N.log2 (Z.to_N (Z.abs d) / 1000000000)%N)))
                    (Z.to_N (Z.abs d) / 1000000000)%N [] 10%nat ltac:(lia)) as HL.
      cbn [length] in HL. rewrite Nat.add_0_r in HL. apply HL.
      apply N.div_lt_upper_bound; [lia|]. change (10 ^ N.of_nat 10)%N with 10000000000%N. lia. }
    destruct (d <? 0); cbn [length]; lia. }
  unfold lenok. apply N.ltb_lt. lia.
Qed.

(* Timespan types with the modelled text: no oracle left *)
Theorem sp_key_text_iff_eq a b : sp_wf a = true -> sp_wf b = true ->
  (sp_key sp_text a = sp_key sp_text b <-> sp_equals a b = true).
Proof.
  apply sp_key_iff_eq.
  - intros x y _ _. apply sp_text_inj.
  - apply sp_text_len.
Qed.
