(* CtxGidProofs.v — getg() reads the goroutine id exactly (property C14, Model/CtxGid.v). *)
From Coq Require Import ZArith NArith Bool List Lia.
From PcoreV Require Import Model.Base Model.CtxGid.
Import ListNotations.

(* ---- decimal digits ----------------------------------------------------------------------------------------- *)

Definition is_digit (d : N) : Prop := (48 <= d <= 57)%N.

(* value of a digit string read left to right from accumulator a (no wrapping) *)
Definition val_digits (ds : list N) (a : Z) : Z := fold_left (fun a d => a * 10 + Z.of_N (d - 48))%Z ds a.

Lemma val_digits_app ds1 ds2 a : val_digits (ds1 ++ ds2) a = val_digits ds2 (val_digits ds1 a).
Proof. unfold val_digits. apply fold_left_app. Qed.

Lemma val_digits_ge ds : forall a, (0 <= a)%Z -> (a <= val_digits ds a)%Z.
Proof.
  induction ds as [|d ds IH]; intros a Ha; cbn [val_digits fold_left]; [lia|].
  fold (val_digits ds (a * 10 + Z.of_N (d - 48))%Z).
  specialize (IH (a * 10 + Z.of_N (d - 48))%Z). lia.
Qed.

(* digits_aux f n acc = ds ++ acc where ds is the decimal numeral of n, provided the fuel suffices *)
Lemma digits_aux_spec : forall (f : nat) (n : N) (acc : list N),
    (1 <= f)%nat -> (n < 2 ^ N.of_nat f)%N ->
    exists ds, digits_aux f n acc = ds ++ acc /\ Forall is_digit ds /\ ds <> [] /\
               exists P : Z, forall a, val_digits ds a = (a * P + Z.of_N n)%Z.
Proof.
  induction f as [|f IH]; intros n acc Hf Hn; [lia|].
  cbn [digits_aux].
  assert (Hmod : (n mod 10 < 10)%N) by (apply N.mod_lt; lia).
  assert (Hdm : n = (10 * (n / 10) + n mod 10)%N) by (apply N.div_mod; lia).
  remember (n / 10)%N as q eqn:Eq. remember (n mod 10)%N as r eqn:Er.
  destruct (N.eqb_spec q 0) as [Hq|Hq].
  - exists [(48 + r)%N]. split; [reflexivity|]. split; [|split; [discriminate|]].
    + constructor; [|constructor]. unfold is_digit. lia.
    + exists 10%Z. intros a. cbn [val_digits fold_left].
      replace (48 + r - 48)%N with r by lia. lia.
  - assert (Hn10 : (10 <= n)%N) by lia.
    assert (Hf1 : (1 <= f)%nat).
    { destruct f as [|f']; [|lia]. exfalso. cbn in Hn. lia. }
    assert (Hq2 : (q < 2 ^ N.of_nat f)%N).
    { replace (N.of_nat (S f)) with (N.succ (N.of_nat f)) in Hn by lia.
      rewrite N.pow_succ_r' in Hn. lia. }
    destruct (IH q ((48 + r)%N :: acc) Hf1 Hq2) as (ds & E & Hd & _ & P & HP).
    exists (ds ++ [(48 + r)%N]). split; [|split; [|split]].
    + rewrite E, <- app_assoc. reflexivity.
    + apply Forall_app. split; [exact Hd|]. constructor; [|constructor]. unfold is_digit. lia.
    + intros H. apply app_eq_nil in H. destruct H as [_ H]. discriminate.
    + exists (P * 10)%Z. intros a. rewrite val_digits_app, HP. cbn [val_digits fold_left].
      replace (48 + r - 48)%N with r by lia. lia.
Qed.

Lemma digits_spec (n : N) :
  Forall is_digit (digits n) /\ digits n <> [] /\ val_digits (digits n) 0 = Z.of_N n.
Proof.
  unfold digits.
  destruct (digits_aux_spec (S (N.to_nat (N.log2 n))) n []) as (ds & E & Hd & Hne & P & HP).
  - lia.
  - replace (N.of_nat (S (N.to_nat (N.log2 n)))) with (N.succ (N.log2 n)) by lia.
    destruct (N.eq_dec n 0) as [->|Hn0]; [cbn; lia|].
    apply N.log2_spec. lia.
  - rewrite E, app_nil_r. repeat split; [exact Hd|exact Hne|]. rewrite HP. lia.
Qed.

(* the numeral of a number below 10^k has at most k digits *)
Lemma digits_aux_length : forall (f : nat) (n : N) (acc : list N) (k : nat),
    (1 <= k)%nat -> (n < 10 ^ N.of_nat k)%N -> (length (digits_aux f n acc) <= k + length acc)%nat.
Proof.
  induction f as [|f IH]; intros n acc k Hk Hn; cbn [digits_aux]; [lia|].
  assert (Hmod : (n mod 10 < 10)%N) by (apply N.mod_lt; lia).
  assert (Hdm : n = (10 * (n / 10) + n mod 10)%N) by (apply N.div_mod; lia).
  remember (n / 10)%N as q eqn:Eq. remember (n mod 10)%N as r eqn:Er.
  destruct (N.eqb_spec q 0) as [Hq|Hq]; [cbn [length]; lia|].
  assert (Hk2 : (2 <= k)%nat).
  { destruct k as [|[|k']]; [lia| |lia]. exfalso. cbn in Hn. lia. }
  assert (Hq2 : (q < 10 ^ N.of_nat (k - 1))%N).
  { replace (N.of_nat k) with (N.succ (N.of_nat (k - 1))) in Hn by lia.
    rewrite N.pow_succ_r' in Hn. lia. }
  specialize (IH q ((48 + r)%N :: acc) (k - 1)%nat ltac:(lia) Hq2).
  cbn [length] in IH. lia.
Qed.

Lemma digits_length_goid (id : N) : (id <= max_goid)%N -> (length (digits id) <= 19)%nat.
Proof.
  intros H. unfold digits.
  pose proof (digits_aux_length (S (N.to_nat (N.log2 id))) id [] 19 ltac:(lia)) as L.
  cbn [length] in L. rewrite Nat.add_0_r in L. apply L.
  unfold max_goid in H. change (10 ^ N.of_nat 19)%N with 10000000000000000000%N. lia.
Qed.

(* ---- the loop of getg ---------------------------------------------------------------------------------------- *)

Lemma wrap64_id z : (0 <= z <= max_int64)%Z -> wrap64 z = z.
Proof.
  unfold max_int64, wrap64. intros H.
  rewrite Z.mod_small by lia. lia.
Qed.

(* on a digit string followed by the end of the buffer or by a byte that is no digit, the loop computes the value
   of the string - without overflow as long as that value is an int64 *)
Lemma parse_id_digits : forall ds rest a,
    Forall is_digit ds ->
    (rest = [] \/ exists s r, rest = s :: r /\ ((s < 48)%N \/ (57 < s)%N)) ->
    (0 <= a)%Z -> (val_digits ds a <= max_int64)%Z ->
    parse_id (ds ++ rest) a = val_digits ds a.
Proof.
  induction ds as [|d ds IH]; intros rest a Hd Hrest Ha Hmax.
  - cbn [app val_digits fold_left]. destruct Hrest as [->|(s & r & -> & Hs)]; [reflexivity|].
    cbn [parse_id].
    destruct Hs as [Hs|Hs].
    + apply N.ltb_lt in Hs. rewrite Hs. reflexivity.
    + apply N.ltb_lt in Hs. rewrite Hs, orb_true_r. reflexivity.
  - inversion Hd as [|? ? Hd1 Hd2]; subst. unfold is_digit in Hd1.
    cbn [app parse_id].
    assert (E1 : (d <? 48)%N = false) by (apply N.ltb_ge; lia).
    assert (E2 : (57 <? d)%N = false) by (apply N.ltb_ge; lia).
    rewrite E1, E2. cbn [orb].
    cbn [val_digits fold_left] in Hmax |- *.
    fold (val_digits ds (a * 10 + Z.of_N (d - 48))%Z) in Hmax |- *.
    pose proof (val_digits_ge ds (a * 10 + Z.of_N (d - 48))%Z ltac:(lia)) as Hge.
    rewrite wrap64_id by lia.
    apply IH; [exact Hd2|exact Hrest|lia|exact Hmax].
Qed.

(* cutting the text after the prefix and the numeral: what is left of the buffer starts with the numeral, followed
   by nothing (buffer full) or by the blank *)
Lemma firstn_numeral (ds tail : list N) (m : nat) :
  (length ds <= m)%nat ->
  exists rest, firstn m (ds ++ 32%N :: tail) = ds ++ rest /\
               (rest = [] \/ exists s r, rest = s :: r /\ ((s < 48)%N \/ (57 < s)%N)).
Proof.
  intros H. rewrite firstn_app.
  rewrite firstn_all2 by exact H.
  exists (firstn (m - length ds) (32%N :: tail)). split; [reflexivity|].
  destruct (m - length ds)%nat as [|j]; [left; reflexivity|].
  right. cbn [firstn]. eexists _, _. split; [reflexivity|]. left. lia.
Qed.

(* getg with ANY buffer that holds the prefix and the numeral returns the id *)
Theorem getg_of_exact (buflen : nat) (id : N) (tail : list N) :
  (0 < id)%N -> (id <= max_goid)%N -> (prefix_len + length (digits id) <= buflen)%nat ->
  getg_of buflen (stack_text id tail) = Some (Z.of_N id).
Proof.
  intros Hpos Hmax Hlen.
  destruct (digits_spec id) as (Hd & _ & Hv).
  unfold getg_of, runtime_stack, stack_text, prefix_len in *.
  assert (Hp : length goroutine_prefix = 10%nat) by reflexivity.
  rewrite firstn_app, Hp.
  rewrite (firstn_all2 goroutine_prefix) by (rewrite Hp; lia).
  rewrite skipn_app, Hp.
  rewrite (skipn_all2 goroutine_prefix) by (rewrite Hp; lia).
  change (10 - 10)%nat with 0%nat. cbn [app skipn].
  destruct (firstn_numeral (digits id) tail (buflen - 10)) as (rest & E & Hrest); [lia|].
  rewrite E.
  rewrite parse_id_digits; [|exact Hd|exact Hrest|lia|].
  - rewrite Hv. destruct (Z.eqb_spec (Z.of_N id) 0) as [H0|H0]; [lia|reflexivity].
  - rewrite Hv. unfold max_goid, max_int64 in *. lia.
Qed.

(* gid.go as written: buf [64]byte *)
Theorem getg_exact (id : N) (tail : list N) :
  (0 < id)%N -> (id <= max_goid)%N -> getg id tail = Some (Z.of_N id).
Proof.
  intros Hpos Hmax. unfold getg. apply getg_of_exact; [exact Hpos|exact Hmax|].
  pose proof (digits_length_goid id Hmax). unfold prefix_len, buf_len. lia.
Qed.

Theorem getg_injective (id1 id2 : N) (tail1 tail2 : list N) :
  (0 < id1 <= max_goid)%N -> (0 < id2 <= max_goid)%N ->
  getg id1 tail1 = getg id2 tail2 -> id1 = id2.
Proof.
  intros [P1 M1] [P2 M2]. rewrite (getg_exact id1 tail1 P1 M1), (getg_exact id2 tail2 P2 M2).
  intros H. injection H as H. lia.
Qed.

(* the keys of the goroutine-local tables of different goroutines differ and never are the panic of gid.go:28,
   whatever the rest of their stack texts is: the table of Model/Ctx.v indexed by the goroutine IS the table of
   gid.go indexed by getg() *)
Theorem getg_keys_distinct (goid : nat -> N) (tail : nat -> list N) :
  (forall g, 0 < goid g <= max_goid)%N -> (forall g h, goid g = goid h -> g = h) ->
  forall g h, (exists k, getg (goid g) (tail g) = Some k) /\
              (getg (goid g) (tail g) = getg (goid h) (tail h) -> g = h).
Proof.
  intros Hr Hinj g h. split.
  - exists (Z.of_N (goid g)). apply getg_exact; apply Hr.
  - intros H. apply Hinj. eapply getg_injective; [apply Hr|apply Hr|exact H].
Qed.
