(* C13 - lemmas about Model/Conc.v: invariants of the shared loader state that hold after every schedule step,
   for any number of threads, any program and any schedule (induction over the schedule). *)
From Coq Require Import NArith Arith Bool List Lia.
From PcoreV Require Import Model.Conc.
Import ListNotations.

Local Arguments Nat.eqb : simpl never.
Local Arguments N.eqb : simpl never.

(* ---- function updates -------------------------------------------------------------------------- *)

Lemma upd1_eq {A} (f : nat -> A) k a : upd1 f k a k = a.
Proof. unfold upd1. now rewrite Nat.eqb_refl. Qed.

Lemma upd1_neq {A} (f : nat -> A) k a k' : k' <> k -> upd1 f k a k' = f k'.
Proof. intros H. unfold upd1. destruct (Nat.eqb_spec k' k); congruence. Qed.

Lemma upd2_eq {A} (f : lid -> key -> A) d n a : upd2 f d n a d n = a.
Proof. unfold upd2. now rewrite Nat.eqb_refl, N.eqb_refl. Qed.

Lemma upd2_neq {A} (f : lid -> key -> A) d n a d' n' : (d', n') <> (d, n) -> upd2 f d n a d' n' = f d' n'.
Proof.
  intros H. unfold upd2. destruct (Nat.eqb_spec d' d); destruct (N.eqb_spec n' n); cbn; congruence.
Qed.

Lemma pair_dec (d' : lid) (n' : key) d n : {(d', n') = (d, n)} + {(d', n') <> (d, n)}.
Proof. destruct (Nat.eq_dec d' d); destruct (N.eq_dec n' n); subst; auto; right; congruence. Qed.

Lemma veq_refl v : veq v v = true.
Proof. unfold veq. now rewrite N.eqb_refl. Qed.

(* ---- induction over the schedule ----------------------------------------------------------------- *)

Lemma exec_inv (I : state -> Prop) cfg p :
  I (init p) -> (forall st t, I st -> I (step cfg st t)) -> forall s, I (exec cfg p s).
Proof.
  intros H0 HS s. unfold exec. generalize (init p) H0. induction s as [|t s IH]; intros st Hst; cbn [fold_left]; auto.
Qed.

(* one schedule step either leaves the state alone (finished or blocked thread) or moves thread t *)
Definition moves cfg st t sh' p' todo' evs : Prop :=
  let th := st_thr st t in
  (t_pc th = PIdle /\ exists o, t_todo th = o :: todo' /\ start cfg (st_sh st) t o = (sh', (p', evs)))
  \/ (t_pc th <> PIdle /\ todo' = t_todo th /\ seg cfg (st_sh st) t (t_pc th) = Some (sh', (p', evs))).

Lemma step_cases cfg st t :
  step cfg st t = st \/
  exists sh' p' todo' evs, moves cfg st t sh' p' todo' evs /\
    step cfg st t = mkSt sh' (upd1 (st_thr st) t (mkT p' todo')) (st_log st ++ evs).
Proof.
  unfold step, moves.
  destruct (t_pc (st_thr st t)) eqn:Hpc.
  - destruct (t_todo (st_thr st t)) as [|o todo] eqn:Htodo; [now left|].
    destruct (start cfg (st_sh st) t o) as [sh' [p' evs]] eqn:Hs.
    right. exists sh', p', todo, evs. split; [left; split; [reflexivity|]; exists o; auto | reflexivity].
  - match goal with |- context [seg ?c ?s ?t ?p] => destruct (seg c s t p) as [[sh' [p' evs]]|] eqn:Hs end; [|now left].
    right; do 4 eexists; split; [right; split; [discriminate|split; [reflexivity|reflexivity]]|reflexivity].
  - match goal with |- context [seg ?c ?s ?t ?p] => destruct (seg c s t p) as [[sh' [p' evs]]|] eqn:Hs end; [|now left].
    right; do 4 eexists; split; [right; split; [discriminate|split; [reflexivity|reflexivity]]|reflexivity].
  - match goal with |- context [seg ?c ?s ?t ?p] => destruct (seg c s t p) as [[sh' [p' evs]]|] eqn:Hs end; [|now left].
    right; do 4 eexists; split; [right; split; [discriminate|split; [reflexivity|reflexivity]]|reflexivity].
  - match goal with |- context [seg ?c ?s ?t ?p] => destruct (seg c s t p) as [[sh' [p' evs]]|] eqn:Hs end; [|now left].
    right; do 4 eexists; split; [right; split; [discriminate|split; [reflexivity|reflexivity]]|reflexivity].
  - match goal with |- context [seg ?c ?s ?t ?p] => destruct (seg c s t p) as [[sh' [p' evs]]|] eqn:Hs end; [|now left].
    right; do 4 eexists; split; [right; split; [discriminate|split; [reflexivity|reflexivity]]|reflexivity].
  - match goal with |- context [seg ?c ?s ?t ?p] => destruct (seg c s t p) as [[sh' [p' evs]]|] eqn:Hs end; [|now left].
    right; do 4 eexists; split; [right; split; [discriminate|split; [reflexivity|reflexivity]]|reflexivity].
  - match goal with |- context [seg ?c ?s ?t ?p] => destruct (seg c s t p) as [[sh' [p' evs]]|] eqn:Hs end; [|now left].
    right; do 4 eexists; split; [right; split; [discriminate|split; [reflexivity|reflexivity]]|reflexivity].
  - match goal with |- context [seg ?c ?s ?t ?p] => destruct (seg c s t p) as [[sh' [p' evs]]|] eqn:Hs end; [|now left].
    right; do 4 eexists; split; [right; split; [discriminate|split; [reflexivity|reflexivity]]|reflexivity].
  - match goal with |- context [seg ?c ?s ?t ?p] => destruct (seg c s t p) as [[sh' [p' evs]]|] eqn:Hs end; [|now left].
    right; do 4 eexists; split; [right; split; [discriminate|split; [reflexivity|reflexivity]]|reflexivity].
Qed.

(* ---- SetEntry ----------------------------------------------------------------------------------------- *)

(* what set_entry does to the entry maps: nothing, or one key receives the new entry, and only when it was free
   or held an entry without value *)
Lemma set_entry_ents sh d n e sh' r :
  set_entry sh d n e = (sh', r) ->
  lockmap sh' = lockmap sh /\ held sh' = held sh /\ next_lock sh' = next_lock sh /\
  (ents sh' = ents sh \/
   (ents sh' = upd2 (ents sh) d n (Some e) /\ (ents sh d n = None \/ (ents sh d n = Some None /\ e <> None)))).
Proof.
  unfold set_entry. intros H.
  destruct (ents sh d n) as [old|] eqn:Ho.
  - destruct e as [nv|].
    + destruct old as [ov|].
      * destruct (veq ov nv); inversion H; subst; auto.
      * inversion H; subst; cbn. repeat split; auto. right; split; auto. right; split; auto; discriminate.
    + inversion H; subst; auto.
  - inversion H; subst; cbn. repeat split; auto.
Qed.

(* a binding is never changed, an entry never disappears *)
Lemma set_entry_keeps sh d n e d0 n0 v :
  ents sh d0 n0 = Some (Some v) -> ents (fst (set_entry sh d n e)) d0 n0 = Some (Some v).
Proof.
  intros Hb. destruct (set_entry sh d n e) as [sh' r] eqn:Hs. cbn [fst].
  destruct (set_entry_ents _ _ _ _ _ _ Hs) as (_ & _ & _ & [He | [He Hold]]); rewrite He; auto.
  destruct (pair_dec d0 n0 d n) as [Heq|Hne].
  - inversion Heq; subst. destruct Hold as [Hold | [Hold _]]; congruence.
  - now rewrite upd2_neq.
Qed.

Lemma set_entry_nonnone sh d n e d0 n0 :
  ents sh d0 n0 <> None -> ents (fst (set_entry sh d n e)) d0 n0 <> None.
Proof.
  intros Hb. destruct (set_entry sh d n e) as [sh' r] eqn:Hs. cbn [fst].
  destruct (set_entry_ents _ _ _ _ _ _ Hs) as (_ & _ & _ & [He | [He Hold]]); rewrite He; auto.
  destruct (pair_dec d0 n0 d n) as [Heq|Hne].
  - inversion Heq; subst. rewrite upd2_eq. discriminate.
  - now rewrite upd2_neq.
Qed.

(* after SetEntry the key has an entry *)
Lemma set_entry_there sh d n e : ents (fst (set_entry sh d n e)) d n <> None.
Proof.
  destruct (set_entry sh d n e) as [sh' r] eqn:Hs. cbn [fst].
  destruct (set_entry_ents _ _ _ _ _ _ Hs) as (_ & _ & _ & [He | [He Hold]]); rewrite He.
  - unfold set_entry in Hs. destruct (ents sh d n) eqn:Ho; [discriminate|].
    inversion Hs; subst. cbn in He. apply (f_equal (fun f => f d n)) in He. rewrite upd2_eq in He. congruence.
  - rewrite upd2_eq. discriminate.
Qed.

(* a new binding is the value given *)
Lemma set_entry_new sh d n e d0 n0 v :
  ents (fst (set_entry sh d n e)) d0 n0 = Some (Some v) ->
  ents sh d0 n0 = Some (Some v) \/ (d0 = d /\ n0 = n /\ e = Some v).
Proof.
  destruct (set_entry sh d n e) as [sh' r] eqn:Hs. cbn [fst].
  destruct (set_entry_ents _ _ _ _ _ _ Hs) as (_ & _ & _ & [He | [He Hold]]); rewrite He; auto.
  destruct (pair_dec d0 n0 d n) as [Heq|Hne].
  - inversion Heq; subst. rewrite upd2_eq. intros H; inversion H; subst. right; auto.
  - rewrite upd2_neq by assumption. auto.
Qed.

Lemma set_entry_some_result sh d n v sh' r :
  set_entry sh d n (Some v) = (sh', Some r) -> exists w, r = Some w.
Proof.
  unfold set_entry. destruct (ents sh d n) as [[ov|]|]; intros H.
  - destruct (veq ov v); inversion H; eauto.
  - inversion H; eauto.
  - inversion H; eauto.
Qed.

Lemma set_entry_conflict sh d n v sh' :
  set_entry sh d n (Some v) = (sh', None) -> sh' = sh /\ exists ov, ents sh d n = Some (Some ov) /\ veq ov v = false.
Proof.
  unfold set_entry. destruct (ents sh d n) as [[ov|]|]; intros H; try discriminate.
  destruct (veq ov v) eqn:Hv; inversion H; subst. split; auto. exists ov; auto.
Qed.

(* ---- the chain of a loader -------------------------------------------------------------------------- *)

Lemma chain_up_nonempty cfg f l : chain_up cfg f l <> [].
Proof. destruct f; cbn; [discriminate|]. destruct (l_parent (ldef_of cfg l)); discriminate. Qed.

Lemma chain_nonempty cfg l : chain cfg l <> [].
Proof.
  unfold chain. intros H. apply (f_equal (@rev lid)) in H. rewrite rev_involutive in H. cbn in H.
  now apply chain_up_nonempty in H.
Qed.

(* ---- what a step does to the entries (write-once) ------------------------------------------------------ *)

Ltac inv_pair H := inversion H; subst; clear H.

Lemma seg_ents_keep cfg sh t p sh' r d0 n0 v :
  seg cfg sh t p = Some (sh', r) -> ents sh d0 n0 = Some (Some v) -> ents sh' d0 n0 = Some (Some v).
Proof.
  intros Hs Hb. destruct p; cbn in Hs.
  - discriminate.
  - inv_pair Hs. auto.
  - inv_pair Hs. now apply set_entry_keeps.
  - destruct (file_of cfg d n); [destruct (lockmap sh d n)|]; inv_pair Hs; auto.
  - inv_pair Hs. now apply set_entry_keeps.
  - destruct (held sh lk); inv_pair Hs; auto.
  - destruct (get sh d n); inv_pair Hs; auto.
  - inv_pair Hs. now apply set_entry_keeps.
  - destruct (file_of cfg d n) as [fv|]; [|inv_pair Hs; auto].
    destruct (file_bad cfg d n); [inv_pair Hs; auto|].
    pose proof (set_entry_keeps sh d n (Some fv) d0 n0 v Hb) as Hk.
    destruct (set_entry sh d n (Some fv)) as [sh1 [r1|]]; inv_pair Hs; auto.
  - destruct r0; inv_pair Hs; auto.
Qed.

Lemma start_ents_keep cfg sh t o sh' r d0 n0 v :
  start cfg sh t o = (sh', r) -> ents sh d0 n0 = Some (Some v) -> ents sh' d0 n0 = Some (Some v).
Proof.
  intros Hs Hb. destruct o; cbn in Hs.
  - destruct (chain cfg l); inv_pair Hs; auto.
  - pose proof (set_entry_keeps sh l n (Some v0) d0 n0 v Hb) as Hk.
    destruct (set_entry sh l n (Some v0)) as [sh1 [[r1|]|]]; inv_pair Hs; auto.
  - inv_pair Hs; auto.
Qed.

(* bindings are write-once: whatever the schedule does next, a binding stays what it is *)
Lemma step_binding_stable cfg st t d n v :
  ents (st_sh st) d n = Some (Some v) -> ents (st_sh (step cfg st t)) d n = Some (Some v).
Proof.
  intros Hb. destruct (step_cases cfg st t) as [He | (sh' & p' & todo' & evs & Hm & He)]; rewrite He; auto.
  cbn [st_sh]. destruct Hm as [(_ & o & _ & Hs) | (_ & _ & Hs)].
  - eapply start_ents_keep; eauto.
  - eapply seg_ents_keep; eauto.
Qed.

Lemma steps_binding_stable cfg s : forall st d n v,
  ents (st_sh st) d n = Some (Some v) -> ents (st_sh (fold_left (step cfg) s st)) d n = Some (Some v).
Proof.
  induction s as [|t s IH]; intros st d n v Hb; cbn [fold_left]; auto.
  apply IH. now apply step_binding_stable.
Qed.

(* ---- invariant 1: where bindings and results come from ------------------------------------------------ *)

Definition defines (cfg : config) (p : prog) (d : lid) (n : key) (v : val) : Prop :=
  file_of cfg d n = Some v \/ exists t, In (ODefine d n v) (nth t p []).

(* the yield point at which a thread is parked makes sense for the loader chain of its operation, and a value
   that it carries is bound *)
Definition pc_wf (cfg : config) (sh : shared) (p : pc) : Prop :=
  match p with
  | PIdle | PAfterLookup _ _ => True
  | PBetween l n d rest | PBeforeFind l n d rest | PBeforeSet l n d rest =>
      In d (chain cfg l) /\ incl rest (chain cfg l)
  | PBeforeLock l n d lk rest | PLocked l n d lk rest | PChecked l n d lk rest | PMarked l n d lk rest =>
      In d (chain cfg l) /\ incl rest (chain cfg l) /\ file_of cfg d n <> None
  | PUnlocked l n d lk r rest =>
      In d (chain cfg l) /\ incl rest (chain cfg l) /\ forall v, r = Some (RdVal v) -> ents sh d n = Some (Some v)
  end.

Record inv1 (cfg : config) (p : prog) (st : state) : Prop := {
  i1_todo : forall t o, In o (t_todo (st_thr st t)) -> In o (nth t p []);
  i1_bind : forall d n v, ents (st_sh st) d n = Some (Some v) -> defines cfg p d n v;
  i1_wf : forall t, pc_wf cfg (st_sh st) (t_pc (st_thr st t));
  i1_log : forall t l n v, In (EvRes t (OLoad l n) (RFound (Some v))) (st_log st) ->
                           exists d, In d (chain cfg l) /\ ents (st_sh st) d n = Some (Some v)
}.

Lemma get_val sh d n v : get sh d n = RdVal v -> ents sh d n = Some (Some v).
Proof. unfold get. destruct (ents sh d n) as [[w|]|]; intros H; inversion H; auto. Qed.

(* the three helpers that end a segment of a Load: the new yield point is well formed and a reported value is bound *)
Definition outcome_ok cfg sh (l : lid) (n : key) (r : pc * list event) : Prop :=
  pc_wf cfg sh (fst r) /\
  forall t' l' n' v, In (EvRes t' (OLoad l' n') (RFound (Some v))) (snd r) ->
    l' = l /\ n' = n /\ exists d, In d (chain cfg l) /\ ents sh d n = Some (Some v).

Definition rd_ok cfg sh (l : lid) (n : key) (e : rd) : Prop :=
  forall v, e = RdVal v -> exists d, In d (chain cfg l) /\ ents sh d n = Some (Some v).

Lemma finish_load_ok cfg sh t l n e : rd_ok cfg sh l n e -> outcome_ok cfg sh l n (finish_load t l n e).
Proof.
  intros He. unfold finish_load, fin. destruct e; split; cbn; auto.
  - intros ? ? ? ? [].
  - intros ? ? ? ? [H|[]]. inversion H.
  - intros ? ? ? ? [H|[]]. inversion H; subst. auto.
Qed.

Lemma next_level_ok cfg sh t l n e rest :
  rd_ok cfg sh l n e -> incl rest (chain cfg l) -> outcome_ok cfg sh l n (next_level t l n e rest).
Proof.
  intros He Hr. unfold next_level.
  destruct e; try (now apply finish_load_ok);
    (destruct rest as [|d rest']; [now apply finish_load_ok|]);
    (split; cbn; [split; [apply Hr; now left | intros x Hx; apply Hr; now right] | intros ? ? ? ? []]).
Qed.

Lemma after_read_ok cfg sh t l n d e rest :
  rd_ok cfg sh l n e -> In d (chain cfg l) -> incl rest (chain cfg l) ->
  outcome_ok cfg sh l n (after_read cfg t l n d e rest).
Proof.
  intros He Hd Hr. unfold after_read. destruct (is_file cfg d); [|now apply next_level_ok].
  destruct e; try (now apply next_level_ok). split; cbn; auto. intros ? ? ? ? [].
Qed.

Lemma rd_ok_get cfg sh l n d : In d (chain cfg l) -> rd_ok cfg sh l n (get sh d n).
Proof. intros Hd v Hv. exists d; split; auto. now apply get_val. Qed.

Lemma rd_ok_hole cfg sh l n : rd_ok cfg sh l n RdHole.
Proof. intros v H; discriminate. Qed.

Lemma pc_wf_mono cfg sh sh' p :
  (forall d n v, ents sh d n = Some (Some v) -> ents sh' d n = Some (Some v)) -> pc_wf cfg sh p -> pc_wf cfg sh' p.
Proof. intros Hm. destruct p; cbn; auto. intros (H1 & H2 & H3); repeat split; auto. Qed.

Lemma outcome_ok_mono cfg sh sh' l n r :
  (forall d n v, ents sh d n = Some (Some v) -> ents sh' d n = Some (Some v)) ->
  outcome_ok cfg sh l n r -> outcome_ok cfg sh' l n r.
Proof.
  intros Hm [H1 H2]. split; [eapply pc_wf_mono; eauto|].
  intros t' l' n' v Hin. destruct (H2 _ _ _ _ Hin) as (-> & -> & d & Hd & Hb). repeat split; auto. exists d; auto.
Qed.

(* what a moving thread establishes, in one statement used for both kinds of segments *)
Definition move_ok cfg (p : prog) (sh sh' : shared) (p' : pc) (evs : list event) : Prop :=
  (forall d n v, ents sh d n = Some (Some v) -> ents sh' d n = Some (Some v)) /\
  pc_wf cfg sh' p' /\
  (forall t' l n v, In (EvRes t' (OLoad l n) (RFound (Some v))) evs ->
     exists d, In d (chain cfg l) /\ ents sh' d n = Some (Some v)).

Lemma outcome_move_ok cfg p sh sh' l n r p' evs :
  r = (p', evs) ->
  (forall d n v, ents sh d n = Some (Some v) -> ents sh' d n = Some (Some v)) ->
  outcome_ok cfg sh' l n r -> move_ok cfg p sh sh' p' evs.
Proof.
  intros -> Hm [H1 H2]. split; [auto|split; [auto|]].
  intros t' l' n' v Hin. destruct (H2 _ _ _ _ Hin) as (-> & -> & Hd). auto.
Qed.

Lemma seg_move_ok cfg p sh t pc0 sh' p' evs :
  pc_wf cfg sh pc0 -> seg cfg sh t pc0 = Some (sh', (p', evs)) -> move_ok cfg p sh sh' p' evs.
Proof.
  intros Hwf Hs.
  assert (Hmono : forall d n v, ents sh d n = Some (Some v) -> ents sh' d n = Some (Some v))
    by (intros; eapply seg_ents_keep; eauto).
  destruct pc0; cbn [seg] in Hs; cbn [pc_wf] in Hwf.
  - discriminate.
  - (* PBetween *) destruct Hwf as [Hd Hr]. inv_pair Hs.
    eapply outcome_move_ok with (l := l) (n := n); [eassumption | auto |].
    apply after_read_ok; auto. now apply rd_ok_get.
  - (* PAfterLookup *) inv_pair Hs. split; [auto|split; [exact I|]]. intros ? ? ? ? [H|[]]; inversion H.
  - (* PBeforeFind *) destruct Hwf as [Hd Hr].
    destruct (file_of cfg d n) eqn:Hf; [destruct (lockmap sh d n)|]; inv_pair Hs;
      (split; [auto|split; [cbn; repeat split; auto; congruence | intros ? ? ? ? []]]).
  - (* PBeforeSet *) destruct Hwf as [Hd Hr]. inv_pair Hs.
    eapply outcome_move_ok with (l := l) (n := n); [eassumption | auto |].
    apply (next_level_ok cfg (fst (set_entry sh d n None)) t l n RdHole rest); auto. apply rd_ok_hole.
  - (* PBeforeLock *) destruct Hwf as (Hd & Hr & Hf). destruct (held sh lk); inv_pair Hs.
    split; [auto|split; [cbn; auto | intros ? ? ? ? []]].
  - (* PLocked *) destruct Hwf as (Hd & Hr & Hf).
    destruct (get sh d n) eqn:Hg; inv_pair Hs; (split; [auto|split; [cbn; repeat split; auto | intros ? ? ? ? []]]).
    + intros v Hv; discriminate.
    + intros w Hw. inversion Hw; subst. now apply get_val.
  - (* PChecked *) destruct Hwf as (Hd & Hr & Hf). inv_pair Hs.
    split; [auto|split; [cbn; auto | intros ? ? ? ? []]].
  - (* PMarked *) destruct Hwf as (Hd & Hr & Hf).
    destruct (file_of cfg d n) as [fv|]; [|congruence].
    destruct (file_bad cfg d n).
    { inv_pair Hs. split; [auto|split; [cbn; repeat split; auto; discriminate | intros ? ? ? ? [H|[]]; inversion H]]. }
    destruct (set_entry sh d n (Some fv)) as [sh1 [r1|]] eqn:Hse; inv_pair Hs.
    + split; [auto|split; [cbn; repeat split; auto | intros ? ? ? ? [H|[]]; inversion H]].
      intros w Hw. inversion Hw as [Hg]. cbn. now apply get_val.
    + split; [auto|split; [cbn; repeat split; auto; discriminate | intros ? ? ? ? [H|[]]; inversion H]].
  - (* PUnlocked *) destruct Hwf as (Hd & Hr & Hv).
    destruct r as [e|]; [|destruct (file_bad cfg d n)]; inv_pair Hs.
    + eapply outcome_move_ok with (l := l) (n := n); [eassumption | auto |].
      apply next_level_ok; auto.
      intros v Hev. subst e. exists d; split; [auto | cbn; apply Hv; reflexivity].
    + split; [auto|split; [exact I|]]. intros ? ? ? ? [H|[]]; inversion H.
    + split; [auto|split; [exact I|]]. intros ? ? ? ? [H|[]]; inversion H.
Qed.

Lemma start_move_ok cfg p sh t o sh' p' evs :
  start cfg sh t o = (sh', (p', evs)) -> move_ok cfg p sh sh' p' evs.
Proof.
  intros Hs.
  assert (Hmono : forall d n v, ents sh d n = Some (Some v) -> ents sh' d n = Some (Some v))
    by (intros; eapply start_ents_keep; eauto).
  destruct o; cbn [start] in Hs.
  - destruct (chain cfg l) as [|d0 rest] eqn:Hc; inv_pair Hs.
    + split; [auto|split; [exact I|]]. intros ? ? ? ? [H|[]]; inversion H.
    + assert (Hd : In d0 (chain cfg l)) by (rewrite Hc; now left).
      assert (Hr : incl rest (chain cfg l)) by (rewrite Hc; intros x Hx; now right).
      eapply outcome_move_ok with (l := l) (n := n); [eassumption | auto |].
      apply after_read_ok; auto. now apply rd_ok_get.
  - destruct (set_entry sh l n (Some v)) as [sh1 [[r1|]|]]; inv_pair Hs;
      (split; [auto|split; [exact I|]]; intros ? ? ? ? [H|[]]; inversion H).
  - inv_pair Hs. split; [auto|split; [exact I|]]. intros ? ? ? ? [H|[]]; inversion H.
Qed.

(* new bindings come from the program or from a file *)
Lemma seg_bind cfg sh t pc0 sh' r d0 n0 v :
  seg cfg sh t pc0 = Some (sh', r) -> ents sh' d0 n0 = Some (Some v) ->
  ents sh d0 n0 = Some (Some v) \/ file_of cfg d0 n0 = Some v.
Proof.
  intros Hs Hb. destruct pc0; cbn in Hs.
  - discriminate.
  - inv_pair Hs; auto.
  - inv_pair Hs. apply set_entry_new in Hb. destruct Hb as [|(_ & _ & H)]; [auto|discriminate].
  - destruct (file_of cfg d n); [destruct (lockmap sh d n)|]; inv_pair Hs; auto.
  - inv_pair Hs. apply set_entry_new in Hb. destruct Hb as [|(_ & _ & H)]; [auto|discriminate].
  - destruct (held sh lk); inv_pair Hs; auto.
  - destruct (get sh d n); inv_pair Hs; auto.
  - inv_pair Hs. apply set_entry_new in Hb. destruct Hb as [|(_ & _ & H)]; [auto|discriminate].
  - destruct (file_of cfg d n) as [fv|] eqn:Hf; [|inv_pair Hs; auto].
    destruct (file_bad cfg d n); [inv_pair Hs; auto|].
    pose proof (set_entry_new sh d n (Some fv) d0 n0 v) as Hn.
    destruct (set_entry sh d n (Some fv)) as [sh1 [r1|]]; inv_pair Hs; cbn in Hb;
      (destruct (Hn Hb) as [|(-> & -> & H)]; [auto|inversion H; subst; auto]).
  - destruct r0; inv_pair Hs; auto.
Qed.

Lemma start_bind cfg sh t o sh' r d0 n0 v :
  start cfg sh t o = (sh', r) -> ents sh' d0 n0 = Some (Some v) ->
  ents sh d0 n0 = Some (Some v) \/ o = ODefine d0 n0 v.
Proof.
  intros Hs Hb. destruct o; cbn in Hs.
  - destruct (chain cfg l); inv_pair Hs; auto.
  - pose proof (set_entry_new sh l n (Some v0) d0 n0 v) as Hn.
    destruct (set_entry sh l n (Some v0)) as [sh1 [[r1|]|]]; inv_pair Hs; cbn in Hb;
      (destruct (Hn Hb) as [|(-> & -> & H)]; [auto|inversion H; subst; auto]).
  - inv_pair Hs; auto.
Qed.

Lemma inv1_init cfg p : inv1 cfg p (init p).
Proof.
  split; cbn.
  - auto.
  - intros d n v H; discriminate.
  - intros; exact I.
  - intros ? ? ? ? [].
Qed.

Lemma inv1_step cfg p st t : inv1 cfg p st -> inv1 cfg p (step cfg st t).
Proof.
  intros [Htodo Hbind Hwf Hlog].
  destruct (step_cases cfg st t) as [He | (sh' & p' & todo' & evs & Hm & He)]; rewrite He; [split; auto|].
  assert (Hok : move_ok cfg p (st_sh st) sh' p' evs).
  { destruct Hm as [(_ & o & _ & Hs) | (_ & _ & Hs)].
    - eapply start_move_ok; eauto.
    - eapply seg_move_ok; eauto. }
  destruct Hok as (Hmono & Hwf' & Hev).
  split; cbn [st_sh st_thr st_log].
  - (* todo *) intros t0 o Hin. destruct (Nat.eq_dec t0 t) as [->|Hne].
    + rewrite upd1_eq in Hin. cbn in Hin. apply Htodo.
      destruct Hm as [(_ & o0 & Ht & _) | (_ & -> & _)]; [rewrite Ht; now right | auto].
    + rewrite upd1_neq in Hin by assumption. auto.
  - (* bindings *) intros d n v Hb. destruct Hm as [(_ & o & Ht & Hs) | (_ & _ & Hs)].
    + destruct (start_bind _ _ _ _ _ _ _ _ _ Hs Hb) as [H | ->]; [auto|].
      right. exists t. apply Htodo. rewrite Ht. now left.
    + destruct (seg_bind _ _ _ _ _ _ _ _ _ Hs Hb) as [H | H]; [auto | now left].
  - (* wf *) intros t0. destruct (Nat.eq_dec t0 t) as [->|Hne].
    + now rewrite upd1_eq.
    + rewrite upd1_neq by assumption. eapply pc_wf_mono; eauto.
  - (* log *) intros t0 l n v Hin. apply in_app_or in Hin. destruct Hin as [Hin|Hin].
    + destruct (Hlog _ _ _ _ Hin) as (d & Hd & Hb). exists d; auto.
    + eauto.
Qed.

Lemma inv1_exec cfg p s : inv1 cfg p (exec cfg p s).
Proof. apply exec_inv; [apply inv1_init | intros; now apply inv1_step]. Qed.

(* ---- agreement ---------------------------------------------------------------------------------------- *)

(* all definitions of name n inside the chain of loader l - Define operations of the program and files - are
   in one loader (otherwise a definition in an ancestor shadows the one in a descendant: already sequentially,
   C12, the answer of Load changes then) *)
Definition single_definer (cfg : config) (p : prog) (l : lid) (n : key) : Prop :=
  exists d0, forall d v, In d (chain cfg l) -> defines cfg p d n v -> d = d0.

Lemma agreement cfg p s l n :
  single_definer cfg p l n ->
  forall t1 t2 v1 v2,
    In (EvRes t1 (OLoad l n) (RFound (Some v1))) (trace cfg p s) ->
    In (EvRes t2 (OLoad l n) (RFound (Some v2))) (trace cfg p s) ->
    v1 = v2.
Proof.
  intros [d0 Hsd] t1 t2 v1 v2 H1 H2. unfold trace in *.
  destruct (inv1_exec cfg p s) as [_ Hbind _ Hlog].
  destruct (Hlog _ _ _ _ H1) as (d1 & Hd1 & Hb1).
  destruct (Hlog _ _ _ _ H2) as (d2 & Hd2 & Hb2).
  assert (d1 = d0) by (eapply Hsd; eauto).
  assert (d2 = d0) by (eapply Hsd; eauto).
  subst. congruence.
Qed.

(* a value once handed out for (l, n) stays bound in the chain for the rest of every schedule *)
Lemma found_stays_bound cfg p s s' t l n v :
  In (EvRes t (OLoad l n) (RFound (Some v))) (trace cfg p s) ->
  exists d, In d (chain cfg l) /\ ents (st_sh (exec cfg p (s ++ s'))) d n = Some (Some v).
Proof.
  intros H. destruct (inv1_exec cfg p s) as [_ _ _ Hlog].
  destruct (Hlog _ _ _ _ H) as (d & Hd & Hb). exists d; split; auto.
  unfold exec. rewrite fold_left_app. now apply steps_binding_stable.
Qed.

(* ---- no fault ----------------------------------------------------------------------------------------- *)

(* the program does not explicitly define a name in a file based loader that also has a file for that name *)
Definition no_define_over_file (cfg : config) (p : prog) : Prop :=
  forall t l n v, In (ODefine l n v) (nth t p []) -> file_of cfg l n = None.

Definition res_ok (cfg : config) (p : prog) (o : op) (r : res) : Prop :=
  r <> RFault /\
  (r = RErr -> exists l n v, o = ODefine l n v /\ exists t' v', In (ODefine l n v') (nth t' p []) /\ veq v' v = false) /\
  (r = RFileErr -> exists l n d, o = OLoad l n /\ In d (chain cfg l) /\ file_bad cfg d n = true).

(* a thread that is unwinding a panic of the instantiator is doing so because the file is broken *)
Definition nopanic (cfg : config) (p' : pc) : Prop :=
  forall l n d lk rest, p' = PUnlocked l n d lk None rest -> file_bad cfg d n = true.

Record inv2 (cfg : config) (p : prog) (st : state) : Prop := {
  i2_nopanic : forall t, nopanic cfg (t_pc (st_thr st t));
  i2_log : forall t o r, In (EvRes t o r) (st_log st) -> res_ok cfg p o r
}.

Lemma finish_load_evs t l n e t' o r :
  In (EvRes t' o r) (snd (finish_load t l n e)) -> exists x, r = RFound x.
Proof. unfold finish_load, fin. destruct e; cbn; [intros [] | intros [H|[]]; inversion H; eauto ..]. Qed.

Lemma next_level_evs t l n e rest t' o r :
  In (EvRes t' o r) (snd (next_level t l n e rest)) -> exists x, r = RFound x.
Proof.
  unfold next_level. destruct e; try apply finish_load_evs; (destruct rest; [apply finish_load_evs | intros []]).
Qed.

Lemma after_read_evs cfg t l n d e rest t' o r :
  In (EvRes t' o r) (snd (after_read cfg t l n d e rest)) -> exists x, r = RFound x.
Proof.
  unfold after_read. destruct (is_file cfg d); [|apply next_level_evs].
  destruct e; try apply next_level_evs. intros [].
Qed.

Lemma finish_load_pc t l n e l' n' d lk rest : fst (finish_load t l n e) <> PUnlocked l' n' d lk None rest.
Proof. unfold finish_load, fin. destruct e; cbn; discriminate. Qed.

Lemma next_level_pc t l n e rest0 l' n' d lk rest : fst (next_level t l n e rest0) <> PUnlocked l' n' d lk None rest.
Proof.
  unfold next_level. destruct e; try apply finish_load_pc; (destruct rest0; [apply finish_load_pc | cbn; discriminate]).
Qed.

Lemma after_read_pc cfg t l n d0 e rest0 l' n' d lk rest :
  fst (after_read cfg t l n d0 e rest0) <> PUnlocked l' n' d lk None rest.
Proof.
  unfold after_read. destruct (is_file cfg d0); [|apply next_level_pc].
  destruct e; try apply next_level_pc. cbn; discriminate.
Qed.

Lemma found_ok cfg p o x : res_ok cfg p o (RFound x).
Proof. split; [discriminate|split; discriminate]. Qed.

Lemma defined_ok cfg p o x : res_ok cfg p o (RDefined x).
Proof. split; [discriminate|split; discriminate]. Qed.

Lemma bool_ok cfg p o x : res_ok cfg p o (RBool x).
Proof. split; [discriminate|split; discriminate]. Qed.

Lemma pair_fst_snd {A B} (x : A * B) a b : x = (a, b) -> a = fst x /\ b = snd x.
Proof. intros ->; auto. Qed.

Ltac np := let H := fresh "Hnp_" in intros ? ? ? ? ? H; discriminate H.

Ltac use_outcome lpc levs :=
  match goal with H : ?x = (?p', ?evs) |- _ =>
    destruct (pair_fst_snd _ _ _ H) as [-> ->]; clear H;
    split; [let Hp := fresh "Hp" in intros ? ? ? ? ? Hp; exfalso; revert Hp; apply lpc
           | let Hin := fresh "Hin" in intros ? ? ? Hin; apply levs in Hin; destruct Hin as [? ->]; apply found_ok] end.


Lemma inv2_init cfg p : inv2 cfg p (init p).
Proof. split; cbn; [intros _; np | intros ? ? ? []]. Qed.

Lemma inv2_step cfg p st t :
  no_define_over_file cfg p -> inv1 cfg p st -> inv2 cfg p st -> inv2 cfg p (step cfg st t).
Proof.
  intros Hnd [Htodo Hbind Hwf _] [Hnp Hlog].
  destruct (step_cases cfg st t) as [He | (sh' & p' & todo' & evs & Hm & He)]; rewrite He; [split; auto|].
  assert (Hnew : nopanic cfg p' /\
                 (forall t' o r, In (EvRes t' o r) evs -> res_ok cfg p o r)).
  { destruct Hm as [(_ & o & Ht & Hs) | (Hpc & _ & Hs)].
    - (* start *)
      assert (Hop : In o (nth t p [])) by (apply Htodo; rewrite Ht; now left).
      destruct o; cbn [start] in Hs.
      + destruct (chain cfg l) as [|d0 rest] eqn:Hc; [now apply chain_nonempty in Hc|]. inv_pair Hs.
        use_outcome after_read_pc after_read_evs.
      + destruct (set_entry (st_sh st) l n (Some v)) as [sh1 [[r1|]|]] eqn:Hse; inv_pair Hs.
        * split; [np|]. intros t' o r [H|[]]; inversion H; subst. apply defined_ok.
        * apply set_entry_some_result in Hse. destruct Hse as [w Hw]; discriminate.
        * split; [np|]. intros t' o r [H|[]]; inversion H; subst. split; [discriminate|split; [|discriminate]]. intros _.
          apply set_entry_conflict in Hse. destruct Hse as (_ & ov & Hov & Hveq).
          exists l, n, v; split; auto.
          destruct (Hbind _ _ _ Hov) as [Hf | [t1 Hd]].
          -- rewrite (Hnd _ _ _ _ Hop) in Hf. discriminate.
          -- exists t1, ov; auto.
      + inv_pair Hs. split; [np|]. intros t' o r [H|[]]; inversion H; subst. apply bool_ok.
    - (* seg *)
      specialize (Hwf t). specialize (Hnp t).
      destruct (t_pc (st_thr st t)) eqn:Hpc0; cbn [seg] in Hs; cbn [pc_wf] in Hwf.
      + discriminate.
      + inv_pair Hs.
        use_outcome after_read_pc after_read_evs.
      + inv_pair Hs. split; [np|]. intros t' o r [H|[]]; inversion H; subst. apply found_ok.
      + destruct (file_of cfg d n); [destruct (lockmap (st_sh st) d n)|]; inv_pair Hs; (split; [np | intros ? ? ? []]).
      + injection Hs as Hsh Hx. subst sh'.
        assert (Hx' : next_level t l n RdHole rest = (p', evs)) by exact Hx. clear Hx.
        use_outcome next_level_pc next_level_evs.
      + destruct (held (st_sh st) lk); inv_pair Hs. split; [np | intros ? ? ? []].
      + destruct (get (st_sh st) d n); inv_pair Hs; (split; [np | intros ? ? ? []]).
      + inv_pair Hs. split; [np | intros ? ? ? []].
      + (* PMarked: the instantiator fails exactly when the file is broken (its SetEntry cannot conflict) *)
        destruct Hwf as (Hd & Hr & Hf).
        destruct (file_of cfg d n) as [fv|] eqn:Hfile; [|congruence].
        destruct (file_bad cfg d n) eqn:Hbad.
        { inv_pair Hs. split; [|intros ? ? ? [H|[]]; inversion H].
          intros l0 n0 d0 lk0 rest0 Hp. inversion Hp; subst. exact Hbad. }
        destruct (set_entry (st_sh st) d n (Some fv)) as [sh1 [r1|]] eqn:Hse; inv_pair Hs.
        * split; [np | intros ? ? ? [H|[]]; inversion H].
        * exfalso. apply set_entry_conflict in Hse. destruct Hse as (_ & ov & Hov & Hveq).
          destruct (Hbind _ _ _ Hov) as [Hf' | [t' Hdef]].
          -- rewrite Hfile in Hf'. inversion Hf'; subst. rewrite veq_refl in Hveq. discriminate.
          -- rewrite (Hnd _ _ _ _ Hdef) in Hfile. discriminate.
      + destruct Hwf as (Hd & Hr & _).
        destruct r as [e|].
        * inv_pair Hs. use_outcome next_level_pc next_level_evs.
        * rewrite (Hnp _ _ _ _ _ eq_refl) in Hs. inv_pair Hs. split; [np|].
          intros t' o r [H|[]]; inversion H; subst. split; [discriminate|split; [discriminate|]]. intros _.
          exists l, n, d. repeat split; auto. apply (Hnp _ _ _ _ _ eq_refl). }
  destruct Hnew as [Hp' Hevs].
  split; cbn [st_thr st_log].
  - intros t0. destruct (Nat.eq_dec t0 t) as [->|Hne].
    + rewrite upd1_eq. cbn. auto.
    + rewrite upd1_neq by assumption. auto.
  - intros t0 o r Hin. apply in_app_or in Hin. destruct Hin; eauto.
Qed.

Lemma inv2_exec cfg p s : no_define_over_file cfg p -> inv2 cfg p (exec cfg p s).
Proof.
  intros Hnd.
  assert (H : inv1 cfg p (exec cfg p s) /\ inv2 cfg p (exec cfg p s)).
  { apply (exec_inv (fun st => inv1 cfg p st /\ inv2 cfg p st)).
    - split; [apply inv1_init | apply inv2_init].
    - intros st t [H1 H2]. split; [now apply inv1_step | now apply inv2_step]. }
  apply H.
Qed.

(* No operation ends in a runtime fault, px.Load and HasEntry never raise an error, and the only error is the
   AttemptToRedefine of a Define whose name the program also defines, in the same loader, with a value that is
   not equal - which every sequential order that runs that other Define first raises as well. *)
Lemma no_fault cfg p s :
  no_define_over_file cfg p ->
  forall t o r, In (EvRes t o r) (trace cfg p s) -> res_ok cfg p o r.
Proof. intros Hnd. apply (inv2_exec cfg p s Hnd). Qed.
