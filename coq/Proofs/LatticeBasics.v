(* LatticeBasics.v — side conditions (what the Go constructors guarantee) and basic lemmas. *)
From Coq Require Import ZArith NArith Bool List Lia.
From PcoreV Require Import Model.Base Model.Ty Model.Lattice Proofs.LatticeUnfold.
Import ListNotations.
Open Scope Z_scope.

(* no Unit anywhere: the exclusion C01 names *)
Fixpoint no_unit (t : ty) : bool :=
  match t with
  | TUnit => false
  | TArray e _ _ => no_unit e
  | THash k v _ _ => no_unit k && no_unit v
  | TTuple ts _ _ _ => forallb no_unit ts
  | TStruct ms => forallb (fun m => no_unit (fst (snd m)) && no_unit (snd (snd m))) ms
  | TVariant ts => forallb no_unit ts
  | TOptional t | TNotUndef t | TType t | TSensitive t => no_unit t
  | _ => true
  end.

Definition is_lower (s : str) : bool := str_eqb (lower_ascii s) s.
Fixpoint distinct (l : list str) : bool :=
  match l with [] => true | x :: r => negb (mem_str x r) && distinct r end.

(* a struct key is String[name] or Optional[String[name]] (structtype.go:53 NewStructElement) *)
Definition key_ok (n : str) (k : ty) : bool :=
  match k with
  | TStringVal s => str_eqb s n
  | TOptional (TStringVal s) => str_eqb s n
  | _ => false
  end.

(* what the constructors guarantee: a case-insensitive Enum holds lower-cased values (enumtype.go:38),
   a Tuple without explicit size has the size of its type list (tupletype.go:43), Struct member names
   are distinct and keys have the two shapes above *)
Fixpoint wf_ty (t : ty) : bool :=
  match t with
  | TEnum ci vs => if ci then forallb is_lower vs else true
  | TArray e _ _ => wf_ty e
  | THash k v _ _ => wf_ty k && wf_ty v
  | TTuple ts given lo hi => (given || (Z.eqb lo (zlen ts) && Z.eqb hi (zlen ts))) && forallb wf_ty ts
  | TStruct ms => distinct (map fst ms) && forallb (fun m => key_ok (fst m) (fst (snd m)) && wf_ty (snd (snd m))) ms
  | TVariant ts => forallb wf_ty ts
  | TOptional t | TNotUndef t | TType t | TSensitive t => wf_ty t
  | TOther _ => false          (* types outside the model (Iterable, Callable, aliases, Object, ...) *)
  | _ => true
  end.

(* values: hash keys are pairwise different strings where they are strings (C09's invariant), and —
   for the first-order soundness theorem — no type occurs as a value *)
Definition vstr_of (v : value) : option str := match v with VStr s => Some s | _ => None end.
Fixpoint distinct_keys (ks : list value) : bool :=
  match ks with
  | [] => true
  | k :: r => match vstr_of k with
              | Some s => negb (existsb (is_vstr s) r)
              | None => true
              end && distinct_keys r
  end.
Fixpoint wf_val (v : value) : bool :=
  match v with
  | VArr vs => forallb wf_val vs
  | VHash es => distinct_keys (map fst es) && forallb (fun e => wf_val (fst e) && wf_val (snd e)) es
  | VSensitive x => wf_val x
  | VType _ => false
  | _ => true
  end.

Lemma in_size_sub lo hi lo' hi' n :
  size_sub lo hi lo' hi' = true -> in_size lo' hi' n = true -> in_size lo hi n = true.
Proof. unfold size_sub, in_size. lia. Qed.

(* a Float range that covers an unbounded one is unbounded; instances of the covered range (NaN for the unbounded
   one) are instances of the covering range *)
Lemma float_unbounded_sub lo hi lo' hi' :
  size_sub lo hi lo' hi' = true -> float_unbounded lo' hi' = true -> float_unbounded lo hi = true.
Proof. unfold size_sub, float_unbounded. lia. Qed.

Lemma float_in_sub lo hi lo' hi' n :
  size_sub lo hi lo' hi' = true -> in_size lo' hi' n || float_unbounded lo' hi' = true ->
  in_size lo hi n || float_unbounded lo hi = true.
Proof. unfold size_sub, in_size, float_unbounded. lia. Qed.

Lemma float_unbounded_default : float_unbounded (- InfF) InfF = true.
Proof. reflexivity. Qed.

Lemma is_any_eq a : is_any a = true -> a = TAny.
Proof. destruct a; cbn; congruence. Qed.

Section Basics.
  Variable rx : str -> str -> bool.
  Variable hs : bool.
  Notation inst := (inst rx hs).

  (* "accepts Undef" is "undef is an instance" *)
  Lemma nullable_inst a : nullable a = inst a VUndef.
  Proof.
    induction a using ty_ind'; cbn; try reflexivity.
    induction H as [|t ts Ht Hts IH]; cbn; [reflexivity|]. now rewrite Ht, IH.
  Qed.

  (* instances of the flat receivers *)
  Definition flat_inst (c : flatk) (v : value) : bool :=
    match c, v with
    | FString, VStr _ => true
    | FNumeric, (VInt _ | VFloat _ | VNaN) => true
    | FBoolean, VBool _ => true
    | FInteger, VInt _ => true
    | FFloat, (VFloat _ | VNaN) => true          (* the default Float type is unbounded *)
    | FRegexp, VRegexp _ => true
    | FUndef, VUndef => true
    | _, _ => false
    end.

  Lemma flat_recv_sound c b v : flat_recv c b = true -> inst b v = true -> flat_inst c v = true.
  Proof.
    destruct c, b; cbn; try discriminate; intros H Hi; destruct v; try discriminate; reflexivity.
  Qed.

  Lemma flat_sound c b : no_unit b = true -> flat c b = true -> forall x, inst b x = true -> flat_inst c x = true.
  Proof.
    induction b using ty_ind'; intros Hn Hf x Hi;
      try (eapply flat_recv_sound; [exact Hf|exact Hi]).
    - discriminate.
    - (* Variant *) cbn in *. apply existsb_exists in Hi. destruct Hi as (t & Ht & Hi).
      rewrite forallb_forall in Hf, Hn. rewrite Forall_forall in H. eauto.
    - (* Optional *) cbn in Hf. destruct c; try discriminate. cbn in Hi.
      destruct x; try reflexivity; cbn in *; (apply (IHb Hn Hf) in Hi; exact Hi).
    - (* NotUndef *) cbn in Hf. destruct (nullable b); [discriminate|]. cbn in Hi.
      destruct x; try discriminate; apply (IHb Hn Hf); exact Hi.
  Qed.
End Basics.
