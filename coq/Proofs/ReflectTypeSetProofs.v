(* Lemmas about Model/ReflectTypeSet.v (property C18): the type set derived from a list of Go structs is the map of a
   function of the single struct over the list, hence independent of the order of the list. *)
From Coq Require Import ZArith NArith Bool List Permutation Lia.
From PcoreV Require Import Model.Base Model.Reflect Model.ReflectNamed Model.ReflectTypeSet.
Import ListNotations.

Lemma ts_loop_spec prefix aliases rts : forall types,
  ts_loop prefix aliases rts types = types ++ map (ts_entry prefix aliases) rts.
Proof.
  induction rts as [|rt rest IH]; intros types; cbn [ts_loop map].
  - now rewrite app_nil_r.
  - rewrite IH, <- app_assoc. cbn [app]. f_equal. f_equal.
    unfold ts_entry, ts_parent, has_parent.
    destruct (sd_fields rt) as [|f fs']; [reflexivity|].
    destruct (sf_emb f && sf_struct f); reflexivity.
Qed.

Lemma typeset_entries_map ts_name aliases rts :
  typeset_entries ts_name aliases rts = map (ts_entry (ts_name ++ [colon; colon]) aliases) rts.
Proof. unfold typeset_entries. now rewrite ts_loop_spec. Qed.

Lemma typeset_entries_perm ts_name aliases l l' :
  Permutation l l' -> Permutation (typeset_entries ts_name aliases l) (typeset_entries ts_name aliases l').
Proof. intros HP. rewrite !typeset_entries_map. now apply Permutation_map. Qed.

Lemma typeset_entries_length ts_name aliases l : length (typeset_entries ts_name aliases l) = length l.
Proof. rewrite typeset_entries_map. apply map_length. Qed.

(* ---- lookup by name in a list of entries with distinct names *)
Lemma ts_lookup_in n es e : ts_lookup n es = Some e -> In e es /\ te_name e = n.
Proof.
  induction es as [|x rest IH]; cbn [ts_lookup]; [discriminate|].
  destruct (str_eqb (te_name x) n) eqn:E.
  - intros H. injection H as <-. split; [now left|]. now apply str_eqb_eq.
  - intros H. destruct (IH H) as [Hin Hn]. split; [now right|exact Hn].
Qed.

Lemma ts_lookup_none n es : ts_lookup n es = None -> forall e, In e es -> te_name e <> n.
Proof.
  induction es as [|x rest IH]; cbn [ts_lookup]; [intros _ e []|].
  destruct (str_eqb (te_name x) n) eqn:E; [discriminate|].
  intros H e [<-|Hin]; [now apply str_eqb_neq|now apply IH].
Qed.

Lemma ts_lookup_nodup n es e :
  NoDup (map te_name es) -> In e es -> te_name e = n -> ts_lookup n es = Some e.
Proof.
  induction es as [|x rest IH]; intros Hnd Hin Hn; [destruct Hin|].
  cbn [ts_lookup]. cbn [map] in Hnd. inversion Hnd as [|? ? Hnotin Hnd']; subst.
  destruct Hin as [->|Hin].
  - now rewrite str_eqb_refl.
  - destruct (str_eqb (te_name x) (te_name e)) eqn:E.
    + apply str_eqb_eq in E. exfalso. apply Hnotin. rewrite E. now apply in_map.
    + now apply IH.
Qed.

Lemma ts_lookup_perm n es es' :
  NoDup (map te_name es) -> Permutation es es' -> ts_lookup n es = ts_lookup n es'.
Proof.
  intros Hnd HP.
  assert (Hnd' : NoDup (map te_name es')).
  { eapply Permutation_NoDup; [apply Permutation_map; exact HP|exact Hnd]. }
  destruct (ts_lookup n es) as [e|] eqn:E.
  - destruct (ts_lookup_in _ _ _ E) as [Hin Hn]. symmetry. apply ts_lookup_nodup; [exact Hnd'| |exact Hn].
    eapply Permutation_in; eauto.
  - destruct (ts_lookup n es') as [e'|] eqn:E'; [|reflexivity].
    destruct (ts_lookup_in _ _ _ E') as [Hin Hn]. exfalso.
    apply (ts_lookup_none _ _ E e'); [|exact Hn]. eapply Permutation_in; [apply Permutation_sym; exact HP|exact Hin].
Qed.

(* the names of the entries are the names of the structs *)
Lemma entry_names ts_name aliases l :
  map te_name (typeset_entries ts_name aliases l) =
  map (fun s => type_name (ts_name ++ [colon; colon]) aliases (sd_name s)) l.
Proof. rewrite typeset_entries_map, map_map. reflexivity. Qed.

(* ORDER INDEPENDENCE: what the type set holds under a name does not depend on the order of the argument list *)
Lemma typeset_order_independent ts_name aliases l l' :
  Permutation l l' ->
  NoDup (map (fun s => type_name (ts_name ++ [colon; colon]) aliases (sd_name s)) l) ->
  forall n, ts_lookup n (typeset_entries ts_name aliases l) = ts_lookup n (typeset_entries ts_name aliases l').
Proof.
  intros HP Hnd n. apply ts_lookup_perm; [now rewrite entry_names|now apply typeset_entries_perm].
Qed.

(* every struct of the list is found under its name, and what is found is a function of that struct alone *)
Lemma typeset_member ts_name aliases l s :
  NoDup (map (fun s => type_name (ts_name ++ [colon; colon]) aliases (sd_name s)) l) ->
  In s l ->
  ts_lookup (type_name (ts_name ++ [colon; colon]) aliases (sd_name s)) (typeset_entries ts_name aliases l) =
  Some (ts_entry (ts_name ++ [colon; colon]) aliases s).
Proof.
  intros Hnd Hin. apply ts_lookup_nodup.
  - now rewrite entry_names.
  - rewrite typeset_entries_map. now apply in_map.
  - reflexivity.
Qed.

Lemma own_attr_names_false fs : own_attr_names false fs = map (fun f => first_to_lower (fst f)) fs.
Proof. unfold own_attr_names, own_attr_fields. destruct fs as [|[n b] r]; [reflexivity|]. now destruct b. Qed.

(* a struct without an embedded first struct field: no parent, every field is an attribute of the type itself *)
Lemma plain_struct_entry prefix aliases s :
  has_parent s = false ->
  te_parent (ts_entry prefix aliases s) = None /\
  te_own (ts_entry prefix aliases s) = map (fun f => first_to_lower (sf_name f)) (sd_fields s).
Proof.
  intros H. unfold ts_entry. cbn [te_parent te_own]. rewrite H.
  split.
  - unfold ts_parent, has_parent in *. destruct (sd_fields s) as [|f fs']; [reflexivity|]. now rewrite H.
  - rewrite own_attr_names_false. unfold fields_of. now rewrite map_map.
Qed.

(* a struct whose first field is an embedded struct: the parent is the type named after that field's type, the
   remaining fields are the attributes of the type itself *)
Lemma child_struct_entry prefix aliases n f fs' :
  sf_emb f = true -> sf_struct f = true ->
  te_parent (ts_entry prefix aliases (SD n (f :: fs'))) = Some (type_name prefix aliases (sf_tname f)) /\
  te_own (ts_entry prefix aliases (SD n (f :: fs'))) = map (fun f => first_to_lower (sf_name f)) fs'.
Proof.
  intros He Hs. unfold ts_entry, ts_parent, has_parent. cbn [sd_fields te_parent te_own].
  rewrite He, Hs. cbn [andb]. split; [reflexivity|].
  unfold own_attr_names, own_attr_fields, fields_of. cbn [map sd_fields]. rewrite He. now rewrite map_map.
Qed.

(* the key of an entry: with a type set name prefix and a plain (alias or Go) name, the plain name *)
Lemma after_last_sep_prefix p n :
  after_last_sep n = None -> hd_error n <> Some colon ->
  after_last_sep (p ++ [colon; colon] ++ n) = Some n.
Proof.
  intros Hn Hh. induction p as [|c p IH].
  - cbn [app after_last_sep]. rewrite Hn.
    destruct n as [|c' r'].
    + cbn. reflexivity.
    + assert (Hc : (c' =? colon)%N = false).
      { apply N.eqb_neq. intros ->. apply Hh. reflexivity. }
      rewrite Hc, andb_false_r. now rewrite N.eqb_refl.
  - cbn [app]. cbn [app] in IH. cbn [after_last_sep]. now rewrite IH.
Qed.

Lemma entry_key_plain ts_name aliases s :
  let n := alias_of aliases (sd_name s) in
  after_last_sep n = None -> hd_error n <> Some colon ->
  te_key (ts_entry (ts_name ++ [colon; colon]) aliases s) = n.
Proof.
  intros n Hn Hh. unfold ts_entry. cbn [te_key]. unfold entry_key, type_name.
  rewrite <- app_assoc. fold n. now rewrite (after_last_sep_prefix ts_name n Hn Hh).
Qed.
