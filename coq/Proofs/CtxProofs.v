(* CtxProofs.v — lemmas about the interleaving machine of Model/Ctx.v (property C14).

   Part 1  lists, the goroutine-local table seen through `tl_find`
   Part 2  the table effect of deferred functions and of frames; the stack invariant `frames_ok`
   Part 3  one statement (`exec_stmt`), one step of a goroutine (`step_g`), one step of the machine: the invariant
           `Inv` is preserved by every step of every goroutine, hence holds after every schedule
   Part 4  consequences: current_is_established, no "table missing" panic, tls_released, write locality
   Part 5  restored_after: the bracket theorem `scope_run`
   Part 6  goroutine_local: the machine is a machine with one private table per goroutine (`run_private`)
   (Parts 7-9 — ownership of contexts, loaders, isolation of forked contexts — are in Proofs/CtxIsolation.v.) *)
From Coq Require Import ZArith NArith Bool List Lia Arith.
From PcoreV Require Import Model.Base Model.Ctx.
Import ListNotations.
Local Open Scope nat_scope.

Ltac splits := repeat match goal with |- _ /\ _ => split end.

(* ================================================================================================ *)
(* Part 1: lists and tables                                                                          *)

Lemma upd_length {A} (i : nat) (x : A) l : length (upd i x l) = length l.
Proof. revert i; induction l as [|y l IH]; intros [|i]; cbn [upd length]; auto. Qed.

Lemma nth_upd_same {A} (i : nat) (x d : A) l : i < length l -> nth i (upd i x l) d = x.
Proof.
  revert i; induction l as [|y l IH]; intros [|i] H; cbn [upd nth length] in *; try lia; auto.
  apply IH; lia.
Qed.

Lemma nth_upd_other {A} (i j : nat) (x d : A) l : i <> j -> nth j (upd i x l) d = nth j l d.
Proof.
  revert i j; induction l as [|y l IH]; intros [|i] [|j] H; cbn [upd nth]; auto; try congruence.
Qed.

Lemma nth_error_upd_same {A} (i : nat) (x : A) l : i < length l -> nth_error (upd i x l) i = Some x.
Proof.
  revert i; induction l as [|y l IH]; intros [|i] H; cbn [upd nth_error length] in *; try lia; auto.
  apply IH; lia.
Qed.

Lemma nth_error_upd_other {A} (i j : nat) (x : A) l : i <> j -> nth_error (upd i x l) j = nth_error l j.
Proof.
  revert i j; induction l as [|y l IH]; intros [|i] [|j] H; cbn [upd nth_error]; auto; try congruence.
Qed.

Lemma nth_snoc_default {A} (j : nat) (d : A) l : nth j (l ++ [d]) d = nth j l d.
Proof.
  revert j; induction l as [|y l IH]; intros [|j]; cbn [app nth]; auto.
  destruct j; reflexivity.
Qed.

Lemma nth_error_snoc_lt {A} (j : nat) (d : A) l : j < length l -> nth_error (l ++ [d]) j = nth_error l j.
Proof. intros H. apply nth_error_app1; exact H. Qed.

Lemma nth_error_snoc_eq {A} (d : A) l : nth_error (l ++ [d]) (length l) = Some d.
Proof. rewrite nth_error_app2 by lia. rewrite Nat.sub_diag. reflexivity. Qed.

Lemma nth_error_lt {A} (l : list A) i x : nth_error l i = Some x -> i < length l.
Proof. intros H. apply nth_error_Some. congruence. Qed.

Lemma tl_find_upd_same g x t : g < length t -> tl_find g (upd g x t) = x.
Proof. intros H. unfold tl_find. apply nth_upd_same; exact H. Qed.

Lemma tl_find_upd_other g h x t : g <> h -> tl_find h (upd g x t) = tl_find h t.
Proof. intros H. unfold tl_find. apply nth_upd_other; exact H. Qed.

Lemma tl_find_snoc h t : tl_find h (t ++ [None]) = tl_find h t.
Proof. unfold tl_find. apply nth_snoc_default. Qed.

Lemma tl_find_overflow g t : length t <= g -> tl_find g t = None.
Proof. intros H. unfold tl_find. apply nth_overflow; exact H. Qed.

(* the current context held by a table entry *)
Definition tbl_ctx (t : option table) : option addr :=
  match t with Some (Some a) => Some a | _ => None end.

Lemma tl_get_find g t : tl_get g t = tbl_ctx (tl_find g t).
Proof. unfold tl_get. destruct (tl_find g t) as [[a|]|]; reflexivity. Qed.

Lemma tl_initialized_find g t : tl_initialized g t = match tl_find g t with Some _ => true | None => false end.
Proof. reflexivity. Qed.

(* ================================================================================================ *)
(* Part 2: table effect of deferred functions and frames                                             *)

(* what a deferred function does to the table entry of its goroutine *)
Definition dact_tbl (x : dact) (cur : option table) : option table :=
  match x with
  | XRestore saved => Some (Some saved)
  | XDelete => match cur with Some _ => Some None | None => None end
  | XCleanup => None
  | XLoader _ _ => cur
  end.

(* ... provided it does not fault: Set needs a table, the saved context and the context of DoWithLoader exist *)
Definition dact_ok (n : nat) (x : dact) (cur : option table) : Prop :=
  match x with
  | XRestore saved => cur <> None /\ saved < n
  | XLoader a _ => a < n
  | _ => True
  end.

Fixpoint dacts_tbl (xs : list dact) (cur : option table) : option table :=
  match xs with [] => cur | x :: xs' => dacts_tbl xs' (dact_tbl x cur) end.

Fixpoint dacts_ok (n : nat) (xs : list dact) (cur : option table) : Prop :=
  match xs with [] => True | x :: xs' => dact_ok n x cur /\ dacts_ok n xs' (dact_tbl x cur) end.

(* the table entry after control has passed through the frames X *)
Fixpoint tbl_after (X : list frame) (cur : option table) : option table :=
  match X with
  | [] => cur
  | KDefer xs :: X' => tbl_after X' (dacts_tbl xs cur)
  | KEnd _ :: X' => tbl_after X' None
  | KStart cfo :: X' => tbl_after X' (Some cfo)
  | _ :: X' => tbl_after X' cur
  end.

(* the frames X are consistent with the table entry `cur` (n = number of contexts in the heap):
   a body runs with its lexical context current; deferred functions do not fault; a plain goroutine ends
   without a table *)
Fixpoint frames_in (n : nat) (cur : option table) (X : list frame) : Prop :=
  match X with
  | [] => True
  | KSeq env _ :: X' => tbl_ctx cur = hd_error env /\ Forall (fun a => a < n) env /\ frames_in n cur X'
  | KTry :: X' => frames_in n cur X'
  | KDefer xs :: X' => dacts_ok n xs cur /\ frames_in n (dacts_tbl xs cur) X'
  | KStart _ :: _ => False
  | KEnd cl :: X' => (cl = false -> cur = None) /\ frames_in n None X'
  end.

(* a whole stack: consistent, and no table is left when it has been left *)
Definition frames_ok (n : nat) (cur : option table) (K : list frame) : Prop :=
  frames_in n cur K /\ tbl_after K cur = None.

(* a goroutine that has not started yet has its prologue on top *)
Definition gstack_ok (n : nat) (cur : option table) (K : list frame) : Prop :=
  match K with
  | KStart cfo :: K' => match cfo with Some a => a < n | None => True end /\ frames_ok n (Some cfo) K'
  | _ => frames_ok n cur K
  end.

Definition is_inner (f : frame) : bool :=
  match f with KSeq _ _ | KTry | KDefer _ => true | _ => false end.
Definition inner (X : list frame) : Prop := forallb is_inner X = true.

Lemma frames_in_app n X K : forall cur,
  frames_in n cur (X ++ K) <-> frames_in n cur X /\ frames_in n (tbl_after X cur) K.
Proof.
  induction X as [|f X IH]; intros cur; cbn [app frames_in tbl_after].
  - tauto.
  - destruct f as [env ps|xs| |cfo|cl]; cbn [frames_in tbl_after]; rewrite ?IH; tauto.
Qed.

Lemma tbl_after_app X K : forall cur, tbl_after (X ++ K) cur = tbl_after K (tbl_after X cur).
Proof.
  induction X as [|f X IH]; intros cur; cbn [app tbl_after]; auto.
  destruct f; cbn [tbl_after]; apply IH.
Qed.

Lemma frames_ok_app n X K cur :
  frames_ok n cur (X ++ K) <-> frames_in n cur X /\ frames_ok n (tbl_after X cur) K.
Proof. unfold frames_ok. rewrite frames_in_app, tbl_after_app. tauto. Qed.

Lemma dacts_ok_mono n n' xs : n <= n' -> forall cur, dacts_ok n xs cur -> dacts_ok n' xs cur.
Proof.
  intros Hn. induction xs as [|x xs IH]; intros cur; cbn [dacts_ok]; auto.
  intros [H1 H2]. split; [|apply IH; exact H2].
  destruct x; cbn [dact_ok] in *; auto; try lia. destruct H1; split; auto; lia.
Qed.

Lemma Forall_lt_mono n n' (l : list nat) : n <= n' -> Forall (fun a => a < n) l -> Forall (fun a => a < n') l.
Proof. intros Hn H. eapply Forall_impl; [|exact H]. cbn. intros; lia. Qed.

Lemma frames_in_mono n n' X : n <= n' -> forall cur, frames_in n cur X -> frames_in n' cur X.
Proof.
  intros Hn. induction X as [|f X IH]; intros cur; cbn [frames_in]; auto.
  destruct f as [env ps|xs| |cfo|cl]; cbn [frames_in]; auto.
  - intros (H1 & H2 & H3). split; [exact H1|]. split; [eapply Forall_lt_mono; eauto|apply IH; exact H3].
  - intros (H1 & H2). split; [eapply dacts_ok_mono; eauto|apply IH; exact H2].
  - intros (H1 & H2). split; [exact H1|apply IH; exact H2].
Qed.

Lemma frames_ok_mono n n' K cur : n <= n' -> frames_ok n cur K -> frames_ok n' cur K.
Proof. intros Hn [H1 H2]. split; [eapply frames_in_mono; eauto|exact H2]. Qed.

Lemma frames_ok_gstack n cur K : frames_ok n cur K -> gstack_ok n cur K.
Proof.
  intros H. destruct K as [|f K]; [exact H|]. destruct f; try exact H.
  destruct H as [H _]. cbn [frames_in] in H. contradiction.
Qed.

Lemma gstack_ok_mono n n' K cur : n <= n' -> gstack_ok n cur K -> gstack_ok n' cur K.
Proof.
  intros Hn H. destruct K as [|f K]; [eapply frames_ok_mono; eauto|].
  destruct f; try (eapply frames_ok_mono; eauto).
  cbn [gstack_ok] in *. destruct H as [H1 H2]. split; [destruct cf; auto; lia|eapply frames_ok_mono; eauto].
Qed.

(* settle and unwind only drop bodies and recover points: the table entry is not concerned *)
Lemma settle_in n : forall K cur, frames_in n cur K -> frames_in n cur (settle K).
Proof.
  induction K as [|f K IH]; intros cur H; cbn [settle]; [exact H|].
  destruct f as [env ps|xs| |cfo|cl]; try exact H.
  - destruct ps; [|exact H]. cbn [frames_in] in H. apply IH. tauto.
  - cbn [frames_in] in H. apply IH. exact H.
Qed.

Lemma settle_after : forall K cur, tbl_after (settle K) cur = tbl_after K cur.
Proof.
  induction K as [|f K IH]; intros cur; cbn [settle]; [reflexivity|].
  destruct f as [env ps|xs| |cfo|cl]; try reflexivity.
  - destruct ps; [|reflexivity]. cbn [tbl_after]. apply IH.
  - cbn [tbl_after]. apply IH.
Qed.

Lemma unwind_in n : forall K cur, frames_in n cur K -> frames_in n cur (snd (unwind K)).
Proof.
  induction K as [|f K IH]; intros cur H; cbn [unwind]; [exact H|].
  destruct f as [env ps|xs| |cfo|cl]; cbn [snd]; try exact H.
  - cbn [frames_in] in H. apply IH. tauto.
  - cbn [frames_in] in H. apply settle_in. exact H.
  - cbn [frames_in] in H. contradiction.
Qed.

Lemma unwind_after n : forall K cur, frames_in n cur K -> tbl_after (snd (unwind K)) cur = tbl_after K cur.
Proof.
  induction K as [|f K IH]; intros cur H; cbn [unwind]; [reflexivity|].
  destruct f as [env ps|xs| |cfo|cl]; cbn [snd]; try reflexivity.
  - cbn [frames_in tbl_after] in *. apply IH. tauto.
  - cbn [tbl_after]. apply settle_after.
  - cbn [frames_in] in H. contradiction.
Qed.

Lemma resume_ok n b K cur : frames_ok n cur K -> frames_ok n cur (snd (resume b K)).
Proof.
  intros [H1 H2]. unfold resume. destruct b; cbn [snd].
  - split; [apply unwind_in; exact H1|]. erewrite unwind_after; eauto.
  - split; [apply settle_in; exact H1|]. rewrite settle_after. exact H2.
Qed.

(* runtime.Goexit makes the recover points of the goroutine inert (`notry`): the table entry is not concerned *)
Lemma notry_in n : forall K cur, frames_in n cur K -> frames_in n cur (notry K).
Proof.
  induction K as [|f K IH]; intros cur H; cbn [notry]; [exact H|].
  destruct f as [env ps|xs| |cfo|cl]; cbn [frames_in] in *.
  - destruct H as (H1 & H2 & H3). splits; auto.
  - destruct H as (H1 & H2). split; auto.
  - apply IH. exact H.
  - contradiction.
  - destruct H as (H1 & H2). split; auto.
Qed.

Lemma notry_after : forall K cur, tbl_after (notry K) cur = tbl_after K cur.
Proof.
  induction K as [|f K IH]; intros cur; cbn [notry]; [reflexivity|].
  destruct f as [env ps|xs| |cfo|cl]; cbn [tbl_after]; apply IH.
Qed.

Lemma notry_ok n K cur : frames_ok n cur K -> frames_ok n cur (notry K).
Proof. intros [H1 H2]. split; [apply notry_in; exact H1|rewrite notry_after; exact H2]. Qed.

Lemma exit_stack_ok n p K cur : frames_ok n cur K -> frames_ok n cur (exit_stack p K).
Proof. unfold exit_stack. destruct (is_goexit p); [apply notry_ok|auto]. Qed.

Lemma notry_app X Y : notry (X ++ Y) = notry X ++ notry Y.
Proof.
  induction X as [|f X IH]; cbn [app notry]; [reflexivity|].
  destruct f; cbn [app]; rewrite ?IH; reflexivity.
Qed.

Lemma notry_idem K : notry (notry K) = notry K.
Proof.
  induction K as [|f K IH]; cbn [notry]; [reflexivity|].
  destruct f; cbn [notry]; rewrite ?IH; auto.
Qed.

Lemma notry_no_try : forall K, ~ In KTry (notry K).
Proof.
  induction K as [|f K IH]; cbn [notry]; [intros []|].
  destruct f; try (intros [H|H]; [discriminate|exact (IH H)]). exact IH.
Qed.

(* where an unwinding stops when the stack holds no recover point: at a deferred function (still unwinding), at the
   goroutine epilogue, or at the end of the stack - never in normal mode in front of a statement *)
Definition exit_stop (r : bool * list frame) : Prop :=
  match snd r with
  | [] => fst r = true
  | KDefer _ :: _ => fst r = true
  | KEnd _ :: _ => fst r = false
  | _ => False
  end.

Lemma unwind_no_try : forall K, ~ In KTry K -> exit_stop (unwind K) /\ ~ In KTry (snd (unwind K)).
Proof.
  induction K as [|f K IH]; intros Hn; cbn [unwind].
  - split; [reflexivity|exact Hn].
  - destruct f as [env ps|xs| |cfo|cl]; cbn [exit_stop fst snd].
    + apply IH. intros H. apply Hn. right. exact H.
    + split; [reflexivity|exact Hn].
    + exfalso. apply Hn. left. reflexivity.
    + apply IH. intros H. apply Hn. right. exact H.
    + split; [reflexivity|exact Hn].
Qed.

(* ---- the deferred functions really have the effect `dact_tbl` ---------------------------------- *)

(* shared states that differ only in the table entry of g, and possibly in more contexts/loaders *)
Record sh_step (g : gid) (s s' : shared) : Prop := {
  ss_len : length (tls s') = length (tls s);
  ss_other : forall h, h <> g -> tl_find h (tls s') = tl_find h (tls s);
  ss_cheap : length (cheap s) <= length (cheap s')
}.

Lemma sh_step_refl g s : sh_step g s s.
Proof. split; auto. Qed.

Lemma sh_step_trans g s1 s2 s3 : sh_step g s1 s2 -> sh_step g s2 s3 -> sh_step g s1 s3.
Proof.
  intros [A1 A2 A3] [B1 B2 B3]. split; [congruence| |lia].
  intros h Hh. rewrite B2, A2; auto.
Qed.

Lemma sh_step_tls g s t :
  length t = length (tls s) -> (forall h, h <> g -> tl_find h t = tl_find h (tls s)) -> sh_step g s (with_tls t s).
Proof. intros H1 H2. split; cbn [with_tls tls cheap]; auto. Qed.

Lemma sh_step_upd g s x : sh_step g s (with_tls (upd g x (tls s)) s).
Proof. apply sh_step_tls; [apply upd_length|]. intros h Hh. apply tl_find_upd_other; auto. Qed.

Local Hint Resolve sh_step_refl sh_step_upd : core.

Lemma run_dact_spec g x s :
  g < length (tls s) -> dact_ok (length (cheap s)) x (tl_find g (tls s)) ->
  snd (run_dact g x s) = false /\
  tl_find g (tls (fst (run_dact g x s))) = dact_tbl x (tl_find g (tls s)) /\
  sh_step g s (fst (run_dact g x s)) /\ length (cheap (fst (run_dact g x s))) = length (cheap s).
Proof.
  intros Hg Hok. destruct x as [saved| | |a l]; cbn [run_dact dact_tbl dact_ok] in *.
  - unfold tl_set. destruct (tl_find g (tls s)) as [tb|] eqn:E; [|destruct Hok; congruence].
    cbn [fst snd with_tls tls cheap]. rewrite tl_find_upd_same by exact Hg.
    splits; auto.
  - cbn [fst snd with_tls tls cheap]. unfold tl_delete.
    destruct (tl_find g (tls s)) as [tb|] eqn:E.
    + rewrite tl_find_upd_same by exact Hg. splits; auto.
    + rewrite E. splits; auto. apply sh_step_tls; auto.
  - cbn [fst snd with_tls tls cheap]. unfold tl_cleanup. rewrite tl_find_upd_same by exact Hg.
    splits; auto.
  - destruct (nth_error (cheap s) a) as [c|] eqn:E.
    + cbn [fst snd with_cheap tls cheap]. splits; auto.
      * split; cbn [with_cheap tls cheap]; auto. rewrite upd_length. lia.
      * apply upd_length.
    + apply nth_error_None in E. lia.
Qed.

Lemma run_dacts_spec g : forall xs s,
  g < length (tls s) -> dacts_ok (length (cheap s)) xs (tl_find g (tls s)) ->
  snd (run_dacts g xs s) = [] /\
  tl_find g (tls (fst (run_dacts g xs s))) = dacts_tbl xs (tl_find g (tls s)) /\
  sh_step g s (fst (run_dacts g xs s)) /\ length (cheap (fst (run_dacts g xs s))) = length (cheap s).
Proof.
  induction xs as [|x xs IH]; intros s Hg Hok; cbn [run_dacts dacts_tbl dacts_ok] in *.
  - cbn [fst snd]. splits; auto.
  - destruct Hok as [Hx Hxs].
    destruct (run_dact_spec g x s Hg Hx) as (P1 & P2 & P3 & P4).
    destruct (run_dact g x s) as [s1 p] eqn:E1. cbn [fst snd] in *. subst p.
    assert (Hg1 : g < length (tls s1)) by (rewrite (ss_len _ _ _ P3); exact Hg).
    rewrite <- P2, <- P4 in Hxs.
    destruct (IH s1 Hg1 Hxs) as (Q1 & Q2 & Q3 & Q4).
    destruct (run_dacts g xs s1) as [s2 evs] eqn:E2. cbn [fst snd] in *. subst evs.
    cbn [app]. splits; auto.
    + rewrite Q2, P2. reflexivity.
    + eapply sh_step_trans; eauto.
    + lia.
Qed.

(* ---- px.DoWithContext up to the call of the actor ---------------------------------------------- *)

Lemma dwc_enter_spec g a t :
  g < length t ->
  let '(t', x, fine) := dwc_enter g a t in
  fine = true /\ length t' = length t /\ tl_find g t' = Some (Some a) /\
  (forall h, h <> g -> tl_find h t' = tl_find h t) /\
  (forall cur, cur <> None -> dact_tbl x cur = tl_find g t) /\
  (forall n cur, cur <> None -> (forall saved, tbl_ctx (tl_find g t) = Some saved -> saved < n) -> dact_ok n x cur).
Proof.
  intros Hg. unfold dwc_enter. rewrite tl_get_find, tl_initialized_find.
  destruct (tl_find g t) as [[saved|]|] eqn:E; cbn [tbl_ctx].
  - unfold tl_set. rewrite E. rewrite tl_find_upd_same by exact Hg. rewrite upd_length.
    cbv beta iota zeta. splits; auto; try (intros; exact I).
    + intros h Hh. apply tl_find_upd_other; auto.
    + cbn [dact_ok]. auto.
  - unfold tl_set. rewrite E. rewrite tl_find_upd_same by exact Hg. rewrite upd_length.
    cbv beta iota zeta. splits; auto; try (intros; exact I).
    + intros h Hh. apply tl_find_upd_other; auto.
    + intros cur Hc. cbn [dact_tbl]. destruct cur; [reflexivity|congruence].
  - unfold tl_set, tl_init. rewrite tl_find_upd_same by exact Hg.
    rewrite tl_find_upd_same by (rewrite upd_length; exact Hg). rewrite !upd_length.
    cbv beta iota zeta. splits; auto; try (intros; exact I).
    intros h Hh. rewrite !tl_find_upd_other by auto. reflexivity.
Qed.

(* ================================================================================================ *)
(* Part 3: one statement, one step, all schedules                                                    *)

(* what may appear in a trace: an observation sees its lexical context as the current one (or neither exists);
   goroutine-local storage is never found missing *)
Definition ev_ok (e : event) : Prop :=
  match e with
  | EObs _ cur lex => cur = option_map lo_ctx lex
  | EPanic PNoTable => False
  | _ => True
  end.

(* the result of a statement of goroutine g executed in state s *)
Record res_ok (g : gid) (s : shared) (r : sres) : Prop := {
  ro_sh : sh_step g s (r_sh r);
  ro_push : frames_in (length (cheap (r_sh r))) (tl_find g (tls (r_sh r))) (r_push r);
  ro_after : tbl_after (r_push r) (tl_find g (tls (r_sh r))) = tl_find g (tls s);
  ro_inner : inner (r_push r);
  ro_spawn : forall fs, r_spawn r = Some fs -> gstack_ok (length (cheap (r_sh r))) None fs;
  ro_events : Forall ev_ok (r_events r)
}.

(* states with the same goroutine-local storage *)
Definition same_tls (s s' : shared) : Prop := tls s' = tls s /\ length (cheap s) <= length (cheap s').

Lemma same_tls_refl s : same_tls s s.
Proof. split; auto. Qed.

Lemma same_tls_trans s1 s2 s3 : same_tls s1 s2 -> same_tls s2 s3 -> same_tls s1 s3.
Proof. intros [A1 A2] [B1 B2]. split; [congruence|lia]. Qed.

Lemma same_tls_put a c s : same_tls s (put_ctx a c s).
Proof. split; cbn [put_ctx with_cheap tls cheap]; auto. rewrite upd_length. lia. Qed.

Lemma same_tls_lheap lh s : same_tls s (with_lheap lh s).
Proof. split; cbn [with_lheap tls cheap]; auto. Qed.

Lemma same_tls_alloc c s : same_tls s (snd (alloc_ctx c s)).
Proof. split; cbn [alloc_ctx snd with_cheap tls cheap]; auto. rewrite app_length. lia. Qed.

Lemma same_tls_step g s s' : same_tls s s' -> sh_step g s s'.
Proof. intros [A B]. split; auto; rewrite A; auto. Qed.

Local Hint Resolve same_tls_refl same_tls_put same_tls_lheap same_tls_alloc : core.

Lemma ev_ok_panic c : c <> PNoTable -> ev_ok (EPanic c).
Proof. intros H. destruct c; cbn [ev_ok]; auto. Qed.

Lemma res_ok_raise g s0 s c : same_tls s0 s -> c <> PNoTable -> res_ok g s0 (raise s c).
Proof.
  intros Hs Hc. split; cbn [raise r_sh r_push r_spawn r_events].
  - apply same_tls_step; exact Hs.
  - exact I.
  - cbn [tbl_after]. destruct Hs as [-> _]. reflexivity.
  - reflexivity.
  - intros fs H; discriminate.
  - constructor; [apply ev_ok_panic; exact Hc|constructor].
Qed.

Lemma res_ok_done g s0 s : same_tls s0 s -> res_ok g s0 (ok s).
Proof.
  intros Hs. split; cbn [ok r_sh r_push r_spawn r_events].
  - apply same_tls_step; exact Hs.
  - exact I.
  - cbn [tbl_after]. destruct Hs as [-> _]. reflexivity.
  - reflexivity.
  - intros fs H; discriminate.
  - constructor.
Qed.

(* entering a scope that leaves the table alone (Try, DoWithLoader) *)
Lemma res_ok_enter_same g s0 s X :
  same_tls s0 s -> inner X ->
  frames_in (length (cheap s)) (tl_find g (tls s0)) X -> tbl_after X (tl_find g (tls s0)) = tl_find g (tls s0) ->
  res_ok g s0 (enter s X).
Proof.
  intros Hs Hi Hf Ha. pose proof Hs as [Et _]. split; cbn [enter r_sh r_push r_spawn r_events]; rewrite ?Et; auto.
  - apply same_tls_step; exact Hs.
  - intros fs H; discriminate.
Qed.

Lemma res_ok_spawn g s0 s fs :
  same_tls s0 s -> gstack_ok (length (cheap s)) None fs -> res_ok g s0 (spawn s fs).
Proof.
  intros Hs Hf. pose proof Hs as [Et _]. split; cbn [spawn r_sh r_push r_spawn r_events]; rewrite ?Et; auto.
  - apply same_tls_step; exact Hs.
  - exact I.
  - reflexivity.
  - intros fs' H. inversion H; subst. exact Hf.
Qed.

Lemma res_ok_with_lex g env s f :
  (forall a c rest, env = a :: rest -> nth_error (cheap s) a = Some c -> res_ok g s (f a c)) ->
  res_ok g s (with_lex env s f).
Proof.
  intros H. unfold with_lex. destruct env as [|a rest]; [apply res_ok_raise; [auto|discriminate]|].
  destruct (nth_error (cheap s) a) as [c|] eqn:E; [eapply H; eauto|apply res_ok_raise; [auto|discriminate]].
Qed.

Lemma hd_lt n (env : list addr) saved :
  Forall (fun a => a < n) env -> hd_error env = Some saved -> saved < n.
Proof. intros HF H. destruct env as [|a rest]; [discriminate|]. inversion H; subst. inversion HF; auto. Qed.

(* the stack of a forked goroutine *)
Lemma child_stack_ok n fa body : fa < n -> gstack_ok n None [KStart (Some fa); KSeq [fa] body; KEnd true].
Proof.
  intros H. cbn [gstack_ok]. split; [exact H|]. split; cbn [frames_in tbl_after tbl_ctx hd_error]; auto.
  splits; auto. discriminate.
Qed.

Lemma tlgo_stack_ok n body : gstack_ok n None [KStart None; KSeq [] body; KEnd true].
Proof.
  cbn [gstack_ok]. split; [exact I|]. split; cbn [frames_in tbl_after tbl_ctx hd_error]; auto.
  splits; auto. discriminate.
Qed.

(* px.DoWithContext(a, body), called in state s; s0 is the state before the statement *)
Lemma res_ok_dwc g a env body s0 s :
  same_tls s0 s -> g < length (tls s0) -> a < length (cheap s) ->
  tbl_ctx (tl_find g (tls s0)) = hd_error env -> Forall (fun a => a < length (cheap s0)) env ->
  res_ok g s0 (do_with_context g a env body s).
Proof.
  intros Hs Hg Ha Hcur Henv. pose proof Hs as [Et Hc]. unfold do_with_context.
  assert (Hg' : g < length (tls s)) by (rewrite Et; exact Hg).
  pose proof (dwc_enter_spec g a (tls s) Hg') as Sp.
  destruct (dwc_enter g a (tls s)) as [[t x] fine]. destruct Sp as (F & L & Fg & Fo & Dt & Dok). subst fine.
  cbv iota. rewrite Et in *.
  split; cbn [enter r_sh r_push r_spawn r_events with_tls tls cheap].
  - split; cbn [with_tls tls cheap]; auto.
  - rewrite Fg. cbn [frames_in tbl_ctx hd_error dacts_ok]. splits; auto.
    + constructor; [exact Ha|]. eapply Forall_lt_mono; eauto.
    + apply Dok; [discriminate|]. intros saved Hsv. rewrite Hcur in Hsv.
      pose proof (hd_lt _ _ _ Henv Hsv). lia.
  - rewrite Fg. cbn [tbl_after dacts_tbl]. apply Dt. discriminate.
  - reflexivity.
  - intros fs H; discriminate.
  - constructor.
Qed.

Lemma fork_ctx_fst lbl c lh : snd (fork_ctx lbl c lh) = lh ++ [{| l_label := lbl; l_parent := Some (c_loader c); l_ents := [] |}].
Proof. reflexivity. Qed.

Lemma exec_stmt_ok g env p s :
  g < length (tls s) -> tbl_ctx (tl_find g (tls s)) = hd_error env -> Forall (fun a => a < length (cheap s)) env ->
  res_ok g s (exec_stmt g env p s).
Proof.
  intros Hg Hcur Henv.
  destruct p as [lbl try body|lbl ce body|lbl le body|lbl body|lbl body|body|body|k v|k|l| |lbl le|n v|lbl| | ];
    cbn [exec_stmt].
  - (* PDo *)
    unfold alloc_ctx at 1. cbv beta iota zeta. cbn [with_cheap tls cheap lheap].
    set (root := {| c_label := unknown_label; c_loader := 0; c_stack := []; c_vars := [] |}).
    pose proof (dwc_enter_spec g (length (cheap s)) (tls s) Hg) as Sp1.
    destruct (dwc_enter g (length (cheap s)) (tls s)) as [[t1 x1] fine1].
    destruct Sp1 as (F1 & L1 & Fg1 & Fo1 & Dt1 & Dok1). subst fine1. cbn [negb].
    destruct (fork_ctx lbl root (lheap s)) as [fc lh].
    unfold alloc_ctx. cbv beta iota zeta. cbn [with_cheap with_tls with_lheap tls cheap lheap].
    assert (Hg1 : g < length t1) by (rewrite L1; exact Hg).
    pose proof (dwc_enter_spec g (length (cheap s ++ [root])) t1 Hg1) as Sp2.
    destruct (dwc_enter g (length (cheap s ++ [root])) t1) as [[t2 x2] fine2].
    destruct Sp2 as (F2 & L2 & Fg2 & Fo2 & Dt2 & Dok2). subst fine2. cbn [negb].
    split; cbn [enter r_sh r_push r_spawn r_events with_cheap with_tls with_lheap tls cheap lheap].
    + split; cbn [with_cheap with_tls with_lheap tls cheap lheap].
      * congruence.
      * intros h Hh. rewrite Fo2, Fo1; auto.
      * rewrite !app_length. lia.
    + rewrite Fg2. rewrite !app_length. cbn [length].
      cbn [app frames_in tbl_ctx hd_error dacts_ok dacts_tbl]. splits; auto.
      * constructor; [lia|]. eapply Forall_lt_mono; [|exact Henv]. lia.
      * apply Dok2; [discriminate|]. rewrite Fg1. cbn [tbl_ctx]. intros saved Hsv. inversion Hsv; subst. lia.
      * rewrite Dt2 by discriminate. rewrite Fg1. apply Dok1; [discriminate|].
        intros saved Hsv. rewrite Hcur in Hsv. pose proof (hd_lt _ _ _ Henv Hsv). lia.
      * destruct try; cbn [frames_in]; exact I.
    + rewrite Fg2. cbn [app tbl_after dacts_tbl].
      rewrite Dt2 by discriminate. rewrite Fg1. rewrite Dt1 by discriminate.
      destruct try; reflexivity.
    + destruct try; reflexivity.
    + intros fs H; discriminate.
    + constructor.
  - (* PDoCtx *)
    destruct ce as [| |k].
    + apply res_ok_with_lex. intros a c rest -> Ea.
      destruct (fork_ctx lbl c (lheap s)) as [fc lh].
      unfold alloc_ctx. cbv beta iota zeta.
      apply res_ok_dwc; auto.
      * split; cbn [with_cheap with_lheap tls cheap]; auto. rewrite app_length. lia.
      * cbn [with_cheap with_lheap tls cheap]. rewrite app_length. cbn [length]. lia.
    + destruct (new_loader lbl 0 (lheap s)) as [l lh].
      unfold alloc_ctx. cbv beta iota zeta.
      apply res_ok_dwc; auto.
      * split; cbn [with_cheap with_lheap tls cheap]; auto. rewrite app_length. lia.
      * cbn [with_cheap with_lheap tls cheap]. rewrite app_length. cbn [length]. lia.
    + destruct (nth_error env k) as [a|] eqn:Ek; [|apply res_ok_raise; [auto|discriminate]].
      apply res_ok_dwc; auto.
      apply nth_error_In in Ek. rewrite Forall_forall in Henv. apply Henv. exact Ek.
  - (* PDoLoader *)
    apply res_ok_with_lex. intros a c rest -> Ea.
    destruct (eval_lexp lbl le c (lheap s)) as [l lh].
    apply res_ok_enter_same.
    + eapply same_tls_trans; [apply same_tls_lheap|apply same_tls_put].
    + reflexivity.
    + cbn [frames_in dacts_ok dact_ok put_ctx with_cheap with_lheap cheap]. rewrite upd_length.
      splits; auto. inversion Henv; auto.
    + reflexivity.
  - (* PFork *)
    apply res_ok_with_lex. intros a c rest -> Ea.
    destruct (fork_ctx lbl c (lheap s)) as [fc lh].
    unfold alloc_ctx. cbv beta iota zeta.
    apply res_ok_spawn.
    + split; cbn [with_cheap with_lheap tls cheap]; auto. rewrite app_length. lia.
    + apply child_stack_ok. cbn [with_cheap with_lheap tls cheap]. rewrite app_length. cbn [length]. lia.
  - (* PGo *)
    destruct (tl_get g (tls s)) as [a|]; [|apply res_ok_raise; [auto|discriminate]].
    destruct (nth_error (cheap s) a) as [c|]; [|apply res_ok_raise; [auto|discriminate]].
    destruct (fork_ctx lbl c (lheap s)) as [fc lh].
    unfold alloc_ctx. cbv beta iota zeta.
    apply res_ok_spawn.
    + split; cbn [with_cheap with_lheap tls cheap]; auto. rewrite app_length. lia.
    + apply child_stack_ok. cbn [with_cheap with_lheap tls cheap]. rewrite app_length. cbn [length]. lia.
  - (* PTlGo *)
    apply res_ok_spawn; auto. apply tlgo_stack_ok.
  - (* PTry *)
    apply res_ok_enter_same; auto.
    + reflexivity.
    + cbn [frames_in]. splits; auto.
  - (* PSet *)
    apply res_ok_with_lex. intros a c rest -> Ea. apply res_ok_done; auto.
  - (* PDel *)
    apply res_ok_with_lex. intros a c rest -> Ea. apply res_ok_done; auto.
  - (* PPush *)
    apply res_ok_with_lex. intros a c rest -> Ea. apply res_ok_done; auto.
  - (* PPop *)
    apply res_ok_with_lex. intros a c rest -> Ea.
    destruct (c_stack c); [apply res_ok_raise; [auto|discriminate]|apply res_ok_done; auto].
  - (* PSetLoader *)
    apply res_ok_with_lex. intros a c rest -> Ea.
    destruct (eval_lexp lbl le c (lheap s)) as [l lh].
    apply res_ok_done. eapply same_tls_trans; [apply same_tls_lheap|apply same_tls_put].
  - (* PDefine *)
    apply res_ok_with_lex. intros a c rest -> Ea.
    destruct (nth_error (lheap s) (c_loader c)) as [ld|]; [|apply res_ok_raise; [auto|discriminate]].
    destruct (set_entry n v ld) as [ld'|]; [apply res_ok_done; auto|apply res_ok_raise; [auto|discriminate]].
  - (* PObserve *)
    split; cbn [r_sh r_push r_spawn r_events]; auto.
    + exact I.
    + reflexivity.
    + intros fs H; discriminate.
    + constructor; [|constructor]. unfold observe. cbn [ev_ok]. rewrite tl_get_find, Hcur.
      destruct env as [|a rest]; cbn [hd_error]; [reflexivity|].
      destruct (nth_error (cheap s) a) as [c|] eqn:Ea; [reflexivity|].
      apply nth_error_None in Ea. inversion Henv; subst. lia.
  - (* PPanic *)
    apply res_ok_raise; [auto|discriminate].
  - (* PGoexit *)
    apply res_ok_raise; [auto|discriminate].
Qed.

(* ---- one step of goroutine g --------------------------------------------------------------------- *)

Lemma resume_frames n b K cur pn K' : frames_ok n cur K -> resume b K = (pn, K') -> frames_ok n cur K'.
Proof. intros H E. pose proof (resume_ok n b K cur H) as Hr. rewrite E in Hr. exact Hr. Qed.

(* the continuation of a frame on top of the stack *)
Definition ktail (f : frame) (K0 : list frame) : list frame :=
  match f with KSeq env (_ :: ps) => KSeq env ps :: K0 | _ => K0 end.

Lemma step_g_ok g s st :
  g < length (tls s) ->
  gstack_ok (length (cheap s)) (tl_find g (tls s)) (g_stack st) -> Forall ev_ok (g_trace st) ->
  let '(s1, st1, sp) := step_g g s st in
  sh_step g s s1 /\
  gstack_ok (length (cheap s1)) (tl_find g (tls s1)) (g_stack st1) /\ Forall ev_ok (g_trace st1) /\
  (forall ch, sp = Some ch -> gstack_ok (length (cheap s1)) None (g_stack ch) /\ g_trace ch = []) /\
  (* the shape of the new stack: the frames X1 pushed by the step, above the continuation of the old top frame *)
  (forall f K0, g_stack st = f :: K0 -> is_inner f = true ->
     exists b X1 K1, (g_panic st1, g_stack st1) = resume b (X1 ++ K1) /\ inner X1 /\
                  tbl_after X1 (tl_find g (tls s1)) = tbl_after [f] (tl_find g (tls s)) /\
                  (* the frames below: as they were, or without their recover points (runtime.Goexit) *)
                  (K1 = ktail f K0 \/ K1 = notry (ktail f K0))).
Proof.
  intros Hg Hst Htr. unfold step_g.
  destruct (g_stack st) as [|f K] eqn:EK.
  - (* ended *) splits; auto; [rewrite EK; exact Hst|intros ch H; discriminate|intros f K0 H; discriminate].
  - destruct f as [env ps|xs| |cfo|cl].
    + destruct ps as [|p ps].
      * (* a finished body on top (not reachable) *)
        cbn [gstack_ok] in Hst. change (KSeq env [] :: K) with ([KSeq env []] ++ K) in Hst.
        apply frames_ok_app in Hst. destruct Hst as [_ HK]. cbn [tbl_after] in HK.
        destruct (resume (g_panic st) K) as [pn K'] eqn:ER.
        splits; auto; [|intros ch H; discriminate|].
        -- cbn [g_stack]. apply frames_ok_gstack. eapply resume_frames; eauto.
        -- intros f K0 E _. inversion E; subst f K0. exists (g_panic st), [], K. cbn [g_panic g_stack app ktail tbl_after].
           splits; auto. reflexivity.
      * (* a statement *)
        cbn [gstack_ok] in Hst. change (KSeq env (p :: ps) :: K) with ([KSeq env (p :: ps)] ++ K) in Hst.
        apply frames_ok_app in Hst. destruct Hst as [Hin HK]. cbn [tbl_after frames_in] in Hin, HK.
        destruct Hin as (Hcur & Henv & _).
        pose proof (exec_stmt_ok g env p s Hg Hcur Henv) as R.
        set (r := exec_stmt g env p s) in *.
        destruct (resume (r_panic r) (r_push r ++ KSeq env ps :: exit_stack p K)) as [pn K'] eqn:ER.
        destruct R as [Rsh Rpush Rafter Rinner Rspawn Rev].
        assert (HK1 : frames_ok (length (cheap (r_sh r))) (tl_find g (tls (r_sh r))) (r_push r ++ KSeq env ps :: exit_stack p K)).
        { apply frames_ok_app. split; [exact Rpush|]. rewrite Rafter.
          change (KSeq env ps :: exit_stack p K) with ([KSeq env ps] ++ exit_stack p K). apply frames_ok_app. cbn [tbl_after frames_in].
          split; [splits; auto; eapply Forall_lt_mono; [|exact Henv]; apply (ss_cheap _ _ _ Rsh)|].
          apply exit_stack_ok. eapply frames_ok_mono; [|exact HK]. apply (ss_cheap _ _ _ Rsh). }
        splits; auto.
        -- cbn [g_stack]. apply frames_ok_gstack. eapply resume_frames; eauto.
        -- cbn [g_trace]. apply Forall_app. split; [apply Forall_rev; exact Rev|exact Htr].
        -- intros ch Hch. destruct (r_spawn r) as [fs|] eqn:Efs; [|discriminate].
           inversion Hch; subst ch. cbn [g_stack g_trace]. split; auto.
        -- intros f K0 E _. inversion E; subst f K0. exists (r_panic r), (r_push r), (KSeq env ps :: exit_stack p K).
           cbn [g_panic g_stack ktail tbl_after]. splits; auto.
           unfold exit_stack. destruct (is_goexit p); [right; reflexivity|left; reflexivity].
    + (* the deferred functions of a scope *)
      cbn [gstack_ok] in Hst. change (KDefer xs :: K) with ([KDefer xs] ++ K) in Hst.
      apply frames_ok_app in Hst. destruct Hst as [Hin HK]. cbn [tbl_after frames_in] in Hin, HK.
      destruct Hin as (Hok & _).
      pose proof (run_dacts_spec g xs s Hg Hok) as (P1 & P2 & P3 & P4).
      destruct (run_dacts g xs s) as [s1 evs]. cbn [fst snd] in *. subst evs.
      destruct (resume (g_panic st || negb true) K) as [pn K'] eqn:ER.
      splits; auto; [|intros ch H; discriminate|].
      * cbn [g_stack]. apply frames_ok_gstack. rewrite P2, P4. eapply resume_frames; eauto.
      * intros f K0 E _. inversion E; subst f K0. exists (g_panic st || negb true), [], K.
        cbn [g_panic g_stack app ktail tbl_after]. splits; auto. reflexivity.
    + (* a recover point on top (not reachable) *)
      cbn [gstack_ok] in Hst. change (KTry :: K) with ([KTry] ++ K) in Hst.
      apply frames_ok_app in Hst. destruct Hst as [_ HK]. cbn [tbl_after] in HK.
      destruct (resume (g_panic st) K) as [pn K'] eqn:ER.
      splits; auto; [|intros ch H; discriminate|].
      * cbn [g_stack]. apply frames_ok_gstack. eapply resume_frames; eauto.
      * intros f K0 E _. inversion E; subst f K0. exists (g_panic st), [], K. cbn [g_panic g_stack app ktail tbl_after].
        splits; auto. reflexivity.
    + (* the prologue of a forked goroutine *)
      cbn [gstack_ok] in Hst. destruct Hst as [Hcf HK].
      assert (Hfi : tl_find g (tl_init g (tls s)) = Some None)
        by (unfold tl_init; apply tl_find_upd_same; exact Hg).
      destruct cfo as [cf|].
      * unfold tl_set. rewrite Hfi.
        destruct (resume false K) as [pn K'] eqn:ER.
        splits; auto; [| |intros ch H; discriminate|intros f K0 E Hf; inversion E; subst f; discriminate].
        -- apply sh_step_tls; [unfold tl_init; rewrite !upd_length; reflexivity|].
           intros h Hh. unfold tl_init. rewrite !tl_find_upd_other by auto. reflexivity.
        -- cbn [g_stack with_tls tls cheap]. apply frames_ok_gstack.
           rewrite tl_find_upd_same by (unfold tl_init; rewrite upd_length; exact Hg).
           eapply resume_frames; eauto.
      * destruct (resume false K) as [pn K'] eqn:ER.
        splits; auto; try (intros ch H; discriminate); try (unfold tl_init; apply sh_step_upd);
          try (intros f K0 E Hf; inversion E; subst f; discriminate).
        cbn [g_stack with_tls tls cheap]. apply frames_ok_gstack. rewrite Hfi. eapply resume_frames; eauto.
    + (* the epilogue *)
      cbn [gstack_ok] in Hst. destruct Hst as [Hin HK]. cbn [frames_in tbl_after] in Hin, HK.
      destruct Hin as [Hcl Hin].
      splits.
      * destruct cl; [unfold tl_cleanup; apply sh_step_upd|apply sh_step_refl].
      * cbn [g_stack]. apply frames_ok_gstack. split.
        -- destruct cl; cbn [with_tls tls cheap].
           ++ unfold tl_cleanup. rewrite tl_find_upd_same by exact Hg. exact Hin.
           ++ rewrite Hcl by reflexivity. exact Hin.
        -- destruct cl; cbn [with_tls tls cheap].
           ++ unfold tl_cleanup. rewrite tl_find_upd_same by exact Hg. exact HK.
           ++ rewrite Hcl by reflexivity. exact HK.
      * cbn [g_trace]. constructor; [exact I|exact Htr].
      * intros ch H; discriminate.
      * intros f K0 E Hf; inversion E; subst f; discriminate.
Qed.

(* ---- the invariant of the machine ---------------------------------------------------------------- *)

Record Inv (c : config) : Prop := {
  inv_len : length (tls (sh c)) = length (gs c);
  inv_g : forall g st, nth_error (gs c) g = Some st ->
          gstack_ok (length (cheap (sh c))) (tl_find g (tls (sh c))) (g_stack st) /\ Forall ev_ok (g_trace st)
}.

Lemma step_inv g c : Inv c -> Inv (step g c).
Proof.
  intros [Hlen Hg]. unfold step.
  destruct (nth_error (gs c) g) as [st|] eqn:Eg; [|split; auto].
  assert (Hlt : g < length (tls (sh c))) by (rewrite Hlen; eapply nth_error_lt; eauto).
  destruct (Hg g st Eg) as [Hst Htr].
  pose proof (step_g_ok g (sh c) st Hlt Hst Htr) as S.
  destruct (step_g g (sh c) st) as [[s1 st1] sp]. destruct S as (Ssh & Sst & Str & Ssp & _).
  assert (Hothers : forall h st', h <> g -> nth_error (gs c) h = Some st' ->
            gstack_ok (length (cheap s1)) (tl_find h (tls s1)) (g_stack st') /\ Forall ev_ok (g_trace st')).
  { intros h st' Hh Eh. destruct (Hg h st' Eh) as [A B]. split; [|exact B].
    rewrite (ss_other _ _ _ Ssh) by exact Hh. eapply gstack_ok_mono; [|exact A]. apply (ss_cheap _ _ _ Ssh). }
  assert (Hupd : forall h st', nth_error (upd g st1 (gs c)) h = Some st' ->
            gstack_ok (length (cheap s1)) (tl_find h (tls s1)) (g_stack st') /\ Forall ev_ok (g_trace st')).
  { intros h st' Eh. destruct (Nat.eq_dec h g) as [->|Hne].
    - rewrite nth_error_upd_same in Eh by (rewrite <- Hlen; exact Hlt). inversion Eh; subst. auto.
    - rewrite nth_error_upd_other in Eh by auto. apply Hothers; auto. }
  destruct sp as [child|].
  - destruct (Ssp child eq_refl) as [Hch Htc].
    split; cbn [sh gs with_tls tls cheap].
    + rewrite !app_length, upd_length, (ss_len _ _ _ Ssh), Hlen. reflexivity.
    + intros h st' Eh. rewrite tl_find_snoc.
      destruct (Nat.lt_ge_cases h (length (upd g st1 (gs c)))) as [Hlt'|Hge].
      * rewrite nth_error_app1 in Eh by exact Hlt'. apply Hupd; exact Eh.
      * rewrite nth_error_app2 in Eh by exact Hge.
        destruct (h - length (upd g st1 (gs c))) as [|k] eqn:Ek; cbn [nth_error] in Eh.
        -- inversion Eh; subst st'. rewrite Htc. split; [|constructor].
           rewrite tl_find_overflow; [exact Hch|].
           rewrite upd_length in Hge. rewrite (ss_len _ _ _ Ssh), Hlen. exact Hge.
        -- destruct k; discriminate.
  - split; cbn [sh gs].
    + rewrite upd_length, (ss_len _ _ _ Ssh). exact Hlen.
    + exact Hupd.
Qed.

Lemma run_inv sched : forall c, Inv c -> Inv (run sched c).
Proof.
  induction sched as [|g sched IH]; intros c H; cbn [run fold_left]; [exact H|].
  apply IH. apply step_inv. exact H.
Qed.

Lemma tl_find_all_none {A} (l : list A) g : tl_find g (map (fun _ => None) l) = None.
Proof. unfold tl_find. revert g; induction l as [|x l IH]; intros [|g]; cbn [map nth]; auto. Qed.

Lemma init_inv roots : Inv (init_config roots).
Proof.
  split; cbn [init_config sh gs tls cheap].
  - rewrite !map_length. reflexivity.
  - intros g st Eg. rewrite nth_error_map in Eg.
    destruct (nth_error roots g) as [ps|]; [|discriminate]. cbn [option_map] in Eg. inversion Eg; subst st.
    rewrite tl_find_all_none. cbn [root_gstate g_stack g_trace]. split; [|constructor].
    apply frames_ok_gstack.
    apply (resume_ok 0 false [KSeq [] ps; KEnd false] None).
    split; cbn [frames_in tbl_after tbl_ctx hd_error]; auto.
Qed.

Theorem reachable_inv roots sched : Inv (run sched (init_config roots)).
Proof. apply run_inv. apply init_inv. Qed.

(* ================================================================================================ *)
(* Part 4: consequences of the invariant                                                             *)

(* what a step of goroutine h does to goroutine g and to its table entry *)
Lemma step_other g h c st :
  Inv c -> h <> g -> nth_error (gs c) g = Some st ->
  nth_error (gs (step h c)) g = Some st /\ tl_find g (tls (sh (step h c))) = tl_find g (tls (sh c)).
Proof.
  intros HI Hne Eg. pose proof HI as [Hlen Hg]. unfold step.
  destruct (nth_error (gs c) h) as [sth|] eqn:Eh; [|auto].
  assert (Hlt : h < length (tls (sh c))) by (rewrite Hlen; eapply nth_error_lt; eauto).
  destruct (Hg h sth Eh) as [Hst Htr].
  pose proof (step_g_ok h (sh c) sth Hlt Hst Htr) as S.
  destruct (step_g h (sh c) sth) as [[s1 st1] sp]. destruct S as (Ssh & _).
  assert (E1 : nth_error (upd h st1 (gs c)) g = Some st) by (rewrite nth_error_upd_other by auto; exact Eg).
  destruct sp as [child|]; cbn [sh gs with_tls tls].
  - rewrite tl_find_snoc. split; [|apply (ss_other _ _ _ Ssh); auto].
    rewrite nth_error_app1; [exact E1|]. eapply nth_error_lt; eauto.
  - split; [exact E1|apply (ss_other _ _ _ Ssh); auto].
Qed.

Lemma step_self g c st :
  Inv c -> nth_error (gs c) g = Some st ->
  nth_error (gs (step g c)) g = Some (snd (fst (step_g g (sh c) st))) /\
  tl_find g (tls (sh (step g c))) = tl_find g (tls (fst (fst (step_g g (sh c) st)))).
Proof.
  intros [Hlen Hg] Eg. unfold step. rewrite Eg.
  assert (Hlt : g < length (gs c)) by (eapply nth_error_lt; eauto).
  destruct (step_g g (sh c) st) as [[s1 st1] sp]. cbn [fst snd].
  destruct sp as [child|]; cbn [sh gs with_tls tls].
  - rewrite tl_find_snoc. split; [|reflexivity].
    rewrite nth_error_app1 by (rewrite upd_length; exact Hlt). apply nth_error_upd_same; exact Hlt.
  - split; [|reflexivity]. apply nth_error_upd_same; exact Hlt.
Qed.

(* write locality: a step of goroutine h leaves the table entry of every other goroutine alone *)
Lemma step_writes_own h g c : Inv c -> h <> g -> tl_find g (tls (sh (step h c))) = tl_find g (tls (sh c)).
Proof.
  intros HI Hne. destruct (nth_error (gs c) g) as [st|] eqn:Eg; [eapply step_other; eauto|].
  (* g is not a goroutine: its entry does not exist, neither before nor after *)
  pose proof (step_inv h c HI) as HI'. destruct HI as [Hlen _]. destruct HI' as [Hlen' _].
  apply nth_error_None in Eg.
  unfold step in *. destruct (nth_error (gs c) h) as [sth|] eqn:Eh; [|reflexivity].
  assert (Hh : h < length (gs c)) by (eapply nth_error_lt; eauto).
  pose proof (upd_length h (snd (fst (step_g h (sh c) sth))) (gs c)) as Hu.
  destruct (step_g h (sh c) sth) as [[s1 st1] sp]. cbn [fst snd] in Hu.
  destruct sp as [child|]; cbn [sh gs with_tls tls] in *.
  - rewrite tl_find_snoc. rewrite !app_length in Hlen'. cbn [length] in Hlen'.
    rewrite !tl_find_overflow; auto; lia.
  - rewrite !tl_find_overflow; auto; lia.
Qed.

(* current_is_established, state form *)
Lemma established_state c g st env ps K :
  Inv c -> nth_error (gs c) g = Some st -> g_stack st = KSeq env ps :: K ->
  tl_get g (tls (sh c)) = hd_error env /\ Forall (fun a => a < length (cheap (sh c))) env.
Proof.
  intros [_ Hg] Eg EK. destruct (Hg g st Eg) as [Hst _]. rewrite EK in Hst. cbn [gstack_ok] in Hst.
  destruct Hst as [Hin _]. cbn [frames_in] in Hin. destruct Hin as (H1 & H2 & _).
  rewrite tl_get_find. auto.
Qed.

(* ... and event form *)
Lemma established_event c g st l cur lex :
  Inv c -> nth_error (gs c) g = Some st -> In (EObs l cur lex) (g_trace st) -> cur = option_map lo_ctx lex.
Proof.
  intros [_ Hg] Eg Hin. destruct (Hg g st Eg) as [_ Htr]. rewrite Forall_forall in Htr.
  apply (Htr _ Hin).
Qed.

Lemma no_table_panic c g st : Inv c -> nth_error (gs c) g = Some st -> ~ In (EPanic PNoTable) (g_trace st).
Proof.
  intros [_ Hg] Eg Hin. destruct (Hg g st Eg) as [_ Htr]. rewrite Forall_forall in Htr.
  apply (Htr _ Hin).
Qed.

(* tls_released *)
Lemma released_each c g st : Inv c -> nth_error (gs c) g = Some st -> g_stack st = [] -> tl_find g (tls (sh c)) = None.
Proof.
  intros [_ Hg] Eg EK. destruct (Hg g st Eg) as [Hst _]. rewrite EK in Hst. destruct Hst as [_ H]. exact H.
Qed.

Lemma live_tables_zero t : (forall g, tl_find g t = None) -> live_tables t = 0.
Proof.
  unfold live_tables, tl_find. induction t as [|x t IH]; intros H; cbn [filter length]; auto.
  pose proof (H 0) as H0. cbn [nth] in H0. subst x. apply IH. intros g. apply (H (S g)).
Qed.

Lemma released_all c : Inv c -> finished c = true -> live_tables (tls (sh c)) = 0.
Proof.
  intros HI Hf. apply live_tables_zero. intros g.
  destruct (nth_error (gs c) g) as [st|] eqn:Eg.
  - eapply released_each; eauto. unfold finished in Hf. rewrite forallb_forall in Hf.
    pose proof (Hf st (nth_error_In _ _ Eg)) as Hs. destruct (g_stack st); [reflexivity|discriminate].
  - apply tl_find_overflow. destruct HI as [Hlen _]. rewrite Hlen. apply nth_error_None. exact Eg.
Qed.

(* ================================================================================================ *)
(* Part 5: restored_after                                                                            *)

Lemma inner_cons f X : inner (f :: X) <-> is_inner f = true /\ inner X.
Proof. unfold inner. cbn [forallb]. apply andb_true_iff. Qed.

Lemma inner_app X Y : inner (X ++ Y) <-> inner X /\ inner Y.
Proof. unfold inner. rewrite forallb_app. apply andb_true_iff. Qed.

Lemma settle_app_cases : forall X R, inner X ->
  (exists X2, settle (X ++ R) = X2 ++ R /\ X2 <> [] /\ inner X2 /\ forall cur, tbl_after X2 cur = tbl_after X cur) \/
  (settle (X ++ R) = settle R /\ forall cur, tbl_after X cur = cur).
Proof.
  induction X as [|f X IH]; intros R Hi.
  - right. split; auto.
  - apply inner_cons in Hi. destruct Hi as [Hf Hi].
    destruct f as [env ps|xs| |cfo|cl]; try discriminate.
    + destruct ps as [|p ps].
      * cbn [app settle tbl_after]. apply IH; exact Hi.
      * left. exists (KSeq env (p :: ps) :: X). splits; auto; try discriminate; try (apply inner_cons; auto).
    + left. exists (KDefer xs :: X). splits; auto; try discriminate; try (apply inner_cons; auto).
    + cbn [app settle tbl_after]. apply IH; exact Hi.
Qed.

Lemma unwind_app_cases : forall X R, inner X ->
  (exists pn X2, unwind (X ++ R) = (pn, X2 ++ R) /\ X2 <> [] /\ inner X2 /\
                 forall cur, tbl_after X2 cur = tbl_after X cur) \/
  (exists b', unwind (X ++ R) = resume b' R /\ forall cur, tbl_after X cur = cur).
Proof.
  induction X as [|f X IH]; intros R Hi.
  - right. exists true. split; auto.
  - apply inner_cons in Hi. destruct Hi as [Hf Hi].
    destruct f as [env ps|xs| |cfo|cl]; try discriminate.
    + cbn [app unwind tbl_after]. apply IH; exact Hi.
    + left. exists true, (KDefer xs :: X). splits; auto; try discriminate; try (apply inner_cons; auto).
    + cbn [app unwind tbl_after].
      destruct (settle_app_cases X R Hi) as [(X2 & E & Hn & Hi2 & Ht)|[E Ht]].
      * left. exists false, X2. rewrite E. splits; auto.
      * right. exists false. rewrite E. split; auto.
Qed.

Lemma resume_app_cases b X R : inner X ->
  (exists pn X2, resume b (X ++ R) = (pn, X2 ++ R) /\ X2 <> [] /\ inner X2 /\
                 forall cur, tbl_after X2 cur = tbl_after X cur) \/
  (exists b', resume b (X ++ R) = resume b' R /\ forall cur, tbl_after X cur = cur).
Proof.
  intros Hi. destruct b; cbn [resume].
  - apply unwind_app_cases; exact Hi.
  - destruct (settle_app_cases X R Hi) as [(X2 & E & Hn & Hi2 & Ht)|[E Ht]].
    + left. exists false, X2. rewrite E. splits; auto.
    + right. exists false. cbn [resume]. rewrite E. split; auto.
Qed.

(* goroutine g is about to execute the statement on top of S0 *)
Definition at_start (g : gid) (S0 : list frame) (c : config) : Prop :=
  exists st, nth_error (gs c) g = Some st /\ g_stack st = S0.
(* goroutine g is inside the scope whose continuation is R: the frames X of the scope lie above R *)
Definition inside (g : gid) (R : list frame) (c : config) : Prop :=
  exists st X, nth_error (gs c) g = Some st /\ g_stack st = X ++ R /\ X <> [] /\ inner X.
(* goroutine g has just left the scope: by normal return (b = false) or panicking (b = true: unwinding goes on
   to the next deferred function or recover point below) *)
Definition left_scope (g : gid) (R : list frame) (c : config) : Prop :=
  exists st b, nth_error (gs c) g = Some st /\ (g_panic st, g_stack st) = resume b R.

(* along the schedule, goroutine g stays at / inside the statement until the step that leaves it, and at that
   moment its table entry is t0.  When runtime.Goexit is called - inside the statement or by the statement itself -
   the continuation R loses its recover points (`notry R`: what is still to run of it are its deferred functions and
   the goroutine epilogue); the statement is then left to `resume true (notry R)`. *)
Fixpoint scope_run (g : gid) (S0 R : list frame) (t0 : option table) (sched : list gid) (c : config) : Prop :=
  match sched with
  | [] => True
  | h :: sched' =>
    let c1 := step h c in
    ((at_start g S0 c1 \/ inside g R c1 \/ inside g (notry R) c1) /\ scope_run g S0 R t0 sched' c1) \/
    ((left_scope g R c1 \/ left_scope g (notry R) c1) /\ tl_find g (tls (sh c1)) = t0)
  end.

(* the invariants that carry the induction *)
Definition start_ok (g : gid) (S0 : list frame) (t0 : option table) (c : config) : Prop :=
  exists st, nth_error (gs c) g = Some st /\ g_stack st = S0 /\ tl_find g (tls (sh c)) = t0.
Definition inside_ok (g : gid) (R : list frame) (t0 : option table) (c : config) : Prop :=
  exists st X, nth_error (gs c) g = Some st /\ g_stack st = X ++ R /\ X <> [] /\ inner X /\
               tbl_after X (tl_find g (tls (sh c))) = t0.

Lemma notry_inner : forall X, inner X -> inner (notry X).
Proof.
  induction X as [|f X IH]; intros Hi; cbn [notry]; [exact Hi|].
  apply inner_cons in Hi. destruct Hi as [Hf Hi].
  destruct f; try discriminate; try (apply inner_cons; split; [reflexivity|apply IH; exact Hi]).
  apply IH; exact Hi.
Qed.

(* one step of g itself, its stack being f :: K0 with the continuation of f lying X' above R *)
Lemma inside_step g R t0 c st f K0 X' :
  Inv c -> nth_error (gs c) g = Some st -> g_stack st = f :: K0 -> is_inner f = true ->
  ktail f K0 = X' ++ R -> inner X' -> tbl_after X' (tbl_after [f] (tl_find g (tls (sh c)))) = t0 ->
  (inside_ok g R t0 (step g c) \/ inside_ok g (notry R) t0 (step g c)) \/
  ((left_scope g R (step g c) \/ left_scope g (notry R) (step g c)) /\ tl_find g (tls (sh (step g c))) = t0).
Proof.
  intros HI Eg EK Hf Ekt HiX' Ht.
  pose proof HI as [Hlen Hg].
  assert (Hlt : g < length (tls (sh c))) by (rewrite Hlen; eapply nth_error_lt; eauto).
  destruct (Hg g st Eg) as [Hst Htr].
  pose proof (step_g_ok g (sh c) st Hlt Hst Htr) as S.
  destruct (step_self g c st HI Eg) as [Eg1 Et1].
  destruct (step_g g (sh c) st) as [[s1 st1] sp]. cbn [fst snd] in Eg1, Et1.
  destruct S as (_ & _ & _ & _ & Shape).
  destruct (Shape f K0 EK Hf) as (b & X1 & K1 & Er & Hi1 & Ht1 & HK1).
  (* in both cases the new stack is resume b (X1 ++ Y ++ R') with R' = R or notry R and Y as transparent as X' *)
  assert (Hcase : exists Y R', K1 = Y ++ R' /\ inner Y /\ (forall cur, tbl_after Y cur = tbl_after X' cur) /\
                               (R' = R \/ R' = notry R)).
  { destruct HK1 as [->| ->]; rewrite Ekt.
    - exists X', R. splits; auto.
    - exists (notry X'), (notry R). rewrite notry_app. splits; auto; [apply notry_inner; exact HiX'|apply notry_after]. }
  destruct Hcase as (Y & R' & -> & HiY & HtY & HR').
  rewrite app_assoc in Er.
  assert (Hi2 : inner (X1 ++ Y)) by (apply inner_app; auto).
  destruct (resume_app_cases b (X1 ++ Y) R' Hi2) as [(pn & X2 & E & Hn & HiX2 & HtX2)|(b' & E & HtX)].
  - left. assert (HIn : inside_ok g R' t0 (step g c)).
    { exists st1, X2. rewrite E in Er. inversion Er. splits; auto.
      rewrite Et1, HtX2, tbl_after_app, Ht1, HtY. exact Ht. }
    destruct HR' as [->| ->]; auto.
  - right. split.
    + assert (HL : left_scope g R' (step g c)).
      { exists st1, b'. split; [exact Eg1|]. rewrite Er. exact E. }
      destruct HR' as [->| ->]; auto.
    + rewrite Et1. rewrite <- Ht, <- HtY, <- Ht1. rewrite <- tbl_after_app. symmetry. apply HtX.
Qed.

Lemma inside_ok_step g R t0 h c :
  Inv c -> inside_ok g R t0 c ->
  (inside_ok g R t0 (step h c) \/ inside_ok g (notry R) t0 (step h c)) \/
  ((left_scope g R (step h c) \/ left_scope g (notry R) (step h c)) /\ tl_find g (tls (sh (step h c))) = t0).
Proof.
  intros HI (st & X & Eg & EK & Hn & Hi & Et).
  destruct (Nat.eq_dec h g) as [->|Hne].
  - destruct X as [|f X']; [congruence|]. apply inner_cons in Hi. destruct Hi as [Hf HiX'].
    cbn [app] in EK.
    destruct f as [env' ps'|xs'| |cfo|cl]; try discriminate.
    + destruct ps' as [|p' ps'].
      * apply (inside_step g R t0 c st (KSeq env' []) (X' ++ R) X' HI Eg EK eq_refl eq_refl HiX' Et).
      * assert (Hi' : inner (KSeq env' ps' :: X')) by (apply inner_cons; auto).
        apply (inside_step g R t0 c st (KSeq env' (p' :: ps')) (X' ++ R) (KSeq env' ps' :: X') HI Eg EK eq_refl eq_refl Hi' Et).
    + apply (inside_step g R t0 c st (KDefer xs') (X' ++ R) X' HI Eg EK eq_refl eq_refl HiX' Et).
    + apply (inside_step g R t0 c st KTry (X' ++ R) X' HI Eg EK eq_refl eq_refl HiX' Et).
  - left. left. destruct (step_other g h c st HI Hne Eg) as [E1 E2]. exists st, X. rewrite E2. splits; auto.
Qed.

Lemma scope_step g env p ps K t0 h c :
  let S0 := KSeq env (p :: ps) :: K in let R := KSeq env ps :: K in
  Inv c -> start_ok g S0 t0 c \/ inside_ok g R t0 c \/ inside_ok g (notry R) t0 c ->
  (start_ok g S0 t0 (step h c) \/ inside_ok g R t0 (step h c) \/ inside_ok g (notry R) t0 (step h c)) \/
  ((left_scope g R (step h c) \/ left_scope g (notry R) (step h c)) /\ tl_find g (tls (sh (step h c))) = t0).
Proof.
  intros S0 R HI Hc.
  destruct Hc as [(st & Eg & EK & Et)|[Hin|Hin]].
  - destruct (Nat.eq_dec h g) as [->|Hne].
    + destruct (inside_step g R t0 c st (KSeq env (p :: ps)) K [] HI Eg EK eq_refl eq_refl eq_refl Et) as [[H|H]|H]; auto.
    + left. left. destruct (step_other g h c st HI Hne Eg) as [E1 E2]. exists st. rewrite E2. auto.
  - destruct (inside_ok_step g R t0 h c HI Hin) as [[H|H]|H]; auto.
  - pose proof (inside_ok_step g (notry R) t0 h c HI Hin) as H. rewrite notry_idem in H.
    destruct H as [[H|H]|[[H|H] Ht]]; auto.
Qed.

Lemma scope_run_gen g env p ps K t0 : forall sched c,
  let S0 := KSeq env (p :: ps) :: K in let R := KSeq env ps :: K in
  Inv c -> start_ok g S0 t0 c \/ inside_ok g R t0 c \/ inside_ok g (notry R) t0 c -> scope_run g S0 R t0 sched c.
Proof.
  induction sched as [|h sched IH]; intros c S0 R HI Hc; cbn [scope_run]; [exact I|].
  destruct (scope_step g env p ps K t0 h c HI Hc) as [Hs|Hl].
  - left. split.
    + destruct Hs as [(st & Eg & EK & _)|[(st & X & Eg & EK & Hn & Hi & _)|(st & X & Eg & EK & Hn & Hi & _)]];
        [left; exists st; auto|right; left; exists st, X; auto|right; right; exists st, X; auto].
    + apply IH; [apply step_inv; exact HI|exact Hs].
  - right. exact Hl.
Qed.

(* ================================================================================================ *)
(* Part 6: goroutine_local — the machine is a machine with one private table per goroutine          *)

Lemma upd_upd {A} (i : nat) (x y : A) l : upd i y (upd i x l) = upd i y l.
Proof. revert i; induction l as [|z l IH]; intros [|i]; cbn [upd]; auto. rewrite IH. reflexivity. Qed.

Lemma upd_self {A} (i : nat) (d : A) l : upd i (nth i l d) l = l.
Proof. revert i; induction l as [|z l IH]; intros [|i]; cbn [upd nth]; auto. rewrite IH. reflexivity. Qed.

(* T' is the one-entry table that holds what T holds for goroutine g; t is the table before the step, of which
   only entry g has been overwritten *)
Definition tv (g : gid) (t T T' : tlsmap) : Prop := exists x, T' = [x] /\ T = upd g x t.

Lemma tv_find g t T T' : g < length t -> tv g t T T' -> tl_find g T = tl_find 0 T'.
Proof. intros Hg (x & -> & ->). rewrite tl_find_upd_same by exact Hg. reflexivity. Qed.

Lemma tv_get g t T T' : g < length t -> tv g t T T' -> tl_get g T = tl_get 0 T'.
Proof. intros Hg H. rewrite !tl_get_find. erewrite tv_find; eauto. Qed.

Lemma tv_initialized g t T T' : g < length t -> tv g t T T' -> tl_initialized g T = tl_initialized 0 T'.
Proof. intros Hg H. rewrite !tl_initialized_find. erewrite tv_find; eauto. Qed.

Lemma tv_upd g t T T' y : tv g t T T' -> tv g t (upd g y T) (upd 0 y T').
Proof. intros (x & -> & ->). exists y. split; [reflexivity|apply upd_upd]. Qed.

Lemma tv_init g t T T' : tv g t T T' -> tv g t (tl_init g T) (tl_init 0 T').
Proof. apply tv_upd. Qed.

Lemma tv_cleanup g t T T' : tv g t T T' -> tv g t (tl_cleanup g T) (tl_cleanup 0 T').
Proof. apply tv_upd. Qed.

Lemma tv_delete g t T T' : g < length t -> tv g t T T' -> tv g t (tl_delete g T) (tl_delete 0 T').
Proof.
  intros Hg H. unfold tl_delete. rewrite (tv_find g t T T' Hg H).
  destruct (tl_find 0 T'); [apply tv_upd; exact H|exact H].
Qed.

Definition opt_rel {A B} (R : A -> B -> Prop) (a : option A) (b : option B) : Prop :=
  match a, b with Some x, Some y => R x y | None, None => True | _, _ => False end.

Lemma tv_set g t T T' a : g < length t -> tv g t T T' -> opt_rel (tv g t) (tl_set g a T) (tl_set 0 a T').
Proof.
  intros Hg H. unfold tl_set. rewrite (tv_find g t T T' Hg H).
  destruct (tl_find 0 T'); cbn [opt_rel]; [apply tv_upd; exact H|exact I].
Qed.

(* shared states: same heaps, tables related by tv *)
Definition view (g : gid) (t : tlsmap) (s s' : shared) : Prop :=
  cheap s = cheap s' /\ lheap s = lheap s' /\ tv g t (tls s) (tls s').

Lemma view_tls g t s s' U U' : view g t s s' -> tv g t U U' -> view g t (with_tls U s) (with_tls U' s').
Proof. intros (A & B & _) H. repeat split; cbn [with_tls tls cheap lheap]; auto. Qed.

Lemma run_dact_view g t x s s' :
  g < length t -> view g t s s' ->
  view g t (fst (run_dact g x s)) (fst (run_dact 0 x s')) /\ snd (run_dact g x s) = snd (run_dact 0 x s').
Proof.
  intros Hg Hv. pose proof Hv as (A & B & C). destruct x as [saved| | |a l]; cbn [run_dact].
  - pose proof (tv_set g t _ _ saved Hg C) as Hs.
    destruct (tl_set g saved (tls s)), (tl_set 0 saved (tls s')); cbn [opt_rel] in Hs; try contradiction;
      cbn [fst snd]; split; auto. apply view_tls; auto.
  - cbn [fst snd]. split; auto. apply view_tls; auto. apply tv_delete; auto.
  - cbn [fst snd]. split; auto. apply view_tls; auto. apply tv_cleanup; auto.
  - rewrite <- A. destruct (nth_error (cheap s) a) as [c|]; cbn [fst snd]; split; auto.
    repeat split; cbn [with_cheap tls cheap lheap]; auto; try (rewrite A; reflexivity).
Qed.

Lemma run_dacts_view g t : forall xs s s',
  g < length t -> view g t s s' ->
  view g t (fst (run_dacts g xs s)) (fst (run_dacts 0 xs s')) /\ snd (run_dacts g xs s) = snd (run_dacts 0 xs s').
Proof.
  induction xs as [|x xs IH]; intros s s' Hg Hv; cbn [run_dacts]; [cbn [fst snd]; auto|].
  destruct (run_dact_view g t x s s' Hg Hv) as [V1 E1].
  destruct (run_dact g x s) as [s1 p], (run_dact 0 x s') as [s1' p']. cbn [fst snd] in V1, E1. subst p'.
  destruct (IH s1 s1' Hg V1) as [V2 E2].
  destruct (run_dacts g xs s1) as [s2 evs], (run_dacts 0 xs s1') as [s2' evs']. cbn [fst snd] in *. subst evs'.
  auto.
Qed.

Lemma dwc_enter_view g t a T T' :
  g < length t -> tv g t T T' ->
  tv g t (fst (fst (dwc_enter g a T))) (fst (fst (dwc_enter 0 a T'))) /\
  snd (fst (dwc_enter g a T)) = snd (fst (dwc_enter 0 a T')) /\ snd (dwc_enter g a T) = snd (dwc_enter 0 a T').
Proof.
  intros Hg H. unfold dwc_enter.
  rewrite (tv_get g t T T' Hg H), (tv_initialized g t T T' Hg H).
  destruct (tl_get 0 T') as [saved|].
  - pose proof (tv_set g t T T' a Hg H) as Hs.
    destruct (tl_set g a T), (tl_set 0 a T'); cbn [opt_rel] in Hs; try contradiction; cbn [fst snd]; auto.
  - destruct (tl_initialized 0 T').
    + pose proof (tv_set g t T T' a Hg H) as Hs.
      destruct (tl_set g a T), (tl_set 0 a T'); cbn [opt_rel] in Hs; try contradiction; cbn [fst snd]; auto.
    + pose proof (tv_set g t _ _ a Hg (tv_init g t T T' H)) as Hs.
      destruct (tl_set g a (tl_init g T)), (tl_set 0 a (tl_init 0 T')); cbn [opt_rel] in Hs; try contradiction;
        cbn [fst snd]; auto. splits; auto. apply tv_init; exact H.
Qed.

(* results of a statement *)
Definition res_view (g : gid) (t : tlsmap) (r r' : sres) : Prop :=
  view g t (r_sh r) (r_sh r') /\ r_push r = r_push r' /\ r_spawn r = r_spawn r' /\ r_events r = r_events r' /\
  r_panic r = r_panic r'.

Lemma res_view_raise g t s s' c : view g t s s' -> res_view g t (raise s c) (raise s' c).
Proof. intros H. repeat split; cbn [raise r_sh]; apply H. Qed.

Lemma res_view_ok g t s s' : view g t s s' -> res_view g t (ok s) (ok s').
Proof. intros H. repeat split; cbn [ok r_sh]; apply H. Qed.

Lemma res_view_enter g t s s' X : view g t s s' -> res_view g t (enter s X) (enter s' X).
Proof. intros H. repeat split; cbn [enter r_sh]; apply H. Qed.

Lemma res_view_spawn g t s s' X : view g t s s' -> res_view g t (spawn s X) (spawn s' X).
Proof. intros H. repeat split; cbn [spawn r_sh]; apply H. Qed.

Lemma view_put g t a c s s' : view g t s s' -> view g t (put_ctx a c s) (put_ctx a c s').
Proof. intros (A & B & C). repeat split; cbn [put_ctx with_cheap tls cheap lheap]; auto; try (rewrite A; reflexivity). Qed.

Lemma view_lheap g t lh s s' : view g t s s' -> view g t (with_lheap lh s) (with_lheap lh s').
Proof. intros (A & B & C). repeat split; cbn [with_lheap tls cheap lheap]; auto. Qed.

Lemma view_alloc g t c s s' :
  view g t s s' -> fst (alloc_ctx c s) = fst (alloc_ctx c s') /\ view g t (snd (alloc_ctx c s)) (snd (alloc_ctx c s')).
Proof.
  intros (A & B & C). unfold alloc_ctx. cbn [fst snd]. rewrite A. split; auto.
  repeat split; cbn [with_cheap tls cheap lheap]; auto; try (rewrite A; reflexivity).
Qed.

Lemma res_view_with_lex g t env s s' f f' :
  view g t s s' -> (forall a c, res_view g t (f a c) (f' a c)) ->
  res_view g t (with_lex env s f) (with_lex env s' f').
Proof.
  intros Hv Hf. unfold with_lex. destruct env as [|a rest]; [apply res_view_raise; exact Hv|].
  destruct Hv as (A & B & C). rewrite <- A.
  destruct (nth_error (cheap s) a); [apply Hf|apply res_view_raise; repeat split; auto].
Qed.

Lemma res_view_dwc g t a env body s s' :
  g < length t -> view g t s s' -> res_view g t (do_with_context g a env body s) (do_with_context 0 a env body s').
Proof.
  intros Hg Hv. pose proof Hv as (A & B & C). unfold do_with_context.
  destruct (dwc_enter_view g t a (tls s) (tls s') Hg C) as (V & Ex & Ef).
  destruct (dwc_enter g a (tls s)) as [[U x] fine], (dwc_enter 0 a (tls s')) as [[U' x'] fine'].
  cbn [fst snd] in V, Ex, Ef. subst x' fine'.
  destruct fine.
  - apply res_view_enter. apply view_tls; auto.
  - destruct (run_dact_view g t x (with_tls U s) (with_tls U' s') Hg (view_tls g t s s' U U' Hv V)) as [V1 E1].
    destruct (run_dact g x (with_tls U s)) as [s1 p], (run_dact 0 x (with_tls U' s')) as [s1' p'].
    cbn [fst snd] in V1. apply res_view_raise. exact V1.
Qed.

Lemma exec_stmt_view g t env p s s' :
  g < length t -> view g t s s' -> res_view g t (exec_stmt g env p s) (exec_stmt 0 env p s').
Proof.
  intros Hg Hv. pose proof Hv as (A & B & C).
  destruct p as [lbl try body|lbl ce body|lbl le body|lbl body|lbl body|body|body|k v|k|l| |lbl le|n v|lbl| | ];
    cbn [exec_stmt].
  - (* PDo *)
    set (root := {| c_label := unknown_label; c_loader := 0; c_stack := []; c_vars := [] |}).
    destruct (view_alloc g t root s s' Hv) as [Ea Va].
    destruct (alloc_ctx root s) as [ra s1], (alloc_ctx root s') as [ra' s1']. cbn [fst snd] in Ea, Va. subst ra'.
    pose proof Va as (A1 & B1 & C1).
    destruct (dwc_enter_view g t ra (tls s1) (tls s1') Hg C1) as (V1 & Ex1 & Ef1).
    destruct (dwc_enter g ra (tls s1)) as [[t1 x1] fine1], (dwc_enter 0 ra (tls s1')) as [[t1' x1'] fine1'].
    cbn [fst snd] in V1, Ex1, Ef1. subst x1' fine1'.
    destruct fine1; cbn [negb].
    + rewrite <- B1. destruct (fork_ctx lbl root (lheap s1)) as [fc lh].
      assert (V2 : view g t (with_lheap lh (with_tls t1 s1)) (with_lheap lh (with_tls t1' s1')))
        by (apply view_lheap; apply view_tls; auto).
      destruct (view_alloc g t fc _ _ V2) as [Ea2 Va2].
      destruct (alloc_ctx fc (with_lheap lh (with_tls t1 s1))) as [fa s2],
               (alloc_ctx fc (with_lheap lh (with_tls t1' s1'))) as [fa' s2']. cbn [fst snd] in Ea2, Va2. subst fa'.
      pose proof Va2 as (A2 & B2 & C2).
      destruct (dwc_enter_view g t fa (tls s2) (tls s2') Hg C2) as (V3 & Ex3 & Ef3).
      destruct (dwc_enter g fa (tls s2)) as [[t2 x2] fine2], (dwc_enter 0 fa (tls s2')) as [[t2' x2'] fine2'].
      cbn [fst snd] in V3, Ex3, Ef3. subst x2' fine2'.
      destruct fine2; cbn [negb].
      * apply res_view_enter. apply view_tls; auto.
      * destruct (run_dacts_view g t [x2; x1] (with_tls t2 s2) (with_tls t2' s2') Hg (view_tls g t s2 s2' t2 t2' Va2 V3)) as [V4 E4].
        destruct (run_dacts g [x2; x1] (with_tls t2 s2)) as [s3 e3], (run_dacts 0 [x2; x1] (with_tls t2' s2')) as [s3' e3'].
        cbn [fst snd] in V4. apply res_view_raise. exact V4.
    + destruct (run_dact_view g t x1 (with_tls t1 s1) (with_tls t1' s1') Hg (view_tls g t s1 s1' t1 t1' Va V1)) as [V4 E4].
      destruct (run_dact g x1 (with_tls t1 s1)) as [s3 e3], (run_dact 0 x1 (with_tls t1' s1')) as [s3' e3'].
      cbn [fst snd] in V4. apply res_view_raise. exact V4.
  - (* PDoCtx *)
    destruct ce as [| |k].
    + apply res_view_with_lex; [exact Hv|]. intros a c. rewrite <- B.
      destruct (fork_ctx lbl c (lheap s)) as [fc lh].
      destruct (view_alloc g t fc _ _ (view_lheap g t lh s s' Hv)) as [Ea Va].
      destruct (alloc_ctx fc (with_lheap lh s)) as [fa s1], (alloc_ctx fc (with_lheap lh s')) as [fa' s1'].
      cbn [fst snd] in Ea, Va. subst fa'. apply res_view_dwc; auto.
    + rewrite <- B. destruct (new_loader lbl 0 (lheap s)) as [l lh].
      set (nc := {| c_label := lbl; c_loader := l; c_stack := []; c_vars := [] |}).
      destruct (view_alloc g t nc _ _ (view_lheap g t lh s s' Hv)) as [Ea Va].
      destruct (alloc_ctx nc (with_lheap lh s)) as [fa s1], (alloc_ctx nc (with_lheap lh s')) as [fa' s1'].
      cbn [fst snd] in Ea, Va. subst fa'. apply res_view_dwc; auto.
    + destruct (nth_error env k); [apply res_view_dwc; auto|apply res_view_raise; auto].
  - (* PDoLoader *)
    apply res_view_with_lex; [exact Hv|]. intros a c. rewrite <- B.
    destruct (eval_lexp lbl le c (lheap s)) as [l lh].
    apply res_view_enter. apply view_put. apply view_lheap. exact Hv.
  - (* PFork *)
    apply res_view_with_lex; [exact Hv|]. intros a c. rewrite <- B.
    destruct (fork_ctx lbl c (lheap s)) as [fc lh].
    destruct (view_alloc g t fc _ _ (view_lheap g t lh s s' Hv)) as [Ea Va].
    destruct (alloc_ctx fc (with_lheap lh s)) as [fa s1], (alloc_ctx fc (with_lheap lh s')) as [fa' s1'].
    cbn [fst snd] in Ea, Va. subst fa'. apply res_view_spawn; auto.
  - (* PGo *)
    rewrite (tv_get g t _ _ Hg C). destruct (tl_get 0 (tls s')) as [a|]; [|apply res_view_raise; auto].
    rewrite <- A. destruct (nth_error (cheap s) a) as [c|]; [|apply res_view_raise; auto].
    rewrite <- B. destruct (fork_ctx lbl c (lheap s)) as [fc lh].
    destruct (view_alloc g t fc _ _ (view_lheap g t lh s s' Hv)) as [Ea Va].
    destruct (alloc_ctx fc (with_lheap lh s)) as [fa s1], (alloc_ctx fc (with_lheap lh s')) as [fa' s1'].
    cbn [fst snd] in Ea, Va. subst fa'. apply res_view_spawn; auto.
  - (* PTlGo *) apply res_view_spawn; auto.
  - (* PTry *) apply res_view_enter; auto.
  - (* PSet *) apply res_view_with_lex; [exact Hv|]. intros a c. apply res_view_ok. apply view_put; auto.
  - (* PDel *) apply res_view_with_lex; [exact Hv|]. intros a c. apply res_view_ok. apply view_put; auto.
  - (* PPush *) apply res_view_with_lex; [exact Hv|]. intros a c. apply res_view_ok. apply view_put; auto.
  - (* PPop *)
    apply res_view_with_lex; [exact Hv|]. intros a c.
    destruct (c_stack c); [apply res_view_raise; auto|apply res_view_ok; apply view_put; auto].
  - (* PSetLoader *)
    apply res_view_with_lex; [exact Hv|]. intros a c. rewrite <- B.
    destruct (eval_lexp lbl le c (lheap s)) as [l lh]. apply res_view_ok. apply view_put. apply view_lheap. exact Hv.
  - (* PDefine *)
    apply res_view_with_lex; [exact Hv|]. intros a c. rewrite <- B.
    destruct (nth_error (lheap s) (c_loader c)) as [ld|]; [|apply res_view_raise; auto].
    destruct (set_entry n v ld); [apply res_view_ok; apply view_lheap; auto|apply res_view_raise; auto].
  - (* PObserve *)
    repeat split; auto. cbn [r_events]. unfold observe. rewrite (tv_get g t _ _ Hg C), <- A, <- B. reflexivity.
  - (* PPanic *) apply res_view_raise; auto.
  - (* PGoexit *) apply res_view_raise; auto.
Qed.

(* one step of goroutine g on the shared table = the same step on a private one-entry table *)
Lemma step_g_view g t s s' st :
  g < length t -> view g t s s' ->
  view g t (fst (fst (step_g g s st))) (fst (fst (step_g 0 s' st))) /\
  snd (fst (step_g g s st)) = snd (fst (step_g 0 s' st)) /\ snd (step_g g s st) = snd (step_g 0 s' st).
Proof.
  intros Hg Hv. pose proof Hv as (A & B & C). unfold step_g.
  destruct (g_stack st) as [|f K]; [cbn [fst snd]; auto|].
  destruct f as [env ps|xs| |cfo|cl].
  - destruct ps as [|p ps].
    + destruct (resume (g_panic st) K) as [pn K']. cbn [fst snd]. auto.
    + destruct (exec_stmt_view g t env p s s' Hg Hv) as (V & E1 & E2 & E3 & E4).
      rewrite E1, E2, E3, E4.
      destruct (resume (r_panic (exec_stmt 0 env p s')) (r_push (exec_stmt 0 env p s') ++ KSeq env ps :: exit_stack p K)) as [pn K'].
      cbn [fst snd]. auto.
  - destruct (run_dacts_view g t xs s s' Hg Hv) as [V E].
    destruct (run_dacts g xs s) as [s1 evs], (run_dacts 0 xs s') as [s1' evs']. cbn [fst snd] in V, E. subst evs'.
    destruct (resume (g_panic st || negb match evs with [] => true | _ :: _ => false end) K) as [pn K'].
    cbn [fst snd]. auto.
  - destruct (resume (g_panic st) K) as [pn K']. cbn [fst snd]. auto.
  - destruct cfo as [cf|].
    + pose proof (tv_set g t _ _ cf Hg (tv_init g t _ _ C)) as Hs.
      destruct (tl_set g cf (tl_init g (tls s))), (tl_set 0 cf (tl_init 0 (tls s'))); cbn [opt_rel] in Hs;
        try contradiction.
      * destruct (resume false K) as [pn K']. cbn [fst snd]. splits; auto. apply view_tls; auto.
      * destruct (resume true K) as [pn K']. cbn [fst snd]. splits; auto. apply view_tls; auto. apply tv_init; auto.
    + destruct (resume false K) as [pn K']. cbn [fst snd]. splits; auto. apply view_tls; auto. apply tv_init; auto.
  - cbn [fst snd]. splits; auto. destruct cl; [apply view_tls; auto; apply tv_cleanup; auto|exact Hv].
Qed.

(* ---- the machine with private tables -------------------------------------------------------------- *)

Record pconfig := { p_cheap : list ctxo; p_lheap : list ldr; p_gs : list (gstate * option table) }.

(* a step of goroutine g: it sees the heaps and its own table entry, nothing else *)
Definition pstep (g : gid) (c : pconfig) : pconfig :=
  match nth_error (p_gs c) g with
  | None => c
  | Some (st, tb) =>
    let '(s1, st1, sp) := step_g 0 {| tls := [tb]; cheap := p_cheap c; lheap := p_lheap c |} st in
    let gs1 := upd g (st1, tl_find 0 (tls s1)) (p_gs c) in
    {| p_cheap := cheap s1; p_lheap := lheap s1;
       p_gs := match sp with Some ch => gs1 ++ [(ch, None)] | None => gs1 end |}
  end.

Definition prun (sched : list gid) (c : pconfig) : pconfig := fold_left (fun c g => pstep g c) sched c.

(* every goroutine paired with its entry of the shared table *)
Definition private_view (c : config) : pconfig :=
  {| p_cheap := cheap (sh c); p_lheap := lheap (sh c); p_gs := combine (gs c) (tls (sh c)) |}.

Lemma nth_error_combine {A B} (l : list A) (t : list B) (d : B) : forall i x,
  length t = length l -> nth_error l i = Some x -> nth_error (combine l t) i = Some (x, nth i t d).
Proof.
  revert t; induction l as [|y l IH]; intros [|z t] [|i] x Hlen E; cbn [combine nth_error nth length] in *;
    try discriminate; auto.
  - inversion E; reflexivity.
Qed.

Lemma nth_error_combine_none {A B} (l : list A) (t : list B) i :
  nth_error l i = None -> nth_error (combine l t) i = None.
Proof.
  intros H. apply nth_error_None. rewrite combine_length. apply nth_error_None in H. lia.
Qed.

Lemma combine_upd {A B} (i : nat) (x : A) (y : B) : forall l t, combine (upd i x l) (upd i y t) = upd i (x, y) (combine l t).
Proof.
  intros l; revert i; induction l as [|a l IH]; intros i t.
  - destruct i; reflexivity.
  - destruct t as [|b t]; destruct i as [|i]; cbn [upd combine]; auto. rewrite IH. reflexivity.
Qed.

Lemma combine_snoc {A B} (l : list A) (t : list B) x y :
  length t = length l -> combine (l ++ [x]) (t ++ [y]) = combine l t ++ [(x, y)].
Proof.
  revert t; induction l as [|a l IH]; intros [|b t] H; cbn [length] in H; try discriminate; cbn [app combine]; auto.
  rewrite IH by lia. reflexivity.
Qed.

Lemma step_private g c : Inv c -> private_view (step g c) = pstep g (private_view c).
Proof.
  intros HI. pose proof HI as [Hlen _]. unfold step, pstep, private_view. cbn [p_gs p_cheap p_lheap].
  destruct (nth_error (gs c) g) as [st|] eqn:Eg.
  - rewrite (nth_error_combine _ _ None g st Hlen Eg).
    assert (Hg : g < length (tls (sh c))) by (rewrite Hlen; eapply nth_error_lt; eauto).
    set (s' := {| tls := [nth g (tls (sh c)) None]; cheap := cheap (sh c); lheap := lheap (sh c) |}).
    assert (Hv : view g (tls (sh c)) (sh c) s').
    { repeat split; auto. exists (nth g (tls (sh c)) None). split; [reflexivity|]. symmetry. apply upd_self. }
    destruct (step_g_view g (tls (sh c)) (sh c) s' st Hg Hv) as (V & E1 & E2).
    destruct (step_g g (sh c) st) as [[s1 st1] sp], (step_g 0 s' st) as [[s1' st1'] sp']. cbn [fst snd] in V, E1, E2.
    subst st1' sp'. destruct V as (A & B & (x & Ex & ET)).
    rewrite Ex. cbn [tl_find nth].
    destruct sp as [child|]; cbn [sh gs with_tls tls cheap lheap]; rewrite A, B, ET; f_equal.
    + rewrite combine_snoc by (rewrite !upd_length; exact Hlen). rewrite combine_upd. reflexivity.
    + apply combine_upd.
  - rewrite nth_error_combine_none by exact Eg. reflexivity.
Qed.

Theorem run_private sched : forall c, Inv c -> private_view (run sched c) = prun sched (private_view c).
Proof.
  induction sched as [|g sched IH]; intros c HI; cbn [run prun fold_left]; [reflexivity|].
  rewrite <- step_private by exact HI. apply IH. apply step_inv. exact HI.
Qed.
