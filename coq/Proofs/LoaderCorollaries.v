(* LoaderCorollaries.v — consequences of the refinement (Proofs/LoaderProofs.v), proved on the abstract
   write-once specification and transferred to the model: write-once, stable resolution, misses are not
   sticky, case-insensitivity, exact discovery. *)
From Coq Require Import Arith NArith Bool List Lia.
From PcoreV Require Import Model.Base Model.Loader Model.LoaderSpec Proofs.LoaderNames Proofs.LoaderProofs.
Import ListNotations.

(* ---------------------------------------------------------------------------------------------- *)
(* abstract states *)

Lemma nth_set_binds a : forall t bs l,
  nth_error (set_binds a t bs) l =
  if Nat.eqb l t then option_map (fun nd => mkA (akind nd) bs) (nth_error a l) else nth_error a l.
Proof.
  induction a as [|nd a IH]; intros t bs l.
  - destruct t, l; cbn [set_binds nth_error Nat.eqb option_map]; try reflexivity.
    destruct (Nat.eqb l t); reflexivity.
  - destruct t, l; cbn [set_binds nth_error Nat.eqb option_map]; try reflexivity. apply IH.
Qed.

Lemma own_binds_set_same a t bs : t < length a -> own_binds (set_binds a t bs) t = bs.
Proof.
  intros H. unfold own_binds. rewrite nth_set_binds, Nat.eqb_refl.
  destruct (nth_error a t) eqn:E; [reflexivity|]. apply nth_error_None in E. lia.
Qed.

Lemma own_binds_set_other a t bs l : l <> t -> own_binds (set_binds a t bs) l = own_binds a l.
Proof.
  intros H. unfold own_binds. rewrite nth_set_binds.
  destruct (Nat.eqb_spec l t); [contradiction|reflexivity].
Qed.

(* the tree is well-formed: parents precede their children *)
Definition tree_ok (a : astate) : Prop :=
  forall l nd p, nth_error a l = Some nd -> parent_of (akind nd) = Some p -> p < l.

Lemma tree_ok_abs st : inv st -> tree_ok (abs st).
Proof.
  intros Hi l nd p H Hp. rewrite nth_abs in H. destruct (nth_error st l) as [nd0|] eqn:E; [|discriminate].
  injection H as <-. cbn [abs_node akind] in Hp. eapply inv_parent; eauto.
Qed.

Lemma def_target_some : forall f a l t,
  tree_ok a -> def_target f a l = Some t ->
  t <= l /\ exists nd, nth_error a t = Some nd /\ is_tset (akind nd) = false.
Proof.
  induction f as [|f IH]; intros a l t Ht H; [discriminate|].
  cbn [def_target] in H. destruct (nth_error a l) as [nd|] eqn:E; [|discriminate].
  destruct (akind nd) as [| |p|p ts] eqn:K;
    try (injection H as <-; split; [lia|]; exists nd; rewrite K; split; [exact E|reflexivity]).
  assert (p < l) by (eapply Ht; eauto; rewrite K; reflexivity).
  destruct (IH a p t Ht H) as [Hle Hnd]. split; [lia|exact Hnd].
Qed.

(* a' extends a: same loaders (possibly more), same kinds, every binding kept *)
Definition ext (a a' : astate) : Prop :=
  forall l nd, nth_error a l = Some nd ->
    exists nd', nth_error a' l = Some nd' /\ akind nd' = akind nd /\
      forall k v, assoc k (abind nd) = Some v -> assoc k (abind nd') = Some v.

Lemma ext_refl a : ext a a.
Proof. intros l nd H. exists nd. repeat split; auto. Qed.

Lemma ext_trans a b c : ext a b -> ext b c -> ext a c.
Proof.
  intros H1 H2 l nd H. destruct (H1 l nd H) as (nd1 & A1 & K1 & B1).
  destruct (H2 l nd1 A1) as (nd2 & A2 & K2 & B2). exists nd2. repeat split; [exact A2|congruence|auto].
Qed.

Lemma ext_app a x : ext a (a ++ [x]).
Proof.
  intros l nd H. exists nd. repeat split; auto.
  rewrite nth_error_app1; [exact H|]. apply nth_error_Some. congruence.
Qed.

Lemma ext_set_binds a t key v :
  assoc key (own_binds a t) = None -> ext a (set_binds a t (own_binds a t ++ [(key, v)])).
Proof.
  intros Hn l nd H. rewrite nth_set_binds. destruct (Nat.eqb_spec l t) as [->|Hne].
  - rewrite H. cbn [option_map]. eexists. split; [reflexivity|]. split; [reflexivity|].
    cbn [abind]. intros k v' Hk. unfold own_binds. rewrite H. rewrite assoc_app, Hk. reflexivity.
  - exists nd. repeat split; auto.
Qed.

Lemma spec_define_ext a l n v a' r : spec_define a l n v = (a', r) -> ext a a'.
Proof.
  unfold spec_define. destruct (def_target (S l) a l) as [t|]; [|intros H; injection H as <- _; apply ext_refl].
  destruct (assoc (map_key n) (own_binds a t)) eqn:E; intros H; injection H as <- _.
  - apply ext_refl.
  - apply ext_set_binds. exact E.
Qed.

Lemma spec_step_ext cfg a o a' r : spec_step cfg a o = (a', r) -> ext a a'.
Proof.
  destruct o as [|l|l|l t|l n0 v|l n0|l n0|l n0|l n0|l p]; cbn [spec_step]; unfold spec_add;
    try (destruct (Nat.ltb l (length a)); [|intros H; injection H as <- _; apply ext_refl]);
    try (intros H; injection H as <- _; first [apply ext_refl|apply ext_app]).
  - destruct (nth_error (cfg_tsets cfg) t); intros H; injection H as <- _; [apply ext_app|apply ext_refl].
  - apply spec_define_ext.
Qed.

Lemma spec_run_from_ext cfg : forall ops a, ext a (fst (spec_run_from cfg a ops)).
Proof.
  induction ops as [|o ops IH]; intros a; [apply ext_refl|].
  cbn [spec_run_from]. destruct (spec_step cfg a o) as [a1 r] eqn:E.
  specialize (IH a1). destruct (spec_run_from cfg a1 ops) as [a2 rs]. cbn [fst] in *.
  eapply ext_trans; [eapply spec_step_ext; eauto|exact IH].
Qed.

Lemma spec_run_from_app cfg : forall ops1 ops2 a,
  fst (spec_run_from cfg a (ops1 ++ ops2)) = fst (spec_run_from cfg (fst (spec_run_from cfg a ops1)) ops2).
Proof.
  induction ops1 as [|o ops1 IH]; intros ops2 a; [reflexivity|].
  cbn [app spec_run_from]. destruct (spec_step cfg a o) as [a1 r]. specialize (IH ops2 a1).
  destruct (spec_run_from cfg a1 (ops1 ++ ops2)) as [a2 rs]. destruct (spec_run_from cfg a1 ops1) as [a3 rs3].
  cbn [fst] in *. rewrite IH. destruct (spec_run_from cfg a3 ops2). reflexivity.
Qed.

(* the state after ops ++ ops' extends the state after ops *)
Lemma run_ext cfg ops ops' :
  cfg_wf cfg = true -> forallb op_wf (ops ++ ops') = true ->
  ext (abs (fst (run cfg ops))) (abs (fst (run cfg (ops ++ ops')))).
Proof.
  intros Hc Hw. pose proof Hw as Hw'. rewrite forallb_app in Hw'. apply andb_prop in Hw'. destruct Hw' as [Hw1 _].
  rewrite (loader_state_refines cfg _ Hc Hw), (loader_state_refines cfg _ Hc Hw1).
  unfold spec_run. rewrite spec_run_from_app. apply spec_run_from_ext.
Qed.

(* ---------------------------------------------------------------------------------------------- *)
(* write-once *)

Theorem write_once cfg ops ops' l k v :
  cfg_wf cfg = true -> forallb op_wf (ops ++ ops') = true ->
  assoc k (own_binds (abs (fst (run cfg ops))) l) = Some v ->
  assoc k (own_binds (abs (fst (run cfg (ops ++ ops')))) l) = Some v.
Proof.
  intros Hc Hw H. pose proof (run_ext cfg ops ops' Hc Hw) as E. unfold own_binds in *.
  destruct (nth_error (abs (fst (run cfg ops))) l) as [nd|] eqn:Hn; [|discriminate].
  destruct (E l nd Hn) as (nd' & Hn' & _ & Hb). rewrite Hn'. apply Hb. exact H.
Qed.

(* ---------------------------------------------------------------------------------------------- *)
(* the result of one more operation *)

Lemma run_snoc cfg ops o :
  run cfg (ops ++ [o]) = (fst (step cfg (fst (run cfg ops)) o), outs cfg ops ++ [result_after cfg ops o]).
Proof.
  unfold run, outs, result_after, run. rewrite run_from_app. cbn [run_from].
  destruct (step cfg (fst (run_from cfg (init_state cfg) ops)) o). reflexivity.
Qed.

Lemma forallb_snoc {A} (f : A -> bool) l x : forallb f (l ++ [x]) = true -> forallb f l = true /\ f x = true.
Proof. rewrite forallb_app. cbn [forallb]. rewrite andb_true_r. apply andb_prop. Qed.

Lemma result_after_sim cfg ops o :
  cfg_wf cfg = true -> forallb op_wf ops = true -> op_wf o = true ->
  inv (fst (run cfg ops)) /\
  spec_step cfg (abs (fst (run cfg ops))) o = (abs (fst (run cfg (ops ++ [o]))), project (result_after cfg ops o)).
Proof.
  intros Hc Hw Ho. pose proof (reachable_inv cfg ops Hc Hw) as Hi. split; [exact Hi|].
  rewrite run_snoc. cbn [fst]. unfold result_after.
  destruct (step cfg (fst (run cfg ops)) o) as [st' r] eqn:E.
  destruct (step_sim cfg _ o st' r Hi Ho E) as (_ & Hs & _). exact Hs.
Qed.

Lemma project_inv r x : project r = x -> (forall e, x <> REntry e) -> r = x.
Proof. intros H Hx. destruct r as [| | | |[| |]| | | | |]; cbn in H; try exact H. exfalso. eapply Hx. symmetry. exact H. Qed.

(* re-definition *)
Theorem redefine cfg ops l n v old :
  cfg_wf cfg = true -> forallb op_wf (ops ++ [ODefine l n v]) = true ->
  l < length (fst (run cfg ops)) ->
  spec_own_binding (abs (fst (run cfg ops))) l (norm n) = Some old ->
  abs (fst (run cfg (ops ++ [ODefine l n v]))) = abs (fst (run cfg ops)) /\
  result_after cfg ops (ODefine l n v) =
    if val_same old v || val_equals old v then RDefined old
    else if vty old && vty v then RErr ERedefineType else RErr ERedefine.
Proof.
  intros Hc Hw Hl Hb. apply forallb_snoc in Hw. destruct Hw as [Hw Ho].
  destruct (result_after_sim cfg ops _ Hc Hw Ho) as [Hi Hs].
  cbn [spec_step] in Hs. rewrite abs_length in Hs.
  destruct (Nat.ltb_spec l (length (fst (run cfg ops)))) as [_|]; [|lia].
  unfold spec_define in Hs. unfold spec_own_binding in Hb.
  destruct (def_target (S l) (abs (fst (run cfg ops))) l) as [t|]; [|discriminate].
  rewrite Hb in Hs. injection Hs as Ha Hr. split; [symmetry; exact Ha|].
  apply project_inv; [symmetry; exact Hr|].
  intros e. destruct (val_same old v || val_equals old v); [discriminate|].
  destruct (vty old && vty v); discriminate.
Qed.

(* ---------------------------------------------------------------------------------------------- *)
(* stable resolution *)

Lemma ancestor_lt a l p : tree_ok a -> ancestor a l p -> p < l.
Proof.
  intros Ht H. induction H as [l nd p H1 H2|l nd p q H1 H2 _ IH].
  - eapply Ht; eauto.
  - pose proof (Ht _ _ _ H1 H2). lia.
Qed.

Definition same_kinds (a a' : astate) : Prop :=
  forall l nd, nth_error a l = Some nd -> exists nd', nth_error a' l = Some nd' /\ akind nd' = akind nd.

Lemma ext_same_kinds a a' : ext a a' -> same_kinds a a'.
Proof. intros H l nd E. destruct (H l nd E) as (nd' & A & B & _). eauto. Qed.

Lemma own_binds_nth a l nd : nth_error a l = Some nd -> own_binds a l = abind nd.
Proof. unfold own_binds. intros ->. reflexivity. Qed.

(* resolution through p depends on the bindings of p and of its ancestors only *)
Lemma resolve_same : forall f a a' p n,
  tree_ok a -> same_kinds a a' -> p < length a ->
  (forall q, q = p \/ ancestor a p q -> own_binds a' q = own_binds a q) ->
  spec_resolve f a' p n = spec_resolve f a p n.
Proof.
  induction f as [|f IH]; intros a a' p n Ht Hk Hp Hq; [reflexivity|].
  rewrite !spec_resolve_S.
  destruct (nth_error a p) as [nd|] eqn:E; [|apply nth_error_None in E; lia].
  destruct (Hk p nd E) as (nd' & E' & K). rewrite E', K.
  assert (Hb : abind nd' = abind nd).
  { rewrite <- (own_binds_nth _ _ _ E), <- (own_binds_nth _ _ _ E'). apply Hq. left. reflexivity. }
  rewrite Hb.
  destruct (akind nd) as [| |p0|p0 ts] eqn:Kd; try reflexivity.
  - assert (Hp0 : p0 < p) by (eapply Ht; eauto; rewrite Kd; reflexivity).
    rewrite (IH a a' p0 n Ht Hk ltac:(lia)); [reflexivity|].
    intros q [->|Hq']; apply Hq; right.
    + eapply anc_parent; eauto. rewrite Kd. reflexivity.
    + eapply anc_step; eauto. rewrite Kd. reflexivity.
  - assert (Hp0 : p0 < p) by (eapply Ht; eauto; rewrite Kd; reflexivity).
    rewrite (IH a a' p0 n Ht Hk ltac:(lia)).
    + destruct (ts_get_type ts n); [reflexivity|].
      destruct (spec_resolve f a p0 n) as [[v|]|]; try reflexivity.
      destruct (relative_to n (ts_typed_name ts)); [|reflexivity].
      apply IH; assumption.
    + intros q [->|Hq']; apply Hq; right.
      * eapply anc_parent; eauto. rewrite Kd. reflexivity.
      * eapply anc_step; eauto. rewrite Kd. reflexivity.
Qed.

Lemma resolve_stable : forall f a a' l n v,
  tree_ok a -> ext a a' -> l < length a ->
  (forall p, ancestor a l p -> own_binds a' p = own_binds a p) ->
  spec_resolve f a l n = Some (Some v) -> spec_resolve f a' l n = Some (Some v).
Proof.
  induction f as [|f IH]; intros a a' l n v Ht He Hl Ha H; [discriminate|].
  rewrite spec_resolve_S in *.
  destruct (nth_error a l) as [nd|] eqn:E; [|discriminate].
  destruct (He l nd E) as (nd' & E' & K & Hb). rewrite E', K.
  pose proof (ext_same_kinds _ _ He) as Hk.
  destruct (akind nd) as [| |p|p ts] eqn:Kd.
  - injection H as H. f_equal. apply Hb. exact H.
  - injection H as H. f_equal. apply Hb. exact H.
  - assert (Hp : p < l) by (eapply Ht; eauto; rewrite Kd; reflexivity).
    rewrite (resolve_same f a a' p n Ht Hk ltac:(lia)).
    + destruct (spec_resolve f a p n) as [[v'|]|]; [exact H| |discriminate].
      injection H as H. f_equal. apply Hb. exact H.
    + intros q [->|Hq]; apply Ha.
      * eapply anc_parent; eauto. rewrite Kd. reflexivity.
      * eapply anc_step; eauto. rewrite Kd. reflexivity.
  - assert (Hp : p < l) by (eapply Ht; eauto; rewrite Kd; reflexivity).
    destruct (ts_get_type ts n); [exact H|].
    rewrite (resolve_same f a a' p n Ht Hk ltac:(lia)).
    + destruct (spec_resolve f a p n) as [[v'|]|]; [exact H| |discriminate].
      destruct (relative_to n (ts_typed_name ts)); [|discriminate].
      eapply IH; eauto.
    + intros q [->|Hq]; apply Ha.
      * eapply anc_parent; eauto. rewrite Kd. reflexivity.
      * eapply anc_step; eauto. rewrite Kd. reflexivity.
Qed.

(* what px.Load answers after a history, in terms of the specification *)
Lemma load_result_spec cfg ops l n :
  cfg_wf cfg = true -> forallb op_wf ops = true -> op_wf (OLoad l n) = true ->
  abs (fst (run cfg (ops ++ [OLoad l n]))) = abs (fst (run cfg ops)) /\
  result_after cfg ops (OLoad l n) =
    if Nat.ltb l (length (fst (run cfg ops))) then
      if negb (str_eqb (tn_auth (norm n)) (cfg_auth cfg)) then RFound None
      else match spec_resolve_top (abs (fst (run cfg ops))) l (norm n) with Some r => RFound r | None => RStuck end
    else RBadLoader.
Proof.
  intros Hc Hw Ho. destruct (result_after_sim cfg ops _ Hc Hw Ho) as [Hi Hs].
  cbn [spec_step] in Hs. rewrite abs_length in Hs.
  destruct (Nat.ltb l (length (fst (run cfg ops)))).
  - injection Hs as Ha Hr. split; [symmetry; exact Ha|]. apply project_inv; [symmetry; exact Hr|].
    intros e. destruct (negb _); [discriminate|]. destruct (spec_resolve_top _ _ _); discriminate.
  - injection Hs as Ha Hr. split; [symmetry; exact Ha|]. apply project_inv; [symmetry; exact Hr|discriminate].
Qed.

Lemma ext_length a a' : ext a a' -> length a <= length a'.
Proof.
  intros H. destruct a as [|x a0] eqn:E; [cbn; lia|]. rewrite <- E in *.
  assert (Hl : length a - 1 < length a) by (rewrite E; cbn; lia).
  destruct (nth_error a (length a - 1)) as [nd|] eqn:En; [|apply nth_error_None in En; lia].
  destruct (H _ _ En) as (nd' & En' & _).
  assert (length a - 1 < length a') by (apply nth_error_Some; congruence). lia.
Qed.

Theorem stable_resolution cfg ops ops' l n v :
  cfg_wf cfg = true -> forallb op_wf (ops ++ ops') = true -> op_wf (OLoad l n) = true ->
  result_after cfg ops (OLoad l n) = RFound (Some v) ->
  (forall p, ancestor (abs (fst (run cfg ops))) l p ->
     own_binds (abs (fst (run cfg (ops ++ ops')))) p = own_binds (abs (fst (run cfg ops))) p) ->
  result_after cfg (ops ++ ops') (OLoad l n) = RFound (Some v).
Proof.
  intros Hc Hw Ho H Ha. pose proof Hw as Hw'. rewrite forallb_app in Hw'. apply andb_prop in Hw'. destruct Hw' as [Hw1 _].
  destruct (load_result_spec cfg ops l n Hc Hw1 Ho) as [_ H1]. rewrite H in H1.
  destruct (load_result_spec cfg (ops ++ ops') l n Hc Hw Ho) as [_ H2]. rewrite H2.
  pose proof (run_ext cfg ops ops' Hc Hw) as He.
  pose proof (tree_ok_abs _ (reachable_inv cfg ops Hc Hw1)) as Ht.
  destruct (Nat.ltb_spec l (length (fst (run cfg ops)))) as [Hl|Hl]; [|discriminate].
  pose proof (ext_length _ _ He) as Hlen. rewrite !abs_length in Hlen.
  destruct (Nat.ltb_spec l (length (fst (run cfg (ops ++ ops'))))) as [_|Hl']; [|lia].
  destruct (negb (str_eqb (tn_auth (norm n)) (cfg_auth cfg))); [discriminate|].
  unfold spec_resolve_top in *.
  destruct (spec_resolve (fuel_of l (norm n)) (abs (fst (run cfg ops))) l (norm n)) as [x|] eqn:Hr; [|discriminate].
  injection H1 as <-.
  rewrite (resolve_stable _ _ _ l (norm n) v Ht He ltac:(rewrite abs_length; exact Hl) Ha Hr). reflexivity.
Qed.

(* ---------------------------------------------------------------------------------------------- *)
(* misses are not sticky *)

Lemma miss_target_unbound : forall f' f a l n t,
  spec_resolve f a l n = Some None -> def_target f' a l = Some t ->
  assoc (map_key n) (own_binds a t) = None.
Proof.
  induction f' as [|f' IH]; intros f a l n t H Hd; [discriminate|].
  destruct f as [|f]; [discriminate|].
  cbn [def_target] in Hd. rewrite spec_resolve_S in H.
  destruct (nth_error a l) as [nd|] eqn:E; [|discriminate].
  destruct (akind nd) as [| |p|p ts] eqn:Kd.
  - injection Hd as <-. injection H as H. rewrite (own_binds_nth _ _ _ E). exact H.
  - injection Hd as <-. injection H as H. rewrite (own_binds_nth _ _ _ E). exact H.
  - injection Hd as <-. rewrite (own_binds_nth _ _ _ E).
    destruct (spec_resolve f a p n) as [[v|]|]; try discriminate. injection H as H. exact H.
  - destruct (ts_get_type ts n); [discriminate|].
    destruct (spec_resolve f a p n) as [[v|]|] eqn:Hp; try discriminate.
    eapply IH; eauto.
Qed.

Lemma set_binds_length a : forall t bs, length (set_binds a t bs) = length a.
Proof. induction a as [|nd a IH]; intros [|t] bs; cbn [set_binds length]; try reflexivity. rewrite IH. reflexivity. Qed.

Lemma same_kinds_set_binds a t bs : same_kinds a (set_binds a t bs).
Proof.
  intros l nd E. rewrite nth_set_binds. destruct (Nat.eqb l t); [|eauto].
  rewrite E. cbn [option_map]. eexists. split; reflexivity.
Qed.

Lemma define_resolves : forall f f' a l n v t,
  tree_ok a -> def_target f' a l = Some t -> assoc (map_key n) (own_binds a t) = None ->
  spec_resolve f a l n = Some None ->
  spec_resolve f (set_binds a t (own_binds a t ++ [(map_key n, v)])) l n = Some (Some v).
Proof.
  induction f as [|f IH]; intros f' a l n v t Ht Hd Hn H; [discriminate|].
  destruct f' as [|f']; [discriminate|].
  cbn [def_target] in Hd. rewrite spec_resolve_S in *. rewrite nth_set_binds.
  destruct (nth_error a l) as [nd|] eqn:E; [|discriminate].
  assert (Hl : l < length a) by (apply nth_error_Some; congruence).
  assert (Hnew : assoc (map_key n) (own_binds a t ++ [(map_key n, v)]) = Some v).
  { rewrite assoc_app, Hn. cbn [assoc]. rewrite str_eqb_refl. reflexivity. }
  destruct (akind nd) as [| |p|p ts] eqn:Kd.
  - injection Hd as <-. rewrite Nat.eqb_refl. cbn [option_map akind abind]. rewrite Kd, Hnew. reflexivity.
  - injection Hd as <-. rewrite Nat.eqb_refl. cbn [option_map akind abind]. rewrite Kd, Hnew. reflexivity.
  - injection Hd as <-. rewrite Nat.eqb_refl. cbn [option_map akind abind]. rewrite Kd.
    assert (Hp : p < l) by (eapply Ht; eauto; rewrite Kd; reflexivity).
    rewrite (resolve_same f a _ p n Ht (same_kinds_set_binds a l _) ltac:(lia)).
    + destruct (spec_resolve f a p n) as [[v'|]|]; try discriminate. rewrite Hnew. reflexivity.
    + intros q Hq. apply own_binds_set_other.
      destruct Hq as [->|Hq]; [lia|]. pose proof (ancestor_lt a p q Ht Hq). lia.
  - assert (Hp : p < l) by (eapply Ht; eauto; rewrite Kd; reflexivity).
    destruct (def_target_some f' a p t Ht Hd) as [Hle _].
    destruct (Nat.eqb_spec l t) as [->|_]; [lia|]. rewrite Kd.
    destruct (ts_get_type ts n); [discriminate|].
    destruct (spec_resolve f a p n) as [[v'|]|] eqn:Hp'; try discriminate.
    rewrite (IH f' a p n v t Ht Hd Hn Hp'). reflexivity.
Qed.

Theorem miss_not_sticky cfg ops l n v :
  cfg_wf cfg = true -> forallb op_wf ops = true -> op_wf (OLoad l n) = true ->
  tn_auth (norm n) = cfg_auth cfg ->
  result_after cfg ops (OLoad l n) = RFound None ->
  result_after cfg (ops ++ [OLoad l n]) (ODefine l n v) = RDefined v /\
  result_after cfg (ops ++ [OLoad l n; ODefine l n v]) (OLoad l n) = RFound (Some v).
Proof.
  intros Hc Hw Ho Hau H.
  assert (Hw1 : forallb op_wf (ops ++ [OLoad l n]) = true) by (rewrite forallb_app, Hw; cbn [forallb]; rewrite Ho; reflexivity).
  assert (Hod : op_wf (ODefine l n v) = true) by exact Ho.
  assert (Hw2 : forallb op_wf ((ops ++ [OLoad l n]) ++ [ODefine l n v]) = true)
    by (rewrite forallb_app, Hw1; cbn [forallb]; rewrite Hod; reflexivity).
  destruct (load_result_spec cfg ops l n Hc Hw Ho) as [Ha1 H1]. rewrite H in H1.
  pose proof (reachable_inv cfg ops Hc Hw) as Hi. pose proof (tree_ok_abs _ Hi) as Ht.
  destruct (Nat.ltb_spec l (length (fst (run cfg ops)))) as [Hl|Hl]; [|discriminate].
  rewrite Hau, str_eqb_refl in H1. cbn [negb] in H1.
  destruct (spec_resolve_top (abs (fst (run cfg ops))) l (norm n)) as [x|] eqn:Hr; [|discriminate].
  injection H1 as <-.
  destruct (set_entry_sim (S l) _ l (norm n) None Hi Hl ltac:(lia)) as (t & nd & Hd & _).
  pose proof (miss_target_unbound _ _ _ _ _ _ Hr Hd) as Hn.
  (* the definition *)
  destruct (result_after_sim cfg (ops ++ [OLoad l n]) _ Hc Hw1 Hod) as [Hi1 Hs].
  cbn [spec_step] in Hs. rewrite Ha1, abs_length in Hs.
  destruct (Nat.ltb_spec l (length (fst (run cfg ops)))) as [_|]; [|lia].
  unfold spec_define in Hs. rewrite Hd, Hn in Hs. injection Hs as Ha2 Hr2.
  split; [apply project_inv; [symmetry; exact Hr2|discriminate]|].
  (* the second lookup *)
  rewrite <- app_assoc in Hw2. cbn [app] in Hw2.
  destruct (load_result_spec cfg (ops ++ [OLoad l n; ODefine l n v]) l n Hc Hw2 Ho) as [_ H3].
  rewrite H3. change (ops ++ [OLoad l n; ODefine l n v]) with (ops ++ [OLoad l n] ++ [ODefine l n v]).
  rewrite app_assoc.
  assert (Hlen : length (fst (run cfg ((ops ++ [OLoad l n]) ++ [ODefine l n v]))) = length (fst (run cfg ops))).
  { rewrite <- !abs_length, <- Ha2, set_binds_length. reflexivity. }
  rewrite Hlen. destruct (Nat.ltb_spec l (length (fst (run cfg ops)))) as [_|]; [|lia].
  rewrite Hau, str_eqb_refl. cbn [negb]. rewrite <- Ha2. unfold spec_resolve_top in *.
  rewrite (define_resolves _ _ _ l (norm n) v t Ht Hd Hn Hr). reflexivity.
Qed.

(* ---------------------------------------------------------------------------------------------- *)
(* names differing only in letter case denote one entry *)

Definition cv (n n' : tname) : Prop :=
  tn_auth n = tn_auth n' /\ tn_ns n = tn_ns n' /\ to_lower (tn_name n) = to_lower (tn_name n').

Lemma cv_of_bool n n' : tn_case_variant n n' = true -> cv n n'.
Proof.
  unfold tn_case_variant. intros H. apply andb_prop in H. destruct H as [H H3].
  apply andb_prop in H. destruct H as [H1 H2].
  repeat split; apply str_eqb_eq; assumption.
Qed.

Lemma cv_map_key n n' : cv n n' -> map_key n = map_key n'.
Proof. intros (A & B & C). rewrite !map_key_shape, A, B, C. reflexivity. Qed.

Lemma cv_parts n n' : cv n n' -> parts n = parts n'.
Proof. intros (_ & _ & C). unfold parts. rewrite C. reflexivity. Qed.

Lemma cv_len n n' : cv n n' -> length (tn_name n) = length (tn_name n').
Proof. intros (_ & _ & C). rewrite <- (to_lower_length (tn_name n)), C. apply to_lower_length. Qed.

Lemma cv_get_type ts n n' : cv n n' -> ts_get_type ts n = ts_get_type ts n'.
Proof. intros H. unfold ts_get_type. rewrite (cv_parts _ _ H). destruct H as (A & B & _). rewrite A, B. reflexivity. Qed.

Lemma cv_relative n n' p : cv n n' ->
  match relative_to n p, relative_to n' p with
  | Some c, Some c' => cv c c'
  | None, None => True
  | _, _ => False
  end.
Proof.
  intros H. unfold relative_to, is_parent. rewrite (cv_parts _ _ H).
  destruct (Nat.ltb _ _ && prefix_eqb _ _); [|exact I].
  destruct H as (A & B & C).
  pose proof (child_name_lower (length (parts p)) (tn_name n)) as L1.
  pose proof (child_name_lower (length (parts p)) (tn_name n')) as L2.
  rewrite C in L1. rewrite L1 in L2.
  destruct (child_name _ (tn_name n)) as [s|], (child_name _ (tn_name n')) as [s'|]; cbn [option_map] in L2; try discriminate; [|exact I].
  injection L2 as L2. repeat split; assumption.
Qed.

Lemma cv_b_get es n n' : cv n n' -> b_get es n = b_get es n'.
Proof. intros H. unfold b_get. rewrite (cv_map_key _ _ H). reflexivity. Qed.
Lemma cv_b_has es n n' : cv n n' -> b_has es n = b_has es n'.
Proof. intros H. unfold b_has. rewrite (cv_map_key _ _ H). reflexivity. Qed.
Lemma cv_b_set es n n' e : cv n n' -> b_set es n e = b_set es n' e.
Proof. intros H. unfold b_set. rewrite (cv_map_key _ _ H). reflexivity. Qed.
Lemma cv_parented_after x l n n' : cv n n' -> parented_after x l n = parented_after x l n'.
Proof. intros H. destruct x as [st1 [[[v|]|]|c|]]; cbn [parented_after]; rewrite ?(cv_b_get _ _ _ H); reflexivity. Qed.

Lemma load_entry_cv : forall f st l n n', cv n n' -> load_entry f st l n = load_entry f st l n'.
Proof.
  induction f as [|f IH]; intros st l n n' H; [reflexivity|].
  rewrite !load_entry_S. destruct (nth_error st l) as [nd|]; [|reflexivity].
  destruct (nkind nd) as [| |p|p ts].
  - rewrite (cv_b_get _ _ _ H). reflexivity.
  - rewrite (cv_b_get _ _ _ H). reflexivity.
  - rewrite (IH st p n n' H). apply cv_parented_after. exact H.
  - rewrite (cv_get_type ts _ _ H). destruct (ts_get_type ts n'); [reflexivity|].
    rewrite (IH st p n n' H), (cv_parented_after _ l _ _ H).
    destruct (parented_after (load_entry f st p n') l n') as [st1 r].
    destruct r as [[e|]|c|]; try reflexivity.
    pose proof (cv_relative n n' (ts_typed_name ts) H) as R.
    destruct (relative_to n (ts_typed_name ts)) as [c|], (relative_to n' (ts_typed_name ts)) as [c'|]; try contradiction.
    + apply IH. exact R.
    + rewrite (cv_b_set _ _ _ None H). reflexivity.
Qed.

Lemma has_entry_cv : forall f st l n n', cv n n' -> has_entry f st l n = has_entry f st l n'.
Proof.
  induction f as [|f IH]; intros st l n n' H; [reflexivity|].
  rewrite !has_entry_S. destruct (nth_error st l) as [nd|]; [|reflexivity].
  destruct (nkind nd) as [| |p|p ts].
  - rewrite (cv_b_has _ _ _ H). reflexivity.
  - rewrite (cv_b_has _ _ _ H). reflexivity.
  - rewrite (IH st p n n' H), (cv_b_has _ _ _ H). reflexivity.
  - rewrite (cv_get_type ts _ _ H), (IH st p n n' H), (cv_b_has _ _ _ H).
    destruct (ts_get_type ts n'); [reflexivity|].
    destruct (has_entry f st p n') as [[|]|]; try reflexivity.
    destruct (b_has (nents nd) n'); [reflexivity|].
    pose proof (cv_relative n n' (ts_typed_name ts) H) as R.
    destruct (relative_to n (ts_typed_name ts)) as [c|], (relative_to n' (ts_typed_name ts)) as [c'|]; try contradiction.
    + apply IH. exact R.
    + reflexivity.
Qed.

Lemma set_entry_cv : forall f st l n n' e, cv n n' -> set_entry f st l n e = set_entry f st l n' e.
Proof.
  induction f as [|f IH]; intros st l n n' e H; [reflexivity|].
  rewrite !set_entry_S. destruct (nth_error st l) as [nd|]; [|reflexivity].
  destruct (nkind nd) as [| |p|p ts]; rewrite ?(cv_b_set _ _ _ e H); try reflexivity.
  apply IH. exact H.
Qed.

Lemma val_eqb_eq a b : val_eqb a b = true -> a = b.
Proof.
  destruct a as [i c t], b as [i' c' t']. unfold val_eqb. cbn [vid vcls vty]. intros H.
  apply andb_prop in H. destruct H as [H H3]. apply andb_prop in H. destruct H as [H1 H2].
  apply N.eqb_eq in H1. apply Bool.eqb_prop in H3. subst.
  destruct c as [x|], c' as [y|]; cbn in H2; try discriminate; [|reflexivity].
  apply N.eqb_eq in H2. subst. reflexivity.
Qed.

Theorem case_insensitive cfg st o o' : op_case_variant o o' = true -> step cfg st o = step cfg st o'.
Proof.
  destruct o as [|l|l|l t|l n v|l n|l n|l n|l n|l p], o' as [|l'|l'|l' t'|l' n' v'|l' n'|l' n'|l' n'|l' n'|l' p'];
    cbn [op_case_variant]; try discriminate; intros H.
  - apply andb_prop in H. destruct H as [H Hv]. apply andb_prop in H. destruct H as [Hl Hn].
    apply Nat.eqb_eq in Hl. apply val_eqb_eq in Hv. apply cv_of_bool in Hn. subst.
    cbn [step]. rewrite (set_entry_cv _ _ _ _ _ _ Hn). reflexivity.
  - apply andb_prop in H. destruct H as [Hl Hn]. apply Nat.eqb_eq in Hl. apply cv_of_bool in Hn. subst.
    cbn [step]. unfold fuel_of. rewrite (cv_len _ _ Hn), (load_entry_cv _ _ _ _ _ Hn).
    destruct Hn as (A & B & C). rewrite A.
    destruct (Nat.ltb l' (length st)); [|reflexivity].
    destruct (negb _); [reflexivity|].
    destruct (load_entry _ st l' (norm n')) as [st1 [[[?|]|]|?|]]; try reflexivity.
    rewrite (set_entry_cv _ _ _ _ _ None (conj A (conj B C))). reflexivity.
  - apply andb_prop in H. destruct H as [Hl Hn]. apply Nat.eqb_eq in Hl. apply cv_of_bool in Hn. subst.
    cbn [step]. unfold fuel_of. rewrite (cv_len _ _ Hn), (load_entry_cv _ _ _ _ _ Hn). reflexivity.
  - apply andb_prop in H. destruct H as [Hl Hn]. apply Nat.eqb_eq in Hl. apply cv_of_bool in Hn. subst.
    cbn [step]. rewrite (cv_b_get _ _ _ Hn). reflexivity.
  - apply andb_prop in H. destruct H as [Hl Hn]. apply Nat.eqb_eq in Hl. apply cv_of_bool in Hn. subst.
    cbn [step]. unfold has_entry_top, fuel_of. rewrite (cv_len _ _ Hn), (has_entry_cv _ _ _ _ _ Hn). reflexivity.
Qed.

(* ---------------------------------------------------------------------------------------------- *)
(* discovery *)

Lemma in_ins_key x k l : In x (ins_key k l) <-> x = k \/ In x l.
Proof.
  induction l as [|y l IH]; cbn [ins_key In]; [intuition congruence|].
  destruct (str_ltb y k); cbn [In]; [rewrite IH|]; intuition congruence.
Qed.

Lemma in_sort_keys x l : In x (sort_keys l) <-> In x l.
Proof.
  induction l as [|y l IH]; [reflexivity|]. cbn [sort_keys fold_right]. fold (sort_keys l).
  rewrite in_ins_key, IH. cbn [In]. intuition congruence.
Qed.

Lemma NoDup_ins_key k l : NoDup l -> ~ In k l -> NoDup (ins_key k l).
Proof.
  induction l as [|y l IH]; intros Hnd Hni; cbn [ins_key]; [constructor; [intros []|constructor]|].
  inversion Hnd as [|? ? Hy Hl]; subst.
  destruct (str_ltb y k).
  - constructor; [|apply IH; [exact Hl|intros I; apply Hni; right; exact I]].
    rewrite in_ins_key. intros [->|I]; [apply Hni; left; reflexivity|contradiction].
  - constructor; assumption.
Qed.

Lemma NoDup_sort_keys l : NoDup l -> NoDup (sort_keys l).
Proof.
  induction l as [|y l IH]; intros H; [constructor|]. inversion H; subst.
  cbn [sort_keys fold_right]. fold (sort_keys l). apply NoDup_ins_key; [apply IH; assumption|].
  rewrite in_sort_keys. assumption.
Qed.

Lemma sorted_nodup_strict l : sorted l -> NoDup l -> strictly_sorted l.
Proof.
  induction l as [|x l IH]; intros Hs Hn; [exact I|].
  destruct l as [|y l]; [exact I|]. destruct Hs as [Hyx Hs]. inversion Hn as [|? ? Hx Hn']; subst.
  split; [|apply IH; assumption].
  destruct (str_ltb x y) eqn:E; [reflexivity|]. exfalso. apply Hx. left.
  symmetry. apply str_ltb_total; assumption.
Qed.

Lemma NoDup_map_filter {A B} (f : A -> B) (P : A -> bool) l : NoDup (map f l) -> NoDup (map f (filter P l)).
Proof.
  induction l as [|x l IH]; cbn [map filter]; intros H; [constructor|]. inversion H as [|? ? Hx Hl]; subst.
  destruct (P x); cbn [map]; [|apply IH; exact Hl].
  constructor; [|apply IH; exact Hl]. intros I. apply Hx. apply in_map_iff in I. destruct I as (y & E & I).
  apply filter_In in I. apply in_map_iff. exists y. tauto.
Qed.

Lemma NoDup_app_disjoint {A} (l1 l2 : list A) :
  NoDup l1 -> NoDup l2 -> (forall x, In x l1 -> In x l2 -> False) -> NoDup (l1 ++ l2).
Proof.
  induction l1 as [|x l1 IH]; intros H1 H2 Hd; [exact H2|]. inversion H1 as [|? ? Hx Hl]; subst.
  cbn [app]. constructor.
  - rewrite in_app_iff. intros [I|I]; [contradiction|]. eapply Hd; [left; reflexivity|exact I].
  - apply IH; try assumption. intros y I1 I2. eapply Hd; [right; exact I1|exact I2].
Qed.

Lemma in_keys_assoc {V} k (l : list (str * V)) : In k (map fst l) -> exists v, assoc k l = Some v.
Proof.
  intros H. destruct (assoc k l) as [v|] eqn:E; [eauto|]. apply assoc_none_notin in E. contradiction.
Qed.

(* more fuel does not change an answer *)
Lemma resolve_mono : forall f f' a l n x, spec_resolve f a l n = Some x -> f <= f' -> spec_resolve f' a l n = Some x.
Proof.
  induction f as [|f IH]; intros f' a l n x H Hle; [discriminate|].
  destruct f' as [|f']; [lia|]. rewrite spec_resolve_S in *.
  destruct (nth_error a l) as [nd|]; [|discriminate].
  destruct (akind nd) as [| |p|p ts]; try exact H.
  - destruct (spec_resolve f a p n) as [y|] eqn:E; [|discriminate].
    rewrite (IH f' a p n y E ltac:(lia)). exact H.
  - destruct (ts_get_type ts n); [exact H|].
    destruct (spec_resolve f a p n) as [y|] eqn:E; [|discriminate].
    rewrite (IH f' a p n y E ltac:(lia)). destruct y; [exact H|].
    destruct (relative_to n (ts_typed_name ts)); [|exact H]. apply (IH f'); [exact H|lia].
Qed.

Lemma resolve_adequate st l n f :
  inv st -> tn_wf n = true -> l < length st -> l + length (tn_name n) < f ->
  exists x, spec_resolve f (abs st) l n = Some x.
Proof. intros Hi Hw Hl Hf. destruct (has_entry_sim f st l n Hi Hw Hl Hf) as (x & H & _). eauto. Qed.

Lemma has_of_resolve st l n f v :
  inv st -> tn_wf n = true -> l < length st ->
  spec_resolve f (abs st) l n = Some (Some v) -> spec_has (abs st) l n = true.
Proof.
  intros Hi Hw Hl H. unfold spec_has, spec_resolve_top.
  destruct (resolve_adequate st l n (fuel_of l n) Hi Hw Hl ltac:(unfold fuel_of; lia)) as (x & Hx).
  pose proof (resolve_mono _ (max f (fuel_of l n)) _ _ _ _ H ltac:(lia)) as A.
  pose proof (resolve_mono _ (max f (fuel_of l n)) _ _ _ _ Hx ltac:(lia)) as B.
  rewrite Hx. rewrite A in B. injection B as <-. reflexivity.
Qed.

Lemma resolve_of_has_false st l n f :
  inv st -> tn_wf n = true -> l < length st -> l + length (tn_name n) < f ->
  spec_has (abs st) l n = false -> spec_resolve f (abs st) l n = Some None.
Proof.
  intros Hi Hw Hl Hf H. destruct (resolve_adequate st l n f Hi Hw Hl Hf) as (x & Hx). rewrite Hx.
  destruct x as [v|]; [|reflexivity].
  rewrite (has_of_resolve st l n f v Hi Hw Hl Hx) in H. discriminate.
Qed.

(* type sets *)
Definition tsets_ok (st : lstate) : Prop :=
  forall l nd p ts, nth_error st l = Some nd -> nkind nd = KTypeSet p ts -> ts_wf ts = true.

Definition atsets_ok (a : astate) : Prop :=
  forall l nd p ts, nth_error a l = Some nd -> akind nd = KTypeSet p ts -> ts_wf ts = true.

Lemma atsets_ok_app a k :
  atsets_ok a -> (forall p ts, k = KTypeSet p ts -> ts_wf ts = true) -> atsets_ok (a ++ [mkA k []]).
Proof.
  intros H Hk l nd p ts E K. destruct (Nat.lt_ge_cases l (length a)) as [Hlt|Hge].
  - rewrite nth_error_app1 in E by exact Hlt. eauto.
  - rewrite nth_error_app2 in E by exact Hge. destruct (l - length a) as [|[|d]]; cbn in E; try discriminate.
    injection E as <-. cbn [akind] in K. eauto.
Qed.

Lemma atsets_ok_set_binds a t bs : atsets_ok a -> atsets_ok (set_binds a t bs).
Proof.
  intros H l nd p ts E K. rewrite nth_set_binds in E. destruct (Nat.eqb l t); [|eauto].
  destruct (nth_error a l) as [nd0|] eqn:E0; [|discriminate]. injection E as <-. cbn [akind] in K. eauto.
Qed.

Lemma spec_step_tsets cfg a o a' r :
  cfg_wf cfg = true -> atsets_ok a -> spec_step cfg a o = (a', r) -> atsets_ok a'.
Proof.
  intros Hc Ha.
  destruct o as [|l|l|l t|l n0 v|l n0|l n0|l n0|l n0|l p]; cbn [spec_step]; unfold spec_add;
    try (destruct (Nat.ltb l (length a)); [|intros H; injection H as <- _; exact Ha]);
    try (intros H; injection H as <- _; first [exact Ha|apply atsets_ok_app; [exact Ha|discriminate]]).
  - destruct (nth_error (cfg_tsets cfg) t) as [ts|] eqn:E; intros H; injection H as <- _; [|exact Ha].
    apply atsets_ok_app; [exact Ha|]. intros p ts' K. injection K as _ <-.
    unfold cfg_wf in Hc. apply andb_prop in Hc. destruct Hc as [_ Hc]. rewrite forallb_forall in Hc.
    apply Hc. eapply nth_error_In; eauto.
  - unfold spec_define. destruct (def_target (S l) a l) as [t|]; [|intros H; injection H as <- _; exact Ha].
    destruct (assoc (map_key (norm n0)) (own_binds a t)); intros H; injection H as <- _; [exact Ha|].
    apply atsets_ok_set_binds. exact Ha.
Qed.

Lemma spec_run_from_tsets cfg : forall ops a, cfg_wf cfg = true -> atsets_ok a -> atsets_ok (fst (spec_run_from cfg a ops)).
Proof.
  induction ops as [|o ops IH]; intros a Hc Ha; [exact Ha|].
  cbn [spec_run_from]. destruct (spec_step cfg a o) as [a1 r] eqn:E.
  specialize (IH a1 Hc (spec_step_tsets cfg a o a1 r Hc Ha E)).
  destruct (spec_run_from cfg a1 ops). exact IH.
Qed.

Lemma reachable_tsets cfg ops :
  cfg_wf cfg = true -> forallb op_wf ops = true -> tsets_ok (fst (run cfg ops)).
Proof.
  intros Hc Hw l nd p ts E K.
  assert (A : atsets_ok (abs (fst (run cfg ops)))).
  { rewrite (loader_state_refines cfg ops Hc Hw). unfold spec_run. apply spec_run_from_tsets; [exact Hc|].
    intros [|[|l0]] nd0 p0 ts0 E0 K0; cbn in E0; try discriminate. injection E0 as <-. discriminate. }
  eapply (A l (abs_node nd) p ts); [rewrite nth_abs, E; reflexivity|exact K].
Qed.

(* a type of the set is found under its lower-cased (map key) name *)
Lemma split_cc_aux_single s : forall cur x, split_cc_aux s cur = [x] -> x = rev cur ++ s.
Proof.
  induction s as [|c s1 IH]; intros cur x H.
  - cbn in H. injection H as <-. rewrite app_nil_r. reflexivity.
  - destruct s1 as [|d s2].
    + cbn in H. injection H as <-. reflexivity.
    + rewrite split_cc_aux_cons2 in H. destruct (N.eqb c c_colon && N.eqb d c_colon).
      * injection H as _ H. exfalso. exact (split_cc_nonempty s2 H).
      * apply IH in H. rewrite H. cbn [rev]. rewrite <- app_assoc. reflexivity.
Qed.

Definition dc_step (name : str) (acc : option str) (kv : str * val) : option str :=
  if str_eqb (to_lower (fst kv)) name then Some (fst kv) else acc.

Lemma dc_fold_none name : forall l acc,
  existsb (fun kv : str * val => str_eqb (to_lower (fst kv)) name) l = false -> fold_left (dc_step name) l acc = acc.
Proof.
  induction l as [|kv l IH]; intros acc H; [reflexivity|].
  cbn [existsb] in H. apply orb_false_iff in H. destruct H as [H0 H1].
  cbn [fold_left]. unfold dc_step at 2. rewrite H0. apply IH. exact H1.
Qed.

Lemma dc_fold_some name : forall l acc,
  existsb (fun kv : str * val => str_eqb (to_lower (fst kv)) name) l = true ->
  exists c, fold_left (dc_step name) l acc = Some c /\ In c (map fst l).
Proof.
  induction l as [|kv l IH]; intros acc H; [discriminate|].
  cbn [existsb] in H. cbn [fold_left map In].
  destruct (existsb (fun kv0 : str * val => str_eqb (to_lower (fst kv0)) name) l) eqn:E1.
  - destruct (IH (dc_step name acc kv) eq_refl) as (c & Hc & Ic). exists c. tauto.
  - rewrite orb_false_r in H. rewrite (dc_fold_none name l _ E1). unfold dc_step. rewrite H.
    exists (fst kv). tauto.
Qed.

Lemma ts_get_type_lowered ts kv :
  ts_wf ts = true -> In kv (ts_types ts) -> exists v, ts_get_type ts (lowered (ts_tn ts kv)) = Some v.
Proof.
  unfold ts_wf. intros H I. apply andb_prop in H. destruct H as [H _]. apply andb_prop in H. destruct H as [H Hall].
  apply andb_prop in H. destruct H as [_ Hau]. apply str_eqb_eq in Hau.
  rewrite forallb_forall in Hall. specialize (Hall kv I).
  apply andb_prop in Hall. destruct Hall as [Hall Hst]. apply andb_prop in Hall. destruct Hall as [Hw Hq].
  apply negb_true_iff in Hq. apply negb_true_iff in Hst.
  unfold ts_get_type. unfold lowered at 1 2. cbn [tn_ns tn_auth]. unfold ts_tn at 1 2. unfold new_typed_name at 1 2.
  cbn [tn_ns tn_auth]. rewrite Hau, !str_eqb_refl.
  cbn [andb negb].
  rewrite parts_lowered.
  assert (Hp : parts (ts_tn ts kv) = [to_lower (fst kv)]).
  { unfold is_qualified in Hq. apply Nat.ltb_ge in Hq.
    unfold parts, ts_tn, new_typed_name in *. cbn [tn_name] in *. rewrite (trim_cc_not_starts _ Hst) in *.
    destruct (split_cc (to_lower (fst kv))) as [|x [|y tl]] eqn:E; [exfalso; eapply split_cc_nonempty; eauto| |cbn in Hq; lia].
    unfold split_cc in E. apply split_cc_aux_single in E. rewrite E. reflexivity. }
  rewrite Hp. unfold ts_get_type2.
  destruct (assoc (to_lower (fst kv)) (ts_types ts)) as [v|]; [eauto|].
  assert (Hex : existsb (fun kv0 : str * val => str_eqb (to_lower (fst kv0)) (to_lower (fst kv))) (ts_types ts) = true).
  { apply existsb_exists. exists kv. split; [exact I|apply str_eqb_refl]. }
  unfold dc_to_cc. change (fun (acc : option str) (kv0 : str * val) =>
     if str_eqb (to_lower (fst kv0)) (to_lower (fst kv)) then Some (fst kv0) else acc) with (dc_step (to_lower (fst kv))).
  destruct (dc_fold_some _ _ None Hex) as (c & Hc & Ic). rewrite Hc. apply in_keys_assoc. exact Ic.
Qed.

Lemma keys_sat_in Q bs k :
  (forall k, In k (map fst bs) -> key_ok k = true) ->
  (In k (keys_sat Q bs) <-> exists tn, In k (map fst bs) /\ tn_of_key k = Some tn /\ map_key tn = k /\ Q tn = true).
Proof.
  intros Hk. unfold keys_sat. rewrite filter_In. unfold key_sat. split.
  - intros [I S]. destruct (key_ok_inv k (Hk k I)) as (tn & T & M & _). rewrite T in S. exists tn. tauto.
  - intros (tn & I & T & _ & S). rewrite T. tauto.
Qed.

Definition inset_of (ts : tset) : list str := map (fun kv => map_key (ts_tn ts kv)) (ts_types ts).

Lemma listed_inv a l tn nd :
  listed a l tn -> nth_error a l = Some nd ->
  match akind nd with
  | KBasic | KDep => exists k, In k (map fst (abind nd)) /\ tn_of_key k = Some tn
  | KParented p => listed a p tn \/ exists k, In k (map fst (abind nd)) /\ tn_of_key k = Some tn /\ spec_has a p tn = false
  | KTypeSet p ts => (exists kv, In kv (ts_types ts) /\ tn = ts_tn ts kv) \/ (listed a p tn /\ mem_key (map_key tn) (inset_of ts) = false)
  end.
Proof.
  intros L E. destruct L as [l nd0 k tn E0 Hp I T|l nd0 p tn E0 K L|l nd0 p k tn E0 K I T Hs|l nd0 p ts kv E0 K I|l nd0 p ts tn E0 K L Hm];
    rewrite E in E0; injection E0 as <-.
  - destruct (akind nd); try discriminate; eauto.
  - rewrite K. left. exact L.
  - rewrite K. right. eauto.
  - rewrite K. left. eauto.
  - rewrite K. right. split; assumption.
Qed.

Definition keys_ok (a : astate) : Prop :=
  forall l nd k, nth_error a l = Some nd -> In k (map fst (abind nd)) -> key_ok k = true.

Lemma keys_ok_abs st : inv st -> keys_ok (abs st).
Proof.
  intros Hi l nd k E I. rewrite nth_abs in E. destruct (nth_error st l) as [nd0|] eqn:E0; [|discriminate].
  injection E as <-. cbn [abs_node abind] in I. eapply inv_keys; eauto. apply abs_keys_incl. exact I.
Qed.

(* what a discovery returns: exactly the keys of the listed names that satisfy the predicate *)
Lemma discover_members : forall f a l P ks,
  keys_ok a -> spec_discover f a l P = Some ks ->
  forall k, In k ks <-> exists tn, listed a l tn /\ map_key tn = k /\ P tn = true.
Proof.
  induction f as [|f IH]; intros a l P ks Hk H k; [discriminate|].
  rewrite spec_discover_S in H. destruct (nth_error a l) as [nd|] eqn:E; [|discriminate].
  assert (Hko : forall k, In k (map fst (abind nd)) -> key_ok k = true) by (intros k0; eapply Hk; eauto).
  assert (Hroot : parent_of (akind nd) = None -> Some (sort_keys (keys_sat P (abind nd))) = Some ks ->
            (In k ks <-> exists tn, listed a l tn /\ map_key tn = k /\ P tn = true)).
  { intros Hp H'. injection H' as <-. rewrite in_sort_keys, (keys_sat_in P _ k Hko). split.
    - intros (tn & I & T & M & Q). exists tn. split; [eapply listed_root; eauto|tauto].
    - intros (tn & L & M & Q). pose proof (listed_inv a l tn nd L E) as Li.
      assert (Hx : exists k0, In k0 (map fst (abind nd)) /\ tn_of_key k0 = Some tn)
        by (destruct (akind nd); try discriminate; exact Li).
      destruct Hx as (k0 & I & T). destruct (key_ok_inv k0 (Hko k0 I)) as (tn' & T' & M' & _).
      assert (Hk0 : k0 = k) by congruence. rewrite Hk0 in I, T. exists tn. tauto. }
  destruct (akind nd) as [| |p|p ts] eqn:K; try (apply Hroot; [reflexivity|exact H]).
  - destruct (spec_discover f a p P) as [found|] eqn:D; [|discriminate]. injection H as <-.
    rewrite in_sort_keys, in_app_iff, (IH a p P found Hk D k), (keys_sat_in _ _ k Hko). split.
    + intros [(tn & L & M & Q)|(tn & I & T & M & Q)].
      * exists tn. split; [eapply listed_parent; eauto|tauto].
      * apply andb_prop in Q. destruct Q as [Q1 Q2]. apply negb_true_iff in Q1.
        exists tn. split; [eapply listed_own; eauto|tauto].
    + intros (tn & L & M & Q). pose proof (listed_inv a l tn nd L E) as Li. rewrite K in Li.
      destruct Li as [Lp|(k0 & I & T & Hs)]; [left; eauto|right].
      destruct (key_ok_inv k0 (Hko k0 I)) as (tn' & T' & M' & _).
      assert (Hk0 : k0 = k) by congruence. rewrite Hk0 in I, T. exists tn. rewrite Hs, Q. tauto.
  - cbv zeta in H.
    destruct (spec_discover f a p _) as [pf|] eqn:D; [|discriminate]. injection H as <-.
    rewrite in_sort_keys, in_app_iff, (IH a p _ pf Hk D k), in_map_iff. split.
    + intros [(tn & M & I)|(tn & L & M & Q)].
      * apply filter_In in I. destruct I as [I Q]. apply in_map_iff in I. destruct I as (kv & <- & I).
        exists (ts_tn ts kv). split; [eapply listed_tset; eauto|tauto].
      * apply andb_prop in Q. destruct Q as [Q1 Q2]. apply negb_true_iff in Q1. rewrite map_map in Q1.
        exists tn. split; [eapply listed_tset_parent; eauto|tauto].
    + intros (tn & L & M & Q). pose proof (listed_inv a l tn nd L E) as Li. rewrite K in Li.
      destruct Li as [(kv & I & ->)|(Lp & Hm)].
      * left. exists (ts_tn ts kv). split; [exact M|]. apply filter_In. split; [|exact Q].
        apply in_map_iff. exists kv. split; [reflexivity|exact I].
      * right. exists tn. split; [exact Lp|]. split; [exact M|]. rewrite map_map.
        unfold inset_of in Hm. unfold ts_tn in Hm. rewrite Hm, Q. reflexivity.
Qed.

Lemma tsets_ok_nth st l nd p ts :
  tsets_ok st -> nth_error st l = Some nd -> nkind nd = KTypeSet p ts -> ts_wf ts = true.
Proof. intros H E K. eapply H; eauto. Qed.

Lemma ts_wf_tn ts kv : ts_wf ts = true -> In kv (ts_types ts) -> tn_wf (ts_tn ts kv) = true.
Proof.
  unfold ts_wf. intros H I. apply andb_prop in H. destruct H as [H _]. apply andb_prop in H. destruct H as [_ Hall].
  rewrite forallb_forall in Hall. specialize (Hall kv I).
  apply andb_prop in Hall. destruct Hall as [Hall _]. apply andb_prop in Hall. tauto.
Qed.

Lemma ts_wf_nodup ts : ts_wf ts = true -> NoDup (inset_of ts).
Proof. unfold ts_wf. intros H. apply andb_prop in H. destruct H as [_ H]. apply nodup_keys_NoDup. exact H. Qed.

(* every discovered name resolves through the loader *)
Lemma discover_has : forall f st l P ks,
  inv st -> tsets_ok st -> l < length st -> spec_discover f (abs st) l P = Some ks ->
  forall k tn, In k ks -> tn_of_key k = Some tn -> tn_wf tn = true -> map_key tn = k ->
  spec_has (abs st) l tn = true.
Proof.
  induction f as [|f IH]; intros st l P ks Hi Hts Hl H k tn Hin T Hw M; [discriminate|].
  rewrite spec_discover_S, nth_abs in H.
  destruct (nth_error st l) as [nd|] eqn:E; [|apply nth_error_None in E; lia].
  cbn [option_map abs_node akind abind] in H.
  assert (Hroot : nkind nd = KBasic \/ nkind nd = KDep -> Some (sort_keys (keys_sat P (abs_ents (nents nd)))) = Some ks ->
            spec_has (abs st) l tn = true).
  { intros Hkd H'. injection H' as <-. rewrite in_sort_keys in Hin. unfold keys_sat in Hin. apply filter_In in Hin.
    destruct Hin as [Hin _]. destruct (in_keys_assoc _ _ Hin) as (v & Hv).
    apply (has_of_resolve st l tn 1 v Hi Hw Hl). rewrite spec_resolve_S, nth_abs, E. cbn [option_map abs_node akind abind].
    rewrite M, Hv. destruct Hkd as [-> | ->]; reflexivity. }
  destruct (nkind nd) as [| |p|p ts] eqn:K; try (apply Hroot; [tauto|exact H]).
  - assert (Hp : p < l) by (eapply inv_parent; eauto; rewrite K; reflexivity).
    destruct (spec_discover f (abs st) p P) as [found|] eqn:D; [|discriminate]. injection H as <-.
    rewrite in_sort_keys in Hin. apply in_app_iff in Hin. destruct Hin as [Hin|Hin].
    + pose proof (IH st p P found Hi Hts ltac:(lia) D k tn Hin T Hw M) as Hh.
      unfold spec_has, spec_resolve_top in Hh.
      destruct (spec_resolve (fuel_of p tn) (abs st) p tn) as [[v|]|] eqn:R; try discriminate.
      apply (has_of_resolve st l tn (S (fuel_of p tn)) v Hi Hw Hl).
      rewrite spec_resolve_S, nth_abs, E. cbn [option_map abs_node akind abind]. rewrite K, R. reflexivity.
    + unfold keys_sat in Hin. apply filter_In in Hin. destruct Hin as [Hin Hs]. unfold key_sat in Hs. rewrite T in Hs.
      apply andb_prop in Hs. destruct Hs as [Hs _]. apply negb_true_iff in Hs.
      destruct (in_keys_assoc _ _ Hin) as (v & Hv).
      pose proof (resolve_of_has_false st p tn (fuel_of p tn) Hi Hw ltac:(lia) ltac:(unfold fuel_of; lia) Hs) as R.
      apply (has_of_resolve st l tn (S (fuel_of p tn)) v Hi Hw Hl).
      rewrite spec_resolve_S, nth_abs, E. cbn [option_map abs_node akind abind]. rewrite K, R, M, Hv. reflexivity.
  - assert (Hp : p < l) by (eapply inv_parent; eauto; rewrite K; reflexivity).
    pose proof (tsets_ok_nth st l nd p ts Hts E K) as Htw.
    cbv zeta in H. destruct (spec_discover f (abs st) p _) as [pf|] eqn:D; [|discriminate]. injection H as <-.
    rewrite in_sort_keys in Hin. apply in_app_iff in Hin. destruct Hin as [Hin|Hin].
    + apply in_map_iff in Hin. destruct Hin as (tnd & Mk & Hin). apply filter_In in Hin. destruct Hin as [Hin _].
      apply in_map_iff in Hin. destruct Hin as (kv & <- & Ikv).
      change (new_typed_name ns_type (fst kv) (ts_auth ts)) with (ts_tn ts kv) in Mk.
      pose proof (tn_of_key_map_key _ (ts_wf_tn ts kv Htw Ikv)) as T'. rewrite Mk, T in T'. injection T' as ->.
      destruct (ts_get_type_lowered ts kv Htw Ikv) as (v & Hv).
      apply (has_of_resolve st l _ 1 v Hi Hw Hl).
      rewrite spec_resolve_S, nth_abs, E. cbn [option_map abs_node akind abind]. rewrite K, Hv. reflexivity.
    + pose proof (IH st p _ pf Hi Hts ltac:(lia) D k tn Hin T Hw M) as Hh.
      unfold spec_has, spec_resolve_top in Hh.
      destruct (spec_resolve (fuel_of p tn) (abs st) p tn) as [[v|]|] eqn:R; try discriminate.
      destruct (ts_get_type ts tn) as [tp|] eqn:G.
      * apply (has_of_resolve st l tn 1 tp Hi Hw Hl).
        rewrite spec_resolve_S, nth_abs, E. cbn [option_map abs_node akind abind]. rewrite K, G. reflexivity.
      * apply (has_of_resolve st l tn (S (fuel_of p tn)) v Hi Hw Hl).
        rewrite spec_resolve_S, nth_abs, E. cbn [option_map abs_node akind abind]. rewrite K, G, R. reflexivity.
Qed.

Lemma discover_nodup : forall f st l P ks,
  inv st -> tsets_ok st -> l < length st -> spec_discover f (abs st) l P = Some ks -> NoDup ks.
Proof.
  induction f as [|f IH]; intros st l P ks Hi Hts Hl H; [discriminate|].
  pose proof H as Hfull.
  rewrite spec_discover_S, nth_abs in H.
  destruct (nth_error st l) as [nd|] eqn:E; [|apply nth_error_None in E; lia].
  cbn [option_map abs_node akind abind] in H.
  assert (Hown : forall Q, NoDup (keys_sat Q (abs_ents (nents nd)))).
  { intros Q. unfold keys_sat. apply NoDup_filter. apply abs_nodup. eapply inv_nodup; eauto. }
  destruct (nkind nd) as [| |p|p ts] eqn:K.
  - injection H as <-. apply NoDup_sort_keys. apply Hown.
  - injection H as <-. apply NoDup_sort_keys. apply Hown.
  - assert (Hp : p < l) by (eapply inv_parent; eauto; rewrite K; reflexivity).
    destruct (spec_discover f (abs st) p P) as [found|] eqn:D; [|discriminate]. injection H as <-.
    apply NoDup_sort_keys. apply NoDup_app_disjoint; [apply (IH st p P found Hi Hts ltac:(lia) D)|apply Hown|].
    intros k I1 I2. unfold keys_sat in I2. apply filter_In in I2. destruct I2 as [I2 Hs].
    assert (Hko : key_ok k = true) by (eapply inv_keys; eauto; apply abs_keys_incl; exact I2).
    destruct (key_ok_inv k Hko) as (tn & T & M & Hw).
    unfold key_sat in Hs. rewrite T in Hs. apply andb_prop in Hs. destruct Hs as [Hs _]. apply negb_true_iff in Hs.
    rewrite (discover_has f st p P found Hi Hts ltac:(lia) D k tn I1 T Hw M) in Hs. discriminate.
  - assert (Hp : p < l) by (eapply inv_parent; eauto; rewrite K; reflexivity).
    pose proof (tsets_ok_nth st l nd p ts Hts E K) as Htw.
    cbv zeta in H. destruct (spec_discover f (abs st) p _) as [pf|] eqn:D; [|discriminate]. injection H as <-.
    apply NoDup_sort_keys. apply NoDup_app_disjoint.
    + apply NoDup_map_filter. rewrite map_map. apply (ts_wf_nodup ts Htw).
    + apply (IH st p _ pf Hi Hts ltac:(lia) D).
    + intros k I1 I2.
      apply (discover_members f (abs st) p _ pf (keys_ok_abs st Hi) D) in I2. destruct I2 as (tn & _ & M & Q).
      apply andb_prop in Q. destruct Q as [Q _]. apply negb_true_iff in Q. rewrite M in Q.
      apply in_map_iff in I1. destruct I1 as (tnd & Mk & I1). apply filter_In in I1. destruct I1 as [I1 _].
      assert (Hm : mem_key k (map map_key (map (fun kv : str * val => new_typed_name ns_type (fst kv) (ts_auth ts)) (ts_types ts))) = true).
      { unfold mem_key. apply existsb_exists. exists k. split; [|apply str_eqb_refl].
        apply in_map_iff. exists tnd. tauto. }
      rewrite Hm in Q. discriminate.
Qed.

(* Discover after any history: strictly sorted (so each name once), and exactly the listed names that satisfy
   the predicate; every discovered name resolves through the loader. *)
Theorem discover_exact cfg ops l P ks :
  cfg_wf cfg = true -> forallb op_wf ops = true ->
  discover (S l) (fst (run cfg ops)) l P = DNames ks ->
  strictly_sorted ks /\ NoDup ks /\
  (forall k, In k ks <-> exists tn, listed (abs (fst (run cfg ops))) l tn /\ map_key tn = k /\ P tn = true) /\
  (forall k tn, In k ks -> tn_of_key k = Some tn -> tn_wf tn = true -> map_key tn = k ->
     spec_has (abs (fst (run cfg ops))) l tn = true).
Proof.
  intros Hc Hw H. pose proof (reachable_inv cfg ops Hc Hw) as Hi. pose proof (reachable_tsets cfg ops Hc Hw) as Hts.
  destruct (Nat.lt_ge_cases l (length (fst (run cfg ops)))) as [Hl|Hl].
  - destruct (discover_sim (S l) _ l P Hi Hl ltac:(lia)) as (ks' & Hd & Hs & Hsorted).
    rewrite Hd in H. injection H as <-.
    pose proof (discover_nodup _ _ _ _ _ Hi Hts Hl Hs) as Hnd.
    split; [apply sorted_nodup_strict; assumption|]. split; [exact Hnd|]. split.
    + apply (discover_members _ _ _ _ _ (keys_ok_abs _ Hi) Hs).
    + intros k tn. eapply discover_has; eauto.
  - rewrite discover_S in H. destruct (nth_error (fst (run cfg ops)) l) eqn:E; [|discriminate].
    assert (l < length (fst (run cfg ops))) by (apply nth_error_Some; congruence). lia.
Qed.

(* a lookup — failed or not — never changes what any loader discovers (no cached miss is listed) *)
Theorem lookup_not_discovered cfg ops o l P :
  cfg_wf cfg = true -> forallb op_wf (ops ++ [o]) = true ->
  (match o with OLoad _ _ | OLoadEntry _ _ | OGetEntry _ _ | OHas _ _ | ODiscover _ _ => True | _ => False end) ->
  discover (S l) (fst (run cfg (ops ++ [o]))) l P = discover (S l) (fst (run cfg ops)) l P.
Proof.
  intros Hc Hw Ho. pose proof Hw as Hw'. apply forallb_snoc in Hw'. destruct Hw' as [Hw1 Hwo].
  destruct (result_after_sim cfg ops o Hc Hw1 Hwo) as [Hi Hs].
  pose proof (reachable_inv cfg _ Hc Hw) as Hi'.
  assert (Ha : abs (fst (run cfg (ops ++ [o]))) = abs (fst (run cfg ops))).
  { destruct o; try contradiction; cbn [spec_step] in Hs; rewrite abs_length in Hs;
      destruct (Nat.ltb _ _); injection Hs as Hs _; symmetry; exact Hs. }
  destruct (Nat.lt_ge_cases l (length (fst (run cfg ops)))) as [Hl|Hl].
  - assert (Hl' : l < length (fst (run cfg (ops ++ [o])))) by (rewrite (abs_eq_length _ _ Ha); exact Hl).
    destruct (discover_sim (S l) _ l P Hi Hl ltac:(lia)) as (ks & Hd & Hsp & _).
    destruct (discover_sim (S l) _ l P Hi' Hl' ltac:(lia)) as (ks' & Hd' & Hsp' & _).
    rewrite Hd, Hd'. rewrite Ha, Hsp in Hsp'. injection Hsp' as ->. reflexivity.
  - rewrite !discover_S.
    assert (E1 : nth_error (fst (run cfg ops)) l = None) by (apply nth_error_None; exact Hl).
    assert (E2 : nth_error (fst (run cfg (ops ++ [o]))) l = None)
      by (apply nth_error_None; rewrite (abs_eq_length _ _ Ha); exact Hl).
    rewrite E1, E2. reflexivity.
Qed.

(* along loaders without a type set, every name that resolves is listed *)
Lemma has_listed_plain : forall f st l tn,
  inv st -> l < length st -> l < f -> plain_chain (abs st) l ->
  tn_of_key (map_key tn) = Some tn -> tn_wf tn = true ->
  spec_has (abs st) l tn = true -> listed (abs st) l tn.
Proof.
  induction f as [|f IH]; intros st l tn Hi Hl Hf Hpc T Hw Hh; [lia|].
  destruct (nth_error st l) as [nd|] eqn:E; [|apply nth_error_None in E; lia].
  assert (Ea : nth_error (abs st) l = Some (abs_node nd)) by (rewrite nth_abs, E; reflexivity).
  pose proof Hh as Hh'. unfold spec_has, spec_resolve_top, fuel_of in Hh'.
  rewrite spec_resolve_S, Ea in Hh'. cbn [abs_node akind abind] in Hh'.
  assert (Hroot : forall v, assoc (map_key tn) (abs_ents (nents nd)) = Some v ->
            In (map_key tn) (map fst (abind (abs_node nd)))).
  { intros v Hv. apply assoc_in in Hv. cbn [abs_node abind]. change (map_key tn) with (fst (map_key tn, v)).
    apply in_map. exact Hv. }
  destruct (nkind nd) as [| |p|p ts] eqn:K.
  - destruct (assoc (map_key tn) (abs_ents (nents nd))) as [v|] eqn:Hv; [|discriminate].
    eapply listed_root; eauto. cbn [abs_node akind]. rewrite K. reflexivity.
  - destruct (assoc (map_key tn) (abs_ents (nents nd))) as [v|] eqn:Hv; [|discriminate].
    eapply listed_root; eauto. cbn [abs_node akind]. rewrite K. reflexivity.
  - assert (Hp : p < l) by (eapply inv_parent; eauto; rewrite K; reflexivity).
    destruct (spec_has (abs st) p tn) eqn:Hhp.
    + eapply listed_parent; [exact Ea|cbn [abs_node akind]; exact K|].
      apply (IH st p tn Hi ltac:(lia) ltac:(lia)); try assumption.
      intros q nd0 p0 ts0 Hq. apply Hpc. right. destruct Hq as [->|Hq].
      * eapply anc_parent; [exact Ea|cbn [abs_node akind]; rewrite K; reflexivity].
      * eapply anc_step; [exact Ea|cbn [abs_node akind]; rewrite K; reflexivity|exact Hq].
    + rewrite (resolve_of_has_false st p tn (l + length (tn_name tn)) Hi Hw ltac:(lia) ltac:(lia) Hhp) in Hh'.
      destruct (assoc (map_key tn) (abs_ents (nents nd))) as [v|] eqn:Hv; [|discriminate].
      eapply listed_own; eauto.
  - exfalso. eapply (Hpc l (abs_node nd) p ts); [left; reflexivity|exact Ea|cbn [abs_node akind]; exact K].
Qed.

Theorem discover_complete_plain cfg ops l P ks tn :
  cfg_wf cfg = true -> forallb op_wf ops = true ->
  discover (S l) (fst (run cfg ops)) l P = DNames ks ->
  plain_chain (abs (fst (run cfg ops))) l ->
  tn_of_key (map_key tn) = Some tn -> tn_wf tn = true ->
  spec_has (abs (fst (run cfg ops))) l tn = true -> P tn = true ->
  In (map_key tn) ks.
Proof.
  intros Hc Hw Hd Hpc T Hwf Hh HP.
  destruct (discover_exact cfg ops l P ks Hc Hw Hd) as (_ & _ & Hm & _).
  apply Hm. exists tn. split; [|tauto].
  pose proof (reachable_inv cfg ops Hc Hw) as Hi.
  destruct (Nat.lt_ge_cases l (length (fst (run cfg ops)))) as [Hl|Hl].
  - apply (has_listed_plain (S l) _ l tn Hi Hl ltac:(lia) Hpc T Hwf Hh).
  - unfold spec_has, spec_resolve_top, fuel_of in Hh. rewrite spec_resolve_S in Hh.
    assert (E : nth_error (abs (fst (run cfg ops))) l = None) by (apply nth_error_None; rewrite abs_length; exact Hl).
    rewrite E in Hh. discriminate.
Qed.
