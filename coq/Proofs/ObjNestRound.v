(* ObjNestRound.v - C17, nested family (Model/ObjNest.v), for ALL well-formed types and ALL instances (induction over the
   type, which contains the Object types it refers to: the nesting order of a world is the subterm order of `nty`):

     coerce_to_init        coerceTo of the full init-hash form of an instance gives the instance back
     named_from_init       hence the named creator, given every attribute in its init-hash form, builds the object the
                           positional creator builds from the instances (positional_of_instances)
     init_hash_roundtrip   px.New(T, o.InitHash()) = o                                                              *)
From Coq Require Import ZArith NArith Bool List.
From PcoreV Require Import Model.Base Model.ObjNest Proofs.ObjNestProofs.
Import ListNotations.

(* ---- hashes read by name ---- *)

Definition agree (names : list str) (h g : list (str * nvalue)) : Prop :=
  forall k, nmem k names = true -> nhget h k = nhget g k.

Lemma agree_head k x names h tl : agree (k :: names) h ((k, x) :: tl) -> nhget h k = Some x.
Proof.
  intros A. rewrite (A k); cbn [nmem nhget]; rewrite str_eqb_refl; reflexivity.
Qed.

Lemma agree_shift k x names h tl :
  nmem k names = false -> agree (k :: names) h ((k, x) :: tl) -> agree names h tl.
Proof.
  intros Hk A k0 H0. rewrite (A k0); cbn [nmem nhget].
  - destruct (str_eqb_spec k k0) as [He|Hn]; [subst k0; congruence|reflexivity].
  - rewrite H0. apply orb_true_r.
Qed.

Lemma agree_tail k names h g : agree (k :: names) h g -> agree names h g.
Proof. intros A k0 H0. apply A. cbn [nmem]. rewrite H0. apply orb_true_r. Qed.

Lemma agree_refl names h : agree names h h.
Proof. intros k _. reflexivity. Qed.

Lemma nmem_in k l : In k l -> nmem k l = true.
Proof.
  induction l as [|x r IH]; cbn [In nmem]; [intros []|].
  intros [He|Hi]; [subst x; rewrite str_eqb_refl; reflexivity|rewrite (IH Hi); apply orb_true_r].
Qed.

Lemma nhget_none h k : nmem k (map fst h) = false -> nhget h k = None.
Proof.
  induction h as [|[k' v] r IH]; cbn [map fst nmem nhget]; [reflexivity|].
  intros H. apply orb_false_iff in H. destruct H as [H1 H2]. rewrite H1. exact (IH H2).
Qed.

Lemma nhget_some h k : nmem k (map fst h) = true -> exists v, nhget h k = Some v.
Proof.
  induction h as [|[k' v] r IH]; cbn [map fst nmem nhget]; [discriminate|].
  intros H. destruct (str_eqb k' k); [exists v; reflexivity|exact (IH H)].
Qed.

Lemma nhget_in h k v : nnodup (map fst h) = true -> In (k, v) h -> nhget h k = Some v.
Proof.
  induction h as [|[k' v'] r IH]; cbn [map fst nnodup nhget In]; [intros _ []|].
  intros N [He|Hi].
  - inversion He; subst. rewrite str_eqb_refl. reflexivity.
  - apply andb_true_iff in N. destruct N as [N1 N2]. apply negb_true_iff in N1.
    destruct (str_eqb_spec k' k) as [He|Hn]; [|exact (IH N2 Hi)].
    subst k'. rewrite (nmem_in k (map fst r)) in N1; [discriminate|].
    change k with (fst (k, v)). apply in_map. exact Hi.
Qed.

(* ---- lists of members / attributes ---- *)

Fixpoint mty (t : nty) (k : str) : option nty :=
  match t with
  | NCons k' _ vt rest => if str_eqb k' k then Some vt else mty rest k
  | _ => None
  end.

Fixpoint allm (P : nty -> Prop) (t : nty) : Prop :=
  match t with NCons _ _ vt rest => P vt /\ allm P rest | _ => True end.

Lemma allm_mty P t : allm P t -> forall k vt, mty t k = Some vt -> P vt.
Proof.
  induction t as [| |t' _|t' _|t' _| |k0 d vt _ rest IHr|ms _|n attrs _]; intros A k vt0 E; cbn [mty] in E; try discriminate.
  cbn [allm] in A. destruct A as [A1 A2]. destruct (str_eqb k0 k); [inversion E; subst; exact A1|exact (IHr A2 _ _ E)].
Qed.

Lemma nmem_mty t k : nmem k (nnames t) = true -> exists vt, mty t k = Some vt.
Proof.
  induction t as [| |t' _|t' _|t' _| |k0 d vt _ rest IHr|ms _|n attrs _]; cbn [nnames nmem mty]; try discriminate.
  intros H. destruct (str_eqb k0 k); [exists vt; reflexivity|exact (IHr H)].
Qed.

Lemma centry_mty t k vt x : mty t k = Some vt -> centry t k x = coerce vt x.
Proof.
  induction t as [| |t' _|t' _|t' _| |k0 d vt0 _ rest IHr|ms _|n attrs _]; cbn [mty centry]; try discriminate.
  destruct (str_eqb k0 k); [intros E; inversion E; subst; reflexivity|exact IHr].
Qed.

Lemma to_init_entry_mty t k vt x : mty t k = Some vt -> to_init_entry t k x = to_init vt x.
Proof.
  induction t as [| |t' _|t' _|t' _| |k0 d vt0 _ rest IHr|ms _|n attrs _]; cbn [mty to_init_entry]; try discriminate.
  destruct (str_eqb k0 k); [intros E; inversion E; subst; reflexivity|exact IHr].
Qed.

Lemma gm_get init t h k vt v :
  ginst_members init t h = true -> mty t k = Some vt -> nhget h k = Some v -> ginst init vt v = true.
Proof.
  induction t as [| |t' _|t' _|t' _| |k0 d vt0 _ rest IHr|ms _|n attrs _]; cbn [mty ginst_members]; try discriminate.
  intros G E Hh. apply andb_true_iff in G. destruct G as [G1 G2].
  destruct (str_eqb_spec k0 k) as [He|Hn]; [|exact (IHr G2 E Hh)].
  subst k0. inversion E; subst vt0. rewrite Hh in G1. exact G1.
Qed.

Lemma nwf_names chk t : nwf_at chk t = true -> nnodup (nnames t) = true.
Proof.
  induction t as [| |t' _|t' _|t' _| |k0 d vt _ rest IHr|ms _|n attrs _]; cbn [nnames nnodup]; try reflexivity.
  intros W. cbn [nwf_at] in W. repeat (apply andb_true_iff in W; destruct W as [W ?]).
  rewrite H0. rewrite (IHr H2). reflexivity.
Qed.

Lemma zipv_keys t : forall vals, ginst_vals false t vals = true -> map fst (zipv t vals) = nnames t.
Proof.
  induction t as [| |t' _|t' _|t' _| |k0 d vt _ rest IHr|ms _|n attrs _]; intros vals G; cbn [zipv nnames]; try reflexivity.
  cbn [ginst_vals] in G. destruct vals as [|v r]; [discriminate|]. apply andb_true_iff in G. destruct G as [_ G].
  cbn [map fst]. rewrite (IHr _ G). reflexivity.
Qed.

Lemma to_init_vals_keys t : forall vals, ginst_vals false t vals = true -> map fst (to_init_vals t vals) = nnames t.
Proof.
  induction t as [| |t' _|t' _|t' _| |k0 d vt _ rest IHr|ms _|n attrs _]; intros vals G; cbn [to_init_vals nnames]; try reflexivity.
  cbn [ginst_vals] in G. destruct vals as [|v r]; [discriminate|]. apply andb_true_iff in G. destruct G as [_ G].
  cbn [map fst]. rewrite (IHr _ G). reflexivity.
Qed.

(* ---- small facts about coerce / to_init ---- *)

Lemma coerce_unfold t x : (if ginst false t x then Some x else csw t x) = coerce t x.
Proof. reflexivity. Qed.

Lemma coerce_inst_eq t x v : coerce t x = Some v -> ginst false t x = true -> x = v.
Proof. unfold coerce, ninst. intros E G. rewrite G in E. inversion E. reflexivity. Qed.

Lemma to_init_undef t : forall v, to_init t v = NVUndef -> v = NVUndef.
Proof.
  induction t as [| |t' IH|t' IH|t' IH| |k d vt IHv rest IHr|ms IH|n attrs IH]; intros v E;
    destruct v; cbn [to_init] in E; try discriminate; try reflexivity; try exact E.
  all: apply IH in E; discriminate.
Qed.

Lemma all_some_map_id {A B} (f : B -> option A) (g : A -> B) l :
  (forall x, In x l -> f (g x) = Some x) -> all_some (map f (map g l)) = Some l.
Proof.
  induction l as [|x r IH]; intros H; cbn [map all_some]; [reflexivity|].
  rewrite (H x (or_introl eq_refl)). rewrite IH; [reflexivity|]. intros y Hy. apply H. right. exact Hy.
Qed.

Lemma map_id_in {A} (g : A -> A) l : (forall x, In x l -> g x = x) -> map g l = l.
Proof.
  induction l as [|x r IH]; intros H; cbn [map]; [reflexivity|].
  rewrite (H x (or_introl eq_refl)), IH; [reflexivity|]. intros y Hy. apply H. right. exact Hy.
Qed.

(* ---- the Object case: el, the merge, build ---- *)

Definition cti (t : nty) : Prop := forall v, ginst false t v = true -> coerce t (to_init t v) = Some v.

Lemma cattrs_to_init rest : forall vals h,
  allm cti rest -> nnodup (nnames rest) = true -> ginst_vals false rest vals = true ->
  agree (nnames rest) h (to_init_vals rest vals) ->
  cattrs rest h = Some (zipv rest vals).
Proof.
  induction rest as [| |t' _|t' _|t' _| |k d vt _ r IHr|ms _|n attrs _]; intros vals h A N G Ag; cbn [cattrs zipv]; try reflexivity.
  cbn [ginst_vals] in G. destruct vals as [|v r']; [discriminate|]. apply andb_true_iff in G. destruct G as [G1 G2].
  cbn [allm] in A. destruct A as [A1 A2]. cbn [nnames nnodup] in N. apply andb_true_iff in N. destruct N as [N1 N2].
  apply negb_true_iff in N1. cbn [nnames to_init_vals] in Ag.
  rewrite (agree_head _ _ _ _ _ Ag). rewrite coerce_unfold, (A1 _ G1).
  rewrite (IHr r' h A2 N2 G2 (agree_shift _ _ _ _ _ N1 Ag)). reflexivity.
Qed.

Lemma build_zip rest : forall vals m,
  nnodup (nnames rest) = true -> ginst_vals false rest vals = true ->
  agree (nnames rest) m (zipv rest vals) -> build rest m = Some vals.
Proof.
  induction rest as [| |t' _|t' _|t' _| |k d vt _ r IHr|ms _|n attrs _]; intros vals m N G Ag; cbn [build];
    try (cbn [ginst_vals] in G; destruct vals; [reflexivity|discriminate]).
  cbn [ginst_vals] in G. destruct vals as [|v r']; [discriminate|]. apply andb_true_iff in G. destruct G as [G1 G2].
  cbn [nnames nnodup] in N. apply andb_true_iff in N. destruct N as [N1 N2]. apply negb_true_iff in N1.
  cbn [nnames zipv] in Ag. rewrite (agree_head _ _ _ _ _ Ag).
  rewrite (IHr r' m N2 G2 (agree_shift _ _ _ _ _ N1 Ag)). reflexivity.
Qed.

Lemma merge_keys h o :
  (forall kv, In kv o -> nmem (fst kv) (map fst h) = true) -> map fst (nhmerge h o) = map fst h.
Proof.
  intros H. unfold nhmerge. rewrite map_app.
  assert (F : filter (fun kv : str * nvalue => match nhget h (fst kv) with Some _ => false | None => true end) o = []).
  { induction o as [|kv r IH]; cbn [filter]; [reflexivity|].
    destruct (nhget_some h (fst kv) (H kv (or_introl eq_refl))) as [v Hv]. rewrite Hv.
    apply IH. intros y Hy. apply H. right. exact Hy. }
  rewrite F. cbn [map]. rewrite app_nil_r. rewrite map_map. apply map_ext.
  intros kv. destruct (nhget o (fst kv)); reflexivity.
Qed.

Lemma keys_known_names attrs m : map fst m = nnames attrs -> nnodup (nnames attrs) = true -> keys_known attrs m = true.
Proof.
  intros K N. unfold keys_known. rewrite K, N, andb_true_r. apply forallb_forall. intros kv Hi.
  apply nmem_in. rewrite <- K. apply in_map. exact Hi.
Qed.

(* coerceTo on the init-hash form of an object whose attribute types satisfy the claim *)
Lemma csw_obj_to_init n attrs vals :
  allm cti attrs -> nnodup (nnames attrs) = true -> ginst_vals false attrs vals = true ->
  csw (NObj n attrs) (NVHash (to_init_vals attrs vals)) = Some (NVObj n vals).
Proof.
  intros A N G. cbn [csw].
  rewrite (cattrs_to_init attrs vals _ A N G (agree_refl _ _)).
  assert (K : map fst (nhmerge (to_init_vals attrs vals) (zipv attrs vals)) = nnames attrs).
  { rewrite merge_keys; [exact (to_init_vals_keys _ _ G)|].
    intros kv Hi. rewrite (to_init_vals_keys _ _ G), <- (zipv_keys _ _ G). apply nmem_in. apply in_map. exact Hi. }
  cbv zeta. rewrite (keys_known_names _ _ K N).
  rewrite (build_zip attrs vals _ N G); [reflexivity|].
  intros k Hk. rewrite nhget_merge.
  destruct (nhget_some (zipv attrs vals) k) as [v Hv]; [rewrite (zipv_keys _ _ G); exact Hk|].
  rewrite Hv. reflexivity.
Qed.

(* ---- the main induction ---- *)

Lemma ginst_opt_cases t' v : ginst false (NOpt t') v = true ->
  v = NVUndef \/ (v <> NVUndef /\ ginst false t' v = true /\ to_init (NOpt t') v = to_init t' v).
Proof. destruct v; cbn [ginst to_init]; intros G; [left; reflexivity|right; repeat split; try exact G; discriminate ..]. Qed.

Lemma ginst_opt_not_undef t' x : x <> NVUndef -> ginst false (NOpt t') x = ginst false t' x.
Proof. destruct x; cbn [ginst]; intros H; [congruence|reflexivity ..]. Qed.

Lemma cti_all t : forall chk, nwf_at chk t = true -> cti t /\ allm cti t.
Proof.
  induction t as [| |t' IH|t' IH|t' IH| |k d vt IHv rest IHr|ms IH|n attrs IH]; intros chk W.
  - split; [|exact I]. intros v G. apply coerce_instance_id. destruct v; try discriminate G. exact G.
  - split; [|exact I]. intros v G. apply coerce_instance_id. destruct v; try discriminate G. exact G.
  - split; [|exact I]. cbn [nwf_at] in W. apply andb_true_iff in W. destruct W as [W Wo].
    apply andb_true_iff in W. destruct W as [W _]. destruct (IH _ W) as [C _].
    intros v G. destruct (ginst_opt_cases _ _ G) as [Hu|[Hn [G' Et]]].
    + subst v. reflexivity.
    + rewrite Et. pose proof (C _ G') as E. unfold coerce, ninst in *.
      assert (Hx : to_init t' v <> NVUndef) by (intros Hx; apply to_init_undef in Hx; contradiction).
      rewrite (ginst_opt_not_undef _ _ Hx).
      destruct (ginst false t' (to_init t' v)); [exact E|].
      cbn [csw]. destruct t'; try exact E. discriminate Wo.
  - split; [|exact I]. cbn [nwf_at] in W. apply andb_true_iff in W. destruct W as [W _]. destruct (IH _ W) as [C _].
    intros v G. destruct v as [| | |l| |]; try discriminate G. cbn [ginst] in G. cbn [to_init].
    pose proof (proj1 (forallb_forall _ _) G) as Gl.
    assert (S : csw (NArr t') (NVArr (map (to_init t') l)) = Some (NVArr l)).
    { cbn [csw]. rewrite (all_some_map_id (fun x => if ginst false t' x then Some x else csw t' x) (to_init t') l); [reflexivity|].
      intros x Hx. rewrite coerce_unfold. exact (C _ (Gl _ Hx)). }
    unfold coerce, ninst. destruct (ginst false (NArr t') (NVArr (map (to_init t') l))) eqn:Gi; [|exact S].
    cbn [ginst] in Gi. pose proof (proj1 (forallb_forall _ _) Gi) as Gm.
    rewrite (map_id_in (to_init t') l); [reflexivity|].
    intros x Hx. apply (coerce_inst_eq t'); [exact (C _ (Gl _ Hx))|]. apply Gm. apply in_map. exact Hx.
  - split; [|exact I]. cbn [nwf_at] in W. apply andb_true_iff in W. destruct W as [W _]. destruct (IH _ W) as [C _].
    intros v G. destruct v as [| | | |h|]; try discriminate G. cbn [ginst] in G. cbn [to_init].
    pose proof (proj1 (forallb_forall _ _) G) as Gl. cbv beta in Gl.
    set (g := fun kv : str * nvalue => (fst kv, to_init t' (snd kv))).
    assert (S : csw (NHashV t') (NVHash (map g h)) = Some (NVHash h)).
    { cbn [csw].
      rewrite (all_some_map_id (fun kv : str * nvalue => option_map (pair (fst kv))
                 (if ginst false t' (snd kv) then Some (snd kv) else csw t' (snd kv))) g h); [reflexivity|].
      intros [k x] Hx. unfold g. cbn [fst snd]. pose proof (C _ (Gl _ Hx)) as Cx. cbn [snd] in Cx.
      rewrite coerce_unfold, Cx. reflexivity. }
    unfold coerce, ninst. destruct (ginst false (NHashV t') (NVHash (map g h))) eqn:Gi; [|exact S].
    cbn [ginst] in Gi. pose proof (proj1 (forallb_forall _ _) Gi) as Gm. cbv beta in Gm.
    rewrite (map_id_in g h); [reflexivity|].
    intros [k x] Hx. unfold g. cbn [fst snd]. f_equal.
    apply (coerce_inst_eq t'); [exact (C _ (Gl _ Hx))|]. exact (Gm (g (k, x)) (in_map g _ _ Hx)).
  - split; [|exact I]. intros v G. discriminate G.
  - cbn [nwf_at] in W. repeat (apply andb_true_iff in W; destruct W as [W ?]).
    split; [intros v G; discriminate G|]. cbn [allm]. split; [exact (proj1 (IHv _ W))|exact (proj2 (IHr _ H2))].
  - split; [|exact I]. cbn [nwf_at] in W. apply andb_true_iff in W. destruct W as [W _].
    pose proof (proj2 (IH _ W)) as A. pose proof (nwf_names _ _ W) as N. clear IH.
    intros v G. destruct v as [| | | |h|]; try discriminate G. cbn [ginst] in G. cbn [to_init].
    apply andb_true_iff in G. destruct G as [Gk Gm]. pose proof Gk as Gk0. unfold keys_known in Gk.
    apply andb_true_iff in Gk. destruct Gk as [Gk1 Gk2]. pose proof (proj1 (forallb_forall _ _) Gk1) as Gkn. cbv beta in Gkn.
    set (g := fun kv : str * nvalue => (fst kv, to_init_entry ms (fst kv) (snd kv))).
    (* per entry *)
    assert (Pe : forall k x, In (k, x) h -> exists vt, mty ms k = Some vt /\ ginst false vt x = true
                                               /\ coerce vt (to_init vt x) = Some x).
    { intros k x Hx. destruct (nmem_mty ms k (Gkn _ Hx)) as [vt Hvt]. exists vt.
      pose proof (gm_get _ _ _ _ _ _ Gm Hvt (nhget_in _ _ _ Gk2 Hx)) as Gx.
      repeat split; [exact Hvt|exact Gx|exact (allm_mty _ _ A _ _ Hvt _ Gx)]. }
    assert (Kg : map fst (map g h) = map fst h) by (rewrite map_map; reflexivity).
    assert (S : csw (NStruct ms) (NVHash (map g h)) = Some (NVHash h)).
    { cbn [csw].
      rewrite (all_some_map_id (fun kv : str * nvalue => option_map (pair (fst kv)) (centry ms (fst kv) (snd kv))) g h).
      - cbn [ginst]. rewrite Gk0, Gm. reflexivity.
      - intros [k x] Hx. unfold g. cbn [fst snd]. destruct (Pe _ _ Hx) as [vt [Hvt [_ Cx]]].
        rewrite (to_init_entry_mty _ _ _ _ Hvt), (centry_mty _ _ _ _ Hvt), Cx. reflexivity. }
    unfold coerce, ninst. destruct (ginst false (NStruct ms) (NVHash (map g h))) eqn:Gi; [|exact S].
    cbn [ginst] in Gi. apply andb_true_iff in Gi. destruct Gi as [_ Gi].
    rewrite (map_id_in g h); [reflexivity|].
    intros [k x] Hx. unfold g. cbn [fst snd]. f_equal. destruct (Pe _ _ Hx) as [vt [Hvt [_ Cx]]].
    rewrite (to_init_entry_mty _ _ _ _ Hvt). apply (coerce_inst_eq vt); [exact Cx|].
    refine (gm_get _ _ _ _ _ _ Gi Hvt _). apply nhget_in; [rewrite Kg; exact Gk2|].
    rewrite <- (to_init_entry_mty _ _ _ _ Hvt). exact (in_map g _ _ Hx).
  - split; [|exact I]. cbn [nwf_at] in W. apply andb_true_iff in W. destruct W as [W _].
    pose proof (proj2 (IH _ W)) as A. pose proof (nwf_names _ _ W) as N. clear IH.
    intros v G. destruct v as [| | | |h|m vals]; try discriminate G. cbn [ginst] in G. cbn [to_init].
    apply andb_true_iff in G. destruct G as [Gn Gv]. apply str_eqb_eq in Gn. subst m.
    unfold coerce, ninst. cbn [ginst andb]. exact (csw_obj_to_init n attrs vals A N Gv).
Qed.

(* coerceTo of the full init-hash form of an instance gives the instance back *)
Lemma coerce_to_init t v : nwf t = true -> ninst t v = true -> coerce t (to_init t v) = Some v.
Proof. unfold nwf, ninst. intros W G. exact (proj1 (cti_all t true W) v G). Qed.

(* ---- the positional creator on instances ---- *)

Lemma positional_of_instances attrs : forall vals,
  ginst_vals false attrs vals = true -> positional_vals attrs vals = inr vals.
Proof.
  induction attrs as [| |t' _|t' _|t' _| |k d vt _ r IHr|ms _|n a _]; intros vals G; cbn [positional_vals];
    try (cbn [ginst_vals] in G; destruct vals; [reflexivity|discriminate]).
  cbn [ginst_vals] in G. destruct vals as [|v r']; [discriminate|]. apply andb_true_iff in G. destruct G as [G1 G2].
  assert (Gi : ginst (is_obj_ty vt) vt v = true).
  { destruct (is_obj_ty vt); [exact (proj1 (ginst_false_true vt) v G1)|exact G1]. }
  rewrite Gi, G1, (IHr _ G2). reflexivity.
Qed.

(* ---- InitHash and back ---- *)

Fixpoint nvalue_eqb_eq (a : nvalue) : forall b, nvalue_eqb a b = true -> a = b.
Proof.
  destruct a as [|z|s|l|l|n l]; intros b E; destruct b as [|z'|s'|l'|l'|n' l']; cbn [nvalue_eqb] in E; try discriminate.
  - reflexivity.
  - apply Z.eqb_eq in E. subst. reflexivity.
  - apply str_eqb_eq in E. subst. reflexivity.
  - f_equal. revert l' E. induction l as [|u x IH]; intros [|w y] E; try discriminate; [reflexivity|].
    apply andb_true_iff in E. destruct E as [E1 E2]. f_equal; [exact (nvalue_eqb_eq u w E1)|exact (IH _ E2)].
  - f_equal. revert l' E. induction l as [|[k u] x IH]; intros [|[k' w] y] E; try discriminate; [reflexivity|].
    apply andb_true_iff in E. destruct E as [E1 E2]. apply andb_true_iff in E1. destruct E1 as [E0 E1].
    apply str_eqb_eq in E0. subst k'. f_equal; [f_equal; exact (nvalue_eqb_eq u w E1)|exact (IH _ E2)].
  - apply andb_true_iff in E. destruct E as [E0 E]. apply str_eqb_eq in E0. subst n'. f_equal.
    revert l' E. induction l as [|u x IH]; intros [|w y] E; try discriminate; [reflexivity|].
    apply andb_true_iff in E. destruct E as [E1 E2]. f_equal; [exact (nvalue_eqb_eq u w E1)|exact (IH _ E2)].
Qed.

Lemma ninit_hash_in rest : forall vals kv, In kv (ninit_hash rest vals) -> nmem (fst kv) (nnames rest) = true.
Proof.
  induction rest as [| |t' _|t' _|t' _| |k d vt _ r IHr|ms _|n a _]; intros vals kv Hi; cbn [ninit_hash] in Hi; try contradiction.
  destruct vals as [|v r']; [contradiction|]. cbn [nnames nmem].
  destruct (match d with Some dv => nvalue_eqb dv v | None => false end).
  - rewrite (IHr _ _ Hi). apply orb_true_r.
  - destruct Hi as [He|Hi]; [subst kv; cbn [fst]; rewrite str_eqb_refl; reflexivity|rewrite (IHr _ _ Hi); apply orb_true_r].
Qed.

Lemma ninit_hash_notin rest vals k : nmem k (nnames rest) = false -> nmem k (map fst (ninit_hash rest vals)) = false.
Proof.
  intros H. destruct (nmem k (map fst (ninit_hash rest vals))) eqn:E; [|reflexivity].
  destruct (nhget_some _ _ E) as [v Hv].
  assert (Hi : In (k, v) (ninit_hash rest vals)).
  { clear E H. induction (ninit_hash rest vals) as [|[k' v'] x IH]; cbn [nhget] in Hv; [discriminate|].
    destruct (str_eqb_spec k' k) as [He|Hn]; [inversion Hv; subst; left; reflexivity|right; exact (IH Hv)]. }
  pose proof (ninit_hash_in _ _ _ Hi) as Hm. cbn [fst] in Hm. congruence.
Qed.

Lemma ninit_hash_nodup rest : forall vals, nnodup (nnames rest) = true -> nnodup (map fst (ninit_hash rest vals)) = true.
Proof.
  induction rest as [| |t' _|t' _|t' _| |k d vt _ r IHr|ms _|n a _]; intros vals N; cbn [ninit_hash]; try reflexivity.
  destruct vals as [|v r']; [reflexivity|]. cbn [nnames nnodup] in N. apply andb_true_iff in N. destruct N as [N1 N2].
  apply negb_true_iff in N1.
  destruct (match d with Some dv => nvalue_eqb dv v | None => false end); [exact (IHr _ N2)|].
  cbn [map fst nnodup]. rewrite (ninit_hash_notin _ _ _ N1), (IHr _ N2). reflexivity.
Qed.

(* one step of the walks below: what the hash holds under the first name, and the agreement for the others *)
Lemma ninit_hash_step k d vt r v r' h :
  nmem k (nnames r) = false ->
  agree (nnames (NCons k d vt r)) h (ninit_hash (NCons k d vt r) (v :: r')) ->
  agree (nnames r) h (ninit_hash r r')
  /\ ((d = Some v /\ nhget h k = None /\ ninit_hash (NCons k d vt r) (v :: r') = ninit_hash r r')
      \/ (nhget h k = Some v /\ ninit_hash (NCons k d vt r) (v :: r') = (k, v) :: ninit_hash r r')).
Proof.
  intros N Ag. cbn [nnames ninit_hash] in *.
  destruct (match d with Some dv => nvalue_eqb dv v | None => false end) eqn:Ed.
  - split; [exact (agree_tail _ _ _ _ Ag)|]. left. destruct d as [dv|]; [|discriminate].
    repeat split; [f_equal; exact (nvalue_eqb_eq _ _ Ed)|].
    rewrite (Ag k); [|cbn [nmem]; rewrite str_eqb_refl; reflexivity].
    apply nhget_none. exact (ninit_hash_notin _ _ _ N).
  - split; [exact (agree_shift _ _ _ _ _ N Ag)|]. right. split; [exact (agree_head _ _ _ _ _ Ag)|reflexivity].
Qed.

Lemma gm_init_hash rest : forall vals h,
  nnodup (nnames rest) = true -> ginst_vals false rest vals = true ->
  agree (nnames rest) h (ninit_hash rest vals) -> ginst_members true rest h = true.
Proof.
  induction rest as [| |t' _|t' _|t' _| |k d vt _ r IHr|ms _|n a _]; intros vals h N G Ag; cbn [ginst_members]; try reflexivity.
  cbn [ginst_vals] in G. destruct vals as [|v r']; [discriminate|]. apply andb_true_iff in G. destruct G as [G1 G2].
  cbn [nnames nnodup] in N. apply andb_true_iff in N. destruct N as [N1 N2]. apply negb_true_iff in N1.
  destruct (ninit_hash_step _ _ _ _ _ _ _ N1 Ag) as [Ag' [[Hd [Hk _]]|[Hk _]]]; rewrite Hk, (IHr _ _ N2 G2 Ag'), andb_true_r.
  - subst d. reflexivity.
  - exact (proj1 (ginst_false_true vt) v G1).
Qed.

Lemma cattrs_init_hash rest : forall vals h,
  nnodup (nnames rest) = true -> ginst_vals false rest vals = true ->
  agree (nnames rest) h (ninit_hash rest vals) -> cattrs rest h = Some (ninit_hash rest vals).
Proof.
  induction rest as [| |t' _|t' _|t' _| |k d vt _ r IHr|ms _|n a _]; intros vals h N G Ag;
    try (cbn [cattrs ninit_hash]; reflexivity).
  cbn [ginst_vals] in G. destruct vals as [|v r']; [discriminate|]. apply andb_true_iff in G. destruct G as [G1 G2].
  cbn [nnames nnodup] in N. apply andb_true_iff in N. destruct N as [N1 N2]. apply negb_true_iff in N1.
  destruct (ninit_hash_step _ _ _ _ _ _ _ N1 Ag) as [Ag' [[Hd [Hk Ei]]|[Hk Ei]]]; rewrite Ei; cbn [cattrs];
    rewrite Hk, ?G1, (IHr _ _ N2 G2 Ag'); reflexivity.
Qed.

Lemma build_init_hash rest : forall vals m,
  nnodup (nnames rest) = true -> ginst_vals false rest vals = true ->
  agree (nnames rest) m (ninit_hash rest vals) -> build rest m = Some vals.
Proof.
  induction rest as [| |t' _|t' _|t' _| |k d vt _ r IHr|ms _|n a _]; intros vals m N G Ag; cbn [build];
    try (cbn [ginst_vals] in G; destruct vals; [reflexivity|discriminate]).
  cbn [ginst_vals] in G. destruct vals as [|v r']; [discriminate|]. apply andb_true_iff in G. destruct G as [G1 G2].
  cbn [nnames nnodup] in N. apply andb_true_iff in N. destruct N as [N1 N2]. apply negb_true_iff in N1.
  destruct (ninit_hash_step _ _ _ _ _ _ _ N1 Ag) as [Ag' [[Hd [Hk _]]|[Hk _]]]; rewrite Hk, ?Hd, (IHr _ _ N2 G2 Ag'); reflexivity.
Qed.

Lemma keys_known_init_hash attrs vals : nnodup (nnames attrs) = true -> keys_known attrs (ninit_hash attrs vals) = true.
Proof.
  intros N. unfold keys_known. rewrite (ninit_hash_nodup _ _ N), andb_true_r.
  apply forallb_forall. intros kv Hi. exact (ninit_hash_in _ _ _ Hi).
Qed.

(* the named creator rebuilds the object from its InitHash; px.New dispatches such a hash to the named creator *)
Lemma named_init_hash_roundtrip n attrs vals :
  nwf (NObj n attrs) = true -> ninst (NObj n attrs) (NVObj n vals) = true ->
  named_new n attrs (ninit_hash attrs vals) = NOk (NVObj n vals)
  /\ nnew n attrs [NVHash (ninit_hash attrs vals)] = NOk (NVObj n vals).
Proof.
  unfold nwf, ninst. intros W G. cbn [nwf_at] in W. apply andb_true_iff in W. destruct W as [W _].
  pose proof (nwf_names _ _ W) as N. cbn [ginst] in G. apply andb_true_iff in G. destruct G as [_ G].
  assert (D : keys_known attrs (ninit_hash attrs vals) && ginst_members true attrs (ninit_hash attrs vals) = true).
  { rewrite (keys_known_init_hash _ _ N), (gm_init_hash _ _ _ N G (agree_refl _ _)). reflexivity. }
  assert (E : named_new n attrs (ninit_hash attrs vals) = NOk (NVObj n vals)).
  { unfold named_new. rewrite D. cbn [negb]. rewrite (cattrs_init_hash _ _ _ N G (agree_refl _ _)).
    rewrite (build_init_hash attrs vals _ N G); [reflexivity|].
    intros k _. rewrite nhget_merge. destruct (nhget (ninit_hash attrs vals) k); reflexivity. }
  split; [exact E|]. cbn [nnew]. rewrite D. exact E.
Qed.

(* ---- the init-hash form of an instance is admitted by the named dispatcher (an instance of typeAndInit(type)) ---- *)

Definition adm (t : nty) : Prop := forall v, ginst false t v = true -> ginst true t (to_init t v) = true.

Lemma nhget_map_val (F : str -> nvalue -> nvalue) h k :
  nhget (map (fun kv : str * nvalue => (fst kv, F (fst kv) (snd kv))) h) k = option_map (F k) (nhget h k).
Proof.
  induction h as [|[k' v] r IH]; cbn [map nhget fst snd option_map]; [reflexivity|].
  destruct (str_eqb_spec k' k) as [He|Hn]; [subst k'; reflexivity|exact IH].
Qed.

Lemma gm_to_init rest : forall h h',
  allm adm rest -> nnodup (nnames rest) = true -> ginst_members false rest h = true ->
  (forall k, nmem k (nnames rest) = true -> nhget h' k = option_map (to_init_entry rest k) (nhget h k)) ->
  ginst_members true rest h' = true.
Proof.
  induction rest as [| |t' _|t' _|t' _| |k d vt _ r IHr|ms _|n a _]; intros h h' A N G Hh; cbn [ginst_members]; try reflexivity.
  cbn [ginst_members] in G. apply andb_true_iff in G. destruct G as [G1 G2].
  cbn [allm] in A. destruct A as [A1 A2].
  cbn [nnames nnodup] in N. apply andb_true_iff in N. destruct N as [N1 N2]. apply negb_true_iff in N1.
  rewrite (IHr h h' A2 N2 G2), andb_true_r.
  - rewrite (Hh k); [|cbn [nnames nmem]; rewrite str_eqb_refl; reflexivity].
    cbn [to_init_entry]. rewrite str_eqb_refl.
    destruct (nhget h k) as [v|]; cbn [option_map]; [exact (A1 _ G1)|exact G1].
  - intros k0 H0. rewrite (Hh k0); [|cbn [nnames nmem]; rewrite H0; apply orb_true_r].
    cbn [to_init_entry]. destruct (str_eqb_spec k k0) as [He|Hn]; [subst k0; congruence|reflexivity].
Qed.

Lemma gm_to_init_vals rest : forall vals h',
  allm adm rest -> nnodup (nnames rest) = true -> ginst_vals false rest vals = true ->
  agree (nnames rest) h' (to_init_vals rest vals) -> ginst_members true rest h' = true.
Proof.
  induction rest as [| |t' _|t' _|t' _| |k d vt _ r IHr|ms _|n a _]; intros vals h' A N G Ag; cbn [ginst_members]; try reflexivity.
  cbn [ginst_vals] in G. destruct vals as [|v r']; [discriminate|]. apply andb_true_iff in G. destruct G as [G1 G2].
  cbn [allm] in A. destruct A as [A1 A2].
  cbn [nnames nnodup] in N. apply andb_true_iff in N. destruct N as [N1 N2]. apply negb_true_iff in N1.
  cbn [nnames to_init_vals] in Ag. rewrite (agree_head _ _ _ _ _ Ag), (A1 _ G1).
  exact (IHr r' h' A2 N2 G2 (agree_shift _ _ _ _ _ N1 Ag)).
Qed.

Lemma adm_all t : forall chk, nwf_at chk t = true -> adm t /\ allm adm t.
Proof.
  induction t as [| |t' IH|t' IH|t' IH| |k d vt IHv rest IHr|ms IH|n attrs IH]; intros chk W.
  - split; [|exact I]. intros v G. destruct v; try discriminate G. exact G.
  - split; [|exact I]. intros v G. destruct v; try discriminate G. exact G.
  - split; [|exact I]. cbn [nwf_at] in W. apply andb_true_iff in W. destruct W as [W _].
    apply andb_true_iff in W. destruct W as [W _]. destruct (IH _ W) as [C _].
    intros v G. destruct (ginst_opt_cases _ _ G) as [Hu|[Hn [G' Et]]]; [subst v; reflexivity|].
    rewrite Et. pose proof (C _ G') as E. cbn [ginst]. destruct (to_init t' v); [reflexivity|exact E ..].
  - split; [|exact I]. cbn [nwf_at] in W. apply andb_true_iff in W. destruct W as [W _]. destruct (IH _ W) as [C _].
    intros v G. destruct v as [| | |l| |]; try discriminate G. cbn [ginst] in G. cbn [to_init ginst].
    pose proof (proj1 (forallb_forall _ _) G) as Gl. apply forallb_forall. intros y Hy.
    apply in_map_iff in Hy. destruct Hy as [x [Ex Hx]]. subst y. exact (C _ (Gl _ Hx)).
  - split; [|exact I]. cbn [nwf_at] in W. apply andb_true_iff in W. destruct W as [W _]. destruct (IH _ W) as [C _].
    intros v G. destruct v as [| | | |h|]; try discriminate G. cbn [ginst] in G. cbn [to_init ginst].
    pose proof (proj1 (forallb_forall _ _) G) as Gl. cbv beta in Gl. apply forallb_forall. intros y Hy.
    apply in_map_iff in Hy. destruct Hy as [x [Ex Hx]]. subst y. cbn [snd]. exact (C _ (Gl _ Hx)).
  - split; [|exact I]. intros v G. discriminate G.
  - cbn [nwf_at] in W. repeat (apply andb_true_iff in W; destruct W as [W ?]).
    split; [intros v G; discriminate G|]. cbn [allm]. split; [exact (proj1 (IHv _ W))|exact (proj2 (IHr _ H2))].
  - split; [|exact I]. cbn [nwf_at] in W. apply andb_true_iff in W. destruct W as [W _].
    pose proof (proj2 (IH _ W)) as A. pose proof (nwf_names _ _ W) as N. clear IH.
    intros v G. destruct v as [| | | |h|]; try discriminate G. cbn [ginst] in G. cbn [to_init ginst].
    apply andb_true_iff in G. destruct G as [Gk Gm].
    set (g := fun kv : str * nvalue => (fst kv, to_init_entry ms (fst kv) (snd kv))).
    assert (Kg : map fst (map g h) = map fst h) by (rewrite map_map; reflexivity).
    apply andb_true_iff. split.
    + unfold keys_known in *. apply andb_true_iff in Gk. destruct Gk as [Gk1 Gk2]. rewrite Kg, Gk2, andb_true_r.
      pose proof (proj1 (forallb_forall _ _) Gk1) as Gl. cbv beta in Gl. apply forallb_forall. intros y Hy.
      apply in_map_iff in Hy. destruct Hy as [x [Ex Hx]]. subst y. exact (Gl _ Hx).
    + refine (gm_to_init ms h _ A N Gm _). intros k _. exact (nhget_map_val (to_init_entry ms) h k).
  - split; [|exact I]. cbn [nwf_at] in W. apply andb_true_iff in W. destruct W as [W _].
    pose proof (proj2 (IH _ W)) as A. pose proof (nwf_names _ _ W) as N. clear IH.
    intros v G. destruct v as [| | | |h|m vals]; try discriminate G. cbn [ginst] in G. cbn [to_init ginst].
    apply andb_true_iff in G. destruct G as [_ Gv].
    rewrite (keys_known_names _ _ (to_init_vals_keys _ _ Gv) N).
    exact (gm_to_init_vals attrs vals _ A N Gv (agree_refl _ _)).
Qed.

Lemma init_form_admitted t v : nwf t = true -> ninst t v = true -> ninst_init t (to_init t v) = true.
Proof. unfold nwf, ninst, ninst_init. intros W G. exact (proj1 (adm_all t true W) v G). Qed.

(* the named creator, given EVERY attribute in its full init-hash form (nested objects at every depth as hashes), builds
   the object the positional creator builds from the instances, and the one it builds itself from the instances by name *)
Lemma named_from_init n attrs vals :
  nwf (NObj n attrs) = true -> ninst (NObj n attrs) (NVObj n vals) = true ->
  nnew n attrs [NVHash (to_init_vals attrs vals)] = NOk (NVObj n vals)
  /\ named_new n attrs (to_init_vals attrs vals) = NOk (NVObj n vals)
  /\ named_new n attrs (zipv attrs vals) = NOk (NVObj n vals)
  /\ positional_new n attrs vals = NOk (NVObj n vals).
Proof.
  unfold nwf, ninst. intros W G. pose proof (proj1 (adm_all _ true W) _ G) as Ga.
  cbn [nwf_at] in W. apply andb_true_iff in W. destruct W as [W _].
  pose proof (nwf_names _ _ W) as N. pose proof (proj2 (cti_all _ true W)) as A.
  cbn [ginst] in G. apply andb_true_iff in G. destruct G as [_ G].
  cbn [to_init ginst andb] in Ga.
  assert (E : named_new n attrs (to_init_vals attrs vals) = NOk (NVObj n vals)).
  { pose proof (csw_obj_to_init n attrs vals A N G) as S. cbn [csw] in S. unfold named_new. rewrite Ga. cbn [negb].
    destruct (cattrs attrs (to_init_vals attrs vals)) as [el|]; [|discriminate S]. cbv zeta in S.
    destruct (keys_known attrs (nhmerge (to_init_vals attrs vals) el)); [|discriminate S].
    destruct (build attrs (nhmerge (to_init_vals attrs vals) el)) as [vs|]; [|discriminate S].
    cbn [option_map] in S. inversion S. reflexivity. }
  split; [cbn [nnew]; rewrite Ga; exact E|]. split; [exact E|]. split.
  - (* by name with the instances: the dispatcher admits them, coerceTo keeps them *)
    assert (Kz : keys_known attrs (zipv attrs vals) = true) by exact (keys_known_names _ _ (zipv_keys _ _ G) N).
    assert (Gz : forall rest vs h, nnodup (nnames rest) = true -> ginst_vals false rest vs = true ->
                  agree (nnames rest) h (zipv rest vs) ->
                  ginst_members true rest h = true /\ cattrs rest h = Some (zipv rest vs)).
    { clear. induction rest as [| |t' _|t' _|t' _| |k d vt _ r IHr|ms _|n a _]; intros vs h N G Ag;
        try (cbn [ginst_members cattrs zipv]; split; reflexivity).
      cbn [ginst_vals] in G. destruct vs as [|v r']; [discriminate|]. apply andb_true_iff in G. destruct G as [G1 G2].
      cbn [nnames nnodup] in N. apply andb_true_iff in N. destruct N as [N1 N2]. apply negb_true_iff in N1.
      cbn [nnames zipv] in Ag. cbn [ginst_members cattrs zipv]. rewrite (agree_head _ _ _ _ _ Ag), G1.
      destruct (IHr r' h N2 G2 (agree_shift _ _ _ _ _ N1 Ag)) as [I1 I2].
      rewrite I1, I2, (proj1 (ginst_false_true vt) v G1). split; reflexivity. }
    destruct (Gz attrs vals _ N G (agree_refl _ _)) as [Z1 Z2].
    unfold named_new. rewrite Kz, Z1, Z2. cbn [andb negb].
    rewrite (build_zip attrs vals _ N G); [reflexivity|].
    intros k _. rewrite nhget_merge. destruct (nhget (zipv attrs vals) k); reflexivity.
  - unfold positional_new. rewrite (positional_of_instances _ _ G). reflexivity.
Qed.

(* whatever px.New builds is rebuilt from its InitHash, and from its full init-hash form by coerceTo *)
Lemma constructed_roundtrip n attrs args m vals :
  nwf (NObj n attrs) = true -> nnew n attrs args = NOk (NVObj m vals) ->
  nnew n attrs [NVHash (ninit_hash attrs vals)] = NOk (NVObj m vals)
  /\ coerce (NObj n attrs) (to_init (NObj n attrs) (NVObj m vals)) = Some (NVObj m vals).
Proof.
  intros W E. pose proof (nnew_instance _ _ _ _ W E) as G.
  assert (Hm : m = n).
  { unfold ninst in G. cbn [ginst] in G. apply andb_true_iff in G. destruct G as [G _]. apply str_eqb_eq in G. congruence. }
  subst m. split; [exact (proj2 (named_init_hash_roundtrip _ _ _ W G))|exact (coerce_to_init _ _ W G)].
Qed.
